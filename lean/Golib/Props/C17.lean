/-
  Property C17 — the file logger keeps lines in order, rotates by date, prunes only its own
  files, and its log-read call is contained.

  Statements only; every proof is a reference to a lemma of Golib.Logger.*.  The model
  (`Logger.step`, `Logger.read`, `Logger.deleted`, …) describes logger/logfile/FileLogger.go
  with the three repairs of proposed/C17 applied (fix-D34: `Read` refuses names that leave
  `<home>/logs` and non-positive lengths; fix-D35: rotation installs the new file before it
  closes the old one; fix-D44: retention only parses all-digit date parts).  It is tied to the
  code on every run by harness/c17 (differential histories on the real logger with a frozen
  virtual clock) and by the regenerated facts of Golib.Gen.C17 (Golib/Props/C17Gen.lean).

  The calendar (`Cal`: yyyymmdd of a day unit, day unit of an 8-digit string) is a parameter:
  its correctness is property C19.

  Partial (named, not proved): atomicity of one `Write` with O_APPEND, the 10 s timer, the
  scheduler.  `rotation_keeps_all_lines` is a theorem about atomic actions (see Logger/Rotate).
-/
import Golib.Logger.RateLemmas
import Golib.Logger.ReadLemmas
import Golib.Logger.Rotate
import Golib.Logger.CalRealLemmas
import Golib.Logger.CacheHMap
import Golib.Logger.Concurrent
import Golib.Logger.HistoryLemmas
import Golib.Logger.RefreshLemmas
import Golib.Logger.FilesLemmas

namespace C17
open Logger

/-! ## level gate -/

/-- per entry point: Error*/Printf/Println always go on; Warn* iff level ≤ WARN(2);
    Info* iff level ≤ INFO(1); Debug* iff level ≤ DEBUG(0) -/
theorem level_gate (level : Int) :
    (∀ m ∈ [Meth.errorf, .error, .printf, .println, .printlnStd], m.passes level = true) ∧
    (∀ m ∈ [Meth.warnf, .warn], (m.passes level = true ↔ level ≤ 2)) ∧
    (∀ m ∈ [Meth.infof, .info, .infoln], (m.passes level = true ↔ level ≤ 1)) ∧
    (∀ m ∈ [Meth.debugf, .debug], (m.passes level = true ↔ level ≤ 0)) := by
  refine ⟨?_, ?_, ?_, ?_⟩ <;> simp [Meth.passes, Meth.gate]

/-- a call below the level does nothing at all; a call at or above it is decided by the limiter only -/
theorem gate_decides (t : Int) (m : Meth) (id msg : Bytes) (st : St) :
    ((logDecide t m id msg st).1 = .gate ↔ m.passes st.conf.level = false) ∧
    (m.passes st.conf.level = false → (logCall t m id msg st).1.dir = st.dir ∧ (logCall t m id msg st).1.cache = st.cache) := by
  rcases logDecide_cases t m id msg st with ⟨hp, hd⟩ | ⟨hp, _, hd⟩ | ⟨rid, hp, _, _, hd⟩ | ⟨rid, hp, _, _, hd⟩
  · refine ⟨by simp [hd, hp], fun _ => ?_⟩
    simp only [logCall, hd, St.append_cache]
    exact ⟨by simpa using St.append_nil_dir { st with cache := st.cache }, trivial⟩
  all_goals (refine ⟨by simp [hd, hp], fun h => ?_⟩; rw [hp] at h; cases h)

/-! ## rate limit -/

/-- the id of a levelled call is the first 10 bytes of its formatted message; Printf/Println
    use the id they are given; Debug* and PrintlnStd are not limited -/
theorem rate_id (id s : Bytes) :
    (∀ m ∈ [Meth.errorf, .error, .warnf, .warn, .infof, .info, .infoln], m.rateId id s = some (s.take 10)) ∧
    (∀ m ∈ [Meth.printf, .println], m.rateId id s = some id) ∧
    (∀ m ∈ [Meth.debugf, .debug, .printlnStd], m.rateId id s = none) := by
  refine ⟨?_, ?_, ?_⟩ <;> simp [Meth.rateId, truncate, idLen]

/-- any history, any settings, eviction included: a call is suppressed by the limiter only if
    a line with the same id was written less than `interval` seconds before -/
theorem rate_only_within (cal : Cal) (st0 : St) (ops : List Op) (t : Int) (m : Meth) (id msg : Bytes)
    (h0 : st0.cache = []) (hclock : (run cal st0 ops).conf.interval * 1000 ≤ t)
    (h : (logDecide t m id msg (run cal st0 ops)).1 = .rate) :
    ∃ rid t', m.rateId id (if m.ln then msg ++ [cNl] else msg) = some rid ∧
      (rid, t') ∈ rated cal st0 ops ∧ t < t' + (run cal st0 ops).conf.interval * 1000 :=
  Logger.rate_only_within cal st0 ops t m id msg h0 hclock h

/-- fresh logger, constant interval `s > 0`, fewer than 1000 calls, clock not running backwards:
    written iff no line with the same (non-empty) id was written in the previous `s` seconds -/
theorem rate_limit (s : Int) (hs : 0 < s) (st0 : St) (calls : List Call) (c : Call) (i : Bytes) (t0 : Int)
    (hc0 : st0.cache = []) (hint : st0.conf.interval = s)
    (htimes : timesFrom t0 (calls ++ [c])) (hclock : s * 1000 ≤ t0) (hcap : calls.length < cacheMax)
    (hgate : c.passesGate (runCalls st0 calls) = true) (hid : c.rid = some i) (hne : i ≠ []) :
    let W := writesAcc st0 [] calls
    ((logDecide c.t c.m c.id c.msg (runCalls st0 calls)).1 = .rate ↔ ∃ t', (i, t') ∈ W ∧ c.t < t' + s * 1000) ∧
    ((logDecide c.t c.m c.id c.msg (runCalls st0 calls)).1 = .written ↔ ¬ ∃ t', (i, t') ∈ W ∧ c.t < t' + s * 1000) :=
  rate_exact s hs st0 calls c i t0 hc0 hint htimes hclock hcap hgate hid hne

/-- interval 0 (or negative): nothing is ever suppressed -/
theorem rate_off (c : Cache) (id : Bytes) (sec now : Int) (h : sec ≤ 0) : checkOk c id sec now = (true, c) := by
  rcases checkOk_cases c id sec now with ⟨_, hc⟩ | ⟨h1, _⟩ | ⟨h1, _⟩
  · exact hc
  · omega
  · omega

theorem empty_id_never_limited (cal : Cal) (st0 : St) (ops : List Op) (t : Int) (m : Meth) (id msg : Bytes)
    (h0 : st0.cache = []) (hclock : (run cal st0 ops).conf.interval * 1000 ≤ t)
    (hid : m.rateId id (if m.ln then msg ++ [cNl] else msg) = some []) :
    (logDecide t m id msg (run cal st0 ops)).1 ≠ .rate :=
  Logger.empty_id_never_limited cal st0 ops t m id msg h0 hclock hid

/-! ## file name and rotation -/

theorem file_name (cal : Cal) (logID oname : Bytes) (u : Int) :
    fileName cal logID oname true u = logID ++ [cDash] ++ oname ++ [cDash] ++ cal.ymd u ++ asc ".log" ∧
    fileName cal logID oname false u = logID ++ [cDash] ++ oname ++ asc ".log" := ⟨rfl, rfl⟩

/-- a new logger writes to the file named for its creation day -/
theorem new_file (cal : Cal) (t0 : Int) (conf : Conf) (home : Bytes) (dir : Dir) :
    (St.new cal t0 conf home dir).cur = some (fileName cal conf.logID conf.oname conf.rotation (unit t0)) ∧
    (St.new cal t0 conf home dir).Inv cal := by
  refine ⟨?_, new_inv cal t0 conf home dir⟩
  unfold St.new
  simp only []
  rw [openFile_cur]
  rfl

/-- once the cycle has run at time `t`, the open file is the one named for the day of `t`,
    and every line of the calls that follow (until the next cycle) is appended to that file,
    whole and in call order -/
theorem rotation (cal : Cal) (t : Int) (st : St) (hi : st.Inv cal) (ops : List Op) (h : ∀ o ∈ ops, o.isCall = true) :
    let st1 := (process cal t st).1
    let name := fileName cal st.conf.logID st.conf.oname st.conf.rotation (unit t)
    st1.cur = some name ∧ (run cal st1 ops).cur = some name ∧
    (run cal st1 ops).dir = dirAppend st1.dir name (emits cal st1 ops) := by
  obtain ⟨hc, _, _, _, _⟩ := process_rotates cal t st hi
  obtain ⟨c2, d2⟩ := calls_in_order cal (process cal t st).1 ops h
  simp only [] at hc c2 d2 ⊢
  refine ⟨hc, c2.trans hc, ?_⟩
  rw [d2, St.append_dir, hc]
  rfl

/-- the invariant behind `rotation` holds after every history of a new logger -/
theorem reachable_inv (cal : Cal) (t0 : Int) (conf : Conf) (home : Bytes) (dir : Dir) (ops : List Op) :
    (run cal (St.new cal t0 conf home dir) ops).Inv cal :=
  run_inv cal _ ops (new_inv cal t0 conf home dir)

/-! ## lines in order -/

/-- between two cycles the open file receives exactly the lines of the calls that were
    neither below the level nor rate-limited, each as one whole chunk, in call order; no other
    file changes -/
theorem lines_in_order (cal : Cal) (st : St) (ops : List Op) (h : ∀ o ∈ ops, o.isCall = true)
    (n : Bytes) (f : File) (hc : st.cur = some n) (hf : dirGet st.dir n = some f) :
    dirGet (run cal st ops).dir n = some { f with recs := (emits cal st ops).reverse ++ f.recs } ∧
    (∀ g, dirGet (run cal st ops).dir n = some g → g.chunks = f.chunks ++ emits cal st ops) ∧
    (∀ m, m ≠ n → dirGet (run cal st ops).dir m = dirGet st.dir m) := by
  obtain ⟨_, d⟩ := calls_in_order cal st ops h
  rw [St.append_dir, hc] at d
  simp only [] at d
  have h1 : dirGet (run cal st ops).dir n = some { f with recs := (emits cal st ops).reverse ++ f.recs } := by
    rw [d, dirGet_dirAppend_same, hf]; rfl
  refine ⟨h1, ?_, ?_⟩
  · intro g hg
    rw [h1] at hg
    injection hg with hg
    rw [← hg]
    simp [File.chunks]
  · intro m hm
    rw [d, dirGet_dirAppend_other _ _ _ _ hm]

/-- every line is whole: it ends with a newline and is handed over in one piece -/
theorem line_whole (m : Meth) (id msg : Bytes) :
    ∃ pre, lineOf m id msg = .line (pre ++ [cNl]) := by
  obtain ⟨pre, h⟩ := text_ends_newline m id (if m.ln then msg ++ [cNl] else msg)
  exact ⟨pre, by rw [lineOf, h]⟩

/-- files are append-only for the logger: a cycle removes only what retention condemns and
    every other file keeps what it held -/
theorem cycle_append_only (cal : Cal) (t : Int) (st : St) (n : Bytes) (f : File) (h : (n, f) ∈ st.dir) :
    (t > st.last + 60000 ∧ deleted cal st.conf.rotation st.conf.logID st.conf.keepDays (unit t) n = true ∧
        n ∈ (process cal t st).2) ∨
    ∃ g, (n, g) ∈ (process cal t st).1.dir ∧ g.extends f :=
  process_append_only cal t st n f h

/-! ## retention -/

/-- removed ⇔ rotation on ∧ keep > 0 ∧ own prefix ∧ the part between the last '-' and the last
    '.' is 8 digits ∧ the calendar knows that date ∧ it is more than `keep` days old -/
theorem retention_exact (cal : Cal) (now : Int) (st : St) (n : Bytes) :
    n ∈ (clearOld cal now st).2 ↔
      (∃ f, (n, f) ∈ st.dir) ∧ st.conf.rotation = true ∧ st.conf.keepDays > 0 ∧
      (st.conf.logID ++ [cDash]) <+: n ∧
      ∃ d, datePart n = some d ∧ d.length = 8 ∧ (∀ b ∈ d, isDigit b = true) ∧
        ∃ u, cal.unitOf d = some u ∧ unit now - u > st.conf.keepDays := by
  rw [clearOld_removed, deleted_iff]

/-- the same for a whole cycle, which runs retention at most once a minute -/
theorem retention_in_cycle (cal : Cal) (t : Int) (st : St) (n : Bytes) :
    n ∈ (process cal t st).2 ↔
      t > st.last + 60000 ∧ (∃ f, (n, f) ∈ st.dir) ∧
      deleted cal st.conf.rotation st.conf.logID st.conf.keepDays (unit t) n = true :=
  process_removed cal t st n

/-- nothing without the prefix is ever removed, and it keeps its content -/
theorem retention_safe (cal : Cal) (now : Int) (st : St) (n : Bytes) (f : File) (h : (n, f) ∈ st.dir)
    (hp : ¬ (st.conf.logID ++ [cDash]) <+: n) :
    n ∉ (clearOld cal now st).2 ∧ ∃ g, (n, g) ∈ (clearOld cal now st).1.dir ∧ g.extends f ∧ (st.cur ≠ some n → g = f) := by
  have hd := not_deleted_of_no_prefix cal st.conf.rotation st.conf.logID st.conf.keepDays (unit now) n hp
  refine ⟨?_, clearOld_left cal now st n f h hd⟩
  intro hm
  have := ((clearOld_removed cal now st n).mp hm).2
  rw [hd] at this
  cases this

/-- what a pass leaves is not condemned; what it does not condemn is left with its content -/
theorem retention_survivors (cal : Cal) (now : Int) (st : St) (n : Bytes) :
    (∀ g, (n, g) ∈ (clearOld cal now st).1.dir →
        deleted cal st.conf.rotation st.conf.logID st.conf.keepDays (unit now) n = false) ∧
    (∀ f, (n, f) ∈ st.dir → deleted cal st.conf.rotation st.conf.logID st.conf.keepDays (unit now) n = false →
        ∃ g, (n, g) ∈ (clearOld cal now st).1.dir ∧ g.extends f) := by
  refine ⟨fun g hg => clearOld_gone cal now st n g hg, fun f hf hd => ?_⟩
  obtain ⟨g, hg, he, _⟩ := clearOld_left cal now st n f hf hd
  exact ⟨g, hg, he⟩

/-- the date part, characterised: the name is `pre-d.ext` with no '.' in `ext`, no '-' in `d`
    or `ext`, and `d` not empty -/
theorem date_part_shape (name d : Bytes) :
    datePart name = some d ↔
      ∃ pre ext, name = pre ++ cDash :: (d ++ cDot :: ext) ∧ d ≠ [] ∧ cDot ∉ ext ∧ cDash ∉ d ∧ cDash ∉ ext := by
  constructor
  · exact datePart_some
  · rintro ⟨pre, ext, rfl, hd, h1, h2, h3⟩
    exact datePart_of_shape pre d ext hd h1 h2 h3

/-! ## Read -/

/-- 0 < length, endpos ≤ size: start = max 0 (endpos' − length) where endpos' = size for a
    negative endpos; the text is the slice of the content at `before`; its length is
    min (size − start) length -/
theorem read_window (c : Bytes) (endpos length : Int) (hl : 0 < length) (he : endpos ≤ c.length) :
    ∃ d, readEntry (.file c) endpos length = .data d ∧
      d.before = max 0 ((if endpos < 0 then (c.length : Int) else endpos) - length) ∧
      0 ≤ d.before ∧ d.before ≤ c.length ∧
      d.text = (c.drop d.before.toNat).take d.text.length ∧
      (d.text.length : Int) = min ((c.length : Int) - d.before) length ∧
      (d.text.length : Int) ≤ length ∧
      d.before + d.text.length ≤ c.length :=
  readEntry_file c endpos length hl he

/-- for all names, end positions and lengths: whatever `Read` returns is a contiguous slice of
    the content of the file stored under the resolved path below `<home>/logs`, at the offset
    it reports, of at most the requested length -/
theorem read_slice (home file : Bytes) (snap : Snapshot) (endpos length : Int) (d : LogData)
    (h : read home file snap endpos length = .data d) :
    ∃ rel e, resolve home file = some rel ∧ openedPath home file = logsDir home ++ rel ∧
      lookupEntry (joinSlash rel) snap = some e ∧
      match e with
      | .file c => 0 ≤ d.before ∧ d.text = (c.drop d.before.toNat).take d.text.length ∧
                   (d.text.length : Int) ≤ length ∧ d.before + d.text.length ≤ c.length
      | .dir _ => d.text = [] := by
  obtain ⟨hl, rel, e, hr, ho, hk, hd⟩ := read_data_source h
  refine ⟨rel, e, hr, ho, hk, ?_⟩
  cases e with
  | file c => exact readEntry_slice c endpos length d hl hd
  | dir sz => exact readEntry_dir_empty sz endpos length d hd

/-- the path opened is inside `<home>/logs`; a name that leaves it, an empty name and a
    non-positive length are answered with nil without opening anything -/
theorem read_contained (home file : Bytes) (snap : Snapshot) (endpos length : Int) :
    (∀ rel, resolve home file = some rel → logsDir home <+: openedPath home file) ∧
    (resolve home file = none → read home file snap endpos length = .nilQuiet) ∧
    (length ≤ 0 → read home file snap endpos length = .nilQuiet) ∧
    (file = [] → read home file snap endpos length = .nilQuiet) := by
  refine ⟨fun rel h => ⟨rel, (resolve_contained h).symm⟩, read_refused snap endpos length, ?_, ?_⟩
  · intro h; unfold Logger.read; simp [h]
  · intro h; unfold Logger.read; simp [h]

/-- `../x`, nested `sub/../../x`, and an absolute path are handled as the statement demands -/
example : resolve (asc "/opt/whatap") (asc "../x") = none := by decide
example : resolve (asc "/opt/whatap") (asc "sub/../../secret.txt") = none := by decide
example : resolve (asc "/opt/whatap") (asc "/etc/passwd") = some [asc "etc", asc "passwd"] := by decide
example : resolve (asc "/opt/whatap") (asc "../logs/a.log") = some [asc "a.log"] := by decide
example : resolve (asc "/opt/whatap") (asc "a.log") = some [asc "a.log"] := by decide

/-- D34 (code before fix-D34.diff): `Read` handed `openedPath home file` to `os.Open` without
    any test; for "../x" that path is not below `<home>/logs` -/
theorem finding_D34 :
    openedPath (asc "/h") (asc "../x") = [asc "h", asc "x"] ∧
    ¬ (logsDir (asc "/h") <+: openedPath (asc "/h") (asc "../x")) := by
  refine ⟨by decide, ?_⟩
  rw [← List.isPrefixOf_iff_prefix]
  decide

/-! ## rotation under concurrent writers (atomic-action model) -/

/-- repaired order (install the new file, then close the old one): wherever the two actions
    fall among the writes, every line is kept, whole and in order, old file first -/
theorem rotation_keeps_all_lines (init w1 w2 w3 : List Bytes) :
    let s := Rot.rrun (Rot.start init) (Rot.fixedSchedule w1 w2 w3)
    s.oldF ++ s.newF = init ++ w1 ++ w2 ++ w3 := by
  obtain ⟨h1, h2⟩ := Rot.fixed_keeps_all init w1 w2 w3
  simp only [] at h1 h2 ⊢
  rw [h1, h2]
  simp

/-- D35 (code before fix-D35.diff: close, then install): a line written between the two
    actions is in neither file -/
theorem finding_D35 :
    let s := Rot.rrun (Rot.start []) (Rot.oldSchedule [asc "a"] [asc "lost"] [asc "b"])
    asc "lost" ∉ s.oldF ++ s.newF := by
  decide

/-- D44 (code before fix-D44.diff: no digit test): an 8-byte non-numeric "date" reached the
    calendar lookup, where `Atoi`'s error value 0 stands for a year before 2000, i.e. day 0;
    such a file was removed -/
theorem finding_D44 (cal : Cal) (h : cal.unitOf (asc "abcdefgh") = some 0) :
    datePart (asc "whatap-boot-abcdefgh.log") = some (asc "abcdefgh") ∧
    (match cal.unitOf (asc "abcdefgh") with | some u => decide ((8835 : Int) - u > 7) | none => false) = true ∧
    candidate (asc "whatap") (asc "whatap-boot-abcdefgh.log") = none := by
  refine ⟨by decide, by rw [h]; decide, by decide⟩

/-! ## real dates: the calendar parameter instantiated with C19's proved calendar -/

/-- with the calendar of C19 (the 2000–2099 day table proved to be the Gregorian calendar), the
    logger's file for day unit `u` carries the civil date of 2000-01-01 + `u` days, as 8 digits -/
theorem real_file_name (logID oname : Bytes) (u : Nat) (h : u < 36525) :
    fileName Cal.c19 logID oname true (u : Int) =
      logID ++ [cDash] ++ oname ++ [cDash] ++ dateOfUnit u ++ asc ".log" ∧
    (dateOfUnit u).length = 8 ∧ (∀ b ∈ dateOfUnit u, isDigit b = true) ∧
    Cal.c19.unitOf (dateOfUnit u) = some (u : Int) := by
  refine ⟨?_, (dateOfUnit_digits u).1, (dateOfUnit_digits u).2, c19_unitOf_date u h⟩
  simp only [fileName, if_true, c19_ymd u h]

/-- rotation with real dates: after a cycle at any instant `t` of 2000–2099 the open file is the
    one that carries the civil date of `t` -/
theorem real_rotation (t : Int) (st : St) (hi : st.Inv Cal.c19) (hr : st.conf.rotation = true)
    (h0 : 0 ≤ unit t) (h1 : unit t < 36525) :
    (process Cal.c19 t st).1.cur =
      some (st.conf.logID ++ [cDash] ++ st.conf.oname ++ [cDash] ++ dateOfUnit (unit t).toNat ++ asc ".log") := by
  obtain ⟨hc, _⟩ := process_rotates Cal.c19 t st hi
  rw [hc, St.nameAt, hr]
  have e : unit t = ((unit t).toNat : Int) := by omega
  have hn := (real_file_name st.conf.logID st.conf.oname (unit t).toNat (by omega)).1
  rw [← e] at hn
  rw [hn]

/-- retention with real dates: the logger's own file of day `u` is removed exactly when
    retention is on and that day lies more than `keep` days before today -/
theorem real_retention (rot : Bool) (logID oname : Bytes) (keep nowUnit : Int) (u : Nat) (h : u < 36525) :
    deleted Cal.c19 rot logID keep nowUnit (fileName Cal.c19 logID oname true (u : Int)) = true ↔
      rot = true ∧ keep > 0 ∧ nowUnit - (u : Int) > keep :=
  deleted_own rot logID oname keep nowUnit u h

/-! ## the id cache is C09's bounded insertion-ordered dictionary -/

/-- `lastLog.Put` / `Get` are `HMap.S.put` (mode LAST, max 1000, empty key refused) / `AL.get`
    with null value 0 -/
theorem cache_is_dictionary (c : Cache) (k : Bytes) (v : Int) (hn : (HMap.AL.keys c).Nodup) :
    cachePut c k v = (HMap.S.put slDesc ⟨c, cacheMax⟩ .last k v).1.ents ∧
    (HMap.AL.keys (cachePut c k v)).Nodup ∧
    cacheGet c k = (HMap.AL.get c k).getD 0 :=
  ⟨cachePut_eq k v hn, cachePut_nodup k v hn, cacheGet_eq c k⟩

/-- … and, one level further down, of C09's model of the hash table with its linked list -/
theorem cache_is_linked_map {hash : Bytes → Nat} {thr : Nat → Nat} (m : HMap.LMap Bytes Int)
    (h : HMap.LMap.Inv hash slDesc m) (hm : m.max = cacheMax) (k : Bytes) (v : Int) :
    (HMap.LMap.abs hash (m.put hash thr slDesc .last k v).1).ents = cachePut (HMap.LMap.abs hash m).ents k v ∧
    (m.get hash k).getD 0 = cacheGet (HMap.LMap.abs hash m).ents k ∧
    HMap.LMap.Inv hash slDesc (m.put hash thr slDesc .last k v).1 :=
  cache_refined_by_table m h hm k v

/-- which id is forgotten when: a known id keeps its place (re-logging does not renew it), a new
    id below the capacity is appended, a new id at the capacity evicts exactly the id that
    entered first; the cache never holds more than 1000 ids -/
theorem eviction_exact (c : Cache) (k : Bytes) (v : Int) (hn : (HMap.AL.keys c).Nodup) (hne : k ≠ []) :
    (k ∈ HMap.AL.keys c → cachePut c k v = HMap.AL.set c k v) ∧
    (k ∉ HMap.AL.keys c → c.length < cacheMax → cachePut c k v = c ++ [(k, v)]) ∧
    (k ∉ HMap.AL.keys c → c.length = cacheMax → cachePut c k v = c.drop 1 ++ [(k, v)]) ∧
    (c.length ≤ cacheMax → (cachePut c k v).length ≤ cacheMax) :=
  ⟨fun hk => put_known v hn hk hne, fun hk hl => put_new_below v hk hne hl,
   fun hk hl => put_new_full v hk hne hl, fun hl => cachePut_length_le k v hl⟩

/-- suppression, exactly, after ANY history of a fresh logger — any length, any settings, eviction
    included: a call is suppressed iff it passes the gate, carries a rate id `i`, the interval is
    positive, and `t < T + interval·1000` where `T` is what the dictionary, run on the history's
    `Put`s, holds for `i` (0 if nothing: never put, or forgotten) -/
theorem rate_limit_any_history (cal : Cal) (st0 : St) (ops : List Op) (t : Int) (m : Meth) (id msg : Bytes)
    (h0 : st0.cache = []) :
    let st := run cal st0 ops
    let dict := dictAfter [] (puts cal st0 ops)
    ((logDecide t m id msg st).1 = .rate ↔
      m.passes st.conf.level = true ∧ ∃ i, m.rateId id (if m.ln then msg ++ [cNl] else msg) = some i ∧
        st.conf.interval > 0 ∧ t < (HMap.AL.get dict i).getD 0 + st.conf.interval * 1000) ∧
    dict = ((puts cal st0 ops).foldl (fun (s : HMap.S Bytes Int) e => (HMap.S.put slDesc s .last e.1 e.2).1) ⟨[], cacheMax⟩).ents := by
  exact ⟨suppressed_iff cal st0 ops t m id msg h0, (dictAfter_is_hmap (puts cal st0 ops) [] List.nodup_nil).1⟩

/-- the same, as the statement reads it: after ANY history, a rate-limited call that passes the
    gate under a positive interval is written iff the table does not hold its id, or holds it
    with a time at least one interval ago -/
theorem rate_written_iff (cal : Cal) (st0 : St) (ops : List Op) (t : Int) (m : Meth) (id msg i : Bytes)
    (h0 : st0.cache = [])
    (hp : m.passes (run cal st0 ops).conf.level = true)
    (hid : m.rateId id (if m.ln then msg ++ [cNl] else msg) = some i)
    (hs : (run cal st0 ops).conf.interval > 0)
    (hclock : (run cal st0 ops).conf.interval * 1000 ≤ t) :
    let dict := dictAfter [] (puts cal st0 ops)
    (logDecide t m id msg (run cal st0 ops)).1 = .written ↔
      HMap.AL.get dict i = none ∨ ∃ T, HMap.AL.get dict i = some T ∧ T + (run cal st0 ops).conf.interval * 1000 ≤ t :=
  written_iff cal st0 ops t m id msg i h0 hp hid hs hclock

/-- the table over histories of `Put`s: (1) pairwise distinct new ids ⇒ the table holds exactly
    the most recent 1000 entries (C09's closed form); (2) so 1000 new ids forget everything held
    before; (3) and not earlier: an id with `y` younger entries survives further `Put`s of other
    ids while `y` + their number stays below 1000 -/
theorem table_over_histories :
    (∀ (c : Cache) (l : List (Bytes × Int)), (HMap.AL.keys (c ++ l)).Nodup → (∀ e ∈ l, e.1 ≠ []) → c.length ≤ cacheMax →
        dictAfter c l = HMap.AL.keepLast cacheMax (c ++ l)) ∧
    (∀ (c : Cache) (l : List (Bytes × Int)), (HMap.AL.keys (c ++ l)).Nodup → (∀ e ∈ l, e.1 ≠ []) → c.length ≤ cacheMax →
        cacheMax ≤ l.length → ∀ k ∈ HMap.AL.keys c, HMap.AL.get (dictAfter c l) k = none) ∧
    (∀ (pre young : Cache) (i : Bytes) (v : Int) (ps : List (Bytes × Int)),
        (HMap.AL.keys (pre ++ (i, v) :: young)).Nodup → i ≠ [] → (∀ e ∈ ps, e.1 ≠ i) →
        (pre ++ (i, v) :: young).length ≤ cacheMax → young.length + ps.length < cacheMax →
        HMap.AL.get (dictAfter (pre ++ (i, v) :: young) ps) i = some v) :=
  ⟨table_after_new_ids, fun c l hn hne hb hl k hk => ids_forgotten c l hn hne hb hl k hk,
   fun pre young i v ps hn hi hps hlen hroom => id_survives pre young i v ps hn hi hps hlen hroom⟩

/-! ## a resident id logged again (round 7: "update of a known key while the table is full") -/

/-- a `Put` of an id the table holds — at ANY fill level, so also when the table is full — forgets
    nothing: the same ids in the same places, the same length, the id's own time replaced, every
    other id's time unchanged -/
theorem refresh_forgets_nothing (c : Cache) (k : Bytes) (v : Int) (hn : (HMap.AL.keys c).Nodup) (hne : k ≠ [])
    (hk : k ∈ HMap.AL.keys c) :
    HMap.AL.keys (cachePut c k v) = HMap.AL.keys c ∧ (cachePut c k v).length = c.length ∧
    cacheGet (cachePut c k v) k = v ∧ ∀ j, j ≠ k → cacheGet (cachePut c k v) j = cacheGet c j :=
  refresh_cache v hn hne hk

/-- … over histories: after ANY history of a fresh logger (table full or not), a log call whose
    rate id `i` is resident — written because its interval is over, or suppressed — leaves the table
    with the same ids in the same places, and every later call with a different id is decided
    (written / suppressed) exactly as it would have been without that call -/
theorem refresh_in_history (cal : Cal) (st0 : St) (ops : List Op) (h0 : st0.cache = [])
    (t : Int) (m : Meth) (id msg i : Bytes)
    (hid : m.rateId id (if m.ln then msg ++ [cNl] else msg) = some i)
    (hk : i ∈ HMap.AL.keys (run cal st0 ops).cache) (hne : i ≠ []) :
    let st := run cal st0 ops
    let st' := run cal st0 (ops ++ [.log t m id msg])
    HMap.AL.keys st'.cache = HMap.AL.keys st.cache ∧
    (∀ j, j ≠ i → cacheGet st'.cache j = cacheGet st.cache j) ∧
    ∀ (t' : Int) (m' : Meth) (id' msg' j : Bytes),
      m'.rateId id' (if m'.ln then msg' ++ [cNl] else msg') = some j → j ≠ i →
      (logDecide t' m' id' msg' st').1 = (logDecide t' m' id' msg' st).1 := by
  intro st st'
  have e : st' = (logCall t m id msg st).1 := by
    show run cal st0 (ops ++ [.log t m id msg]) = _
    rw [run_append]; rfl
  rw [e]
  exact refresh_step t m id msg i st (run_cache_nodup cal st0 ops h0) hid hk hne

/-! ## logger.LogLevel (the `log_level` setting of ApplyConfig) -/

/-- `LogLevel`: case-insensitive (ASCII) "error" ↦ 3, "info" ↦ 1, "debug" ↦ 0, and everything else —
    "warn" included — ↦ WARN(2); each value exactly for its word -/
theorem log_level_table (s : Bytes) :
    (logLevel s = 3 ↔ s.map lower = asc "error") ∧ (logLevel s = 1 ↔ s.map lower = asc "info") ∧
    (logLevel s = 0 ↔ s.map lower = asc "debug") ∧
    (logLevel s = 2 ↔ (s.map lower ≠ asc "error" ∧ s.map lower ≠ asc "info" ∧ s.map lower ≠ asc "debug")) := by
  have d1 : asc "error" ≠ asc "warn" := by decide
  have d2 : asc "error" ≠ asc "info" := by decide
  have d3 : asc "error" ≠ asc "debug" := by decide
  have d4 : asc "warn" ≠ asc "info" := by decide
  have d5 : asc "warn" ≠ asc "debug" := by decide
  have d6 : asc "info" ≠ asc "debug" := by decide
  unfold logLevel
  simp only []
  by_cases h1 : s.map lower = asc "error"
  · simp [h1, d2, d3]
  · by_cases h2 : s.map lower = asc "warn"
    · simp [h2, d1.symm, d4, d5]
    · by_cases h3 : s.map lower = asc "info"
      · simp [h3, d2.symm, d4.symm, d6]
      · by_cases h4 : s.map lower = asc "debug"
        · simp [h4, d3.symm, d5.symm, d6.symm]
        · simp [h1, h2, h3, h4]

/-! ## GetLogFiles / GetLogFilePath -/

/-- `GetLogFiles`, exactly, when no entry makes it panic: the first 100 listable entries of the
    directory in `ReadDir` order with their sizes; and whatever it returns, every listed pair is a
    regular file of the directory with its size, named `whatap-hook.log` or `logID-oname-` + exactly
    8 bytes up to the first dot -/
theorem log_files_exact (logID oname : Bytes) (ents : List DirEnt) :
    ((∀ e ∈ ents, filesVerdict logID oname e ≠ .panic) →
      logFiles logID oname ents =
        some (((ents.filter (listable logID oname)).take 100).map entPair)) ∧
    (∀ out, logFiles logID oname ents = some out → ∀ p ∈ out, ∃ e ∈ ents, p = (e.name, e.size) ∧ e.isDir = false ∧
      (e.name = hookName ∨ ((filesPrefix logID oname) <+: e.name ∧
        indexDot e.name = some ((filesPrefix logID oname).length + 8)))) := by
  refine ⟨logFiles_closed logID oname ents, ?_⟩
  intro out h p hp
  obtain ⟨e, he, hpe, hv⟩ := logFilesLoop_sound logID oname ents 0 out h p hp
  exact ⟨e, he, hpe, (listed_shape logID oname e hv).1, (listed_shape logID oname e hv).2⟩

/-- no dot in the log id and the object name ⇒ `GetLogFiles` cannot panic, whatever the directory holds -/
theorem log_files_total (logID oname : Bytes) (h1 : cDot ∉ logID) (h2 : cDot ∉ oname) (ents : List DirEnt) :
    logFiles logID oname ents = some (((ents.filter (listable logID oname)).take 100).map entPair) :=
  logFiles_closed logID oname ents (fun e _ => filesVerdict_no_panic logID oname h1 h2 e)

/-- observed, outside the statement: a dot in the object name makes `GetLogFiles` panic on the
    logger's own file (`name[len(prefix)+1 : x]` with the first dot inside the prefix) -/
theorem finding_logfiles_dot :
    logFiles (asc "whatap") (asc "x.y") [⟨asc "whatap-x.y-20240310.log", false, 5⟩] = none := by decide

/-- the logger's own file of day `u` (real dates, 2000–2099) is listable, whatever its size -/
theorem log_files_own_current (logID oname : Bytes) (u : Nat) (h : u < 36525) (sz : Int)
    (h1 : cDot ∉ logID) (h2 : cDot ∉ oname) :
    filesVerdict logID oname ⟨fileName Cal.c19 logID oname true (u : Int), false, sz⟩ = .list := by
  have hy := c19_ymd u h
  apply own_file_listable Cal.c19 logID oname u sz h1 h2
  · rw [hy]; exact (dateOfUnit_digits u).1
  · rw [hy]
    intro hm
    have := (dateOfUnit_digits u).2 _ hm
    revert this
    decide

/-- every name `GetLogFiles` returns can be passed to `Read`: it resolves to itself inside
    `<home>/logs` (directory entry names are plain: no '/', not empty, not "." or ".."), so `Read`
    serves exactly that entry of the logs directory -/
theorem log_files_readable (logID oname home : Bytes) (ents : List DirEnt) (out : List (Bytes × Int))
    (h : logFiles logID oname ents = some out)
    (hplain : ∀ e ∈ ents, cSlash ∉ e.name ∧ e.name ≠ [] ∧ e.name ≠ [cDot] ∧ e.name ≠ [cDot, cDot])
    (p : Bytes × Int) (hp : p ∈ out) (snap : Snapshot) (endpos length : Int) (hl : 0 < length) :
    resolve home p.1 = some [p.1] ∧
    read home p.1 snap endpos length =
      match lookupEntry p.1 snap with
      | none => .nilOpenErr
      | some e => readEntry e endpos length := by
  obtain ⟨e, he, hpe, _⟩ := logFilesLoop_sound logID oname ents 0 out h p hp
  obtain ⟨a, b, c, d⟩ := hplain e he
  have : p.1 = e.name := by rw [hpe]; rfl
  rw [this]
  exact ⟨resolve_plain home e.name a b c d, read_plain home e.name snap endpos length hl a b c d⟩

/-! ## whole histories with an arbitrary directory -/

/-- over ANY history of a new logger, whatever else lies in the directory: a file that does not
    carry the prefix `logID-` is still there at the end with exactly the content it had -/
theorem foreign_files_untouched (cal : Cal) (t0 : Int) (conf : Conf) (home : Bytes) (dir : Dir) (ops : List Op)
    (n : Bytes) (f : File) (h : (n, f) ∈ dir) (hp : ¬ (conf.logID ++ [cDash]) <+: n) :
    (n, f) ∈ (run cal (St.new cal t0 conf home dir) ops).dir := by
  have hi := new_inv cal t0 conf home dir
  have hconf : (St.new cal t0 conf home dir).conf = conf := by
    unfold St.new; simp only []; rw [(openFile_frame cal t0 _).1]
  have hmem : (n, f) ∈ (St.new cal t0 conf home dir).dir := by
    unfold St.new; simp only []
    exact openFile_foreign cal t0 ⟨conf, home, [], none, t0, unit t0, conf.rotation, dir⟩ n f h hp
  exact run_foreign cal _ ops hi n f hmem (by rw [hconf]; exact hp)

/-- everything any history removes carries the prefix and an 8-digit date part -/
theorem history_prunes_only_own (cal : Cal) (st : St) (ops : List Op) (n : Bytes) (h : n ∈ removedBy cal st ops) :
    (st.conf.logID ++ [cDash]) <+: n ∧ ∃ d, datePart n = some d ∧ d.length = 8 ∧ ∀ b ∈ d, isDigit b = true :=
  removed_are_own_dated cal st ops n h

/-- rotation at every cycle of a history: whatever came before, after a cycle at `t` and any
    calls, the open file is the one named for the day of `t` (with the log id and object name the
    logger was created with) and it has received exactly those calls' lines, in order -/
theorem rotation_in_history (cal : Cal) (st0 : St) (hi : st0.Inv cal) (pre calls : List Op) (t : Int)
    (hc : ∀ o ∈ calls, o.isCall = true) :
    let stp := run cal st0 pre
    let st1 := (process cal t stp).1
    let name := fileName cal st0.conf.logID st0.conf.oname stp.conf.rotation (unit t)
    run cal st0 (pre ++ [.proc t] ++ calls) = run cal st1 calls ∧
    (run cal st1 calls).cur = some name ∧ (run cal st1 calls).dir = dirAppend st1.dir name (emits cal st1 calls) := by
  intro stp st1 name
  have hinv := run_inv cal st0 pre hi
  obtain ⟨h1, h2, h3⟩ := rotation cal t (run cal st0 pre) hinv calls hc
  obtain ⟨hl, ho⟩ := run_conf_names cal st0 pre
  refine ⟨?_, ?_, ?_⟩
  · rw [run_append, run_append]; rfl
  · show (run cal (process cal t (run cal st0 pre)).1 calls).cur = _
    rw [h2, hl, ho]
  · show (run cal (process cal t (run cal st0 pre)).1 calls).dir = _
    rw [h3, hl, ho]

/-! ## concurrent writers (atomic-write action model, OS atomicity as an explicit field) -/

/-- for any number of writers and any schedule that closes the old handle only after the new
    file is installed: no line is lost or duplicated, each writer's lines keep their order (old
    file first), and — by the field `atomic` of `AppendFS` — each file's bytes are the bytes it
    had followed by the whole lines that reached it -/
theorem lines_in_order_concurrent (fs : Conc.AppendFS) (oldF newF : fs.F) (oldL : List Conc.Line)
    (as : List Conc.Act) (hs : Conc.Safe false as) :
    let s := Conc.crun fs (Conc.steady fs oldF newF oldL) as
    s.oldL ++ s.newL = oldL ++ Conc.writesOf as ∧
    (∀ w, (s.oldL ++ s.newL).filter (fun l => l.writer == w) =
        oldL.filter (fun l => l.writer == w) ++ (Conc.writesOf as).filter (fun l => l.writer == w)) ∧
    ∃ lo ln, s.oldL = oldL ++ lo ∧ s.newL = ln ∧
      fs.content s.oldF = fs.content oldF ++ Conc.texts lo ∧ fs.content s.newF = fs.content newF ++ Conc.texts ln := by
  have h1 := Conc.all_lines_kept fs (Conc.steady fs oldF newF oldL) as hs (Or.inr rfl) (fun _ => rfl)
  refine ⟨by simpa [Conc.steady] using h1, ?_, ?_⟩
  · intro w
    have := Conc.writer_order_kept fs (Conc.steady fs oldF newF oldL) as hs (Or.inr rfl) (fun _ => rfl) w
    simpa [Conc.steady] using this
  · obtain ⟨lo, ln, a, b, c, d⟩ := Conc.files_hold_whole_lines fs (Conc.steady fs oldF newF oldL) as
    exact ⟨lo, ln, a, by simpa [Conc.steady] using b, c, d⟩

/-- the repaired rotation, at any two positions of any schedule, obeys that discipline; the
    order before the repair does not, and loses the line written in between -/
theorem rotation_safe_concurrent (fs : Conc.AppendFS) (a b c : List Conc.Act)
    (ha : Conc.NoRot a) (hb : Conc.NoRot b) (hc : Conc.NoRot c) (oldF newF : fs.F) (l : Conc.Line) :
    Conc.Safe false (Conc.rotated a b c) ∧
    ¬ Conc.Safe false [Conc.Act.closeOld, .write l, .install] ∧
    (let s := Conc.crun fs (Conc.steady fs oldF newF []) [.closeOld, .write l, .install]
     s.oldL ++ s.newL = []) :=
  ⟨Conc.rotated_safe a b c ha hb hc, (Conc.unsafe_order_loses fs oldF newF l).1, (Conc.unsafe_order_loses fs oldF newF l).2⟩

/-! ## non-vacuity -/

section Examples

def cal0 : Cal := Cal.std
def t0 : Int := 1710032400000            -- 2024-03-10 01:00:00 UTC
def st0 : St := St.new cal0 t0 (Conf.default 2 (asc "boot") (asc "whatap")) (asc "/opt/whatap")
  [(asc "whatap-boot-20240101.log", ⟨[120], []⟩), (asc "whatapx-boot-20240101.log", ⟨[120], []⟩),
   (asc "whatap-boot-abcdefgh.log", ⟨[120], []⟩), (asc "whatap-boot-20240309.log", ⟨[120], []⟩)]

example : st0.cur = some (asc "whatap-boot-20240310.log") := by decide +kernel
example : st0.cache = [] := rfl

/-- a cycle on the next day removes exactly the old own file and rotates -/
example : (process cal0 (t0 + 86400000) st0).2 = [asc "whatap-boot-20240101.log"] ∧
    (process cal0 (t0 + 86400000) st0).1.cur = some (asc "whatap-boot-20240311.log") := by decide +kernel

/-- the hypotheses of `rate_limit` are satisfiable and both outcomes occur -/
example : (logDecide (t0 + 5000) .errorf [] (asc "disk full again") (runCalls st0 [⟨t0, .errorf, [], asc "disk full now"⟩])).1 = .rate := by decide +kernel
example : (logDecide (t0 + 10000) .errorf [] (asc "disk full again") (runCalls st0 [⟨t0, .errorf, [], asc "disk full now"⟩])).1 = .written := by decide +kernel
example : timesFrom t0 ([⟨t0, .errorf, [], asc "disk full now"⟩] ++ [⟨t0 + 5000, .errorf, [], asc "disk full again"⟩]) := by
  simp [timesFrom, t0]
example : (⟨t0 + 5000, Meth.errorf, [], asc "disk full again"⟩ : Call).rid = some (asc "disk full ") := by decide

/-- a window in the middle of a file -/
example : readEntry (.file (asc "0123456789")) 7 4 = .data ⟨3, -1, asc "3456"⟩ := by decide
example : readEntry (.file (asc "0123456789")) (-1) 4 = .data ⟨6, -1, asc "6789"⟩ := by decide
/-- the window is `length` bytes from `start`, even past `endpos` when `endpos < length` -/
example : readEntry (.file (asc "0123456789")) 2 4 = .data ⟨0, 8, asc "0123"⟩ := by decide
example : readEntry (.file (asc "0123456789")) 11 4 = .nilQuiet := by decide

/-- the C19 calendar on a concrete day: unit 8835 is 2024-03-10 -/
example : dateOfUnit 8835 = asc "20240310" := by decide +kernel

/-- an instance of the OS assumption (files as byte lists) and a three-writer schedule with a rotation in the middle -/
def listFS : Conc.AppendFS := ⟨Bytes, id, fun f bs => f ++ bs, fun _ _ => rfl⟩
example : Conc.Safe false (Conc.rotated [.write ⟨0, asc "a\n"⟩, .write ⟨1, asc "b\n"⟩] [.write ⟨2, asc "c\n"⟩] [.write ⟨0, asc "d\n"⟩]) := by
  simp [Conc.rotated, Conc.Safe]

/-- eviction: at capacity 1000 the id that entered first is the one forgotten (small instance of the shape) -/
example : cachePut [(asc "a", 1), (asc "b", 2)] (asc "b") 9 = [(asc "a", 1), (asc "b", 9)] := by decide

/-- hypotheses of `lines_in_order` / `foreign_files_untouched` on a reachable state: the open file exists,
    and a foreign look-alike survives a cycle that prunes an own file -/
example : (dirGet st0.dir (asc "whatap-boot-20240310.log")).isSome = true := by decide +kernel
example : (asc "whatapx-boot-20240101.log", (⟨[120], []⟩ : File)) ∈ (run cal0 st0 [.proc (t0 + 86400000)]).dir := by
  decide +kernel
example : removedBy cal0 st0 [.proc (t0 + 86400000)] = [asc "whatap-boot-20240101.log"] := by decide +kernel
/-- Go's truncating day unit before 2000-01-01 (the model no longer uses floor division there) -/
example : unit (baseTime - 1) = 0 ∧ unit (baseTime - 86400000) = -1 ∧ unit (baseTime + 86399999) = 0 := by decide

end Examples

/-! refresh / GetLogFiles: the hypotheses are met -/
example : asc "b" ∈ HMap.AL.keys [(asc "a", (1 : Int)), (asc "b", 2)] ∧ (HMap.AL.keys [(asc "a", (1 : Int)), (asc "b", 2)]).Nodup := by decide
example : (asc "disk full ") ∈ HMap.AL.keys (run cal0 st0 [.log t0 .errorf [] (asc "disk full now")]).cache := by decide +kernel
example : logFiles (asc "whatap") (asc "boot")
    [⟨asc "other.log", false, 3⟩, ⟨asc "whatap-boot-2024031.log", false, 1⟩, ⟨asc "whatap-boot-20240310.log", false, 77⟩,
     ⟨asc "whatap-boot-20240311.log", true, 4096⟩, ⟨asc "whatap-boot-20240312.log.gz", false, 9⟩, ⟨asc "whatap-hook.log", false, 2⟩] =
    some [(asc "whatap-boot-20240310.log", 77), (asc "whatap-boot-20240312.log.gz", 9), (asc "whatap-hook.log", 2)] := by decide
example : cDot ∉ asc "whatap" ∧ cDot ∉ asc "boot" := by decide
example : logLevel (asc "WARN") = 2 ∧ logLevel (asc "Error") = 3 ∧ logLevel (asc "bogus") = 2 ∧ logLevel (asc "Info") = 1 ∧ logLevel [] = 2 := by decide
example : logFilePath (asc "/opt/whatap") (asc "a.log") = [asc "opt", asc "whatap", asc "opt", asc "whatap", asc "logs", asc "a.log"] := by decide

end C17
