/-
  Property C02 — the tagged value codec round-trips every value type, nested to any depth.

  Statements only; every proof is a reference to a lemma of Golib.Value.*.  The model
  (`Value.encV` = WriteValue, `Value.decV` / `Value.decode` = ReadValue) is tied to
  /repo/lang/value by the correspondence harness `harness/c02` (tie B) and by the regenerated
  tables of `Golib.Gen.C02` (tie A, Golib/Props/C02Gen.lean).

  `WFV v` (Golib/Value/WF.lean) is exactly what a Go value can hold and the count fields can
  represent: scalars in the range of their Go type, arrays ≤ 32767 elements, text / blob < 2^31
  bytes, IPv4 = four bytes, list / map counts within int64, map keys pairwise distinct (they live
  in a hash map: decoding *puts*), recursively.
-/
import Golib.Value.Facts
import Golib.Value.DecWF
import Golib.Value.MapRefine
import Golib.Value.Stream
import Golib.Value.Local
import Golib.Value.ApiFacts

namespace C02
open Value Prim

/-- written with its type tag and read back, every well-formed value of every type, nested to any
    depth, yields the same value (same constructor = same type, equal content, list items and map
    entries in their original order), and decoding consumes exactly the bytes of the encoding:
    whatever follows (`r`) is left untouched.  Any fuel ≥ `szV v` does. -/
theorem value_roundtrip (v : Value) (fuel : Nat) (r : Bytes) (h : WFV v) (hf : szV v ≤ fuel) :
    decV fuel (encV v ++ r) = some (v, r) := decV_encV v fuel r h hf

/-- the fuel `decode` chooses (input length + 1) always suffices -/
theorem fuel_by_length (v : Value) : szV v ≤ (encV v).length := szV_le_length v

/-- the form to cite: `decode` after `encV` is the identity, with any continuation of the stream -/
theorem value_roundtrip_decode (v : Value) (r : Bytes) (h : WFV v) :
    decode (encV v ++ r) = some (v, r) := decode_encV v r h

/-- decoding the encoding alone leaves nothing (`Available() = 0`) -/
theorem value_consumes_exactly (v : Value) (h : WFV v) : decode (encV v) = some (v, []) := by
  have := decode_encV v [] h
  simpa using this

/-- re-encoding the decoded value reproduces the same bytes -/
theorem value_reencode (v v' : Value) (r r' : Bytes) (h : WFV v)
    (hd : decode (encV v ++ r) = some (v', r')) : encV v' ++ r' = encV v ++ r := by
  rw [decode_encV v r h] at hd
  cases hd; rfl

/-- the decoded value has the type of the encoded one -/
theorem value_type_kept (v v' : Value) (r r' : Bytes) (h : WFV v)
    (hd : decode (encV v ++ r) = some (v', r')) : tag v' = tag v ∧ ctorOf v' = ctorOf v := by
  rw [decode_encV v r h] at hd
  cases hd; exact ⟨rfl, rfl⟩

/-- for *any* input: a decoded value carries the tag byte it was read under -/
theorem decoded_tag_is_first_byte (f t : Nat) (bs : Bytes) (v : Value) (r : Bytes)
    (h : decV f (t :: bs) = some (v, r)) : tag v = t := decV_tag f t bs v r h

/-- a tag byte outside the table is rejected (`CreateValue` panics), it is not read as some type -/
theorem unknown_tag_rejected (f t : Nat) (bs : Bytes) (h : Ctor.ofCode t = none) :
    decV f (t :: bs) = none := decV_unknown_tag f t bs h

/-- list items come back in their original order: the decoded value is the list of the *same
    sequence* of items (equality of the item lists, not of their sets) -/
theorem list_order_kept (xs : List Value) (r : Bytes) (h : WFV (.list xs)) :
    decode (encV (.list xs) ++ r) = some (.list xs, r) := decode_encV _ r h

/-- map entries come back in their original (insertion) order, for both kinds of map -/
theorem map_order_kept (kvs : List (Bytes × Value)) (r : Bytes) (h : WFV (.map kvs)) :
    decode (encV (.map kvs) ++ r) = some (.map kvs, r) := decode_encV _ r h

theorem imap_order_kept (kvs : List (Int × Value)) (r : Bytes) (h : WFV (.imap kvs)) :
    decode (encV (.imap kvs) ++ r) = some (.imap kvs, r) := decode_encV _ r h

/-- and order matters to the codec: two lists / maps with the same entries in another order have
    different encodings (so "equal content in the original order" is not implied by a weaker
    multiset round trip) -/
theorem order_is_encoded :
    encV (.list [.null, .bool true]) ≠ encV (.list [.bool true, .null]) ∧
    encV (.map [([1], .null), ([2], .null)]) ≠ encV (.map [([2], .null), ([1], .null)]) := by decide

/-- the three container loops on their own (other wire formats reuse them: C03, C08) -/
theorem list_loop_roundtrip (xs : List Value) (f : Nat) (r : Bytes) (h : WFVs xs) (hf : szVs xs ≤ f) :
    decVs f xs.length (encVs xs ++ r) = some (xs, r) := decVs_encVs xs f r h hf

theorem map_loop_roundtrip (kvs acc : List (Bytes × Value)) (f : Nat) (r : Bytes) (h : WFKVs kvs)
    (hn : ((acc ++ kvs).map (·.1)).Nodup) (hf : szKVs kvs ≤ f) :
    decKVs f kvs.length acc (encKVs kvs ++ r) = some (acc ++ kvs, r) := decKVs_encKVs kvs acc f r h hn hf

theorem imap_loop_roundtrip (kvs acc : List (Int × Value)) (f : Nat) (r : Bytes) (h : WFIKVs kvs)
    (hn : ((acc ++ kvs).map (·.1)).Nodup) (hf : szIKVs kvs ≤ f) :
    decIKVs f kvs.length acc (encIKVs kvs ++ r) = some (acc ++ kvs, r) := decIKVs_encIKVs kvs acc f r h hn hf

/-- the encoding is injective … -/
theorem encoding_injective (a b : Value) (ha : WFV a) (hb : WFV b) (h : encV a = encV b) : a = b :=
  encV_inj a b ha hb h

/-- … and prefix-free: inside a stream a value's end is determined by its own bytes -/
theorem encoding_prefix_free (a b : Value) (r s : Bytes) (ha : WFV a) (hb : WFV b)
    (h : encV a ++ r = encV b ++ s) : a = b ∧ r = s := encV_prefix_free a b r s ha hb h

/-- for *any* byte input: whatever the decoder accepts is a well-formed value (scalars in range,
    arrays ≤ 32767, text/blob < 2^31 bytes, map keys distinct …) and what it leaves is bytes -/
theorem decoded_is_wellformed (f : Nat) (bs : Bytes) (v : Value) (r : Bytes)
    (h : decV f bs = some (v, r)) (hb : WFB bs) : WFV v ∧ WFB r := decV_WFV f bs v r h hb

/-- hence decoding normalises: the re-encoding of anything that was decoded (from canonical or
    non-canonical bytes) decodes to the same value again -/
theorem decode_normalises (bs : Bytes) (v : Value) (r r' : Bytes) (h : decode bs = some (v, r)) (hb : WFB bs) :
    decode (encV v ++ r') = some (v, r') := decode_stable bs v r r' h hb

/-! ### from one call to streams and histories -/

/-- a stream of values: the concatenation of k encodings (any k), followed by anything, read back
    with k calls of `ReadValue` gives the k values in order and leaves exactly what followed -/
theorem stream_roundtrip (vs : List Value) (r : Bytes) (h : WFVs vs) :
    decodeMany vs.length (encVs vs ++ r) = some (vs, r) := decodeMany_encVs vs r h

/-- reading until the input is exhausted recovers the whole sequence -/
theorem stream_roundtrip_all (vs : List Value) (f : Nat) (h : WFVs vs) (hf : vs.length ≤ f) :
    decodeAll f (encVs vs) = some vs := decodeAll_encVs vs f h hf

/-- a process: in any history of encode / decode calls every output is the output of that call
    alone (the model's codec has state `Unit`; that this transfers to the Go code is what
    `C02Gen.no_package_state_written` / `codec_has_no_hidden_state` and the harness's history,
    failed-decode and concurrent stages check) -/
theorem history_outputs_are_per_call (cs : List Call) :
    runCalls () cs = cs.map (fun c => (stepCall () c).2) := run_outputs cs

/-- … so a decode anywhere in a history returns the value an encode produced, whatever was
    encoded, decoded or rejected before it -/
theorem roundtrip_anywhere_in_a_history (cs : List Call) (j : Nat) (hj : j < cs.length) (v : Value) (r : Bytes)
    (hw : WFV v) (hc : cs[j] = .decode (encV v ++ r)) :
    (runCalls () cs)[j]'(by rw [run_outputs]; simpa using hj) = .value v r :=
  roundtrip_in_history cs j hj v r hw hc

/-- the count guard of `ListValue.Read` (`CheckCount(count, 1)`, added by the C04 repair) never rejects
    an input the unguarded model decodes: every value occupies at least one byte, so a list whose
    `count` items decode had at least `count` bytes left -/
theorem list_guard_never_rejects_decodable (f n : Nat) (bs : Bytes) (xs : List Value) (r : Bytes)
    (h : decVs f n bs = some (xs, r)) : n ≤ bs.length := list_count_le_remaining f n bs xs r h

theorem every_value_occupies_a_byte (f : Nat) (bs : Bytes) (v : Value) (r : Bytes) (h : decV f bs = some (v, r)) :
    r.length < bs.length := decV_consumes f bs v r h

/-- for ANY input and any fuel (not only encodings of well-formed values): a successful decode
    depends only on the bytes it consumed — the input is `consumed ++ rest`, and with any other rest
    (more bytes arriving later on a connection, the next value of a stream, nothing) the same value
    is decoded and that rest is left.  The decoder never looks ahead and keeps nothing back. -/
theorem decode_depends_only_on_consumed_bytes (f : Nat) (bs : Bytes) (v : Value) (r : Bytes)
    (h : decV f bs = some (v, r)) : ∃ a, bs = a ++ r ∧ ∀ c, decV f (a ++ c) = some (v, c) :=
  decV_locality f bs v r h

/-! ### the association lists are what the real tables hold (link to C09) -/

/-- `MapValue.Read` creates a `StringKeyLinkedMap` and `Put`s the decoded pairs in order.  For every
    hash function, growth policy and initial capacity, C09's bucket-table model driven by exactly
    that history abstracts to the entry list the model's decoder returns, and enumerating it
    (`Keys()` + `Get`, what `Write` / `Equals` / `CompareTo` walk) yields that list.  The
    "maps are insertion-ordered association lists" abstraction is therefore a theorem
    (C09.refine_run_from + `putKV` = the dictionary's put), not an assumption. -/
theorem map_read_is_table_history (hash : Bytes → Nat) (thr : Nat → Nat) (d : HMap.Desc Bytes Value)
    (hr : ∀ k, d.refuse k = false) (cap f n : Nat) (bs : Bytes) (res : List (Bytes × Value)) (r : Bytes)
    (h : decKVs f n [] bs = some (res, r)) :
    ∃ pairs : List (Bytes × Value), pairs.length = n ∧
      HMap.LMap.abs hash (HMap.LMap.run hash thr d (HMap.LMap.new thr cap) (readOps pairs)).1 = { ents := res, max := 0 } ∧
      (HMap.LMap.step hash thr d (HMap.LMap.run hash thr d (HMap.LMap.new thr cap) (readOps pairs)).1 HMap.Op.entries).2
        = HMap.Out.ents res :=
  map_read_refines hash thr d hr cap f n bs res r h

theorem imap_read_is_table_history (hash : Int → Nat) (thr : Nat → Nat) (d : HMap.Desc Int Value)
    (hr : ∀ k, d.refuse k = false) (cap f n : Nat) (bs : Bytes) (res : List (Int × Value)) (r : Bytes)
    (h : decIKVs f n [] bs = some (res, r)) :
    ∃ pairs : List (Int × Value), pairs.length = n ∧
      HMap.LMap.abs hash (HMap.LMap.run hash thr d (HMap.LMap.new thr cap) (readOps pairs)).1 = { ents := res, max := 0 } ∧
      (HMap.LMap.step hash thr d (HMap.LMap.run hash thr d (HMap.LMap.new thr cap) (readOps pairs)).1 HMap.Op.entries).2
        = HMap.Out.ents res :=
  imap_read_refines hash thr d hr cap f n bs res r h

/-- any sequence of puts on a fresh table: contents, enumeration, size and lookup are those of the
    `putKV` fold (the model's `lookupKV` is the dictionary's `get`) -/
theorem table_is_putKV_fold {K : Type} [DecidableEq K] (hash : K → Nat) (thr : Nat → Nat) (d : HMap.Desc K Value)
    (hr : ∀ k, d.refuse k = false) (cap : Nat) (pairs : List (K × Value)) :
    HMap.LMap.abs hash (HMap.LMap.run hash thr d (HMap.LMap.new thr cap) (readOps pairs)).1
      = { ents := foldPut [] pairs, max := 0 } ∧
    (∀ k, (HMap.LMap.step hash thr d (HMap.LMap.run hash thr d (HMap.LMap.new thr cap) (readOps pairs)).1 (HMap.Op.get k)).2
      = HMap.Out.ofVal (HMap.AL.get (foldPut [] pairs) k)) :=
  ⟨(table_after_puts hash thr d hr cap pairs).1, (table_after_puts hash thr d hr cap pairs).2.2.2⟩

/-- the type codes: pairwise distinct, `CreateValue ∘ GetValueType = id`, and conversely -/
theorem tags_injective :
    (∀ a b : Ctor, a.code = b.code → a = b) ∧ (∀ c : Ctor, Ctor.ofCode c.code = some c) ∧
    (∀ n c, Ctor.ofCode n = some c → c.code = n) ∧ (Ctor.all.map Ctor.code).Nodup ∧
    (∀ v : Value, tag v = (ctorOf v).code) :=
  ⟨code_injective, ofCode_code, code_of_ofCode, codes_nodup, tag_eq_code⟩

/-- why distinct keys are part of `WFV`: decoding *puts*; a second entry under a key that is
    already there replaces the value in place and the map comes back one entry shorter -/
theorem duplicate_key_is_put :
    decode (encV (.map [([1], .null), ([1], .bool true)])) = some (.map [([1], .bool true)], []) := by
  rfl

/-! ### the exported mutators and the map-only entry points (Golib/Value/Api.lean)

  `WFV` asks for pairwise distinct keys.  That is no restriction on what the Go code can hold: whatever
  history of Put / PutString / PutLong / NewList / PutAll / Clear (and look-ups in between) built a
  MapValue or IntMapValue, and whatever history of Add / AddString / AddLong / Set / Clear built a
  ListValue, the object's content is the fold of the history, its keys are distinct, and — the stored
  payloads being things a Go value can hold — it round-trips.  The only residual hypothesis is that the
  entry count fits the int64 count field. -/

theorem map_history_roundtrip (ops : List (MOp Bytes)) (r : Bytes)
    (hops : ∀ op ∈ ops, MOp.OK okBytes op) (hl : (MOp.final [] ops).length ≤ 9223372036854775807) :
    decode (encV (.map (MOp.final [] ops)) ++ r) = some (.map (MOp.final [] ops), r) ∧
    ((MOp.final [] ops).map (·.1)).Nodup :=
  have h := entOK_final okBytes ops [] (entOK_nil okBytes) hops
  ⟨decode_encV _ r (wfV_map_of _ h hl), h.1⟩

theorem imap_history_roundtrip (ops : List (MOp Int)) (r : Bytes)
    (hops : ∀ op ∈ ops, MOp.OK okI32 op) (hl : (MOp.final [] ops).length ≤ 9223372036854775807) :
    decode (encV (.imap (MOp.final [] ops)) ++ r) = some (.imap (MOp.final [] ops), r) ∧
    ((MOp.final [] ops).map (·.1)).Nodup :=
  have h := entOK_final okI32 ops [] (entOK_nil okI32) hops
  ⟨decode_encV _ r (wfV_imap_of _ h hl), h.1⟩

theorem list_history_roundtrip (ops : List LOp) (r : Bytes)
    (hops : ∀ op ∈ ops, LOp.OK op) (hl : (LOp.final [] ops).length ≤ 9223372036854775807) :
    decode (encV (.list (LOp.final [] ops)) ++ r) = some (.list (LOp.final [] ops), r) :=
  decode_encV _ r (wfV_list_of _ (listOK_final ops [] (by simp) hops) hl)

/-- a history of calls on one object: the content is the fold of the calls, and every call's output is
    its look-up on the state the calls before it left (what the driver computes and the harness compares) -/
theorem map_history_outputs {K : Type} [DecidableEq K] (ops : List (MOp K)) :
    MOp.run [] ops [] = (MOp.final [] ops, MOp.outputs [] ops) := by
  rw [MOp.run_eq]; rfl

theorem list_history_outputs (ops : List LOp) : LOp.run [] ops [] = (LOp.final [] ops, LOp.outputs [] ops) := by
  rw [LOp.run_eq]; rfl

/-- Get right after Put sees the value put; every other key is untouched (frame condition of Put) -/
theorem get_sees_last_put {K : Type} [DecidableEq K] (s : List (K × Value)) (k : K) (v : Value) :
    MOp.out (MOp.next s (.put k v)) (.get k) = some v ∧
    ∀ k', k' ≠ k → MOp.out (MOp.next s (.put k v)) (.get k') = MOp.out s (.get k') :=
  ⟨lookup_put_same s k v, fun k' h => lookup_put_other s k k' v h⟩

/-- `WriteMapValue` and `IntMapValue.WriteValue` write what `WriteValue` writes -/
theorem write_map_value_is_write_value (kvs : List (Bytes × Value)) (ikvs : List (Int × Value)) :
    encMapValue kvs = encV (.map kvs) ∧ encIntMapValue ikvs = encV (.imap ikvs) :=
  ⟨encMapValue_eq kvs, encIntMapValue_eq ikvs⟩

/-- for ANY input: `ReadMapValue` returns a map exactly when `ReadValue` decodes a map — the same
    entries, the same bytes left -/
theorem read_map_value_iff_read_value (bs : Bytes) (kvs : List (Bytes × Value)) (r : Bytes) :
    decMapValue bs = some (some kvs, r) ↔ decode bs = some (.map kvs, r) := decMapValue_iff bs kvs r

/-- hence the map-only pair round-trips every well-formed map, with anything behind it -/
theorem read_map_value_roundtrip (kvs : List (Bytes × Value)) (r : Bytes) (h : WFV (.map kvs)) :
    decMapValue (encMapValue kvs ++ r) = some (some kvs, r) := by
  rw [encMapValue_eq]
  exact (decMapValue_iff _ kvs r).mpr (decode_encV _ r h)

/-- what `ReadMapValue` does on any other first byte: nil, and exactly that one byte is gone (the body of
    the other value is still in the stream — a caller that goes on reading is out of step) -/
theorem read_map_value_other_type (t : Nat) (r : Bytes) (ht : t ≠ 80) : decMapValue (t :: r) = some (none, r) :=
  decMapValue_other t r ht

/-! non-vacuity: concrete non-trivial values are well-formed and do round-trip -/

example : WFV (.list [.dec (-129), .map [([107], .text [104, 105]), ([], .imap [(-1, .f32 4286578688)])],
    .ai [1, -2], .dsum 0 3 1 2, .ip4 [127, 0, 0, 1]]) := by decide

example : encV (.list [.dec (-129), .map [([107], .text [104, 105])]]) =
    [70, 1, 2, 20, 2, 255, 127, 80, 1, 1, 1, 107, 50, 2, 104, 105] := by decide

example : decode [70, 1, 2, 20, 2, 255, 127, 80, 1, 1, 1, 107, 50, 2, 104, 105, 9] =
    some (.list [.dec (-129), .map [([107], .text [104, 105])]], [9]) := by rfl

example : ¬ WFV (.map [([1], .null), ([1], .null)]) := by decide
/-- non-vacuity of the C09 link: a regular descriptor exists, and the theorem yields a concrete table -/
example : ∃ pairs : List (Bytes × Value), pairs.length = 2 ∧
    HMap.LMap.abs (fun (k : Bytes) => k.length)
      (HMap.LMap.run (fun (k : Bytes) => k.length) (fun n => n * 3 / 4)
        ({ comb := fun _ b => b, veq := fun _ _ => false } : HMap.Desc Bytes Value)
        (HMap.LMap.new (fun n => n * 3 / 4) 101) (readOps pairs)).1
      = { ents := [([1], .null), ([2], .bool true)], max := 0 } :=
  let ⟨pairs, hl, ha, _⟩ := map_read_is_table_history (fun k => k.length) (fun n => n * 3 / 4)
    { comb := fun _ b => b, veq := fun _ _ => false }
    (fun _ => rfl) 101 100 2 (encKVs [([1], .null), ([2], .bool true)]) [([1], .null), ([2], .bool true)] [] (by rfl)
  ⟨pairs, hl, ha⟩
example : (runCalls () [.decode [99], .encode (.dec 5), .decode (encV (.dec 5) ++ [7])]).length = 3 := by rfl
example : decV 9 ([70, 1, 2, 0, 10, 1] ++ [5, 5]) = some (.list [.null, .bool true], [5, 5]) := by rfl
example : decodeMany 3 (encVs [.dec 5, .list [.null], .text [7]] ++ [9, 9]) = some ([.dec 5, .list [.null], .text [7]], [9, 9]) := by rfl
example : foldPut ([] : List (Bytes × Value)) [([1], .null), ([2], .bool true), ([1], .dec 5)] = [([1], .dec 5), ([2], .bool true)] := by
  rfl
/-- non-vacuity of the history theorems: a history with overwrite, Clear, refill, PutAll and look-ups -/
example : MOp.run ([] : List (Bytes × Value))
    [.put [1] (.dec 5), .putString [2] [104], .get [1], .put [1] .null, .clear, .size, .putLong [2] 7, .newList [1],
     .putAll [([3], .bool true), ([2], .null)], .getBool [3], .containsKey [9]] [] =
    ([([2], .null), ([1], .list []), ([3], .bool true)],
     [none, none, some (.dec 5), none, none, some (.dec 0), none, none, none, some (.bool true), some (.bool false)]) := by rfl
example : ∀ op ∈ ([.put [1] (.dec 5), .putString [2] [104], .clear, .putAll [([3], .bool true)]] : List (MOp Bytes)),
    MOp.OK okBytes op := by
  intro op h
  simp only [List.mem_cons, List.not_mem_nil, or_false] at h
  rcases h with rfl | rfl | rfl | rfl
  · exact ⟨by decide, by decide⟩
  · exact ⟨by decide, by decide⟩
  · trivial
  · intro p hp; simp only [List.mem_cons, List.not_mem_nil, or_false] at hp; subst hp; exact ⟨by decide, by decide⟩
example : LOp.run [] [.add .null, .addString [7], .set 0 (.dec 1), .get 1, .clear, .addLong 3, .size] [] =
    ([.dec 3], [none, none, none, some (.text [7]), none, none, some (.dec 1)]) := by rfl
example : decMapValue ([80, 1, 1, 1, 107, 0] ++ [9]) = some (some [([107], .null)], [9]) := by rfl
example : decMapValue [70, 1, 0] = some (none, [1, 0]) := by rfl
example : Ctor.ofCode 47 = none := rfl     -- FLOAT_SUMMARY is declared but not implemented

end C02
