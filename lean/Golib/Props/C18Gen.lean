/-
  Property C18 — obligations over the facts regenerated from the source on every run
  (tie A, translator xlate/c18 → Golib/Gen/C18.lean).  Each one is decided by evaluation.
  They hold for the source with the proposed fixes applied; on the unchanged source the ones
  named after D36/D37/D38/D39/D44 fail, which the check reports together with the failing
  inputs the harness exhibits.
-/
import Golib.Gen.C18
import Golib.Conf.FSLemmas
import Golib.Conf.Reload
import Golib.Conf.Observers
import Golib.Conf.FSDurLemmas
import Golib.Conf.Write

namespace C18Gen
open Gen.C18 Conf

/-- a read of the map needs the read or the write lock, a store needs the write lock -/
def accessOK : Acc × Held → Bool
  | (.read, .r) | (.read, .w) | (.write, .w) => true
  | _ => false

/-- every call of `f` from a method of FileConfig happens with the write lock held (and there is one) -/
def calledOnlyUnderW (f : String) : Bool :=
  let sites := lockFacts.flatMap (fun mf => mf.calls.filter (fun c => c.1 == f))
  !sites.isEmpty && sites.all (fun c => c.2 == .w)

/-- a method either guards every access itself, or is an unexported helper that takes no lock
    and is only ever called with the write lock held -/
def methodOK (mf : MethodFacts) : Bool :=
  mf.accesses.all accessOK || (!mf.exported && !mf.acquires && calledOnlyUnderW mf.name)

def acquiresOf (f : String) : Bool := lockFacts.any (fun mf => mf.name == f && mf.acquires)
def calleesOf (f : String) : List String :=
  (lockFacts.filter (fun mf => mf.name == f)).flatMap (fun mf => mf.calls.map (·.1))

/-- can a call of `f` end up taking the lock? (call graph of the type, bounded depth; running
    out of fuel counts as "yes") -/
def reachesAcquire : Nat → String → Bool
  | 0, _ => true
  | n + 1, f => acquiresOf f || (calleesOf f).any (reachesAcquire n)

/-- D36: every access to FileConfig.m is under FileConfig.mu (RLock for reads, Lock for stores):
    the hypothesis of `C18.no_torn_read` -/
theorem lock_discipline : lockFacts.all methodOK = true := by decide

/-- the RWMutex is not re-entered: nothing that may take the lock is called while it is held,
    and the observers (who call the getters) run without it -/
theorem no_self_deadlock :
    lockFacts.all (fun mf =>
      mf.calls.all (fun c => c.2 == .none || !reachesAcquire 8 c.1) &&
      mf.callbacks.all (fun h => h == .none)) = true := by decide

/-- D39: DefaultFileParser.Write stores the new content with exactly the call sequence
    `C18.crash_atomic` is about -/
theorem write_sequence_atomic : writeSeq = atomicSeq ∧ writeSeqUnknown = [] := by decide

/-- the replacement file written by DefaultFileParser.Write keeps the modification time the file
    system gave it at the write: nothing in the file sets file times (`os.Chtimes`, `Utimes`, …) — the
    `keepStamp = false` instance of `Conf.writeBackFile`, hypothesis of `C18.own_write_is_loaded` -/
theorem replacement_carries_time_of_write : writeSetsTimes = [] := by decide

/-- interpreted: the call sequence *as regenerated from the source*, run on the file-system models,
    leaves the configuration path with the complete old or new content at every process-stop point
    and after every power loss, for all contents -/
theorem generated_sequence_crash_atomic (old new : Str) :
    (∀ s ∈ crashStates new writeSeq ⟨some old, none⟩, visibleOK old new s) ∧
    (∀ s ∈ dstates new writeSeq (DFS.init old), ∀ c ∈ outcomes s, c = old ∨ c = new) := by
  rw [write_sequence_atomic.1]
  exact ⟨atomicSeq_visible old new none, atomicSeq_durable old new⟩

/-- the errors of WriteString, Sync and Rename are assigned to the function's `err` (not to a
    shadowing variable, not dropped), so the test guarding the rename sees them:
    the `checked = true` flow of `Conf.storeProtocol` (`C18.write_faults_safe`) -/
theorem store_errors_reach_the_guard :
    (["WriteString", "Sync", "Rename"].all fun c =>
      storeErrBindings.any (fun b => b.1 == c) && storeErrBindings.all (fun b => b.1 != c || b.2 == "assign")) = true := by
  decide

/-- the whole map is only ever replaced with the write lock held and refilled before that lock
    is released (one critical section: `C18.no_torn_read` for `.clear :: stores`; two sections
    give `C18.finding_reset_gap`) -/
theorem map_replaced_and_refilled_in_one_section :
    mapReplacements.all (fun r => r.2.1 == .w && r.2.2) = true := by decide

/-- reload takes the file's stamp once, before it reads the file, and never again
    (`Conf.reloadRacing false`; a stamp taken after the read gives `C18.finding_stamp_after_read`) -/
theorem stamp_taken_before_read : statCallsInReload = 1 ∧ stampRecordedBeforeRead = true := by decide

/-- the pass-through test of the code, interpreted: `no '=' ∨ HasPrefix(TrimLeft(line, cutset), p)` for the
    regenerated cutset and prefixes -/
def genPassThrough (l : Str) : Bool :=
  (passThroughNoEq && !l.contains '=') ||
  commentPrefixes.any (fun p => hasPrefix (l.dropWhile (fun c => commentTrimChars.contains c)) p)

theorem comment_test_facts :
    passThroughNoEq = true ∧ commentTrimChars = [' ', '\t', '\x0c'] ∧ commentPrefixes = [['#'], ['!']] := by decide

/-- interpreted obligation: the test the code applies to decide which lines are copied unchanged is,
    for every line, the model's `!l.contains '=' || isCommentLine l` (`Conf.writeLine` with fix-D39b) -/
theorem pass_through_test_is_model (l : Str) :
    genPassThrough l = (!l.contains '=' || isCommentLine l) := by
  obtain ⟨h1, h2, h3⟩ := comment_test_facts
  unfold genPassThrough isCommentLine
  rw [h1, h2, h3]
  have hw : (fun c : Char => [' ', '\t', '\x0c'].contains c) = isWs := by
    funext c
    simp only [isWs, List.contains, List.elem]
    cases (c == ' ') <;> cases (c == '\t') <;> cases (c == '\x0c') <;> rfl
  rw [hw]
  cases hd : l.dropWhile isWs with
  | nil => simp [hasPrefix]
  | cons c t => simp [hasPrefix, isCommentStart]

/-- D44: no properties.Must* call (their error handler terminates the process) -/
theorem no_must_load : mustLoadCalls = [] := by decide

/-- D37: reload compares the modification time in nanoseconds and the size (`Conf.verFull`) -/
theorem version_is_full : mtimeMethod = "UnixNano" ∧ sizeCompared = true := by decide

/-- the "no change" test of reload is built from equalities only: *any* difference of the version
    (older mtime, equal mtime with another size, …) triggers a load, as in `Conf.reload`
    (`c.last == v`) and as `C18.tracks` needs -/
theorem version_test_is_equality :
    sameVersionOps ≠ [] ∧ sameVersionOps.all (fun op => op == "==" || op == "!=") = true := by decide

/-- FileConfig notifies through the caller's observer registry itself, so targets added after the
    configuration was created are notified too (`Conf.Obs`: `run` calls whoever is registered at
    that moment) -/
theorem observer_registry_shared : observerStoredDirectly = true := by decide

/-- the registry is not locked while a target's ApplyConfig runs, so a callback may register
    another observer (or do anything else that takes the registry's lock) without blocking the
    reload goroutine -/
theorem observer_callbacks_outside_lock :
    observerCallbackHeld ≠ [] ∧ observerCallbackHeld.all (fun h => h == .none) = true := by decide

/-- SetValues does not build the new file from the in-memory map (`m` is not touched): it merges
    into what Parser.Read returns at the time of the write, as `Conf.setValuesModel` does -/
theorem setvalues_merges_into_file :
    (lockFacts.filter (fun mf => mf.name == "SetValues")).all (fun mf => mf.accesses.isEmpty) = true ∧
    (lockFacts.any (fun mf => mf.name == "SetValues")) = true := by decide

/-- D38: GetIntSet appends when `err == nil` -/
theorem intset_keeps_valid : intSetErrOp = "==" := by decide

/-- the default table of the model is the one ApplyDefault assigns -/
theorem defaults_table :
    defaultsComplete = true ∧ Gen.C18.defaults.map (fun p => (p.1.toList, p.2.toList)) = Conf.defaults := by decide

end C18Gen
