/-
  Extension check X04 — small state machines and codecs no property is anchored in.

  Part 1  lang/topology/NODE.go                       CodeModel Golib/Ext/Topo.lean (LINK: Golib/Ext/Keys.lean, X01)
    (N1) a history of AddListen / AddOutter calls leaves exactly the set of links the calls name, in first-insertion
         order, without duplicates: `node_history_refines_sets`, `node_listen_mem`, `node_outter_mem`
    (N2) address strings: `getIPPORT` splits at the last ':' (else the last '.'), is nil without either;
         what each shape of address contributes: `listen_*`, `outer_*`
    (N3) ToBytes / ToObject round trip of every reachable NODE.  The code does NOT satisfy it: ToBytes writes the
         type byte 0x50 that ToObject never reads (`finding_node_type_byte`, X01's known finding).  What is consistent:
         the payload after that byte (`node_roundtrip_partial`) for every NODE a history can reach (`node_reachable_ok`).
    Findings: `finding_node_type_byte`, `finding_has_listen_always_false` (AddOutter never filters a local listen
    address), `finding_unresolvable_listen_zero_link` (CreateLINK never returns nil: an unresolvable address is put
    as 0.0.0.0:0, which IsAttachable then matches against every 0.0.0.0 link).

  Part 2  util/panicutil/safefor.go, loop_counter.go   CodeModel Golib/Ext/SafeLoop.lean (`Ext.Safe`)
    (S1) a callback is run iff neither AllOff nor its name is switched off; (S2) counters count exactly the calls;
    (S3) "Safe": a panic of the callback does not leave Safe / SafeFor — NOT satisfied, there is no recover
    (`finding_safe_panic_escapes`, `finding_safefor_panic_escapes`); Cycle outside the table and SetOnOff before
    SetLoopOffMap panic (`finding_cycle_out_of_range`, `finding_setonoff_nil_map`).

  Part 3  util/keygen/KeyGen.go (`Ext.Key`, math/rand a parameter), util/dateutil/DateSyncTime.go (`Ext.Sync`)
-/
import Golib.Ext.TopoLemmas
import Golib.Ext.SafeLoop

set_option linter.unusedVariables false

namespace X04
open Ext.Keys Prim

/-- "a:b" style literals in the examples -/
def s (t : String) : Bytes := t.toList.map Char.toNat

/-! ## Part 1 — NODE -/
section Part1
open Ext.Topo

instance (k : LINK) : Decidable (LinkOK k) := by unfold LinkOK I32; infer_instance

/-! ### N2: address strings -/

theorem getIPPORT_examples :
    getIPPORT (s "10.0.0.1:80") = some ⟨s "10.0.0.1", s "80"⟩ ∧
    getIPPORT (s "[::1]:8080") = some ⟨s "[::1]", s "8080"⟩ ∧
    getIPPORT (s "*:22") = some ⟨s "*", s "22"⟩ ∧
    getIPPORT (s ":::22") = some ⟨s "::", s "22"⟩ ∧
    getIPPORT (s "10.0.0.1.80") = some ⟨s "10.0.0.1", s "80"⟩ ∧          -- BSD netstat form: last '.'
    getIPPORT (s "10.0.0.1") = some ⟨s "10.0.0", s "1"⟩ ∧                 -- no port: the last octet is taken for it
    getIPPORT (s ":") = some ⟨[], []⟩ ∧
    getIPPORT (s "localhost") = none ∧ getIPPORT [] = none := by decide

theorem lastIndexAux_none (c : Nat) (l : Bytes) : ∀ (i : Nat) (acc : Option Nat),
    lastIndexAux c l i acc = none ↔ acc = none ∧ c ∉ l := by
  induction l with
  | nil => intro i acc; simp [lastIndexAux]
  | cons b r ih =>
    intro i acc
    rw [lastIndexAux, ih]
    by_cases h : b = c
    · subst h; simp
    · have h' : ¬ c = b := fun e => h e.symm
      simp [h, h']

/-- `getIPPORT` answers nil exactly for the strings with neither ':' nor '.' -/
theorem getIPPORT_none_iff (a : Bytes) : getIPPORT a = none ↔ (58 ∉ a ∧ 46 ∉ a) := by
  unfold getIPPORT lastIndex
  cases h1 : lastIndexAux 58 a 0 none with
  | some x =>
    have : 58 ∈ a := by
      apply Classical.byContradiction; intro hn
      have := (lastIndexAux_none 58 a 0 none).mpr ⟨rfl, hn⟩
      rw [h1] at this; exact absurd this (by simp)
    simp [this]
  | none =>
    have n1 := ((lastIndexAux_none 58 a 0 none).mp h1).2
    cases h2 : lastIndexAux 46 a 0 none with
    | some x =>
      have : 46 ∈ a := by
        apply Classical.byContradiction; intro hn
        have := (lastIndexAux_none 46 a 0 none).mpr ⟨rfl, hn⟩
        rw [h2] at this; exact absurd this (by simp)
      simp [this]
    | none =>
      have n2 := ((lastIndexAux_none 46 a 0 none).mp h2).2
      simp [n1, n2]

theorem ipo_predicates :
    (⟨s "::1", s "80"⟩ : IPO).isIPv6 = true ∧ (⟨s "[fe80::1]", s "80"⟩ : IPO).isIPv6 = true ∧
    (⟨s "10.0.0.1", s "80"⟩ : IPO).isIPv6 = false ∧ (⟨[], s "80"⟩ : IPO).isIPv6 = false ∧
    (⟨s "127.0.0.1", s "80"⟩ : IPO).isLocal127 = true ∧
    (⟨s "127.0.0.2", s "80"⟩ : IPO).isLocal127 = false ∧ (⟨s "127.000.000.001", []⟩ : IPO).isLocal127 = false := by
  decide

/-- `net.LookupIP` of a dotted quad (netip.parseIPv4): strict octets -/
theorem parseV4_examples :
    parseV4 (s "10.0.0.1") = some [10, 0, 0, 1] ∧ parseV4 (s "255.255.255.255") = some [255, 255, 255, 255] ∧
    parseV4 (s "0.0.0.0") = some [0, 0, 0, 0] ∧
    parseV4 (s "256.0.0.1") = none ∧ parseV4 (s "01.0.0.1") = none ∧ parseV4 (s "1.2.3") = none ∧
    parseV4 (s "1.2.3.4.5") = none ∧ parseV4 (s "1..3.4") = none ∧ parseV4 (s "1.2.3.") = none ∧
    parseV4 (s "") = none ∧ parseV4 (s "::1") = none ∧ parseV4 (s "1.2.3.4 ") = none := by decide

/-- whatever the resolver says, a created link has 4 well-formed address bytes and an int32 port -/
theorem createLINK_wellformed (ext : Ext) (hx : ExtOK ext) (ip port : Bytes) :
    LinkOK (createLINK ext ip (portOf port)) := createLINK_ok ext hx ip _ (portOf_I32 port)

theorem createLINK_of_v4 (ext : Ext) (a ip : Bytes) (p : Int) (h : parseV4 a = some ip) :
    createLINK ext a p = ⟨ip, p⟩ := by simp [createLINK, lookup, h]

/-- a specific (non-wildcard, non-127.0.0.1) address contributes the one link CreateLINK makes of it -/
theorem listenLinks_specific (ext : Ext) (locals : List Bytes) (addr : Bytes) (o : IPO) (hg : getIPPORT addr = some o)
    (h1 : o.isLocal127 = false) (hw : isWild o.ip = false) :
    listenLinks ext locals addr = [createLINK ext o.ip (portOf o.port)] := by simp [listenLinks, hg, h1, hw]

/-- a wildcard address contributes one link per local address, in the order of the set -/
theorem listenLinks_wild (ext : Ext) (locals : List Bytes) (addr : Bytes) (o : IPO) (hg : getIPPORT addr = some o)
    (hw : isWild o.ip = true) :
    listenLinks ext locals addr = locals.map (fun l => createLINK ext l (portOf o.port)) := by
  have h1 : o.isLocal127 = false := by
    unfold isWild at hw; unfold IPO.isLocal127
    cases h : o.ip == lit127
    · rfl
    · have e : o.ip = lit127 := by simpa using h
      rw [e] at hw; exact absurd hw (by decide)
  simp [listenLinks, hg, h1, hw]

/-- an address with a dotted-quad IP and a decimal port contributes exactly that link, whatever the resolver -/
theorem listen_plain (ext : Ext) :
    listenLinks ext [s "192.168.0.7"] (s "10.0.0.1:3306") = [⟨[10, 0, 0, 1], 3306⟩] := by
  rw [listenLinks_specific ext _ _ ⟨s "10.0.0.1", s "3306"⟩ (by decide) (by decide) (by decide),
    createLINK_of_v4 ext _ [10, 0, 0, 1] _ (by decide), show portOf (s "3306") = 3306 by decide]

/-- "*", "0.0.0.0", "::" stand for every local address, in the order of the set -/
theorem listen_wildcards (ext : Ext) :
    listenLinks ext [s "192.168.0.7", s "10.1.1.1"] (s "*:22") = [⟨[192, 168, 0, 7], 22⟩, ⟨[10, 1, 1, 1], 22⟩] ∧
    listenLinks ext [s "192.168.0.7"] (s "0.0.0.0:22") = [⟨[192, 168, 0, 7], 22⟩] ∧
    listenLinks ext [s "192.168.0.7"] (s ":::22") = [⟨[192, 168, 0, 7], 22⟩] ∧
    listenLinks ext [] (s "*:22") = [] := by
  have p22 : portOf (s "22") = 22 := by decide
  have a1 := createLINK_of_v4 ext (s "192.168.0.7") [192, 168, 0, 7] 22 (by decide)
  have a2 := createLINK_of_v4 ext (s "10.1.1.1") [10, 1, 1, 1] 22 (by decide)
  rw [listenLinks_wild ext _ _ ⟨s "*", s "22"⟩ (by decide) (by decide),
    listenLinks_wild ext _ _ ⟨s "0.0.0.0", s "22"⟩ (by decide) (by decide),
    listenLinks_wild ext _ _ ⟨s "::", s "22"⟩ (by decide) (by decide),
    listenLinks_wild ext _ _ ⟨s "*", s "22"⟩ (by decide) (by decide)]
  simp only [List.map, p22, a1, a2, and_self]

/-- 127.0.0.1 and strings without a separator contribute nothing -/
theorem listen_nothing (ext : Ext) (locals : List Bytes) :
    listenLinks ext locals (s "127.0.0.1:80") = [] ∧ listenLinks ext locals (s "localhost") = [] := by
  constructor <;> rfl

/-- AddOutter: an IPv6 local or remote end, a 127.0.0.1 remote end, an unsplittable string: nothing -/
theorem outer_nothing (ext : Ext) (n : NODE) :
    outerLinks ext n (s "[::1]:5000") (s "8.8.8.8:53") = [] ∧ outerLinks ext n (s "10.0.0.1:5000") (s "[2001::1]:53") = [] ∧
    outerLinks ext n (s "10.0.0.1:5000") (s "127.0.0.1:53") = [] ∧ outerLinks ext n (s "x") (s "8.8.8.8:53") = [] ∧
    outerLinks ext n (s "10.0.0.1:5000") (s "x") = [] := by
  refine ⟨rfl, rfl, rfl, rfl, rfl⟩

theorem outer_plain (ext : Ext) (n : NODE) :
    outerLinks ext n (s "10.0.0.1:5000") (s "8.8.8.8:53") = [⟨[8, 8, 8, 8], 53⟩] := by
  have g1 : getIPPORT (s "10.0.0.1:5000") = some ⟨s "10.0.0.1", s "5000"⟩ := by decide
  have g2 : getIPPORT (s "8.8.8.8:53") = some ⟨s "8.8.8.8", s "53"⟩ := by decide
  have f1 : (⟨s "10.0.0.1", s "5000"⟩ : IPO).isIPv6 = false := by decide
  have f2 : ((⟨s "8.8.8.8", s "53"⟩ : IPO).isIPv6 || (⟨s "8.8.8.8", s "53"⟩ : IPO).isLocal127) = false := by decide
  simp only [outerLinks, g1, g2, f1, f2, hasListen, Bool.false_eq_true, if_false]
  rw [createLINK_of_v4 ext _ [8, 8, 8, 8] _ (by decide), show portOf (s "53") = 53 by decide]

/-! ### N1: histories refine two insertion-ordered sets -/

/-- **the refinement**: after any history the two LinkedSets hold, in order of first insertion and without
    duplicates, exactly the links the individual calls contribute; Attr is untouched -/
theorem node_history_refines_sets (ext : Ext) (n : NODE) (ops : List Op) :
    (run ext n ops).listen = putAll n.listen (ops.flatMap (Op.listenPart ext)) ∧
    (run ext n ops).outter = putAll n.outter (ops.flatMap (Op.outerPart ext)) ∧
    (run ext n ops).attr = n.attr :=
  ⟨run_listen ext ops n, run_outter ext ops n, run_attr ext ops n⟩

theorem node_listen_mem (ext : Ext) (n : NODE) (ops : List Op) (k : LINK) :
    k ∈ (run ext n ops).listen ↔ k ∈ n.listen ∨ ∃ op ∈ ops, k ∈ op.listenPart ext := by
  rw [run_listen, mem_putAll]; simp [List.mem_flatMap]

theorem node_outter_mem (ext : Ext) (n : NODE) (ops : List Op) (k : LINK) :
    k ∈ (run ext n ops).outter ↔ k ∈ n.outter ∨ ∃ op ∈ ops, k ∈ op.outerPart ext := by
  rw [run_outter, mem_putAll]; simp [List.mem_flatMap]

theorem node_sets_nodup (ext : Ext) (n : NODE) (ops : List Op) (hl : n.listen.Nodup) (ho : n.outter.Nodup) :
    (run ext n ops).listen.Nodup ∧ (run ext n ops).outter.Nodup := by
  rw [run_listen, run_outter]; exact ⟨nodup_putAll _ _ hl, nodup_putAll _ _ ho⟩

/-- the sets only grow: no call removes a link (the first insertion fixes its position) -/
theorem node_sets_monotone (ext : Ext) (n : NODE) (ops : List Op) (k : LINK) :
    (k ∈ n.listen → k ∈ (run ext n ops).listen) ∧ (k ∈ n.outter → k ∈ (run ext n ops).outter) := by
  rw [node_listen_mem, node_outter_mem]; exact ⟨Or.inl, Or.inl⟩

/-- a call repeated adds nothing -/
theorem node_listen_idempotent (ext : Ext) (n : NODE) (locals : List Bytes) (addr : Bytes) (k : LINK) :
    k ∈ (addListen ext (addListen ext n locals addr) locals addr).listen ↔ k ∈ (addListen ext n locals addr).listen := by
  simp only [addListen, mem_putAll]
  constructor
  · rintro ((h | h) | h)
    · exact Or.inl h
    · exact Or.inr h
    · exact Or.inr h
  · intro h; exact Or.inl h

/-- IsAttachable: some listen link has the same address and (its own port 0, or the same port) -/
theorem isAttachable_iff (n : NODE) (k : LINK) :
    isAttachable n k = true ↔ ∃ l ∈ n.listen, LINK.includes l k = true := by
  simp [isAttachable]

/-- a listen link attaches itself -/
theorem isAttachable_of_mem (n : NODE) (k : LINK) (h : k ∈ n.listen) : isAttachable n k = true := by
  rw [isAttachable_iff]
  refine ⟨k, h, ?_⟩
  have e : equalBytes k.ip k.ip = true := (equalBytes_iff _ _).mpr rfl
  simp [LINK.includes, e]

/-- **finding**: `hasListen` tests `k != nil` on a pointer CreateLINK never leaves nil, so it answers false and
    AddOutter does not drop connections whose local end is a listen address -/
theorem finding_has_listen_always_false (ext : Ext) :
    let n := addListen ext NODE.empty [] (s "10.0.0.1:80")
    hasListenSpec ext n (s "10.0.0.1") (s "80") = true ∧ hasListen ext n (s "10.0.0.1") (s "80") = false ∧
    (addOutter ext n (s "10.0.0.1:80") (s "8.8.8.8:53")).outter = [⟨[8, 8, 8, 8], 53⟩] := by
  have p80 : portOf (s "80") = 80 := by decide
  have l1 : listenLinks ext [] (s "10.0.0.1:80") = [⟨[10, 0, 0, 1], 80⟩] := by
    rw [listenLinks_specific ext _ _ ⟨s "10.0.0.1", s "80"⟩ (by decide) (by decide) (by decide),
      createLINK_of_v4 ext _ [10, 0, 0, 1] _ (by decide), p80]
  have g1 : getIPPORT (s "10.0.0.1:80") = some ⟨s "10.0.0.1", s "80"⟩ := by decide
  have g2 : getIPPORT (s "8.8.8.8:53") = some ⟨s "8.8.8.8", s "53"⟩ := by decide
  have f1 : (⟨s "10.0.0.1", s "80"⟩ : IPO).isIPv6 = false := by decide
  have f2 : ((⟨s "8.8.8.8", s "53"⟩ : IPO).isIPv6 || (⟨s "8.8.8.8", s "53"⟩ : IPO).isLocal127) = false := by decide
  have o1 : ∀ n, outerLinks ext n (s "10.0.0.1:80") (s "8.8.8.8:53") = [⟨[8, 8, 8, 8], 53⟩] := by
    intro n
    simp only [outerLinks, g1, g2, f1, f2, hasListen, Bool.false_eq_true, if_false]
    rw [createLINK_of_v4 ext _ [8, 8, 8, 8] _ (by decide), show portOf (s "53") = 53 by decide]
  simp only [addListen, addOutter, hasListenSpec, hasListen, l1, o1, NODE.empty,
    createLINK_of_v4 ext (s "10.0.0.1") [10, 0, 0, 1] _ (by decide), p80]
  decide

/-- **finding**: an address the resolver cannot resolve is not skipped (`if k != nil` is always true): the zero link
    0.0.0.0:0 is put, and with Port 0 it "includes" every port of 0.0.0.0 -/
theorem finding_unresolvable_listen_zero_link (ext : Ext) (h : ext (s "[::1]") = .err) :
    (addListen ext NODE.empty [] (s "[::1]:8080")).listen = [⟨[0, 0, 0, 0], 0⟩] ∧
    isAttachable (addListen ext NODE.empty [] (s "[::1]:8080")) ⟨[0, 0, 0, 0], 12345⟩ = true := by
  have hp : parseV4 (s "[::1]") = none := by decide
  have hg : getIPPORT (s "[::1]:8080") = some ⟨s "[::1]", s "8080"⟩ := by decide
  have hl : (⟨s "[::1]", s "8080"⟩ : IPO).isLocal127 = false ∧ isWild (s "[::1]") = false := by decide
  have e : (addListen ext NODE.empty [] (s "[::1]:8080")).listen = [⟨[0, 0, 0, 0], 0⟩] := by
    simp [addListen, listenLinks, hg, hl.1, hl.2, createLINK, lookup, hp, h, NODE.empty, putAll, putSet, zeroIP]
  refine ⟨e, ?_⟩
  rw [isAttachable, e]
  decide

/-! ### N3: the byte codec -/

theorem node_tobytes_shape (n : NODE) : toBytes n = 0 :: 80 :: body n := rfl

/-- the value layer agrees: ver, then exactly `WriteValue(Attr)` (type byte 80 + map), then the two link lists -/
theorem node_tobytes_value (n : NODE) :
    toBytes n = 0 :: (Value.encV (.map n.attr) ++ encLinks n.listen ++ encLinks n.outter) := by
  rw [Value.encV]; simp [toBytes, body]

/-- every NODE a history of AddListen / AddOutter reaches from a well-formed one is well formed (4-byte addresses,
    int32 ports, no duplicates) -/
theorem node_reachable_ok (ext : Ext) (hx : ExtOK ext) (n : NODE) (h : NodeOK n) (ops : List Op) :
    NodeOK (run ext n ops) := nodeOK_run ext hx n h ops

theorem node_empty_ok : NodeOK NODE.empty :=
  ⟨rfl, by simp [NODE.empty], by simp [NODE.empty], by simp [NODE.empty], by simp [NODE.empty], by simp [NODE.empty]⟩

/-- Full statement (evident law): `toObject (toBytes n ++ r) = some (n, r)`.  The code violates it for the type
    byte; what holds: once that one byte is taken out, ToObject reads back every well-formed NODE and stops exactly
    at the end of its bytes. -/
theorem node_roundtrip_partial (n : NODE) (r : Bytes) (ver : Nat) (h : NodeOK n)
    (hl : n.attr.length ≤ 9223372036854775807 ∧ n.listen.length ≤ 9223372036854775807 ∧
      n.outter.length ≤ 9223372036854775807) :
    toObject (ver :: ((toBytes n).drop 2 ++ r)) = some (n, r) := by
  show readBody (body n ++ r) = some (n, r)
  exact readBody_body n r h hl

/-- … in particular for everything reachable from `NewNODE()` -/
theorem node_roundtrip_reachable (ext : Ext) (hx : ExtOK ext) (ops : List Op) (r : Bytes)
    (hl : (run ext NODE.empty ops).listen.length ≤ 9223372036854775807 ∧
      (run ext NODE.empty ops).outter.length ≤ 9223372036854775807) :
    toObject (0 :: ((toBytes (run ext NODE.empty ops)).drop 2 ++ r)) = some (run ext NODE.empty ops, r) := by
  apply node_roundtrip_partial _ r 0 (node_reachable_ok ext hx _ node_empty_ok ops)
  refine ⟨?_, hl.1, hl.2⟩
  rw [run_attr]; simp [NODE.empty]

example : ExtOK (fun _ => Look.err) := by intro s ip h; simp at h

/-- the same with a non-trivial NODE, evaluated -/
theorem node_roundtrip_example :
    let n : NODE := ⟨[(s "type", .text (s "java"))], [⟨[10, 0, 0, 1], 3306⟩, ⟨[10, 0, 0, 1], 80⟩], [⟨[8, 8, 8, 8], 53⟩]⟩
    toObject (0 :: ((toBytes n).drop 2 ++ [7])) = some (n, [7]) := by
  intro n
  exact node_roundtrip_partial n [7] 0 ⟨by unfold Value.WFKVs; decide, by decide, by decide, by decide, by decide, by decide⟩ (by decide)

/-- **finding** (X01's `NODE.ToObject:type-byte-not-read`): ToObject starts `MapValue.Read` at the type byte 0x50;
    ReadDecimal takes 0x50 for an 8-byte length: the empty NODE `00 50 00 00 00` panics for lack of bytes, and a
    NODE with links reads an absurd count and runs off the end -/
theorem finding_node_type_byte :
    toBytes NODE.empty = [0, 80, 0, 0, 0] ∧ toObject (toBytes NODE.empty) = none ∧
    toObject (toBytes ⟨[], [⟨[10, 0, 0, 1], 80⟩], [⟨[8, 8, 8, 8], 53⟩]⟩) = none := by decide

/-- the misread is not always loud: seven zero bytes after the empty NODE make ToObject "succeed", having read the
    type byte and all that follows as an 8-byte count 0 … -/
theorem finding_node_type_byte_silent :
    (toObject (toBytes NODE.empty ++ [0, 0, 0, 0, 0, 0, 0])).map (fun p => (p.1.attr.length, p.1.listen, p.1.outter, p.2))
      = some (0, [], [], []) := by decide

/-- stored duplicates cannot come back: `toLinkObject` Puts into a set -/
theorem node_read_dedups :
    decLinks (encLinks [⟨[1, 1, 1, 1], 1⟩, ⟨[1, 1, 1, 1], 1⟩]) = some ([⟨[1, 1, 1, 1], 1⟩], []) := by decide

end Part1

/-! ## Part 2 — panicutil -/

namespace SafeLoop
open Ext.Safe

/-- (S1) Safe runs the callback iff neither AllOff nor the name is switched off -/
theorem safe_runs_iff (st : State) (name : Name) (cb : Cb) :
    (∃ e, (safe st name cb).2 = .safe true e) ↔ (st.allOff = false ∧ isOff st name = false) := by
  unfold safe
  cases h1 : st.allOff <;> cases h2 : isOff st name <;> simp
  cases cb 0 <;> simp

/-- a name switched off is not run and nothing escapes -/
theorem safe_off_not_run (st : State) (name : Name) (cb : Cb) (h : isOff st name = true) :
    (safe st name cb).2 = .safe false false := by
  unfold safe; cases st.allOff <;> simp [h]

theorem find_mapSet (m : List (Name × Bool)) (name : Name) (b : Bool) : find (mapSet m name b) name = some b := by
  unfold find mapSet
  split
  · rename_i hany
    induction m with
    | nil => simp at hany
    | cons p t ih =>
      by_cases hp : p.1 = name
      · simp [hp]
      · have hp' : (p.1 == name) = false := by simpa using hp
        simp only [List.any_cons, hp', Bool.false_or] at hany
        simp only [List.map_cons, hp', Bool.false_eq_true, if_false, List.find?]
        exact ih hany
  · rename_i hany
    have hnone : m.find? (fun p => p.1 == name) = none := by
      rw [List.find?_eq_none]; intro x hx hc; exact hany (List.any_eq_true.mpr ⟨x, hx, hc⟩)
    simp [List.find?_append, hnone]

theorem setOnOff_switches_off (st : State) (m : List (Name × Bool)) (name : Name) (h : st.lookup = some m) :
    isOff (step st (.setOnOff name false)).1 name = true ∧ isOff (step st (.setOnOff name true)).1 name = false := by
  simp [step, h, isOff, find_mapSet]

/-- the deferred bookkeeping always runs: after Safe the name is a key of PerfMap -/
theorem safe_perf (st : State) (name : Name) (cb : Cb) : name ∈ (safe st name cb).1.perf := by
  have h : ∀ s : State, name ∈ (perfPut s name).perf := by
    intro s; by_cases hc : name ∈ s.perf <;> simp [perfPut, hc]
  unfold safe
  split
  · exact h _
  · split
    · exact h _
    · split <;> exact h _

/-- (S3, partial) Full statement: `(safe st name cb).2 = .safe _ false` for every callback.  Holds only for
    callbacks that do not panic -/
theorem safe_never_escapes_partial (st : State) (name : Name) (cb : Cb) (h : cb 0 ≠ .panic) :
    ∃ ran, (safe st name cb).2 = .safe ran false := by
  unfold safe
  split
  · exact ⟨_, rfl⟩
  · split
    · exact ⟨_, rfl⟩
    · cases hc : cb 0
      · exact ⟨_, rfl⟩
      · exact absurd hc h
      · exact ⟨_, rfl⟩

example : (fun _ => Act.ret : Cb) 0 ≠ .panic := by decide

/-- **finding**: there is no recover in Safe: a panicking callback leaves it -/
theorem finding_safe_panic_escapes : (safe State.init [120] (fun _ => .panic)).2 = .safe true true := rfl

/-- **finding**: nor in SafeFor: the third call panics, SafeFor is left after exactly three calls -/
theorem finding_safefor_panic_escapes :
    (safeForLoop [120] (fun i => if i = 2 then .panic else .ret) 10 State.init 0).2 = .safeFor 3 .escaped := rfl

/-- SafeFor: AllOff on entry → returns at once without a call; a name switched off → never a call, never a return -/
theorem safeFor_allOff (st : State) (name : Name) (cb : Cb) (f : Nat) (h : st.allOff = true) :
    safeForLoop name cb (f + 1) st 0 = (st, .safeFor 0 .returned) := by
  simp [safeForLoop, h]

theorem safeFor_off_spins (st : State) (name : Name) (cb : Cb) (f : Nat) (h : st.allOff = false)
    (ho : isOff st name = true) : safeForLoop name cb (f + 1) st 0 = (st, .safeFor 0 .spins) := by
  simp [safeForLoop, h, ho]

theorem isOff_perfPut (st : State) (a b : Name) : isOff (perfPut st a) b = isOff st b := rfl

/-- SafeFor with a callback that returns k times and then panics: exactly k + 1 calls, then the panic escapes -/
theorem safeFor_counts_calls (name : Name) (k : Nat) : ∀ (st : State) (runs f : Nat), st.allOff = false →
    isOff st name = false → k < f →
    (safeForLoop name (fun i => if i = runs + k then .panic else .ret) f st runs).2 = .safeFor (runs + k + 1) .escaped := by
  induction k with
  | zero =>
    intro st runs f h1 h2 hf
    cases f with
    | zero => omega
    | succ f => simp [safeForLoop, h1, h2]
  | succ k ih =>
    intro st runs f h1 h2 hf
    cases f with
    | zero => omega
    | succ f =>
      have hne : ¬ runs = runs + (k + 1) := by omega
      simp only [safeForLoop, h1, h2, Bool.false_eq_true, if_false, hne]
      have := ih (perfPut st name) (runs + 1) f h1 (by rw [isOff_perfPut]; exact h2) (by omega)
      rw [show runs + 1 + k = runs + (k + 1) by omega] at this
      exact this

/-- (S2) counters count exactly the calls: over any history, counter `id` has grown by the number of `Cycle(id)`
    calls when id is inside the table, and no other op touches it -/
theorem counters_count_calls (ops : List Op) : ∀ (st : State) (id : Int), 0 ≤ id → id < MAX_COUNTERS →
    (run st ops).1.counts id = st.counts id + cycles id ops := by
  induction ops with
  | nil => intro st id _ _; simp [run, cycles]
  | cons op t ih =>
    intro st id h0 h1
    have safeFor_counts : ∀ (nm : Name) (cb : Cb) (f : Nat) (s : State) (r : Nat),
        (safeForLoop nm cb f s r).1.counts = s.counts := by
      intro nm cb f
      induction f with
      | zero => intro s r; rfl
      | succ f ihf =>
        intro s r
        simp only [safeForLoop]
        split
        · rfl
        · split
          · rfl
          · split
            · rw [ihf]; rfl
            · rfl
            · rw [ihf]; rfl
    simp only [run]
    rw [ih _ id h0 h1]
    cases op with
    | cycle j =>
      simp only [step, cycles]
      by_cases hj : 0 ≤ j ∧ j < MAX_COUNTERS
      · simp only [hj, and_self, if_true]
        by_cases e : j = id
        · subst e; simp; omega
        · have e' : ¬ id = j := fun x => e x.symm
          simp [e, e']
      · simp only [hj, if_false]
        have e : ¬ j = id := by intro x; subst x; exact hj ⟨h0, h1⟩
        simp [e]
    | setMap m => cases m with
      | none => simp [step, cycles]
      | some m => cases m <;> simp [step, cycles]
    | setOnOff nm b => simp only [step, cycles]; cases st.lookup <;> simp
    | setAllOff b => simp [step, cycles]
    | safe nm cb =>
      simp only [step, cycles, safe]
      split
      · simp [perfPut]
      · split
        · simp [perfPut]
        · split <;> simp [perfPut]
    | safeFor nm cb f => simp only [step, cycles]; rw [safeFor_counts]
    | resetPerf => simp [step, cycles]

/-- **finding**: `Cycle(id)` outside [0, 8192) is an index panic; the table is unchanged -/
theorem finding_cycle_out_of_range (st : State) (id : Int) (h : id < 0 ∨ MAX_COUNTERS ≤ id) :
    step st (.cycle id) = (st, .panic) := by
  have hn : ¬ (0 ≤ id ∧ id < MAX_COUNTERS) := by unfold MAX_COUNTERS at *; omega
  simp only [step, hn, if_false]

/-- **finding**: in a fresh process `onofflookup` is the nil map: SetOnOff panics until SetLoopOffMap has been called -/
theorem finding_setonoff_nil_map (name : Name) (b : Bool) : (step State.init (.setOnOff name b)).2 = .panic := rfl

/-- ResetPerfMap hands out the keys and leaves the map empty -/
theorem resetPerf_spec (st : State) :
    step st .resetPerf = ({ st with perf := [] }, .keys st.perf) := rfl

example : (run State.init [.setMap (some (some [([97], false)])), .safe [97] (fun _ => .ret), .safe [98] (fun _ => .ret),
    .cycle 10, .cycle 10, .cycle 8192, .resetPerf]).2 =
    [.unit, .safe false false, .safe true false, .unit, .unit, .panic, .keys [[97], [98]]] := by decide

end SafeLoop

/-! ## Part 3 — keygen and DateSyncTime -/

namespace KeyGen
open Ext.Key

/-- determinism: after SetSeed(i) the outputs do not depend on anything that happened before -/
theorem seeded_deterministic {σ : Type} (g : Prng σ) (s1 s2 : σ) (i : Int) (ops : List Op) :
    (run g s1 (.setSeed i :: ops)).2 = (run g s2 (.setSeed i :: ops)).2 := rfl

/-- RandInt(i) / RandLong(i) are in [0, i) for i > 0 (given the contract of math/rand), panic for i ≤ 0 and then
    leave the generator untouched -/
theorem rand_range {σ : Type} (g : Prng σ) (hg : PrngOK g) (st : σ) (i : Int) (h : 0 < i) :
    (∃ v, (step g st (.randInt i)).2 = .val v ∧ 0 ≤ v ∧ v < i) ∧
    (∃ v, (step g st (.randLong i)).2 = .val v ∧ 0 ≤ v ∧ v < i) := by
  have hn : ¬ i ≤ 0 := by omega
  simp only [step, hn, if_false]
  exact ⟨⟨_, rfl, hg.r31 st i h⟩, ⟨_, rfl, hg.r63 st i h⟩⟩

theorem rand_nonpositive_panics {σ : Type} (g : Prng σ) (st : σ) (i : Int) (h : i ≤ 0) :
    step g st (.randInt i) = (st, .panic) ∧ step g st (.randLong i) = (st, .panic) := by
  simp [step, h]

/-- Next() is the bit pattern of the normal variate read as int64 -/
theorem next_is_bits {σ : Type} (g : Prng σ) (st : σ) :
    (step g st .next).2 = .val (Hash.toI64 (g.norm st).1) := rfl

/-- **finding**: AddSeed's type switch — integer arguments fall into empty cases (they are ignored), float arguments
    reach `it.(int64)` and panic: no argument ever changes the seed -/
theorem finding_addseed_args {σ : Type} (g : Prng σ) (st : σ) (now : Int) :
    step g st (.addSeed now [.int64, .uint8]) = (g.seed now, .unit) ∧
    step g st (.addSeed now [.int64, .float64]) = (st, .panic) := ⟨rfl, rfl⟩

theorem addSeed_ignores_args {σ : Type} (g : Prng σ) (st : σ) (now : Int) (args : List ArgTy)
    (h : addSeedPanics args = false) : step g st (.addSeed now args) = step g st (.addSeed now []) := by
  simp only [step, h]; rfl

end KeyGen

namespace SyncTime
open Ext.Sync

/-- IsSyncTime ⇔ StartSyncTime has ever been called -/
theorem isSync_iff_started (st : State) : (step st .isSync).2 = .bool (st.ticker != .nil) := rfl

/-- a tick either takes the ticker's time stamp or, more than 5 s after the last synchronisation, the system clock -/
theorem tick_rule (st : State) (t now : Int) (h : st.ticker = .running) :
    ((step st (.tick t now)).1.sync = t ∧ (step st (.tick t now)).1.last = st.last ∧ t ≤ st.last + 5000) ∨
    ((step st (.tick t now)).1.sync = now ∧ (step st (.tick t now)).1.last = now ∧ st.last + 5000 < t) := by
  simp only [step, h, if_true, TIME_SYNC_INTERVAL]
  by_cases c : t > st.last + 5000
  · right; simp [c]
  · left; simp [c]; omega

/-- **finding**: StopSyncTime before StartSyncTime dereferences the nil ticker; after Stop, IsSyncTime stays true
    (the pointer is never cleared) and the clock no longer moves -/
theorem finding_sync_lifecycle :
    (step State.init .stop).2 = .panic ∧
    (run State.init [.start 1000, .stop, .isSync, .tick 2000 2000]) =
      (⟨.stopped, 1000, 1000, 0⟩, [.unit, .unit, .bool true, .unit]) := by decide

end SyncTime

end X04
