/-
  Property C07 — interpreted tie A: the transcribed Go functions compute the CodeModel.

  `xlate/c07 -mode goir` transcribes, statement by statement, into the IR of Golib.Udp.GoIR:
    util/paramtext/ParamKV.go      indexFold, ToPair, NewParamKVSeperate, ExistsKey, ToString, ToStringStr
    util/stringutil/StringUtil.go  Truncate, ParseInt32, ParseInt64, ParseStringZeroToEmpty, ArrayInt16ToString
  (Golib/Gen/UdpGoFns.lean).  The theorems below run these transcriptions with the IR's semantics and
  prove, **for all inputs**, that they return what the hand-written model returns:

    gen_ToPair      ToPair(s, "=")                       = Udp.toPair s
    gen_maskPass    NewParamKVSeperate(s, c, "=").ToStringStr(key, val) = Udp.maskPass c key val s
    gen_Truncate    Truncate(s, n)                       = s.take n
    gen_ParseInt32 / gen_ParseInt64                      = Udp.parseIntW 4 / 8
    gen_ZeroToEmpty ParseStringZeroToEmpty(v)            = Udp.zeroToEmpty v
    gen_Process_Dbc / gen_Process_Sql / gen_Process_SqlParam   the Process() bodies of the three connection-string packs
                                                         = Udp.processDbc on Dbc, the [QUERY TOO LONG] rule on Sql
    gen_ArrayInt16ToString  ArrayInt16ToString(a, c)     = Udp.joinInts c a   (the text UdpActiveStatsPack.Write sends)

  An edit of one of these functions changes the transcription, and the proof about it no longer
  applies (e.g. the offset taken in `strings.ToLower(s)` of D52, a `SplitN`, a changed comparison).
  Library calls (`strings.Split/TrimSpace/EqualFold`, `strconv.ParseInt`, `fmt.Sprintf("%d")`, map
  and bytes.Buffer operations) are the IR's builtins, i.e. the modelled functions.
-/
import Golib.Gen.UdpGoFns
import Golib.Udp.Split
import Golib.Udp.Mask

namespace C07Go
open Udp Udp.Go Udp.Gen.GoFns Prim

def find61 : Bytes → Nat → Int
  | [], _ => -1
  | x :: xs, k => if x = 61 then (k : Int) else find61 xs (k + 1)

theorem find61_ge (xs : Bytes) (k : Nat) : find61 xs k = -1 ∨ (k : Int) ≤ find61 xs k := by
  induction xs generalizing k with
  | nil => left; rfl
  | cons x xs ih =>
    simp only [find61]; split
    · right; omega
    · rcases ih (k + 1) with h | h
      · left; exact h
      · right; omega

theorem foldByte_eq61 (x : Nat) : (foldByte x == 61) = (x == 61) := by
  unfold foldByte
  split
  · rename_i h
    have h1 : (x + 32 == 61) = false := by simp; omega
    have h2 : (x == 61) = false := by simp; omega
    rw [h1, h2]
  · rfl

theorem upd_self (loc : Store) (i : Nat) (v : V) (h : loc i = v) : upd loc i v = loc := by
  funext j; unfold upd; split
  · rename_i e; rw [e, h]
  · rfl

def ifCond : E := (.bin .le (.bin .add (.var 3) (.var 2)) (.bi .len (.cons (.var 0) .nil)))
def ifBody : Ss := (.cons (.ifS (.bi .equalFold (.cons (.slice (.var 0) (.var 3) (.bin .add (.var 3) (.var 2))) (.cons (.var 1) .nil)))
      (.cons (.ret (.var 3))
      .nil)
      .nil)
      .nil)

theorem loop_indexFold (fe : FEnv) (s : Bytes) (fld : Store) (rest : Bytes) :
    ∀ (pre : Bytes) (loc : Store) (fuel : Nat), s = pre ++ rest → loc 0 = .str s → loc 1 = .str [61] → loc 2 = .int 1 →
      loc 3 = .int pre.length → rest.length + 1 ≤ fuel →
      loopCount 3 (condFn fe ifCond) (bodyFn fe ifBody) fuel { loc := loc, fld := fld } =
        if find61 rest pre.length = -1 then .norm { loc := upd loc 3 (.int s.length), fld := fld }
        else .ret (.int (find61 rest pre.length)) fld := by
  induction rest with
  | nil =>
    intro pre loc fuel hs h0 h1 h2 h3 hf
    cases fuel with
    | zero => omega
    | succ fuel =>
      have hlen : s.length = pre.length := by rw [hs]; simp
      have hC : condFn fe ifCond { loc := loc, fld := fld } = some false := by
        simp [condFn, ifCond, evalE, evalEs, biApply, binApply, h0, h2, h3, hlen]
        omega
      simp only [loopCount, hC, find61, if_true, hlen]
      rw [upd_self loc 3 _ h3]
  | cons x rest ih =>
    intro pre loc fuel hs h0 h1 h2 h3 hf
    cases fuel with
    | zero => omega
    | succ fuel =>
      have hlen : s.length = pre.length + (rest.length + 1) := by rw [hs]; simp
      have hsl : sliceV s (pre.length : Int) ((pre.length : Int) + 1) = some (.str [x]) := by
        unfold sliceV
        have : (0 : Int) ≤ (pre.length : Int) ∧ (pre.length : Int) ≤ (pre.length : Int) + 1 ∧ (pre.length : Int) + 1 ≤ (s.length : Int) := by omega
        rw [if_pos this, hs]
        simp
      have hC : condFn fe ifCond { loc := loc, fld := fld } = some true := by
        simp [condFn, ifCond, evalE, evalEs, biApply, binApply, h0, h2, h3, hlen]
        omega
      have hB : bodyFn fe ifBody { loc := loc, fld := fld } =
          if x = 61 then .ret (.int pre.length) fld else .norm { loc := loc, fld := fld } := by
        simp [bodyFn, ifBody, evalE, evalEs, biApply, binApply, h0, h1, h2, h3, execSs_cons, execSs_nil, execS_if,
          execS_ret, hsl, equalFoldA, foldByte_eq61]
        have e61 : foldByte 61 = 61 := by decide
        rw [e61, foldByte_eq61]
        by_cases hx : x = 61
        · simp [hx]
        · have hb : (x == 61) = false := by simpa using hx
          simp [hx, hb]
      simp only [loopCount, hC, hB, find61]
      by_cases hx : x = 61
      · simp [hx]
      · simp only [hx, if_false, h3]
        have := ih (pre ++ [x]) (upd loc 3 (.int (pre.length + 1))) fuel (by rw [hs]; simp)
          (by rw [upd_other _ _ _ _ (by decide)]; exact h0) (by rw [upd_other _ _ _ _ (by decide)]; exact h1)
          (by rw [upd_other _ _ _ _ (by decide)]; exact h2) (by simp) (by simp at hf ⊢; omega)
        simp only [List.length_append, List.length_singleton] at this
        rw [this]
        have e : upd (upd loc 3 (V.int (↑(List.length pre) + 1))) 3 (V.int ↑(List.length s)) = upd loc 3 (V.int ↑(List.length s)) := by
          funext j; simp [upd]; split <;> rfl
        rw [e]

theorem upd_apply (s : Store) (i : Nat) (v : V) (j : Nat) : upd s i v j = if j = i then v else s j := rfl

theorem run_indexFold (fe : FEnv) (s : Bytes) (fld : Store) :
    runFn fe paramKV.indexFold [.str s, .str [61]] fld = some (.int (find61 s 0), fld) := by
  simp [runFn, paramKV.indexFold, execSs_cons, execSs_nil, execS_assign, execS_forCount, execS_ret,
    evalE, evalEs, biApply, setL, initLoc, upd_apply]
  have hl := loop_indexFold fe s fld s []
    (upd (upd (fun j => if j = 0 then V.str s else if j - 1 = 0 then V.str [61] else V.str []) 2 (V.int 1)) 3 (V.int 0))
    (s.length + 2) (by simp) (by simp [upd_apply]) (by simp [upd_apply]) (by simp [upd_apply]) (by simp [upd_apply]) (by omega)
  simp only [ifCond, ifBody] at hl
  rw [hl]
  by_cases h : find61 s 0 = -1 <;> simp [h]

/-- `find61` against the list functions of the model -/
theorem find61_spec (xs : Bytes) (k : Nat) :
    (61 ∉ xs → find61 xs k = -1) ∧
    (61 ∈ xs → find61 xs k = ((k + (xs.takeWhile (· != 61)).length : Nat) : Int)) := by
  induction xs generalizing k with
  | nil => simp [find61]
  | cons x xs ih =>
    simp only [find61]
    by_cases hx : x = 61
    · subst hx; simp
    · have hb : (x != 61) = true := by simpa using hx
      simp only [hx, if_false, List.mem_cons, List.takeWhile_cons, hb, if_true, List.length_cons]
      constructor
      · intro h; exact (ih (k + 1)).1 (by intro hm; exact h (Or.inr hm))
      · intro h
        rcases h with h | h
        · exact absurd h.symm hx
        · rw [(ih (k + 1)).2 h]; congr 1; omega

theorem take_takeWhile (xs : Bytes) (p : Nat → Bool) : xs.take (xs.takeWhile p).length = xs.takeWhile p := by
  induction xs with
  | nil => rfl
  | cons x xs ih => simp only [List.takeWhile_cons]; split <;> simp [ih]

theorem drop_takeWhile (xs : Bytes) (p : Nat → Bool) : xs.drop (xs.takeWhile p).length = xs.dropWhile p := by
  induction xs with
  | nil => rfl
  | cons x xs ih => simp only [List.takeWhile_cons, List.dropWhile_cons]; split <;> simp [ih]

theorem split61 (s : Bytes) (hm : 61 ∈ s) :
    ∃ r, s = s.takeWhile (· != 61) ++ 61 :: r ∧ s.dropWhile (· != 61) = 61 :: r := by
  induction s with
  | nil => cases hm
  | cons x xs ih =>
    by_cases hx : x = 61
    · subst hx; exact ⟨xs, by simp, by simp⟩
    · have hb : (x != 61) = true := by simpa using hx
      rcases List.mem_cons.mp hm with h | h
      · exact absurd h.symm hx
      · obtain ⟨r, h1, h2⟩ := ih h
        refine ⟨r, ?_, ?_⟩
        · simp only [List.takeWhile_cons, hb, if_true, List.cons_append]; rw [← h1]
        · simp only [List.dropWhile_cons, hb, if_true]; exact h2

theorem run_ToPair (fe : FEnv) (hfe : ∀ s fld, fe 0 [.str s, .str [61]] fld = some (.int (find61 s 0)))
    (s : Bytes) (fld : Store) :
    runFn fe paramKV.ToPair [.str s, .str [61]] fld = some (.pair (.str (toPair s).1) (.str (toPair s).2), fld) := by
  by_cases hm : 61 ∈ s
  · obtain ⟨r, hs, hd⟩ := split61 s hm
    have hp := (find61_spec s 0).2 hm
    simp only [Nat.zero_add] at hp
    have hk : 61 ∉ s.takeWhile (· != 61) := by
      intro h
      have : ∀ (l : Bytes), 61 ∈ l.takeWhile (· != 61) → False := by
        intro l
        induction l with
        | nil => intro h; cases h
        | cons x xs ih =>
          simp only [List.takeWhile_cons]
          split
          · rename_i hx
            intro h
            rcases List.mem_cons.mp h with h | h
            · subst h; simp at hx
            · exact ih h
          · intro h; cases h
      exact this s h
    have htp : toPair s = (trim (s.takeWhile (· != 61)), trim r) := by
      conv => lhs; rw [hs]
      exact toPair_kv _ r hk
    have hlen : s.length = (s.takeWhile (· != 61)).length + (r.length + 1) := by
      conv => lhs; rw [hs]
      simp
    have hs1 : sliceV s 0 ((s.takeWhile (· != 61)).length : Int) = some (.str (s.takeWhile (· != 61))) := by
      unfold sliceV
      have : (0 : Int) ≤ 0 ∧ (0 : Int) ≤ ((s.takeWhile (· != 61)).length : Int) ∧ ((s.takeWhile (· != 61)).length : Int) ≤ (s.length : Int) := by omega
      rw [if_pos this]; simp [take_takeWhile]
    have hs2 : sliceV s (((s.takeWhile (· != 61)).length : Int) + 1) (s.length : Int) = some (.str r) := by
      unfold sliceV
      have : (0 : Int) ≤ ((s.takeWhile (· != 61)).length : Int) + 1 ∧ ((s.takeWhile (· != 61)).length : Int) + 1 ≤ (s.length : Int) ∧ (s.length : Int) ≤ (s.length : Int) := by omega
      rw [if_pos this]
      have e : (((s.takeWhile (· != 61)).length : Int) + 1).toNat = (s.takeWhile (· != 61)).length + 1 := by omega
      rw [e, ← List.drop_drop, drop_takeWhile, hd]
      simp only [List.drop_succ_cons, List.drop_zero, Int.toNat_natCast]
      rw [List.take_of_length_le (by omega)]
    have hne : (((s.takeWhile (· != 61)).length : Int) == -1) = false := by
      have : ¬ (((s.takeWhile (· != 61)).length : Int) = -1) := by omega
      simpa using this
    simp [runFn, paramKV.ToPair, execSs_cons, execSs_nil, execS_assign, execS_if, execS_ret2,
      evalE, evalEs, biApply, binApply, vEq, setL, initLoc, upd_apply, hfe, hp, hne, hs1, hs2, htp]
  · have hp := (find61_spec s 0).1 hm
    simp [runFn, paramKV.ToPair, execSs_cons, execSs_nil, execS_assign, execS_if, execS_ret2,
      evalE, evalEs, biApply, binApply, vEq, setL, initLoc, upd_apply, hfe, hp, toPair_noEq s hm]
    decide

/-! ### the constructor -/

def stepMap (m : List (Bytes × Bytes)) (t : Bytes) : List (Bytes × Bytes) :=
  if keyOf t = [] then m else mapPutV m (keyOf t) (valOf t)

def newLoopBody : Ss :=
  match paramKV.NewParamKVSeperate.body with
  | .cons _ (.cons _ (.cons _ (.cons _ (.cons _ (.cons (.ifS _ (.cons (.forRange _ _ _ b) _) _) _))))) => b
  | _ => .nil

/-- what the other functions expect of `ToPair` in the function environment -/
def FeToPair (fe : FEnv) : Prop :=
  ∀ t fld, fe 1 [.str t, .str [61]] fld = some (.pair (.str (keyOf t)) (.str (valOf t)))

theorem loop_new (fe : FEnv) (hfe : FeToPair fe) (xs : List Bytes) :
    ∀ (k : Nat) (loc fld : Store) (m : List (Bytes × Bytes)), fld 1 = .str [61] → fld 3 = .map m →
      ∃ loc', loopRange (rangeFn fe .blank (.var 3) newLoopBody) xs k { loc := loc, fld := fld } =
        .norm { loc := loc', fld := upd fld 3 (.map (xs.foldl stepMap m)) } := by
  induction xs with
  | nil =>
    intro k loc fld m h1 h3
    exact ⟨loc, by simp [loopRange, upd_self fld 3 _ h3]⟩
  | cons x xs ih =>
    intro k loc fld m h1 h3
    have hb : ∃ loc1, rangeFn fe .blank (.var 3) newLoopBody k x { loc := loc, fld := fld } =
        .norm { loc := loc1, fld := upd fld 3 (.map (stepMap m x)) } := by
      refine ⟨upd (upd (upd loc 3 (.str x)) 4 (.str (keyOf x))) 5 (.str (valOf x)), ?_⟩
      by_cases hk : keyOf x = []
      · simp [rangeFn, newLoopBody, paramKV.NewParamKVSeperate, execSs_cons, execSs_nil, execS_assign2, execS_if,
          execS_mapSet, evalE, evalEs, binApply, vEq, setL, getL, upd_apply, h1, h3, hfe x, stepMap, hk,
          upd_self fld 3 _ h3]
      · have hkb : (keyOf x == []) = false := by simpa using hk
        simp [rangeFn, newLoopBody, paramKV.NewParamKVSeperate, execSs_cons, execSs_nil, execS_assign2, execS_if,
          execS_mapSet, evalE, evalEs, binApply, vEq, setL, getL, upd_apply, h1, h3, hfe x, stepMap, hk, hkb]
    obtain ⟨loc1, hb⟩ := hb
    obtain ⟨loc', hl⟩ := ih (k + 1) loc1 (upd fld 3 (.map (stepMap m x))) (stepMap m x)
      (by rw [upd_other _ _ _ _ (by decide)]; exact h1) (by simp)
    refine ⟨loc', ?_⟩
    simp only [loopRange, hb, hl, List.foldl_cons]
    congr 2
    funext j; simp [upd]; split <;> rfl

theorem run_New (fe : FEnv) (hfe : FeToPair fe) (s : Bytes) (c : Nat) (fld0 : Store) :
    ∃ fld', runFn fe paramKV.NewParamKVSeperate [.str s, .str [c], .str [61]] fld0 = some (.nil, fld') ∧
      fld' 0 = .str [c] ∧ fld' 1 = .str [61] ∧ fld' 2 = .strs (splitOn c s) ∧
      fld' 3 = .map ((splitOn c s).foldl stepMap []) := by
  let F : Store := upd (upd (upd (upd (upd fld0 0 (.str [c])) 1 (.str [61])) 2 (.strs (splitOn c s))) 3 (.map [])) 4 (.str s)
  obtain ⟨loc', hl⟩ := loop_new fe hfe (splitOn c s) 0
    (fun j => if j = 0 then V.str s else if j - 1 = 0 then V.str [c] else if j - 1 - 1 = 0 then V.str [61] else V.str [])
    F [] (by simp [F, upd_apply]) (by simp [F, upd_apply])
  simp only [newLoopBody, paramKV.NewParamKVSeperate] at hl
  refine ⟨upd F 3 (.map ((splitOn c s).foldl stepMap [])), ?_, ?_, ?_, ?_, ?_⟩
  · simp [runFn, paramKV.NewParamKVSeperate, execSs_cons, execSs_nil, execS_assign, execS_if, execS_forRange, execS_ret,
      evalE, evalEs, biApply, binApply, vEq, setL, initLoc, upd_apply]
    simp only [F] at hl
    rw [hl]
  all_goals simp [F, upd_apply]

/-! ### ExistsKey, ToString, ToStringStr -/

theorem run_ExistsKey (fe : FEnv) (key : Bytes) (fld : Store) (m : List (Bytes × Bytes)) (h3 : fld 3 = .map m) :
    runFn fe paramKV.ExistsKey [.str key] fld = some (.bool (m.any fun e => e.1 == key), fld) := by
  simp [runFn, paramKV.ExistsKey, execSs_cons, execSs_nil, execS_assign2, execS_ret, evalE, evalEs, biApply, setL,
    initLoc, upd_apply, h3]

/-- the piece `ToString()` writes for one token -/
def piece (m : List (Bytes × Bytes)) (t : Bytes) : Bytes :=
  if keyOf t = [] then t else keyOf t ++ 61 :: mapGetV m (keyOf t)

/-- pieces with the separator after every piece but the `n`-th -/
def emit (c : Nat) (n : Int) (m : List (Bytes × Bytes)) : List Bytes → Nat → Bytes
  | [], _ => []
  | t :: ts, i => piece m t ++ (if (i : Int) < n - 1 then [c] else []) ++ emit c n m ts (i + 1)

theorem emit_cons (c : Nat) (n : Int) (m : List (Bytes × Bytes)) (t : Bytes) (ts : List Bytes) (i : Nat) :
    emit c n m (t :: ts) i = piece m t ++ (if (i : Int) < n - 1 then [c] else []) ++ emit c n m ts (i + 1) := rfl

theorem emit_join (c : Nat) (m : List (Bytes × Bytes)) (ts : List Bytes) (k : Nat) :
    emit c ((k + ts.length : Nat) : Int) m ts k = joinOn c (ts.map (piece m)) := by
  induction ts generalizing k with
  | nil => rfl
  | cons t ts ih =>
    cases ts with
    | nil =>
      have : ¬ ((k : Int) < ((k + 1 : Nat) : Int) - 1) := by omega
      simp [emit, joinOn, this]
    | cons u us =>
      have h : ((k : Int) < ((k + (t :: u :: us).length : Nat) : Int) - 1) := by simp; omega
      have e : k + (t :: u :: us).length = (k + 1) + (u :: us).length := by simp; omega
      have ih' := ih (k + 1)
      rw [← e] at ih'
      rw [emit_cons, if_pos h, ih']
      simp [joinOn]

def toStringLoopBody : Ss :=
  match paramKV.ToString.body with
  | .cons _ (.cons (.ifS _ (.cons _ (.cons (.forRange _ _ _ b) _)) _) _) => b
  | _ => .nil

theorem loop_toString (fe : FEnv) (hfe : FeToPair fe) (c : Nat) (n : Int) (m : List (Bytes × Bytes)) (fld : Store)
    (h0 : fld 0 = .str [c]) (h1 : fld 1 = .str [61]) (h3 : fld 3 = .map m) (xs : List Bytes) :
    ∀ (k : Nat) (loc : Store) (b : Bytes), loc 0 = .str b → loc 1 = .int n →
      ∃ loc', loopRange (rangeFn fe (.var 2) (.var 3) toStringLoopBody) xs k { loc := loc, fld := fld } =
          .norm { loc := loc', fld := fld } ∧ loc' 0 = .str (b ++ emit c n m xs k) ∧ loc' 1 = .int n := by
  induction xs with
  | nil => intro k loc b hb hn; exact ⟨loc, by simp [loopRange], by simp [emit, hb], hn⟩
  | cons x xs ih =>
    intro k loc b hb hn
    have hstep : ∃ loc1, rangeFn fe (.var 2) (.var 3) toStringLoopBody k x { loc := loc, fld := fld } =
        .norm { loc := loc1, fld := fld } ∧
        loc1 0 = .str (b ++ piece m x ++ (if (k : Int) < n - 1 then [c] else [])) ∧ loc1 1 = .int n := by
      by_cases hk : keyOf x = []
      · have hkb : (keyOf x == []) = true := by simp [hk]
        by_cases hlt : (k : Int) < n - 1
        · refine ⟨?_, ?_, ?_, ?_⟩
          rotate_left
          · simp [rangeFn, toStringLoopBody, paramKV.ToString, execSs_cons, execSs_nil, execS_assign2, execS_if,
              execS_bufWrite, evalE, evalEs, biApply, binApply, vEq, setL, upd_apply, h0, h1, h3, hfe x, hk, hb, hn, hlt]
            rfl
          · simp [upd_apply, piece, hk, hlt]
          · simp [upd_apply, hn]
        · refine ⟨?_, ?_, ?_, ?_⟩
          rotate_left
          · simp [rangeFn, toStringLoopBody, paramKV.ToString, execSs_cons, execSs_nil, execS_assign2, execS_if,
              execS_bufWrite, evalE, evalEs, biApply, binApply, vEq, setL, upd_apply, h0, h1, h3, hfe x, hk, hb, hn, hlt]
            rfl
          · simp [upd_apply, piece, hk, hlt]
          · simp [upd_apply, hn]
      · have hkb : (keyOf x == []) = false := by simpa using hk
        by_cases hlt : (k : Int) < n - 1
        · refine ⟨?_, ?_, ?_, ?_⟩
          rotate_left
          · simp [rangeFn, toStringLoopBody, paramKV.ToString, execSs_cons, execSs_nil, execS_assign2, execS_if,
              execS_bufWrite, evalE, evalEs, biApply, binApply, vEq, setL, upd_apply, h0, h1, h3, hfe x, hk, hkb, hb, hn, hlt]
            rfl
          · simp [upd_apply, piece, hk, hlt]
          · simp [upd_apply, hn]
        · refine ⟨?_, ?_, ?_, ?_⟩
          rotate_left
          · simp [rangeFn, toStringLoopBody, paramKV.ToString, execSs_cons, execSs_nil, execS_assign2, execS_if,
              execS_bufWrite, evalE, evalEs, biApply, binApply, vEq, setL, upd_apply, h0, h1, h3, hfe x, hk, hkb, hb, hn, hlt]
            rfl
          · simp [upd_apply, piece, hk, hlt]
          · simp [upd_apply, hn]
    obtain ⟨loc1, hs, hb1, hn1⟩ := hstep
    obtain ⟨loc', hl, hb', hn'⟩ := ih (k + 1) loc1 _ hb1 hn1
    refine ⟨loc', ?_, ?_, hn'⟩
    · simp only [loopRange, hs, hl]
    · rw [hb']; simp [emit, List.append_assoc]

theorem run_ToString (fe : FEnv) (hfe : FeToPair fe) (c : Nat) (toks : List Bytes) (m : List (Bytes × Bytes))
    (fld : Store) (h0 : fld 0 = .str [c]) (h1 : fld 1 = .str [61]) (h2 : fld 2 = .strs toks) (h3 : fld 3 = .map m) :
    runFn fe paramKV.ToString [] fld = some (.str (joinOn c (toks.map (piece m))), fld) := by
  obtain ⟨loc', hl, hb, _⟩ := loop_toString fe hfe c (toks.length : Int) m fld h0 h1 h3 toks 0
    (upd (upd (fun _ => V.str []) 0 (.str [])) 1 (.int toks.length)) [] (by simp [upd_apply]) (by simp [upd_apply])
  simp only [toStringLoopBody, paramKV.ToString] at hl
  have he := emit_join c m toks 0
  simp only [Nat.zero_add] at he
  simp [runFn, paramKV.ToString, execSs_cons, execSs_nil, execS_assign, execS_if, execS_forRange, execS_ret,
    evalE, evalEs, biApply, binApply, vEq, setL, initLoc, upd_apply, h2, hl, hb, he]

def FeExistsKey (fe : FEnv) : Prop :=
  ∀ key fld m, fld 3 = .map m → fe 3 [.str key] fld = some (.bool (m.any fun e => e.1 == key))
def FeToString (fe : FEnv) : Prop :=
  ∀ c toks m fld, fld 0 = .str [c] → fld 1 = .str [61] → fld 2 = .strs toks → fld 3 = .map m →
    fe 4 [] fld = some (.str (joinOn c (toks.map (piece m))))

theorem run_ToStringStr (fe : FEnv) (hE : FeExistsKey fe) (hT : FeToString fe) (c : Nat) (toks : List Bytes)
    (m : List (Bytes × Bytes)) (key val : Bytes)
    (fld : Store) (h0 : fld 0 = .str [c]) (h1 : fld 1 = .str [61]) (h2 : fld 2 = .strs toks) (h3 : fld 3 = .map m) :
    ∃ fld', runFn fe paramKV.ToStringStr [.str key, .str val] fld =
      some (.str (joinOn c (toks.map (piece (if m.any (fun e => e.1 == key) then mapPutV m key val else m)))), fld') := by
  by_cases hk : m.any (fun e => e.1 == key) = true
  · refine ⟨upd fld 3 (.map (mapPutV m key val)), ?_⟩
    have := hT c toks (mapPutV m key val) (upd fld 3 (.map (mapPutV m key val)))
      (by simp [upd_apply, h0]) (by simp [upd_apply, h1]) (by simp [upd_apply, h2]) (by simp [upd_apply])
    simp [runFn, paramKV.ToStringStr, execSs_cons, execSs_nil, execS_if, execS_mapSet, execS_ret, evalE, evalEs, setL,
      getL, initLoc, upd_apply, hE key fld m h3, hk, h3, this]
  · refine ⟨fld, ?_⟩
    have hkf : m.any (fun e => e.1 == key) = false := by
      cases h : m.any (fun e => e.1 == key)
      · rfl
      · exact absurd h hk
    simp [runFn, paramKV.ToStringStr, execSs_cons, execSs_nil, execS_if, execS_mapSet, execS_ret, evalE, evalEs, setL,
      getL, initLoc, upd_apply, hE key fld m h3, hkf, hT c toks m fld h0 h1 h2 h3]

/-! ### the Go map against `lookupLast` -/

def getR : List (Bytes × Bytes) → Bytes → Bytes
  | [], _ => []
  | e :: m, k => if e.1 = k then e.2 else getR m k

theorem mapGetV_getR (m : List (Bytes × Bytes)) (k : Bytes) : mapGetV m k = getR m k := by
  unfold mapGetV
  induction m with
  | nil => rfl
  | cons e m ih =>
    simp only [List.find?_cons, getR]
    by_cases h : e.1 = k
    · simp [h]
    · have : (e.1 == k) = false := by simpa using h
      simp only [this, h, if_false]; exact ih

theorem getR_repl (m : List (Bytes × Bytes)) (k v k' : Bytes) (hany : m.any (fun e => e.1 == k) = true) :
    getR (m.map fun e => if (e.1 == k) = true then (k, v) else e) k' = if k' = k then v else getR m k' := by
  induction m with
  | nil => simp at hany
  | cons e m ih =>
    simp only [List.map_cons, getR]
    by_cases he : e.1 = k
    · have heb : (e.1 == k) = true := by simpa using he
      simp only [heb, if_true]
      by_cases hk : k' = k
      · simp [hk]
      · have h1 : ¬ k = k' := fun h => hk h.symm
        have h2 : ¬ e.1 = k' := by rw [he]; exact h1
        simp only [h1, h2, hk, if_false]
        by_cases hm : m.any (fun e => e.1 == k) = true
        · rw [ih hm]; simp [hk]
        · have : m.map (fun e => if (e.1 == k) = true then (k, v) else e) = m := by
            rw [List.map_congr_left (g := id)]
            · simp
            · intro a ha
              have : (a.1 == k) = false := by
                cases h : a.1 == k
                · rfl
                · exact absurd (List.any_eq_true.mpr ⟨a, ha, h⟩) hm
              simp [this]
          rw [this]
    · have heb : (e.1 == k) = false := by simpa using he
      have hm : m.any (fun e => e.1 == k) = true := by
        simp only [List.any_cons, heb, Bool.false_or] at hany; exact hany
      simp only [heb, Bool.false_eq_true, if_false, ih hm]
      by_cases hek : e.1 = k'
      · have : ¬ k' = k := fun h => he (hek.trans h)
        simp [hek, this]
      · simp [hek]

theorem getR_append (m : List (Bytes × Bytes)) (k v k' : Bytes) (hany : m.any (fun e => e.1 == k) = false) :
    getR (m ++ [(k, v)]) k' = if k' = k then v else getR m k' := by
  induction m with
  | nil => simp [getR]; by_cases h : k = k' <;> simp [h, eq_comm]
  | cons e m ih =>
    simp only [List.any_cons, Bool.or_eq_false_iff] at hany
    have he : ¬ e.1 = k := by simpa using hany.1
    simp only [List.cons_append, getR, ih hany.2]
    by_cases hek : e.1 = k'
    · have : ¬ k' = k := fun h => he (hek.trans h)
      simp [hek, this]
    · simp [hek]

theorem mapGet_put (m : List (Bytes × Bytes)) (k v k' : Bytes) :
    mapGetV (mapPutV m k v) k' = if k' = k then v else mapGetV m k' := by
  rw [mapGetV_getR, mapGetV_getR]
  unfold mapPutV
  cases hany : m.any (fun e => e.1 == k)
  · simp only [Bool.false_eq_true, if_false]; exact getR_append m k v k' hany
  · simp only [if_true]; exact getR_repl m k v k' hany

theorem mapAny_put (m : List (Bytes × Bytes)) (k v k' : Bytes) :
    (mapPutV m k v).any (fun e => e.1 == k') = (m.any (fun e => e.1 == k') || k == k') := by
  unfold mapPutV
  by_cases hany : m.any (fun e => e.1 == k) = true
  · simp only [hany, if_true]
    induction m with
    | nil => simp at hany
    | cons e m ih =>
      simp only [List.map_cons, List.any_cons]
      by_cases he : e.1 = k
      · simp only [he, beq_self_eq_true, if_true]
        by_cases hm : m.any (fun e => e.1 == k) = true
        · rw [ih hm]; cases (k == k') <;> simp
        · have : m.map (fun e => if (e.1 == k) = true then (k, v) else e) = m := by
            rw [List.map_congr_left (g := id)]
            · simp
            · intro a ha
              have : (a.1 == k) = false := by
                cases h : a.1 == k
                · rfl
                · exact absurd (List.any_eq_true.mpr ⟨a, ha, h⟩) hm
              simp [this]
          rw [this]; cases (k == k') <;> simp
      · have heb : (e.1 == k) = false := by simpa using he
        have hm : m.any (fun e => e.1 == k) = true := by
          simp only [List.any_cons, heb, Bool.false_or] at hany; exact hany
        simp only [heb, Bool.false_eq_true, if_false, ih hm, Bool.or_assoc]
  · have hf : m.any (fun e => e.1 == k) = false := by
      cases h : m.any (fun e => e.1 == k)
      · rfl
      · exact absurd h hany
    simp [hf, List.any_append]

theorem foldl_get (toks : List Bytes) (m : List (Bytes × Bytes)) (k : Bytes) (hk : k ≠ []) :
    mapGetV (toks.foldl stepMap m) k =
      match toks.reverse.find? (fun t => keyOf t == k) with
      | some t => valOf t
      | none => mapGetV m k := by
  induction toks generalizing m with
  | nil => rfl
  | cons t ts ih =>
    simp only [List.foldl_cons, List.reverse_cons, List.find?_append, ih]
    cases hf : ts.reverse.find? (fun t => keyOf t == k) with
    | some u => rfl
    | none =>
      simp only [Option.none_or, List.find?]
      unfold stepMap
      by_cases ht : keyOf t = k
      · have hne : ¬ keyOf t = [] := by rw [ht]; exact hk
        simp [ht, hk, mapGet_put]
      · have hb : (keyOf t == k) = false := by simpa using ht
        simp only [hb]
        split
        · rfl
        · have : ¬ k = keyOf t := fun h => ht h.symm
          rw [mapGet_put]; simp [this]

theorem foldl_any (toks : List Bytes) (m : List (Bytes × Bytes)) (k : Bytes) (hk : k ≠ []) :
    (toks.foldl stepMap m).any (fun e => e.1 == k) = (m.any (fun e => e.1 == k) || toks.any (fun t => keyOf t == k)) := by
  induction toks generalizing m with
  | nil => simp
  | cons t ts ih =>
    simp only [List.foldl_cons, ih, List.any_cons]
    unfold stepMap
    split
    · rename_i h
      have hne : ¬ ([] : Bytes) = k := fun h' => hk h'.symm
      have : (keyOf t == k) = false := by rw [h]; simpa using hne
      simp [this]
    · rw [mapAny_put]; simp [Bool.or_assoc]

/-- run the constructor, then `ToStringStr(key, val)`, as `Process()` does for one separator -/
def goMaskPass (c : Nat) (key val s : Bytes) : Option V :=
  match runFn (mkFEnv [paramKV.ToPair, paramKV.indexFold]) paramKV.NewParamKVSeperate
      [.str s, .str [c], .str [61]] (fun _ => .nil) with
  | some (_, fld) =>
    (runFn (mkFEnv [paramKV.ToString, paramKV.ExistsKey, paramKV.NewParamKVSeperate, paramKV.ToPair, paramKV.indexFold])
      paramKV.ToStringStr [.str key, .str val] fld).map (·.1)
  | none => none

theorem mkFEnv_head (f : Fn) (fs : List Fn) (args : List V) (fld : Store) :
    mkFEnv (f :: fs) fs.length args fld = (runFn (mkFEnv fs) f args fld).map (·.1) := by simp [mkFEnv]
theorem mkFEnv_tail (f : Fn) (fs : List Fn) (i : Nat) (args : List V) (fld : Store) (h : i ≠ fs.length) :
    mkFEnv (f :: fs) i args fld = mkFEnv fs i args fld := by simp [mkFEnv, h]

theorem fe_indexFold (fld : Store) (s : Bytes) :
    mkFEnv [paramKV.indexFold] 0 [.str s, .str [61]] fld = some (.int (find61 s 0)) := by
  show mkFEnv (paramKV.indexFold :: []) ([] : List Fn).length _ _ = _
  rw [mkFEnv_head, run_indexFold]; rfl

theorem feToPair2 : FeToPair (mkFEnv [paramKV.ToPair, paramKV.indexFold]) := by
  intro t fld
  have h := run_ToPair (mkFEnv [paramKV.indexFold]) (fun s fld => fe_indexFold fld s) t fld
  show mkFEnv (paramKV.ToPair :: [paramKV.indexFold]) [paramKV.indexFold].length _ _ = _
  rw [mkFEnv_head, h]; rfl

abbrev prog5 : List Fn :=
  [paramKV.ToString, paramKV.ExistsKey, paramKV.NewParamKVSeperate, paramKV.ToPair, paramKV.indexFold]

theorem feToPair_up (fs : List Fn) (f : Fn) (h : FeToPair (mkFEnv fs)) (hl : 1 ≠ fs.length) : FeToPair (mkFEnv (f :: fs)) := by
  intro t fld; rw [mkFEnv_tail _ _ _ _ _ hl]; exact h t fld

theorem feToPair3 : FeToPair (mkFEnv [paramKV.NewParamKVSeperate, paramKV.ToPair, paramKV.indexFold]) :=
  feToPair_up _ _ feToPair2 (by decide)
theorem feToPair4 : FeToPair (mkFEnv [paramKV.ExistsKey, paramKV.NewParamKVSeperate, paramKV.ToPair, paramKV.indexFold]) :=
  feToPair_up _ _ feToPair3 (by decide)
theorem feToPair5 : FeToPair (mkFEnv prog5) := feToPair_up _ _ feToPair4 (by decide)

theorem feExistsKey5 : FeExistsKey (mkFEnv prog5) := by
  intro k f m hm
  rw [mkFEnv_tail _ _ _ _ _ (by decide)]
  show mkFEnv (paramKV.ExistsKey :: [paramKV.NewParamKVSeperate, paramKV.ToPair, paramKV.indexFold])
    [paramKV.NewParamKVSeperate, paramKV.ToPair, paramKV.indexFold].length _ _ = _
  rw [mkFEnv_head, run_ExistsKey _ k f m hm]; rfl

theorem feToString5 : FeToString (mkFEnv prog5) := by
  intro c toks m f a0 a1 a2 a3
  show mkFEnv (paramKV.ToString :: [paramKV.ExistsKey, paramKV.NewParamKVSeperate, paramKV.ToPair, paramKV.indexFold])
    [paramKV.ExistsKey, paramKV.NewParamKVSeperate, paramKV.ToPair, paramKV.indexFold].length _ _ = _
  rw [mkFEnv_head, run_ToString _ feToPair4 c toks m f a0 a1 a2 a3]; rfl

theorem gen_maskPass (c : Nat) (key val s : Bytes) (hkey : key ≠ []) :
    goMaskPass c key val s = some (.str (maskPass c key val s)) := by
  unfold goMaskPass
  obtain ⟨fld, hrun, h0, h1, h2, h3⟩ := run_New _ feToPair2 s c (fun _ => .nil)
  rw [hrun]
  simp only []
  have hE := feExistsKey5
  have hT := feToString5
  obtain ⟨fld', hr⟩ := run_ToStringStr _ hE hT c (splitOn c s) _ key val fld h0 h1 h2 h3
  rw [hr]
  simp only [Option.map_some]
  congr 2
  rw [maskPass_eq]
  congr 1
  apply List.map_congr_left
  intro t ht
  unfold piece rebuild
  by_cases hk : keyOf t = []
  · simp [hk]
  · have hkb : (keyOf t).isEmpty = false := by simpa using hk
    simp only [hk, if_false, hkb, Bool.false_eq_true]
    congr 2
    have hex : (splitOn c s).any (fun u => keyOf u == keyOf t) = true :=
      List.any_eq_true.mpr ⟨t, ht, by simp⟩
    by_cases hkk : keyOf t = key
    · have hany : ((splitOn c s).foldl stepMap []).any (fun e => e.1 == key) = true := by
        rw [foldl_any _ _ _ hkey, ← hkk, hex]; simp
      simp [hany, hkk, mapGet_put]
    · have hb : (keyOf t == key) = false := by simpa using hkk
      simp only [hb, Bool.false_eq_true, if_false]
      have hget : mapGetV ((splitOn c s).foldl stepMap []) (keyOf t) = lookupLast (keyOf t) (splitOn c s) := by
        rw [foldl_get _ _ _ hk]; unfold lookupLast
        cases (splitOn c s).reverse.find? (fun u => keyOf u == keyOf t) <;> rfl
      split
      · rw [mapGet_put]; simp [hkk, hget]
      · exact hget

theorem gen_ToPair (s : Bytes) (fld : Store) :
    mkFEnv paramKV.prog 1 [.str s, .str [61]] fld = some (.pair (.str (toPair s).1) (.str (toPair s).2)) := by
  have h := feToPair5 s fld
  unfold paramKV.prog
  rw [mkFEnv_tail _ _ _ _ _ (by decide)]
  simpa [keyOf, valOf] using h

/-! ### stringutil -/

theorem gen_Truncate (s : Bytes) (n : Nat) (fld : Store) :
    mkFEnv stringutil.prog 0 [.str s, .int n] fld = some (.str (s.take n)) := by
  simp [stringutil.prog, mkFEnv, runFn, stringutil.Truncate, execSs, execS, evalE, evalEs, biApply, binApply, vEq, initLoc]
  by_cases h : s.isEmpty = true ∨ s.length ≤ n
  · have hb : (List.isEmpty s || decide (List.length s ≤ n)) = true := by
      rcases h with h | h <;> simp [h]
    simp only [hb]
    refine ⟨fld, ?_⟩
    have : s.take n = s := by
      rcases h with h | h
      · have : s = [] := by simpa using h
        simp [this]
      · exact List.take_of_length_le h
    simp [this]
  · have hb : (List.isEmpty s || decide (List.length s ≤ n)) = false := by
      simp only [not_or] at h
      simp [h.1, h.2]
    simp only [hb]
    have hs : sliceV s 0 (n : Int) = some (.str (s.take n)) := by
      simp only [not_or, Nat.not_le] at h
      unfold sliceV
      have : (0 : Int) ≤ 0 ∧ (0 : Int) ≤ (n : Int) ∧ (n : Int) ≤ (s.length : Int) := by omega
      simp [this]
    simp [hs]

theorem parseIntGo_inRange (w : Nat) (s : Bytes) (h : (parseIntGo w s).2 = true) : inRange w (parseIntGo w s).1 := by
  unfold parseIntGo at h ⊢
  cases hp : parseInt? s with
  | none => simp [hp] at h
  | some v =>
    simp only [hp] at h ⊢
    by_cases hr : inRange w v
    · simp [hr]
    · simp [hr] at h

theorem gen_ParseInt32 (s : Bytes) (fld : Store) :
    mkFEnv stringutil.prog 1 [.str s] fld = some (.int (parseIntW 4 s)) := by
  simp [stringutil.prog, mkFEnv, runFn, stringutil.ParseInt32, execSs, execS, evalE, evalEs, biApply, binApply, vEq,
    initLoc, setL, upd]
  rw [parseIntGo_ok]
  by_cases h : (parseIntGo 4 s).2 = true
  · simp [h, wrapI_id 4 _ (parseIntGo_inRange 4 s h)]
  · simp [h]

theorem gen_ParseInt64 (s : Bytes) (fld : Store) :
    mkFEnv stringutil.prog 2 [.str s] fld = some (.int (parseIntW 8 s)) := by
  simp [stringutil.prog, mkFEnv, runFn, stringutil.ParseInt64, execSs, execS, evalE, evalEs, biApply, binApply, vEq,
    initLoc, setL, upd]
  rw [parseIntGo_ok]
  by_cases h : (parseIntGo 8 s).2 = true
  · simp [h, wrapI_id 8 _ (parseIntGo_inRange 8 s h)]
  · simp [h]

theorem gen_ZeroToEmpty (v : Int) (fld : Store) :
    mkFEnv stringutil.prog 3 [.int v] fld = some (.str (zeroToEmpty v)) := by
  simp [stringutil.prog, mkFEnv, runFn, stringutil.ParseStringZeroToEmpty, execSs, execS, evalE, evalEs, biApply,
    binApply, vEq, initLoc]
  unfold zeroToEmpty
  by_cases h : v = 0
  · simp [h]
  · have : (v == 0) = false := by simpa using h
    simp [h, this]

/-! ### ArrayInt16ToString -/

def a2sLoopBody : Ss :=
  match stringutil.ArrayInt16ToString.body with
  | .cons _ (.cons _ (.cons (.forRangeI _ _ _ b) _)) => b
  | _ => .nil

theorem set_middle (l1 l2 : List Bytes) (v : Bytes) : (l1 ++ [] :: l2).set l1.length v = l1 ++ v :: l2 := by
  induction l1 with
  | nil => rfl
  | cons x xs ih => simp [List.set, ih]

theorem loop_a2s (fe : FEnv) (fld : Store) (rest : List Int) :
    ∀ (done : List Int) (loc : Store),
      loc 2 = .strs (done.map showInt ++ List.replicate rest.length []) →
      ∃ loc', loopRangeI (rangeFnI fe (.var 3) (.var 4) a2sLoopBody) rest done.length { loc := loc, fld := fld } =
          .norm { loc := loc', fld := fld } ∧
        loc' 2 = .strs ((done ++ rest).map showInt) ∧ loc' 1 = loc 1 := by
  induction rest with
  | nil => intro done loc h2; exact ⟨loc, by simp [loopRangeI], by simpa using h2, rfl⟩
  | cons x rest ih =>
    intro done loc h2
    have hlen : (done.length : Int) < ((done.map showInt ++ List.replicate (x :: rest).length ([] : Bytes)).length : Int) := by
      simp; omega
    have hset : (done.map showInt ++ List.replicate (x :: rest).length ([] : Bytes)).set done.length (showInt x) =
        (done ++ [x]).map showInt ++ List.replicate rest.length [] := by
      have := set_middle (done.map showInt) (List.replicate rest.length []) (showInt x)
      simp only [List.length_map] at this
      simp only [List.length_cons, List.replicate_succ, this]
      simp
    have hstep : rangeFnI fe (.var 3) (.var 4) a2sLoopBody done.length x { loc := loc, fld := fld } =
        .norm { loc := upd (upd (upd loc 3 (.int done.length)) 4 (.int x)) 2
                  (.strs ((done ++ [x]).map showInt ++ List.replicate rest.length [])),
                fld := fld } := by
      simp only [rangeFnI, a2sLoopBody, stringutil.ArrayInt16ToString, execSs_cons, execSs_nil, execS_idxSet, evalE, evalEs,
        biApply, setL, getL, upd_apply]
      simp only [show ((2 : Nat) = 4) = False by decide, show ((2 : Nat) = 3) = False by decide, if_false, h2,
        show ((3 : Nat) = 4) = False by decide, if_true]
      have hc : (0 : Int) ≤ (done.length : Int) ∧ (done.length : Int) < ((done.map showInt ++ List.replicate (x :: rest).length ([] : Bytes)).length : Int) :=
        ⟨by omega, hlen⟩
      simp only [hc, and_self, if_true, Int.toNat_natCast, hset]
    obtain ⟨loc', hl, h2', h1'⟩ := ih (done ++ [x])
      (upd (upd (upd loc 3 (.int done.length)) 4 (.int x)) 2
        (.strs ((done ++ [x]).map showInt ++ List.replicate rest.length []))) (by simp [upd_apply])
    refine ⟨loc', ?_, ?_, ?_⟩
    · simp only [loopRangeI, hstep]
      simpa using hl
    · simpa using h2'
    · rw [h1']; simp [upd_apply]

theorem gen_ArrayInt16ToString (xs : List Int) (c : Nat) (fld : Store) :
    mkFEnv stringutil.prog 4 [.ints xs, .str [c]] fld = some (.str (joinInts c xs)) := by
  have hj : joinInts c xs = joinOn c (xs.map showInt) := by
    unfold joinInts
    induction xs.map showInt with
    | nil => rfl
    | cons a r ih => cases r with
      | nil => rfl
      | cons b r' => simp only [joinBytes, joinOn] at ih ⊢; rw [ih]
  cases xs with
  | nil =>
    simp [stringutil.prog, mkFEnv, runFn, stringutil.ArrayInt16ToString, execSs_cons, execSs_nil, execS_if, execS_ret,
      evalE, evalEs, biApply, binApply, vEq, initLoc, joinInts, joinBytes]
  | cons x xs' =>
    obtain ⟨loc', hl, h2, h1⟩ := loop_a2s (mkFEnv [stringutil.ParseStringZeroToEmpty, stringutil.ParseInt64, stringutil.ParseInt32, stringutil.Truncate])
      fld (x :: xs') []
      (upd (fun j => if j = 0 then V.ints (x :: xs') else if j - 1 = 0 then V.str [c] else V.str []) 2
        (.strs (List.replicate (x :: xs').length [])))
      (by simp [upd_apply])
    simp only [a2sLoopBody, stringutil.ArrayInt16ToString] at hl
    simp only [List.length_nil] at hl
    have hz : (((xs'.length : Int) + 1) == 0) = false := by
      have : ¬ ((xs'.length : Int) + 1 = 0) := by omega
      simpa using this
    have hnn : (0 : Int) ≤ (xs'.length : Int) + 1 := by omega
    have htn : ((xs'.length : Int) + 1).toNat = xs'.length + 1 := by omega
    simp only [List.length_cons] at hl
    show mkFEnv (stringutil.ArrayInt16ToString :: [stringutil.ParseStringZeroToEmpty, stringutil.ParseInt64, stringutil.ParseInt32, stringutil.Truncate])
      [stringutil.ParseStringZeroToEmpty, stringutil.ParseInt64, stringutil.ParseInt32, stringutil.Truncate].length _ _ = _
    rw [mkFEnv_head]
    simp [runFn, stringutil.ArrayInt16ToString, execSs_cons, execSs_nil, execS_if, execS_ret,
      execS_assign, execS_forRangeI, evalE, evalEs, biApply, binApply, vEq, initLoc, setL, upd_apply, hz, hnn, htn, hl, h2, h1, hj]

/-! ### the two passes of `Process()` through the transcribed code -/

/-- `maskDbc` (Golib.Udp.ParamKV) is the transcribed ParamKV code run twice, as the Process()
    bodies do (`" "` then `";"`, key `password`, value `#`) -/
theorem gen_maskDbc (s : Bytes) (hs : s ≠ []) :
    (match goMaskPass 32 kwPassword kwHash s with
      | some (.str s1) => goMaskPass 59 kwPassword kwHash s1
      | _ => none) = some (.str (maskDbc s)) := by
  rw [gen_maskPass 32 kwPassword kwHash s (by decide)]
  simp only []
  rw [gen_maskPass 59 kwPassword kwHash _ (by decide)]
  unfold maskDbc
  have : s.isEmpty = false := by simpa using hs
  simp [this]

/-! ### the `Process()` bodies of the three packs that carry a connection string

Transcribed like the functions above (receiver fields 0 = Ver, 1 = Dbc, 2 = Sql).  The method call
`p.ToStringStr(k, v)` on the object of `paramtext.NewParamKVSeperate(s, sep, "=")` is function 0 of the
environment and means the transcribed ParamKV code (`goMaskPass`, proved equal to `maskPass` above). -/

def feMask : FEnv := fun i args _ =>
  if i = 0 then
    match args with
    | [.pair (.str s) (.pair (.str [c]) (.str [61])), .str k, .str v] => goMaskPass c k v s
    | _ => none
  else none

theorem feMask_apply (c : Nat) (s k v : Bytes) (fld : Store) (hk : k ≠ []) :
    feMask 0 [.pair (.str s) (.pair (.str [c]) (.str [61])), .str k, .str v] fld = some (.str (maskPass c k v s)) := by
  simp only [feMask, if_true]; exact gen_maskPass c k v s hk

/-- **UdpTxDbcPack.Process()**, transcribed, computes `processDbc` for every version and every Dbc -/
theorem gen_Process_Dbc (ver : Int) (dbc : Bytes) (fld : Store) (h0 : fld 0 = .int ver) (h1 : fld 1 = .str dbc) :
    ∃ fld', runFn feMask process.UdpTxDbcPack [] fld = some (.nil, fld') ∧
      fld' 1 = .str (processDbc ver dbc) ∧ fld' 0 = .int ver ∧ fld' 2 = fld 2 := by
  have hpw : kwPassword ≠ [] := by decide
  have hkw : ([112, 97, 115, 115, 119, 111, 114, 100] : Bytes) = kwPassword := rfl
  have hh : ([35] : Bytes) = kwHash := rfl
  unfold processDbc maskDbc masksAt
  by_cases he : dbc = []
  · subst he
    refine ⟨fld, ?_, by simp [h1], h0, rfl⟩
    by_cases c5 : 50000 < ver
    · simp [runFn, process.UdpTxDbcPack, execSs_cons, execSs_nil, execS_if, evalE, binApply, vEq, h0, h1, c5]
    · by_cases c4 : 40000 < ver
      · simp [runFn, process.UdpTxDbcPack, execSs_cons, execSs_nil, execS_if, evalE, binApply, vEq, h0, h1, c5, c4]
      · by_cases c3 : 30000 < ver
        · simp [runFn, process.UdpTxDbcPack, execSs_cons, execSs_nil, execS_if, evalE, binApply, vEq, h0, h1, c5, c4, c3]
        · by_cases c2 : 20000 < ver
          · simp [runFn, process.UdpTxDbcPack, execSs_cons, execSs_nil, execS_if, evalE, binApply, vEq, h0, h1, c5, c4, c3, c2]
          · simp [runFn, process.UdpTxDbcPack, execSs_cons, execSs_nil, execS_if, evalE, binApply, vEq, h0, h1, c5, c4, c3, c2]
  · have hb : (dbc == []) = false := by simpa using he
    have hemp : dbc.isEmpty = false := by simpa using he
    by_cases c5 : 50000 < ver
    · refine ⟨upd (upd fld 1 (.str (maskPass 32 kwPassword kwHash dbc))) 1
        (.str (maskPass 59 kwPassword kwHash (maskPass 32 kwPassword kwHash dbc))), ?_, ?_, ?_, ?_⟩
      · simp [runFn, process.UdpTxDbcPack, execSs_cons, execSs_nil, execS_if, execS_assign, evalE, evalEs, biApply,
          binApply, vEq, setL, upd_apply, h0, h1, c5, hb, hkw, hh, feMask_apply _ _ _ _ _ hpw]
      · have : ver > 50000 := c5
        simp [upd_apply, this, hemp]
      · simp [upd_apply, h0]
      · simp [upd_apply]
    · by_cases c4 : 40000 < ver
      · refine ⟨fld, ?_, ?_, h0, rfl⟩
        · simp [runFn, process.UdpTxDbcPack, execSs_cons, execSs_nil, execS_if, evalE, binApply, vEq, h0, h1, c5, c4]
        · have a : ¬ ver > 50000 := c5
          have b : ¬ ver ≤ 20000 := by omega
          simp [h1, a, b]
      · by_cases c3 : 30000 < ver
        · refine ⟨fld, ?_, ?_, h0, rfl⟩
          · simp [runFn, process.UdpTxDbcPack, execSs_cons, execSs_nil, execS_if, evalE, binApply, vEq, h0, h1, c5, c4, c3]
          · have a : ¬ ver > 50000 := c5
            have b : ¬ ver ≤ 20000 := by omega
            simp [h1, a, b]
        · by_cases c2 : 20000 < ver
          · refine ⟨fld, ?_, ?_, h0, rfl⟩
            · simp [runFn, process.UdpTxDbcPack, execSs_cons, execSs_nil, execS_if, evalE, binApply, vEq, h0, h1, c5, c4, c3, c2]
            · have a : ¬ ver > 50000 := c5
              have b : ¬ ver ≤ 20000 := by omega
              simp [h1, a, b]
          · refine ⟨upd (upd fld 1 (.str (maskPass 32 kwPassword kwHash dbc))) 1
              (.str (maskPass 59 kwPassword kwHash (maskPass 32 kwPassword kwHash dbc))), ?_, ?_, ?_, ?_⟩
            · simp [runFn, process.UdpTxDbcPack, execSs_cons, execSs_nil, execS_if, execS_assign, evalE, evalEs, biApply,
                binApply, vEq, setL, upd_apply, h0, h1, c5, c4, c3, c2, hb, hkw, hh, feMask_apply _ _ _ _ _ hpw]
            · have b : ver ≤ 20000 := by omega
              simp [upd_apply, b, hemp]
            · simp [upd_apply, h0]
            · simp [upd_apply]

theorem process_SqlParam_same : process.UdpTxSqlParamPack = process.UdpTxSqlPack := rfl

/-- what `Process()` of the SQL packs makes of Sql -/
def sqlAfter (ver : Int) (sql : Bytes) : Bytes :=
  if masksAt ver = true ∧ 32768 ≤ sql.length then tooLongPrefix ++ sql else sql

/-- **UdpTxSqlPack.Process()** (and UdpTxSqlParamPack's, the same body), transcribed, computes `processDbc`
    on Dbc and the `[QUERY TOO LONG]` prefix on Sql for every version and all field values -/
theorem gen_Process_Sql (ver : Int) (dbc sql : Bytes) (fld : Store) (h0 : fld 0 = .int ver) (h1 : fld 1 = .str dbc)
    (h2 : fld 2 = .str sql) :
    ∃ fld', runFn feMask process.UdpTxSqlPack [] fld = some (.nil, fld') ∧
      fld' 1 = .str (processDbc ver dbc) ∧ fld' 2 = .str (sqlAfter ver sql) ∧ fld' 0 = .int ver := by
  have hpw : kwPassword ≠ [] := by decide
  have hkw : ([112, 97, 115, 115, 119, 111, 114, 100] : Bytes) = kwPassword := rfl
  have hh : ([35] : Bytes) = kwHash := rfl
  have hpre : ([91, 81, 85, 69, 82, 89, 32, 84, 79, 79, 32, 76, 79, 78, 71, 93, 13, 10] : Bytes) = tooLongPrefix := rfl
  unfold processDbc maskDbc sqlAfter masksAt
  by_cases hm : ver > 50000 ∨ ver ≤ 20000
  · -- a masking family: Go, or the final else (PHP)
    have hmask : (decide (ver > 50000) || decide (ver ≤ 20000)) = true := by
      rcases hm with h | h <;> simp [h]
    by_cases he : dbc = []
    · subst he
      by_cases hl : (32768 : Int) ≤ (sql.length : Int)
      · have hln : 32768 ≤ sql.length := by omega
        by_cases c5 : 50000 < ver
        · refine ⟨?_, ?_, ?_, ?_, ?_⟩
          rotate_left
          · simp [runFn, process.UdpTxSqlPack, execSs_cons, execSs_nil, execS_if, execS_assign, evalE, evalEs, biApply,
              binApply, vEq, setL, upd_apply, h0, h1, h2, c5, hl, hpre]
            rfl
          all_goals (simp [upd_apply, h0, h1, h2, hmask, hl, hln]; try omega)
        · have c2 : ¬ 20000 < ver := by omega
          have c3 : ¬ 30000 < ver := by omega
          have c4 : ¬ 40000 < ver := by omega
          refine ⟨?_, ?_, ?_, ?_, ?_⟩
          rotate_left
          · simp [runFn, process.UdpTxSqlPack, execSs_cons, execSs_nil, execS_if, execS_assign, evalE, evalEs, biApply,
              binApply, vEq, setL, upd_apply, h0, h1, h2, c5, c4, c3, c2, hl, hpre]
            rfl
          all_goals (simp [upd_apply, h0, h1, h2, hmask, hl, hln]; try omega)
      · have hln : ¬ 32768 ≤ sql.length := by omega
        by_cases c5 : 50000 < ver
        · refine ⟨?_, ?_, ?_, ?_, ?_⟩
          rotate_left
          · simp [runFn, process.UdpTxSqlPack, execSs_cons, execSs_nil, execS_if, execS_assign, evalE, evalEs, biApply,
              binApply, vEq, setL, upd_apply, h0, h1, h2, c5, hl, hpre]
            rfl
          all_goals (simp [upd_apply, h0, h1, h2, hmask, hl, hln]; try omega)
        · have c2 : ¬ 20000 < ver := by omega
          have c3 : ¬ 30000 < ver := by omega
          have c4 : ¬ 40000 < ver := by omega
          refine ⟨?_, ?_, ?_, ?_, ?_⟩
          rotate_left
          · simp [runFn, process.UdpTxSqlPack, execSs_cons, execSs_nil, execS_if, execS_assign, evalE, evalEs, biApply,
              binApply, vEq, setL, upd_apply, h0, h1, h2, c5, c4, c3, c2, hl, hpre]
            rfl
          all_goals (simp [upd_apply, h0, h1, h2, hmask, hl, hln]; try omega)
    · have hb : (dbc == []) = false := by simpa using he
      have hemp : dbc.isEmpty = false := by simpa using he
      by_cases hl : (32768 : Int) ≤ (sql.length : Int)
      · have hln : 32768 ≤ sql.length := by omega
        by_cases c5 : 50000 < ver
        · refine ⟨?_, ?_, ?_, ?_, ?_⟩
          rotate_left
          · simp [runFn, process.UdpTxSqlPack, execSs_cons, execSs_nil, execS_if, execS_assign, evalE, evalEs, biApply,
              binApply, vEq, setL, upd_apply, h0, h1, h2, c5, hl, hb, hkw, hh, hpre, feMask_apply _ _ _ _ _ hpw]
            rfl
          all_goals (simp [upd_apply, h0, h1, h2, hmask, hl, hln, hemp]; try omega)
        · have c2 : ¬ 20000 < ver := by omega
          have c3 : ¬ 30000 < ver := by omega
          have c4 : ¬ 40000 < ver := by omega
          refine ⟨?_, ?_, ?_, ?_, ?_⟩
          rotate_left
          · simp [runFn, process.UdpTxSqlPack, execSs_cons, execSs_nil, execS_if, execS_assign, evalE, evalEs, biApply,
              binApply, vEq, setL, upd_apply, h0, h1, h2, c5, c4, c3, c2, hl, hb, hkw, hh, hpre, feMask_apply _ _ _ _ _ hpw]
            rfl
          all_goals (simp [upd_apply, h0, h1, h2, hmask, hl, hln, hemp]; try omega)
      · have hln : ¬ 32768 ≤ sql.length := by omega
        by_cases c5 : 50000 < ver
        · refine ⟨?_, ?_, ?_, ?_, ?_⟩
          rotate_left
          · simp [runFn, process.UdpTxSqlPack, execSs_cons, execSs_nil, execS_if, execS_assign, evalE, evalEs, biApply,
              binApply, vEq, setL, upd_apply, h0, h1, h2, c5, hl, hb, hkw, hh, hpre, feMask_apply _ _ _ _ _ hpw]
            rfl
          all_goals (simp [upd_apply, h0, h1, h2, hmask, hl, hln, hemp]; try omega)
        · have c2 : ¬ 20000 < ver := by omega
          have c3 : ¬ 30000 < ver := by omega
          have c4 : ¬ 40000 < ver := by omega
          refine ⟨?_, ?_, ?_, ?_, ?_⟩
          rotate_left
          · simp [runFn, process.UdpTxSqlPack, execSs_cons, execSs_nil, execS_if, execS_assign, evalE, evalEs, biApply,
              binApply, vEq, setL, upd_apply, h0, h1, h2, c5, c4, c3, c2, hl, hb, hkw, hh, hpre, feMask_apply _ _ _ _ _ hpw]
            rfl
          all_goals (simp [upd_apply, h0, h1, h2, hmask, hl, hln, hemp]; try omega)
  · -- Batch, .NET, Python: nothing happens
    have c5 : ¬ 50000 < ver := by omega
    have c2 : 20000 < ver := by omega
    have hmask : (decide (ver > 50000) || decide (ver ≤ 20000)) = false := by
      have a : ¬ ver > 50000 := by omega
      have b : ¬ ver ≤ 20000 := by omega
      simp [a, b]
    refine ⟨fld, ?_, by simp [h1, hmask], by simp [h2, hmask], h0⟩
    by_cases c4 : 40000 < ver
    · simp [runFn, process.UdpTxSqlPack, execSs_cons, execSs_nil, execS_if, evalE, binApply, vEq, h0, c5, c4]
    · by_cases c3 : 30000 < ver
      · simp [runFn, process.UdpTxSqlPack, execSs_cons, execSs_nil, execS_if, evalE, binApply, vEq, h0, c5, c4, c3]
      · simp [runFn, process.UdpTxSqlPack, execSs_cons, execSs_nil, execS_if, evalE, binApply, vEq, h0, c5, c4, c3, c2]

theorem gen_Process_SqlParam (ver : Int) (dbc sql : Bytes) (fld : Store) (h0 : fld 0 = .int ver) (h1 : fld 1 = .str dbc)
    (h2 : fld 2 = .str sql) :
    ∃ fld', runFn feMask process.UdpTxSqlParamPack [] fld = some (.nil, fld') ∧
      fld' 1 = .str (processDbc ver dbc) ∧ fld' 2 = .str (sqlAfter ver sql) ∧ fld' 0 = .int ver := by
  rw [process_SqlParam_same]; exact gen_Process_Sql ver dbc sql fld h0 h1 h2

/-- the Sql rule of the transcribed bodies is the model's derivation `dSqlTooLong` -/
theorem sqlAfter_model (ver : Int) (sql : Bytes) :
    (match dSqlTooLong.apply ver (fun f => if f = "Sql" then .str sql else .null) with
      | some st => st "Sql" | none => .null) = .str (sqlAfter ver sql) := by
  unfold sqlAfter Deriv.apply dSqlTooLong masksAtB
  by_cases hm : masksAt ver = true <;> by_cases hl : 32768 ≤ sql.length <;>
    simp [hm, hl, Val.asStr, assignAll, Rec.set]

/-! non-vacuity: the transcriptions run -/
example : (runFn feMask process.UdpTxDbcPack [] (fun j => if j = 0 then .int 50100 else if j = 1 then
    .str [112, 97, 115, 115, 119, 111, 114, 100, 61, 120] else .nil)).map (fun r => r.2 1) =
    some (.str [112, 97, 115, 115, 119, 111, 114, 100, 61, 35]) := by decide +kernel
example : goMaskPass 59 kwPassword kwHash [117, 61, 49, 59, 112, 97, 115, 115, 119, 111, 114, 100, 61, 120] =
    some (.str [117, 61, 49, 59, 112, 97, 115, 115, 119, 111, 114, 100, 61, 35]) := by decide +kernel
example : mkFEnv stringutil.prog 1 [.str [45, 53]] (fun _ => .nil) = some (.int (-5)) := by decide +kernel
example : mkFEnv stringutil.prog 4 [.ints [1, -2, 30], .str [44]] (fun _ => .nil) =
    some (.str [49, 44, 45, 50, 44, 51, 48]) := by decide +kernel
example : mkFEnv paramKV.prog 0 [.str [97, 98, 61, 99], .str [61]] (fun _ => .nil) = some (.int 2) := by decide +kernel

end C07Go
