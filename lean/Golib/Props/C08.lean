/-
  Property C08 — profile steps and transaction records round-trip as self-delimiting streams.

  Statements; the proofs refer to Golib.Step.{Roundtrip,Stream,Plain} (one generic round trip by
  induction on the layout language) and to the C02 value round trip (Golib.Step.ValueInst).

  The model (`Step.L.write/read`, the layouts of Golib.Step.Layouts, `Step.readOne`, `Step.toBytesStep`)
  is tied to /repo/lang/{step,service,pack} by the harness harness/c08 (bytes and decoded fields of
  every generated object, every run) and by the regenerated facts of Golib.Gen.C08 (Props/C08Gen.lean).

  The model describes the readers WITH the proposed fixes for D29 (HttpcStepX.Read restores
  Version; MessageStepX.ReadVer0 reads the attribute map only if bytes are left) and D23
  (ProfilePack.Read reads a TxRecord).  What the unfixed readers do on the same bytes is pinned by
  the `finding_*` theorems at the end.
-/
import Golib.Step.Plain
import Golib.Step.TxRecord
import Golib.Step.LegacyCarried
import Golib.Step.Prefix
import Golib.Step.Reuse
import Golib.Step.Setters
import Golib.Step.ValueInst
import Golib.Step.ApiFacts

namespace C08
open Step Prim

/-- the well-formedness used below: ranges of the Go field types; attribute values well-formed in
    the sense of C02 (`Value.WFV`) -/
abbrev WF (l : L) (x : Rec) : Prop := l.WF valueRT x []

/-! ### every layout: the reader consumes exactly the writer's bytes -/

/-- generic round trip with arbitrary following bytes -/
theorem layout_roundtrip (l : L) (x : Rec) (r : Bytes) (h : WF l x) :
    l.read [] (l.write x ++ r) = some (l.expect x [], r) := L.roundtrip valueRT l x [] r h

/-! ### step_roundtrip_T — one per registered step type -/

/-- a registered step of a plain layout, followed by anything: `ReadStep` returns its type code and
    every field ASSIGNED with the value written (`lookup = some`), and leaves exactly what followed -/
theorem plain_tagged_roundtrip (tbl : List (Nat × String × L)) (code : Nat) (l : L) (x : Rec) (r : Bytes)
    (hc : code < 256) (hreg : lookupLayout tbl code = some l) (hp : l.plain = true)
    (hl : l.litsOK = true) (hd : l.names.Nodup) (h : l.inRanges x) :
    readOne tbl (Item.bytes ⟨code, l, x⟩ ++ r) = some ((code, l.expect x []), r) ∧
    ∀ nm ∈ l.names, (l.expect x []).lookup nm = some (x nm) :=
  ⟨tagged_roundtrip valueRT tbl ⟨code, l, x⟩ r ⟨hc, hreg, L.plain_WF valueRT l x [] hp hl h⟩,
   fun nm hn => L.plain_expect_lookup l x [] nm hp hd hn⟩

theorem step_roundtrip_MethodStepX (x : Rec) (r : Bytes) (h : methodStepX.inRanges x) :
    readOne stepTable (Item.bytes ⟨17, methodStepX, x⟩ ++ r) = some ((17, methodStepX.expect x []), r) ∧
    ∀ nm ∈ methodStepX.names, (methodStepX.expect x []).lookup nm = some (x nm) :=
  plain_tagged_roundtrip stepTable 17 methodStepX x r (by decide) rfl rfl rfl (by decide) h

theorem step_roundtrip_SqlStepX (x : Rec) (r : Bytes) (h : sqlStepX.inRanges x) :
    readOne stepTable (Item.bytes ⟨18, sqlStepX, x⟩ ++ r) = some ((18, sqlStepX.expect x []), r) ∧
    ∀ nm ∈ sqlStepX.names, (sqlStepX.expect x []).lookup nm = some (x nm) :=
  plain_tagged_roundtrip stepTable 18 sqlStepX x r (by decide) rfl rfl rfl (by decide) h

theorem step_roundtrip_ResultSetStep (x : Rec) (r : Bytes) (h : resultSetStep.inRanges x) :
    readOne stepTable (Item.bytes ⟨3, resultSetStep, x⟩ ++ r) = some ((3, resultSetStep.expect x []), r) ∧
    ∀ nm ∈ resultSetStep.names, (resultSetStep.expect x []).lookup nm = some (x nm) :=
  plain_tagged_roundtrip stepTable 3 resultSetStep x r (by decide) rfl rfl rfl (by decide) h

theorem step_roundtrip_SocketStep (x : Rec) (r : Bytes) (h : socketStep.inRanges x) :
    readOne stepTable (Item.bytes ⟨5, socketStep, x⟩ ++ r) = some ((5, socketStep.expect x []), r) ∧
    ∀ nm ∈ socketStep.names, (socketStep.expect x []).lookup nm = some (x nm) :=
  plain_tagged_roundtrip stepTable 5 socketStep x r (by decide) rfl rfl rfl (by decide) h

theorem step_roundtrip_ActiveStackStep (x : Rec) (r : Bytes) (h : activeStackStep.inRanges x) :
    readOne stepTable (Item.bytes ⟨6, activeStackStep, x⟩ ++ r) = some ((6, activeStackStep.expect x []), r) ∧
    ∀ nm ∈ activeStackStep.names, (activeStackStep.expect x []).lookup nm = some (x nm) :=
  plain_tagged_roundtrip stepTable 6 activeStackStep x r (by decide) rfl rfl rfl (by decide) h

theorem step_roundtrip_MessageStep (x : Rec) (r : Bytes) (h : messageStep.inRanges x) :
    readOne stepTable (Item.bytes ⟨7, messageStep, x⟩ ++ r) = some ((7, messageStep.expect x []), r) ∧
    ∀ nm ∈ messageStep.names, (messageStep.expect x []).lookup nm = some (x nm) :=
  plain_tagged_roundtrip stepTable 7 messageStep x r (by decide) rfl rfl rfl (by decide) h

theorem step_roundtrip_SecureMsgStep (x : Rec) (r : Bytes) (h : secureMsgStep.inRanges x) :
    readOne stepTable (Item.bytes ⟨15, secureMsgStep, x⟩ ++ r) = some ((15, secureMsgStep.expect x []), r) ∧
    ∀ nm ∈ secureMsgStep.names, (secureMsgStep.expect x []).lookup nm = some (x nm) :=
  plain_tagged_roundtrip stepTable 15 secureMsgStep x r (by decide) rfl rfl rfl (by decide) h

theorem step_roundtrip_DBCStep (x : Rec) (r : Bytes) (h : dbcStep.inRanges x) :
    readOne stepTable (Item.bytes ⟨8, dbcStep, x⟩ ++ r) = some ((8, dbcStep.expect x []), r) ∧
    ∀ nm ∈ dbcStep.names, (dbcStep.expect x []).lookup nm = some (x nm) :=
  plain_tagged_roundtrip stepTable 8 dbcStep x r (by decide) rfl rfl rfl (by decide) h

/-- HttpcStepX, every version byte -/
theorem step_roundtrip_HttpcStepX (x : Rec) (r : Bytes) (h : WF httpcStepX x) :
    readOne stepTable (Item.bytes ⟨19, httpcStepX, x⟩ ++ r) = some ((19, httpcStepX.expect x []), r) :=
  tagged_roundtrip valueRT stepTable ⟨19, httpcStepX, x⟩ r ⟨by simp, rfl, h⟩

/-- the fields every version of HttpcStepX carries -/
def httpcCommon : List (String × Kind) :=
  [("Parent", .dec32), ("Index", .dec32), ("StartTime", .dec32), ("Url", .dec32), ("Elapsed", .dec32),
   ("Error", .dec64), ("Host", .dec32), ("Port", .dec32), ("Status", .dec32), ("StartCpu", .dec32),
   ("StartMem", .dec64), ("Stack", .intArr)]

/-- well-formedness of an HttpcStepX spelled out: the common fields in range, the version a byte,
    and for version 2 the four detail fields in range -/
theorem httpc_WF (x : Rec) (v : Int) (hv : x "Version" = .i v) (hvr : 0 ≤ v ∧ v < 256)
    (hc : ∀ p ∈ httpcCommon, p.2.wf (x p.1))
    (h2 : v = 2 → Kind.wf .dec64 (x "StepId") ∧ Kind.wf .text (x "Driver") ∧
                   Kind.wf .text (x "OriginUrl") ∧ Kind.wf .text (x "Param")) :
    WF httpcStepX x := by
  have c := fun nm k (hm : (nm, k) ∈ httpcCommon) => hc (nm, k) hm
  simp only [httpcCommon, List.mem_cons, List.mem_nil_iff, or_false] at c
  simp only [WF, httpcStepX, absStep, seq, L.WF, hv, Val.toInt, Env.get, List.lookup]
  simp (decide := true) only [and_true]
  refine ⟨c _ _ (by simp), c _ _ (by simp), c _ _ (by simp), hvr, c _ _ (by simp), c _ _ (by simp),
    c _ _ (by simp), c _ _ (by simp), c _ _ (by simp), c _ _ (by simp), c _ _ (by simp), c _ _ (by simp),
    c _ _ (by simp), ?_⟩
  by_cases e1 : v = 1
  · subst e1; simp [Kind.wf, inRange_8]
  · by_cases e2 : v = 2
    · subst e2; simpa using h2 rfl
    · simp [e1, e2]

/-- `httpc_v2_details`: a version-2 step comes back with Version 2 and its step id, driver, origin
    url and parameter; the bytes end with those four fields -/
theorem httpc_v2_details (x : Rec) (hv : x "Version" = .i 2) :
    let e := httpcStepX.expect x []
    e.lookup "Version" = some (.i 2) ∧ e.lookup "StepId" = some (x "StepId") ∧ e.lookup "Driver" = some (x "Driver") ∧
    e.lookup "OriginUrl" = some (x "OriginUrl") ∧ e.lookup "Param" = some (x "Param") ∧
    (∀ p ∈ httpcCommon, e.lookup p.1 = some (x p.1)) := by
  simp only [httpcStepX, absStep, seq, L.expect, hv, Val.toInt, httpcCommon]
  simp (decide := true) [List.lookup]

/-- the part of an HttpcStepX body that every version writes -/
def httpcHead : L :=
  absStep (seq [("Version", .u8), ("Url", .dec32), ("Elapsed", .dec32), ("Error", .dec64),
    ("Host", .dec32), ("Port", .dec32), ("Status", .dec32), ("StartCpu", .dec32), ("StartMem", .dec64),
    ("Stack", .intArr)] .nil)

/-- version 1: the writer emits the placeholder decimal 0 after the common part, the reader consumes
    it; Version comes back as 1 and the version-2 details are not assigned -/
theorem httpc_v1_details (x : Rec) (hv : x "Version" = .i 1) :
    let e := httpcStepX.expect x []
    e.lookup "Version" = some (.i 1) ∧ e.lookup "StepId" = none ∧ e.lookup "Driver" = none ∧
    e.lookup "OriginUrl" = none ∧ e.lookup "Param" = none ∧
    (∀ p ∈ httpcCommon, e.lookup p.1 = some (x p.1)) ∧
    httpcStepX.write x = httpcHead.write x ++ [0] := by
  refine ⟨?_, ?_, ?_, ?_, ?_, ?_, ?_⟩
  all_goals simp only [httpcStepX, httpcHead, absStep, seq, L.expect, L.write, hv, Val.toInt, httpcCommon]
  all_goals simp (decide := true) [List.lookup, Kind.enc, Val.toInt, encDecimal]

/-- any other version byte: nothing follows the common part on either side -/
theorem httpc_other_version (x : Rec) (v : Int) (hv : x "Version" = .i v) (h1 : v ≠ 1) (h2 : v ≠ 2) :
    httpcStepX.write x = httpcHead.write x ∧ (httpcStepX.expect x []).lookup "Version" = some (.i v) := by
  refine ⟨?_, ?_⟩
  all_goals simp only [httpcStepX, httpcHead, absStep, seq, L.expect, L.write, hv, Val.toInt, h1, h2, if_false]
  · simp
  · simp (decide := true) [List.lookup]

/-! ### stream_roundtrip -/

/-- a registered step whose fields are in the ranges of their Go types -/
abbrev StepOK (s : Item) : Prop := s.ok valueRT stepTable

/-- for all lists of registered steps: `n` calls of `ReadStep` on `ToBytesStep steps` (followed by
    anything) return the same steps in the same order, each consuming exactly its own bytes -/
theorem stream_roundtrip_n (ss : List Item) (r : Bytes) (h : ∀ s ∈ ss, StepOK s) :
    readN stepTable ss.length (toBytesStep ss ++ r) = some (ss.map Item.expected, r) :=
  Step.stream_roundtrip_n valueRT stepTable ss r h

/-- … and reading until the input is used up returns exactly the steps written -/
theorem stream_roundtrip (ss : List Item) (h : ∀ s ∈ ss, StepOK s) :
    readAll stepTable (toBytesStep ss) = some (ss.map Item.expected) :=
  Step.stream_roundtrip valueRT stepTable ss h

/-- each step consumes exactly its own bytes, wherever it stands in the stream -/
theorem step_self_delimiting (s : Item) (r : Bytes) (h : StepOK s) :
    readOne stepTable (s.bytes ++ r) = some (s.expected, r) := tagged_roundtrip valueRT stepTable s r h

/-- the stream is the concatenation of the tagged steps -/
theorem toBytesStep_append (a b : List Item) : toBytesStep (a ++ b) = toBytesStep a ++ toBytesStep b := by
  induction a with
  | nil => rfl
  | cons s a ih => simp [toBytesStep, ih]

/-! ### message_attrs — MessageStepX (not in the registry: written and read directly) -/

theorem messagestepx_roundtrip (x : Rec) (r : Bytes) (h : WF messageStepX x) :
    messageStepX.read [] (messageStepX.write x ++ r) = some (messageStepX.expect x [], r) :=
  layout_roundtrip messageStepX x r h

/-- well-formedness of a MessageStepX spelled out -/
theorem messagestepx_WF (x : Rec)
    (hc : ∀ p ∈ [("Parent", Kind.dec32), ("Index", .dec32), ("StartTime", .dec32), ("Title", .text),
                 ("Desc", .text), ("Ctr", .i32)], p.2.wf (x p.1))
    (ha : mapWF valueRT (x "Attr").toMap)
    (hl : ((seq [("Title", .text), ("Desc", .text), ("Ctr", .i32)] .nil).write x
            ++ mapBytes (x "Attr").toMap).length < 2147483648) : WF messageStepX x := by
  have w : ∀ nm k, (nm, k) ∈ [("Parent", Kind.dec32), ("Index", .dec32), ("StartTime", .dec32),
      ("Title", .text), ("Desc", .text), ("Ctr", .i32)] → Kind.wf k (x nm) := fun nm k h => hc (nm, k) h
  simp only [WF, messageStepX, absStep, seq, L.WF, attrWF, attrBytes]
  refine ⟨w _ _ (by decide), w _ _ (by decide), w _ _ (by decide), by simp [Kind.wf], ?_,
    ⟨w _ _ (by decide), w _ _ (by decide), w _ _ (by decide), trivial⟩, ha, trivial⟩
  simpa [seq] using hl

/-- `message_attrs`: the attribute map comes back exactly when one was written (`Attr != nil`),
    with the same entries in the same order; title, description and control bits always do -/
theorem message_attrs (x : Rec) :
    let e := messageStepX.expect x []
    e.lookup "Attr" = (match (x "Attr").toMap with
                       | some kvs => some (.m (some kvs))
                       | none => none) ∧
    e.lookup "Title" = some (x "Title") ∧ e.lookup "Desc" = some (x "Desc") ∧ e.lookup "Ctr" = some (x "Ctr") ∧
    e.lookup "Parent" = some (x "Parent") ∧ e.lookup "Index" = some (x "Index") ∧
    e.lookup "StartTime" = some (x "StartTime") := by
  simp only [messageStepX, absStep, seq, L.expect, attrEnv]
  cases (x "Attr").toMap <;> simp (decide := true) [mapEnv, List.lookup]

/-- when no map was written the blob ends after the control bits (nothing is written for it) -/
theorem message_no_attr_bytes (x : Rec) (h : (x "Attr").toMap = none) :
    attrBytes (some "Attr") x = [] := by simp [attrBytes, mapBytes, h]

/-- SqlStep_3 (not in the registry) written and read directly -/
theorem sqlstep3_roundtrip (x : Rec) (r : Bytes) (h : WF sqlStep3 x) :
    sqlStep3.read [] (sqlStep3.write x ++ r) = some (sqlStep3.expect x [], r) :=
  layout_roundtrip sqlStep3 x r h

/-! ### service_roundtrip — service records with their type tag -/

theorem service_roundtrip_WasService (x : Rec) (r : Bytes) (h : wasService.inRanges x) :
    readOne serviceTable (Item.bytes ⟨1, wasService, x⟩ ++ r) = some ((1, wasService.expect x []), r) ∧
    ∀ nm ∈ wasService.names, (wasService.expect x []).lookup nm = some (x nm) :=
  plain_tagged_roundtrip serviceTable 1 wasService x r (by decide) rfl rfl rfl (by decide) h

theorem service_roundtrip_AppService (x : Rec) (r : Bytes) (h : appService.inRanges x) :
    readOne serviceTable (Item.bytes ⟨2, appService, x⟩ ++ r) = some ((2, appService.expect x []), r) ∧
    ∀ nm ∈ appService.names, (appService.expect x []).lookup nm = some (x nm) :=
  plain_tagged_roundtrip serviceTable 2 appService x r (by decide) rfl rfl rfl (by decide) h

theorem service_roundtrip_WasService2 (x : Rec) (r : Bytes) (h : wasService.inRanges x) :
    readOne serviceTable (Item.bytes ⟨3, wasService, x⟩ ++ r) = some ((3, wasService.expect x []), r) ∧
    ∀ nm ∈ wasService.names, (wasService.expect x []).lookup nm = some (x nm) :=
  plain_tagged_roundtrip serviceTable 3 wasService x r (by decide) rfl rfl rfl (by decide) h

/-! ### txrecord_roundtrip -/

/-- version byte 10 + blob body; the reader consumes exactly the record and assigns `expect`.
    (`WF` includes `Fields` ≤ 255 entries — see `finding_fields_count_wraps`.) -/
theorem txrecord_roundtrip (x : Rec) (r : Bytes) (h : WF txRecord x) :
    txRecord.read [] (txRecord.write x ++ r) = some (txRecord.expect x [], r) :=
  layout_roundtrip txRecord x r h

/-- the record starts with the version byte 10 -/
theorem txrecord_version_byte (x : Rec) : (txRecord.write x).head? = some 10 := by
  simp [txRecord, L.write]

/-- well-formedness of a TxRecord spelled out (see `Step.txRecord_WF`) -/
theorem txrecord_WF (x : Rec)
    (hc : ∀ p ∈ txAlways, p.2.wf (x p.1))
    (hm : (x "Mtid").toInt ≠ 0 →
        Kind.wf .dec64 (x "Mtid") ∧ Kind.wf .dec32 (x "Mdepth") ∧ Kind.wf .dec64 (x "Mcaller"))
    (hp : (x "McallerPcode").toInt ≠ 0 →
        Kind.wf .dec64 (x "McallerPcode") ∧ Kind.wf .dec32 (x "McallerOkind") ∧
        Kind.wf .dec32 (x "McallerOid") ∧ Kind.wf .dec32 (x "McallerSpec") ∧
        Kind.wf .dec32 (x "McallerUrl") ∧ Kind.wf .dec32 (x "MthisSpec"))
    (hf : fieldsWF valueRT (x "Fields").toMapN)
    (hl : (txBody.write x).length < 2147483648) : WF txRecord x :=
  txRecord_WF valueRT x hc hm hp hf hl

/-- the `carried` projection: always-present fields come back unchanged; multi-trace ids iff
    Mtid ≠ 0; caller identity iff McallerPcode ≠ 0; Fields iff non-empty; ErrorLevel 0 becomes
    WARNING (20) when an error id is present (the decoder's deliberate default) -/
theorem txrecord_carried (x : Rec) : TxCarried x (txRecord.expect x []) := txRecord_carried x

/-! ### the profile-carrying packs (bodies after the AbstractPack header) -/

theorem profilepack_body_roundtrip (x : Rec) (r : Bytes) (h : WF profilePackBody x) :
    profilePackBody.read [] (profilePackBody.write x ++ r) = some (profilePackBody.expect x [], r) :=
  layout_roundtrip profilePackBody x r h

/-- the transaction record inside a ProfilePack is carried like a TxRecord alone, and `Steps` comes back -/
theorem profilepack_carried (x : Rec) :
    profilePackBody.expect x [] = ("Steps", x "Steps") :: txRecord.expect x [] := by
  simp [profilePackBody, txRecord, L.expect, attrEnv]

theorem stepsplitpack_body_roundtrip (x : Rec) (r : Bytes) (h : profileStepSplitPackBody.inRanges x) :
    profileStepSplitPackBody.read [] (profileStepSplitPackBody.write x ++ r)
      = some (profileStepSplitPackBody.expect x [], r) ∧
    ∀ nm ∈ profileStepSplitPackBody.names, (profileStepSplitPackBody.expect x []).lookup nm = some (x nm) :=
  ⟨layout_roundtrip _ x r (L.plain_WF valueRT _ x [] rfl rfl h),
   fun nm hn => L.plain_expect_lookup _ x [] nm rfl (by decide) hn⟩

theorem errorsnappack_body_roundtrip (x : Rec) (r : Bytes) (h : errorSnapPack1Body.inRanges x) :
    errorSnapPack1Body.read [] (errorSnapPack1Body.write x ++ r) = some (errorSnapPack1Body.expect x [], r) ∧
    ∀ nm ∈ errorSnapPack1Body.names, (errorSnapPack1Body.expect x []).lookup nm = some (x nm) :=
  ⟨layout_roundtrip _ x r (L.plain_WF valueRT _ x [] rfl rfl h),
   fun nm hn => L.plain_expect_lookup _ x [] nm rfl (by decide) hn⟩

/-- `SetProfile(steps)` then the pack's round trip then step-by-step decoding gives the steps back:
    whatever blob field holds `ToBytesStep steps` decodes to exactly those steps -/
theorem profile_blob_decodes (e : Env) (nm : String) (ss : List Item) (h : ∀ s ∈ ss, StepOK s)
    (hb : e.get nm = .b (toBytesStep ss)) :
    readAll stepTable (e.get nm).toBytes = some (ss.map Item.expected) := by
  rw [hb]; exact stream_roundtrip ss h

/-! ### encodings of older agents: what `TxRecord.Read` accepts besides today's, and what it returns -/

/-- a TxRecord written with version byte `w` (10..255), multi-trace presence byte `g` (1..255) and
    caller flag `f` (6; the older 1, 3, 4, 5; or a flag the reader has no case for) is consumed exactly
    and read as `expectAlt` -/
theorem txrecord_legacy_roundtrip (w g f : Nat) (x : Rec) (r : Bytes)
    (h : txRecord.WFAlt valueRT (legacyChoice w g f) x []) :
    txRecord.read [] (txRecord.writeAlt (legacyChoice w g f) x ++ r)
      = some (txRecord.expectAlt (legacyChoice w g f) x [], r) :=
  L.roundtrip_alt valueRT txRecord _ x [] r h

/-- well-formedness of such an encoding spelled out -/
theorem txrecord_legacy_WF (w g f : Nat) (x : Rec)
    (hw : 10 ≤ w ∧ w < 256) (hg : 0 < g ∧ g < 256) (hf : 0 < f ∧ f < 256)
    (hc : ∀ p ∈ txAlways, p.2.wf (x p.1))
    (hm : (x "Mtid").toInt ≠ 0 →
        Kind.wf .dec64 (x "Mtid") ∧ Kind.wf .dec32 (x "Mdepth") ∧ Kind.wf .dec64 (x "Mcaller"))
    (hp : (x "McallerPcode").toInt ≠ 0 →
        Kind.wf .dec64 (x "McallerPcode") ∧ Kind.wf .dec32 (x "McallerOkind") ∧
        Kind.wf .dec32 (x "McallerOid") ∧ Kind.wf .dec32 (x "McallerSpec") ∧
        Kind.wf .dec32 (x "McallerUrl") ∧ Kind.wf .dec32 (x "MthisSpec"))
    (hfl : fieldsWF valueRT (x "Fields").toMapN)
    (hl : (txBody.writeAlt (legacyChoice w g f) x).length < 2147483648) :
    txRecord.WFAlt valueRT (legacyChoice w g f) x [] :=
  txRecord_WFAlt valueRT w g f x hw hg hf hc hm hp hfl hl

/-- what it returns: everything a current record carries (whatever the version byte and the
    multi-trace presence byte were), the caller identity cut down to the fields the flag carries:
    6 → all six; 1 → pcode; 3 → pcode, spec, url; 4 → + this-spec; 5 → + oid; any other flag → none -/
theorem txrecord_legacy_carried (w g f : Nat) (x : Rec) :
    TxCarriedK (callerKeeps f) x (txRecord.expectAlt (legacyChoice w g f) x []) :=
  txRecord_legacy_carried w g f x

/-- the caller flags and what each carries -/
theorem caller_flags :
    callerKeeps 6 = callerAll ∧ callerKeeps 1 = ["McallerPcode"] ∧
    callerKeeps 3 = ["McallerPcode", "McallerSpec", "McallerUrl"] ∧
    callerKeeps 4 = ["McallerPcode", "McallerSpec", "McallerUrl", "MthisSpec"] ∧
    callerKeeps 5 = ["McallerPcode", "McallerOid", "McallerSpec", "McallerUrl", "MthisSpec"] ∧
    ∀ f, f ∉ [1, 3, 4, 5, 6] → callerKeeps f = [] := by
  refine ⟨by decide, by decide, by decide, by decide, by decide, ?_⟩
  intro f hf
  simp only [List.mem_cons, List.mem_nil_iff, or_false, not_or] at hf
  simp [callerKeeps, hf.1, hf.2.1, hf.2.2.1, hf.2.2.2.1, hf.2.2.2.2]

/-- today's writer is the instance "no choice" of the legacy writer -/
theorem txrecord_current_is_legacy (x : Rec) : txRecord.writeAlt (fun _ => none) x = txRecord.write x :=
  L.writeAlt_none txRecord x

/-- a version byte below 10 is refused whatever follows (Go: panic "not supported version TxRecord") -/
theorem txrecord_refuses_old_version (w : Nat) (hw : w < 10) (bs : Bytes) :
    txRecord.read [] (w :: bs) = none :=
  ver_refuses 10 10 _ [] w bs hw (by omega)

/-- a nil value inside `Fields` is written as the key with an empty TextValue (and so reads back as one) -/
theorem fields_nil_value_written_as_empty_text (k : Bytes) (kvs : List (Bytes × Option Value)) :
    encFields (Val.toMapN (.mn (some ((k, none) :: kvs)))) =
    encFields (Val.toMapN (.mn (some ((k, some (.text [])) :: kvs)))) := rfl

/-! ### what `ReadStep` / `service.ToObject` do on type codes without a constructor -/

theorem lookup_step_none (c : Nat) (hc : c ∉ [17, 18, 3, 5, 19, 6, 7, 15, 8]) : lookupLayout stepTable c = none := by
  simp only [List.mem_cons, List.mem_nil_iff, or_false, not_or] at hc
  obtain ⟨h1, h2, h3, h4, h5, h6, h7, h8, h9⟩ := hc
  have e1 : (c == 17) = false := by simpa using h1
  have e2 : (c == 18) = false := by simpa using h2
  have e3 : (c == 3) = false := by simpa using h3
  have e4 : (c == 5) = false := by simpa using h4
  have e5 : (c == 19) = false := by simpa using h5
  have e6 : (c == 6) = false := by simpa using h6
  have e7 : (c == 7) = false := by simpa using h7
  have e8 : (c == 15) = false := by simpa using h8
  have e9 : (c == 8) = false := by simpa using h9
  simp [lookupLayout, stepTable, List.lookup, e1, e2, e3, e4, e5, e6, e7, e8, e9]

/-- `ReadStep` decodes a step iff its type code is one of the nine in `CreateStep`; on any other
    code there is no object to read into (Go: nil dereference) -/
theorem readstep_unregistered_code_fails (c : Nat) (hc : c ∉ [17, 18, 3, 5, 19, 6, 7, 15, 8]) (h256 : c < 256)
    (bs : Bytes) : readOne stepTable (c :: bs) = none := by
  unfold readOne
  rw [D.bind_some (rdU1_cons c bs h256), lookup_step_none c hc]
  rfl

/-- MessageStepX answers type code 22, which `CreateStep` does not know: a stream holding one
    cannot be read beyond it -/
theorem readstep_messagestepx_code_fails (x : Rec) (r : Bytes) :
    readOne stepTable (Item.bytes ⟨22, messageStepX, x⟩ ++ r) = none :=
  readstep_unregistered_code_fails 22 (by decide) (by decide) _

/-- SqlStep_3 answers type code 18 (STEP_SQL_X): behind that code `ReadStep` applies SqlStepX's reader -/
theorem readstep_code18_reads_sqlstepx (bs : Bytes) :
    readOne stepTable (18 :: bs) = D.bind (sqlStepX.read []) (fun e => D.pure (18, e)) bs := by
  unfold readOne
  rw [D.bind_some (rdU1_cons 18 bs (by decide))]
  rfl

/-- … which does not give the step back: the all-zero SqlStep_3 (11 bytes after the code) is not even
    a complete SqlStepX -/
theorem sqlstep3_behind_code18_misread :
    (readOne stepTable (Item.bytes ⟨18, sqlStep3, fun _ => .i 0⟩)).isNone = true := by decide

/-- `service.ToObject`: only the type codes 1, 2, 3 have a constructor -/
theorem toobject_unknown_type_fails (c : Nat) (hc : c ∉ [1, 2, 3]) (h256 : c < 256) (bs : Bytes) :
    readOne serviceTable (c :: bs) = none := by
  simp only [List.mem_cons, List.mem_nil_iff, or_false, not_or] at hc
  have e1 : (c == 1) = false := by simpa using hc.1
  have e2 : (c == 2) = false := by simpa using hc.2.1
  have e3 : (c == 3) = false := by simpa using hc.2.2
  unfold readOne
  rw [D.bind_some (rdU1_cons c bs h256)]
  simp [lookupLayout, serviceTable, List.lookup, e1, e2, e3, D.fail]

/-! ### truncated streams -/

/-- a strict prefix of one registered step never decodes -/
theorem step_prefix_fails (s : Item) (h : StepOK s) (q a : Bytes) (ha : a ≠ []) (hq : q ++ a = s.bytes) :
    readOne stepTable q = none :=
  tagged_prefix_fails valueRT stepTable (by decide) s h q a ha hq

/-- reading a strict prefix of `ToBytesStep steps` until the input is used up fails, or returns a
    strict prefix of the steps (those that fit completely) — never a wrong or fabricated step -/
theorem stream_prefix (ss : List Item) (h : ∀ s ∈ ss, StepOK s) (q a : Bytes) (ha : a ≠ [])
    (hq : q ++ a = toBytesStep ss) :
    readAll stepTable q = none ∨ ∃ k, k < ss.length ∧ readAll stepTable q = some ((ss.take k).map Item.expected) :=
  Step.stream_prefix valueRT stepTable (by decide) ss h q a ha hq

/-- the same for service records -/
theorem service_prefix_fails (s : Item) (h : s.ok valueRT serviceTable) (q a : Bytes) (ha : a ≠ [])
    (hq : q ++ a = s.bytes) : readOne serviceTable q = none :=
  tagged_prefix_fails valueRT serviceTable (by decide) s h q a ha hq

/-! ### decoding into an object used before, and histories of it -/

/-- `obj.Read(in)` on an existing object `o`: the fields the reader assigns for this record laid over
    `o`, exactly the record's bytes consumed -/
theorem readinto_roundtrip (l : L) (o x : Rec) (r : Bytes) (h : WF l x) :
    l.readInto o (l.write x ++ r) = some ((l.expect x []).over o, r) :=
  L.readInto_roundtrip valueRT l o x r h

/-- frame conditions: a field not assigned for this record — an absent optional section, a field of
    another version, any name the layout does not mention — keeps the object's previous value; an
    assigned field does not depend on the previous value -/
theorem readinto_frame (l : L) (o x : Rec) (nm : String) (h : nm ∉ l.assigned x) :
    (l.expect x []).over o nm = o nm := over_frame l o x nm h
theorem readinto_foreign (l : L) (o x : Rec) (nm : String) (h : nm ∉ l.names) :
    (l.expect x []).over o nm = o nm := over_other l o x nm h
theorem readinto_assigned (l : L) (o o' x : Rec) (nm : String) (h : nm ∈ l.assigned x) :
    (l.expect x []).over o nm = (l.expect x []).over o' nm := over_assigned l o o' x nm h

/-- a whole history: `n` records decoded one after another into the same object from one stream (followed
    by anything) leave the left fold of "assigned fields over the object", and the rest untouched -/
theorem readinto_history (l : L) (xs : List Rec) (o : Rec) (r : Bytes) (h : ∀ x ∈ xs, WF l x) :
    l.readIntoSeq xs.length o (writeSeq l xs ++ r) = some (l.afterAll o xs, r) :=
  L.readIntoSeq_roundtrip valueRT l xs o r h

/-- … in which a field no record assigns keeps its initial value, and the last record decides the
    fields it assigns -/
theorem history_untouched (l : L) (o : Rec) (xs : List Rec) (nm : String) (h : ∀ x ∈ xs, nm ∉ l.assigned x) :
    l.afterAll o xs nm = o nm := L.afterAll_untouched l o xs nm h
theorem history_last_wins (l : L) (o : Rec) (xs : List Rec) (x : Rec) (nm : String) (h : nm ∈ l.assigned x) :
    l.afterAll o (xs ++ [x]) nm = (l.expect x []).over o nm := L.afterAll_last l o xs x nm h

/-- TxRecord.Read into a used record, field by field: always-present fields and the error level come
    from the bytes; the multi-trace ids, the caller identity and the custom fields come from the bytes
    when the record carries them and otherwise KEEP what the object held (the reader assigns optional
    sections only when present); nothing else is touched -/
theorem txrecord_readinto (o x : Rec) :
    let p := (txRecord.expect x []).over o
    (∀ nm ∈ txPlain, p nm = x nm) ∧
    (if (x "Mtid").toInt ≠ 0 then p "Mtid" = x "Mtid" ∧ p "Mdepth" = x "Mdepth" ∧ p "Mcaller" = x "Mcaller"
     else p "Mtid" = o "Mtid" ∧ p "Mdepth" = o "Mdepth" ∧ p "Mcaller" = o "Mcaller") ∧
    (if (x "McallerPcode").toInt ≠ 0
     then p "McallerPcode" = x "McallerPcode" ∧ p "McallerOkind" = x "McallerOkind" ∧ p "McallerOid" = x "McallerOid" ∧
          p "McallerSpec" = x "McallerSpec" ∧ p "McallerUrl" = x "McallerUrl" ∧ p "MthisSpec" = x "MthisSpec"
     else p "McallerPcode" = o "McallerPcode" ∧ p "McallerOkind" = o "McallerOkind" ∧ p "McallerOid" = o "McallerOid" ∧
          p "McallerSpec" = o "McallerSpec" ∧ p "McallerUrl" = o "McallerUrl" ∧ p "MthisSpec" = o "MthisSpec") ∧
    (p "Fields" = match (x "Fields").toMapN with
                  | some (kv :: kvs) => .m (some (kv :: kvs))
                  | _ => o "Fields") ∧
    p "ErrorLevel" = (if (x "ErrorLevel").toInt = 0 ∧ (x "Error").toInt ≠ 0 then .i 20 else x "ErrorLevel") ∧
    (∀ nm, nm ∉ txRecord.names → p nm = o nm) := by
  intro p
  obtain ⟨h1, h2, h3, h4, h5⟩ := txRecord_carried x
  refine ⟨fun nm hn => by simp only [p, Env.over, h1 nm hn], ?_, ?_, ?_, by simp only [p, Env.over, h5],
    fun nm hn => over_other txRecord o x nm hn⟩
  · split
    · rename_i hm; rw [if_pos hm] at h2; simp only [p, Env.over, h2.1, h2.2.1, h2.2.2, and_self]
    · rename_i hm; rw [if_neg hm] at h2; simp only [p, Env.over, h2.1, h2.2.1, h2.2.2, and_self]
  · split
    · rename_i hp; rw [if_pos hp] at h3
      simp only [p, Env.over, h3.1, h3.2.1, h3.2.2.1, h3.2.2.2.1, h3.2.2.2.2.1, h3.2.2.2.2.2, and_self]
    · rename_i hp; rw [if_neg hp] at h3
      simp only [p, Env.over, h3.1, h3.2.1, h3.2.2.1, h3.2.2.2.1, h3.2.2.2.2.1, h3.2.2.2.2.2, and_self]
  · simp only [p, Env.over, h4]
    cases (x "Fields").toMapN with
    | none => rfl
    | some kvs => cases kvs <;> rfl

/-- HttpcStepX.Read of a version-1 step into a used object: the version-2 details keep their previous
    values -/
theorem httpc_readinto_v1 (o x : Rec) (hv : x "Version" = .i 1) :
    let p := (httpcStepX.expect x []).over o
    p "Version" = .i 1 ∧ p "StepId" = o "StepId" ∧ p "Driver" = o "Driver" ∧ p "OriginUrl" = o "OriginUrl" ∧
    p "Param" = o "Param" := by
  intro p
  obtain ⟨hver, h1, h2, h3, h4, _, _⟩ := httpc_v1_details x hv
  simp only [p, Env.over, hver, h1, h2, h3, h4, and_self]

/-- MessageStepX.Read into a used object: `Attr` is assigned only when a map was written -/
theorem messagestepx_readinto_attr (o x : Rec) :
    (messageStepX.expect x []).over o "Attr" = (match (x "Attr").toMap with
                                               | some kvs => .m (some kvs)
                                               | none => o "Attr") := by
  have h := (message_attrs x).1
  simp only [Env.over, h]
  cases (x "Attr").toMap <;> rfl

/-- `ProfilePack.Read` on a used pack builds its transaction record afresh: the transaction fields of the
    result do not depend on what the pack held (no multi-trace id, caller identity or custom field of the
    previous record can show, whatever the new record carries) -/
theorem profilepack_transaction_fresh (o o' x : Rec) (r : Bytes) (h : WF profilePackBody x) (p p' : Rec)
    (hp : profilePackReadInto o (profilePackBody.write x ++ r) = some (p, r))
    (hp' : profilePackReadInto o' (profilePackBody.write x ++ r) = some (p', r)) :
    ∀ nm ∈ txRecord.names, p nm = p' nm :=
  Step.profilepack_transaction_fresh valueRT o o' x r h p p' hp hp'

/-! ### builders called more than once on one object (the write-side mirror of decoding into a used object) -/

/-- `SetProfile(steps)` REPLACES: after it the field is exactly `ToBytesStep(steps)`, whatever the pack
    held (an earlier profile, the steps of a record read into it) -/
theorem setprofile_replaces (f : String) (ss : List Item) (o : Rec) :
    ((Setter.replaceProfile f).apply (.steps ss) o) f = .b (toBytesStep ss) := setProfile_replaces f ss o

theorem setstack_replaces (f : String) (xs : List Int) (o : Rec) :
    ((Setter.replaceIntArr f).apply (.ints xs) o) f = .b (encArr (encI 4) xs) := setStack_replaces f xs o

/-- a builder touches its own field only -/
theorem setter_frame (s : Setter) (a : SArg) (o : Rec) (nm : String) (h : nm ≠ s.field) :
    (s.apply a o) nm = o nm := Setter.apply_frame s a o nm h

/-- any history of builder calls, field assignments and `Read`s on one object that ENDS with
    `SetProfile(steps)` leaves exactly those steps in the field -/
theorem refill_last_setprofile (rd : Rec → D Rec) (ops : List Op) (f : String) (ss : List Item) (o o' : Rec)
    (h : applyOps rd (ops ++ [.set (.replaceProfile f) (.steps ss)]) o = some o') :
    o' f = .b (toBytesStep ss) := applyOps_last_setProfile rd ops f ss o o' h

/-- … so the pack written after such a history decodes to a pack whose step blob reads back, step by
    step, as exactly the LAST profile (nothing of an earlier chunk in front of it) -/
theorem stepsplitpack_refill_roundtrip (rd : Rec → D Rec) (ops : List Op) (ss : List Item) (o o' : Rec) (r : Bytes)
    (h : applyOps rd (ops ++ [.set (.replaceProfile "Steps") (.steps ss)]) o = some o')
    (hr : profileStepSplitPackBody.inRanges o') (hs : ∀ s ∈ ss, StepOK s) :
    ∃ e, profileStepSplitPackBody.read [] (profileStepSplitPackBody.write o' ++ r) = some (e, r) ∧
      readAll stepTable (e.get "Steps").toBytes = some (ss.map Item.expected) := by
  obtain ⟨h1, h2⟩ := stepsplitpack_body_roundtrip o' r hr
  refine ⟨_, h1, profile_blob_decodes _ "Steps" ss hs ?_⟩
  rw [Env.get_of_lookup _ _ _ (h2 "Steps" (by decide)), refill_last_setprofile rd ops "Steps" ss o o' h]

/-- the control-bit setters accumulate (`this.Opt |= flag`): a second call keeps the bits of the first -/
theorem setbits_accumulate (f : String) (b k1 k2 : Nat) (o : Rec) (h0 : o f = .i b) (hb : b < 256) (h1 : k1 < 256)
    (h2 : k2 < 256) :
    ((Setter.orByte f).apply (.int k2) ((Setter.orByte f).apply (.int k1) o)) f = .i ((b ||| k1 ||| k2 : Nat)) :=
  orByte_accumulates f b k1 k2 o h0 hb h1 h2

/-! ### the API around Write / Read: accessors, constructors, ToBytes / ToObject, WriteVer0 / ReadVer0 -/

/-- an accessor (`Get…`, `Set…`, `IsTrue`, `SetTrue`, `GetElapsed`) changes at most its own field -/
theorem accessor_frame (a : Acc) (arg : Int) (o : Rec) (nm : String) (h : a.target ≠ some nm) :
    (a.run arg o).1 nm = o nm := Acc.run_frame a arg o nm h

/-- `SetX(v)` then `GetX()` returns `v`; the last of two `SetX` wins; `SetTrue(k)` then `IsTrue(k)` is true -/
theorem get_after_set (f : String) (v : Int) (o : Rec) : ((Acc.get f).run 0 ((Acc.set f).run v o).1).2 = v :=
  Acc.get_after_set f v o
theorem set_last_wins (f : String) (v w : Int) (o : Rec) :
    ((Acc.set f).run w ((Acc.set f).run v o).1).1 = ((Acc.set f).run w o).1 := Acc.set_set f v w o
theorem istrue_after_settrue (f : String) (k : Int) (o : Rec) (hk : byteOf k ≠ 0) :
    ((Acc.bit f).run k ((Acc.orByte f).run k o).1).2 = 1 := Acc.bit_after_or f k o hk

/-- `SetDrop` / `SetTrue` of the Step interface never change what a step writes: for every step type (the nine
    registered ones, MessageStepX, SqlStep_3) the writer does not look at `AbstractStep.Drop` / `AbstractStep.Opt` -/
theorem setdrop_settrue_not_on_wire (p : Nat × String × L) (hp : p ∈ stepTable ++ unregisteredSteps) (a : Acc)
    (ha : a = .set "AbstractStep.Drop" ∨ a = .orByte "AbstractStep.Opt") (arg : Int) (o : Rec) :
    p.2.2.write (a.run arg o).1 = p.2.2.write o := by
  have hall : ∀ q ∈ stepTable ++ unregisteredSteps,
      "AbstractStep.Drop" ∉ q.2.2.reads ∧ "AbstractStep.Opt" ∉ q.2.2.reads := by decide
  apply write_after_acc
  intro f hf
  rcases ha with rfl | rfl <;> simp only [Acc.target, Option.some.injEq] at hf <;> subst hf
  · exact (hall p hp).1
  · exact (hall p hp).2

/-- … while the setters of the wire fields do travel: `SetParent(v)`, `WriteStep`, `ReadStep`, `GetParent()` gives `v`
    (here for a DBC step; `step_iface_roundtrip` is the statement for every type and every getter) -/
example (o : Rec) (r : Bytes) (h : dbcStep.inRanges ((Acc.set "Parent").run 7 o).1) :
    ∃ e, readOne stepTable (Item.bytes ⟨8, dbcStep, ((Acc.set "Parent").run 7 o).1⟩ ++ r) = some ((8, e), r) ∧
      getterVal "DBCStep" "GetParent" (e.over (freshOfType "DBCStep")) = 7 := by
  obtain ⟨h1, h2⟩ := step_roundtrip_DBCStep _ r h
  refine ⟨_, h1, ?_⟩
  rw [getterVal_get "DBCStep" "GetParent" "Parent" _ _ _ (by decide) (h2 "Parent" (by decide))]
  have ha : accOf "DBCStep" "GetParent" = some (.get "Parent") := by decide
  simp only [getterVal, ha]
  exact Acc.get_after_set "Parent" 7 o

/-- the OBJECT `ReadStep` hands out: the fields the reader assigned laid over what `CreateStep`'s constructor made -/
theorem readstep_object (s : Item) (r : Bytes) (h : StepOK s) :
    ∃ n, stepTable.lookup s.code = some (n, s.lay) ∧
      readObj stepTable (s.bytes ++ r) = some ((s.code, (s.lay.expect s.x []).over (freshOfType n)), r) :=
  readObj_roundtrip valueRT stepTable s r h

theorem toobject_object (s : Item) (r : Bytes) (h : s.ok valueRT serviceTable) :
    ∃ n, serviceTable.lookup s.code = some (n, s.lay) ∧
      readObj serviceTable (s.bytes ++ r) = some ((s.code, (s.lay.expect s.x []).over (freshOfType n)), r) :=
  readObj_roundtrip valueRT serviceTable s r h

/-- what the constructors set: `NewHttpcStepX` version 2, `NewHttpcStepXVersion(v)` version v,
    `NewMessageStepXWithStartTime(t)` start time t -/
theorem ctor_inits (v t : Int) :
    (freshOfType "HttpcStepX" "Version").toInt = 2 ∧
    fresh "NewHttpcStepXVersion" v = some ("HttpcStepX", (zeroOf httpcStepX).set "Version" (.i v)) ∧
    fresh "NewMessageStepXWithStartTime" t = some ("MessageStepX", (zeroOf messageStepX).set "StartTime" (.i t)) ∧
    ((zeroOf httpcStepX).set "Version" (.i v)) "Version" = .i v ∧
    ((zeroOf messageStepX).set "StartTime" (.i t)) "StartTime" = .i t :=
  ⟨by decide, rfl, rfl, Rec.set_same _ _ _, Rec.set_same _ _ _⟩

/-- what the `step.Step` interface shows of a step — type code, `GetParent`, `GetIndex`, `GetStartTime`,
    `GetElapsed` — is the same on the decoded object as on the written one, for every registered type
    (whatever object the reader assigned into) -/
theorem step_iface_roundtrip (s : Item) (n : String) (o : Rec) (hm : (s.code, n, s.lay) ∈ stepTable) :
    stepObs n s.code ((s.lay.expect s.x []).over o) = stepObs n s.code s.x := stepObs_roundtrip s n o hm

def nameOfCode (c : Nat) : String := match stepTable.lookup c with | some (n, _) => n | none => ""
/-- the interface observation of a decoded step (object made by `CreateStep`, then read into) … -/
def decodedObs (ce : Nat × Env) : List Int :=
  stepObs (nameOfCode ce.1) ce.1 (ce.2.over (freshOfType (nameOfCode ce.1)))
/-- … and of a step as it was written -/
def writtenObs (s : Item) : List Int := stepObs (nameOfCode s.code) s.code s.x

/-- for ALL lists of registered steps: reading the stream back and looking at every step through the
    interface getters gives the observations of the written steps, in order -/
theorem stream_iface_roundtrip (ss : List Item) (r : Bytes) (h : ∀ s ∈ ss, StepOK s) :
    (readN stepTable ss.length (toBytesStep ss ++ r)).map (fun p => (p.1.map decodedObs, p.2)) =
      some (ss.map writtenObs, r) := by
  rw [stream_roundtrip_n ss r h]
  simp only [Option.map, List.map_map, Option.some.injEq, Prod.mk.injEq, and_true]
  apply List.map_congr_left
  intro s hs
  obtain ⟨n, hn⟩ := lookupLayout_some stepTable s.code s.lay (h s hs).2.1
  have hname : nameOfCode s.code = n := by simp only [nameOfCode, hn]
  have hm : (s.code, n, s.lay) ∈ stepTable := lookup_mem stepTable s.code (n, s.lay) hn
  simp only [Function.comp, decodedObs, writtenObs, Item.expected, hname]
  exact stepObs_roundtrip s n _ hm

/-- `t.ToObject(x.ToBytes() ++ anything)`: the carried fields of `x` over the receiver; the bytes that follow
    the record are not looked at -/
theorem txrecord_toobject_tobytes (o x : Rec) (rest : Bytes) (h : WF txRecord x) :
    txToObject o (txToBytes x ++ rest) = some ((txRecord.expect x []).over o) :=
  txToObject_toBytes valueRT o x rest h

/-- `MessageStepX.Write` = AbstractStep's three decimals, version byte 0, `WriteVer0()` as a blob; and
    `ReadVer0(WriteVer0())` called directly restores title, description, control bits and — iff one was
    written — the attribute map, into any object -/
theorem messagestepx_write_is_ver0 (x : Rec) :
    messageStepX.write x = (absStep .nil).write x ++ [0] ++ encBlob (writeVer0 x) := messageStepX_write_ver0 x
theorem readver0_writever0 (o x : Rec) (hb : msgVer0Body.inRanges x) (ha : attrWF valueRT (some "Attr") x) :
    readVer0 o (writeVer0 x) = some ((attrEnv (some "Attr") x (msgVer0Body.expect x [])).over o) :=
  readVer0_writeVer0 valueRT o x hb ha

/-- `CtrToJson()` of a decoded MessageStepX is that of the written one -/
theorem ctrtojson_roundtrip (o x : Rec) : ctrToJson ((messageStepX.expect x []).over o) = ctrToJson x := by
  have h := (message_attrs x).2.2.2.1
  simp only [ctrToJson, Env.over, h]

/-! ### mixed streams: steps, service records and untagged records on one output -/

/-- any interleaving of steps (`WriteStep`), service records (`service.ToBytes`) and untagged records (`x.Write`:
    TxRecord, MessageStepX, SqlStep_3, pack bodies) written onto ONE output is read back from ONE input — each
    element by the reader of its kind — as the same elements in the same order, each consuming exactly its own
    bytes, with whatever follows untouched -/
theorem mixed_stream_roundtrip (es : List Elem) (r : Bytes) (h : ∀ e ∈ es, e.ok valueRT) :
    readMixed (es.map (·.sch)) (writeMixed es ++ r) = some (es.map Elem.expected, r) :=
  mixed_roundtrip valueRT es r h

/-- the step-only and service-only streams are the instances with one kind of element -/
theorem mixed_steps_only (ss : List Item) : writeMixed (ss.map (fun s => ⟨.step, s⟩)) = toBytesStep ss := by
  induction ss with
  | nil => rfl
  | cons s ss ih => simp only [List.map_cons, writeMixed, Elem.bytes, toBytesStep, ih]

/-! ### truncated records that hold tagged values (TxRecord, MessageStepX, the ProfilePack body) -/

/-- the tagged values of these records live inside a length-prefixed blob that the reader takes whole
    before looking into it, so a strict prefix of the encoding never decodes -/
theorem txrecord_prefix_fails (x : Rec) (h : WF txRecord x) (q a : Bytes) (ha : a ≠ [])
    (hq : q ++ a = txRecord.write x) : txRecord.read [] q = none :=
  layout_prefix_fails valueRT txRecord (by decide) x h q a ha hq

theorem messagestepx_prefix_fails (x : Rec) (h : WF messageStepX x) (q a : Bytes) (ha : a ≠ [])
    (hq : q ++ a = messageStepX.write x) : messageStepX.read [] q = none :=
  layout_prefix_fails valueRT messageStepX (by decide) x h q a ha hq

theorem profilepack_body_prefix_fails (x : Rec) (h : WF profilePackBody x) (q a : Bytes) (ha : a ≠ [])
    (hq : q ++ a = profilePackBody.write x) : profilePackBody.read [] q = none :=
  layout_prefix_fails valueRT profilePackBody (by decide) x h q a ha hq

/-- the same for an encoding of an older agent -/
theorem txrecord_legacy_prefix_fails (w g f : Nat) (x : Rec) (h : txRecord.WFAlt valueRT (legacyChoice w g f) x [])
    (q a : Bytes) (ha : a ≠ []) (hq : q ++ a = txRecord.writeAlt (legacyChoice w g f) x) :
    txRecord.read [] q = none := by
  rw [← L.readP_run txRecord (by decide)]
  apply P.prefix_fails (txRecord.readP []) q a (txRecord.expectAlt (legacyChoice w g f) x []) ha
  rw [L.readP_run txRecord (by decide), hq]
  simpa using L.roundtrip_alt valueRT txRecord _ x [] [] h

/-! ### streams of service records -/

/-- `k` records of any mix of the three service types written one after another with `service.ToBytes`
    are read back by `k` calls of `service.ToObject` from the one stream, each consuming exactly its own
    bytes; nothing is left (and whatever followed is untouched) -/
theorem service_stream_roundtrip_n (ss : List Item) (r : Bytes) (h : ∀ s ∈ ss, s.ok valueRT serviceTable) :
    readN serviceTable ss.length (toBytesStep ss ++ r) = some (ss.map Item.expected, r) :=
  Step.stream_roundtrip_n valueRT serviceTable ss r h

theorem service_stream_roundtrip (ss : List Item) (h : ∀ s ∈ ss, s.ok valueRT serviceTable) :
    readAll serviceTable (toBytesStep ss) = some (ss.map Item.expected) :=
  Step.stream_roundtrip valueRT serviceTable ss h

theorem service_stream_prefix (ss : List Item) (h : ∀ s ∈ ss, s.ok valueRT serviceTable) (q a : Bytes) (ha : a ≠ [])
    (hq : q ++ a = toBytesStep ss) :
    readAll serviceTable q = none ∨
    ∃ k, k < ss.length ∧ readAll serviceTable q = some ((ss.take k).map Item.expected) :=
  Step.stream_prefix valueRT serviceTable (by decide) ss h q a ha hq

/-! ### the element-count cap of int arrays is exactly what the reader rejects -/

/-- `WF` caps an int32 array (call stacks) at 32767 elements.  That is not an artefact of the model: the
    count is written as a signed 16-bit number, and for 32768..65535 elements the reader sees a negative
    count and fails (Go: `make([]int32, negative)` panics) — whatever follows -/
theorem intarray_too_long_rejected (xs : List Int) (r : Bytes) (h1 : 32767 < xs.length) (h2 : xs.length ≤ 65535) :
    Kind.dec .intArr (Kind.enc .intArr (.is xs) ++ r) = none := by
  simp only [Kind.dec, D.ofP, Kind.decP, Kind.enc, Val.toInts]
  rw [P.run_bind_none _ _ _ (decArr_too_long (encI 4) (rdI 4) xs r h1 h2)]

/-! ### what the code as found does (the three repairs proposed in proposed/C08, one known finding) -/

/-- the reader of MessageStepX as found: it decodes a value whether or not bytes are left -/
def readAttrAsFound (nm : String) (e : Env) (r : Bytes) : Option Env :=
  match Value.decode r with
  | none => none
  | some (.map kvs, _) => some ((nm, .m (some kvs)) :: e)
  | some (_, _) => some e

/-- D29 (a): a MessageStepX written with `Attr == nil` leaves no bytes for the value the reader as
    found insists on decoding: it fails (in Go: panics with a read error) -/
theorem finding_D29_messagestepx_nil_attr (x : Rec) (e : Env) (h : (x "Attr").toMap = none) :
    readAttrAsFound "Attr" e (attrBytes (some "Attr") x) = none := by
  rw [message_no_attr_bytes x h]; rfl

/-- HttpcStepX.Read as found: the version byte goes to a local, `Version` is never assigned -/
def httpcStepXAsFound : L :=
  absStep (seq [("ver", .u8), ("Url", .dec32), ("Elapsed", .dec32), ("Error", .dec64),
    ("Host", .dec32), ("Port", .dec32), ("Status", .dec32), ("StartCpu", .dec32), ("StartMem", .dec64),
    ("Stack", .intArr)]
    (.sw "ver" (.lit .dec64 0 .nil)
      (seq [("StepId", .dec64), ("Driver", .text), ("OriginUrl", .text), ("Param", .text)] .nil) .nil))

/-- D29 (b): after reading any step the reader as found has not assigned `Version`, so the object
    made by `CreateStep` keeps the constructor's 2 — a version-1 step reads back as version 2 -/
theorem finding_D29_httpc_version_not_restored (x : Rec) :
    (httpcStepXAsFound.expect x []).lookup "Version" = none := by
  simp only [httpcStepXAsFound, absStep, seq, L.expect]
  by_cases h1 : (x "ver").toInt = 1 <;> by_cases h2 : (x "ver").toInt = 2 <;>
    simp (decide := true) [h1, h2, List.lookup]

/-- D23: `ProfilePack.Read` as found hands the bytes of a TxRecord (version byte 10) to
    `service.ToObject`; 10 is no service type, so there is no object to read into (nil dereference) -/
theorem finding_D23_profilepack_reads_service (bs : Bytes) : readOne serviceTable (10 :: bs) = none := by
  unfold readOne
  rw [D.bind_some (rdU1_cons 10 bs (by decide))]
  rfl

/-- known finding: the custom-field count is one byte.  With 256 fields the writer emits the count
    byte 0, so the reader takes the section for empty and parses the entries as the fields that follow. -/
theorem finding_fields_count_wraps (kvs : List (Bytes × Value)) (r : Bytes) (h : kvs.length = 256) :
    D.ofP (rdU 1) (encFields (some kvs) ++ r) = some (0, Value.encKVs kvs ++ r) := by
  simp only [encFields, h, List.cons_append]
  exact rdU1_cons 0 _ (by decide)

/-! ### non-vacuity: concrete values meet the hypotheses -/

set_option linter.unusedSimpArgs false

/-- a record with every integer field 5, every byte string "ab", every array [1,-2] -/
def sample : Rec := fun nm =>
  if nm ∈ ["Stack"] then .is [1, -2]
  else if nm ∈ ["P1", "P2", "IpAddr", "Desc", "Value", "Driver", "OriginUrl", "Param", "Title", "Uuid",
                "Steps", "Profile"] then .b [97, 98]
  else if nm ∈ ["Active", "HasCallstack"] then .i 1
  else if nm = "Version" then .i 2
  else if nm = "Attr" ∨ nm = "Fields" then .m (some [([107], .dec 64), ([108], .bool false)])
  else .i 5

example : methodStepX.inRanges sample := by
  intro p hp
  simp only [methodStepX, absStep, seq, L.fieldKinds, List.mem_cons, List.mem_nil_iff, or_false] at hp
  rcases hp with rfl | rfl | rfl | rfl | rfl | rfl | rfl | rfl <;>
    simp (decide := true) [sample, Kind.wf]

example : sqlStepX.inRanges sample := by
  intro p hp
  simp only [sqlStepX, absStep, seq, L.fieldKinds, List.mem_cons, List.mem_nil_iff, or_false] at hp
  rcases hp with rfl | rfl | rfl | rfl | rfl | rfl | rfl | rfl | rfl | rfl | rfl | rfl | rfl | rfl <;>
    simp (decide := true) [sample, Kind.wf, inRange_4, inRange_8]

theorem sample_httpc_WF : WF httpcStepX sample :=
  httpc_WF sample 2 rfl (by decide)
    (by intro p hp
        simp only [httpcCommon, List.mem_cons, List.mem_nil_iff, or_false] at hp
        rcases hp with rfl | rfl | rfl | rfl | rfl | rfl | rfl | rfl | rfl | rfl | rfl | rfl <;>
          simp (decide := true) [sample, Kind.wf, inRange_4, inRange_8])
    (by intro _; simp (decide := true) [sample, Kind.wf, inRange_8])

theorem sample_dbc_inRanges : dbcStep.inRanges sample := by
  intro p hp
  simp only [dbcStep, absStep, seq, L.fieldKinds, List.mem_cons, List.mem_nil_iff, or_false] at hp
  rcases hp with rfl | rfl | rfl | rfl | rfl | rfl <;> simp (decide := true) [sample, Kind.wf]

/-- the hypotheses of the stream theorems are met by a two-step stream (a DBC step, a version-2 HTTP call) -/
example : ∀ s ∈ [(⟨8, dbcStep, sample⟩ : Item), ⟨19, httpcStepX, sample⟩], StepOK s := by
  intro s hs
  simp only [List.mem_cons, List.mem_nil_iff, or_false] at hs
  rcases hs with rfl | rfl
  · exact ⟨by decide, rfl, L.plain_WF valueRT _ _ [] rfl rfl sample_dbc_inRanges⟩
  · exact ⟨by decide, rfl, sample_httpc_WF⟩

/-- … and those of `txrecord_roundtrip` by a record with multi-trace ids, caller identity and two custom fields -/
example : WF txRecord (fun nm => if nm = "IpAddr" then .i 5 else sample nm) := by
  refine txrecord_WF _ ?_ ?_ ?_ ?_ (by decide +kernel)
  · intro p hp
    simp only [txAlways, List.mem_cons, List.mem_nil_iff, or_false] at hp
    rcases hp with rfl | rfl | rfl | rfl | rfl | rfl | rfl | rfl | rfl | rfl | rfl | rfl | rfl | rfl | rfl | rfl | rfl |
      rfl | rfl | rfl | rfl | rfl | rfl | rfl | rfl | rfl | rfl | rfl | rfl | rfl | rfl | rfl | rfl | rfl <;>
      simp (decide := true) [sample, Kind.wf, inRange_4, inRange_8]
  · intro _; simp (decide := true) [sample, Kind.wf, inRange_4, inRange_8]
  · intro _; simp (decide := true) [sample, Kind.wf, inRange_4, inRange_8]
  · show fieldsWF valueRT (some [([107], .dec 64), ([108], .bool false)])
    exact ⟨by decide, (by decide : Value.wfKVs _ = true), by decide⟩

/-- … and those of `txrecord_legacy_roundtrip` by the same record as an agent with version byte 12,
    multi-trace presence byte 7 and caller flag 3 wrote it -/
example : txRecord.WFAlt valueRT (legacyChoice 12 7 3) (fun nm => if nm = "IpAddr" then .i 5 else sample nm) [] := by
  refine txrecord_legacy_WF 12 7 3 _ (by decide) (by decide) (by decide) ?_ ?_ ?_ ?_ (by decide +kernel)
  · intro p hp
    simp only [txAlways, List.mem_cons, List.mem_nil_iff, or_false] at hp
    rcases hp with rfl | rfl | rfl | rfl | rfl | rfl | rfl | rfl | rfl | rfl | rfl | rfl | rfl | rfl | rfl | rfl | rfl |
      rfl | rfl | rfl | rfl | rfl | rfl | rfl | rfl | rfl | rfl | rfl | rfl | rfl | rfl | rfl | rfl | rfl <;>
      simp (decide := true) [sample, Kind.wf, inRange_4, inRange_8]
  · intro _; simp (decide := true) [sample, Kind.wf, inRange_4, inRange_8]
  · intro _; simp (decide := true) [sample, Kind.wf, inRange_4, inRange_8]
  · show fieldsWF valueRT (some [([107], .dec 64), ([108], .bool false)])
    exact ⟨by decide, (by decide : Value.wfKVs _ = true), by decide⟩

/-- the legacy encoding differs from today's: version byte 12, presence byte 7, caller flag 3 -/
example : (txRecord.writeAlt (legacyChoice 12 7 3) (fun nm => if nm = "Mtid" ∨ nm = "McallerPcode" then .i 1 else .i 0)).head? = some 12
    ∧ txRecord.writeAlt (legacyChoice 12 7 3) (fun nm => if nm = "Mtid" ∨ nm = "McallerPcode" then .i 1 else .i 0)
      ≠ txRecord.write (fun nm => if nm = "Mtid" ∨ nm = "McallerPcode" then .i 1 else .i 0) := by decide

/-- a strict prefix: the first 9 of the 10 bytes of a DBC step do not decode; the 10 bytes of the first
    step of a two-step stream decode to that step alone -/
example : readOne stepTable [8, 1, 1, 0, 0, 2, 255, 127, 0] = none := by decide
example : (readAll stepTable [8, 1, 1, 0, 0, 2, 255, 127, 0, 0]).map List.length = some 1 := by decide
example : (readAll stepTable [8, 1, 1, 0, 0, 2, 255, 127, 0, 0, 6, 1, 1]).isNone = true := by decide

/-- a history of two records decoded into one TxRecord: the second carries no multi-trace ids, so the
    depth of the first survives, while the always-present field is the second's (what `txrecord_readinto`
    says; `ProfilePack.Read` avoids it by building a fresh record) -/
example :
    let x1 : Rec := fun nm => if nm = "Mtid" then .i 5 else if nm = "Mdepth" then .i 7 else if nm = "Elapsed" then .i 1 else .i 0
    let x2 : Rec := fun nm => if nm = "Elapsed" then .i 2 else .i 0
    ((txRecord.afterAll (fun _ => .i 0) [x1, x2]) "Mdepth").toInt = 7 ∧
    ((txRecord.afterAll (fun _ => .i 0) [x1, x2]) "Elapsed").toInt = 2 := by decide +kernel

/-- SqlStep_3 with all three optional sections, a WasService, and a two-record service stream meet the hypotheses -/
example : WF sqlStep3 (fun nm => if nm = "Opt" then .i 7 else sample nm) := by
  simp only [WF, sqlStep3, absStep, seq, L.WF, L.expect, bitSet, Val.toInt]
  simp (decide := true) [sample, Kind.wf, inRange_4, inRange_8, Env.get, List.lookup]

theorem sample_was_inRanges : wasService.inRanges (fun nm => if nm = "IpAddr" then .i 5 else sample nm) := by
  intro p hp
  simp only [wasService, absService, seq, L.fieldKinds, List.mem_cons, List.mem_nil_iff, or_false] at hp
  rcases hp with rfl | rfl | rfl | rfl | rfl | rfl | rfl | rfl | rfl | rfl | rfl | rfl | rfl | rfl | rfl | rfl | rfl |
    rfl | rfl | rfl | rfl | rfl | rfl <;> simp (decide := true) [sample, Kind.wf, inRange_4, inRange_8]

example : ∀ s ∈ [(⟨1, wasService, fun nm => if nm = "IpAddr" then .i 5 else sample nm⟩ : Item),
                 ⟨3, wasService, fun nm => if nm = "IpAddr" then .i 5 else sample nm⟩], s.ok valueRT serviceTable := by
  intro s hs
  simp only [List.mem_cons, List.mem_nil_iff, or_false] at hs
  rcases hs with rfl | rfl <;> exact ⟨by decide, rfl, L.plain_WF valueRT _ _ [] rfl rfl sample_was_inRanges⟩

/-- a 40000-element call stack: the hypotheses of `intarray_too_long_rejected` are met -/
example : 32767 < (List.replicate 40000 (0 : Int)).length ∧ (List.replicate 40000 (0 : Int)).length ≤ 65535 := by
  rw [List.length_replicate]; omega

/-- a MessageStepX with a two-entry attribute map (the shape of the repository's only round-trip test) -/
example : WF messageStepX sample := by
  refine messagestepx_WF sample ?_ ?_ (by decide)
  · intro p hp
    simp only [List.mem_cons, List.mem_nil_iff, or_false] at hp
    rcases hp with rfl | rfl | rfl | rfl | rfl | rfl <;>
      simp (decide := true) [sample, Kind.wf, inRange_4]
  · show mapWF valueRT (some [([107], .dec 64), ([108], .bool false)])
    show Value.WFV _
    decide

example : toBytesStep [⟨8, dbcStep, fun nm => if nm = "Parent" then .i 1 else if nm = "Hash" then .i (-129) else .i 0⟩,
                       ⟨6, activeStackStep, fun _ => .i 1⟩]
    = [8, 1, 1, 0, 0, 2, 255, 127, 0, 0,   6, 1, 1, 1, 1, 1, 1, 0, 0, 0, 0, 0, 0, 0, 1, 1] := by decide

/-- the all-zero TxRecord: version byte 10, blob length 47, 47 zero bytes -/
example : txRecord.write (fun _ => .i 0) = 10 :: 47 :: List.replicate 47 0 := by decide

/-- the hypotheses of `mixed_stream_roundtrip` are met by a DBC step, the zero AppService and a version-2 HTTP call -/
example : ∀ e ∈ [(⟨.step, ⟨8, dbcStep, sample⟩⟩ : Elem), ⟨.plain sqlStep3, ⟨0, sqlStep3, fun nm => if nm = "Opt" then .i 7 else sample nm⟩⟩,
                 ⟨.svc, ⟨1, wasService, fun nm => if nm = "IpAddr" then .i 5 else sample nm⟩⟩], e.ok valueRT := by
  intro e he
  simp only [List.mem_cons, List.mem_nil_iff, or_false] at he
  rcases he with rfl | rfl | rfl
  · exact ⟨by decide, rfl, L.plain_WF valueRT _ _ [] rfl rfl sample_dbc_inRanges⟩
  · refine ⟨rfl, ?_⟩
    simp only [sqlStep3, absStep, seq, L.WF, L.expect, bitSet, Val.toInt]
    simp (decide := true) [sample, Kind.wf, inRange_4, inRange_8, Env.get, List.lookup]
  · exact ⟨by decide, rfl, L.plain_WF valueRT _ _ [] rfl rfl sample_was_inRanges⟩

/-- `readver0_writever0`: the sample MessageStepX meets the hypotheses; `istrue_after_settrue`: flag 2 (ALREADY_SET_INDEX) -/
example : msgVer0Body.inRanges sample ∧ attrWF valueRT (some "Attr") sample := by
  refine ⟨?_, ?_⟩
  · intro p hp
    simp only [msgVer0Body, seq, L.fieldKinds, List.mem_cons, List.mem_nil_iff, or_false] at hp
    rcases hp with rfl | rfl | rfl <;> simp (decide := true) [sample, Kind.wf, inRange_4]
  · show Value.WFV _
    decide
example : byteOf 2 ≠ 0 ∧ byteOf 258 ≠ 0 ∧ byteOf 256 = 0 := by decide

/-- the interface observation of a decoded DBC step: code 8, parent 5, index 5, start time 5, elapsed 5;
    of a MessageStep the elapsed time is the constant 0 whatever the fields hold -/
example : writtenObs ⟨8, dbcStep, sample⟩ = [8, 5, 5, 5, 5] ∧ writtenObs ⟨7, messageStep, sample⟩ = [7, 5, 5, 5, 0] := by
  decide

end C08
