/-
  X03Gen — obligations tying the model Golib.Ext.UdpClient to what xlate/x03 re-reads from the Go source on
  every run (Golib/Gen/X03.lean): constants, the frame writes, the decision skeleton of sendByBuffer /
  sendBuffer / sendUDP / Shutdown / process, the goroutines GetUdpClient starts.
-/
import Golib.Ext.UdpClient
import Golib.Gen.X03

namespace X03Gen
open Ext.Udp

def lookup (k : String) (xs : List (String × Nat)) : Option Nat := (xs.find? (·.1 == k)).map (·.2)

/-- the constants the model's two configurations use are the source's -/
theorem ucp_consts :
    lookup "UDP_PACKET_BUFFER_CHUNKED_LIMIT" Gen.X03.Ucp.consts = some cfgUcp.limit ∧
    lookup "UDP_PACKET_CHANNEL_MAX" Gen.X03.Ucp.consts = some cfgUcp.chanCap := by decide
theorem old_consts :
    lookup "UDP_PACKET_BUFFER_CHUNKED_LIMIT" Gen.X03.Old.consts = some cfgOld.limit ∧
    lookup "UDP_PACKET_CHANNEL_MAX" Gen.X03.Old.consts = some cfgOld.chanCap := by decide

/-- a frame is built by exactly the three writes `encFrame` models, in this order, in both files -/
theorem frame_writes :
    Gen.X03.Ucp.frameWrites =
      ["out.WriteByte(sendData.Type)", "out.WriteInt(sendData.Ver)", "out.WriteIntBytes(sendData.Data)"] ∧
    Gen.X03.Old.frameWrites = Gen.X03.Ucp.frameWrites := by decide

/-- the header positions the receiver uses (HEADER_TYPE_POS, VER_POS, LEN_POS, HEADER_SIZE) are where
    `encFrame` puts type, version, length and body — for every frame -/
theorem header_layout (f : Frame) (tp vp lp hs : Nat)
    (h : lookup "UDP_PACKET_HEADER_TYPE_POS" Gen.X03.Ucp.consts = some tp ∧
         lookup "UDP_PACKET_HEADER_VER_POS" Gen.X03.Ucp.consts = some vp ∧
         lookup "UDP_PACKET_HEADER_LEN_POS" Gen.X03.Ucp.consts = some lp ∧
         lookup "UDP_PACKET_HEADER_SIZE" Gen.X03.Ucp.consts = some hs) :
    ((encFrame f).drop tp).take 1 = [f.typ] ∧ ((encFrame f).drop vp).take 4 = Prim.encI 4 f.ver ∧
    ((encFrame f).drop lp).take 4 = Prim.encI 4 f.body.length ∧ (encFrame f).drop hs = f.body ∧
    hs = frameLen ⟨0, 0, []⟩ := by
  have e0 : lookup "UDP_PACKET_HEADER_TYPE_POS" Gen.X03.Ucp.consts = some 0 := by decide
  have e1 : lookup "UDP_PACKET_HEADER_VER_POS" Gen.X03.Ucp.consts = some 1 := by decide
  have e5 : lookup "UDP_PACKET_HEADER_LEN_POS" Gen.X03.Ucp.consts = some 5 := by decide
  have e9 : lookup "UDP_PACKET_HEADER_SIZE" Gen.X03.Ucp.consts = some 9 := by decide
  obtain ⟨a, b, c, d⟩ := h
  rw [e0] at a; rw [e1] at b; rw [e5] at c; rw [e9] at d
  cases a; cases b; cases c; cases d
  have h1 : (Prim.encI 4 f.ver).length = 4 := Prim.encI_length _ _
  have h2 : (Prim.encI 4 (f.body.length : Int)).length = 4 := Prim.encI_length _ _
  refine ⟨by simp [encFrame], ?_, ?_, ?_, rfl⟩
  · simp only [encFrame, List.drop_succ_cons, List.drop_zero]
    exact List.take_left' h1
  · simp only [encFrame, Prim.encBytes32, List.drop_succ_cons]
    rw [List.drop_left' h1]; exact List.take_left' h2
  · simp only [encFrame, Prim.encBytes32, List.drop_succ_cons]
    rw [show (8:Nat) = 4 + 4 from rfl, ← List.drop_drop, List.drop_left' h1, List.drop_left' h2]
theorem old_header_consts : ∀ k ∈ ["UDP_PACKET_HEADER_TYPE_POS", "UDP_PACKET_HEADER_VER_POS",
    "UDP_PACKET_HEADER_LEN_POS", "UDP_PACKET_HEADER_SIZE"],
    lookup k Gen.X03.Old.consts = lookup k Gen.X03.Ucp.consts := by decide

/-- sendByBuffer's decisions, in order, with the state-changing calls of each branch:
      not open → return;  nil → return                                   (`send`: `!s.isOpen`; `Op.sendNil`)
      buffer non-empty ∧ buffer + frame > LIMIT → count, channel send, THEN Reset     (`send`: `over`)
      write error → Close, count                                         (bytes.Buffer.Write never fails: not modelled)
      buffer non-empty ∧ Flush → count, Reset, THEN channel send          (`send`: `flush`)
    The order Reset / channel send is what decides the state after a closed-channel panic. -/
theorem sendByBuffer_skeleton :
    Gen.X03.Ucp.sendByBufferIfs =
      [("!this.isOpen()", []),
       ("sendData == nil", []),
       ("this.buffer.Len() > 0 && this.buffer.Len()+len(sendBytes) > UDP_PACKET_BUFFER_CHUNKED_LIMIT",
          ["this.AddCount", "chan<- this.sendCh", "time.After", "this.buffer.Reset"]),
       ("err != nil", ["this.Close", "this.AddCount"]),
       ("this.buffer.Len() > 0 && sendData.Flush",
          ["this.AddCount", "this.buffer.Reset", "chan<- this.sendCh", "time.After"])] ∧
    Gen.X03.Old.sendByBufferIfs = Gen.X03.Ucp.sendByBufferIfs := by decide

/-- sendBuffer (`tick`): buffer non-empty → Reset, channel send, count;  sendUDP: not open → error;
    process (`proc`): sendUDP, then count (with an error on failure);
    Shutdown (`shutdown`): udp != nil → close(channel), sendUDP for what is left, Close, udp.Close — no buffer flush -/
theorem other_skeletons :
    Gen.X03.Ucp.sendBufferIfs =
      [("this.buffer.Len() > 0", ["this.buffer.Reset", "chan<- this.sendCh", "time.After", "this.AddCount"])] ∧
    Gen.X03.Ucp.sendUDPIfs = [("this.isOpen() == false", [])] ∧
    Gen.X03.Ucp.processCalls = ["this.sendUDP", "this.AddCount", "this.AddCount"] ∧
    Gen.X03.Ucp.ShutdownIfs = [("this.udp != nil", ["close", "this.sendUDP", "this.Close", "this.udp.Close"])] ∧
    Gen.X03.Old.sendBufferIfs = Gen.X03.Ucp.sendBufferIfs ∧ Gen.X03.Old.sendUDPIfs = Gen.X03.Ucp.sendUDPIfs ∧
    Gen.X03.Old.processCalls = Gen.X03.Ucp.processCalls ∧ Gen.X03.Old.ShutdownIfs = Gen.X03.Ucp.ShutdownIfs := by
  decide

/-- finding (source level): net/udp GetUdpClient does not start processRemain — no timer flush — while the
    older client does; and it assigns the singleton twice, the second time a bare new(UdpClient) (nil conf) -/
theorem ucp_goroutines : Gen.X03.Ucp.goroutines = ["func-literal", "udpClient.receive", "udpClient.process"] := by
  decide
theorem old_goroutines : Gen.X03.Old.goroutines =
    ["func-literal", "udpClient.receive", "udpClient.process", "udpClient.processRemain"] := by decide
theorem finding_singleton_overwritten :
    Gen.X03.Ucp.singletonAssigns = ["newUdpClient(opts...)", "new(UdpClient)"] ∧
    Gen.X03.Old.singletonAssigns = ["new(UdpClient)"] := by decide

end X03Gen
