/-
  Golib.Props.X02 — extension check X02: text and conversion utilities of whatap/golib that no
  property is anchored in.

    1  util/paramtext/ParamText.go   template text with `${name}` parameters and custom braces
    2  util/shellarg/ShellArg.go     argv → option table, typed getters
    3  util/urlutil/URL.go           URL splitter and its printers
    4  util/castutil, util/mathutil  conversions over dynamic types; Scale / RoundScale (integer part)
       lang/ref                      INT / BYTE hash codes

  The models (Golib.Ext.*) follow the code that exists.  Each section states the laws the code
  evidently intends, in full strength where the code has them, as `…_partial` under the narrowest
  hypothesis where it does not, with a `finding_*` witness of the failure.
-/
import Golib.Ext.ParamTextLemmas
import Golib.Ext.ShellUrlLemmas
import Golib.Ext.CastMath

namespace X02
open Ext Ext.Str

/-! ## 1. ParamText -/
section ParamText
open Ext.ParamText

/-- the constructor terminates unless BOTH braces are empty -/
theorem paramtext_total (sb eb text : Bytes) (hb : sb ≠ [] ∨ eb ≠ []) : (parse sb eb text).isSome :=
  parseF_total sb eb hb _ text (Nat.lt_succ_self _)

/-- parser/printer inverse: the tokens, written back with their braces and raw names, are the text —
    nothing is dropped, duplicated or reordered, for arbitrary text and arbitrary braces -/
theorem paramtext_flatten (sb eb text : Bytes) (ts : List Tok) (h : parse sb eb text = some ts) :
    flatten sb eb ts = text :=
  parseF_flatten sb eb _ text ts h

def Tok.raw : Tok → Option Bytes
  | .lit _ => none
  | .ref r => some r

/-- `GetKeys()` are the names between the braces, in order, each trimmed -/
theorem paramtext_keys (ts : List Tok) : keys ts = (ts.filterMap Tok.raw).map trimSpace := by
  induction ts with
  | nil => rfl
  | cons t ts ih =>
    cases t with
    | lit s => simp only [keys, List.filterMap_cons, Tok.key, Tok.raw] at ih ⊢; exact ih
    | ref r => simp only [keys, List.filterMap_cons, Tok.key, Tok.raw, List.map_cons] at ih ⊢; rw [ih]

/-- what one token becomes under `ToStringMap(p)` -/
def subst (sb eb : Bytes) (p : Option (List (Bytes × Bytes))) : Tok → Bytes
  | .lit s => s
  | .ref raw =>
    match p.bind (lookup · (trimSpace raw)) with
    | some v => v
    | none => sb ++ trimSpace raw ++ eb

/-- substituting a map is the token-wise substitution -/
theorem paramtext_toStringMap_tokenwise (sb eb : Bytes) (p : Option (List (Bytes × Bytes))) (ts : List Tok) :
    toStringMap sb eb p ts = (ts.map (subst sb eb p)).flatten := by
  induction ts with
  | nil => rfl
  | cons t ts ih =>
    cases t with
    | lit s => simp [toStringMap, subst, ih]
    | ref r => simp only [toStringMap, subst, List.map_cons, List.flatten_cons, ih]; rfl

theorem paramtext_toStringStr_tokenwise (q : Bytes) (ts : List Tok) :
    toStringStr q ts = (ts.map (fun t => match t with | .lit s => s | .ref _ => q)).flatten := by
  induction ts with
  | nil => rfl
  | cons t ts ih => cases t <;> simp [toStringStr, ih]

/-- with no parameter (the start brace does not occur) the text is one literal, and every rendering
    reproduces it unchanged -/
theorem paramtext_no_parameter (sb eb text : Bytes) (h : indexOf sb text = none) :
    parse sb eb text = some (litTok text) ∧ keys (litTok text) = [] ∧
    (∀ p, toStringMap sb eb p (litTok text) = text) ∧ (∀ q, toStringStr q (litTok text) = text) := by
  cases text with
  | nil => simp [parse, parseF, litTok, keys, toStringMap, toStringStr]
  | cons c cs =>
    refine ⟨?_, ?_, ?_, ?_⟩
    · simp only [parse, List.length_cons]
      unfold parseF
      simp [step, h, litTok]
    · simp [litTok, keys, Tok.key]
    · intro p; simp [litTok, toStringMap]
    · intro q; simp [litTok, toStringStr]

theorem toStringMap_eq_flatten (sb eb : Bytes) (p : Option (List (Bytes × Bytes))) : ∀ (ts : List Tok),
    (∀ r, Tok.ref r ∈ ts → trimSpace r = r ∧ p.bind (lookup · r) = none) →
    toStringMap sb eb p ts = flatten sb eb ts
  | [], _ => by simp [toStringMap, flatten]
  | .lit s :: ts, h => by
    rw [flatten_cons]
    simp only [toStringMap, Tok.src]
    rw [toStringMap_eq_flatten sb eb p ts (fun r hr => h r (by simp [hr]))]
  | .ref r :: ts, h => by
    rw [flatten_cons]
    have hr := h r (by simp)
    simp only [toStringMap, Tok.src, hr.1, hr.2]
    rw [toStringMap_eq_flatten sb eb p ts (fun r hr => h r (by simp [hr]))]

/-- FULL LAW (fails, see `finding_padded_name`): `ToStringMap(nil)` reproduces the original text.
    It holds when no name between braces is padded with white space and the map has none of the names. -/
theorem paramtext_roundtrip_partial (sb eb text : Bytes) (p : Option (List (Bytes × Bytes))) (ts : List Tok)
    (h : parse sb eb text = some ts)
    (hk : ∀ r, Tok.ref r ∈ ts → trimSpace r = r ∧ p.bind (lookup · r) = none) :
    toStringMap sb eb p ts = text := by
  rw [toStringMap_eq_flatten sb eb p ts hk]; exact paramtext_flatten sb eb text ts h

/-- completeness: a text assembled from literals (free of the first byte of the start brace) and names
    (free of the first byte of the end brace) parses into exactly those literals and names -/
theorem paramtext_segments (c : Nat) (t : Bytes) (d : Nat) (u : Bytes) (segs : List (Bytes × Bytes)) (tail : Bytes)
    (hs : ∀ s ∈ segs, c ∉ s.1 ∧ d ∉ s.2) (ht : c ∉ tail) :
    parse (c :: t) (d :: u) (build (c :: t) (d :: u) segs tail) = some (expect segs tail) :=
  parseF_segments c t d u segs tail _ hs ht (Nat.lt_succ_self _)

theorem keys_expect : ∀ (segs : List (Bytes × Bytes)) (tail : Bytes),
    keys (expect segs tail) = segs.map (fun s => trimSpace s.2)
  | [], tail => by
    simp only [expect, litTok]; split <;> simp [keys, Tok.key]
  | (l, n) :: r, tail => by
    have ih := keys_expect r tail
    simp only [keys] at ih ⊢
    simp only [expect, litTok, List.map_cons]
    split
    · simp only [List.nil_append, List.filterMap_cons, Tok.key, ih]
    · simp only [List.cons_append, List.nil_append, List.filterMap_cons, Tok.key, ih]

/-- … and `GetKeys()` of it are exactly the (trimmed) names, in order -/
theorem paramtext_segments_keys (c : Nat) (t : Bytes) (d : Nat) (u : Bytes) (segs : List (Bytes × Bytes)) (tail : Bytes)
    (hs : ∀ s ∈ segs, c ∉ s.1 ∧ d ∉ s.2) (ht : c ∉ tail) :
    (parse (c :: t) (d :: u) (build (c :: t) (d :: u) segs tail)).map keys = some (segs.map (fun s => trimSpace s.2)) := by
  rw [paramtext_segments c t d u segs tail hs ht]; simp [keys_expect]

-- non-vacuity: "a${ k }b" with the default braces
example : parse [36, 123] [125] (build [36, 123] [125] [([97], [32, 107, 32])] [98]) = some [.lit [97], .ref [32, 107, 32], .lit [98]] :=
  paramtext_segments 36 [123] 125 [] [([97], [32, 107, 32])] [98] (by decide) (by decide)

/-- FINDING: with both braces empty, an iteration of the constructor on a non-empty text emits a
    reference named "" and leaves the text as it was — the loop never ends (and allocates for ever) -/
theorem finding_emptyBraces_diverges (c : Nat) (cs : Bytes) :
    step [] [] (c :: cs) = .more (.ref []) (c :: cs) ∧ ∀ fuel, parseF [] [] fuel (c :: cs) = none :=
  ⟨step_emptyBraces _, fun f => parseF_emptyBraces f c cs⟩

/-- FINDING: `NewParamText("${ a }").ToStringMap(nil) = "${a}"`, not the original text -/
theorem finding_padded_name :
    (parse [36, 123] [125] [36, 123, 32, 97, 32, 125]).map (toStringMap [36, 123] [125] none) = some [36, 123, 97, 125] := by
  decide

/-- an unterminated brace: the rest of the text, start brace included, is one literal -/
theorem paramtext_unterminated : parse [36, 123] [125] [97, 36, 123, 98] = some [.lit [97], .lit [36, 123, 98]] := by
  decide

end ParamText

/-! ## 2. ShellArg -/
section ShellArg
open Ext.ShellArg

theorem shellarg_get_put_same (t : Tab) (k v : Bytes) : get (put t k v) k = some v := get_put_same t k v
theorem shellarg_get_put_other (t : Tab) (k k' v : Bytes) (h : k ≠ k') : get (put t k v) k' = get t k' :=
  get_put_other t k k' v h
theorem shellarg_keys_put_present (t : Tab) (k v : Bytes) (h : (get t k).isSome) :
    (put t k v).map (·.1) = t.map (·.1) := keys_put_present t k v h
theorem shellarg_keys_put_absent (t : Tab) (k v : Bytes) (h : get t k = none) :
    (put t k v).map (·.1) = t.map (·.1) ++ [k] := keys_put_absent t k v h

/-- the (key, first value) pairs of the groups argv is cut into -/
def kv1 (args : List Bytes) : List (Bytes × Bytes) := (groups args.length args).map (fun g => (g.1, g.2.1))

/-- refinement to the abstract parse: `Get(key, d)` is the first value of the LAST group with that
    key, `d` when there is none -/
theorem shellarg_get_last_wins (args : List Bytes) (k d : Bytes) :
    getStr (parse args) k d = ((get (kv1 args).reverse k).getD d) := by
  unfold getStr parse kv1
  rw [foldl_apply_param, get_foldl_put]
  cases get (List.map (fun g => (g.1, g.2.1)) (groups args.length args)).reverse k <;> simp [ShellArg.get]

/-- the typed getters return the default exactly when the key is absent -/
theorem shellarg_defaults (s : SA) (k : Bytes) (h : hasKey s k = false) (ds : Bytes) (di dl : Int) (db : Bool) :
    getStr s k ds = ds ∧ getInt s k di = di ∧ getLong s k dl = dl ∧ getBool s k db = db ∧ get2 s k = get s.param2 k := by
  unfold hasKey at h
  cases hg : get s.param k with
  | some v => simp [hg] at h
  | none => simp [getStr, getInt, getLong, getBool, get2, hg]

/-- argv made of options `-key [value [value2]]` (values do not start with `-`) yields exactly these
    options: first values in `parameter`, second values in `parameter2` -/
theorem shellarg_wellformed (gs : List (Bytes × List Bytes)) (h : WF gs) :
    parse (render gs) = (gs.map (fun g => (g.1, g.2.headD [], g.2[1]?))).foldl apply {} := by
  unfold parse; rw [groups_wf gs _ h (Nat.le_refl _)]

-- non-vacuity: ["-a","1","2","-b"]
example : WF [([45, 97], [[49], [50]]), ([45, 98], [])] := by unfold WF; decide

/-- FINDING: a negative number cannot be passed as a value — it becomes a key of its own, and the
    option gets "" whose `GetInt` is 0, not the default -/
theorem finding_negative_value :
    let s := parse [[45, 110], [45, 53]]
    getInt s [45, 110] 7 = 0 ∧ hasKey s [45, 53] = true := by decide

/-- `-tag.x` is recorded in Tags AND as an ordinary option -/
theorem shellarg_tag : parse [[45, 116, 97, 103, 46, 120], [118]] =
    { tags := [([45, 116, 97, 103, 46, 120], [120])], param := [([45, 116, 97, 103, 46, 120], [118])], param2 := [] } := by
  decide

end ShellArg

/-! ## 3. URL -/
section Url
open Ext.Url

/-- the plain shape `scheme://host[:port][/path][?query]` -/
structure Plain where
  proto : Bytes
  host : Bytes
  port : Option Bytes
  path : Bytes
  query : Option Bytes

def Plain.portS (x : Plain) : Bytes := match x.port with | some p => 58 :: p | none => []
def Plain.queryS (x : Plain) : Bytes := match x.query with | some q => 63 :: q | none => []
def Plain.render (x : Plain) : Bytes :=
  x.proto ++ 58 :: 47 :: 47 :: ((x.host ++ x.portS) ++ x.path) ++ x.queryS

/-- exactly the shapes for which the laws below are proved: the scheme is non-empty and has no `:` `?`;
    the host has no `/` `:` `?`; a port, if written, is non-empty without `/` `?`; the path is empty or
    starts with `/` and has no `?` `%`; a query, if written, is non-empty without `%` `+` -/
structure Plain.ok (x : Plain) : Prop where
  proto_ne : x.proto ≠ []
  proto_c : 58 ∉ x.proto
  proto_q : 63 ∉ x.proto
  host_s : 47 ∉ x.host
  host_c : 58 ∉ x.host
  host_q : 63 ∉ x.host
  port_ok : ∀ p, x.port = some p → p ≠ [] ∧ 47 ∉ p ∧ 63 ∉ p
  path_ok : x.path = [] ∨ ∃ r, x.path = 47 :: r
  path_q : 63 ∉ x.path
  path_pc : 37 ∉ x.path
  query_ok : ∀ q, x.query = some q → q ≠ [] ∧ 37 ∉ q ∧ 43 ∉ q

theorem plain_splits (x : Plain) (h : x.ok) :
    splitQ x.render = (x.query.getD [], x.proto ++ 58 :: 47 :: 47 :: ((x.host ++ x.portS) ++ x.path)) ∧
    splitPath ((x.host ++ x.portS) ++ x.path) = (x.host ++ x.portS, x.path) ∧
    parsePort (x.host ++ x.portS) = (x.host, x.port.getD [], x.port.isSome) := by
  have hps : 47 ∉ x.portS ∧ 63 ∉ x.portS := by
    unfold Plain.portS
    cases hp : x.port with
    | none => simp
    | some p => have := h.port_ok p hp; simp [this.2.1, this.2.2]
  have hpre : 63 ∉ x.proto ++ 58 :: 47 :: 47 :: ((x.host ++ x.portS) ++ x.path) := by
    simp [h.proto_q, h.host_q, hps.2, h.path_q]
  refine ⟨?_, ?_, ?_⟩
  · unfold Plain.render Plain.queryS
    cases hq : x.query with
    | none => simpa using splitQ_none _ hpre
    | some q => simpa using splitQ_some _ q hpre
  · have hhp : 47 ∉ x.host ++ x.portS := by simp [h.host_s, hps.1]
    rcases h.path_ok with hp | ⟨r, hp⟩
    · rw [hp, List.append_nil]; exact splitPath_none _ hhp
    · rw [hp]; exact splitPath_some _ r hhp
  · unfold Plain.portS
    cases hp : x.port with
    | none => simpa using parsePort_none _ h.host_c
    | some p => simpa using parsePort_some _ p h.host_c

/-- for URLs of the plain shape the components are the expected substrings … -/
theorem url_plain_components (x : Plain) (h : x.ok) :
    let u := process x.render
    u.proto = x.proto ∧ u.host = x.host ∧ u.rawPort = x.port.getD [] ∧ u.rawPath = x.path ∧ u.path = x.path ∧
    u.rawQuery = x.query.getD [] ∧ u.query = x.query.getD [] ∧
    u.port = (match x.port with
              | some p => (atoi p).1
              | none => if x.proto = https then 443 else 80) := by
  obtain ⟨h1, h2, h3⟩ := plain_splits x h
  have hpr := splitProto_some x.proto ((x.host ++ x.portS) ++ x.path) h.proto_c
  have hpath : unescape false x.path = some x.path := unescape_plain false x.path h.path_pc (by simp)
  have hquery : unescape true (x.query.getD []) = some (x.query.getD []) := by
    cases hq : x.query with
    | none => simp [unescape]
    | some q => have := h.query_ok q hq; exact unescape_plain true q this.2.1 (fun _ => this.2.2)
  simp only [process, h1, hpr, h2, h3, hpath, hquery, Option.getD_some]
  refine ⟨by trivial, by trivial, by trivial, by trivial, by trivial, by trivial, by trivial, ?_⟩
  cases x.port <;> simp

/-- … and `String()` reassembles the input; `Domain()` and `DomainPath()` are its prefixes -/
theorem url_plain_string (x : Plain) (h : x.ok) :
    let u := process x.render
    Url.toString u = x.render ∧ domain u = x.proto ++ sepScheme ++ x.host ∧
    domainPath u = x.proto ++ sepScheme ++ x.host ++ x.portS ++ x.path := by
  obtain ⟨e1, e2, e3, _, e5, _, e7, _⟩ := url_plain_components x h
  have hproto : protoPart (process x.render) = x.proto ++ sepScheme := by
    unfold protoPart; rw [e1]; simp [h.proto_ne]
  have hport : portPart (process x.render) = x.portS := by
    unfold portPart Plain.portS; rw [e3]
    cases hp : x.port with
    | none => simp
    | some p => simp [(h.port_ok p hp).1]
  have hquery : queryPart (process x.render) = x.queryS := by
    unfold queryPart Plain.queryS; rw [e7]
    cases hq : x.query with
    | none => simp
    | some q => simp [(h.query_ok q hq).1]
  simp only [Url.toString, domain, domainPath, hproto, hport, hquery, e2, e5]
  refine ⟨?_, by trivial, by trivial⟩
  simp [Plain.render, sepScheme]

-- non-vacuity: "https://a:8/p?x"
example : Plain.ok ⟨[104, 116, 116, 112, 115], [97], some [56], [47, 112], some [120]⟩ :=
  ⟨by decide, by decide, by decide, by decide, by decide, by decide,
   by intro p hp; cases hp; decide, Or.inr ⟨[112], rfl⟩, by decide, by decide,
   by intro q hq; cases hq; decide⟩

/-- FINDING: `String()` does not reassemble a URL with an empty port or an empty query:
    `"http://a:/x?"` is printed `"http://a/x"` -/
theorem finding_string_drops_empty :
    Url.toString (process [104,116,116,112,58,47,47,97,58,47,120,63]) = [104,116,116,112,58,47,47,97,47,120] := by
  decide

/-- FINDING: percent escapes are decoded by `String()` (`"http://a/%41"` is printed `"http://a/A"`),
    an escape that does not decode leaves the raw text -/
theorem finding_string_decodes :
    Url.toString (process [104,116,116,112,58,47,47,97,47,37,52,49]) = [104,116,116,112,58,47,47,97,47,65] ∧
    Url.toString (process [104,116,116,112,58,47,47,97,47,37,52]) = [104,116,116,112,58,47,47,97,47,37,52] := by
  decide

/-- FINDING: `File` of a URL without a path is cut at the `//` of the scheme: `NewURL("http://host").File = "/host"` -/
theorem finding_file_bare_host :
    (process [104,116,116,112,58,47,47,104,111,115,116]).file = [47,104,111,115,116] := by decide

/-- FINDING: the error of `Atoi` is ignored: `"https://a:x/"` has Port 0 (not 443), and a port that
    overflows int64 is 9223372036854775807 -/
theorem finding_port_error_ignored :
    (process [104,116,116,112,115,58,47,47,97,58,120,47]).port = 0 ∧
    (process ([104,116,116,112,58,47,47,97,58] ++ List.replicate 20 57 ++ [47])).port = 9223372036854775807 := by
  decide

end Url

/-! ## 4. castutil / mathutil / ref -/
section Cast
open Ext.Cast

/-- `CInt` of an int64 within int32 is the value -/
theorem cInt_int64_inRange (v : Int) (h : -2147483648 ≤ v ∧ v ≤ 2147483647) : cInt (.i64 v) = v :=
  wrap32_inRange v h

/-- … and otherwise wraps as Go's `int32(v)` does: the unique value of int32 congruent to `v` mod 2^32 -/
theorem cInt_int64_wraps (v : Int) :
    -2147483648 ≤ cInt (.i64 v) ∧ cInt (.i64 v) ≤ 2147483647 ∧ (cInt (.i64 v) - v) % 4294967296 = 0 :=
  ⟨(wrap32_range v).1, (wrap32_range v).2, wrap32_congr v⟩

theorem cLong_int64 (v : Int) : cLong (.i64 v) = v := rfl

/-- a string converts through `Atoi`; a string that does not parse (or overflows int64) gives 0 -/
theorem cInt_string (s : Bytes) : cInt (.str s) = if (atoi s).2 then wrap32 (atoi s).1 else 0 := rfl
theorem cLong_string (s : Bytes) : cLong (.str s) = if (atoi s).2 then (atoi s).1 else 0 := rfl

/-- `CInt`/`CLong` agree on int32-range values -/
theorem cInt_eq_cLong_inRange (d : Dyn) (h : -2147483648 ≤ cLong d ∧ cLong d ≤ 2147483647) : cInt d = cLong d := by
  cases d <;> simp only [cInt, cLong] at h ⊢
  · split <;> simp_all [wrap32_inRange]
  · exact wrap32_inRange _ h

/-- FINDING: only `int64` (resp. `float64`) and `string` convert; `int`, `int32`, `float32` give the
    zero value because the failed type assertion panics and is recovered; `CString` of an integer is
    fmt's bad-verb text -/
theorem finding_only_int64_converts (v : Int) (b : Nat) :
    cInt (.i32 v) = 0 ∧ cInt (.int v) = 0 ∧ cLong (.i32 v) = 0 ∧ cLong (.int v) = 0 ∧
    cFloat (.f32 b) = .bits 0 ∧ cDouble (.f32 b) = .bits 0 ∧ cString (.f32 b) = .text [] ∧
    cString (.i64 5) = .text (ascii "%!s(int64=5)") := by
  refine ⟨rfl, rfl, rfl, rfl, rfl, rfl, rfl, ?_⟩
  decide

/-- `CBool`: the decision table -/
theorem cBool_table (b : Bool) (v : Int) (n : Nat) :
    cBool (.bool b) = b ∧ cBool (.boolVal b) = b ∧ cBool .nil = false ∧ cBool .boolValNil = false ∧
    cBool (.i64 v) = false ∧ cBool (.f64 n) = false ∧
    cBool (.str (ascii "true")) = true ∧ cBool (.str (ascii "TRUE")) = true ∧ cBool (.str (ascii "tRuE")) = true ∧
    cBool (.str (ascii "1")) = false ∧ cBool (.str (ascii " true")) = false := by
  refine ⟨rfl, rfl, rfl, rfl, rfl, rfl, ?_, ?_, ?_, ?_, ?_⟩ <;> decide

def lowerAscii (c : Nat) : Nat := if 65 ≤ c ∧ c ≤ 90 then c + 32 else c

/-- `CBool(string)` is ASCII-case-insensitive equality with "true" -/
theorem cBool_string_iff (s : Bytes) : cBool (.str s) = true ↔ s.map lowerAscii = [116, 114, 117, 101] := by
  simp only [cBool]
  match s with
  | [] => simp [eqFoldTrue]
  | [_] => simp [eqFoldTrue]
  | [_, _] => simp [eqFoldTrue]
  | [_, _, _] => simp [eqFoldTrue]
  | [a, b, c, d] =>
    simp only [eqFoldTrue, lowerAscii, List.map_cons, List.map_nil, List.cons.injEq, and_true,
      Bool.and_eq_true, Bool.or_eq_true, beq_iff_eq]
    constructor
    · rintro ⟨⟨⟨ha, hb⟩, hc⟩, hd⟩
      refine ⟨?_, ?_, ?_, ?_⟩ <;> split <;> omega
    · rintro ⟨ha, hb, hc, hd⟩
      refine ⟨⟨⟨?_, ?_⟩, ?_⟩, ?_⟩
      · split at ha <;> omega
      · split at hb <;> omega
      · split at hc <;> omega
      · split at hd <;> omega
  | _ :: _ :: _ :: _ :: _ :: _ => simp [eqFoldTrue]

/-- `Atoi` on the decimal text of small numbers, and its error values -/
theorem atoi_examples :
    atoi (ascii "0") = (0, true) ∧ atoi (ascii "-7") = (-7, true) ∧ atoi (ascii "+7") = (7, true) ∧
    atoi (ascii "9223372036854775807") = (9223372036854775807, true) ∧
    atoi (ascii "-9223372036854775808") = (-9223372036854775808, true) ∧
    atoi (ascii "9223372036854775808") = (9223372036854775807, false) ∧
    atoi (ascii "99999999999999999999x") = (9223372036854775807, false) ∧
    atoi (ascii "9x") = (0, false) ∧ atoi (ascii "") = (0, false) ∧ atoi (ascii "-") = (0, false) ∧
    atoi (ascii " 1") = (0, false) := by
  refine ⟨?_, ?_, ?_, ?_, ?_, ?_, ?_, ?_, ?_, ?_, ?_⟩ <;> decide

/-- `Atoi` answers within int64, and answers 0 or a bound whenever it reports an error -/
theorem atoi_range (s : Bytes) :
    -9223372036854775808 ≤ (atoi s).1 ∧ (atoi s).1 ≤ 9223372036854775807 ∧
    ((atoi s).2 = false → (atoi s).1 = 0 ∨ (atoi s).1 = 9223372036854775807 ∨ (atoi s).1 = -9223372036854775808) := by
  unfold atoi
  split <;> exact atoiSigned_range _ _

/-- `Scale(n) = 10^n` for n = 1..4 -/
theorem scale_pow10 (n : Int) (h : 1 ≤ n ∧ n ≤ 4) : scale n = 10 ^ n.toNat := by
  have : n = 1 ∨ n = 2 ∨ n = 3 ∨ n = 4 := by omega
  rcases this with h | h | h | h <;> subst h <;> decide

/-- FINDING: every other argument, 0, negative and ≥ 5 included, gives 10000 -/
theorem finding_scale_default (n : Int) (h : n < 1 ∨ 4 ≤ n) : scale n = 10000 := by
  unfold scale
  have h1 : n ≠ 1 := by omega
  have h2 : n ≠ 2 := by omega
  have h3 : n ≠ 3 := by omega
  simp [h1, h2, h3]

theorem scale_pos (n : Int) : 0 < scale n := by
  unfold scale; split <;> (try split) <;> (try split) <;> omega

/-- integer part of `RoundScale`: an integer is a fixed point for every scale -/
theorem roundScaleInt_id (v sc : Int) : roundScaleInt v sc = v := by
  unfold roundScaleInt
  split
  · rfl
  · exact Int.mul_ediv_cancel v (Int.ne_of_gt (scale_pos sc))

/-- `ref.INT.HashCode` is `int32(Value)`: the value itself within int32 -/
theorem intHashCode_inRange (v : Int) (h : -2147483648 ≤ v ∧ v ≤ 2147483647) : intHashCode v = v :=
  wrap32_inRange v h

/-- `Equals` is equality of values, so equal objects have equal hash codes (trivially); distinct
    values collide exactly when they differ by a multiple of 2^32 -/
theorem intHashCode_collide (v k : Int) : intHashCode (v + 4294967296 * k) = intHashCode v :=
  wrap32_periodic v k

end Cast

/-! ## the library models -/
section Lib

/-- `TrimSpace` removes only a prefix and a suffix -/
theorem trimSpace_infix (s : Bytes) : ∃ a b, s = a ++ trimSpace s ++ b := Ext.Str.trimSpace_infix s

/-- `TrimSpace` examples: Unicode white space is trimmed, U+200B (zero width space) and invalid bytes are not -/
theorem trimSpace_examples :
    trimSpace [32, 9, 97, 32, 98, 10] = [97, 32, 98] ∧
    trimSpace [0xC2, 0xA0, 0xE3, 0x80, 0x80, 97, 0xE2, 0x80, 0x83] = [97] ∧
    trimSpace [0xE2, 0x80, 0x8B, 97] = [0xE2, 0x80, 0x8B, 97] ∧
    trimSpace [0xA0, 97, 0xC2] = [0xA0, 97, 0xC2] ∧
    trimSpace [32, 32] = [] := by
  refine ⟨?_, ?_, ?_, ?_, ?_⟩ <;> decide

end Lib

end X02
