/-
  Property C03 — "for every pack type the factory can create (and every other pack type offering a
  write/read pair)": the quantifier, over the lists regenerated from the Go source.

  Props/C03Gen.lean has one `agree_T` per type, written out by hand: a pack type ADDED to lang/pack would
  get no obligation and nobody would notice.  Here the same facts are stated over the regenerated lists:

    covered_agree        every entry of `covered` (all generated layouts, with the hand-filled ones) agrees
    registered_named     every type in the `CreatePack` switch has an entry (exceptions listed exactly)
    declared_named       every type that declares a type code has an entry (exceptions listed exactly)
    elements_named       every generated element/record type has an entry (exception: TransactionRec, by version)
    registered_roundtrip for the factory AS REGENERATED (`genFactory`), every registered type, every
                         well-formed record: ReadPack (WritePack p ++ rest) = (p's carried fields, rest)
    covered_known        re-encoding identity (`C03.pack_reencode`) applies to every entry but CounterPack1
-/
import Golib.Props.C03
import Golib.Props.C03Gen

namespace C03Gen
open Layout Gen.Packs Packs _root_.Prim

/-- layouts with hand-filled sections (Golib/Packs/Hand.lean, Irregular.lean: the generated layout applied
    to the transcription gaps) -/
def handLayouts : List (String × L × L) := [
  ("TagCountPack", Packs.Hand.TagCountPack.w, TagCountPack.r),
  ("TagLogPack", Packs.Hand.TagLogPack.w, TagLogPack.r),
  ("LogSinkPack", Packs.Hand.LogSinkPack.w, LogSinkPack.r),
  ("ParamPack", Packs.Hand.ParamPack.w, Packs.Hand.ParamPack.r),
  ("ExtensionPack", Packs.Hand.ExtensionPack.w, Packs.Hand.ExtensionPack.r),
  ("EventPack", Packs.Hand.EventPack.w, Packs.Hand.EventPack.r),
  ("CounterPack1", Packs.Irregular.CounterPack1.w, Packs.Irregular.CounterPack1.r),
  ("StatGeneralPack", Packs.Irregular.StatGeneralPack.l, Packs.Irregular.StatGeneralPack.l)]

/-- readers that fill a field (`Count`) for which the writer emits the constant 1: not carried -/
def countForgotten : List String := ["DiskPerf", "NetPerf", "SMDiskPerfPack", "SMNetPerfPack"]

/-- every layout pair the round trip is claimed for, by type name -/
def covered : List (String × L × L) :=
  handLayouts ++
  (all.filter (fun t => t.1 != "TransactionRec")).map
    (fun t => if countForgotten.contains t.1 then (t.1, t.2.1, t.2.2.forget "Count") else t)

/-- every covered type: the writer and reader bodies, transcribed separately, agree -/
theorem covered_agree : covered.all (fun t => agrees t.2.1 t.2.2) = true := by decide

/-- every type the factory can create has covered layouts — except ProfilePack (`C03.profile_roundtrip`,
    C08's model) and CompositePack (`C03.composite_tree_roundtrip`) -/
theorem registered_named :
    registry.all (fun ct => ct.2 == "ProfilePack" || ct.2 == "CompositePack" || (covered.lookup ct.2).isSome) = true := by
  decide

/-- every type declaring a type code has covered layouts — except those two and SMBasePack (writer
    parameterised by the Cpu/Memory layouts: `agree_SMBasePack_*`, one per OS class) -/
theorem declared_named :
    packType.all (fun tc => tc.1 == "ProfilePack" || tc.1 == "CompositePack" || tc.1 == "SMBasePack" ||
      (covered.lookup tc.1).isSome) = true := by decide

/-- every generated layout pair is covered (TransactionRec: per version, `agree_TransactionRec_v2/3/4`) -/
theorem elements_named :
    all.all (fun t => t.1 == "TransactionRec" || (covered.lookup t.1).isSome) = true := by decide

/-- re-encoding identity applies to (the writer is `known` for) every covered type but CounterPack1 (its
    meters carry a marker byte whose presence the decoded fields do not determine: `mrep`) -/
theorem covered_known : covered.all (fun t => t.1 == "CounterPack1" || t.2.1.known) = true := by decide

/-- no covered reader asks whether the input has ended -/
theorem covered_tailFree : covered.all (fun t => t.2.2.tailFree) = true := by decide

/-! ### the factory as regenerated -/

/-- `CreatePack`, from the regenerated switch: type code ↦ the reader of the type constructed -/
def genFactory : Factory := fun code =>
  (registry.lookup code).bind (fun ty => (covered.lookup ty).map (·.2))

theorem registry_lookup : registry.all (fun ct => registry.lookup ct.1 == some ct.2) = true := by decide
theorem registry_codes_16bit : registry.all (fun ct => decide (-32768 ≤ ct.1 ∧ ct.1 < 32768)) = true := by decide

theorem mem_of_lookup {α β : Type} [BEq α] [LawfulBEq α] (l : List (α × β)) (a : α) (b : β)
    (h : l.lookup a = some b) : (a, b) ∈ l := by
  induction l with
  | nil => simp [List.lookup] at h
  | cons kb l ih =>
    obtain ⟨k, b'⟩ := kb
    rw [List.lookup_cons] at h
    by_cases hk : (a == k) = true
    · rw [hk] at h
      have := eq_of_beq hk
      simp only [Option.some.injEq] at h
      subst this; subst h
      exact List.mem_cons_self
    · have hk' : (a == k) = false := by simpa using hk
      rw [hk'] at h
      exact List.mem_cons_of_mem _ (ih h)

/-- a covered entry agrees -/
theorem covered_lookup_agrees (ty : String) (w r : L) (h : covered.lookup ty = some (w, r)) :
    agrees w r = true := by
  have hm := mem_of_lookup covered ty (w, r) h
  have := List.all_eq_true.mp covered_agree _ hm
  simpa using this

/-- **every registered type, through the regenerated factory**: for every entry `(code, ty)` of the
    `CreatePack` switch with covered layouts `(w, r)` (all but ProfilePack / CompositePack:
    `registered_named`) and every well-formed record, `ReadPack (WritePack p ++ rest)` is the pack's type
    code with exactly its carried fields, and `rest` -/
theorem registered_roundtrip (code : Int) (ty : String) (w r : L) (x : Rec) (rest : Bytes)
    (hreg : (code, ty) ∈ registry) (hl : covered.lookup ty = some (w, r))
    (hwf : w.WF valueRT env0 "" x) :
    readPack genFactory (writePack ⟨code, w, r, x⟩ ++ rest) = some ((code, w.expect env0 "" x), rest) := by
  have h1 := List.all_eq_true.mp registry_lookup _ hreg
  have h2 := List.all_eq_true.mp registry_codes_16bit _ hreg
  have h1' : registry.lookup code = some ty := by simpa using h1
  have h2' : -32768 ≤ code ∧ code < 32768 := by simpa using h2
  apply C03.tagged_roundtrip genFactory ⟨code, w, r, x⟩ rest
  refine ⟨?_, ?_, covered_lookup_agrees ty w r hl, hwf⟩
  · show _root_.Prim.inRange 2 code
    unfold _root_.Prim.inRange _root_.Prim.modulus
    omega
  · show genFactory code = some r
    simp [genFactory, h1', hl]

/-- … and a type code outside the switch is refused -/
theorem unregistered_code_refused (code : Int) (body : Bytes) (hc : -32768 ≤ code ∧ code < 32768)
    (h : registry.lookup code = none) : readPack genFactory (encI 2 code ++ body) = none := by
  apply C03.unknown_code_fails genFactory code body
  · unfold _root_.Prim.inRange _root_.Prim.modulus; omega
  · simp [genFactory, h]

/-! non-vacuity: the hypotheses of `registered_roundtrip` are met -/
example : (1792, "TextPack") ∈ registry := by decide
example : (covered.lookup "TextPack").isSome = true := by decide
example : (genFactory 1792).isSome = true := by decide
example : genFactory 1793 = none := by decide

/-- a StatRemoteIpPack (long header form, two rows, extreme values) … -/
def ipX : Rec := fun k =>
  if k = "Pcode" then .int (-9223372036854775808) else if k = "Onode" then .int 2147483647
  else if k = "IpTable#" then .int 2
  else if k = "IpTable[0].key" then .int (-2147483648) else if k = "IpTable[1].val" then .int 77 else .int 0

theorem ipX_wf : StatRemoteIpPack.w.WF valueRT env0 "" ipX := by
  have hc : countOf "" "IpTable" ipX = 2 := by decide +kernel
  have e1 : ipX (elemPfx "" "IpTable" 0 ++ "key") = .int (-2147483648) := by rfl
  have e2 : ipX (elemPfx "" "IpTable" 0 ++ "val") = .int 0 := by rfl
  have e3 : ipX (elemPfx "" "IpTable" 1 ++ "key") = .int 0 := by rfl
  have e4 : ipX (elemPfx "" "IpTable" 1 ++ "val") = .int 77 := by rfl
  simp only [StatRemoteIpPack.w, L.WF, hc]
  refine ⟨by decide +kernel, by simp [Layout.Prim.wf, inRange, modulus], ?_, trivial⟩
  intro i hi
  have : i = 0 ∨ i = 1 := by omega
  rcases this with rfl | rfl
  · rw [e1, e2]; simp [Layout.Prim.wf, rngOk, Rng.ok, inRange, modulus]
  · rw [e3, e4]; simp [Layout.Prim.wf, rngOk, Rng.ok, inRange, modulus]

/-- … travels through the regenerated factory: an instance of `registered_roundtrip` with every
    hypothesis discharged -/
example (rest : Bytes) :
    readPack genFactory (writePack ⟨4352, StatRemoteIpPack.w, StatRemoteIpPack.r, ipX⟩ ++ rest)
      = some ((4352, StatRemoteIpPack.w.expect env0 "" ipX), rest) :=
  registered_roundtrip 4352 "StatRemoteIpPack" _ _ ipX rest (by decide) (by rfl) ipX_wf

end C03Gen
