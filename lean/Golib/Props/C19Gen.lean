/-
  Property C19 — tie A: the facts that `xlate/c19` transcribes from
  /repo/util/dateutil/{DateTimeHelper,DateFormat}.go on every run (Golib.Gen.C19) are the
  constants the hand-written CodeModel (Golib.Cal.*) is built from.  All obligations are cheap
  evaluations; the heavy per-year table checks depend on the hand-written constants only.
-/
import Golib.Gen.C19
import Golib.Cal.Helper
import Golib.Cal.DateFormat
import Golib.Cal.PadIR
import Golib.Cal.LoopIR

namespace C19Gen
open Cal

/-- the month-length table and the weekday labels of the source are those of the model -/
theorem gen_tables : Gen.C19.mdayLen = mdayLen ∧ Gen.C19.wday = wdayLabels := by decide

theorem gen_millis :
    Gen.C19.MILLIS_PER_SECOND = MILLIS_PER_SECOND ∧ Gen.C19.MILLIS_PER_MINUTE = MILLIS_PER_MINUTE ∧
    Gen.C19.MILLIS_PER_FIVE_MINUTE = MILLIS_PER_FIVE_MINUTE ∧ Gen.C19.MILLIS_PER_HOUR = MILLIS_PER_HOUR ∧
    (Gen.C19.MILLIS_PER_DAY : Int) = MILLIS_PER_DAY ∧ Gen.C19.MILLIS_PER_DAY = MS_DAY := by decide

/-- the body of `isYun` in the source computes the model's leap rule on every argument open()
    passes to it (0..99) -/
theorem gen_isYun : Gen.C19.isYunKnown = true ∧ ∀ y, y < 100 → Gen.C19.isYun y = isYun y := by decide

/-- the base instant is 2000-01-01T00:00:00 UTC, which is day 10957 = BASE_TIME / day -/
theorem gen_base : Gen.C19.baseDateUTC = [2000, 1, 1, 0, 0, 0, 0] ∧ daysFromCivil 2000 1 1 = BASE_DAY ∧
    BASE_TIME = (BASE_DAY : Int) * MILLIS_PER_DAY := by decide

/-- open(): 100 years × 12 months, weekday index starts at 5 and wraps after 6, February is
    month index 1, the date string is "%d%02d%02d" of (year+2000, mm+1, dd+1) -/
theorem gen_open : Gen.C19.openLoopBounds = [100, 12] ∧ Gen.C19.openLiteralInits = [0, 0, 0, 0, 5] ∧
    Gen.C19.openEqTests = [1, 6] ∧ Gen.C19.openDateFormat = ["%d%02d%02d"] ∧
    Gen.C19.openDateOffsets = [2000, 1, 1] := by decide

/-- what each string helper writes, piece by piece (this carries the pad widths: `mk2` for
    hours/minutes/seconds, `mk3` for milliseconds — fails on the code before the repair of D40) -/
theorem gen_pieces :
    Gen.C19.pieces_datetime = ["field:date", "lit: ", "call:mk2", "lit::", "call:mk2", "lit::", "call:mk2"] ∧
    Gen.C19.pieces_timestamp = ["field:date", "lit: ", "call:mk2", "lit::", "call:mk2", "lit::", "call:mk2", "lit:.", "call:mk3"] ∧
    Gen.C19.pieces_logtime = ["call:mk2", "lit::", "call:mk2", "lit::", "call:mk2", "lit:.", "call:mk3"] ∧
    Gen.C19.pieces_ymdhms = ["field:date", "call:mk2", "call:mk2", "call:mk2"] ∧
    Gen.C19.pieces_hhmmss = ["sprintf:%02d%02d%02d"] ∧ Gen.C19.pieces_hhmm = ["sprintf:%02d%02d"] := by decide

/-! ### interpreted obligations: the transcribed bodies, given a semantics (Golib.Cal.PadIR), compute
    the model's functions -/

/-- the body of `mk2` in the source computes the model's `mk2` on every two-digit argument
    (hours, minutes, seconds are < 100), the body of `mk3` the model's `mk3` on every
    millisecond value -/
theorem gen_mk2 : ∀ n, n < 100 → evalPad Gen.C19.mk2 n = some (mk2 n) := by decide

theorem gen_mk3 : ∀ n, n < 1000 → evalPad Gen.C19.mk3 n = some (mk3 n) := by decide +kernel

/-- the Sprintf formats of the source, interpreted, are the model's `Day.date`, `hhmmss`, `hhmm`
    bodies — for all arguments -/
theorem gen_sprintf (a b c : Nat) :
    evalFmt (Gen.C19.fmt_open.map Char.ofNat) [a, b, c] = some (itoa a ++ pad0 2 b ++ pad0 2 c) ∧
    evalFmt (Gen.C19.fmt_hhmmss.map Char.ofNat) [a, b, c] = some (pad0 2 a ++ pad0 2 b ++ pad0 2 c) ∧
    evalFmt (Gen.C19.fmt_hhmm.map Char.ofNat) [a, b] = some (pad0 2 a ++ pad0 2 b) := by
  simp [evalFmt, isDig, Gen.C19.fmt_open, Gen.C19.fmt_hhmmss, Gen.C19.fmt_hhmm]

/-- the piece sequences of the four buffer-writing helpers, run with the transcribed pad
    functions, produce the strings of the model (`datetime`, `timestampWith mk3`, `logtimeWith mk3`,
    `ymdhms` bodies) for every date string and every time of day -/
theorem gen_programs (date : List Char) (hh mm ss sss : Nat) (h1 : hh < 100) (h2 : mm < 100) (h3 : ss < 100)
    (h4 : sss < 1000) :
    evalPieces (evalPad Gen.C19.mk2) (evalPad Gen.C19.mk3) Gen.C19.prog_datetime date [hh, mm, ss] =
      some (date ++ ' ' :: mk2 hh ++ ':' :: mk2 mm ++ ':' :: mk2 ss) ∧
    evalPieces (evalPad Gen.C19.mk2) (evalPad Gen.C19.mk3) Gen.C19.prog_timestamp date [hh, mm, ss, sss] =
      some (date ++ ' ' :: mk2 hh ++ ':' :: mk2 mm ++ ':' :: mk2 ss ++ '.' :: mk3 sss) ∧
    evalPieces (evalPad Gen.C19.mk2) (evalPad Gen.C19.mk3) Gen.C19.prog_logtime date [hh, mm, ss, sss] =
      some (mk2 hh ++ ':' :: mk2 mm ++ ':' :: mk2 ss ++ '.' :: mk3 sss) ∧
    evalPieces (evalPad Gen.C19.mk2) (evalPad Gen.C19.mk3) Gen.C19.prog_ymdhms date [hh, mm, ss] =
      some (date ++ mk2 hh ++ mk2 mm ++ mk2 ss) := by
  have a := gen_mk2 hh h1
  have b := gen_mk2 mm h2
  have c := gen_mk2 ss h3
  have d := gen_mk3 sss h4
  simp [evalPieces, Gen.C19.prog_datetime, Gen.C19.prog_timestamp, Gen.C19.prog_logtime,
    Gen.C19.prog_ymdhms, a, b, c, d]

/-- **whole helper bodies, interpreted**: the `/ %` chain of each string helper as it stands in the
    source (variables by name) followed by its writes, run with the transcribed pad functions and
    formats, yields — for every elapsed time `time - BASE_TIME` and whatever the table holds
    (`dateOf idx`) — exactly the model's string: table entry `elapsed / day`, and the
    `hmsOf (elapsed % day)` fields through mk2/mk3/%02d.  Renaming variables keeps this green;
    dividing by the wrong constant, reading the wrong variable or dropping a `%` step breaks it. -/
theorem gen_bodies (dateOf : Nat → List Char) (el : Nat) :
    let h := hmsOf (el % 86400000)
    evalBody (evalPad Gen.C19.mk2) (evalPad Gen.C19.mk3) dateOf Gen.C19.chain_datetime Gen.C19.outs_datetime el =
      some (dateOf (el / 86400000) ++ ' ' :: mk2 h.hh ++ ':' :: mk2 h.mm ++ ':' :: mk2 h.ss) ∧
    evalBody (evalPad Gen.C19.mk2) (evalPad Gen.C19.mk3) dateOf Gen.C19.chain_timestamp Gen.C19.outs_timestamp el =
      some (dateOf (el / 86400000) ++ ' ' :: mk2 h.hh ++ ':' :: mk2 h.mm ++ ':' :: mk2 h.ss ++ '.' :: mk3 h.sss) ∧
    evalBody (evalPad Gen.C19.mk2) (evalPad Gen.C19.mk3) dateOf Gen.C19.chain_logtime Gen.C19.outs_logtime el =
      some (mk2 h.hh ++ ':' :: mk2 h.mm ++ ':' :: mk2 h.ss ++ '.' :: mk3 h.sss) ∧
    evalBody (evalPad Gen.C19.mk2) (evalPad Gen.C19.mk3) dateOf Gen.C19.chain_ymdhms Gen.C19.outs_ymdhms el =
      some (dateOf (el / 86400000) ++ mk2 h.hh ++ mk2 h.mm ++ mk2 h.ss) ∧
    evalBody (evalPad Gen.C19.mk2) (evalPad Gen.C19.mk3) dateOf Gen.C19.chain_hhmmss Gen.C19.outs_hhmmss el =
      some (pad0 2 h.hh ++ pad0 2 h.mm ++ pad0 2 h.ss) ∧
    evalBody (evalPad Gen.C19.mk2) (evalPad Gen.C19.mk3) dateOf Gen.C19.chain_hhmm Gen.C19.outs_hhmm el =
      some (pad0 2 h.hh ++ pad0 2 h.mm) := by
  intro h
  have a := gen_mk2 (el % 86400000 / 3600000) (by omega)
  have b := gen_mk2 (el % 3600000 / 60000) (by omega)
  have c := gen_mk2 (el % 60000 / 1000) (by omega)
  have d := gen_mk3 (el % 1000) (by omega)
  simp [h, hmsOf, MILLIS_PER_HOUR, MILLIS_PER_MINUTE, MILLIS_PER_SECOND, evalBody, evalAssigns, evalOuts, Env.get,
    evalFmt, isDig,
    Gen.C19.chain_datetime, Gen.C19.outs_datetime, Gen.C19.chain_timestamp, Gen.C19.outs_timestamp,
    Gen.C19.chain_logtime, Gen.C19.outs_logtime, Gen.C19.chain_ymdhms, Gen.C19.outs_ymdhms,
    Gen.C19.chain_hhmmss, Gen.C19.outs_hhmmss, Gen.C19.chain_hhmm, Gen.C19.outs_hhmm, a, b, c, d]


/-! ### the rune loops of DateFormat, interpreted

  `format` and `Parse` are transcribed statement by statement (`Gen.C19.formatBody`, `parseBody`, `parseFills`;
  semantics in Golib.Cal.LoopIR) and proved equal to the CodeModel **for all patterns, inputs and states**.
  This is where "every rune that is not one of y m d H M S s is a literal" is tied to the source: a loop body
  that gives some other rune a meaning (a quote that toggles a flag, an escape, a `continue`) contains a statement
  the semantics has no meaning for, or a clause the model does not have, and these obligations no longer check.
  Re-ordering the clauses, renaming variables or constants keeps them green. -/

/-- one pass of the loop body of `format` as it stands in the source — the single `switch ch` with its seven
    field clauses and the default clause — appends, for EVERY rune, what the model's `fmtRune` appends -/
theorem gen_format_body (f : Fields) (c : Char) : evalFmtBody Gen.C19.formatBody f c = some (fmtRune f c) := by
  by_cases hy : c = 'y'
  · subst hy; simp [Gen.C19.formatBody, evalFmtBody, runeCase, FmtAct.eval, TimeSel.eval, fmtRune, letterWidth, Fields.get]
  by_cases hm : c = 'm'
  · subst hm; simp [Gen.C19.formatBody, evalFmtBody, runeCase, FmtAct.eval, TimeSel.eval, fmtRune, letterWidth, Fields.get]
  by_cases hd : c = 'd'
  · subst hd; simp [Gen.C19.formatBody, evalFmtBody, runeCase, FmtAct.eval, TimeSel.eval, fmtRune, letterWidth, Fields.get]
  by_cases hH : c = 'H'
  · subst hH; simp [Gen.C19.formatBody, evalFmtBody, runeCase, FmtAct.eval, TimeSel.eval, fmtRune, letterWidth, Fields.get]
  by_cases hM : c = 'M'
  · subst hM; simp [Gen.C19.formatBody, evalFmtBody, runeCase, FmtAct.eval, TimeSel.eval, fmtRune, letterWidth, Fields.get]
  by_cases hS : c = 'S'
  · subst hS; simp [Gen.C19.formatBody, evalFmtBody, runeCase, FmtAct.eval, TimeSel.eval, fmtRune, letterWidth, Fields.get]
  by_cases hs : c = 's'
  · subst hs; simp [Gen.C19.formatBody, evalFmtBody, runeCase, FmtAct.eval, TimeSel.eval, fmtRune, letterWidth, Fields.get]
  have e1 := toNat_beq_of_ne c 'y' hy
  have e2 := toNat_beq_of_ne c 'm' hm
  have e3 := toNat_beq_of_ne c 'd' hd
  have e4 := toNat_beq_of_ne c 'H' hH
  have e5 := toNat_beq_of_ne c 'M' hM
  have e6 := toNat_beq_of_ne c 'S' hS
  have e7 := toNat_beq_of_ne c 's' hs
  simp only [Char.reduceToNat] at e1 e2 e3 e4 e5 e6 e7
  simp [Gen.C19.formatBody, evalFmtBody, runeCase, FmtAct.eval, fmtRune, letterWidth, hy, hm, hd, hH, hM, hS, hs, List.find?, e1, e2, e3, e4, e5, e6, e7]


/-- **`format` is the model's `format`**: the function is `ret := this.formatStr; var buf bytes.Buffer; for _, ch := range ret { … };
    return buf.String()` and its loop, run on any pattern and any field values, writes `Cal.format pat f` -/
theorem gen_format_loop (pat : List Char) (f : Fields) :
    Gen.C19.formatFrame = ["alias", "buffer", "loop", "return-buffer"] ∧ Gen.C19.formatRangeOver = "recv.formatStr" ∧
    evalFormatLoop Gen.C19.formatBody pat f = some (format pat f) :=
  ⟨by decide, by decide, evalFormatLoop_eq _ gen_format_body pat f⟩

/-- one pass of the loop body of `Parse` as it stands in the source (`if i >= sz { break }`, then the `switch ch`)
    is one step of the model's `parseLoopZ`, for every rune, index, remaining input and field map -/
theorem gen_parse_body (sz i : Nat) (c : Char) (inp : List Char) (p : PStateZ) :
    evalParseBody Gen.C19.parseBody sz i c inp p = modelStep sz i c inp p := by
  by_cases hi : i ≥ sz
  · simp [Gen.C19.parseBody, evalParseBody, modelStep, hi]
  by_cases hy : c = 'y'
  · subst hy; simp only [Gen.C19.parseBody, evalParseBody, modelStep, hi, if_false, runeCase, ParseAct.eval, letterWidth, List.find?, Char.reduceToNat]
    simp
    generalize toIntZ inp 4 = o
    rcases o with _ | ⟨v, rest⟩ <;> rfl
  by_cases hm : c = 'm'
  · subst hm; simp only [Gen.C19.parseBody, evalParseBody, modelStep, hi, if_false, runeCase, ParseAct.eval, letterWidth, List.find?, Char.reduceToNat]
    simp
    generalize toIntZ inp 2 = o
    rcases o with _ | ⟨v, rest⟩ <;> rfl
  by_cases hd : c = 'd'
  · subst hd; simp only [Gen.C19.parseBody, evalParseBody, modelStep, hi, if_false, runeCase, ParseAct.eval, letterWidth, List.find?, Char.reduceToNat]
    simp
    generalize toIntZ inp 2 = o
    rcases o with _ | ⟨v, rest⟩ <;> rfl
  by_cases hH : c = 'H'
  · subst hH; simp only [Gen.C19.parseBody, evalParseBody, modelStep, hi, if_false, runeCase, ParseAct.eval, letterWidth, List.find?, Char.reduceToNat]
    simp
    generalize toIntZ inp 2 = o
    rcases o with _ | ⟨v, rest⟩ <;> rfl
  by_cases hM : c = 'M'
  · subst hM; simp only [Gen.C19.parseBody, evalParseBody, modelStep, hi, if_false, runeCase, ParseAct.eval, letterWidth, List.find?, Char.reduceToNat]
    simp
    generalize toIntZ inp 2 = o
    rcases o with _ | ⟨v, rest⟩ <;> rfl
  by_cases hS : c = 'S'
  · subst hS; simp only [Gen.C19.parseBody, evalParseBody, modelStep, hi, if_false, runeCase, ParseAct.eval, letterWidth, List.find?, Char.reduceToNat]
    simp
    generalize toIntZ inp 2 = o
    rcases o with _ | ⟨v, rest⟩ <;> rfl
  by_cases hs : c = 's'
  · subst hs; simp only [Gen.C19.parseBody, evalParseBody, modelStep, hi, if_false, runeCase, ParseAct.eval, letterWidth, List.find?, Char.reduceToNat]
    simp
    generalize toIntZ inp 3 = o
    rcases o with _ | ⟨v, rest⟩ <;> rfl
  have e1 := toNat_beq_of_ne c 'y' hy
  have e2 := toNat_beq_of_ne c 'm' hm
  have e3 := toNat_beq_of_ne c 'd' hd
  have e4 := toNat_beq_of_ne c 'H' hH
  have e5 := toNat_beq_of_ne c 'M' hM
  have e6 := toNat_beq_of_ne c 'S' hS
  have e7 := toNat_beq_of_ne c 's' hs
  simp only [Char.reduceToNat] at e1 e2 e3 e4 e5 e6 e7
  simp [Gen.C19.parseBody, evalParseBody, modelStep, hi, runeCase, ParseAct.eval, letterWidth, hy, hm, hd, hH, hM, hS, hs, List.find?, e1, e2, e3, e4, e5, e6, e7]


/-- **the loop of `Parse` is the model's `parseLoopZ`** on every pattern, input, start index and field map
    (so also on a reused object), and the function consists of the reader/size/clock initialisers, that loop,
    the seven fill statements, `time.Date`, the division to milliseconds and the return — nothing else -/
theorem gen_parse_loop (sz : Nat) (pat : List Char) (i : Nat) (inp : List Char) (p : PStateZ) :
    Gen.C19.parseFrame = ["reader", "sz", "now", "loop", "fill", "fill", "fill", "fill", "fill", "fill", "fill",
      "date", "millis", "return-millis"] ∧ Gen.C19.parseRangeOver = "recv.formatStr" ∧
    evalParseLoop Gen.C19.parseBody sz pat i inp p = some (parseLoopZ sz pat i inp p) :=
  ⟨by decide, by decide, evalParseLoop_eq _ sz (gen_parse_body sz) pat i inp p⟩

/-- the seven `if _, ok := this.date[K]; !ok { this.date[K] = now.X() }` statements, run in source order, are
    the model's `PStateZ.fill` — for every field map and every clock reading -/
theorem gen_parse_fills (p : PStateZ) (now : Fields) : evalFills Gen.C19.parseFills p now = some (p.fill now) := by
  rcases p with ⟨y, m, d, H, M, S, s⟩
  rcases y with _ | y <;> rcases m with _ | m <;> rcases d with _ | d <;> rcases H with _ | H <;>
  rcases M with _ | M <;> rcases S with _ | S <;> rcases s with _ | s <;>
  simp [Gen.C19.parseFills, evalFills, TimeSel.eval, letterWidth, PStateZ.getc, PStateZ.set, PStateZ.fill]

/-- **one `Parse` call, as transcribed, is the model's `parseObj`**: loop, then (unless a field clause returned an
    error) the fills and `time.Date(…)/10⁶` of the filled map (argument order and factors: `gen_date_args`) -/
theorem gen_parse_obj (st : PStateZ) (pat : List Char) (now : Fields) (inp : List Char) :
    ((evalParseLoop Gen.C19.parseBody (utf8Len inp) pat 0 inp st).bind fun r =>
      if r.2 then (evalFills Gen.C19.parseFills r.1 now).map fun q => (q, some (dateToMsZ q.fields))
      else some (r.1, none)) = some (parseObj st pat now inp) := by
  rw [(gen_parse_loop (utf8Len inp) pat 0 inp st).2.2]
  simp only [Option.bind_some, parseObj]
  split
  · simp [gen_parse_fills]
  · rfl

/-- the two exported entries are the unexported `format` applied to the argument (`FormatTime`) and to the
    clock reading `time.Now()` (`Format`) — nothing in between -/
theorem gen_format_entries : Gen.C19.formatEntries =
    [("Format", "recv.format(time.Now())"), ("FormatTime", "recv.format(#0)")] := by decide

/-- the semantics gives no meaning to a body with a statement it does not know: the loop of the quoted-literal
    variant (`if ch == '\'' { quoted = !quoted; continue }; if quoted { … ; continue }; switch ch { … }`) is
    transcribed as `[.other, .other, .switchCh …]`, about which nothing of the above can be proved -/
example (f : Fields) : evalFormatLoop (.other :: .other :: Gen.C19.formatBody) ['y'] f = none := rfl
example : evalParseLoop (.breakIfIdxGeSz :: .other :: Gen.C19.parseBody) 5 ['y'] 0 ['2'] {} = none := rfl
/-- and it is not vacuous on the real body -/
example : evalFormatLoop Gen.C19.formatBody "y-m'd".toList ⟨2024, 2, 29, 7, 10, 5, 123⟩ = some "2024-02'29".toList := by decide

/-- format and Parse use the same seven letters with the model's widths -/
theorem gen_widths : Gen.C19.formatWidths = Gen.C19.parseWidths ∧ Gen.C19.formatWidths.length = 7 ∧
    (Gen.C19.formatWidths.map Prod.fst).Nodup ∧
    ∀ p ∈ Gen.C19.formatWidths, letterWidth (Char.ofNat p.1) = some p.2 := by decide

/-- time.Date receives year, month, day, hour, minute, second, millisecond·10⁶ in this order and
    the result is UnixNano / 10⁶ -/
theorem gen_date_args : Gen.C19.parseDateArgLetters = [121, 109, 100, 72, 77, 83, 115] ∧
    Gen.C19.parseNanosPerMilli = 1000000 ∧ Gen.C19.parseUnixNanoDivisor = 1000000 := by decide

/-! ### the exported helpers are functions of their argument (no hidden state)

  The CodeModel and the theorems of C19 describe each helper as a function of the instant.  That
  is the code only if the exported wrappers of DateUtil.go pass straight through to the
  DateTimeHelper methods and nothing in the package keeps state between calls.  Facts regenerated
  from *every* non-test file of the package: -/

/-- every exported wrapper that takes an instant or a date string is exactly
    `return helper.<method>(arg)` of the method the model names (the `…Now` variants pass `Now()`);
    the clock/delta functions are `other` (their effects are bounded by `gen_writers`) -/
theorem gen_wrappers : Gen.C19.wrappers =
    [("DateTime", "helper.datetime(#0)"), ("GetDateUnit", "helper.getDateUnit(#0)"),
     ("GetDateUnitNow", "helper.getDateUnit(Now())"), ("GetDelta", "other"),
     ("GetFiveMinUnit", "helper.getFiveMinUnit(#0)"), ("GetMinUnit", "helper.getMinUnit(#0)"),
     ("GetYmdTime", "helper.getYmdTime(#0)"), ("HHMM", "helper.hhmm(#0)"), ("HHMMSS", "helper.hhmmss(#0)"),
     ("Now", "other"), ("SetDelta", "other"), ("SetServerTime", "other"), ("SystemNow", "other"),
     ("TimeStamp", "helper.timestamp(#0)"), ("TimeStampNow", "helper.timestamp(Now())"),
     ("WeekDay", "helper.weekday(#0)"), ("YYYYMMDD", "helper.yyyymmdd(#0)"),
     ("YmdNow", "helper.yyyymmdd(Now())"), ("Ymdhms", "helper.ymdhms(#0)")] := by decide

/-- the exported surface of the package is the known one: no exported function, method or type
    through which a helper for another location (or any other object sharing state with the UTC
    helper) could be created.  The harness can only call what exists; a new exported constructor
    shows up here first. -/
theorem gen_exported_api : Gen.C19.exportedApi =
    ["func DateTime", "func GetDateUnit", "func GetDateUnitNow", "func GetDelta", "func GetFiveMinUnit",
     "func GetMinUnit", "func GetYmdTime", "func HHMM", "func HHMMSS", "func IsSyncTime", "func LPadInt",
     "func NewDateFormat", "func Now", "func SetDelta", "func SetServerTime", "func StartSyncTime",
     "func StopSyncTime", "func SystemNow", "func TimeStamp", "func TimeStampNow", "func WeekDay",
     "func YYYYMMDD", "func YmdNow", "func Ymdhms", "method DateFormat.Format", "method DateFormat.FormatTime",
     "method DateFormat.Parse", "method DateFormat.ToInt", "type DateFormat", "type DateTimeHelper",
     "type Day"] := by decide

/-- the package-level variables are the known ones: the helper and its registry, the clock
    delta and sync-time state, the two constant tables — nothing a helper could cache in -/
theorem gen_pkg_vars : Gen.C19.pkgVars =
    ["SyncTimeMillis", "_table", "delta", "helper", "lastSyncTime", "lock", "mdayLen",
     "syncTimeTicker", "wday"] := by decide

/-- no struct of the package has grown a field -/
theorem gen_struct_fields : Gen.C19.structFields =
    [("DateFormat", ["formatStr", "dateStr", "date"]),
     ("DateTimeHelper", ["BASE_TIME", "table", "dateTable", "LAST_DATE"]),
     ("Day", ["yyyy", "mm", "dd", "date", "wday", "time"])] := by decide

/-- the only functions that assign to a package-level variable or to a field of their receiver:
    the delta setters, the sync-time clock, the helper registry, open() filling the tables, and
    Parse's `this.date` (a recorded observation).  No formatting or unit method writes anything. -/
theorem gen_writers : Gen.C19.writers =
    [("DateFormat.Parse", ["recv.date"]), ("DateTimeHelper.open", ["recv.dateTable", "recv.table"]),
     ("SetDelta", ["var:delta"]), ("SetServerTime", ["var:delta"]),
     ("StartSyncTime", ["var:SyncTimeMillis", "var:lastSyncTime"]),
     ("clock", ["var:SyncTimeMillis", "var:lastSyncTime", "var:syncTimeTicker"]),
     ("getDateTimeHelper", ["var:_table"])] := by decide

end C19Gen
