/-
  Property C19 — tie A: the facts that `xlate/c19` transcribes from
  /repo/util/dateutil/{DateTimeHelper,DateFormat}.go on every run (Golib.Gen.C19) are the
  constants the hand-written CodeModel (Golib.Cal.*) is built from.  All obligations are cheap
  evaluations; the heavy per-year table checks depend on the hand-written constants only.
-/
import Golib.Gen.C19
import Golib.Cal.Helper
import Golib.Cal.DateFormat
import Golib.Cal.PadIR

namespace C19Gen
open Cal

/-- the month-length table and the weekday labels of the source are those of the model -/
theorem gen_tables : Gen.C19.mdayLen = mdayLen ∧ Gen.C19.wday = wdayLabels := by decide

theorem gen_millis :
    Gen.C19.MILLIS_PER_SECOND = MILLIS_PER_SECOND ∧ Gen.C19.MILLIS_PER_MINUTE = MILLIS_PER_MINUTE ∧
    Gen.C19.MILLIS_PER_FIVE_MINUTE = MILLIS_PER_FIVE_MINUTE ∧ Gen.C19.MILLIS_PER_HOUR = MILLIS_PER_HOUR ∧
    (Gen.C19.MILLIS_PER_DAY : Int) = MILLIS_PER_DAY ∧ Gen.C19.MILLIS_PER_DAY = MS_DAY := by decide

/-- the body of `isYun` in the source computes the model's leap rule on every argument open()
    passes to it (0..99) -/
theorem gen_isYun : Gen.C19.isYunKnown = true ∧ ∀ y, y < 100 → Gen.C19.isYun y = isYun y := by decide

/-- the base instant is 2000-01-01T00:00:00 UTC, which is day 10957 = BASE_TIME / day -/
theorem gen_base : Gen.C19.baseDateUTC = [2000, 1, 1, 0, 0, 0, 0] ∧ daysFromCivil 2000 1 1 = BASE_DAY ∧
    BASE_TIME = (BASE_DAY : Int) * MILLIS_PER_DAY := by decide

/-- open(): 100 years × 12 months, weekday index starts at 5 and wraps after 6, February is
    month index 1, the date string is "%d%02d%02d" of (year+2000, mm+1, dd+1) -/
theorem gen_open : Gen.C19.openLoopBounds = [100, 12] ∧ Gen.C19.openLiteralInits = [0, 0, 0, 0, 5] ∧
    Gen.C19.openEqTests = [1, 6] ∧ Gen.C19.openDateFormat = ["%d%02d%02d"] ∧
    Gen.C19.openDateOffsets = [2000, 1, 1] := by decide

/-- what each string helper writes, piece by piece (this carries the pad widths: `mk2` for
    hours/minutes/seconds, `mk3` for milliseconds — fails on the code before the repair of D40) -/
theorem gen_pieces :
    Gen.C19.pieces_datetime = ["field:date", "lit: ", "call:mk2", "lit::", "call:mk2", "lit::", "call:mk2"] ∧
    Gen.C19.pieces_timestamp = ["field:date", "lit: ", "call:mk2", "lit::", "call:mk2", "lit::", "call:mk2", "lit:.", "call:mk3"] ∧
    Gen.C19.pieces_logtime = ["call:mk2", "lit::", "call:mk2", "lit::", "call:mk2", "lit:.", "call:mk3"] ∧
    Gen.C19.pieces_ymdhms = ["field:date", "call:mk2", "call:mk2", "call:mk2"] ∧
    Gen.C19.pieces_hhmmss = ["sprintf:%02d%02d%02d"] ∧ Gen.C19.pieces_hhmm = ["sprintf:%02d%02d"] := by decide

/-! ### interpreted obligations: the transcribed bodies, given a semantics (Golib.Cal.PadIR), compute
    the model's functions -/

/-- the body of `mk2` in the source computes the model's `mk2` on every two-digit argument
    (hours, minutes, seconds are < 100), the body of `mk3` the model's `mk3` on every
    millisecond value -/
theorem gen_mk2 : ∀ n, n < 100 → evalPad Gen.C19.mk2 n = some (mk2 n) := by decide

theorem gen_mk3 : ∀ n, n < 1000 → evalPad Gen.C19.mk3 n = some (mk3 n) := by decide +kernel

/-- the Sprintf formats of the source, interpreted, are the model's `Day.date`, `hhmmss`, `hhmm`
    bodies — for all arguments -/
theorem gen_sprintf (a b c : Nat) :
    evalFmt (Gen.C19.fmt_open.map Char.ofNat) [a, b, c] = some (itoa a ++ pad0 2 b ++ pad0 2 c) ∧
    evalFmt (Gen.C19.fmt_hhmmss.map Char.ofNat) [a, b, c] = some (pad0 2 a ++ pad0 2 b ++ pad0 2 c) ∧
    evalFmt (Gen.C19.fmt_hhmm.map Char.ofNat) [a, b] = some (pad0 2 a ++ pad0 2 b) := by
  simp [evalFmt, isDig, Gen.C19.fmt_open, Gen.C19.fmt_hhmmss, Gen.C19.fmt_hhmm]

/-- the piece sequences of the four buffer-writing helpers, run with the transcribed pad
    functions, produce the strings of the model (`datetime`, `timestampWith mk3`, `logtimeWith mk3`,
    `ymdhms` bodies) for every date string and every time of day -/
theorem gen_programs (date : List Char) (hh mm ss sss : Nat) (h1 : hh < 100) (h2 : mm < 100) (h3 : ss < 100)
    (h4 : sss < 1000) :
    evalPieces (evalPad Gen.C19.mk2) (evalPad Gen.C19.mk3) Gen.C19.prog_datetime date [hh, mm, ss] =
      some (date ++ ' ' :: mk2 hh ++ ':' :: mk2 mm ++ ':' :: mk2 ss) ∧
    evalPieces (evalPad Gen.C19.mk2) (evalPad Gen.C19.mk3) Gen.C19.prog_timestamp date [hh, mm, ss, sss] =
      some (date ++ ' ' :: mk2 hh ++ ':' :: mk2 mm ++ ':' :: mk2 ss ++ '.' :: mk3 sss) ∧
    evalPieces (evalPad Gen.C19.mk2) (evalPad Gen.C19.mk3) Gen.C19.prog_logtime date [hh, mm, ss, sss] =
      some (mk2 hh ++ ':' :: mk2 mm ++ ':' :: mk2 ss ++ '.' :: mk3 sss) ∧
    evalPieces (evalPad Gen.C19.mk2) (evalPad Gen.C19.mk3) Gen.C19.prog_ymdhms date [hh, mm, ss] =
      some (date ++ mk2 hh ++ mk2 mm ++ mk2 ss) := by
  have a := gen_mk2 hh h1
  have b := gen_mk2 mm h2
  have c := gen_mk2 ss h3
  have d := gen_mk3 sss h4
  simp [evalPieces, Gen.C19.prog_datetime, Gen.C19.prog_timestamp, Gen.C19.prog_logtime,
    Gen.C19.prog_ymdhms, a, b, c, d]

/-- **whole helper bodies, interpreted**: the `/ %` chain of each string helper as it stands in the
    source (variables by name) followed by its writes, run with the transcribed pad functions and
    formats, yields — for every elapsed time `time - BASE_TIME` and whatever the table holds
    (`dateOf idx`) — exactly the model's string: table entry `elapsed / day`, and the
    `hmsOf (elapsed % day)` fields through mk2/mk3/%02d.  Renaming variables keeps this green;
    dividing by the wrong constant, reading the wrong variable or dropping a `%` step breaks it. -/
theorem gen_bodies (dateOf : Nat → List Char) (el : Nat) :
    let h := hmsOf (el % 86400000)
    evalBody (evalPad Gen.C19.mk2) (evalPad Gen.C19.mk3) dateOf Gen.C19.chain_datetime Gen.C19.outs_datetime el =
      some (dateOf (el / 86400000) ++ ' ' :: mk2 h.hh ++ ':' :: mk2 h.mm ++ ':' :: mk2 h.ss) ∧
    evalBody (evalPad Gen.C19.mk2) (evalPad Gen.C19.mk3) dateOf Gen.C19.chain_timestamp Gen.C19.outs_timestamp el =
      some (dateOf (el / 86400000) ++ ' ' :: mk2 h.hh ++ ':' :: mk2 h.mm ++ ':' :: mk2 h.ss ++ '.' :: mk3 h.sss) ∧
    evalBody (evalPad Gen.C19.mk2) (evalPad Gen.C19.mk3) dateOf Gen.C19.chain_logtime Gen.C19.outs_logtime el =
      some (mk2 h.hh ++ ':' :: mk2 h.mm ++ ':' :: mk2 h.ss ++ '.' :: mk3 h.sss) ∧
    evalBody (evalPad Gen.C19.mk2) (evalPad Gen.C19.mk3) dateOf Gen.C19.chain_ymdhms Gen.C19.outs_ymdhms el =
      some (dateOf (el / 86400000) ++ mk2 h.hh ++ mk2 h.mm ++ mk2 h.ss) ∧
    evalBody (evalPad Gen.C19.mk2) (evalPad Gen.C19.mk3) dateOf Gen.C19.chain_hhmmss Gen.C19.outs_hhmmss el =
      some (pad0 2 h.hh ++ pad0 2 h.mm ++ pad0 2 h.ss) ∧
    evalBody (evalPad Gen.C19.mk2) (evalPad Gen.C19.mk3) dateOf Gen.C19.chain_hhmm Gen.C19.outs_hhmm el =
      some (pad0 2 h.hh ++ pad0 2 h.mm) := by
  intro h
  have a := gen_mk2 (el % 86400000 / 3600000) (by omega)
  have b := gen_mk2 (el % 3600000 / 60000) (by omega)
  have c := gen_mk2 (el % 60000 / 1000) (by omega)
  have d := gen_mk3 (el % 1000) (by omega)
  simp [h, hmsOf, MILLIS_PER_HOUR, MILLIS_PER_MINUTE, MILLIS_PER_SECOND, evalBody, evalAssigns, evalOuts, Env.get,
    evalFmt, isDig,
    Gen.C19.chain_datetime, Gen.C19.outs_datetime, Gen.C19.chain_timestamp, Gen.C19.outs_timestamp,
    Gen.C19.chain_logtime, Gen.C19.outs_logtime, Gen.C19.chain_ymdhms, Gen.C19.outs_ymdhms,
    Gen.C19.chain_hhmmss, Gen.C19.outs_hhmmss, Gen.C19.chain_hhmm, Gen.C19.outs_hhmm, a, b, c, d]

/-- format and Parse use the same seven letters with the model's widths -/
theorem gen_widths : Gen.C19.formatWidths = Gen.C19.parseWidths ∧ Gen.C19.formatWidths.length = 7 ∧
    (Gen.C19.formatWidths.map Prod.fst).Nodup ∧
    ∀ p ∈ Gen.C19.formatWidths, letterWidth (Char.ofNat p.1) = some p.2 := by decide

/-- time.Date receives year, month, day, hour, minute, second, millisecond·10⁶ in this order and
    the result is UnixNano / 10⁶ -/
theorem gen_date_args : Gen.C19.parseDateArgLetters = [121, 109, 100, 72, 77, 83, 115] ∧
    Gen.C19.parseNanosPerMilli = 1000000 ∧ Gen.C19.parseUnixNanoDivisor = 1000000 := by decide

/-! ### the exported helpers are functions of their argument (no hidden state)

  The CodeModel and the theorems of C19 describe each helper as a function of the instant.  That
  is the code only if the exported wrappers of DateUtil.go pass straight through to the
  DateTimeHelper methods and nothing in the package keeps state between calls.  Facts regenerated
  from *every* non-test file of the package: -/

/-- every exported wrapper that takes an instant or a date string is exactly
    `return helper.<method>(arg)` of the method the model names (the `…Now` variants pass `Now()`);
    the clock/delta functions are `other` (their effects are bounded by `gen_writers`) -/
theorem gen_wrappers : Gen.C19.wrappers =
    [("DateTime", "helper.datetime(#0)"), ("GetDateUnit", "helper.getDateUnit(#0)"),
     ("GetDateUnitNow", "helper.getDateUnit(Now())"), ("GetDelta", "other"),
     ("GetFiveMinUnit", "helper.getFiveMinUnit(#0)"), ("GetMinUnit", "helper.getMinUnit(#0)"),
     ("GetYmdTime", "helper.getYmdTime(#0)"), ("HHMM", "helper.hhmm(#0)"), ("HHMMSS", "helper.hhmmss(#0)"),
     ("Now", "other"), ("SetDelta", "other"), ("SetServerTime", "other"), ("SystemNow", "other"),
     ("TimeStamp", "helper.timestamp(#0)"), ("TimeStampNow", "helper.timestamp(Now())"),
     ("WeekDay", "helper.weekday(#0)"), ("YYYYMMDD", "helper.yyyymmdd(#0)"),
     ("YmdNow", "helper.yyyymmdd(Now())"), ("Ymdhms", "helper.ymdhms(#0)")] := by decide

/-- the exported surface of the package is the known one: no exported function, method or type
    through which a helper for another location (or any other object sharing state with the UTC
    helper) could be created.  The harness can only call what exists; a new exported constructor
    shows up here first. -/
theorem gen_exported_api : Gen.C19.exportedApi =
    ["func DateTime", "func GetDateUnit", "func GetDateUnitNow", "func GetDelta", "func GetFiveMinUnit",
     "func GetMinUnit", "func GetYmdTime", "func HHMM", "func HHMMSS", "func IsSyncTime", "func LPadInt",
     "func NewDateFormat", "func Now", "func SetDelta", "func SetServerTime", "func StartSyncTime",
     "func StopSyncTime", "func SystemNow", "func TimeStamp", "func TimeStampNow", "func WeekDay",
     "func YYYYMMDD", "func YmdNow", "func Ymdhms", "method DateFormat.Format", "method DateFormat.FormatTime",
     "method DateFormat.Parse", "method DateFormat.ToInt", "type DateFormat", "type DateTimeHelper",
     "type Day"] := by decide

/-- the package-level variables are the known ones: the helper and its registry, the clock
    delta and sync-time state, the two constant tables — nothing a helper could cache in -/
theorem gen_pkg_vars : Gen.C19.pkgVars =
    ["SyncTimeMillis", "_table", "delta", "helper", "lastSyncTime", "lock", "mdayLen",
     "syncTimeTicker", "wday"] := by decide

/-- no struct of the package has grown a field -/
theorem gen_struct_fields : Gen.C19.structFields =
    [("DateFormat", ["formatStr", "dateStr", "date"]),
     ("DateTimeHelper", ["BASE_TIME", "table", "dateTable", "LAST_DATE"]),
     ("Day", ["yyyy", "mm", "dd", "date", "wday", "time"])] := by decide

/-- the only functions that assign to a package-level variable or to a field of their receiver:
    the delta setters, the sync-time clock, the helper registry, open() filling the tables, and
    Parse's `this.date` (a recorded observation).  No formatting or unit method writes anything. -/
theorem gen_writers : Gen.C19.writers =
    [("DateFormat.Parse", ["recv.date"]), ("DateTimeHelper.open", ["recv.dateTable", "recv.table"]),
     ("SetDelta", ["var:delta"]), ("SetServerTime", ["var:delta"]),
     ("StartSyncTime", ["var:SyncTimeMillis", "var:lastSyncTime"]),
     ("clock", ["var:SyncTimeMillis", "var:lastSyncTime", "var:syncTimeTicker"]),
     ("getDateTimeHelper", ["var:_table"])] := by decide

end C19Gen
