/-
  Property C07 — UDP tracer packs: writer and reader agree for every type and protocol version;
  the pool leaves no residue; Process() leaves no password.

  Statements only; the proofs are references to Golib.Udp.{Layout,NumText,Packs,Pool,Mask}.
  The CodeModel (`Udp.<Type>.layout`, `Udp.<Type> : PackT`, `Udp.maskDbc`, …) is tied to
  /repo/lang/pack/udp, util/paramtext and util/stringutil
    * by the regenerated transcription of every Write / Read / Clear / constructor / pool switch
      (Golib/Gen/UdpLayouts.lean, obligations in Golib/Props/C07Gen.lean), and
    * by the correspondence harness harness/c07 (driver drv_c07).

  The model describes the repaired code for D19, D20, D51, D52 (proposed/C07/fix-*.diff); the
  `finding_*` theorems pin the behaviour of the unchanged code on concrete inputs.  Two quirks are
  kept as known findings: UdpTxMessagePack caps Hash/Desc, UdpRelayPack's length is not on the wire.
-/
import Golib.Udp.Pool
import Golib.Udp.Mask
import Golib.Udp.WFB
import Golib.Udp.Gates
import Golib.Udp.ProcessThm
import Golib.Udp.Route
import Golib.Udp.Restore

namespace C07
open Udp Udp.Layout Prim

/-! ### writer and reader agree, for every version

`ver : Int` is universally quantified: every gate (10101 … 10110, 20102, 20104, 30102, 30103,
50100, 50101 and the family thresholds) is covered at once.  `x` is the pack written, `st` the
receiving pack (from the pool), `r` whatever follows on the wire.  `post` is the receiving pack
with every carried field overwritten by what the wire carried; the reader consumes exactly the
writer's bytes. -/

/-- the generic statement, for every pack type of the model -/
theorem udp_roundtrip (t : PackT) (ver : Int) (x st : Rec) (r : Bytes) (h : WF t.layout ver x st) :
    P.run (read t.layout ver st) (write t.layout ver x ++ r) = some (post t.layout ver x st, r) :=
  roundtrip t.layout ver x st r h

theorem udp_roundtrip_UdpTxStartPack (ver : Int) (x st : Rec) (r : Bytes) (h : WF UdpTxStartPack.layout ver x st) :
    P.run (read UdpTxStartPack.layout ver st) (write UdpTxStartPack.layout ver x ++ r) =
      some (post UdpTxStartPack.layout ver x st, r) := roundtrip _ ver x st r h
theorem udp_roundtrip_UdpTxEndPack (ver : Int) (x st : Rec) (r : Bytes) (h : WF UdpTxEndPack.layout ver x st) :
    P.run (read UdpTxEndPack.layout ver st) (write UdpTxEndPack.layout ver x ++ r) =
      some (post UdpTxEndPack.layout ver x st, r) := roundtrip _ ver x st r h
theorem udp_roundtrip_UdpTxStartEndPack (ver : Int) (x st : Rec) (r : Bytes) (h : WF UdpTxStartEndPack.layout ver x st) :
    P.run (read UdpTxStartEndPack.layout ver st) (write UdpTxStartEndPack.layout ver x ++ r) =
      some (post UdpTxStartEndPack.layout ver x st, r) := roundtrip _ ver x st r h
theorem udp_roundtrip_UdpTxSqlPack (ver : Int) (x st : Rec) (r : Bytes) (h : WF UdpTxSqlPack.layout ver x st) :
    P.run (read UdpTxSqlPack.layout ver st) (write UdpTxSqlPack.layout ver x ++ r) =
      some (post UdpTxSqlPack.layout ver x st, r) := roundtrip _ ver x st r h
theorem udp_roundtrip_UdpTxSqlParamPack (ver : Int) (x st : Rec) (r : Bytes) (h : WF UdpTxSqlParamPack.layout ver x st) :
    P.run (read UdpTxSqlParamPack.layout ver st) (write UdpTxSqlParamPack.layout ver x ++ r) =
      some (post UdpTxSqlParamPack.layout ver x st, r) := roundtrip _ ver x st r h
theorem udp_roundtrip_UdpTxDbcPack (ver : Int) (x st : Rec) (r : Bytes) (h : WF UdpTxDbcPack.layout ver x st) :
    P.run (read UdpTxDbcPack.layout ver st) (write UdpTxDbcPack.layout ver x ++ r) =
      some (post UdpTxDbcPack.layout ver x st, r) := roundtrip _ ver x st r h
theorem udp_roundtrip_UdpTxHttpcPack (ver : Int) (x st : Rec) (r : Bytes) (h : WF UdpTxHttpcPack.layout ver x st) :
    P.run (read UdpTxHttpcPack.layout ver st) (write UdpTxHttpcPack.layout ver x ++ r) =
      some (post UdpTxHttpcPack.layout ver x st, r) := roundtrip _ ver x st r h
theorem udp_roundtrip_UdpTxErrorPack (ver : Int) (x st : Rec) (r : Bytes) (h : WF UdpTxErrorPack.layout ver x st) :
    P.run (read UdpTxErrorPack.layout ver st) (write UdpTxErrorPack.layout ver x ++ r) =
      some (post UdpTxErrorPack.layout ver x st, r) := roundtrip _ ver x st r h
/-- UdpTxMessagePack: `post` cuts Hash at 2048 and Desc at 32768 bytes (known finding
    `UdpTxMessagePack:cap`: these are not transaction-start caps; see `caps_documented_partial`) -/
theorem udp_roundtrip_UdpTxMessagePack_partial (ver : Int) (x st : Rec) (r : Bytes) (h : WF UdpTxMessagePack.layout ver x st) :
    P.run (read UdpTxMessagePack.layout ver st) (write UdpTxMessagePack.layout ver x ++ r) =
      some (post UdpTxMessagePack.layout ver x st, r) := roundtrip _ ver x st r h
theorem udp_roundtrip_UdpTxSecureMessagePack (ver : Int) (x st : Rec) (r : Bytes) (h : WF UdpTxSecureMessagePack.layout ver x st) :
    P.run (read UdpTxSecureMessagePack.layout ver st) (write UdpTxSecureMessagePack.layout ver x ++ r) =
      some (post UdpTxSecureMessagePack.layout ver x st, r) := roundtrip _ ver x st r h
theorem udp_roundtrip_UdpTxMethodPack (ver : Int) (x st : Rec) (r : Bytes) (h : WF UdpTxMethodPack.layout ver x st) :
    P.run (read UdpTxMethodPack.layout ver st) (write UdpTxMethodPack.layout ver x ++ r) =
      some (post UdpTxMethodPack.layout ver x st, r) := roundtrip _ ver x st r h
theorem udp_roundtrip_UdpTxResultSetPack (ver : Int) (x st : Rec) (r : Bytes) (h : WF UdpTxResultSetPack.layout ver x st) :
    P.run (read UdpTxResultSetPack.layout ver st) (write UdpTxResultSetPack.layout ver x ++ r) =
      some (post UdpTxResultSetPack.layout ver x st, r) := roundtrip _ ver x st r h
theorem udp_roundtrip_UdpTxParamPack (ver : Int) (x st : Rec) (r : Bytes) (h : WF UdpTxParamPack.layout ver x st) :
    P.run (read UdpTxParamPack.layout ver st) (write UdpTxParamPack.layout ver x ++ r) =
      some (post UdpTxParamPack.layout ver x st, r) := roundtrip _ ver x st r h
theorem udp_roundtrip_UdpActiveStackPack1 (ver : Int) (x st : Rec) (r : Bytes) (h : WF UdpActiveStackPack1.layout ver x st) :
    P.run (read UdpActiveStackPack1.layout ver st) (write UdpActiveStackPack1.layout ver x ++ r) =
      some (post UdpActiveStackPack1.layout ver x st, r) := roundtrip _ ver x st r h
theorem udp_roundtrip_UdpActiveStackPack (ver : Int) (x st : Rec) (r : Bytes) (h : WF UdpActiveStackPack.layout ver x st) :
    P.run (read UdpActiveStackPack.layout ver st) (write UdpActiveStackPack.layout ver x ++ r) =
      some (post UdpActiveStackPack.layout ver x st, r) := roundtrip _ ver x st r h
/-- UdpActiveStatsPack: the wire field is Data, which the writer first sets to the comma-joined
    ActiveStats; `post` holds that text in Data -/
theorem udp_roundtrip_UdpActiveStatsPack (ver : Int) (x st : Rec) (r : Bytes) (h : WF UdpActiveStatsPack.layout ver x st) :
    P.run (read UdpActiveStatsPack.layout ver st) (write UdpActiveStatsPack.layout ver x ++ r) =
      some (post UdpActiveStatsPack.layout ver x st, r) := roundtrip _ ver x st r h
theorem udp_roundtrip_UdpDBConPoolPack (ver : Int) (x st : Rec) (r : Bytes) (h : WF UdpDBConPoolPack.layout ver x st) :
    P.run (read UdpDBConPoolPack.layout ver st) (write UdpDBConPoolPack.layout ver x ++ r) =
      some (post UdpDBConPoolPack.layout ver x st, r) := roundtrip _ ver x st r h
theorem udp_roundtrip_UdpConfigPack (ver : Int) (x st : Rec) (r : Bytes) (h : WF UdpConfigPack.layout ver x st) :
    P.run (read UdpConfigPack.layout ver st) (write UdpConfigPack.layout ver x ++ r) =
      some (post UdpConfigPack.layout ver x st, r) := roundtrip _ ver x st r h

/-- UdpRelayPack — full statement: *reading what was written restores Data*.  The payload length is
    not on the wire: the reader takes `st "Len"` bytes.  Proved under the visible hypothesis (inside
    `WF`) that the receiver's `Len` equals the payload length; `ToPack` has no way to establish it
    (known finding `UdpRelayPack:Data:ToPack`, witness `finding_relay_len`). -/
theorem udp_roundtrip_UdpRelayPack_partial (ver : Int) (x st : Rec) (r : Bytes)
    (h : (∃ b, x "Data" = .str b ∧ st "Len" = .int b.length)) :
    P.run (read UdpRelayPack.layout ver st) (write UdpRelayPack.layout ver x ++ r) =
      some (st.set "Data" (.str (x "Data").asStr), r) :=
  roundtrip UdpRelayPack.layout ver x st r ⟨h, trivial⟩

/-- witness: a pack from the pool has Len = 0; a 3-byte payload is not restored and not consumed -/
theorem finding_relay_len :
    let x : Rec := Rec.ofList [("Data", .str [1, 2, 3])] (fun _ => .null)
    let st : Rec := UdpRelayPack.clearedRec
    (P.run (read UdpRelayPack.layout 50100 st) (write UdpRelayPack.layout 50100 x)).map
        (fun (q, rest) => (q "Data", rest)) = some (.str [], [1, 2, 3]) := by decide

/-- finitely many versions represent all: for every version there is one among `0` and
    `g-1, g, g+1` (g a version constant of the type's layout) at which writer, reader, the pack after
    reading and the carried fields are the same — the versions the correspondence harness runs -/
theorem version_coverage (t : PackT) (v : Int) :
    ∃ r ∈ versionReps t.layout,
      (∀ x, write t.layout v x = write t.layout r x) ∧ (∀ st, read t.layout v st = read t.layout r st) ∧
      (∀ x st, post t.layout v x st = post t.layout r x st) ∧ carried t.layout v = carried t.layout r :=
  Layout.version_coverage t.layout v

/-- a well-formed UdpTxEndPack at the newest Go version, into a cleared pack -/
def exEnd : Rec := Rec.ofList
  [("Txid", .int (-5)), ("Time", .int 1700000000000), ("Elapsed", .int 12), ("Cpu", .int 0), ("Mem", .int 7),
   ("Pid", .int 4242), ("ThreadId", .int 9), ("Host", .str [104]), ("Uri", .str [47, 97]), ("Mtid", .int (-9000000000)),
   ("Mdepth", .int 3), ("McallerTxid", .int 0), ("McallerPcode", .int 12345), ("McallerSpec", .str []),
   ("McallerUrl", .str [49]), ("McallerPoidKey", .str []), ("Status", .int 404), ("McallerStepId", .int (-1)),
   ("XTraceId", .str [120])] (fun _ => .null)

/-- every carried field's last assignment is a transfer, at the representative versions of every type -/
theorem reps_carried : ∀ t ∈ allPacks, ∀ r ∈ versionReps t.layout, carriedAreTransfers t.layout r = true := by decide

theorem no_setJoin : ∀ t ∈ allPacks, t.name = "UdpActiveStatsPack" ∨ noSetJoin t.layout = true := by decide

/-- **every carried field is restored** — the clause itself, field by field: for every pack type (other than
    UdpActiveStatsPack, whose wire field is the joined text: `process_active_stats`), every version, every
    well-formed pack `x` and every receiving pack, each field the wire carries at that version holds after the
    read exactly `carry c (x f)`: the written value, or its first `cap` bytes where the writer caps it
    (`caps_documented_partial` lists the caps); the relay payload holds the written bytes -/
theorem udp_restores (t : PackT) (ht : t ∈ allPacks) (hn : t.name ≠ "UdpActiveStatsPack") (ver : Int) (x st : Rec)
    (h : WF t.layout ver x st) :
    ∀ f ∈ carried t.layout ver,
      (∃ p c, lastOf t.layout ver f = some (.xfer p c) ∧ post t.layout ver x st f = carry c (x f)) ∨
      (lastOf t.layout ver f = some .raw ∧ post t.layout ver x st f = .str (x f).asStr) := by
  intro f hf
  have hj : noSetJoin t.layout = true := by
    rcases no_setJoin t ht with h' | h'
    · exact absurd h' hn
    · exact h'
  have hall := carriedAreTransfers_all t.layout (reps_carried t ht) ver
  unfold carriedAreTransfers at hall
  rw [List.all_eq_true] at hall
  have hfl := hall f hf
  have hp := post_lastOf t.layout hj ver x st f
  cases hl : lastOf t.layout ver f with
  | none => rw [hl] at hfl; cases hfl
  | some a =>
    cases a with
    | xfer p c =>
      left
      refine ⟨p, c, rfl, ?_⟩
      rw [hp, hl]
      exact carry_spec p c (x f) (WF_lastOf t.layout hj ver x st f p c h hl)
    | const v => rw [hl] at hfl; cases hfl
    | raw => right; exact ⟨rfl, by rw [hp, hl]; rfl⟩

/-- non-vacuity: the example pack, field by field -/
example : ∀ f ∈ carried UdpTxEndPack.layout 50101,
    post UdpTxEndPack.layout 50101 exEnd UdpTxEndPack.clearedRec f = exEnd f := by decide

/-- a strict prefix of what any writer produced is never accepted by its reader -/
theorem udp_prefix_fails (t : PackT) (ver : Int) (x st : Rec) (q s : Bytes) (h : WF t.layout ver x st)
    (hs : s ≠ []) (hq : q ++ s = write t.layout ver x) : P.run (read t.layout ver st) q = none :=
  prefix_fails t.layout ver x st q s h hs hq

/-- a field the reader does not assign at that version keeps the receiving pack's value -/
theorem udp_untouched (t : PackT) (ver : Int) (x st : Rec) (f : String) (h : f ∉ assigned t.layout ver) :
    post t.layout ver x st f = st f := post_unassigned t.layout ver x st f h

/-- every transfer carries the field itself, its documented cap, or the re-parsed number -/
theorem transfer_carries (p : Fmt) (c : Conv) (v : Val) (h : wfFld p c v) :
    convR c (convW c v) = carry c v := carry_spec p c v h

/-! ### numbers as text -/

/-- ParseInt32 / ParseInt64 of ParseStringZeroToEmpty: lossless within the field's width -/
theorem numtext_roundtrip (w : Nat) (v : Int) (h : inRange w v) : parseIntW w (zeroToEmpty v) = v :=
  Udp.numtext_roundtrip w v h

/-- every number-as-text transfer of the model uses the parser of the field's own width
    (int32 ↦ ParseInt32, int64 ↦ ParseInt64): (type, field, bytes) -/
theorem numtext_widths :
    ∀ t ∈ allPacks, ∀ fw ∈ t.layout.numTexts,
      (t.fields.lookup fw.1 = some "int32" ∧ fw.2 = 4) ∨ (t.fields.lookup fw.1 = some "int64" ∧ fw.2 = 8) := by
  decide

/-- D19, the unchanged writer: `string(this.Fetch)` is the UTF-8 form of the code point, so at
    Python ≥ 20102 a Fetch of 5 is written as the byte 5 and read back as 0 -/
theorem finding_D19 :
    let x : Rec := Rec.ofList [("Fetch", .int 5), ("Dbc", .str []), ("Sql", .str []), ("Txid", .int 0),
      ("Time", .int 0), ("Elapsed", .int 0), ("Cpu", .int 0), ("Mem", .int 0), ("Pid", .int 0),
      ("ThreadId", .int 0)] (fun _ => .null)
    (P.run (read UdpTxSqlPack.layout 20102 UdpTxSqlPack.clearedRec) (write UdpTxSqlPack.layoutD19 20102 x)).map
        (fun (q, rest) => (q "Fetch", rest)) = some (.int 0, []) := by decide

/-! ### caps -/

/-- full statement: *the only caps are the documented transaction-start caps*
    (`modelCaps = documentedCaps`).  The code also caps UdpTxMessagePack.Hash / Desc; proved with
    those two listed (known finding `UdpTxMessagePack:cap`). -/
theorem caps_documented_partial : modelCaps = documentedCaps ++ extraCaps := by decide

theorem finding_msg_cap : ¬ (∀ c ∈ modelCaps, c ∈ documentedCaps) := by decide

/-- a capped field is carried as its first `cap` bytes, any other text field unchanged -/
theorem cap_carries (n : Nat) (b : Bytes) : carry (.trunc n) (.str b) = .str (b.take n) := rfl

/-! ### Clear() and the pool -/

/-- every struct field (embedded header included) is assigned by Clear(), for every pack type -/
theorem clear_total : ∀ t ∈ allPacks, t.clearTotal = true := by decide

theorem clear_total_UdpRelayPack : UdpRelayPack.clearTotal = true := by decide
theorem clear_total_UdpConfigPack : UdpConfigPack.clearTotal = true := by decide

/-- D20, the unchanged Clear() of UdpRelayPack / UdpConfigPack: Data / MapData are not assigned -/
theorem finding_D20 :
    ({ UdpRelayPack with clear := hdrClear false ++ [Z "RelayType", Z "Len"] } : PackT).clearTotal = false ∧
    ({ UdpConfigPack with clear := hdrClear false ++ [S "Data"] } : PackT).clearTotal = false := by decide

/-- after Clear() every field is a constant of its type, whatever the pack held before -/
theorem clear_const (t : PackT) (ht : t ∈ allPacks) (p : Rec) (f : String) (hf : f ∈ t.fieldNames) :
    t.clearOp p f = t.clearedRec f := t.clear_const (clear_total t ht) p f hf

/-- for every history of CreatePack / ClosePack (and drops by the runtime) over a pool, with
    arbitrary packs being released, every pack handed out by CreatePack is — on every struct field —
    either the Clear() constants or the constructor constants with `Ver` set: nothing depends on a
    previous use -/
theorem pool_no_residue (t : PackT) (ht : t ∈ allPacks) (evs : List PoolEv) :
    ∀ vq ∈ (runPool t evs []).2,
      (∀ f ∈ t.fieldNames, vq.2 f = (t.clearedRec.set "Ver" (.int vq.1)) f) ∨
      (∀ f ∈ t.fieldNames, vq.2 f = (t.freshRec.set "Ver" (.int vq.1)) f) :=
  runPool_spec t (clear_total t ht) evs [] (by intro o ho; cases ho)

/-- the type ↔ pool tables of the model are a bijection: distinct types, distinct codes, distinct pools -/
theorem pool_tables_model :
    (allPacks.map (·.name)).Nodup ∧ (allPacks.map (·.code)).Nodup ∧ (allPacks.map (·.pool)).Nodup := by
  decide

/-! ### masking -/

/-- Exactly which strings are covered: `renderFlat t rest` = tokens `key=value` joined by blanks (32)
    or semicolons (59) in any mixture, where every key and every value (`PlainTok`)
      * contains no blank, no `;`, no `=`, and
      * neither begins nor ends with a white-space character in the sense of `strings.TrimSpace`
        (U+0009–000D, U+0020, U+0085, U+00A0, U+1680, U+2000–200A, U+2028, U+2029, U+202F, U+205F, U+3000);
    everything else is allowed: arbitrary UTF-8, invalid bytes, white space other than the blank in
    the middle, empty keys, empty values, any number of tokens, repeated keys.
    For every such string and every version of a family whose Process() masks (Go `> 50000`,
    PHP `≤ 20000`), no token of the result has the key `password` with a value other than `#`.
    (Without the two conditions the statement is false: `"foo password =secret"` ↦ `"foo password=secret"`.) -/
theorem mask_password (ver : Int) (t : Tok) (rest : List (Nat × Tok)) (ht : PlainTok t)
    (hrest : ∀ cu ∈ rest, (cu.1 = 32 ∨ cu.1 = 59) ∧ PlainTok cu.2) (hv : masksAt ver = true) :
    leakFree (processDbc ver (renderFlat t rest)) := Udp.mask_password ver t rest ht hrest hv

/-- the families: every Go version 501xx and every PHP version 101xx masks -/
theorem mask_families (ver : Int) (h : (50100 ≤ ver ∧ ver ≤ 50199) ∨ (10100 ≤ ver ∧ ver ≤ 10199)) :
    masksAt ver = true := by
  unfold masksAt
  simp only [Bool.or_eq_true, decide_eq_true_eq]
  omega

/-! ### Process(): the derived fields of every pack type

`PackT.process` (Golib.Udp.Process) models `Process()` of all 19 types as a list of derivations
(targets, fields read, family gate, function); `none` = the call panics.  It is compared with the
implementation field by field (driver op `Q`, harness stage `proc`). -/

/-- Process() changes nothing but its derived fields (the wire fields other than Dbc / Sql stay) -/
theorem process_only_targets (t : PackT) (ver : Int) (st st' : Rec) (f : String)
    (h : t.process ver st = some st') (hf : f ∉ processTargets t) : st' f = st f :=
  Udp.process_only_targets t ver st st' f h hf

/-- Process() of every pack type other than UdpActiveStackPack never panics, at any version, on any pack -/
theorem process_total (t : PackT) (ht : t ∈ allPacks) (hn : t.name ≠ "UdpActiveStackPack") (ver : Int) (st : Rec) :
    (t.process ver st).isSome = true := Udp.process_total t ht hn ver st

/-- UdpActiveStackPack.Process() panics exactly when Data has fewer than three ", "-separated parts
    (totality of decoders is C04's subject; recorded here because it bounds what ToPack can be fed) -/
theorem process_activeStack_panics (ver : Int) (st : Rec) :
    (UdpActiveStackPack.process ver st).isSome = decide (3 ≤ (splitCommaSp (st "Data").asStr).length) :=
  Udp.process_activeStack_panics ver st

/-- Dbc after Process() of an SQL / SQL-param / DB-connection pack is `processDbc ver Dbc`, for every version -/
theorem process_dbc (t : PackT) (ht : t = UdpTxSqlPack ∨ t = UdpTxSqlParamPack ∨ t = UdpTxDbcPack)
    (ver : Int) (st : Rec) (hd : ∃ b, st "Dbc" = .str b) :
    ∃ st', t.process ver st = some st' ∧ st' "Dbc" = .str (processDbc ver (st "Dbc").asStr) :=
  Udp.process_dbc t ht ver st hd

/-- **Process() never leaves a password value**: for the three pack types that carry a connection
    string, every version of a masking family (Go, PHP) and every connection string of the grammar,
    the pack after Process() has no token `password=<value other than #>` in Dbc -/
theorem process_no_password (t : PackT) (ht : t = UdpTxSqlPack ∨ t = UdpTxSqlParamPack ∨ t = UdpTxDbcPack)
    (ver : Int) (st : Rec) (tok : Tok) (rest : List (Nat × Tok)) (htok : PlainTok tok)
    (hrest : ∀ cu ∈ rest, (cu.1 = 32 ∨ cu.1 = 59) ∧ PlainTok cu.2) (hv : masksAt ver = true)
    (hd : st "Dbc" = .str (renderFlat tok rest)) :
    ∃ st', t.process ver st = some st' ∧ ∃ b, st' "Dbc" = .str b ∧ leakFree b :=
  Udp.process_no_password t ht ver st tok rest htok hrest hv hd

/-- the caller's URL hash (sent as decimal text in McallerUrl) is restored by Process() wherever the
    code parses it: Go, .NET ≥ 30102, Python, PHP ≥ 10102 -/
theorem process_caller_hash (ver : Int) (st : Rec) (v : Int) (hv : inRange 4 v) (ha : endHashActive ver = true)
    (hu : st "McallerUrl" = .str (showInt v)) :
    ∃ st', UdpTxEndPack.process ver st = some st' ∧ st' "McallerUrlHash" = .int v :=
  Udp.process_caller_hash ver st v hv ha hu

/-- five int16 activity counters come back from Process() of UdpActiveStatsPack (with
    `udp_roundtrip_UdpActiveStatsPack`: Write ↦ Read ↦ Process restores ActiveStats) -/
theorem process_active_stats (ver : Int) (st : Rec) (xs : List Int) (hl : xs.length = 5)
    (hx : ∀ x ∈ xs, inRange 2 x) (hd : st "Data" = .str (joinInts 44 xs)) :
    ∃ st', UdpActiveStatsPack.process ver st = some st' ∧ st' "ActiveStats" = .ints xs :=
  Udp.process_active_stats ver st xs hl hx hd

/-- Process() of every type reads struct fields only -/
theorem process_reads_fields : ∀ t ∈ allPacks, readsInFields t = true := by decide

/-- **no residue through Process()** (the harness stage `pool2`): in any CreatePack / ClosePack
    history with arbitrary released packs (filled, decoded into, processed any number of times), a
    handed-out pack that is then used — decode a writer's bytes or assign fields, then Process() —
    ends, on every struct field (derived fields included), exactly as a never-used pack (Clear()
    constants or constructor constants) put to the same use; both panic or neither -/
theorem pool_process_no_residue (t : PackT) (ht : t ∈ allPacks) (evs : List PoolEv) (u : Use) :
    ∀ vq ∈ (runPool t evs []).2,
      (match u.run t vq.1 vq.2, u.run t vq.1 (t.clearedRec.set "Ver" (.int vq.1)) with
        | none, none => True
        | some a, some b => ∀ f ∈ t.fieldNames, a f = b f
        | _, _ => False) ∨
      (match u.run t vq.1 vq.2, u.run t vq.1 (t.freshRec.set "Ver" (.int vq.1)) with
        | none, none => True
        | some a, some b => ∀ f ∈ t.fieldNames, a f = b f
        | _, _ => False) :=
  Udp.pool_process_no_residue t (clear_total t ht) (process_reads_fields t ht) evs u

/-! ### pools of several types at once (the harness stage `route`) -/

theorem model_routing_inj :
    ∀ t ∈ allPacks, ∀ u ∈ allPacks, modelRouting.createPool t.name = modelRouting.createPool u.name → t.name = u.name := by
  decide

/-- **pool routing**: for any routing of types to pools in which ClosePack and CreatePack name the same
    pool for every type and no two types share a pool (the regenerated switch tables satisfy this:
    `C07Gen.gen_routing_same`, `gen_routing_inj`), every history of CreatePack / ClosePack / drops over
    all pools — any interleaving of types, arbitrary released packs — runs without a type-assertion
    panic, and every pack handed out for type B is a never-used B on all of B's struct fields -/
theorem route_clean (R : Routing) (types : List PackT) (hn : (types.map (·.name)).Nodup)
    (hsame : ∀ t ∈ types, R.closePool t.name = R.createPool t.name)
    (hinj : ∀ t ∈ types, ∀ u ∈ types, R.createPool t.name = R.createPool u.name → t.name = u.name)
    (hclr : ∀ t ∈ types, t.clearTotal = true) (evs : List MEv) (hev : ∀ e ∈ evs, evTypeIn types e) :
    ∃ outs, runM R evs (fun _ => []) = some outs ∧ ∀ out ∈ outs, out.1 ∈ types ∧ CleanOut out :=
  Udp.route_clean R types hn hsame hinj hclr evs hev

/-- the model's instance: all 19 types, each with its own pool -/
theorem route_clean_model (evs : List MEv) (hev : ∀ e ∈ evs, evTypeIn allPacks e) :
    ∃ outs, runM modelRouting evs (fun _ => []) = some outs ∧ ∀ out ∈ outs, out.1 ∈ allPacks ∧ CleanOut out :=
  Udp.route_clean modelRouting allPacks pool_tables_model.1 (fun _ _ => rfl) model_routing_inj clear_total evs hev

/-- … and whatever the pack is used for next (decode or fill, then Process()) ends as on a never-used pack -/
theorem route_use_clean (out : PackT × Int × Rec) (hc : CleanOut out) (hr : readsInFields out.1 = true) (u : Use) :
    (match u.run out.1 out.2.1 out.2.2, u.run out.1 out.2.1 (out.1.clearedRec.set "Ver" (.int out.2.1)) with
      | none, none => True
      | some a, some b => ∀ f ∈ out.1.fieldNames, a f = b f
      | _, _ => False) ∨
    (match u.run out.1 out.2.1 out.2.2, u.run out.1 out.2.1 (out.1.freshRec.set "Ver" (.int out.2.1)) with
      | none, none => True
      | some a, some b => ∀ f ∈ out.1.fieldNames, a f = b f
      | _, _ => False) := Udp.route_use_clean out hc hr u

/-- the hypothesis is needed: with ACTIVE_STACK filed into the ACTIVE_STACK_1 pool, releasing an
    active-stack pack and then asking for an ACTIVE_STACK_1 pack panics (type assertion) -/
theorem finding_misrouting :
    runM misRouting [.close UdpActiveStackPack (fun _ => .null), .create UdpActiveStackPack1 (some 0) 50100]
      (fun _ => []) = none := by decide

/-- a history over three types: release a message pack and an end pack, create in another order -/
example : (runM modelRouting
    [.close UdpTxMessagePack (Rec.ofList [("Hash", .str [1])] (fun _ => .null)),
     .close UdpTxEndPack (Rec.ofList [("Host", .str [2])] (fun _ => .null)),
     .create UdpTxEndPack (some 0) 50100, .create UdpTxSqlPack (some 0) 10101, .create UdpTxMessagePack (some 0) 7]
    (fun _ => [])).map (fun outs => outs.map fun o => (o.1.name, o.2.2 "Host", o.2.2 "Hash", o.2.2 "Ver")) =
    some [("UdpTxEndPack", .str [], .null, .int 50100), ("UdpTxSqlPack", .null, .null, .int 10101),
          ("UdpTxMessagePack", .null, .str [], .int 7)] := by decide

example : processTargets UdpTxEndPack = ["ServiceURL", "McallerUrlHash"] := by decide
example : processTargets UdpTxErrorPack = [] := by decide
example : endHashActive 30101 = false ∧ endHashActive 30102 = true ∧ endHashActive 40001 = false ∧ endHashActive 10101 = false := by
  decide
/-- an end pack with a numeric caller URL and no host: hash set, ServiceURL untouched -/
example : (UdpTxEndPack.process 50100 (Rec.ofList [("Host", .str []), ("Uri", .str [47]), ("McallerUrl", .str [49, 50])]
    UdpTxEndPack.clearedRec)).map (fun s => (s "McallerUrlHash", s "ServiceURL")) = some (.int 12, .null) := by decide

/-! ### non-vacuity and concrete instances -/

/-- "user=u;password=secret host=h" -/
example : processDbc 50100 (renderFlat ([117, 115, 101, 114], [117])
    [(59, (kwPassword, [115, 101, 99])), (32, ([104], [49]))])
    = [117, 115, 101, 114, 61, 117, 59] ++ kwPassword ++ [61, 35] := by decide

example : PlainTok (kwPassword, [115, 101, 99]) := by unfold PlainTok; decide
/-- `€é` (E2 82 AC C3 A9) is a plain value although it starts with a byte that can begin a white-space character -/
example : Plain [226, 130, 172, 195, 169] := by decide
/-- a value that starts with U+00A0 is not -/
example : ¬ Plain [194, 160, 120] := by decide

example : WF UdpTxEndPack.layout 50101 exEnd UdpTxEndPack.clearedRec :=
  WF_of_wfB _ _ _ _ (by decide)

example : carried UdpTxEndPack.layout 50101 =
    ["Txid", "Time", "Elapsed", "Cpu", "Mem", "Pid", "ThreadId", "Host", "Uri", "Mtid", "Mdepth", "McallerTxid",
     "McallerPcode", "McallerSpec", "McallerUrl", "McallerPoidKey", "Status", "McallerStepId", "XTraceId"] := by decide
example : carried UdpTxEndPack.layout 50100 =
    ["Txid", "Time", "Elapsed", "Cpu", "Mem", "Pid", "ThreadId", "Host", "Uri", "Mtid", "Mdepth", "McallerTxid",
     "McallerPcode", "McallerSpec", "McallerUrl", "McallerPoidKey", "Status"] := by decide
example : carried UdpTxEndPack.layout 10101 = ["Txid", "Time", "Elapsed", "Cpu", "Mem", "Pid"] := by decide
example : carried UdpTxEndPack.layout 40001 = ["Txid", "Time", "Elapsed", "Cpu", "Mem", "Pid", "ThreadId"] := by decide
example : carried UdpTxSqlPack.layout 20102 =
    ["Txid", "Time", "Elapsed", "Cpu", "Mem", "Pid", "ThreadId", "Dbc", "Sql", "Fetch"] := by decide
example : carried UdpTxSqlPack.layout 20101 =
    ["Txid", "Time", "Elapsed", "Cpu", "Mem", "Pid", "ThreadId", "Dbc", "Sql"] := by decide

example : (versionReps UdpTxSqlPack.layout).eraseDups =
    [0, 49999, 50000, 50001, 39999, 40000, 40001, 29999, 30000, 30001, 19999, 20000, 20001, 10100, 10101, 10102,
     10103, 10104, 10105, 10108, 10109, 10110, 20101, 20102, 20103, 10106] := by decide

/-- the round trip of the example restores the written values -/
example : (post UdpTxEndPack.layout 50101 exEnd UdpTxEndPack.clearedRec) "Mtid" = .int (-9000000000) ∧
    (post UdpTxEndPack.layout 50101 exEnd UdpTxEndPack.clearedRec) "Status" = .int 404 ∧
    (post UdpTxEndPack.layout 50101 exEnd UdpTxEndPack.clearedRec) "Index" = .int (-1) := by decide

example : zeroToEmpty (-9000000000) = [45, 57, 48, 48, 48, 48, 48, 48, 48, 48, 48] := by decide
example : parseIntW 4 [50, 49, 52, 55, 52, 56, 51, 54, 52, 56] = 0 := by decide   -- "2147483648" overflows int32

/-- a pool history: release a used relay pack, acquire twice -/
example : ((runPool UdpRelayPack
      [.close (Rec.ofList [("Data", .str [1, 2, 3]), ("Len", .int 3)] (fun _ => .null)),
       .create (some 0) 50100, .create (some 0) 10101] []).2.map fun vq => (vq.2 "Data", vq.2 "Len", vq.2 "Ver"))
    = [(.null, .int 0, .int 50100), (.null, .int 0, .int 10101)] := by decide

end C07
