/-
  Property C07 — obligations over the regenerated facts (tie A).

  `xlate/c07` transcribes lang/pack/udp/*.go into Golib/Gen/UdpLayouts.lean on every run:
  every `Write` and `Read` body separately (layout IR), the struct fields, the assignments of
  every `Clear()` and constructor, `GetPackType`, the `CreatePack` / `ClosePack` switches with
  their pools, every `stringutil.Truncate` of a writer, and the statements of `Process()` of the
  packs that carry a connection string.  Each theorem below compares one of these facts with the
  hand-written CodeModel (Golib.Udp.Packs); a gate edited on one side only, a dropped or reordered
  field, a changed width or conversion, a field not reset by `Clear()`, a pack type without pool,
  a changed masking statement changes the generated data and the `decide` fails.
-/
import Golib.Udp.Packs
import Golib.Udp.ParamKV
import Golib.Udp.Merge
import Golib.Udp.Route
import Golib.Udp.WFB
import Golib.Gen.UdpLayouts

namespace C07Gen
open Udp Udp.Layout Prim

/-! ### Write and Read of every type agree through the model's layout

`agree w r m`: the writer's view of `w` equals the writer's view of `m` and the reader's view of `r`
equals the reader's view of `m` (Golib.Udp.Layout).  With `Layout.agree_roundtrip` this gives, for
the *transcribed* `Read` and `Write`, every version and every well-formed pack:
`read T.r ver st (write T.w ver x ++ rest) = (post m ver x st, rest)`. -/

theorem agree_AbstractPack : agree Gen.AbstractPack.w Gen.AbstractPack.r (hdr .nil) = true := by decide

theorem agree_UdpTxStartPack : agree Gen.UdpTxStartPack.w Gen.UdpTxStartPack.r UdpTxStartPack.layout = true := by decide
theorem agree_UdpTxEndPack : agree Gen.UdpTxEndPack.w Gen.UdpTxEndPack.r UdpTxEndPack.layout = true := by decide
theorem agree_UdpTxStartEndPack : agree Gen.UdpTxStartEndPack.w Gen.UdpTxStartEndPack.r UdpTxStartEndPack.layout = true := by decide
theorem agree_UdpTxSqlPack : agree Gen.UdpTxSqlPack.w Gen.UdpTxSqlPack.r UdpTxSqlPack.layout = true := by decide
theorem agree_UdpTxSqlParamPack : agree Gen.UdpTxSqlParamPack.w Gen.UdpTxSqlParamPack.r UdpTxSqlParamPack.layout = true := by decide
theorem agree_UdpTxDbcPack : agree Gen.UdpTxDbcPack.w Gen.UdpTxDbcPack.r UdpTxDbcPack.layout = true := by decide
theorem agree_UdpTxHttpcPack : agree Gen.UdpTxHttpcPack.w Gen.UdpTxHttpcPack.r UdpTxHttpcPack.layout = true := by decide
theorem agree_UdpTxErrorPack : agree Gen.UdpTxErrorPack.w Gen.UdpTxErrorPack.r UdpTxErrorPack.layout = true := by decide
theorem agree_UdpTxMessagePack : agree Gen.UdpTxMessagePack.w Gen.UdpTxMessagePack.r UdpTxMessagePack.layout = true := by decide
theorem agree_UdpTxSecureMessagePack : agree Gen.UdpTxSecureMessagePack.w Gen.UdpTxSecureMessagePack.r UdpTxSecureMessagePack.layout = true := by decide
theorem agree_UdpTxMethodPack : agree Gen.UdpTxMethodPack.w Gen.UdpTxMethodPack.r UdpTxMethodPack.layout = true := by decide
theorem agree_UdpTxResultSetPack : agree Gen.UdpTxResultSetPack.w Gen.UdpTxResultSetPack.r UdpTxResultSetPack.layout = true := by decide
theorem agree_UdpTxParamPack : agree Gen.UdpTxParamPack.w Gen.UdpTxParamPack.r UdpTxParamPack.layout = true := by decide
theorem agree_UdpActiveStackPack1 : agree Gen.UdpActiveStackPack1.w Gen.UdpActiveStackPack1.r UdpActiveStackPack1.layout = true := by decide
theorem agree_UdpActiveStackPack : agree Gen.UdpActiveStackPack.w Gen.UdpActiveStackPack.r UdpActiveStackPack.layout = true := by decide
theorem agree_UdpActiveStatsPack : agree Gen.UdpActiveStatsPack.w Gen.UdpActiveStatsPack.r UdpActiveStatsPack.layout = true := by decide
theorem agree_UdpDBConPoolPack : agree Gen.UdpDBConPoolPack.w Gen.UdpDBConPoolPack.r UdpDBConPoolPack.layout = true := by decide
theorem agree_UdpConfigPack : agree Gen.UdpConfigPack.w Gen.UdpConfigPack.r UdpConfigPack.layout = true := by decide
theorem agree_UdpRelayPack : agree Gen.UdpRelayPack.w Gen.UdpRelayPack.r UdpRelayPack.layout = true := by decide

/-- nothing is left out: the transcribed pack types are exactly the model's (plus the header) -/
theorem layouts_complete :
    (Gen.layouts.map (·.1)).all (fun n => n == "AbstractPack" || (allPacks.map (·.name)).contains n) = true ∧
    allPacks.all (fun t => (Gen.layouts.map (·.1)).contains t.name) = true ∧
    Gen.layouts.length = allPacks.length + 1 := by
  decide

/-- the round trip of the transcribed code (one instance spelled out; the same one-liner works for
    every type from its `agree_*`) -/
theorem gen_roundtrip_UdpTxEndPack (ver : Int) (x st : Rec) (rest : Bytes)
    (h : WF UdpTxEndPack.layout ver x st) :
    P.run (read Gen.UdpTxEndPack.r ver st) (write Gen.UdpTxEndPack.w ver x ++ rest) =
      some (post UdpTxEndPack.layout ver x st, rest) :=
  agree_roundtrip _ _ _ agree_UdpTxEndPack ver x st rest h

theorem gen_roundtrip (w r m : Layout) (ha : agree w r m = true) (ver : Int) (x st : Rec) (rest : Bytes)
    (h : WF m ver x st) :
    P.run (read r ver st) (write w ver x ++ rest) = some (post m ver x st, rest) :=
  agree_roundtrip w r m ha ver x st rest h

/-! ### struct fields, Clear(), constructors, type codes -/

theorem struct_fields : ∀ t ∈ allPacks, Gen.structFields.lookup t.name = some t.fields := by decide

/-- the value a field holds after a sequence of assignments (the last one wins) -/
def finalOf (as : List (String × Val)) (f : String) : Option Val :=
  (as.reverse.find? (fun a => a.1 == f)).map (·.2)

/-- two assignment sequences have the same effect on the fields `fs` and touch nothing else
    (the order of assignments to different fields does not matter) -/
def sameEffect (fs : List String) (src model : List (String × Val)) : Bool :=
  fs.all (fun f => finalOf src f == finalOf model f) && src.all (fun a => fs.contains a.1)

/-- the assignments of every Clear() have the effect of the model's; with `C07.clear_total` every
    struct field of the source (embedded header included) is reset to the model's constant -/
theorem clear_assigns :
    ∀ t ∈ allPacks, (Gen.clearAssigns.lookup t.name).map (sameEffect t.fieldNames · t.clear) = some true := by
  decide
theorem clear_assigns_UdpRelayPack :
    (Gen.clearAssigns.lookup "UdpRelayPack").map (sameEffect UdpRelayPack.fieldNames · UdpRelayPack.clear) = some true := by
  decide
theorem clear_assigns_UdpConfigPack :
    (Gen.clearAssigns.lookup "UdpConfigPack").map (sameEffect UdpConfigPack.fieldNames · UdpConfigPack.clear) = some true := by
  decide

/-- `clear_total` on the transcribed source directly: every struct field appears among the
    assignments of its type's Clear() -/
theorem clear_total_source :
    Gen.structFields.all (fun tf => tf.1 == "AbstractPack" ||
      match Gen.clearAssigns.lookup tf.1 with
      | some as => tf.2.all (fun f => (as.map (·.1)).contains f.1)
      | none => false) = true := by decide

theorem new_assigns :
    ∀ t ∈ allPacks, (Gen.newAssigns.lookup t.name).map (sameEffect t.fieldNames · t.fresh) = some true := by
  decide

theorem pack_type_codes : ∀ t ∈ allPacks, Gen.packTypeOf.lookup t.name = some t.code := by decide

/-! ### CreatePack / ClosePack: type ↔ pool -/

def createRow (code : Nat) : Option (String × String × Bool × Bool) := Gen.createTable.lookup code
def closeRow (code : Nat) : Option String := Gen.closeTable.lookup code

/-- every pack type has its case in CreatePack (asserting its own type, setting Ver, returning the
    pack) and in ClosePack, both on the same pool, whose New calls the type's constructor -/
theorem pool_tables :
    ∀ t ∈ allPacks,
      createRow t.code = some (t.pool, t.name, true, true) ∧
      closeRow t.code = some t.pool ∧
      Gen.poolNew.lookup t.pool = some ("New" ++ t.name) ∧
      Gen.ctorType.lookup ("New" ++ t.name) = some t.name := by decide

/-- … and there are no other cases; ClosePack clears before it puts -/
theorem pool_tables_exact :
    Gen.createTable.length = allPacks.length ∧ Gen.closeTable.length = allPacks.length ∧
    Gen.poolNew.length = allPacks.length ∧ Gen.closeClearsFirst = true := by decide

theorem nothing_untranslated : Gen.untranslated = [] := by decide

/-! ### caps -/

theorem caps_source :
    (Gen.capsNamed.map fun c => (c.1, c.2.1, c.2.2.2)).all (fun c => modelCaps.contains c) = true ∧
    modelCaps.all (fun c => (Gen.capsNamed.map fun c => (c.1, c.2.1, c.2.2.2)).contains c) = true := by decide

/-- the documented caps use the HTTP_*_MAX_SIZE constants of UdpPack.go -/
theorem caps_constants :
    ((Gen.capsNamed.filter (·.1 == "UdpTxStartPack")).map (·.2.2.1)).all (fun n =>
      ["HTTP_HOST_MAX_SIZE", "HTTP_URI_MAX_SIZE", "HTTP_IP_MAX_SIZE", "HTTP_UA_MAX_SIZE", "HTTP_REF_MAX_SIZE",
       "HTTP_METHOD_MAX_SIZE"].contains n) = true := by decide

/-! ### Process() of the packs that carry a connection string -/

def maskBlock : String :=
  "ifNonEmpty Dbc [p = paramtext.NewParamKVSeperate(F.Dbc, \" \", \"=\"); F.Dbc = p.ToStringStr(\"password\", \"#\"); " ++
  "p = paramtext.NewParamKVSeperate(F.Dbc, \";\", \"=\"); F.Dbc = p.ToStringStr(\"password\", \"#\")]"
def tooLong : String := "ifLenGe len(F.Sql) 32768 [F.Sql = \"[QUERY TOO LONG]\\r\\n\" + F.Sql]"

/-- the five family branches of Process(): Go and the final `else` (PHP) mask, first at blanks then
    at semicolons, the key `password` with `#` — exactly `Udp.maskDbc` under `Udp.masksAt` -/
def procModel (withSql : Bool) : List (String × String) :=
  let blk := if withSql then maskBlock ++ "; " ++ tooLong else maskBlock
  [("(.verGt 50000)", blk), ("(.verGt 40000)", ""), ("(.verGt 30000)", ""), ("(.verGt 20000)", ""), ("else", blk)]

set_option maxRecDepth 100000 in
theorem process_facts :
    Gen.procFacts = [("UdpTxSqlPack", procModel true), ("UdpTxSqlParamPack", procModel true),
                     ("UdpTxDbcPack", procModel false)] := by decide

/-! ### second deepening round: theorems stated on what the source says, no hand-written table in between

`merge` computes the merged layout from the two transcriptions; `genPack` assembles a `PackT` from the
regenerated struct fields, Clear() and constructor assignments, type code, pool and merged layout. -/

/-- every transcribed Write / Read pair fits together (a merged layout exists and passes `agree`) -/
theorem all_agreeM : Gen.layouts.all (fun nwr => agreeM nwr.2.1 nwr.2.2) = true := by decide

/-- **round trip of the transcribed code**: for every pack type of the source there is a layout `m`
    (computed, not hand-written) such that, for every version, every pack well-formed for `m`, every
    receiving pack and every rest, the transcribed `Read` run on the bytes of the transcribed `Write`
    consumes exactly those bytes and leaves `post m ver x st` -/
theorem source_roundtrip :
    ∀ nwr ∈ Gen.layouts, ∃ m, merge nwr.2.1 nwr.2.2 = some m ∧
      ∀ (ver : Int) (x st : Rec) (rest : Bytes), WF m ver x st →
        P.run (read nwr.2.2 ver st) (write nwr.2.1 ver x ++ rest) = some (post m ver x st, rest) := by
  intro nwr h
  have := all_agreeM
  rw [List.all_eq_true] at this
  exact merged_roundtrip _ _ (this nwr h)

/-- non-vacuity of `source_roundtrip`: the layout computed for UdpTxEndPack has well-formed packs -/
example : (merge Gen.UdpTxEndPack.w Gen.UdpTxEndPack.r).map (fun m => wfB m 50101
    (Rec.ofList [("Txid", .int 1), ("Time", .int 2), ("Elapsed", .int 3), ("Cpu", .int 0), ("Mem", .int 0), ("Pid", .int 9),
      ("ThreadId", .int 8), ("Host", .str [104]), ("Uri", .str [47]), ("Mtid", .int (-7)), ("Mdepth", .int 1),
      ("McallerTxid", .int 0), ("McallerPcode", .int 5), ("McallerSpec", .str []), ("McallerUrl", .str [49]),
      ("McallerPoidKey", .str []), ("Status", .int 200), ("McallerStepId", .int 4), ("XTraceId", .str [120])] (fun _ => .null))
    (fun _ => .null)) = some true := by decide

/-- the merged layouts computed from the source are the model's (reader's and writer's views) -/
theorem merged_is_model :
    ∀ t ∈ allPacks, (((Gen.layouts.lookup t.name).bind (fun wr => merge wr.1 wr.2)).map (fun m => (wv m, rv m))) =
      some (wv t.layout, rv t.layout) := by decide

/-- a pack type as the source describes it -/
def genPack (name : String) : Option PackT :=
  match Gen.structFields.lookup name, Gen.clearAssigns.lookup name, Gen.newAssigns.lookup name,
        Gen.packTypeOf.lookup name, Gen.layouts.lookup name with
  | some fields, some clear, some fresh, some code, some (w, r) =>
    match merge w r, Gen.createTable.lookup code with
    | some m, some row => some { name := name, code := code, layout := m, fields := fields, clear := clear,
                                 fresh := fresh, pool := row.1 }
    | _, _ => none
  | _, _, _, _, _ => none

def genPacks : List PackT := (Gen.packTypeOf.map (·.1)).filterMap genPack

theorem genPacks_complete : genPacks.map (·.name) = Gen.packTypeOf.map (·.1) ∧ genPacks.length = allPacks.length := by
  decide

/-- Clear() of the source assigns every struct field of the source, for every type -/
theorem gen_clear_total : ∀ t ∈ genPacks, t.clearTotal = true := by decide

/-- single-pool histories, on the source-derived tables -/
theorem gen_pool_no_residue (t : PackT) (ht : t ∈ genPacks) (evs : List PoolEv) :
    ∀ vq ∈ (runPool t evs []).2,
      (∀ f ∈ t.fieldNames, vq.2 f = (t.clearedRec.set "Ver" (.int vq.1)) f) ∨
      (∀ f ∈ t.fieldNames, vq.2 f = (t.freshRec.set "Ver" (.int vq.1)) f) :=
  runPool_spec t (gen_clear_total t ht) evs [] (by intro o ho; cases ho)

/-- the two switches of UdpPack.go as routing maps: type name ↦ code (GetPackType) ↦ pool -/
def genRouting : Routing where
  closePool := fun n => match Gen.packTypeOf.lookup n with
    | some code => (Gen.closeTable.lookup code).getD ""
    | none => ""
  createPool := fun n => match Gen.packTypeOf.lookup n with
    | some code => ((Gen.createTable.lookup code).map (·.1)).getD ""
    | none => ""

theorem gen_routing_same : ∀ t ∈ genPacks, genRouting.closePool t.name = genRouting.createPool t.name := by decide
theorem gen_routing_inj :
    ∀ t ∈ genPacks, ∀ u ∈ genPacks, genRouting.createPool t.name = genRouting.createPool u.name → t.name = u.name := by
  decide
theorem gen_names_nodup : (genPacks.map (·.name)).Nodup := by decide

/-- **pool routing of the source**: every history of CreatePack / ClosePack / drops over the pools of
    all pack types, with arbitrary packs released in any interleaving of types, runs without a
    type-assertion panic and hands out, for the type asked for, a pack that is on every struct field
    the type's Clear() constants or constructor constants -/
theorem gen_route_clean (evs : List MEv) (hev : ∀ e ∈ evs, evTypeIn genPacks e) :
    ∃ outs, runM genRouting evs (fun _ => []) = some outs ∧ ∀ out ∈ outs, out.1 ∈ genPacks ∧ CleanOut out :=
  route_clean genRouting genPacks gen_names_nodup gen_routing_same gen_routing_inj gen_clear_total evs hev

/-! ### no hidden package-level state (what the per-call theorems need to describe concurrent use)

The round-trip, numtext and masking theorems are statements about one call.  That they describe
every call of a process — one goroutine per transaction, all writing, reading and processing packs
at the same time — needs the code to keep no mutable package-level state besides the pools
(`sync.Pool` is safe for concurrent use by its contract).  Regenerated facts (scan of lang/pack/udp,
util/stringutil, util/paramtext, util/urlutil, io): -/

/-- the only package-level variables are the 19 pools and stringutil's compiled `linuxPattern` -/
theorem pkg_vars :
    Gen.pkgVars.map (·.1) = ["lang/pack/udp", "util/stringutil", "util/paramtext", "util/urlutil", "io"] ∧
    Gen.pkgVars.all (fun pv =>
      if pv.1 == "lang/pack/udp" then
        pv.2.all (fun v => (allPacks.map (·.pool)).contains v) && (allPacks.map (·.pool)).all (fun v => pv.2.contains v) &&
          pv.2.length == allPacks.length
      else if pv.1 == "util/stringutil" then pv.2 == ["linuxPattern"]
      else pv.2.isEmpty) = true := by
  decide

/-- no function writes, slices, takes the address of, or hands to another function a package-level
    variable; the only uses other than reads are method calls on a pool in CreatePack / ClosePack and on
    the compiled pattern in EscapeSpace -/
theorem no_package_state_written :
    Gen.stateRefs.all (fun r =>
      r.2.2.1 == "r" ||
      (r.2.2.1 == "m" && r.1 == "lang/pack/udp" && (r.2.1 == "CreatePack" || r.2.1 == "ClosePack") &&
        (allPacks.map (·.pool)).contains r.2.2.2) ||
      (r == ("util/stringutil", "EscapeSpace", "m", "linuxPattern"))) = true := by decide

/-- non-vacuity of `gen_route_clean`: a history over two source-derived types -/
example : (match genPack "UdpTxEndPack", genPack "UdpTxMessagePack" with
    | some a, some b => (runM genRouting [.close a (fun _ => .int 5), .close b (fun _ => .int 6),
        .create b (some 0) 50100, .create a (some 0) 10101] (fun _ => [])).map (fun outs => outs.map fun o => (o.1.name, o.2.2 "Host", o.2.2 "Hash"))
    | _, _ => none) = some [("UdpTxMessagePack", .int 6, .str []), ("UdpTxEndPack", .str [], .int 5)] := by decide

end C07Gen
