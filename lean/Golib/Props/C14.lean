/-
  Property C14 — a HyperLogLog counter's state depends only on the set offered; merge = union.

  Statements only; every proof is a reference to a lemma of Golib.HLL.*.
  The model (`HLL.offerHashed`, `HLL.merge`, `HLL.getBytes`, `HLL.build`, `HLL.cardBranch`, …)
  follows /repo/util/hll/{HyperLogLog,RegisterSet}.go; it is tied to the code on every run by
  the correspondence harness `harness/c14` (driver `drv_c14`) and by the regenerated facts of
  `Golib.Gen.C14` (see Golib/Props/C14Gen.lean).

  Conventions: a hashed value is a natural below 2^32 (`HLL.Hashed`); the hash function is a
  parameter `hash : α → Nat` (its identity is C15's subject); `PrecOK p` is `2 ≤ p ≤ 30`, which
  contains the property's range `4 ≤ p ≤ 16` (`PrecOK.of_range`).

  Not a theorem (stated as such): "the estimate is within a small multiple of 1.04/√m of the true
  cardinality" is a statistical statement about a fixed hash; it is sampled by the harness.
-/
import Golib.HLL.Card
import Golib.HLL.Serial
import Golib.HLL.EstSpec
import Golib.HLL.Abstract
import Golib.HLL.Heap
import Golib.HLL.Murmur
import Golib.HLL.Hist

namespace C14
open HLL Prim

/-! ### six 5-bit registers per 32-bit word -/

/-- `Get` after `Set`: the register written reads back the value, the other five are untouched -/
theorem packed_get_set (w i j v : Nat) (hi : i < 6) (hj : j < 6) (hv : v < 32) :
    wordGet (wordSet w i v) j = if i = j then v else wordGet w j :=
  wordGet_wordSet w i j v hi hj hv

/-- `UpdateIfGreater` = `Set (max old v)`, and its boolean says whether the register grew -/
theorem packed_update_is_max (w i v : Nat) (hi : i < 6) :
    (wordUpd w i v).1 = wordSet w i (max (wordGet w i) v) ∧
    (wordUpd w i v).2 = decide (wordGet w i < v) :=
  ⟨wordUpd_fst w i v hi, wordUpd_snd w i v⟩

/-- a canonical (30-bit) word is determined by its six registers; `Set` keeps words 32-bit -/
theorem packed_word_ext (a b : Nat) (ha : a < 1073741824) (hb : b < 1073741824)
    (h : ∀ i, i < 6 → wordGet a i = wordGet b i) : a = b := word_ext a b ha hb h

/-- `getSizeForCount(2^p)` words hold all `2^p` registers (and the `bits % 32 == 0` arm of the
    code is never taken for a power of two) -/
theorem sizes_ok (p : Nat) (h1 : 4 ≤ p) (h2 : p ≤ 16) :
    2 ^ p ≤ 6 * wordCount (2 ^ p) ∧ (2 ^ p / 6 ≠ 0 → 2 ^ p / 6 % 32 ≠ 0) :=
  sizes_ok_all p (by omega)

/-! ### register index and rank -/

/-- the table-driven `clz32` is the number of leading zeros of a 32-bit word -/
theorem clz32_correct (x : Nat) (h : x < 4294967296) : clz32 x = 32 - bitlen x :=
  HLL.clz32_correct x h

/-- `bitlen` is the number of binary digits: `2^(bitlen n − 1) ≤ n < 2^(bitlen n)` -/
theorem bitlen_spec (n : Nat) (h : 0 < n) : 2 ^ (bitlen n - 1) ≤ n ∧ n < 2 ^ bitlen n :=
  ⟨two_pow_bitlen_le n h, lt_two_pow_bitlen n⟩

/-- `idx` = the leading `p` bits of the hashed value, `rank` = number of leading zeros of the
    remaining `32 − p` bits + 1 (an all-zero rest gives `32 − p + 1`); the rank fits a register -/
theorem index_rank_spec (p h : Nat) (h1 : 4 ≤ p) (h2 : p ≤ 16) (hh : Hashed h) :
    h = idx p h * 2 ^ (32 - p) + rest p h ∧ rest p h < 2 ^ (32 - p) ∧ idx p h < 2 ^ p ∧
    rank p h = (32 - p) - bitlen (rest p h) + 1 ∧ 1 ≤ rank p h ∧ rank p h ≤ 32 - p + 1 ∧ rank p h < 32 :=
  ⟨idx_rest p h, rest_lt p h, idx_lt p h (by omega) hh, rank_spec p h (by omega) (by omega),
   rank_pos p h, by have := rank_le p h (by omega) (by omega); omega, rank_lt_32 p h (by omega) (by omega)⟩

/-- the same, read as "position of the first one-bit": `rank = t` iff the rest lies in
    `[2^(32−p−t), 2^(32−p−t+1))` -/
theorem rank_is_first_one (p h t : Nat) (h1 : 4 ≤ p) (h2 : p ≤ 16) (ht1 : 1 ≤ t) (ht2 : t ≤ 32 - p)
    (hlo : 2 ^ (32 - p - t) ≤ rest p h) (hhi : rest p h < 2 ^ (32 - p - t + 1)) : rank p h = t :=
  rank_eq_iff p h t (by omega) (by omega) ht1 ht2 hlo hhi

/-! ### offering -/

/-- each offered value updates the register selected by its leading bits to the maximum of the old
    value and its rank, leaves every other register alone, and `Offer` reports whether it grew -/
theorem offer_updates_register {α : Type} (hash : α → Nat) (p : Nat) (ws : Array Nat) (x : α) (r : Nat)
    (hp : PrecOK p) (hw : WFState p ws) (hh : Hashed (hash x)) :
    regGet (offer hash p ws x).1 r =
      (if idx p (hash x) = r then max (regGet ws r) (rank p (hash x)) else regGet ws r) ∧
    (offer hash p ws x).2 = decide (regGet ws (idx p (hash x)) < rank p (hash x)) ∧
    WFState p (offer hash p ws x).1 := by
  refine ⟨?_, offerHashed_snd p ws (hash x), offerHashed_wf p ws (hash x) hp hw⟩
  have := regGet_offerHashed p ws (hash x) r hp hw hh
  unfold offer
  rw [this]
  split
  · rename_i h; subst h; rfl
  · rfl

/-- **state_is_set_fn**: register `r` of a counter that was offered `hs` is the supremum of the
    ranks of the offered values whose leading bits select `r` -/
theorem state_is_set_fn (p : Nat) (hs : List Nat) (r : Nat) (hp : PrecOK p) (hh : ∀ h ∈ hs, Hashed h) :
    regGet (stateOf p hs) r = supRank p hs r ∧
    (∀ k, supRank p hs r ≤ k ↔ ∀ h ∈ hs, idx p h = r → rank p h ≤ k) ∧
    ((supRank p hs r = 0 ∧ ∀ h ∈ hs, idx p h ≠ r) ∨ ∃ h ∈ hs, idx p h = r ∧ rank p h = supRank p hs r) :=
  ⟨regGet_stateOf p hs r hp hh, fun k => supRank_le_iff p hs r k, supRank_attained p hs r⟩

/-- … for an arbitrary well-formed start state -/
theorem state_after_offers (p : Nat) (ws : Array Nat) (hs : List Nat) (r : Nat) (hp : PrecOK p)
    (hw : WFState p ws) (hh : ∀ h ∈ hs, Hashed h) :
    regGet (offerAll p ws hs) r = max (regGet ws r) (supRank p hs r) :=
  regGet_offerAll p ws hs r hp hw hh

/-- the words (what `GetBytes` serializes) depend only on the *set* of hashed values offered -/
theorem set_determines_state (p : Nat) (ws : Array Nat) (xs ys : List Nat) (hp : PrecOK p)
    (hw : WFState p ws) (hx : ∀ h ∈ xs, Hashed h) (hy : ∀ h ∈ ys, Hashed h)
    (h : ∀ x, x ∈ xs ↔ x ∈ ys) : offerAll p ws xs = offerAll p ws ys :=
  offerAll_set p ws xs ys hp hw hx hy h

/-- the same for items offered through any hash function: same set of items ⇒ same bytes -/
theorem items_set_determines_bytes {α : Type} (hash : α → Nat) (hH : ∀ x, Hashed (hash x))
    (p : Nat) (ws : Array Nat) (xs ys : List α) (hp : PrecOK p) (hw : WFState p ws)
    (h : ∀ x, x ∈ xs ↔ x ∈ ys) :
    getBytes p (offerItems hash p ws xs) = getBytes p (offerItems hash p ws ys) := by
  rw [offerItems_eq, offerItems_eq]
  congr 1
  apply offerAll_set p ws _ _ hp hw
  · intro v hv; obtain ⟨x, _, rfl⟩ := List.mem_map.mp hv; exact hH x
  · intro v hv; obtain ⟨x, _, rfl⟩ := List.mem_map.mp hv; exact hH x
  · intro v
    simp only [List.mem_map]
    constructor
    · rintro ⟨x, hx, rfl⟩; exact ⟨x, (h x).mp hx, rfl⟩
    · rintro ⟨x, hx, rfl⟩; exact ⟨x, (h x).mpr hx, rfl⟩

/-- order never matters -/
theorem order_irrelevant {α : Type} (hash : α → Nat) (hH : ∀ x, Hashed (hash x))
    (p : Nat) (ws : Array Nat) (xs ys : List α) (hp : PrecOK p) (hw : WFState p ws)
    (h : xs.Perm ys) : offerItems hash p ws xs = offerItems hash p ws ys := by
  rw [offerItems_eq, offerItems_eq]
  apply offerAll_set p ws _ _ hp hw
  · intro v hv; obtain ⟨x, _, rfl⟩ := List.mem_map.mp hv; exact hH x
  · intro v hv; obtain ⟨x, _, rfl⟩ := List.mem_map.mp hv; exact hH x
  · intro v; exact (h.map hash).mem_iff

/-- duplicates never matter (and the second offer of an item reports "unchanged") -/
theorem dup_irrelevant {α : Type} (hash : α → Nat) (hH : ∀ x, Hashed (hash x))
    (p : Nat) (ws : Array Nat) (x : α) (xs : List α) (hp : PrecOK p) (hw : WFState p ws) :
    offerItems hash p ws (x :: x :: xs) = offerItems hash p ws (x :: xs) ∧
    (offer hash p (offer hash p ws x).1 x).2 = false := by
  constructor
  · rw [offerItems_eq, offerItems_eq]
    apply offerAll_set p ws _ _ hp hw
    · intro v hv; obtain ⟨y, _, rfl⟩ := List.mem_map.mp hv; exact hH y
    · intro v hv; obtain ⟨y, _, rfl⟩ := List.mem_map.mp hv; exact hH y
    · intro v; simp
  · unfold offer
    rw [offerHashed_snd, regGet_offerHashed p ws (hash x) _ hp hw (hH x), if_pos rfl]
    simp only [decide_eq_false_iff_not]
    omega

/-! ### merge -/

/-- **merge_is_union**: `a.Merge(b₁, …, bₙ)` for counters that saw `xs`, `yss[0]`, … is exactly the
    counter that saw all of them -/
theorem merge_is_union (p : Nat) (xs : List Nat) (yss : List (List Nat)) (hp : PrecOK p)
    (hx : ∀ h ∈ xs, Hashed h) (hy : ∀ ys ∈ yss, ∀ h ∈ ys, Hashed h) :
    mergeAll p (stateOf p xs) (yss.map (stateOf p)) = stateOf p (xs ++ yss.flatten) :=
  mergeAll_stateOf p xs yss hp hx hy

/-- register-wise: a merged register is the maximum of the two (any two register arrays of equal
    size); `AddAll(b)` on any well-formed counter = offering `b`'s items to it -/
theorem merge_registerwise (a b : Array Nat) (hs : a.size = b.size) (r : Nat) :
    regGet (merge a b) r = max (regGet a r) (regGet b r) := regGet_merge a b hs r

theorem addAll_is_offering (p : Nat) (a : Array Nat) (ys : List Nat) (hp : PrecOK p)
    (ha : WFState p a) (hy : ∀ h ∈ ys, Hashed h) : merge a (stateOf p ys) = offerAll p a ys :=
  merge_eq_offerAll p a ys hp ha hy

/-- commutative, associative, idempotent; the merge of well-formed counters is well-formed.
    (Inputs are left untouched: `merge` is a function of its arguments, and `HyperLogLog.Merge`
    writes only into the fresh register set it allocates — the harness checks the inputs' bytes
    before and after on the implementation.) -/
theorem merge_laws (p : Nat) (a b c : Array Nat) (ha : WFState p a) (hb : WFState p b) (hc : WFState p c) :
    merge a b = merge b a ∧ merge (merge a b) c = merge a (merge b c) ∧ merge a a = a ∧
    merge (fresh p) a = a ∧ WFState p (merge a b) :=
  ⟨merge_comm a b (by rw [ha.size, hb.size]),
   merge_assoc a b c (by rw [ha.size, hb.size]) (by rw [hb.size, hc.size]),
   merge_idem a ha.canon, merge_fresh_left p a ha, merge_wf p a b ha hb⟩

/-! ### bytes -/

/-- **bytes_roundtrip**: `BuildHyperLogLog(GetBytes())` restores precision, word count and words,
    consuming exactly the bytes produced -/
theorem bytes_roundtrip (p : Nat) (ws : Array Nat) (r : Bytes) (hp : PrecOK p) (hw : WFState p ws) :
    P.run build (getBytes p ws ++ r) = some ((p, ws), r) :=
  run_build_getBytes p ws r hp.hi (by rw [hw.size]; exact wordCount_lt p hp.hi) (wf_words_lt p ws hw)

/-- … hence the rebuilt counter has the same estimate, and equal bytes mean equal state -/
theorem bytes_injective (p q : Nat) (a b : Array Nat) (hp : PrecOK p) (hq : PrecOK q)
    (ha : WFState p a) (hb : WFState q b) (h : getBytes p a = getBytes q b) : p = q ∧ a = b := by
  have h1 := bytes_roundtrip p a [] hp ha
  have h2 := bytes_roundtrip q b [] hq hb
  rw [h] at h1
  rw [h1] at h2
  simp only [Option.some.injEq, Prod.mk.injEq, and_true] at h2
  exact h2

theorem bytes_length (p : Nat) (ws : Array Nat) : (getBytes p ws).length = 8 + 4 * ws.size :=
  getBytes_length p ws

/-! ### estimate -/

/-- **estimate_is_state_fn**: `Cardinality` depends only on the multiset of register values … -/
theorem estimate_is_state_fn {α : Type} (F : Est α) (p : Nat) (a b : Array Nat)
    (h : (regs p a).Perm (regs p b)) : cardinality F p a = cardinality F p b :=
  cardinality_perm F p a b h

/-- … so counters that were offered the same set of items report the same estimate -/
theorem estimate_is_set_fn {α β : Type} (F : Est β) (hash : α → Nat) (hH : ∀ x, Hashed (hash x))
    (p : Nat) (xs ys : List α) (hp : PrecOK p) (h : ∀ x, x ∈ xs ↔ x ∈ ys) :
    cardinality F p (offerItems hash p (fresh p) xs) = cardinality F p (offerItems hash p (fresh p) ys) := by
  have : offerItems hash p (fresh p) xs = offerItems hash p (fresh p) ys := by
    rw [offerItems_eq, offerItems_eq]
    apply offerAll_set p _ _ _ hp (fresh_wf p)
    · intro v hv; obtain ⟨x, _, rfl⟩ := List.mem_map.mp hv; exact hH x
    · intro v hv; obtain ⟨x, _, rfl⟩ := List.mem_map.mp hv; exact hH x
    · intro v
      simp only [List.mem_map]
      constructor
      · rintro ⟨x, hx, rfl⟩; exact ⟨x, (h x).mp hx, rfl⟩
      · rintro ⟨x, hx, rfl⟩; exact ⟨x, (h x).mpr hx, rfl⟩
  rw [this]

/-- the floating-point register sum of the Go loop is exact: every partial sum, scaled by 2^31,
    is an integer not above 2^53 (so `registerSum = regSum / 2^31` in any register order) -/
theorem register_sum_exact (p : Nat) (ws : Array Nat) (k : Nat) (h2 : p ≤ 16) :
    regSum ((regs p ws).take k) ≤ 9007199254740992 ∧ 0 < regSum (regs p ws) :=
  ⟨regSum_prefix_le p ws k (by omega), regSum_pos _ (by
    intro h
    have := regs_length p ws
    rw [h] at this
    have : 0 < 2 ^ p := Nat.two_pow_pos p
    simp at *
    omega)⟩

/-- **linear_only_if_V** (code with proposed/C14/fix-D30.diff): the linear-counting formula
    `m·log(m/V)` is evaluated only with `V ≠ 0`, and with no empty register the raw estimate is
    returned -/
theorem linear_only_if_V {α : Type} (F : Est α) (p : Nat) (rs : List Nat) :
    (∀ m V, cardBranch F p rs = .linear m V → V ≠ 0 ∧ V = zeros rs ∧ m = 2 ^ p) ∧
    (zeros rs = 0 → cardBranch F p rs = .raw (F.raw p (regSum rs))) ∧
    (zeros rs ≠ 0 → cardBranch F p rs = cardBranchOrig F p rs) :=
  ⟨fun m V h => ⟨(cardBranch_linear F p rs m V h).1, (cardBranch_linear F p rs m V h).2.1,
      (cardBranch_linear F p rs m V h).2.2.1⟩,
   cardBranch_no_empty F p rs, cardBranch_eq_orig F p rs⟩

/-- the unchanged code: `linear_only_if_V` holds only under the extra hypothesis that some
    register is empty … -/
theorem linear_only_if_V_partial {α : Type} (F : Est α) (p : Nat) (rs : List Nat) (hV : zeros rs ≠ 0)
    (m V : Nat) (h : cardBranchOrig F p rs = .linear m V) : V ≠ 0 := by
  rw [← cardBranch_eq_orig F p rs hV] at h
  exact (cardBranch_linear F p rs m V h).1

/-- … **finding_D30**: and fails without it.  Sixteen hashed values, one per register, each of
    rank 1 (precision 4) are a reachable state with no empty register whose exact raw estimate
    0.673·16²/8 = 21.5 is below 2.5·16 = 40; whenever the floating-point comparison agrees, the
    unchanged code evaluates linear counting with `V = 0` (`log(16/0)`), the fixed code does not. -/
theorem finding_D30 :
    regs 4 (stateOf 4 d30Hashes) = List.replicate 16 1 ∧
    zeros (regs 4 (stateOf 4 d30Hashes)) = 0 ∧
    regSum (regs 4 (stateOf 4 d30Hashes)) = 8 * 2147483648 ∧
    673 * (16 * 16) * 2 ≤ 5 * 16 * 8 * 1000 ∧
    (∀ {α : Type} (F : Est α), F.small (F.raw 4 (8 * 2147483648)) (2 ^ 4) = true →
      ¬ (∀ m V, cardBranchOrig F 4 (regs 4 (stateOf 4 d30Hashes)) = .linear m V → V ≠ 0)) ∧
    (∀ {α : Type} (F : Est α),
      cardBranch F 4 (regs 4 (stateOf 4 d30Hashes)) = .raw (F.raw 4 (8 * 2147483648))) := by
  have hr := d30_regs
  have hz : zeros (regs 4 (stateOf 4 d30Hashes)) = 0 := by rw [hr]; decide
  have hs : regSum (regs 4 (stateOf 4 d30Hashes)) = 8 * 2147483648 := by rw [hr]; decide
  refine ⟨hr, hz, hs, by decide, ?_, ?_⟩
  · intro α F hsm hall
    have := cardBranchOrig_no_empty F 4 _ hz (by rw [hs]; exact hsm)
    exact hall _ _ this rfl
  · intro α F
    rw [cardBranch_no_empty F 4 _ hz, hs]

/-! ### deepening: sizes for arbitrary counts -/

/-- exactly for which register counts `getSizeForCount` allocates enough words: all counts
    except those with `count/6` a non-zero multiple of 32 and `count % 6 ≠ 0` (e.g. 193), where
    `count % 6` registers have no word -/
theorem sizes_exact (c : Nat) :
    (c ≤ 6 * wordCount c ↔ (c / 6 = 0 ∨ c / 6 % 32 ≠ 0 ∨ c % 6 = 0)) ∧
    (c / 6 ≠ 0 → c / 6 % 32 = 0 → 6 * wordCount c + c % 6 = c) :=
  ⟨wordCount_suffices_iff c, wordCount_shortfall c⟩

/-- every power of two (every precision, not only 4..16) is allocated enough words -/
theorem sizes_ok_every_precision (p : Nat) : 2 ^ p ≤ 6 * wordCount (2 ^ p) := wordCount_two_pow p

/-! ### deepening: the byte level (commuting square) -/

/-- `GetBytes()` of any reachable counter is the packing of its registers, the packing is
    injective on the registers `0 … 2^p − 1`, and it depends on nothing else -/
theorem bytes_of_state (p : Nat) (hp : PrecOK p) :
    (∀ ws, Reach p ws → getBytes p ws = bytesOfRegs p (regGet ws)) ∧
    (∀ f g : Nat → Nat, (∀ r, f r < 32) → (∀ r, g r < 32) →
      (bytesOfRegs p f = bytesOfRegs p g ↔ ∀ r, r < 2 ^ p → f r = g r)) :=
  ⟨fun ws hr => getBytes_eq_bytesOfRegs p ws hr, fun f g hf hg => bytesOfRegs_eq_iff p f g hp hf hg⟩

/-- reachable = fresh, closed under offers and merges -/
theorem reach_closed (p : Nat) (hp : PrecOK p) :
    Reach p (fresh p) ∧
    (∀ ws h, Reach p ws → Hashed h → Reach p (offerHashed p ws h).1) ∧
    (∀ a b, Reach p a → Reach p b → Reach p (merge a b)) :=
  ⟨fresh_reach p, fun ws h hr hh => offerHashed_reach p ws h hp hr hh, fun a b => merge_reach p a b⟩

/-- **the commuting square**: bytes after `Offer` = bytes of the abstractly updated registers;
    bytes of a merge = bytes of the register-wise maximum; bytes after offering `hs` to a fresh
    counter = bytes of the pointwise suprema -/
theorem bytes_commute (p : Nat) (hp : PrecOK p) :
    (∀ ws h, Reach p ws → Hashed h →
      getBytes p (offerHashed p ws h).1 = bytesOfRegs p (absOffer p (regGet ws) h)) ∧
    (∀ a b, Reach p a → Reach p b →
      getBytes p (merge a b) = bytesOfRegs p (fun r => max (regGet a r) (regGet b r))) ∧
    (∀ hs, (∀ h ∈ hs, Hashed h) → getBytes p (stateOf p hs) = bytesOfRegs p (supRank p hs)) :=
  ⟨fun ws h hr hh => getBytes_offerHashed p ws h hp hr hh, fun a b => getBytes_merge p a b,
   fun hs hh => getBytes_stateOf p hs hp hh⟩

/-- `Offer` is commutative and idempotent **at the byte level**, for every precision 4..16 and
    every reachable counter -/
theorem bytes_offer_comm_idem {α : Type} (hash : α → Nat) (hH : ∀ x, Hashed (hash x)) (p : Nat)
    (h1 : 4 ≤ p) (h2 : p ≤ 16) (ws : Array Nat) (hr : Reach p ws) (x y : α) :
    getBytes p (offer hash p (offer hash p ws x).1 y).1 =
      getBytes p (offer hash p (offer hash p ws y).1 x).1 ∧
    getBytes p (offer hash p (offer hash p ws x).1 x).1 = getBytes p (offer hash p ws x).1 := by
  have hp := PrecOK.of_range h1 h2
  have rx := offerHashed_reach p ws (hash x) hp hr (hH x)
  have ry := offerHashed_reach p ws (hash y) hp hr (hH y)
  unfold offer
  constructor
  · rw [getBytes_offerHashed p _ (hash y) hp rx (hH y), getBytes_offerHashed p _ (hash x) hp ry (hH x)]
    apply bytesOfRegs_congr
    intro r _
    have e1 : ∀ r, regGet (offerHashed p ws (hash x)).1 r = absOffer p (regGet ws) (hash x) r := by
      intro r; rw [regGet_offerHashed p ws (hash x) r hp hr.wf (hH x)]; unfold absOffer
      split
      · rename_i e; subst e; rfl
      · rfl
    have e2 : ∀ r, regGet (offerHashed p ws (hash y)).1 r = absOffer p (regGet ws) (hash y) r := by
      intro r; rw [regGet_offerHashed p ws (hash y) r hp hr.wf (hH y)]; unfold absOffer
      split
      · rename_i e; subst e; rfl
      · rfl
    have := congrFun (absOffer_comm p (regGet ws) (hash x) (hash y)) r
    unfold absOffer at this ⊢
    rw [e1, e2]
    unfold absOffer
    exact this
  · rw [getBytes_offerHashed p _ (hash x) hp rx (hH x), getBytes_eq_bytesOfRegs p _ rx]
    apply bytesOfRegs_congr
    intro r _
    unfold absOffer
    split
    · rename_i e
      rw [← e, regGet_offerHashed p ws (hash x) _ hp hr.wf (hH x), if_pos rfl]
      omega
    · rfl

/-! ### deepening: exact (rational) specification of the estimate -/

/-- which branch is taken, as a function of (raw estimate, V), for any instantiation of the
    formulas: linear counting iff the raw estimate is small **and** some register is empty -/
theorem branch_function {α : Type} (F : Est α) (p : Nat) (rs : List Nat) :
    (F.small (F.raw p (regSum rs)) (2 ^ p) = true ∧ zeros rs ≠ 0 ∧
      cardBranch F p rs = .linear (2 ^ p) (zeros rs)) ∨
    ((F.small (F.raw p (regSum rs)) (2 ^ p) = false ∨ zeros rs = 0) ∧
      cardBranch F p rs = .raw (F.raw p (regSum rs))) :=
  cardBranch_cases F p rs

/-- the raw estimate `alpha·m²/Σ2^(−M[j])` over the rationals is monotone in every register
    (and so is its rounding); raising registers never adds empty registers -/
theorem raw_monotone_in_registers (p : Nat) (a b : List Nat) (h : RegsLe a b) (hb : b ≠ []) :
    rawQ p (regSum a) ≤ rawQ p (regSum b) ∧ roundQ (rawQ p (regSum a)) ≤ roundQ (rawQ p (regSum b)) ∧
    zeros b ≤ zeros a :=
  rawQ_monotone_regs p a b h hb

/-- adding an item never decreases the raw estimate and never adds an empty register -/
theorem raw_monotone_under_offer (p : Nat) (ws : Array Nat) (h : Nat) (hp : PrecOK p)
    (hw : WFState p ws) (hh : Hashed h) :
    rawQ p (regSum (regs p ws)) ≤ rawQ p (regSum (regs p (offerHashed p ws h).1)) ∧
    zeros (regs p (offerHashed p ws h).1) ≤ zeros (regs p ws) :=
  rawQ_offer_monotone p ws h hp hw hh

/-- **0 items ⇒ 0** (any `ln` with `ln 1 = 0`), and **V = 0 ⇒ the raw estimate** (fix-D30) -/
theorem estimate_small_sets (ln : Rat → Rat) (hln : ln 1 = 0) (p : Nat) :
    cardinality (specEst ln) p (fresh p) = 0 ∧
    (∀ ws, zeros (regs p ws) = 0 →
      cardinality (specEst ln) p ws = roundQ (rawQ p (regSum (regs p ws)))) :=
  ⟨(cardinality_fresh ln hln p).2, fun ws h => cardinality_no_empty ln p ws h⟩

/-- D30 under the exact specification, without any assumption on the comparison: on the witness
    state the unchanged code evaluates `ln(16/0)`; the fixed code answers 22 for 16 items -/
theorem finding_D30_exact (ln : Rat → Rat) :
    cardBranchOrig (specEst ln) 4 (regs 4 (stateOf 4 d30Hashes)) = .linear 16 0 ∧
    cardinality (specEst ln) 4 (stateOf 4 d30Hashes) = 22 :=
  d30_exact ln

/-! ### second deepening: histories over several counters ("inputs untouched") -/

/-- **frame condition of every operation**: in any world, an operation leaves every existing
    counter other than the receiver of `offer`/`addAll` exactly as it was (precision, words, hence
    bytes) and never removes or renumbers a counter; `new`, `merge`, `build`, `getBytes` change no
    existing counter at all — the arguments of `Merge`, the argument of `AddAll`, the source of
    `Build` are untouched, also when they are the receiver or occur several times -/
theorem inputs_untouched (w : World) (op : HOp) :
    w.length ≤ (step w op).length ∧
    (∀ k, k < w.length → target op ≠ some k →
      (step w op)[k]? = w[k]? ∧ bytesAt (step w op) k = bytesAt w k) :=
  ⟨step_length_le w op, fun k hk hne => ⟨step_frame w op k hk hne, step_frame_bytes w op k hk hne⟩⟩

/-- operations that panic in the code (different precision, unknown counter) change nothing -/
theorem failing_ops_change_nothing (w : World) (i j : Nat) (js : List Nat) (a b : Counter)
    (hi : w[i]? = some a) :
    (w[j]? = some b → a.p ≠ b.p → step w (.addAll i j) = w) ∧
    (argsOK w a.p js = false → step w (.merge i js) = w) :=
  ⟨fun hj hp => addAll_mismatch w i j a b hi hj hp, fun h => merge_mismatch w i js a hi h⟩

/-- **histories**: after any sequence of operations on any number of counters, every counter's
    words are the state of the items that reached it (directly or through merges/rebuilds), it is
    a reachable state, and its bytes are the packing of the pointwise suprema of those items -/
theorem history_state (ops : List HOp) (hops : ∀ op ∈ ops, OpOK op) (i : Nat) (c : Counter)
    (hc : (run ops)[i]? = some c) :
    PrecOK c.p ∧ c.ws = stateOf c.p c.items ∧ Reach c.p c.ws ∧
    getBytes c.p c.ws = bytesOfRegs c.p (supRank c.p c.items) :=
  history_bytes ops hops i c hc

/-- … so two counters of equal precision, in any two histories, that were reached by the same
    *set* of items have identical bytes: order, duplication and merge structure are irrelevant -/
theorem history_set_fn (ops1 ops2 : List HOp) (h1 : ∀ op ∈ ops1, OpOK op) (h2 : ∀ op ∈ ops2, OpOK op)
    (i j : Nat) (c d : Counter) (hc : (run ops1)[i]? = some c) (hd : (run ops2)[j]? = some d)
    (hp : c.p = d.p) (hset : ∀ x, x ∈ c.items ↔ x ∈ d.items) :
    getBytes c.p c.ws = getBytes d.p d.ws :=
  history_set_determines_bytes ops1 ops2 h1 h2 i j c d hc hd hp hset

/-- `Merge` creates a new counter reached by exactly the items of the receiver and the arguments;
    merging a counter with itself any number of times gives a copy with the same bytes -/
theorem merge_in_histories (w : World) (i : Nat) (js : List Nat) (n : Nat) (a : Counter) (hw : WInv w)
    (hi : w[i]? = some a) :
    (argsOK w a.p js = true →
      ∃ c, step w (.merge i js) = w ++ [c] ∧ c.p = a.p ∧ c.ws = stateOf c.p c.items ∧
        (∀ x, x ∈ c.items ↔ x ∈ a.items ∨ ∃ j ∈ js, ∃ b, w[j]? = some b ∧ x ∈ b.items)) ∧
    (∃ c, step w (.merge i (List.replicate n i)) = w ++ [c] ∧ getBytes c.p c.ws = getBytes a.p a.ws) :=
  ⟨fun hok => merge_result w i js a hw hi hok, self_merge_bytes w i n a hw hi⟩

theorem histories_keep_invariant (ops : List HOp) (hops : ∀ op ∈ ops, OpOK op) : WInv (run ops) :=
  run_inv ops hops

/-! ### second deepening: the hash the code uses -/

/-- the model of `MurmurHashLong` is a 32-bit value on every item, agrees with the implementation
    on the recorded test vectors, and therefore instantiates every "any hash" theorem above:
    with the real hash, the bytes depend only on the set of items -/
theorem real_hash (p : Nat) (ws : Array Nat) (xs ys : List Nat) (hp : PrecOK p) (hw : WFState p ws)
    (h : ∀ x, x ∈ xs ↔ x ∈ ys) :
    (∀ x, Hashed (murmurLong x)) ∧ murmurVectors.all (fun v => murmurLong v.1 == v.2) = true ∧
    getBytes p (offerItems murmurLong p ws xs) = getBytes p (offerItems murmurLong p ws ys) :=
  ⟨murmurLong_lt, murmur_vectors_ok,
   items_set_determines_bytes murmurLong murmurLong_lt p ws xs ys hp hw h⟩

/-! ### second deepening: the small-range test -/

/-- the small-range test of the exact specification is a threshold on the integer register sum
    (`alpha_p·m·2^32 ≤ 5·S`), and it is monotone: offers only lower the register sum, so once the
    raw estimate has left the small range it never returns -/
theorem small_range_threshold (ln : Rat → Rat) (p S S' : Nat) (h0 : 0 < S') (h : S' ≤ S) :
    ((specEst ln).small (rawQ p S) (2 ^ p) = true ↔ alphaQ p * mQ p * 4294967296 ≤ 5 * (S : Rat)) ∧
    ((specEst ln).small (rawQ p S') (2 ^ p) = true → (specEst ln).small (rawQ p S) (2 ^ p) = true) ∧
    rawQ p S ≤ rawQ p S' :=
  ⟨small_iff_regsum ln p S (by omega), small_antitone ln p S S' h0 h, rawQ_antitone p S S' h0 h⟩

/-! ### audit round: totalised reads are never out of range; the size test is the precision test -/

/-- every array access the model totalises with a default (`getD … 0`) is in range on well-formed
    states: the word of the register `offerHashed` updates, and every word `Cardinality`/`Get`
    reads for the registers `0 … 2^p − 1` — so no theorem above holds because of a default value -/
theorem accesses_in_range (p : Nat) (ws : Array Nat) (hp : PrecOK p) (hw : WFState p ws) :
    (∀ h, Hashed h → idx p h / 6 < ws.size) ∧ (∀ r, r < 2 ^ p → r / 6 < ws.size) := by
  have hs := HLL.sizes_ok p hp
  refine ⟨fun h hh => ?_, fun r hr => ?_⟩
  · have := idx_in_range p ws h hp hw hh; omega
  · rw [hw.size]
    have : r < 6 * wordCount (2 ^ p) := Nat.lt_of_lt_of_le hr hs
    omega

/-- the code's `AddAll` guard compares `Sizeof()`; on counters of valid precision that is exactly
    the precision test of the world model (`argsOK`, `addAll`) -/
theorem size_test_is_precision_test (p q : Nat) (hp : PrecOK p) (hq : PrecOK q) (a b : Array Nat)
    (ha : WFState p a) (hb : WFState q b) : a.size = b.size ↔ p = q := by
  constructor
  · intro h
    rw [ha.size, hb.size] at h
    exact wordCount_injective p (by have := hp.hi; omega) q (by have := hq.hi; omega) hp.lo hq.lo h
  · intro h; subst h; rw [ha.size, hb.size]

/-! ### fourth round: the range of register values, the sum grouped by value, in-place self-merge -/

/-- the registers of a counter hold values 0 … 33 − p, and the top value occurs: item 0 hashes to 0,
    whose tail after the index bits is all zero (so a table indexed by register value needs 34 − p
    entries) -/
theorem register_value_range (p : Nat) (hp : PrecOK p) :
    (∀ hs r, (∀ h ∈ hs, Hashed h) → regGet (stateOf p hs) r ≤ 33 - p) ∧
    murmurLong 0 = 0 ∧ murmur32 0 = 0 ∧ regGet (stateOf p [murmurLong 0]) 0 = 33 - p := by
  have hp1 := hp.lo
  have hp2 := hp.hi
  refine ⟨?_, by decide, by decide, ?_⟩
  · intro hs r hh
    rw [regGet_stateOf p hs r hp hh, supRank_le_iff]
    intro h _ _
    exact rank_le p h hp1 (by omega)
  · have h0 : murmurLong 0 = 0 := by decide
    rw [h0, regGet_stateOf p [0] 0 hp (by intro h hm; simp at hm; subst hm; show (0:Nat) < 4294967296; decide)]
    have hi : idx p 0 = 0 := by simp [idx]
    have hr : rank p 0 = 32 - p + 1 := rank_of_rest_zero p 0 hp1 (by omega) (by simp [rest])
    rw [supRank_cons, supRank_nil, if_pos hi, hr]
    omega

/-- the sum `Cardinality` computes, grouped by register value, over the values 0 … 33 − p -/
theorem register_sum_by_value (p : Nat) (hp : PrecOK p) (hs : List Nat) (hh : ∀ h ∈ hs, Hashed h) :
    regSum (regs p (stateOf p hs)) = histSum (33 - p) (regs p (stateOf p hs)) := by
  apply regSum_by_value
  intro v hv
  simp only [regs, List.mem_map] at hv
  obtain ⟨r, _, rfl⟩ := hv
  exact (register_value_range p hp).1 hs r hh

/-- … and one entry fewer is not enough: after `Offer(0)` the value 33 − p is present -/
theorem register_sum_by_value_needs_top :
    regSum (regs 4 (stateOf 4 [murmurLong 0])) ≠ histSum (32 - 4) (regs 4 (stateOf 4 [murmurLong 0])) := by
  decide +kernel

/-- `a.AddAll(a)` changes no counter's bytes (in-place merge is idempotent) -/
theorem addAll_self_noop (w : World) (i k : Nat) (hw : WInv w) :
    bytesAt (step w (.addAll i i)) k = bytesAt w k ∧ (step w (.addAll i i)).length = w.length := by
  cases hi : w[i]? with
  | none => simp [step, stepWith, hi]
  | some a =>
    have ai := hw a (mem_of_getElem? hi)
    have hc : merge a.ws a.ws = a.ws := by
      apply merge_idem
      rw [ai.state]
      exact (stateOf_wf a.p a.items ai.prec).canon
    have hst : step w (.addAll i i) = w.set i ⟨a.p, a.ws, a.items ++ a.items⟩ := by
      simp [step, stepWith, hi, hc]
    rw [hst]
    refine ⟨?_, by simp⟩
    unfold bytesAt
    by_cases hk : i = k
    · subst hk
      have hlt : i < w.length := by
        rcases Nat.lt_or_ge i w.length with h | h
        · exact h
        · rw [List.getElem?_eq_none h] at hi; cases hi
      rw [List.getElem?_set_self hlt, hi]
      rfl
    · rw [List.getElem?_set_ne hk]

/-- every counter a history reaches — offered to, merged into, result of `Merge`, rebuilt — holds
    register values 0 … 33 − p only (so `Cardinality` meets no other value, on any of them) -/
theorem history_register_range (ops : List HOp) (hops : ∀ op ∈ ops, OpOK op) (c : Counter)
    (hc : c ∈ run ops) (r : Nat) : regGet c.ws r ≤ 33 - c.p := by
  have ci := run_inv ops hops c hc
  rw [ci.state]
  exact (register_value_range c.p ci.prec).1 c.items r ci.hashed

/-- a history may contain `a.AddAll(a)` anywhere: the operation is defined (the model's `step` is
    total), changes no counter's bytes and creates nothing — for every world a history reaches -/
theorem addAll_self_in_histories (ops : List HOp) (hops : ∀ op ∈ ops, OpOK op) (i k : Nat) :
    bytesAt (step (run ops) (.addAll i i)) k = bytesAt (run ops) k ∧
    (step (run ops) (.addAll i i)).length = (run ops).length :=
  addAll_self_noop (run ops) i k (run_inv ops hops)

/-! ### non-vacuity -/

example : PrecOK 4 ∧ PrecOK 10 ∧ PrecOK 16 := ⟨⟨by decide, by decide⟩, ⟨by decide, by decide⟩, ⟨by decide, by decide⟩⟩
example : WFState 10 (stateOf 10 [123456789, 4294967295, 0]) :=
  stateOf_wf 10 _ ⟨by decide, by decide⟩
example : ∀ h ∈ [123456789, 4294967295, 0], Hashed h := by
  show ∀ h ∈ [123456789, 4294967295, 0], h < 4294967296
  decide
-- idx / rank on concrete hashed values (precision 4: 28 remaining bits)
example : idx 4 4294967295 = 15 ∧ rank 4 4294967295 = 1 := by decide
example : idx 4 0 = 0 ∧ rank 4 0 = 29 := by decide
example : idx 16 65535 = 0 ∧ rank 16 65535 = 1 := by decide
example : idx 16 65536 = 1 ∧ rank 16 65536 = 17 := by decide
example : idx 10 (5 * 4194304 + 1) = 5 ∧ rank 10 (5 * 4194304 + 1) = 22 := by decide
example : wordGet (wordSet 1073741823 3 7) 3 = 7 ∧ wordGet (wordSet 1073741823 3 7) 2 = 31 := by decide
example : wordUpd 229376 3 5 = (229376, false) ∧ wordUpd 229376 3 9 = (294912, true) := by decide
example : mergeWord 229376 (9 * 32768 + 4) = 9 * 32768 + 4 := by decide
example : wordCount (2 ^ 4) = 3 ∧ wordCount (2 ^ 10) = 171 ∧ wordCount (2 ^ 16) = 10923 := by decide
example : supRank 4 d30Hashes 7 = 1 := by decide
-- the branch logic distinguishes the two versions exactly on "no empty register, small estimate"
example : cardBranch (α := Nat) ⟨fun _ s => s, fun _ _ => true, fun m v => m + v, id⟩ 4 [1, 1, 0] = .linear 16 1 := by decide
example : cardBranch (α := Nat) ⟨fun _ s => s, fun _ _ => true, fun m v => m + v, id⟩ 4 [1, 1, 2] ≠
    cardBranchOrig ⟨fun _ s => s, fun _ _ => true, fun m v => m + v, id⟩ 4 [1, 1, 2] := by decide

-- deepening examples
example : ¬ (193 ≤ 6 * wordCount 193) ∧ 6 * wordCount 193 + 1 = 193 := by decide
example : 192 ≤ 6 * wordCount 192 ∧ 1000 ≤ 6 * wordCount 1000 := by decide
example : Reach 10 (stateOf 10 [123456789, 4294967295, 0]) :=
  offerAll_reach 10 _ _ ⟨by decide, by decide⟩ (fresh_reach 10)
    (by show ∀ h ∈ [123456789, 4294967295, 0], h < 4294967296; decide)
example : RegsLe [0, 3, 5] [1, 3, 9] := by simp [RegsLe]
example : rawQ 4 (8 * 2147483648) = 2692 / 125 ∧ roundQ (rawQ 4 (8 * 2147483648)) = 22 := by decide +kernel
example : alphaQ 4 = 673 / 1000 ∧ alphaQ 10 = 7213 / 10000 / (1 + 1079 / 1000 / 1024) := by decide +kernel
example : bytesOfRegs 4 (fun r => if r = 3 then 7 else 0) =
    [0, 0, 0, 4, 0, 0, 0, 3, 0, 3, 128, 0, 0, 0, 0, 0, 0, 0, 0, 0] := by decide +kernel

-- second deepening examples: a history with a self-merge, the same counter twice, a failing AddAll
example : (run [.new 4, .new 5, .offer 0 4026531840, .offer 0 1, .addAll 0 1, .merge 0 [0, 0],
    .build 2, .offer 2 7]).map (fun c => (c.p, c.items)) =
    [(4, [4026531840, 1]), (5, []), (4, [4026531840, 1, 4026531840, 1, 4026531840, 1, 7]),
     (4, [4026531840, 1, 4026531840, 1, 4026531840, 1])] := by decide +kernel
example : bytesAt (run [.new 4, .offer 0 4026531840, .merge 0 [0, 0]]) 1 =
    bytesAt (run [.new 4, .offer 0 4026531840]) 0 := by decide +kernel
example : ∀ op ∈ [HOp.new 4, .offer 0 4026531840, .merge 0 [0, 0]], OpOK op := by
  intro op h
  simp only [List.mem_cons, List.mem_nil_iff, or_false] at h
  rcases h with rfl | rfl | rfl
  · exact ⟨by decide, by decide⟩
  · show (4026531840 : Nat) < 4294967296; decide
  · trivial
example : murmurLong 1 = 1527037976 ∧ murmur32 4294967295 = 114743869 := by decide

-- audit round examples
example : WInv (run [.new 4, .offer 0 4026531840, .new 4, .offer 1 7]) :=
  histories_keep_invariant _ (by
    intro op h
    simp only [List.mem_cons, List.mem_nil_iff, or_false] at h
    rcases h with rfl | rfl | rfl | rfl
    · exact ⟨by decide, by decide⟩
    · show (4026531840 : Nat) < 4294967296; decide
    · exact ⟨by decide, by decide⟩
    · show (7 : Nat) < 4294967296; decide)
example : argsOK (run [.new 4, .offer 0 4026531840, .new 4, .offer 1 7]) 4 [1, 0, 1] = true := by decide +kernel
example : argsOK (run [.new 4, .new 5]) 4 [1] = false := by decide +kernel
example : (run [.new 4, .new 5, .addAll 0 1]).length = 2 ∧ (run [.new 4, .new 5, .merge 0 [1]]).length = 2 := by
  decide +kernel

example : regGet (stateOf 16 [murmurLong 0]) 0 = 17 := (register_value_range 16 ⟨by decide, by decide⟩).2.2.2
example : (∀ op ∈ [HOp.new 4, .offer 0 0], OpOK op) ∧ ((run [.new 4, .offer 0 0]).map (fun c => regGet c.ws 0)) = [29] := by
  refine ⟨?_, by decide +kernel⟩
  intro op h; simp at h; rcases h with rfl | rfl
  · exact ⟨by decide, by decide⟩
  · show (0 : Nat) < 4294967296; decide
example : histSum 3 [0, 3, 3, 1] = 2 ^ 31 + 2 ^ 30 + 2 * 2 ^ 28 := by decide
example : bytesAt (step (run [.new 4, .offer 0 4026531840]) (.addAll 0 0)) 0 = bytesAt (run [.new 4, .offer 0 4026531840]) 0 :=
  (addAll_self_in_histories [.new 4, .offer 0 4026531840]
    (by intro op h; simp at h; rcases h with rfl | rfl <;> simp [OpOK, Hashed] <;> exact ⟨by decide, by decide⟩) 0 0).1

end C14
