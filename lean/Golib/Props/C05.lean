/-
  Property C05 — bytes on the wire conform to the collector protocol layout.

  Spec      Golib.Wire.Reference / Golib.Wire.Counter: the independent reference *encoder*, written
            from the protocol layout (frame, payload, common header, the eight pack bodies).
  Decoder   Golib.Wire.Decode / CounterCodec: the reference *decoder* (what a non-Go collector does).
  Theorems  below: the frame is parsed back into its five parts with exact consumption, the length
            field is |payload|, both header forms byte for byte and when each is used, the tag hash
            and where it sits, and for each of the eight packs: the reference decoder recovers every
            field from the reference bytes and consumes them exactly.
  Tie B     harness/c05: pack.ToBytesPack, DataOutputX.WriteHeader and frames captured from the public
            one-way client on a loopback socket equal the reference bytes, for random packs of the
            eight types; the reference decoder is also run on the implementation's bytes.
  Tie A     Golib/Props/C05Gen.lean: constants and the hash table extracted from the Go source.

  Statements only; proofs are references to lemmas of Golib.Wire.*.  The tagged-value round trip
  (`Value.decode_encV`) is C02's theorem.
-/
import Golib.Wire.CounterCodec
import Golib.Wire.EventAttrs
import Golib.Wire.Collector
import Golib.Value.Facts

namespace C05
open Prim Wire Wire.Codec

/-! ### frame -/

/-- the frame, byte for byte -/
theorem frame_layout (pcode : Int) (license pl : Bytes) :
    frame pcode license pl =
      [10, 0] ++ encI 8 pcode ++ encI 8 (hash64 license) ++ encI 4 pl.length ++ pl := by
  simp [frame, netSrcOneWay, netSrcVersion]

/-- a receiver that reads two bytes, two 8-byte numbers and a 4-byte length recovers the five
    parts and consumes exactly the frame -/
theorem frame_parse (pcode : Int) (license pl r : Bytes)
    (hp : inRange 8 pcode) (hl : pl.length < 2147483648) :
    P.run parseFrame (frame pcode license pl ++ r) = some (⟨10, 0, pcode, hash64 license, pl⟩, r) :=
  run_parseFrame pcode license pl r hp hl

/-- the 4-byte field at offset 18 is |payload|; the frame is 22 bytes longer than the payload -/
theorem frame_length (pcode : Int) (license pl : Bytes) :
    ((frame pcode license pl).drop 18).take 4 = encI 4 pl.length ∧
    (frame pcode license pl).drop 22 = pl ∧
    (frame pcode license pl).length = 22 + pl.length := by
  refine ⟨?_, ?_, frame_length_eq pcode license pl⟩
  · have h : frame pcode license pl = ([10, 0] ++ encI 8 pcode ++ encI 8 (hash64 license)) ++ (encI 4 pl.length ++ pl) := by
      simp [frame, netSrcOneWay, netSrcVersion]
    have hA : ([10, 0] ++ encI 8 pcode ++ encI 8 (hash64 license)).length = 18 := by simp
    rw [h, List.drop_left' hA, List.take_left' (by simp)]
  · have h : frame pcode license pl = ([10, 0] ++ encI 8 pcode ++ encI 8 (hash64 license) ++ encI 4 pl.length) ++ pl := by
      simp [frame, netSrcOneWay, netSrcVersion]
    have hA : ([10, 0] ++ encI 8 pcode ++ encI 8 (hash64 license) ++ encI 4 pl.length).length = 22 := by simp
    rw [h, List.drop_left' hA]

/-- a receiver never takes a truncated frame for a whole one -/
theorem frame_prefix_fails (pcode : Int) (license pl q s : Bytes)
    (hp : inRange 8 pcode) (hl : pl.length < 2147483648) (hs : s ≠ [])
    (hq : q ++ s = frame pcode license pl) : P.run parseFrame q = none :=
  P.prefix_fails parseFrame q s _ hs (by
    rw [hq]
    have := run_parseFrame pcode license pl [] hp hl
    simpa using this)

/-! ### a connection's byte stream (what the fault-injection stage of the harness checks on real sockets) -/

/-- a connection that carried whole frames parses, frame after frame, into exactly those frames, nothing left -/
theorem stream_of_whole_frames_parses (xs : List Sent) (hw : ∀ x ∈ xs, x.wf) :
    parseStream xs.length (streamOf xs) = (xs.map Sent.parts, []) := by
  have := parseStream_whole xs [] xs.length (Nat.le_refl _) hw run_parseFrame_nil
  simpa using this

/-- … and when the connection died inside a frame: the whole frames come out, the truncated one is left over
    unparsed (it is never taken for a frame) -/
theorem stream_with_truncated_tail (xs : List Sent) (y : Sent) (q s : Bytes) (hw : ∀ x ∈ xs, x.wf) (hy : y.wf)
    (hs : s ≠ []) (hq : q ++ s = y.bytes) :
    parseStream (xs.length + 1) (streamOf xs ++ q) = (xs.map Sent.parts, q) :=
  parseStream_whole xs q (xs.length + 1) (Nat.le_succ _) hw
    (frame_prefix_fails y.pcode y.license y.payload q s hy.1 hy.2 hs hq)

/-- the same with any amount of fuel that suffices (the parse does not depend on the bound once it is large enough:
    the bound running out is never what stops it) -/
theorem stream_parse_any_fuel (xs : List Sent) (q : Bytes) (fuel : Nat) (hf : xs.length ≤ fuel) (hw : ∀ x ∈ xs, x.wf)
    (hq : P.run parseFrame q = none) : parseStream fuel (streamOf xs ++ q) = (xs.map Sent.parts, q) :=
  parseStream_whole xs q fuel hf hw hq

/-- a stream that starts with the TAIL of a frame does not pass for a stream of whole frames: if the parse of
    a connection's bytes is not (all frames, nothing left), the bytes are not a concatenation of whole frames -/
theorem not_whole_frames_detected (xs : List Sent) (bs : Bytes) (hw : ∀ x ∈ xs, x.wf)
    (h : parseStream xs.length bs ≠ (xs.map Sent.parts, [])) : bs ≠ streamOf xs := by
  intro e
  exact h (e ▸ stream_of_whole_frames_parses xs hw)

example : ∀ x ∈ ([⟨5, [], [1, 2]⟩, ⟨-1, [97], []⟩] : List Sent), x.wf := by
  intro x hx
  simp only [List.mem_cons, List.mem_nil_iff, or_false] at hx
  rcases hx with rfl | rfl <;> exact ⟨by decide, by decide⟩

example : parseStream 2 (streamOf [⟨5, [], [1, 2]⟩, ⟨-1, [97], []⟩]) =
    ([⟨10, 0, 5, 0, [1, 2]⟩, ⟨10, 0, -1, -72057593640010173, []⟩], []) := by decide +kernel

/-- a connection that starts with the tail of a frame (here: its last 5 bytes) and goes on with a whole frame
    does not parse into that frame — a receiver misreads it (the tail's bytes are taken for a header) -/
example : parseStream 3 ((frame 5 [] [1, 2]).drop 19 ++ frame 5 [] [1, 2]) ≠ ([⟨10, 0, 5, 0, [1, 2]⟩], []) := by
  decide +kernel

/-! ### the other frame variants of DataOutputX / pack (public API, not used by the one-way client) -/

/-- the secure frame (`WriteSecureHeader`): source, version, 8-byte project code, 4-byte object id, 4-byte transfer
    key, 4-byte length, payload — a parser recovers the six parts and consumes exactly the frame -/
theorem secure_frame_parse (src ver : Nat) (pcode oid key : Int) (pl r : Bytes) (hs : src < 256) (hv : ver < 256)
    (hp : inRange 8 pcode) (ho : inRange 4 oid) (hk : inRange 4 key) (hl : pl.length < 2147483648) :
    P.run parseSecure (secureFrame src ver pcode oid key pl ++ r) = some (⟨src, ver, pcode, oid, key, pl⟩, r) :=
  run_parseSecure src ver pcode oid key pl r hs hv hp ho hk hl

theorem secure_frame_length (src ver : Nat) (pcode oid key : Int) (pl : Bytes) :
    (secureFrame src ver pcode oid key pl).length = 22 + pl.length := by
  simp [secureFrame]; omega

/-- block padding (`ToBytesPackECB`): the result is a whole number of blocks, starts with the payload unchanged,
    adds fewer than one block, and the added bytes are zeros -/
theorem ecb_padding (n : Nat) (hn : 0 < n) (bs : Bytes) :
    (padECB n bs).length % n = 0 ∧ (padECB n bs).take bs.length = bs ∧
    (padECB n bs).length < bs.length + n ∧ ∀ b ∈ (padECB n bs).drop bs.length, b = 0 :=
  padECB_facts n hn bs

example : padECB 8 [1, 2, 3] = [1, 2, 3, 0, 0, 0, 0, 0] ∧ padECB 4 [1, 2, 3, 4] = [1, 2, 3, 4] := by decide
example : secureFrame 10 0 5 7 (-1) [1] = [10, 0, 0, 0, 0, 0, 0, 0, 0, 5, 0, 0, 0, 7, 255, 255, 255, 255, 0, 0, 0, 1, 1] := by decide

/-- the payload starts with the 2-byte pack type -/
theorem payload_layout (ty : Nat) (body r : Bytes) (h : ty < 65536) :
    payload ty body = beN 2 ty ++ body ∧ P.run (rdU 2) (payload ty body ++ r) = some (ty, body ++ r) := by
  refine ⟨rfl, ?_⟩
  unfold payload
  rw [List.append_assoc]
  exact run_rdU 2 ty _ (by omega)

/-- the license hash is a signed 64-bit number whose 8 bytes are the big-endian register -/
theorem license_hash_bytes (license : Bytes) :
    inRange 8 (hash64 license) ∧ encI 8 (hash64 license) = beN 8 (hash64U license) :=
  ⟨hash64_inRange license, encI_hash64 license⟩

/-- the hash table is the reflected CRC-32 table of the polynomial 0xEDB88320 -/
theorem hash_table_is_crc32 : crcTable.toList = (List.range 256).map crcEntry := crcTable_eq_gen

/-! ### common header -/

/-- short form: decimal project code, 4-byte object id, 8-byte time -/
theorem header_layout_short (h : Hdr) (hk : h.okind = 0) (hn : h.onode = 0) :
    encHdr h = encDecimal h.pcode ++ encI 4 h.oid ++ encI 8 h.time := by
  simp [encHdr, Hdr.extended, hk, hn, encHdrShort]

/-- extended form: marker 9, decimal project code, object id, kind, node (4 bytes each), 8-byte time -/
theorem header_layout_extended (h : Hdr) (hx : h.okind ≠ 0 ∨ h.onode ≠ 0) :
    encHdr h = [9] ++ encDecimal h.pcode ++ encI 4 h.oid ++ encI 4 h.okind ++ encI 4 h.onode ++ encI 8 h.time := by
  have : h.extended = true := by
    unfold Hdr.extended
    rcases hx with hx | hx <;> simp [hx]
  simp [encHdr, this, encHdrExt, hdrMarker]

/-- the extended form is used exactly when kind or node is non-zero, and the first byte tells
    which form it is (a decimal never starts with 9) -/
theorem header_form (h : Hdr) :
    (h.extended = true ↔ (h.okind ≠ 0 ∨ h.onode ≠ 0)) ∧
    ((encHdr h).headD 0 = 9 ↔ (h.okind ≠ 0 ∨ h.onode ≠ 0)) := by
  have e : h.extended = true ↔ (h.okind ≠ 0 ∨ h.onode ≠ 0) := by
    unfold Hdr.extended; simp
  refine ⟨e, ?_⟩
  rw [← e]
  unfold encHdr
  cases hx : h.extended with
  | true => simp [encHdrExt, hdrMarker]
  | false =>
    obtain ⟨rest, hr⟩ := encDecimal_cons h.pcode
    have := leastClass_le h.pcode
    simp [encHdrShort, hr]; omega

theorem header_roundtrip (h : Hdr) (r : Bytes) (wf : WFHdr h) :
    P.run decHdr (encHdr h ++ r) = some (h, r) := run_decHdr h r wf

/-! ### tag hash -/

/-- the tag hash is the 64-bit hash of the encoded tag map and is written (as a decimal) directly
    before the map, after the version byte 0 and the category -/
theorem taghash_position_tagcount (p : TagCount) (h0 : p.tagHash = 0) (ht : p.tags ≠ []) :
    encTagCount p = encHdr p.hdr ++ [0] ++ encText p.category ++
      encDecimal (hash64 (Value.encV (.map p.tags))) ++ Value.encV (.map p.tags) ++ Value.encV (.map p.data) := by
  simp [encTagCount, encTagCountRaw, TagCount.norm, effTagHash, h0, ht, encMap]

theorem taghash_position_logsink (p : LogSink) (h0 : p.tagHash = 0) (ht : p.tags ≠ []) :
    encLogSink p = encHdr p.hdr ++ [0] ++ encText p.category ++
      encDecimal (hash64 (Value.encV (.map p.tags))) ++ Value.encV (.map p.tags) ++
      encDecimal p.line ++ encText p.content ++ encOptMap p.fields := by
  simp [encLogSink, encLogSinkRaw, LogSink.norm, effTagHash, h0, ht, encMap]

/-- a stored non-zero hash, or an empty tag map, is written as it is -/
theorem taghash_stored (stored : Int) (tags : List (Bytes × Value)) (h : stored ≠ 0 ∨ tags = []) :
    effTagHash stored tags = stored := by
  unfold effTagHash
  rcases h with h | h <;> simp [h]

/-! ### one pack object sent again and again (what the re-send-after-mutation stage checks on real objects)

  The model of a live pack object is its public state `σ`; between sends the application changes it in any way
  (`mutate f`, `f` arbitrary); a send emits `enc σ` and leaves the state as `after σ`.  For the eight packs `enc`
  is the reference encoder (a function of the state: nothing else can influence the bytes) and `after` is the
  identity, except for the two tag-hash packs where a send stores the effective tag hash (`norm`).  That the Go
  objects carry no other state from one Write to the next is tie A (`C05Gen.pack_state_*`). -/

inductive ObjOp (σ : Type) where
  | mutate (f : σ → σ)
  | send

/-- run a history on an object: the frames emitted (oldest first) and the final state -/
def runObj {σ : Type} (enc : σ → Bytes) (after : σ → σ) : List (ObjOp σ) → σ → List Bytes × σ
  | [], s => ([], s)
  | .mutate f :: ops, s => runObj enc after ops (f s)
  | .send :: ops, s => ((enc s :: (runObj enc after ops (after s)).1), (runObj enc after ops (after s)).2)

/-- the public states the object had at its sends -/
def statesAtSends {σ : Type} (after : σ → σ) : List (ObjOp σ) → σ → List σ
  | [], _ => []
  | .mutate f :: ops, s => statesAtSends after ops (f s)
  | .send :: ops, s => s :: statesAtSends after ops (after s)

/-- **re-send clause**: for every history of mutations and sends, every frame sent is the encoding of the
    public state the object had at that send — nothing of an earlier send survives in it -/
theorem resend_frames_are_current_state {σ : Type} (enc : σ → Bytes) (after : σ → σ) (ops : List (ObjOp σ)) (s : σ) :
    (runObj enc after ops s).1 = (statesAtSends after ops s).map enc := by
  induction ops generalizing s with
  | nil => rfl
  | cons op ops ih =>
    cases op with
    | mutate f => exact ih (f s)
    | send => simp [runObj, statesAtSends, ih]

theorem effTagHash_idem (stored : Int) (tags : List (Bytes × Value)) :
    effTagHash (effTagHash stored tags) tags = effTagHash stored tags := by
  unfold effTagHash
  by_cases h : stored = 0 ∧ tags ≠ []
  · rw [if_pos h]
    by_cases h2 : hash64 (encMap tags) = 0 ∧ tags ≠ []
    · rw [if_pos h2]
    · rw [if_neg h2]
  · rw [if_neg h, if_neg h]

/-- frame condition of a send of a tag-count pack: only the stored tag hash changes, and it becomes the hash
    that was written; sending again without a mutation sends the same bytes -/
theorem send_tagcount_frame_condition (p : TagCount) :
    p.norm.hdr = p.hdr ∧ p.norm.category = p.category ∧ p.norm.tags = p.tags ∧ p.norm.data = p.data ∧
    p.norm.tagHash = effTagHash p.tagHash p.tags ∧ p.norm.norm = p.norm ∧ encTagCount p.norm = encTagCount p := by
  have e : p.norm.norm = p.norm := by
    simp [TagCount.norm, effTagHash_idem]
  refine ⟨rfl, rfl, rfl, rfl, rfl, e, ?_⟩
  unfold encTagCount
  rw [e]

theorem send_logsink_frame_condition (p : LogSink) :
    p.norm.hdr = p.hdr ∧ p.norm.category = p.category ∧ p.norm.tags = p.tags ∧ p.norm.line = p.line ∧
    p.norm.content = p.content ∧ p.norm.fields = p.fields ∧
    p.norm.tagHash = effTagHash p.tagHash p.tags ∧ p.norm.norm = p.norm ∧ encLogSink p.norm = encLogSink p := by
  have e : p.norm.norm = p.norm := by
    simp [LogSink.norm, effTagHash_idem]
  refine ⟨rfl, rfl, rfl, rfl, rfl, rfl, rfl, e, ?_⟩
  unfold encLogSink
  rw [e]

/-- a tag-count pack that was sent (hash stored) and whose tags are then changed sends the STORED hash with the
    NEW tag map (the pack recomputes the hash only when it is 0) — the documented behaviour the harness takes
    as part of the public state (`GetTagHash`) -/
theorem resend_after_tag_change (p : TagCount) (tags' : List (Bytes × Value)) (h : p.norm.tagHash ≠ 0) :
    encTagCount { p.norm with tags := tags' } =
      encHdr p.hdr ++ ([0] ++ (encText p.category ++ (encDecimal p.norm.tagHash ++ (encMap tags' ++ encMap p.data)))) := by
  have e : effTagHash p.norm.tagHash tags' = p.norm.tagHash := taghash_stored _ _ (Or.inl h)
  show encHdr p.hdr ++ ([0] ++ (encText p.category ++ (encDecimal (effTagHash p.norm.tagHash tags') ++ (encMap tags' ++ encMap p.data)))) = _
  rw [e]

example : (runObj encZip id [.send, .mutate (fun p => { p with status := 7 }), .send] ⟨⟨5, 1, 0, 0, 1000⟩, 1, 2, [1, 2]⟩).1
    = [encZip ⟨⟨5, 1, 0, 0, 1000⟩, 1, 2, [1, 2]⟩, encZip ⟨⟨5, 1, 0, 0, 1000⟩, 7, 2, [1, 2]⟩] := by
  rw [resend_frames_are_current_state]; rfl

/-! a send is the identity on the public state — for every pack type, up to what the model lets a send change -/

/-- when sends leave the state alone (`after = id`: text, parameter, zip, hit-map, counter packs), the final state
    of any history is what the mutations alone make of the initial state -/
theorem sends_do_not_change_state {σ : Type} (enc : σ → Bytes) (ops : List (ObjOp σ)) (s : σ) :
    (runObj enc id ops s).2 = ops.foldl (fun st op => match op with | .mutate f => f st | .send => st) s := by
  induction ops generalizing s with
  | nil => rfl
  | cons op ops ih =>
    cases op with
    | mutate f => exact ih (f s)
    | send => simpa [runObj] using ih s

/-- sending the same object again with no mutation in between gives byte-identical frames, as often as one likes —
    whenever a send does not change what is encoded (`enc (after s) = enc s`) and `after` is idempotent -/
theorem resend_identical {σ : Type} (enc : σ → Bytes) (after : σ → σ) (s : σ) (n : Nat)
    (h1 : enc (after s) = enc s) (h2 : after (after s) = after s) :
    (runObj enc after (List.replicate (n + 1) .send) s).1 = List.replicate (n + 1) (enc s) := by
  have key : ∀ m, (runObj enc after (List.replicate m .send) (after s)).1 = List.replicate m (enc s) := by
    intro m
    induction m with
    | zero => rfl
    | succ m ih => simp [List.replicate_succ, runObj, h1, h2, ih]
  simp [List.replicate_succ, runObj, key n]

/-- the eight packs: what a send does to the public state (`after`) satisfies both conditions -/
theorem resend_identical_tagcount (p : TagCount) (n : Nat) :
    (runObj encTagCount TagCount.norm (List.replicate (n + 1) .send) p).1 = List.replicate (n + 1) (encTagCount p) :=
  resend_identical _ _ p n (send_tagcount_frame_condition p).2.2.2.2.2.2 (send_tagcount_frame_condition p).2.2.2.2.2.1

theorem resend_identical_logsink (p : LogSink) (n : Nat) :
    (runObj encLogSink LogSink.norm (List.replicate (n + 1) .send) p).1 = List.replicate (n + 1) (encLogSink p) :=
  resend_identical _ _ p n (send_logsink_frame_condition p).2.2.2.2.2.2.2.2 (send_logsink_frame_condition p).2.2.2.2.2.2.2.1

/-- text, parameter, zip, hit-map, counter: a send is the identity -/
theorem resend_identical_plain {σ : Type} (enc : σ → Bytes) (s : σ) (n : Nat) :
    (runObj enc id (List.replicate (n + 1) .send) s).1 = List.replicate (n + 1) (enc s) :=
  resend_identical enc id s n rfl rfl

/-- event: a send takes the attributes under reserved keys out of the object again and changes nothing else;
    when the application's attributes use no reserved key (the intended use) the send is the identity and a
    re-send is byte-identical -/
theorem send_event_frame_condition (e : Event) :
    e.afterSend.hdr = e.hdr ∧ e.afterSend.uuid = e.uuid ∧ e.afterSend.escalation = e.escalation ∧
    e.afterSend.level = e.level ∧ e.afterSend.title = e.title ∧ e.afterSend.message = e.message ∧
    e.afterSend.status = e.status ∧ e.afterSend.otype = e.otype ∧
    e.afterSend.attr = e.attr.filter (fun p => !reserved p.1) ∧ e.afterSend.afterSend = e.afterSend ∧
    ((∀ p ∈ e.attr, reserved p.1 = false) → e.afterSend = e) :=
  ⟨rfl, rfl, rfl, rfl, rfl, rfl, rfl, rfl, rfl, Event.afterSend_idem e, Event.afterSend_id e⟩

theorem resend_identical_event (e : Event) (n : Nat) (h : ∀ p ∈ e.attr, reserved p.1 = false) :
    (runObj encEvent Event.afterSend (List.replicate (n + 1) .send) e).1 = List.replicate (n + 1) (encEvent e) :=
  resend_identical _ _ e n (by rw [Event.afterSend_id e h]) (Event.afterSend_idem e)

example : (runObj encEvent Event.afterSend [.send, .send] ⟨⟨1, 2, 0, 0, 3⟩, [], false, 10, [], [], 0, 0, [(ascii "a", ascii "b")]⟩).1
    = [encEvent ⟨⟨1, 2, 0, 0, 3⟩, [], false, 10, [], [], 0, 0, [(ascii "a", ascii "b")]⟩,
       encEvent ⟨⟨1, 2, 0, 0, 3⟩, [], false, 10, [], [], 0, 0, [(ascii "a", ascii "b")]⟩] :=
  resend_identical_event _ 1 (by decide)

/-! ### decodability: the reference decoder inverts the reference encoder, for each of the eight bodies

  Tagged values inside map fields are C02's well-formed values: `Value.WFV`, with C02's round trip
  `Value.decode_encV` (no assumption about the value codec is left in these statements).
  `(c.wf x)` says every field of `x` holds a value the field can carry (ranges, counts, lengths). -/

/-- the well-formed tagged values of C02 round-trip (C02's theorem) -/
def valuesOK : VOK := ⟨Value.WFV, Value.decode_encV⟩

theorem decodable_tagcount (p : TagCount) (r : Bytes) (wf : (tagCountC Value.WFV).wf p.norm) :
    (tagCountC Value.WFV).dec (encTagCount p ++ r) = some (p.norm, r) := by
  have := tagCountC_RT valuesOK p.norm r wf
  rwa [tagCountC_enc] at this

theorem decodable_logsink (p : LogSink) (r : Bytes) (wf : (logSinkC Value.WFV).wf p.norm) :
    (logSinkC Value.WFV).dec (encLogSink p ++ r) = some (p.norm, r) := by
  have := logSinkC_RT valuesOK p.norm r wf
  rwa [logSinkC_enc] at this

theorem decodable_text (p : TextP) (r : Bytes) (wf : textC.wf p) :
    textC.dec (encTextP p ++ r) = some (p, r) := by
  have := textC_RT p r wf
  rwa [textC_enc] at this

theorem decodable_param (p : Param) (r : Bytes) (wf : (paramC Value.WFV).wf p) :
    (paramC Value.WFV).dec (encParam p ++ r) = some (p, r) := by
  have := paramC_RT valuesOK p r wf
  rwa [paramC_enc] at this

/-- the event travels with uuid, escalation, status and object type folded into its attributes -/
theorem decodable_event (e : Event) (r : Bytes) (wf : eventWireC.wf e.toWire) :
    eventWireC.dec (encEvent e ++ r) = some (e.toWire, r) := by
  have := eventWireC_RT e.toWire r wf
  rwa [eventWireC_enc] at this

theorem decodable_zip (p : Zip) (r : Bytes) (wf : zipC.wf p) :
    zipC.dec (encZip p ++ r) = some (p, r) := by
  have := zipC_RT p r wf
  rwa [zipC_enc] at this

theorem decodable_hitmap (p : HitMap) (r : Bytes) (wf : hitMapC.wf p) :
    hitMapC.dec (encHitMap p ++ r) = some (p, r) := by
  have := hitMapC_RT p r wf
  rwa [hitMapC_enc] at this

theorem decodable_counter (p : Counter) (r : Bytes) (wf : (counterC Value.WFV).wf p) :
    (counterC Value.WFV).dec (encCounter p ++ r) = some (p, r) := by
  have := counterC_RT valuesOK p r wf
  rwa [counterC_enc] at this

/-- status and object type travel as decimal text, which parses back to the number -/
theorem decimal_text_roundtrip (v : Int) : parseDecText (decText v) = some v := parseDecText_decText v

/-- when the user's attributes do not use the reserved keys, the attributes on the wire are the user's
    entries followed by uuid (if set), escalation, status, object type — in this order -/
theorem event_attrs_layout (e : Event) (h : ∀ p ∈ e.attr, reserved p.1 = false) :
    foldAttrs e = e.attr ++ ((if e.uuid = [] then [] else [(keyUuid, e.uuid)]) ++
      [(keyEsca, ascii (if e.escalation then "true" else "false")),
       (keyStatus, decText e.status), (keyOtype, decText e.otype)]) := foldAttrs_eq e h

/-- … and a receiver gets the whole event back: decode the body, look the reserved keys up, parse the
    two numbers, drop the reserved keys.  (This is the write side of D21: the bytes carry status and
    object type correctly; the Go reader's loss of them is a read-side defect, property C03.) -/
theorem event_fields_recoverable (e : Event) (r : Bytes) (wf : eventWireC.wf e.toWire)
    (h : ∀ p ∈ e.attr, reserved p.1 = false) :
    (eventWireC.dec (encEvent e ++ r)).bind (fun (w, r') => (Event.ofWire w).map (fun e' => (e', r'))) = some (e, r) := by
  rw [decodable_event e r wf]
  simp [Event.ofWire_toWire e h]

/-- the encoding of each body is injective and prefix-free on well-formed packs (stated for the
    counter pack; `Codec.RT.injective` / `prefix_free` give it for every body) -/
theorem counter_encoding_injective (p q : Counter) (wp : (counterC Value.WFV).wf p) (wq : (counterC Value.WFV).wf q)
    (e : encCounter p = encCounter q) : p = q := by
  rw [← counterC_enc Value.WFV, ← counterC_enc Value.WFV] at e
  exact (counterC_RT valuesOK).injective p q wp wq e

/-! what "every field holds a value the field can carry" unfolds to, for the small bodies -/

theorem wf_zip (p : Zip) :
    zipC.wf p ↔ WFHdr p.hdr ∧ p.status < 256 ∧ inRange 8 p.recordCount ∧ p.records.length < 2147483648 := Iff.rfl

theorem wf_text (p : TextP) :
    textC.wf p ↔ WFHdr p.hdr ∧ p.records.length < 9223372036854775808 ∧
      ∀ r ∈ p.records, r.div < 256 ∧ inRange 4 r.hash ∧ r.text.length < 2147483648 := Iff.rfl

theorem wf_hitmap (p : HitMap) :
    hitMapC.wf p ↔ (WFHdr p.hdr ∧ True ∧ ((p.hit.take 120).zip (p.error.take 120)).length = 120 ∧
        ∀ c ∈ (p.hit.take 120).zip (p.error.take 120), (0 ≤ c.1 ∧ c.1 < 65536) ∧ (0 ≤ c.2 ∧ c.2 < 65536)) ∧
      (p.hit.length = 120 ∧ p.error.length = 120) := Iff.rfl

theorem wf_event (e : Event) :
    eventWireC.wf e.toWire ↔ WFHdr e.hdr ∧ e.level < 256 ∧ e.title.length < 2147483648 ∧
      e.message.length < 2147483648 ∧ (foldAttrs e).length < 256 ∧
      ∀ kv ∈ foldAttrs e, kv.1.length < 2147483648 ∧ kv.2.length < 2147483648 := Iff.rfl

theorem wf_param (wfv : Value → Prop) (p : Param) :
    (paramC wfv).wf p ↔ WFHdr p.hdr ∧ inRange 4 p.id ∧ inRange 8 p.request ∧ inRange 8 p.response ∧
      p.table.length < 9223372036854775808 ∧ ∀ kv ∈ p.table, kv.1.length < 2147483648 ∧ wfv kv.2 := Iff.rfl

theorem wf_tagcount (wfv : Value → Prop) (p : TagCount) :
    (tagCountC wfv).wf p ↔ WFHdr p.hdr ∧ True ∧ p.category.length < 2147483648 ∧ inRange 8 p.tagHash ∧
      wfv (.map p.tags) ∧ wfv (.map p.data) := Iff.rfl

/-- whole message, generic in the body codec: a receiver parses the frame and gets exactly (10, 0, pcode, hash of the
    license, payload); the payload starts with the pack type and the rest decodes to the fields, nothing left over
    (the per-pack statements `collector_decodes_*` below are the same for the dispatching collector) -/
theorem message_decodable {α : Type} (c : Codec α) (hc : c.RT) (ty : Nat) (x : α) (pcode : Int) (license : Bytes)
    (hty : ty < 65536) (hp : inRange 8 pcode) (wf : c.wf x)
    (hl : (payload ty (c.enc x)).length < 2147483648) :
    P.run parseFrame (frame pcode license (payload ty (c.enc x)))
        = some (⟨10, 0, pcode, hash64 license, payload ty (c.enc x)⟩, []) ∧
    P.run (rdU 2) (payload ty (c.enc x)) = some (ty, c.enc x) ∧ c.dec (c.enc x) = some (x, []) := by
  refine ⟨?_, ?_, ?_⟩
  · have := run_parseFrame pcode license (payload ty (c.enc x)) [] hp hl
    simpa [netSrcOneWay, netSrcVersion] using this
  · have := (payload_layout ty (c.enc x) [] hty).2
    simpa using this
  · have := hc x [] wf
    simpa using this

/-! ### end to end: "a non-Go collector can decode it", one statement per pack

  `collect` (Golib.Wire.Collector) is a whole receiver: parse the frame, read the pack type, dispatch to the
  reference decoder of that type, require that the payload is consumed exactly.  From the frame the reference
  encoder emits it recovers the project code, the license hash, the pack type and every field, and leaves
  whatever follows the frame untouched.  Tagged values are C02's well-formed values (`Value.WFV`,
  round trip `Value.decode_encV`): no assumption is left about them. -/

theorem collector_decodes_tagcount (p : TagCount) (license r : Bytes) (wf : (tagCountC Value.WFV).wf p.norm)
    (hl : (payload typeTagCount (encTagCount p)).length < 2147483648) :
    collect (frame p.hdr.pcode license (payload typeTagCount (encTagCount p)) ++ r)
      = some (⟨p.hdr.pcode, hash64 license, typeTagCount, .tagcount p.norm⟩, r) := by
  refine collect_frame _ _ _ _ _ _ (by decide) wf.1.1 hl ?_
  have h := decodable_tagcount p [] wf
  rw [List.append_nil] at h
  unfold decodeBody
  rw [if_pos rfl]
  show mapDec AnyPack.tagcount ((tagCountC Value.WFV).dec (encTagCount p)) = _
  rw [h]; rfl

theorem collector_decodes_logsink (p : LogSink) (license r : Bytes) (wf : (logSinkC Value.WFV).wf p.norm)
    (hl : (payload typeLogSink (encLogSink p)).length < 2147483648) :
    collect (frame p.hdr.pcode license (payload typeLogSink (encLogSink p)) ++ r)
      = some (⟨p.hdr.pcode, hash64 license, typeLogSink, .logsink p.norm⟩, r) := by
  refine collect_frame _ _ _ _ _ _ (by decide) wf.1.1 hl ?_
  have h := decodable_logsink p [] wf
  rw [List.append_nil] at h
  unfold decodeBody
  rw [if_neg (by decide), if_pos rfl]
  show mapDec AnyPack.logsink ((logSinkC Value.WFV).dec (encLogSink p)) = _
  rw [h]; rfl

theorem collector_decodes_text (p : TextP) (license r : Bytes) (wf : textC.wf p)
    (hl : (payload typeText (encTextP p)).length < 2147483648) :
    collect (frame p.hdr.pcode license (payload typeText (encTextP p)) ++ r)
      = some (⟨p.hdr.pcode, hash64 license, typeText, .text p⟩, r) := by
  refine collect_frame _ _ _ _ _ _ (by decide) wf.1.1 hl ?_
  have h := decodable_text p [] wf
  rw [List.append_nil] at h
  unfold decodeBody
  rw [if_neg (by decide), if_neg (by decide), if_pos rfl, h]; rfl

theorem collector_decodes_param (p : Param) (license r : Bytes) (wf : (paramC Value.WFV).wf p)
    (hl : (payload typeParameter (encParam p)).length < 2147483648) :
    collect (frame p.hdr.pcode license (payload typeParameter (encParam p)) ++ r)
      = some (⟨p.hdr.pcode, hash64 license, typeParameter, .param p⟩, r) := by
  refine collect_frame _ _ _ _ _ _ (by decide) wf.1.1 hl ?_
  have h := decodable_param p [] wf
  rw [List.append_nil] at h
  unfold decodeBody
  rw [if_neg (by decide), if_neg (by decide), if_neg (by decide), if_pos rfl]
  show mapDec AnyPack.param ((paramC Value.WFV).dec (encParam p)) = _
  rw [h]; rfl

/-- the event comes back whole: uuid, escalation, status and object type are recovered from the
    reserved attributes -/
theorem collector_decodes_event (e : Event) (license r : Bytes) (wf : eventWireC.wf e.toWire)
    (hres : ∀ p ∈ e.attr, reserved p.1 = false)
    (hl : (payload typeEvent (encEvent e)).length < 2147483648) :
    collect (frame e.hdr.pcode license (payload typeEvent (encEvent e)) ++ r)
      = some (⟨e.hdr.pcode, hash64 license, typeEvent, .event e⟩, r) := by
  refine collect_frame _ _ _ _ _ _ (by decide) wf.1.1 hl ?_
  have h := decodable_event e [] wf
  rw [List.append_nil] at h
  unfold decodeBody
  rw [if_neg (by decide), if_neg (by decide), if_neg (by decide), if_neg (by decide), if_pos rfl, h]
  simp only [Event.ofWire_toWire e hres]

theorem collector_decodes_zip (p : Zip) (license r : Bytes) (wf : zipC.wf p)
    (hl : (payload typeZip (encZip p)).length < 2147483648) :
    collect (frame p.hdr.pcode license (payload typeZip (encZip p)) ++ r)
      = some (⟨p.hdr.pcode, hash64 license, typeZip, .zip p⟩, r) := by
  refine collect_frame _ _ _ _ _ _ (by decide) wf.1.1 hl ?_
  have h := decodable_zip p [] wf
  rw [List.append_nil] at h
  unfold decodeBody
  rw [if_neg (by decide), if_neg (by decide), if_neg (by decide), if_neg (by decide), if_neg (by decide),
    if_pos rfl, h]; rfl

theorem collector_decodes_hitmap (p : HitMap) (license r : Bytes) (wf : hitMapC.wf p)
    (hl : (payload typeHitMap1 (encHitMap p)).length < 2147483648) :
    collect (frame p.hdr.pcode license (payload typeHitMap1 (encHitMap p)) ++ r)
      = some (⟨p.hdr.pcode, hash64 license, typeHitMap1, .hitmap p⟩, r) := by
  refine collect_frame _ _ _ _ _ _ (by decide) wf.1.1.1 hl ?_
  have h := decodable_hitmap p [] wf
  rw [List.append_nil] at h
  unfold decodeBody
  rw [if_neg (by decide), if_neg (by decide), if_neg (by decide), if_neg (by decide), if_neg (by decide),
    if_neg (by decide), if_pos rfl, h]; rfl

theorem collector_decodes_counter (p : Counter) (license r : Bytes) (wf : (counterC Value.WFV).wf p)
    (hl : (payload typeCounter1 (encCounter p)).length < 2147483648) :
    collect (frame p.hdr.pcode license (payload typeCounter1 (encCounter p)) ++ r)
      = some (⟨p.hdr.pcode, hash64 license, typeCounter1, .counter p⟩, r) := by
  refine collect_frame _ _ _ _ _ _ (by decide) wf.1.1 hl ?_
  have h := decodable_counter p [] wf
  rw [List.append_nil] at h
  unfold decodeBody
  rw [if_neg (by decide), if_neg (by decide), if_neg (by decide), if_neg (by decide), if_neg (by decide),
    if_neg (by decide), if_neg (by decide), if_pos rfl]
  show mapDec AnyPack.counter ((counterC Value.WFV).dec (encCounter p)) = _
  rw [h]; rfl

/-- a frame whose pack type is none of the eight is refused, not misread -/
theorem collector_refuses_unknown_type (body : Bytes) (ty : Nat)
    (h : ty ∉ [typeTagCount, typeLogSink, typeText, typeParameter, typeEvent, typeZip, typeHitMap1, typeCounter1]) :
    decodeBody ty body = none := by
  simp only [List.mem_cons, List.mem_nil_iff, or_false, not_or] at h
  unfold decodeBody
  simp [h.1, h.2.1, h.2.2.1, h.2.2.2.1, h.2.2.2.2.1, h.2.2.2.2.2.1, h.2.2.2.2.2.2.1, h.2.2.2.2.2.2.2]

/-- D27 (repaired by proposed/C05/fix-D27.diff): a (project, object) meter entry written WITHOUT the
    active-slice array is not what the layout says — the reference decoder reads the next decimal's
    length byte as the slice count and fails or misreads.  Witness: one entry, all fields zero except
    actx = 1: the entry is `00 00 00 00 00 | 00 | 01 01` by the layout, `00 00 00 00 00 | 01 01` without
    the array, and the latter does not decode as an entry followed by nothing. -/
theorem finding_D27 :
    let e : PoidEntry := ⟨0, 0, 0, 0, 0, [], 1⟩
    let withoutActs : Bytes := encDecimal e.pcode ++ encDecimal e.oid ++ encDecimal e.time ++
      encDecimal e.count ++ encDecimal e.error ++ encDecimal e.actx
    encPoidEntry e = [0, 0, 0, 0, 0, 0, 1, 1] ∧ withoutActs = [0, 0, 0, 0, 0, 1, 1] ∧
    poidEntryC.dec (encPoidEntry e) = some (e, []) ∧ poidEntryC.dec withoutActs ≠ some (e, []) := by
  decide

/-! non-vacuity: concrete packs satisfy the hypotheses, and concrete bytes -/

/-- a concrete counter pack with sections present and absent, meters, slices -/
def sampleCounter : Counter :=
  { hdr := ⟨12345, -7, 3, 0, 1700000000000⟩,
    duration := 0,
    cputime := 1,
    heapTot := -129,
    heapUse := 70000,
    heapPerm := 1099511627776,
    heapPendingFinalization := -4611686018427387904,
    gcCount := 0,
    gcTime := 1,
    serviceCount := -129,
    serviceError := 70000,
    serviceTime := 1099511627776,
    sqlCount := -4611686018427387904,
    sqlError := 0,
    sqlTime := 1,
    sqlFetchCount := -129,
    sqlFetchTime := 70000,
    httpcCount := 1099511627776,
    httpcError := -4611686018427387904,
    httpcTime := 0,
    actSvcCount := 1,
    actSvcSlice := [1, -2, 3],
    cpu := 1065353216,
    cpuSys := 1065353216,
    cpuUsr := 1065353216,
    cpuWait := 1065353216,
    cpuSteal := 1065353216,
    cpuIrq := 1065353216,
    cpuProc := 1065353216,
    cpuCores := 1099511627776,
    mem := 1065353216,
    swap := 1065353216,
    disk := 1065353216,
    threadTotalStarted := -129,
    threadCount := 70000,
    threadDaemon := 1099511627776,
    threadPeakCount := -4611686018427387904,
    dbPool := some ⟨[(1, 2)], []⟩,
    netstat := some ⟨1, 2, 3, 4⟩,
    procFd := -129,
    tps := 1065353216,
    respTime := 1099511627776,
    apType := -2,
    websocket := none,
    starttime := 1,
    packDropped := -129,
    hostIp := 70000,
    macHash := 1099511627776,
    extra := some [(7, .text [104, 105])],
    pid := 4242,
    activeStat := [1, -2, 3],
    threadPoolActiveCount := -129,
    threadPoolQueueSize := 70000,
    oidMeter := some [⟨1, 1000, 3, 0, 1⟩],
    sqlMeter := some [],
    httpcMeter := none,
    groupMeter := none,
    unknown := some ⟨9, 8, 7, 6⟩,
    containerKey := 70000,
    txDbcTime := 1065353216,
    txSqlTime := 1065353216,
    txHttpcTime := 1065353216,
    apdexSatisfied := 1,
    apdexTolerated := -129,
    arrivalRate := 1065353216,
    gcOldgenCount := 1099511627776,
    version := 3,
    heapMax := 0,
    procFdMax := 1,
    metering := 1065353216,
    apdexTotal := 70000,
    poidMeter := [⟨12345, -3, 500, 2, 0, [1, 0, 0], 1⟩],
    resp90 := -4611686018427387904,
    resp95 := 0,
    timeSqrSum := 1 }

set_option maxRecDepth 8000 in
theorem sampleCounter_wf : (counterC Value.WFV).wf sampleCounter := by
  simp only [counterC, Codec.iso, Codec.seq, Codec.wrapBlob, counterBodyT, Counter.toTuple, sampleCounter,
    hdrC, Codec.ofP, Codec.decimal, Codec.f32, Codec.i16, Codec.i32, Codec.u8, shorts8C, Codec.counted, Codec.byteCount,
    Codec.opt, Codec.versioned, Codec.lit, Codec.imap, Codec.decimalCount, dbPoolC, intIntC, netStatC, webSocketC,
    oidEntryC, sqlEntryC, groupEntryC, poidEntryC, unknownC]
  simp [WFHdr, inRange_8, inRange_4, inRange_2, Value.WFV]
  decide

example : collect (frame 12345 (ascii "abcdefg") (payload typeCounter1 (encCounter sampleCounter)))
    = some (⟨12345, 3463164852, typeCounter1, .counter sampleCounter⟩, []) := by
  have := collector_decodes_counter sampleCounter (ascii "abcdefg") [] sampleCounter_wf (by decide +kernel)
  rw [List.append_nil] at this
  have h : hash64 (ascii "abcdefg") = 3463164852 := by decide +kernel
  rw [h] at this
  exact this

example : (counterC Value.WFV).dec (encCounter sampleCounter) = some (sampleCounter, []) := by
  have := decodable_counter sampleCounter [] sampleCounter_wf
  simpa using this

example : ∀ p ∈ ([(ascii "host", ascii "a")] : List (Bytes × Bytes)), reserved p.1 = false := by decide
example : Event.ofWire (Event.toWire ⟨⟨1, 2, 0, 0, 3⟩, ascii "u", true, 30, ascii "t", [], -5, 7, [(ascii "host", ascii "a")]⟩)
    = some ⟨⟨1, 2, 0, 0, 3⟩, ascii "u", true, 30, ascii "t", [], -5, 7, [(ascii "host", ascii "a")]⟩ := by
  decide +kernel

example : WFHdr ⟨12345, -7, 0, 0, 1700000000000⟩ := by decide
example : encHdr ⟨12345, -7, 0, 0, 1700000000000⟩ = [2, 48, 57, 255, 255, 255, 249, 0, 0, 1, 139, 207, 229, 104, 0] := by decide
example : encHdr ⟨0, 1, 2, 0, 3⟩ = [9, 0, 0, 0, 0, 1, 0, 0, 0, 2, 0, 0, 0, 0, 0, 0, 0, 0, 0, 0, 0, 3] := by decide
example : frame 5 [] (payload typeZip (encZip ⟨⟨5, 1, 0, 0, 1000⟩, 1, 2, [1, 2]⟩)) =
    [10, 0, 0, 0, 0, 0, 0, 0, 0, 5, 0, 0, 0, 0, 0, 0, 0, 0, 0, 0, 0, 22,
     23, 11, 1, 5, 0, 0, 0, 1, 0, 0, 0, 0, 0, 0, 3, 232, 1, 1, 2, 2, 1, 2] := by decide +kernel
example : zipC.wf ⟨⟨5, 1, 0, 0, 1000⟩, 1, 2, [1, 2]⟩ := by
  show WFHdr _ ∧ (1 : Nat) < 256 ∧ inRange 8 (2 : Int) ∧ [1, 2].length < 2147483648
  decide
example : hash64 (ascii "abcdefg") = 3463164852 := by decide +kernel
example : (foldAttrs ⟨⟨0, 0, 0, 0, 0⟩, [], true, 30, [], [], -5, 7, []⟩).map (fun kv => kv.1) = [keyEsca, keyStatus, keyOtype] := by
  decide +kernel
example : decText (-5) = ascii "-5" ∧ decText 2147483647 = ascii "2147483647" ∧ decText 0 = ascii "0" := by
  decide +kernel

/-! audit round: non-vacuity of the hypotheses that had no example yet, and sharpness of the one-byte count -/

example : (tagCountC Value.WFV).wf (TagCount.norm ⟨⟨1, 2, 0, 0, 3⟩, ascii "c", 7, [(ascii "k", .text (ascii "v"))], [(ascii "n", .dec 5)]⟩) := by
  rw [wf_tagcount]
  decide +kernel

example : (logSinkC Value.WFV).wf (LogSink.norm ⟨⟨1, 2, 0, 0, 3⟩, ascii "c", 7, [], 5, ascii "x", []⟩) := by
  show WFHdr _ ∧ True ∧ _ < 2147483648 ∧ inRange 8 _ ∧ Value.WFV _ ∧ inRange 8 _ ∧ _ < 2147483648 ∧ (optMapC Value.WFV).wf _
  refine ⟨by decide, trivial, by decide, by decide, by decide, by decide, by decide, ?_⟩
  show (Codec.opt (Codec.smap Value.WFV)).wf (optOfMap [])
  exact trivial

example : textC.wf ⟨⟨1, 2, 0, 0, 3⟩, [⟨1, -5, ascii "t"⟩]⟩ := by
  rw [wf_text]
  decide +kernel

example : (paramC Value.WFV).wf ⟨⟨1, 2, 0, 0, 3⟩, 4, 5, 6, [(ascii "k", .dec 1)]⟩ := by
  rw [wf_param]
  decide +kernel

example : eventWireC.wf (Event.toWire ⟨⟨1, 2, 0, 0, 3⟩, ascii "u", true, 30, ascii "t", [], -5, 7, [(ascii "host", ascii "a")]⟩) := by
  rw [wf_event]
  decide +kernel

example : ∃ p : TagCount, p.norm.tagHash ≠ 0 := ⟨⟨⟨1, 2, 0, 0, 3⟩, [], 5, [], []⟩, by decide⟩

example : ∃ p : TagCount, p.tagHash = 0 ∧ p.tags ≠ [] := ⟨⟨⟨1, 2, 0, 0, 3⟩, [], 0, [([1], .null)], []⟩, by decide⟩

/-- the hypothesis "at most 255 attributes on the wire" of `decodable_event` is exactly what the one-byte count can
    carry: with 256 (252 of the application + the four reserved ones) the count byte is 0 and the reference decoder
    does not get the event back — the writer (`byte(sz)`) has no guard there; such events are outside the protocol -/
theorem event_attr_cap_is_sharp :
    let e : Event := ⟨⟨1, 2, 0, 0, 3⟩, ascii "u", false, 0, [], [], 0, 0, (List.range 252).map (fun i => ([i], []))⟩
    (foldAttrs e).length = 256 ∧ eventWireC.dec (encEvent e) ≠ some (e.toWire, []) := by
  decide +kernel

end C05
