/-
  Extension check X01 — composite key types (hmap.LinkedKey implementations) and the path tree.

  Part 1 (this file, `X01.*` up to `linked_map_over_keys`): lang/variable/{I2,I3,L2,L3}.go, lang/POID.go, PKIND.go,
  PKOID.go, lang/topology/LINK.go.   CodeModel: Golib/Ext/Keys.lean.   Evident laws:

    (K1) Equals is field-wise equality (hence an equivalence relation), equal keys have equal Hash,
         so util/hmap's LinkedMap / LinkedSet (model and refinement theorem of C09) is a dictionary over them;
    (K2) CompareTo is the lexicographic total order, consistent with Equals;
    (K3) ToBytes / ToObject round-trip every value and consume exactly their bytes.

  The code satisfies K1 for all types; K2 for I2 I3 L2 L3 but NOT for POID/PKIND/PKOID (sign of a wrapped
  difference: `finding_poid_compare_*`); K3 for I2 L2 L3, NOT for I3 (`finding_i3_tobytes`) and for LINK only while
  Port fits int32 (`finding_link_port`).  LINK.Equals(nil) panics (`finding_link_equals_nil`).

  Part 2: util/pathutil/PathTree.go.   CodeModel: Golib/Ext/PathTree.lean.   See the second half of this file.
-/
import Golib.Ext.KeysLemmas
import Golib.Ext.PathTreeLemmas
import Golib.HMap.LinkedStep

set_option linter.unusedSectionVars false
set_option linter.unusedVariables false

namespace X01
open Ext.Keys Prim

/-! ## K1 — Equals is field-wise equality; Hash respects it -/

theorem i2_equals_iff (a b : I2) : I2.equals a b = true ↔ a = b := by
  cases a; cases b; simp [I2.equals]; omega
theorem i3_equals_iff (a b : I3) : I3.equals a b = true ↔ a = b := by
  cases a; cases b; simp [I3.equals]; omega
theorem l2_equals_iff (a b : L2) : L2.equals a b = true ↔ a = b := by
  cases a; cases b; simp [L2.equals]
theorem l3_equals_iff (a b : L3) : L3.equals a b = true ↔ a = b := by
  cases a; cases b; simp [L3.equals]; omega
/-- POID and PKIND (the same code over `Oid` / `OKind`) -/
theorem poid_equals_iff (a b : POID) : POID.equals a b = true ↔ a = b := by
  cases a; cases b; simp [POID.equals]; omega
theorem pkoid_equals_iff (a b : PKOID) : PKOID.equals a b = true ↔ a = b := by
  cases a; cases b; simp [PKOID.equals]; omega
/-- LINK: the IP bytes (a nil and an empty IP are the same key) and the port -/
theorem link_equals_iff (a b : LINK) : LINK.equals a b = true ↔ a = b := by
  cases a; cases b; simp [LINK.equals, equalBytes_iff]

/-- a Boolean relation that coincides with `=` is an equivalence relation -/
theorem equivalence_of_iff {α : Type} (eq : α → α → Bool) (h : ∀ a b, eq a b = true ↔ a = b) :
    (∀ a, eq a a = true) ∧ (∀ a b, eq a b = eq b a) ∧ (∀ a b c, eq a b = true → eq b c = true → eq a c = true) := by
  refine ⟨fun a => (h a a).mpr rfl, fun a b => ?_, fun a b c h1 h2 => (h a c).mpr (((h a b).mp h1).trans ((h b c).mp h2))⟩
  by_cases e : a = b
  · subst e; rfl
  · have h1 : eq a b = false := by cases hh : eq a b <;> simp_all
    have h2 : eq b a = false := by
      cases hh : eq b a
      · rfl
      · exact absurd ((h b a).mp hh).symm e
    rw [h1, h2]

theorem equals_is_equivalence :
    ((∀ a, I2.equals a a = true) ∧ (∀ a b, I2.equals a b = I2.equals b a) ∧ (∀ a b c, I2.equals a b = true → I2.equals b c = true → I2.equals a c = true)) ∧
    ((∀ a, I3.equals a a = true) ∧ (∀ a b, I3.equals a b = I3.equals b a) ∧ (∀ a b c, I3.equals a b = true → I3.equals b c = true → I3.equals a c = true)) ∧
    ((∀ a, L2.equals a a = true) ∧ (∀ a b, L2.equals a b = L2.equals b a) ∧ (∀ a b c, L2.equals a b = true → L2.equals b c = true → L2.equals a c = true)) ∧
    ((∀ a, L3.equals a a = true) ∧ (∀ a b, L3.equals a b = L3.equals b a) ∧ (∀ a b c, L3.equals a b = true → L3.equals b c = true → L3.equals a c = true)) ∧
    ((∀ a, POID.equals a a = true) ∧ (∀ a b, POID.equals a b = POID.equals b a) ∧ (∀ a b c, POID.equals a b = true → POID.equals b c = true → POID.equals a c = true)) ∧
    ((∀ a, PKOID.equals a a = true) ∧ (∀ a b, PKOID.equals a b = PKOID.equals b a) ∧ (∀ a b c, PKOID.equals a b = true → PKOID.equals b c = true → PKOID.equals a c = true)) ∧
    ((∀ a, LINK.equals a a = true) ∧ (∀ a b, LINK.equals a b = LINK.equals b a) ∧ (∀ a b c, LINK.equals a b = true → LINK.equals b c = true → LINK.equals a c = true)) :=
  ⟨equivalence_of_iff _ i2_equals_iff, equivalence_of_iff _ i3_equals_iff, equivalence_of_iff _ l2_equals_iff,
   equivalence_of_iff _ l3_equals_iff, equivalence_of_iff _ poid_equals_iff, equivalence_of_iff _ pkoid_equals_iff,
   equivalence_of_iff _ link_equals_iff⟩

/-- equal keys hash equally, and the hash is a 64-bit `uint` -/
theorem hash_consistent :
    (∀ a b, I2.equals a b = true → I2.hash a = I2.hash b) ∧ (∀ a b, I3.equals a b = true → I3.hash a = I3.hash b) ∧
    (∀ a b, L2.equals a b = true → L2.hash a = L2.hash b) ∧ (∀ a b, L3.equals a b = true → L3.hash a = L3.hash b) ∧
    (∀ a b, POID.equals a b = true → POID.hash a = POID.hash b) ∧
    (∀ a b, PKOID.equals a b = true → PKOID.hash a = PKOID.hash b) ∧
    (∀ a b, LINK.equals a b = true → LINK.hash a = LINK.hash b) :=
  ⟨fun a b h => by rw [(i2_equals_iff a b).mp h], fun a b h => by rw [(i3_equals_iff a b).mp h],
   fun a b h => by rw [(l2_equals_iff a b).mp h], fun a b h => by rw [(l3_equals_iff a b).mp h],
   fun a b h => by rw [(poid_equals_iff a b).mp h], fun a b h => by rw [(pkoid_equals_iff a b).mp h],
   fun a b h => by rw [(link_equals_iff a b).mp h]⟩

theorem hash_is_uint64 (a : I2) (b : I3) (c : L2) (d : L3) (e : POID) (f : PKOID) (g : LINK) :
    I2.hash a < 2 ^ 64 ∧ I3.hash b < 2 ^ 64 ∧ L2.hash c < 2 ^ 64 ∧ L3.hash d < 2 ^ 64 ∧
    POID.hash e < 2 ^ 64 ∧ PKOID.hash f < 2 ^ 64 ∧ LINK.hash g < 2 ^ 64 :=
  ⟨toUint_lt _, toUint_lt _, toUint_lt _, toUint_lt _, toUint_lt _, toUint_lt _, toUint_lt _⟩

/-- the hash values the code computes (not the ones of the Java original: I2 folds V2 first) -/
example : I2.hash ⟨1, 2⟩ = 1024 ∧ I2.hash ⟨2, 1⟩ = 994 ∧ I3.hash ⟨1, 2, 3⟩ = 30817 := by decide
/-- a negative int32 result is sign-extended by `uint(result)` -/
example : I2.hash ⟨-2000, 0⟩ = 18446744073709550577 := by decide
/-- Equals ≠ Hash-equality: distinct keys may collide (31·v2 + v1 is not injective) -/
example : I2.hash ⟨31, 0⟩ = I2.hash ⟨0, 1⟩ ∧ I2.equals ⟨31, 0⟩ ⟨0, 1⟩ = false := by decide

/-- LINK.Include: same IP and (own port 0 = any port, or the same port); Equals implies Include -/
theorem link_equals_includes (a b : LINK) (h : LINK.equals a b = true) : LINK.includes a b = true := by
  have := (link_equals_iff a b).mp h; subst this
  have e : equalBytes a.ip a.ip = true := (equalBytes_iff _ _).mpr rfl
  simp [LINK.includes, e]

/-- **finding**: `LINK.Equals(nil)` dereferences the nil `*LINK` it has just declined to assign -/
theorem finding_link_equals_nil (a : LINK) : LINK.equalsOpt a none = none := rfl

/-! ### the linked map / set of C09 over these keys

`HMap.LMap` (CodeModel of util/hmap.LinkedMap / LinkedSet: bucket table indexed by `Hash() % len`, chains searched
with `Equals`) is generic in the key type with decidable equality and in the hash function.  By `*_equals_iff` the
Go `Equals` IS that decidable equality, and `Hash` is a function of the key, so the refinement theorem applies. -/

open HMap in
theorem linked_map_refines {K V : Type} [DecidableEq K] [DecidableEq V] (hash : K → Nat) (thr : Nat → Nat)
    (d : Desc K V) (cap : Nat) (ops : List (Op K V)) :
    (LMap.run hash thr d (LMap.new thr cap) ops).2 = (S.run d {} ops).2 := by
  have := (LMap.refine_run thr ops (LMap.Inv.new (hash := hash) (thr := thr) (d := d) cap)).2.1
  rw [LMap.abs_new] at this
  exact this

open HMap in
/-- every history on a LinkedMap keyed by I2 / I3 / L2 / L3 / POID(PKIND) / PKOID / LINK with the code's own Hash
    answers exactly like the insertion-ordered dictionary -/
theorem linked_map_over_keys {V : Type} [DecidableEq V] (thr : Nat → Nat) (cap : Nat) :
    (∀ (d : Desc I2 V) ops, (LMap.run I2.hash thr d (LMap.new thr cap) ops).2 = (S.run d {} ops).2) ∧
    (∀ (d : Desc I3 V) ops, (LMap.run I3.hash thr d (LMap.new thr cap) ops).2 = (S.run d {} ops).2) ∧
    (∀ (d : Desc L2 V) ops, (LMap.run L2.hash thr d (LMap.new thr cap) ops).2 = (S.run d {} ops).2) ∧
    (∀ (d : Desc L3 V) ops, (LMap.run L3.hash thr d (LMap.new thr cap) ops).2 = (S.run d {} ops).2) ∧
    (∀ (d : Desc POID V) ops, (LMap.run POID.hash thr d (LMap.new thr cap) ops).2 = (S.run d {} ops).2) ∧
    (∀ (d : Desc PKOID V) ops, (LMap.run PKOID.hash thr d (LMap.new thr cap) ops).2 = (S.run d {} ops).2) ∧
    (∀ (d : Desc LINK V) ops, (LMap.run LINK.hash thr d (LMap.new thr cap) ops).2 = (S.run d {} ops).2) :=
  ⟨fun d ops => linked_map_refines _ thr d cap ops, fun d ops => linked_map_refines _ thr d cap ops,
   fun d ops => linked_map_refines _ thr d cap ops, fun d ops => linked_map_refines _ thr d cap ops,
   fun d ops => linked_map_refines _ thr d cap ops, fun d ops => linked_map_refines _ thr d cap ops,
   fun d ops => linked_map_refines _ thr d cap ops⟩

/-! ## K2 — CompareTo -/

/-- I2 I3 L2 L3: CompareTo is the three-way lexicographic comparison: −1 / 0 / +1 exactly for `<` / `=` / `>` -/
theorem i2_compare (a b : I2) :
    (I2.compareTo a b = 0 ↔ a = b) ∧
    (I2.compareTo a b = -1 ↔ a.v1 < b.v1 ∨ (a.v1 = b.v1 ∧ a.v2 < b.v2)) ∧
    (I2.compareTo a b = 1 ↔ b.v1 < a.v1 ∨ (b.v1 = a.v1 ∧ b.v2 < a.v2)) ∧
    I2.compareTo b a = - I2.compareTo a b := by
  refine ⟨?_, ?_, ?_, ?_⟩
  · cases a; cases b; simp [I2.compareTo, cmpLex_zero]
  · simp [I2.compareTo, cmpLex_neg, lexLt]
  · simp [I2.compareTo, cmpLex_pos, lexLt, swapPairs]
  · exact cmpLex_swap [(a.v1, b.v1), (a.v2, b.v2)]

theorem l2_compare (a b : L2) :
    (L2.compareTo a b = 0 ↔ a = b) ∧
    (L2.compareTo a b = -1 ↔ a.v1 < b.v1 ∨ (a.v1 = b.v1 ∧ a.v2 < b.v2)) ∧
    (L2.compareTo a b = 1 ↔ b.v1 < a.v1 ∨ (b.v1 = a.v1 ∧ b.v2 < a.v2)) ∧
    L2.compareTo b a = - L2.compareTo a b := by
  refine ⟨?_, ?_, ?_, ?_⟩
  · cases a; cases b; simp [L2.compareTo, cmpLex_zero]
  · simp [L2.compareTo, cmpLex_neg, lexLt]
  · simp [L2.compareTo, cmpLex_pos, lexLt, swapPairs]
  · exact cmpLex_swap [(a.v1, b.v1), (a.v2, b.v2)]

theorem i3_compare (a b : I3) :
    (I3.compareTo a b = 0 ↔ a = b) ∧
    (I3.compareTo a b = -1 ↔ a.v1 < b.v1 ∨ (a.v1 = b.v1 ∧ (a.v2 < b.v2 ∨ (a.v2 = b.v2 ∧ a.v3 < b.v3)))) ∧
    (I3.compareTo a b = 1 ↔ b.v1 < a.v1 ∨ (b.v1 = a.v1 ∧ (b.v2 < a.v2 ∨ (b.v2 = a.v2 ∧ b.v3 < a.v3)))) ∧
    I3.compareTo b a = - I3.compareTo a b := by
  refine ⟨?_, ?_, ?_, ?_⟩
  · cases a; cases b; simp [I3.compareTo, cmpLex_zero]
  · simp [I3.compareTo, cmpLex_neg, lexLt]
  · simp [I3.compareTo, cmpLex_pos, lexLt, swapPairs]
  · exact cmpLex_swap [(a.v1, b.v1), (a.v2, b.v2), (a.v3, b.v3)]

theorem l3_compare (a b : L3) :
    (L3.compareTo a b = 0 ↔ a = b) ∧
    (L3.compareTo a b = -1 ↔ a.v1 < b.v1 ∨ (a.v1 = b.v1 ∧ (a.v2 < b.v2 ∨ (a.v2 = b.v2 ∧ a.v3 < b.v3)))) ∧
    (L3.compareTo a b = 1 ↔ b.v1 < a.v1 ∨ (b.v1 = a.v1 ∧ (b.v2 < a.v2 ∨ (b.v2 = a.v2 ∧ b.v3 < a.v3)))) ∧
    L3.compareTo b a = - L3.compareTo a b := by
  refine ⟨?_, ?_, ?_, ?_⟩
  · cases a; cases b; simp [L3.compareTo, cmpLex_zero]
  · simp [L3.compareTo, cmpLex_neg, lexLt]
  · simp [L3.compareTo, cmpLex_pos, lexLt, swapPairs]
  · exact cmpLex_swap [(a.v1, b.v1), (a.v2, b.v2), (a.v3, b.v3)]

/-- transitivity (with the characterisation above: a strict total order) -/
theorem compare_trans :
    (∀ a b c : I2, I2.compareTo a b = -1 → I2.compareTo b c = -1 → I2.compareTo a c = -1) ∧
    (∀ a b c : I3, I3.compareTo a b = -1 → I3.compareTo b c = -1 → I3.compareTo a c = -1) ∧
    (∀ a b c : L2, L2.compareTo a b = -1 → L2.compareTo b c = -1 → L2.compareTo a c = -1) ∧
    (∀ a b c : L3, L3.compareTo a b = -1 → L3.compareTo b c = -1 → L3.compareTo a c = -1) := by
  refine ⟨fun a b c => ?_, fun a b c => ?_, fun a b c => ?_, fun a b c => ?_⟩
  · rw [(i2_compare a b).2.1, (i2_compare b c).2.1, (i2_compare a c).2.1]; omega
  · rw [(i3_compare a b).2.1, (i3_compare b c).2.1, (i3_compare a c).2.1]; omega
  · rw [(l2_compare a b).2.1, (l2_compare b c).2.1, (l2_compare a c).2.1]; omega
  · rw [(l3_compare a b).2.1, (l3_compare b c).2.1, (l3_compare a c).2.1]; omega

/-- POID / PKIND / PKOID: the evident law is `compareTo = compareSpec` (lexicographic on pcode, [okind,] oid).
    It holds exactly while the subtractions do not overflow. -/
theorem poid_compare_partial (a b : POID)
    (h1 : I64 (a.pcode - b.pcode)) (h2 : I32 (a.oid - b.oid)) :
    POID.compareTo a b = POID.compareSpec a b := by
  unfold POID.compareTo POID.compareSpec
  rw [wrap64_id _ h1, wrap32_id _ h2]
  exact cmpDiff_cons_of_fits _ _ _ _ _ rfl (cmpDiff_single_of_fits _ _ _ rfl) (by simp)

theorem pkoid_compare_partial (a b : PKOID)
    (h1 : I64 (a.pcode - b.pcode)) (h2 : I32 (a.okind - b.okind)) (h3 : I32 (a.oid - b.oid)) :
    PKOID.compareTo a b = PKOID.compareSpec a b := by
  unfold PKOID.compareTo PKOID.compareSpec
  rw [wrap64_id _ h1, wrap32_id _ h2, wrap32_id _ h3]
  exact cmpDiff_cons_of_fits _ _ _ _ _ rfl
    (cmpDiff_cons_of_fits _ _ _ _ _ rfl (cmpDiff_single_of_fits _ _ _ rfl) (by simp)) (by simp)

/-- the hypothesis is satisfiable by real keys (project codes and object ids of moderate size) -/
example : I64 ((⟨123456789012, -5⟩ : POID).pcode - (⟨-99, 7⟩ : POID).pcode) ∧ I32 ((-5 : Int) - 7) := by decide

/-- even with overflow CompareTo answers 0 exactly on equal keys (consistent with Equals) -/
theorem poid_compare_zero (a b : POID) (ha : POID.WF a) (hb : POID.WF b) : POID.compareTo a b = 0 ↔ a = b := by
  obtain ⟨ap, ao⟩ := a; obtain ⟨bp, bo⟩ := b
  obtain ⟨ha1, ha2⟩ := ha; obtain ⟨hb1, hb2⟩ := hb
  simp only at ha1 ha2 hb1 hb2
  have z1 := wrap64_zero ap bp ha1 hb1
  have z2 := wrap32_zero ao bo ha2 hb2
  simp only [POID.compareTo, cmpDiff, sgn, POID.mk.injEq]
  constructor
  · intro h
    by_cases e1 : wrap64 (ap - bp) = 0
    · by_cases e2 : wrap32 (ao - bo) = 0
      · exact ⟨z1.mp e1, z2.mp e2⟩
      · simp [e1, e2] at h; split at h <;> omega
    · simp [e1] at h; split at h <;> omega
  · rintro ⟨e1, e2⟩
    simp [z1.mpr e1, z2.mpr e2]

/-- **finding**: antisymmetry fails — both `a.CompareTo(b)` and `b.CompareTo(a)` are −1 -/
theorem finding_poid_compare_antisym :
    POID.compareTo ⟨-9223372036854775808, 0⟩ ⟨0, 0⟩ = -1 ∧ POID.compareTo ⟨0, 0⟩ ⟨-9223372036854775808, 0⟩ = -1 ∧
    POID.compareTo ⟨0, -2147483648⟩ ⟨0, 0⟩ = -1 ∧ POID.compareTo ⟨0, 0⟩ ⟨0, -2147483648⟩ = -1 := by decide

/-- **finding**: transitivity fails — a < b, b < c but a > c (and the same through the int32 field) -/
theorem finding_poid_compare_trans :
    POID.compareTo ⟨-9223372036854775808, 0⟩ ⟨0, 0⟩ = -1 ∧ POID.compareTo ⟨0, 0⟩ ⟨9223372036854775807, 0⟩ = -1 ∧
    POID.compareTo ⟨-9223372036854775808, 0⟩ ⟨9223372036854775807, 0⟩ = 1 ∧
    PKOID.compareTo ⟨0, -2147483648, 0⟩ ⟨0, 0, 0⟩ = -1 ∧ PKOID.compareTo ⟨0, 0, 0⟩ ⟨0, 2147483647, 0⟩ = -1 ∧
    PKOID.compareTo ⟨0, -2147483648, 0⟩ ⟨0, 2147483647, 0⟩ = 1 := by decide

/-- **finding**: the answer contradicts the numeric order: pcode 3·10^18 vs −7·10^18 compares as "less" -/
theorem finding_poid_compare_order :
    POID.compareTo ⟨3000000000000000000, 0⟩ ⟨-7000000000000000000, 0⟩ = -1 ∧
    POID.compareSpec ⟨3000000000000000000, 0⟩ ⟨-7000000000000000000, 0⟩ = 1 := by decide

/-! ## K3 — ToBytes / ToObject -/

theorem i2_roundtrip (k : I2) (r : Bytes) (h : I2.WF k) : P.run I2.toObject (I2.toBytes k ++ r) = some (k, r) :=
  run_rd2 4 k.v1 k.v2 r (I32_inRange _ h.1) (I32_inRange _ h.2) I2.mk

theorem l2_roundtrip (k : L2) (r : Bytes) (h : L2.WF k) : P.run L2.toObject (L2.toBytes k ++ r) = some (k, r) :=
  run_rd2 8 k.v1 k.v2 r (I64_inRange _ h.1) (I64_inRange _ h.2) L2.mk

theorem l3_roundtrip (k : L3) (r : Bytes) (h : L3.WF k) : P.run L3.toObject (L3.toBytes k ++ r) = some (k, r) :=
  run_rd3 8 k.v1 k.v2 k.v3 r (I64_inRange _ h.1) (I64_inRange _ h.2.1) (I64_inRange _ h.2.2) L3.mk

/-- I3: what comes back is (V1, V2, V2) — the round trip holds exactly for keys with V3 = V2 -/
theorem i3_roundtrip_partial (k : I3) (r : Bytes) (h : I3.WF k) :
    P.run I3.toObject (I3.toBytes k ++ r) = some (⟨k.v1, k.v2, k.v2⟩, r) :=
  run_rd3 4 k.v1 k.v2 k.v2 r (I32_inRange _ h.1) (I32_inRange _ h.2.1) (I32_inRange _ h.2.1) I3.mk

theorem i3_roundtrip_iff (k : I3) (r : Bytes) (h : I3.WF k) :
    P.run I3.toObject (I3.toBytes k ++ r) = some (k, r) ↔ k.v3 = k.v2 := by
  rw [i3_roundtrip_partial k r h]; cases k; simp; omega

/-- **finding**: I3.ToBytes never writes V3 -/
theorem finding_i3_tobytes :
    I3.toBytes ⟨1, 2, 3⟩ = [0,0,0,1, 0,0,0,2, 0,0,0,2] ∧
    P.run I3.toObject (I3.toBytes ⟨1, 2, 3⟩) = some (⟨1, 2, 2⟩, []) := by decide

/-- the encodings have the fixed sizes the Go code allocates and consist of bytes -/
theorem tobytes_sizes (a : I2) (b : I3) (c : L2) (d : L3) :
    (I2.toBytes a).length = 8 ∧ (I3.toBytes b).length = 12 ∧ (L2.toBytes c).length = 16 ∧ (L3.toBytes d).length = 24 ∧
    WFB (I2.toBytes a) ∧ WFB (I3.toBytes b) ∧ WFB (L2.toBytes c) ∧ WFB (L3.toBytes d) :=
  ⟨encFields_length _ _, encFields_length _ _, encFields_length _ _, encFields_length _ _,
   encFields_WFB _ _, encFields_WFB _ _, encFields_WFB _ _, encFields_WFB _ _⟩

/-- a buffer shorter than the encoding makes ToObject fail (index out of range in Go) -/
theorem toobject_short (bs : Bytes) :
    (bs.length < 8 → P.run I2.toObject bs = none) ∧ (bs.length < 12 → P.run I3.toObject bs = none) ∧
    (bs.length < 16 → P.run L2.toObject bs = none) ∧ (bs.length < 24 → P.run L3.toObject bs = none) := by
  refine ⟨fun h => ?_, fun h => ?_, fun h => ?_, fun h => ?_⟩
  all_goals
    cases hr : P.run _ bs with
    | none => rfl
    | some vr =>
      exfalso
      obtain ⟨v, r⟩ := vr
      simp only [I2.toObject, I3.toObject, L2.toObject, L3.toObject, P.bind, rdI, P.run_read, P.run_pure] at hr
      repeat' split at hr
      all_goals first | (simp only [List.length_drop] at *; omega) | (exact absurd hr (by simp))

/-- LINK on the stream: blob(IP) then int32(Port); round trip while Port fits int32 -/
theorem link_roundtrip_partial (k : LINK) (r : Bytes) (hip : k.ip.length < 2147483648) (hp : I32 k.port) :
    P.run LINK.toObject (LINK.toBytes k ++ r) = some (k, r) := by
  unfold LINK.toObject LINK.toBytes
  rw [List.append_assoc, P.run_bind_some _ _ _ _ _ (run_decBlob k.ip _ hip)]
  rw [P.run_bind_some _ _ _ _ _ (run_rdI 4 k.port r (I32_inRange _ hp))]
  rfl

example : (⟨[127, 0, 0, 1], 8080⟩ : LINK).ip.length < 2147483648 ∧ I32 (8080 : Int) := by decide

/-- **finding**: a Port outside int32 (it is a Go `int`) comes back truncated -/
theorem finding_link_port :
    P.run LINK.toObject (LINK.toBytes ⟨[10, 0, 0, 1], 4294967376⟩) = some (⟨[10, 0, 0, 1], 80⟩, []) := by decide

/-! ## Part 2 — util/pathutil.PathTree refines an association from paths to values

  Spec      `Log V` (the effective inserts, newest first) with `Log.get` (exact path), `Log.has` (some stored path has this
            prefix) and `specFind` (greedy resolution: literal segment before `*`, `*` only for a non-empty segment, no
            backtracking); `absStep` / `absRun` is the abstract machine.
  CodeModel `PT V` / `insertArray` / `findArray` / `step` / `run` (Golib/Ext/PathTree.lean): the first-child / next-sibling
            ENTRY tree with the code's own linking rules and counter.
  `Rep t l` is the representation invariant (siblings distinct, `*` last; exact lookup and node existence of the tree are
  `l.get` / `l.has`; count ≤ number of ENTRYs; every stored path has ≥ 2 segments).
-/

section PathTree
open Ext.PathTree
variable {V : Type}

/-- the empty tree represents the empty association, and every operation preserves the representation -/
theorem tree_rep_init : Rep ({} : PT V) [] := rep_init
theorem tree_rep_step (t : PT V) (l : Log V) (op : Op V) (h : Rep t l) : Rep (step t op).1 (absStep l op).1 :=
  rep_step t l op h

/-- one operation answers like the association (Insert: the previous value of exactly that path, nil for an ignored
    insert; Find: the greedy resolution; enumeration: see `finding_tree_enumeration`); Size is excluded, see below -/
theorem tree_step_out (t : PT V) (l : Log V) (op : Op V) (h : Rep t l) (hs : op.isSize = false) :
    (step t op).2 = (absStep l op).2 := step_out t l op h hs

/-- every finite history from `NewPathTree()`: the answers are those of the association -/
theorem tree_refines (ops : List (Op V)) (hs : ∀ op ∈ ops, op.isSize = false) :
    (run ({} : PT V) ops).2 = (absRun [] ops).2 ∧ Rep (run ({} : PT V) ops).1 (absRun [] ops).1 :=
  run_refines ops hs

/-- Find after Insert: a stored path is found with its latest value, whatever else is stored (wildcards included) -/
theorem tree_find_stored (t : PT V) (l : Log V) (h : Rep t l) (p : Path) (v : V) (hp : l.get p = some v) :
    findArray t p = some v := find_stored t l h p v hp

/-- Find of any path = greedy resolution over the stored paths -/
theorem tree_find_eq_spec (t : PT V) (l : Log V) (h : Rep t l) (p : Path) :
    findArray t p = specFind l.has l.get p := find_eq_spec t l h p

/-- Insert returns the previous value and then the new one is found (two-or-more segments, non-nil value) -/
theorem tree_insert_then_find (t : PT V) (l : Log V) (h : Rep t l) (n m : Seg) (r : Path) (v : V) :
    (insertArray t (n :: m :: r) (some v)).2 = l.get (n :: m :: r) ∧
    findArray (insertArray t (n :: m :: r) (some v)).1 (n :: m :: r) = some v := by
  have ho := step_out t l (.ins (n :: m :: r) (some v)) h rfl
  have hr := rep_step t l (.ins (n :: m :: r) (some v)) h
  simp only [step, absStep] at ho hr
  refine ⟨?_, ?_⟩
  · have : Out.val (insertArray t (n :: m :: r) (some v)).2 = Out.val (l.get (n :: m :: r)) := by
      simpa using ho
    exact Out.val.inj this
  · apply find_stored _ _ hr
    simp [Log.ins, Log.get]

/-- non-vacuity: a history with a wildcard, an overwrite and lookups that resolve through `*` -/
example : (run ({} : PT Nat) [.ins ["", "a", "*"] (some 1), .ins ["", "a", "b"] (some 2), .ins ["", "a", "b"] (some 3),
      .get ["", "a", "b"], .get ["", "a", "zz"], .get ["", "a", ""], .get ["", "a"]]).2
    = [.val none, .val none, .val (some 2), .val (some 3), .val (some 1), .val none, .val none] := by decide

/-- inserts that the code ignores: nil value, empty path, **one-segment path** -/
theorem tree_insert_one_segment (t : PT V) (s : Seg) (v : Option V) (p : Path) :
    insertArray t [s] v = (t, none) ∧ insertArray t [] v = (t, none) ∧ insertArray t p none = (t, none) := by
  refine ⟨?_, ?_, ?_⟩
  · cases v <;> rfl
  · cases v <;> rfl
  · rfl

/-- **finding**: Find after Insert fails for a path of one segment — nothing is stored -/
theorem finding_tree_one_segment :
    findArray (insertArray ({} : PT Nat) ["a"] (some 1)).1 ["a"] = none ∧
    findArray (insertArray ({} : PT Nat) ["*"] (some 1)).1 ["x"] = none := by
  decide

/-- Size(): never more than the number of ENTRYs of the tree … -/
theorem tree_size_le_nodes (t : PT V) (l : Log V) (h : Rep t l) : size t ≤ t.top.nodes := count_le_nodes t l h

/-- **finding**: … but neither the number of stored paths nor a function of them: one path gives 3; the same two
    paths give 3 or 2 depending on the insertion order (the first ENTRY created below a leaf is not counted) -/
theorem finding_tree_size_not_paths : size (insertArray ({} : PT Nat) ["", "a", "b"] (some 1)).1 = 3 := by decide
theorem finding_tree_size_order :
    size (insertArray (insertArray ({} : PT Nat) ["", "a", "b"] (some 1)).1 ["", "a"] (some 2)).1 = 3 ∧
    size (insertArray (insertArray ({} : PT Nat) ["", "a"] (some 2)).1 ["", "a", "b"] (some 1)).1 = 2 ∧
    (insertArray (insertArray ({} : PT Nat) ["", "a"] (some 2)).1 ["", "a", "b"] (some 1)).1.top.nodes = 3 := by decide

/-- **finding**: the enumerator returned by Paths()/Values()/Entries() is never positioned on the tree: it yields
    nothing, whatever is stored -/
theorem finding_tree_enumeration (t : PT V) (all : List (Path × V)) :
    (enumerOf t).hasMore = false ∧ (enumerOf t).drain all = [] := ⟨rfl, rfl⟩

/-- what an enumeration of the structure would have to yield — every stored (path, value) exactly once — is well
    defined on the tree (`Tree.flatten`, pre-order) -/
theorem tree_flatten_complete (t : PT V) (l : Log V) (h : Rep t l) (p : Path) (v : V) :
    ((p, v) ∈ t.top.flatten [] ↔ l.get p = some v) ∧ ((t.top.flatten []).map (·.1)).Nodup := by
  refine ⟨?_, flatten_nodup _ h.1⟩
  rw [flatten_complete _ h.1]
  cases p with
  | nil =>
    simp only [ne_eq, not_true_eq_false, false_and, false_iff]
    intro hg
    obtain ⟨e, he, hp⟩ := Log.len_of_get hg
    have := h.2.2.2.2 e he
    rw [hp] at this; simp at this
  | cons a b => simp [lkP, h.2.1 a b]

/-- **finding**: Find commits to the first matching sibling: with /a/b/c and /a/*/d stored, /a/b/d is not found
    although the stored pattern /a/*/d matches it segment by segment -/
theorem finding_tree_no_backtracking :
    findArray (insertArray (insertArray ({} : PT Nat) ["", "a", "b", "c"] (some 1)).1 ["", "a", "*", "d"] (some 2)).1
      ["", "a", "b", "d"] = none ∧
    findArray (insertArray (insertArray ({} : PT Nat) ["", "a", "b", "c"] (some 1)).1 ["", "a", "*", "d"] (some 2)).1
      ["", "a", "x", "d"] = some 2 := by decide

end PathTree

end X01
