/-
  Property C16, tie A — obligations over the facts regenerated from
  logsink/zip/ZipSendProxyThread.go by `xlate/c16` (Golib/Gen/C16.lean).

  Each theorem says that what the source contains *now* is what the ZipSender model
  (variant `fixed`) was written against; together with the lemmas of
  Golib.ZipSender.Facts (`mustFlush_is_refAppend`, `mkPack_is_refDoZip`, …) the model's
  decisions are the source's expressions.  A change of a constant, of the assignment order
  in GetInstance, of a flush condition, of the copy at the hand-over or of the drain loop
  makes the corresponding `decide` fail.
-/
import Golib.Gen.C16
import Golib.ZipSender.FactsLoop
import Golib.ZipSender.WireFacts
import Golib.ZipSender.FactsWire
import Golib.Packs.Skeletons

namespace C16Gen
open ZipSender

/-- the `const (…)` block: 5000 ms, 1000, 1024*64 bytes, 100 bytes -/
theorem constants_agree : Gen.C16.constants = defaults := by decide

/-- GetInstance: defaults first, then each option only under `if o.<field> > 0` (D31 repaired);
    this sequence *is* the model's `resolve .fixed` -/
theorem getInstance_assignments_agree :
    Gen.C16.getInstanceAssigns = getInstanceFixed ∧ Gen.C16.getInstanceUnrecognised = [] := by decide

theorem getInstance_resolve (o : Settings) : resolveBy Gen.C16.getInstanceAssigns o = resolve .fixed o := by
  rw [getInstance_assignments_agree.1]; rfl

/-- ApplyConfig: keys and fall-back values -/
theorem applyConfig_keys_agree : Gen.C16.applyConfigKeys = refConfigKeys := by decide

/-- Append: `if firstTime == 0 { firstTime = p.Time; if C1 {flush} } else { if C2 {flush} }` -/
theorem append_conditions_agree : Gen.C16.appendShape = refAppend := by decide

theorem sendAndClear_guard_agrees : Gen.C16.sendAndClearGuard = refSendAndClearGuard := by decide

theorem doZip_guards_agree : Gen.C16.doZipGuards = refDoZipGuards := by decide

theorem sendDirect_conditions_agree :
    Gen.C16.directLoopCond = refDirectLoop ∧ Gen.C16.directTailCond = refDirectTail := by decide

/-- all three hand-over sites pass a view of a `bytes.Buffer` through doZip and reuse the buffer … -/
theorem handover_sites_agree : Gen.C16.handOvers = refHandOvers := by decide

/-- … and doZip leaves no view behind: small payloads are copied, large ones replaced by gzip
    output (D32 repaired) — the model's `copyOnHandOver` -/
theorem handover_owned_agrees :
    (Gen.C16.handOvers.all (·.doZipBefore) && Gen.C16.doZipSmallCopies && Gen.C16.doZipZippedFresh)
      = Variant.fixed.copyOnHandOver := by decide

/-- run: the Done branch drains the queue before the last flush (D33 repaired); the idle
    branch flushes -/
theorem run_loop_agrees :
    Gen.C16.runDoneDrains = Variant.fixed.drainOnStop ∧ Gen.C16.runDoneFlushes = true ∧
    Gen.C16.runIdleFlushes = true := by decide

/-! ### the condition expressions, interpreted: the model's decisions are the *source's* expressions
    evaluated in the state (`Cnd.eval` of Golib.ZipSender.Facts), for every state and record -/

section
variable {ρ : Type}

/-- `ApplyConfig` as transcribed (setting ← GetInt(key, fall-back), in source order) computes, for every
    configuration, exactly the settings the model's `applyConfig` installs -/
theorem applyConfig_in_source (c : Conf) (s : Settings) :
    applyKeys Gen.C16.applyConfigKeys c.lookup s = c.resolve := by
  rw [applyConfig_keys_agree]; exact applyKeys_ref_is_resolve c s

/-- … and the transcription is faithful to the control flow: the body of ApplyConfig is the straight line
    `lock; queueSize := …; if changed { set; resize the queue if there is one }; three assignments` — every
    other statement is recorded as an unrecognised row (which `applyConfig_keys_agree` rejects), and
    there is no `return` that could skip the settings that follow -/
theorem applyConfig_no_early_exit : Gen.C16.applyConfigReturns = 0 := by decide

/-- `Append` flushes exactly when the source's condition — the `firstTime == 0` split, then the size
    test or the size-or-age test — evaluates to true after the write -/
theorem append_decision_in_source (C : Codec ρ) (s : State ρ) (r : ρ) :
    mustFlush C s r ↔
      (if Gen.C16.appendShape.split.eval (appendEnv C s r) then Gen.C16.appendShape.first.eval (appendEnv C s r)
       else Gen.C16.appendShape.other.eval (appendEnv C s r)) = true := by
  rw [append_conditions_agree]; exact mustFlush_is_refAppend C s r

/-- `sendAndClear` hands nothing over exactly when the source's guard (`buffer.Len() == 0`) holds -/
theorem sendAndClear_guard_in_source (v : Variant) (Z : Zip) (C : Codec ρ) (s : State ρ) :
    (sendAndClear v Z C s).2 = [] ↔
      Gen.C16.sendAndClearGuard.eval { Env.zero with bufLen := s.bufLen } = true := by
  rw [sendAndClear_guard_agrees]; exact sendAndClear_guard_is_ref v Z C s

/-- a pack is compressed exactly when none of `doZip`'s early-return guards (status already set,
    `len(p.Records) < zipMin`) fires -/
theorem doZip_decision_in_source (v : Variant) (Z : Zip) (st : Settings) (src : Src) (alias : Ref) (recs : List ρ)
    (count : Nat) (bytes : Bytes) :
    (mkPack v Z st src alias recs count bytes).zipped =
      !(Gen.C16.doZipGuards.any (fun c => c.eval { Env.zero with zipMin := st.zipMin, recordsLen := bytes.length })) := by
  rw [doZip_guards_agree]; exact mkPack_is_refDoZip v Z st src alias recs count bytes

/-- `SendDirect` hands a pack over inside its loop exactly when the source's loop condition holds -/
theorem sendDirect_decision_in_source (v : Variant) (Z : Zip) (C : Codec ρ) (st : Settings) (k : Nat) (d : DLoop ρ) (r : ρ) :
    ((directStep v Z C st k d r).out.length = d.out.length + 1) ↔
      Gen.C16.directLoopCond.eval { Env.zero with bufLen := ((d.len + (C.enc r).length : Nat) : Int), maxBuf := st.maxBuf } = true := by
  rw [sendDirect_conditions_agree.1]; exact directStep_is_refDirectLoop v Z C st k d r

end

/-- D69 repaired: ApplyConfig replaces the settings under `settingsMutex`, and every other reader
    (the background loop, Append, doZip, SendDirect) goes through a getter that takes the read lock —
    no unsynchronised access to the four settings is left (the race detector run of the harness is the
    dynamic counterpart) -/
theorem settings_guarded : Gen.C16.applyConfigLocks = true ∧ Gen.C16.unguardedSettingReads = [] := by decide

/-! ### interpreted obligations: the transcribed statements are given their semantics
    (`execR`, `execS` of Golib.ZipSender.FactsLoop) and are the model's functions for all inputs -/

/-- the transcribed body of `run()` is the reference loop body … -/
theorem run_loop_interpreted : Gen.C16.runIR = refRun := by decide

variable {ρ : Type}

/-- … so executing the source's Done branch *is* the model's `stop` (drain, last flush, return) … -/
theorem run_done_is_stop (Z : Zip) (C : Codec ρ) (s : State ρ) (hs : s.stopped = false) :
    execR .fixed Z C none Gen.C16.runIR.done s = ((stop .fixed Z C s).1, (stop .fixed Z C s).2, true) := by
  rw [run_loop_interpreted]; exact stop_is_execR .fixed Z C s hs

/-- … executing its "GetTimeout returned a record" branch is the model's `step` on a non-empty queue … -/
theorem run_got_is_step (Z : Zip) (C : Codec ρ) (s : State ρ) (r : ρ) (q : List ρ)
    (hs : s.stopped = false) (hq : s.queue = r :: q) :
    execR .fixed Z C (some r) Gen.C16.runIR.got { s with queue := q } =
      ((step .fixed Z C s).1, (step .fixed Z C s).2, false) := by
  rw [run_loop_interpreted]; exact step_got_is_execR .fixed Z C s r q hs hq

/-- … and its else branch (the idle timeout) is `step` on an empty queue; the timeout handed to
    GetTimeout is the waiting time in force -/
theorem run_idle_is_step (Z : Zip) (C : Codec ρ) (s : State ρ) (hs : s.stopped = false) (hq : s.queue = []) :
    execR .fixed Z C none Gen.C16.runIR.idle s = ((step .fixed Z C s).1, (step .fixed Z C s).2, false) ∧
    Gen.C16.runIR.timeout = .maxWait := by
  rw [run_loop_interpreted]; exact ⟨step_idle_is_execR .fixed Z C s hs hq, rfl⟩

/-- the transcribed tail of `sendAndClear` (hand-over, error branch, the three resets) is the
    reference tail … -/
theorem send_tail_interpreted : Gen.C16.sendTail = refTail := by decide

/-- … the model's flush is its semantics … -/
theorem sendAndClear_is_source_tail (Z : Zip) (C : Codec ρ) (s : State ρ) (h : s.bufLen ≠ 0) :
    (sendAndClear .fixed Z C s).1 =
      execS C (s.answers.headD true) Gen.C16.sendTail { s with answers := s.answers.tail } := by
  rw [send_tail_interpreted]; exact sendAndClear_is_execS .fixed Z C s h

/-- … and that semantics does not look at the client's answer: a hand-over is final -/
theorem handover_final_in_source (C : Codec ρ) (s : State ρ) (ok ok' : Bool) :
    execS C ok Gen.C16.sendTail s = execS C ok' Gen.C16.sendTail s := by
  rw [send_tail_interpreted]; exact refTail_ignores_answer C s ok ok'

/-! ### the pack on the wire (regenerated by `xlate/c03` from lang/pack: ZipPack.go, LogSinkPack.go, the CreatePack switch) -/

/-- `GetPackType` of the container and of the records, and the `CreatePack` entries that bring their
    readers back, are the type codes the wire model uses (`Wire.zipCode` = 0x170b, `LogSink.code` = 0x170a) -/
theorem pack_type_codes_in_source :
    Gen.Packs.packType.lookup "ZipPack" = some Wire.zipCode ∧ Gen.Packs.registry.lookup Wire.zipCode = some "ZipPack" ∧
    Gen.Packs.packType.lookup "LogSinkPack" = some LogSink.code ∧
    Gen.Packs.registry.lookup LogSink.code = some "LogSinkPack" := by decide

/-- `ZipPack.Write` and `ZipPack.Read` as they are in the source now agree field by field (header,
    status byte, decimal record count, blob): the hypothesis under which `transmitted_pack_reads_back`
    and `receiver_end_to_end` speak about the code -/
theorem zip_wire_layouts_agree : Layout.agrees Gen.Packs.ZipPack.w Gen.Packs.ZipPack.r = true := Wire.zip_agrees

/-- … and the writer is the layout the wire model was written against -/
theorem zip_writer_in_source : Gen.Packs.ZipPack.w =
    .hdr (.fld "Status" .u8 .u8 (.fld "RecordCount" .dec .i64 (.fld "Records" .blob .any .nil))) := by decide

/-- `ZipPack.SetRecords` / `GetRecords`: the statement skeletons C03's container model (`Zip.setRecords`,
    `Zip.getRecords`, used by `emitted_is_setRecords` / `receiver_gets_records`) was written against -/
theorem zip_container_skeletons_in_source :
    Gen.Packs.skel.ZipPack_SetRecords = Packs.Skeletons.ZipPack_SetRecords ∧
    Gen.Packs.skel.ZipPack_GetRecords = Packs.Skeletons.ZipPack_GetRecords := by decide

/-! ### ZipPack.SetRecords / GetRecords and SetTcpClient, statement by statement (interpreted) -/

theorem zip_setRecords_interpreted : Gen.C16.zipSetRecords = refSetRecords := by decide

/-- the transcribed `SetRecords` *is* C03's `Zip.setRecords` (which `emitted_is_setRecords` is about),
    for every receiver and every argument -/
theorem zip_setRecords_is_source (z : Packs.Zip) (ps : List Packs.PV) :
    execSet ps Gen.C16.zipSetRecords z [] = some (z.setRecords ps) := by
  rw [zip_setRecords_interpreted]; exact execSet_ref z ps

theorem zip_getRecords_interpreted : Gen.C16.zipGetRecords = refGetRecords := by decide

/-- the transcribed `GetRecords` (nil guard, `RecordCount` rounds of `ReadPack`, the four stamps, append)
    *is* C03's `Zip.getRecords` (which `receiver_gets_records` / `receiver_end_to_end` are about), for
    every factory and every container -/
theorem zip_getRecords_is_source (fac : Packs.Factory) (z : Packs.Zip) :
    execGet fac z Gen.C16.zipGetRecords ⟨[], []⟩ = Packs.Zip.getRecords fac z := by
  rw [zip_getRecords_interpreted]; exact execGet_ref fac z

theorem setTcpClient_interpreted : Gen.C16.setTcpClient = refSetTcpClient := by decide

/-- the transcribed `SetTcpClient` is the `setClient` input of the model (`crun_setClient`): the client
    becomes the argument, the sender's state is untouched, nothing is handed over -/
theorem setTcpClient_is_source {ρ : Type} (s : State ρ) (k k' : Nat) :
    execClient k' Gen.C16.setTcpClient (s, k) = some ((s, k'), []) := by
  rw [setTcpClient_interpreted]; rfl

end C16Gen
