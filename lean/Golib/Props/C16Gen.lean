/-
  Property C16, tie A — obligations over the facts regenerated from
  logsink/zip/ZipSendProxyThread.go by `xlate/c16` (Golib/Gen/C16.lean).

  Each theorem says that what the source contains *now* is what the ZipSender model
  (variant `fixed`) was written against; together with the lemmas of
  Golib.ZipSender.Facts (`mustFlush_is_refAppend`, `mkPack_is_refDoZip`, …) the model's
  decisions are the source's expressions.  A change of a constant, of the assignment order
  in GetInstance, of a flush condition, of the copy at the hand-over or of the drain loop
  makes the corresponding `decide` fail.
-/
import Golib.Gen.C16
import Golib.ZipSender.Facts

namespace C16Gen
open ZipSender

/-- the `const (…)` block: 5000 ms, 1000, 1024*64 bytes, 100 bytes -/
theorem constants_agree : Gen.C16.constants = defaults := by decide

/-- GetInstance: defaults first, then each option only under `if o.<field> > 0` (D31 repaired);
    this sequence *is* the model's `resolve .fixed` -/
theorem getInstance_assignments_agree :
    Gen.C16.getInstanceAssigns = getInstanceFixed ∧ Gen.C16.getInstanceUnrecognised = [] := by decide

theorem getInstance_resolve (o : Settings) : resolveBy Gen.C16.getInstanceAssigns o = resolve .fixed o := by
  rw [getInstance_assignments_agree.1]; rfl

/-- ApplyConfig: keys and fall-back values -/
theorem applyConfig_keys_agree : Gen.C16.applyConfigKeys = refConfigKeys := by decide

/-- Append: `if firstTime == 0 { firstTime = p.Time; if C1 {flush} } else { if C2 {flush} }` -/
theorem append_conditions_agree : Gen.C16.appendShape = refAppend := by decide

theorem sendAndClear_guard_agrees : Gen.C16.sendAndClearGuard = refSendAndClearGuard := by decide

theorem doZip_guards_agree : Gen.C16.doZipGuards = refDoZipGuards := by decide

theorem sendDirect_conditions_agree :
    Gen.C16.directLoopCond = refDirectLoop ∧ Gen.C16.directTailCond = refDirectTail := by decide

/-- all three hand-over sites pass a view of a `bytes.Buffer` through doZip and reuse the buffer … -/
theorem handover_sites_agree : Gen.C16.handOvers = refHandOvers := by decide

/-- … and doZip leaves no view behind: small payloads are copied, large ones replaced by gzip
    output (D32 repaired) — the model's `copyOnHandOver` -/
theorem handover_owned_agrees :
    (Gen.C16.handOvers.all (·.doZipBefore) && Gen.C16.doZipSmallCopies && Gen.C16.doZipZippedFresh)
      = Variant.fixed.copyOnHandOver := by decide

/-- run: the Done branch drains the queue before the last flush (D33 repaired); the idle
    branch flushes -/
theorem run_loop_agrees :
    Gen.C16.runDoneDrains = Variant.fixed.drainOnStop ∧ Gen.C16.runDoneFlushes = true ∧
    Gen.C16.runIdleFlushes = true := by decide

end C16Gen
