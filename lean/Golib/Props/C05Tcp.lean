/-
  Property C05, fault clause — lifted to the client's state machine.

  C06's model of net/oneway.OneWayTcpClient (Golib.Tcp, owner C06; imported, not edited) is a machine of
  atomic actions with frames as opaque byte strings `bytesOf sid`; its theorem `Tcp.fault_histories` covers ANY
  history of sends, dial faults, write and flush faults at arbitrary byte offsets, peer cuts at arbitrary byte
  counts, application Close() calls and idle periods.  Here the frames are instantiated with C05's reference
  frames (`Wire.frame pcode license payload`) and C05's receiver (`Wire.parseStream`) is run on what each
  connection delivered:

    for every such history, on every connection, a collector that parses frame after frame gets exactly the
    frames that arrived whole — in acceptance order, none of them on two connections — and is left with the
    truncated tail (empty, or a strict prefix of the next frame) which it never takes for a frame.

  The hypothesis `cfg.sendLocked = true` is C06's tie-A fact "sendDirect holds the send lock from makeData to
  Flush".
-/
import Golib.Tcp.Histories
import Golib.Props.C05

namespace C05
open Prim Wire Tcp

/-- the frame of send `sid` -/
def framesOf (snd : Nat → Sent) : Nat → Bytes := fun sid => (snd sid).bytes

theorem concatF_framesOf (snd : Nat → Sent) (sids : List Nat) :
    concatF (framesOf snd) sids = streamOf (sids.map snd) := by
  induction sids with
  | nil => rfl
  | cons x xs ih => simp [concatF, streamOf, framesOf, ih]

/-- a receiver's parse of whole frames followed by a truncated one -/
theorem parse_whole_then_tail (snd : Nat → Sent) (hw : ∀ sid, (snd sid).wf) (sids : List Nat) (tail : Bytes)
    (ht : tail = [] ∨ ∃ sid, tail <+: (snd sid).bytes ∧ tail ≠ (snd sid).bytes) :
    parseStream (sids.length + 1) (concatF (framesOf snd) sids ++ tail) = (sids.map (fun sid => (snd sid).parts), tail) := by
  have hq : P.run parseFrame tail = none := by
    rcases ht with rfl | ⟨sid, ⟨s, hs⟩, hne⟩
    · exact run_parseFrame_nil
    · have hsne : s ≠ [] := by
        intro e; subst e; simp at hs; exact hne hs
      exact frame_prefix_fails (snd sid).pcode (snd sid).license (snd sid).payload tail s (hw sid).1 (hw sid).2 hsne hs
  have := parseStream_whole (sids.map snd) tail (sids.length + 1) (by simp) (by
    intro x hx
    obtain ⟨sid, _, rfl⟩ := List.mem_map.mp hx
    exact hw sid) hq
  rw [concatF_framesOf, this, List.map_map]
  rfl

/-- **Fault histories, as seen by a collector.**  Any history of the client (sends, dial / write / flush faults
    at arbitrary byte offsets, peer cuts, Close(), idle time) whose frames are reference frames: there is a
    count `k c` per connection such that the collector's parse of what connection `c` delivered is exactly the
    first `k c` frames handed to it, with the truncated tail left over; over all connections the whole frames
    are strictly increasing in acceptance order (so none is whole on two connections, none twice) and all were
    accepted sends. -/
theorem fault_history_streams_decode (cfg : Cfg) (hl : cfg.sendLocked = true) (snd : Nat → Sent)
    (hw : ∀ sid, (snd sid).wf) (es : List HEv) (s : St)
    (h : runHist cfg (framesOf snd) es Tcp.init = some s) :
    ∃ k : Nat → Nat,
      (∀ c, ∃ tail,
          parseStream (((s.log.get c).take (k c)).length + 1) (s.delivered c)
            = (((s.log.get c).take (k c)).map (fun sid => (snd sid).parts), tail) ∧
          (tail = [] ∨ ∃ sid, (s.log.get c)[k c]? = some sid ∧ tail <+: (snd sid).bytes ∧ tail ≠ (snd sid).bytes)) ∧
      (wholeFrames s k).Pairwise (· < ·) ∧ (wholeFrames s k).Sublist s.handed := by
  obtain ⟨k, hk, hp, hs⟩ := fault_histories cfg (framesOf snd) hl es s h
  refine ⟨k, ?_, hp, hs⟩
  intro c
  obtain ⟨tail, hd, ht⟩ := hk c
  refine ⟨tail, ?_, ht⟩
  rw [hd]
  apply parse_whole_then_tail snd hw
  rcases ht with h0 | ⟨sid, _, h1, h2⟩
  · exact Or.inl h0
  · exact Or.inr ⟨sid, h1, h2⟩

/-- the frame of a pack: what `makeData` puts on the wire for a pack of type `ty` with body `body` -/
def packSent (pcode : Int) (license : Bytes) (ty : Nat) (body : Bytes) : Sent := ⟨pcode, license, payload ty body⟩

example : (packSent 5 [] typeZip (encZip ⟨⟨5, 1, 0, 0, 1000⟩, 1, 2, [1, 2]⟩)).wf := by
  refine ⟨by decide, by decide⟩

/-! non-vacuity: a concrete history on the model — a send that succeeds, a send whose write fails after 5 bytes,
    a send after the reconnect — runs, with 22-byte reference frames -/
def cfgAllLocked : Cfg := ⟨false, true, true, true, true, true, true⟩
def tinySent : Nat → Sent := fun sid => ⟨(sid % 1000 : Nat), [], []⟩

example : (runHist cfgAllLocked (framesOf tinySent) [.ok 1, .writeFault 1 5, .ok 1] Tcp.init).isSome = true := by
  decide +kernel

example : ∀ sid, (tinySent sid).wf := fun sid => ⟨by
  show inRange 8 ((sid % 1000 : Nat) : Int)
  rw [inRange_8]; omega, by show ([] : Bytes).length < 2147483648; decide⟩

end C05
