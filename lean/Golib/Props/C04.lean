/-
  Property C04 — decoders fail closed: no fabricated data, bounded memory on bad input.

    (a) no read returns bytes that were not in its input, so a strict prefix of a complete
        encoding never decodes — except where the format defines the shorter message as a
        complete older version;
    (b) decoding any byte string terminates, and what it allocates is proportional to the size
        of the input, not to length or count fields found inside it.

  Statements only; proofs are references to Golib.Basic (`P.locality`, `P.prefix_fails`) and
  Golib.FailClosed.*.  The model is the *repaired* code (proposed/C04/fix-D01.diff,
  fix-D02.diff); the behaviour of the code as found is modelled too (`A.runF`, `A.costF`,
  `decVA false`) and the `finding_*` theorems are the witnesses that it violates the property.
  Tie to /repo: harness/c04 (every truncation point of generated encodings on the real decoders,
  hostile length/count/tag overwrites in a memory-limited child process) and the regenerated
  allocation-site table Golib.Gen.AllocSites (Golib/Props/C04Gen.lean).
-/
import Golib.FailClosed.ValueAlloc
import Golib.FailClosed.ValueFuel
import Golib.FailClosed.ValueTotal
import Golib.FailClosed.Tail
import Golib.FailClosed.Findings
import Golib.FailClosed.PackA
import Golib.FailClosed.Stream
import Golib.FailClosed.Lazy
import Golib.FailClosed.Reuse
import Golib.FailClosed.ValueStream
import Golib.FailClosed.Pooled
import Golib.FailClosed.ExtraReads
import Golib.Value.Facts
import Golib.Layout.IR
import Golib.Step.Prefix
import Golib.Step.ValueInst

namespace C04
open FailClosed Prim Value

/-! ## (a) no fabricated data -/

/-- the repaired `ReadBytes(n)`: the decoder continues only when `n` bytes are there, and what
    it is handed are exactly the next `n` bytes of the input -/
theorem read_returns_input (n : Nat) (k : Bytes → A α) (bs : Bytes) (x : α × Bytes)
    (h : A.run (.read n k) bs = some x) :
    n ≤ bs.length ∧ (bs.take n).length = n ∧ bs.take n ++ bs.drop n = bs ∧
      A.run (k (bs.take n)) (bs.drop n) = some x := by
  rw [A.run_read] at h
  split at h
  · rename_i hn
    exact ⟨hn, by rw [List.length_take]; omega, List.take_append_drop n bs, h⟩
  · simp at h

/-- locality: a successful decode depends only on the bytes it consumed (every decoder
    expressible in the decoder monad) -/
theorem locality (p : P α) (bs : Bytes) (v : α) (r : Bytes) (h : P.run p bs = some (v, r)) :
    ∃ a, bs = a ++ r ∧ ∀ c, P.run p (a ++ c) = some (v, c) := P.locality p bs v r h

/-- **prefix failure**, generic: whatever decoder `p` is, if `q ++ s` is a complete encoding
    (decodes with nothing left) and `s ≠ []`, the strict prefix `q` does not decode -/
theorem prefix_fails (p : P α) (q s : Bytes) (v : α) (hs : s ≠ [])
    (h : P.run p (q ++ s) = some (v, [])) : P.run p q = none := P.prefix_fails p q s v hs h

/-- … also for decoders with allocations and availability guards -/
theorem prefix_fails_instrumented (a : A α) (ht : A.TailFree a) (q s : Bytes) (v : α)
    (hs : s ≠ []) (h : A.run a (q ++ s) = some (v, [])) : A.run a q = none :=
  A.prefix_fails a ht q s v hs h

/-- programs of primitive reads: every truncation point of the bytes of a well-formed program -/
theorem program_prefix_fails (ops : List Op) (q s : Bytes) (h : ∀ op ∈ ops, WFOp op)
    (hs : s ≠ []) (hq : q ++ s = writeAll ops) : P.run (readAll ops) q = none := by
  apply P.prefix_fails (readAll ops) q s ops hs
  rw [hq]; simpa using Prim.program_roundtrip ops [] h

/-- values (`value.ReadValue`), any fuel -/
theorem value_prefix_fails (f : Nat) (q s : Bytes) (v : Value) (hs : s ≠ [])
    (h : decV f (q ++ s) = some (v, [])) : decV f q = none := decV_prefix_fails f q s v hs h

/-- values, fuel taken from the input (`Value.decode`) -/
theorem value_decode_prefix_fails (q s : Bytes) (v : Value) (hs : s ≠ [])
    (h : Value.decode (q ++ s) = some (v, [])) : Value.decode q = none :=
  decode_prefix_fails q s v hs h

/-- for every well-formed value (`Value.WFV`: field ranges of the Go types, lengths the format can
    represent — C02's `decode_encV` supplies the round trip, no hypothesis left), all truncation
    points of its encoding -/
theorem value_encoding_prefix_fails (v : Value) (hwf : Value.WFV v)
    (q s : Bytes) (hs : s ≠ []) (hq : q ++ s = encV v) : Value.decode q = none :=
  decode_prefix_fails q s v hs (by rw [hq]; simpa using Value.decode_encV v [] hwf)

/-- the instrumented decoders decode exactly what the shared models decode: allocation order
    and availability guards are invisible in the result -/
theorem instrumented_value_same (fx : Bool) (f : Nat) (bs : Bytes) :
    A.run (decVA fx f) bs = decV f bs := run_decVA fx f bs

theorem instrumented_program_same (g : Bool) (ops : List Op) (bs : Bytes) :
    A.run (readAllA g ops) bs = P.run (readAll ops) bs := run_readAllA g ops bs

/-- the repair of `ReadBytes` removes no behaviour: whatever the repaired reader decodes the
    reader as found decodes identically -/
theorem repair_preserves (a : A α) (bs : Bytes) (x : α × Bytes) (h : A.run a bs = some x) :
    A.runF a bs false = some x := A.runF_of_run a bs x h

/-! ### the documented exception: tails guarded by `Available() == 0` (SMBasePack.Extra) -/

/-- a complete older-version message decodes to the older-version object -/
theorem older_version_ok (a : A α) (old : α → β) (t : α → A β) (q : Bytes) (x : α)
    (h : A.run a q = some (x, [])) : A.run (A.withTail a old t) q = some (old x, []) :=
  A.withTail_old a old t q x h

/-- … and that is the only strict prefix of a newer-version message that decodes -/
theorem older_version_only (a : A α) (old : α → β) (t : α → A β)
    (ha : A.TailFree a) (ht : ∀ x, A.TailFree (t x))
    (q s : Bytes) (v v' : β) (r' : Bytes) (hs : s ≠ [])
    (hfull : A.run (A.withTail a old t) (q ++ s) = some (v, []))
    (hq : A.run (A.withTail a old t) q = some (v', r')) :
    r' = [] ∧ ∃ x, A.run a q = some (x, []) ∧ v' = old x :=
  A.older_version_only a old t ha ht q s v v' r' hs hfull hq

/-! ## (b) termination and bounded allocation -/

/-- the decoders are total functions (structural recursion on the syntax / on the fuel); the
    fuel of the value decoder only bounds the recursion: more fuel never changes a result -/
theorem value_fuel_mono (f g : Nat) (hfg : f ≤ g) (bs : Bytes) (x : Value × Bytes)
    (h : decV f bs = some x) : decV g bs = some x := decV_fuel_mono f g hfg bs x h

/-- the fuel is never the reason for a failure: whatever fuel makes the value decoder succeed,
    `Value.decode` (fuel = input length + 1) succeeds with the same result.  So the recursion
    depth and the number of productive loop iterations are bounded by the input length, and
    `Value.decode bs = none` stands for a panic of the Go decoder, never for "ran out of steps" -/
theorem value_decode_complete (f : Nat) (bs : Bytes) (x : Value × Bytes)
    (h : decV f bs = some x) : Value.decode bs = some x := decode_complete f bs x h

theorem value_fuel_irrelevant (f g : Nat) (bs : Bytes) (hf : bs.length < f) (hg : bs.length < g) :
    decV f bs = decV g bs := decV_fuel_irrelevant f g bs hf hg

/-- every byte the repaired `ReadBytes` allocates is a byte it consumed: a decoder that only
    reads allocates exactly what it consumed when it succeeds, at most the input when it fails -/
theorem reads_allocate_what_they_consume (p : P α) (bs : Bytes) :
    match P.run p bs with
    | some (_, r) => A.cost (A.ofP p) bs + r.length = bs.length
    | none => A.cost (A.ofP p) bs ≤ bs.length := A.cost_ofP p bs

/-- **alloc_bounded**, generic: a decoder built from paid parts allocates at most `c` units per
    input byte, on every input -/
theorem alloc_bounded {c s : Nat} {a : A α} (h : Paid c s a) (bs : Bytes) :
    A.cost a bs ≤ c * bs.length := h.bounded bs

/-- a guarded `make`: `if N > Available() { panic }; make(u bytes); body` is paid when
    `u ≤ d·N` and a successful body consumes at least `N` bytes -/
theorem guarded_make_paid {c0 d s : Nat} (N u : Nat) (body : A α) (hb : Paid c0 s body)
    (hu : u ≤ d * N)
    (hcons : ∀ bs v r, A.run body bs = some (v, r) → r.length + N ≤ bs.length) :
    Paid (c0 + d) s (.need N (.alloc u body)) := paid_need_alloc N u body hb hu hcons

/-- programs of primitive reads (repaired array readers): ≤ 17 bytes per input byte, for all
    byte strings -/
theorem alloc_bounded_programs (ops : List Op) (bs : Bytes) :
    A.cost (readAllA true ops) bs ≤ 17 * bs.length := cost_readAllA_le ops bs

/-- `value.ReadValue` (repaired): ≤ 1280 bytes per input byte (1088 of them: the bucket table every map value is
    constructed with), for all byte strings and
    whatever the nesting -/
theorem alloc_bounded_values (f : Nat) (bs : Bytes) :
    A.cost (decVA true f) bs ≤ 1280 * bs.length := cost_decVA_le f bs

/-- `pack.TextPack.Read` (repaired: `CheckCount(size, 6)` before `make([]TextRec, size)`), the
    shape shared by the SM packs, `ReadDecimalArray*` and `BuildHyperLogLog`: ≤ 5 bytes per input
    byte on every input; the guard is invisible in the result; every strict prefix fails -/
theorem alloc_bounded_textPack (bs : Bytes) : A.cost (textPackA true) bs ≤ 5 * bs.length :=
  paid_textPackA.bounded bs

theorem textPack_guard_invisible (bs : Bytes) :
    A.run (textPackA true) bs = A.run (textPackA false) bs := run_textPackA bs

theorem textPack_prefix_fails (q s : Bytes) (v : List (Nat × Int × Bytes)) (hs : s ≠ [])
    (h : A.run (textPackA true) (q ++ s) = some (v, [])) : A.run (textPackA true) q = none :=
  A.prefix_fails _ (tailFree_textPackA true) q s v hs h

/-! ## steps and service records (C08's transcribed layouts): no assumption left

    `step.ReadStep` / `service.ToObject` over the registered layouts is a program of the decoder
    monad (`Step.readOneP`, proved equal to the reader C08 verifies), so the generic theorems
    apply to it as they are. -/

/-- a strict prefix of one registered step never decodes -/
theorem step_prefix_fails (s : Step.Item) (h : s.ok Step.valueRT Step.stepTable) (q a : Bytes)
    (ha : a ≠ []) (hq : q ++ a = s.bytes) : Step.readOne Step.stepTable q = none :=
  Step.tagged_prefix_fails Step.valueRT Step.stepTable (by decide) s h q a ha hq

/-- … nor of a service record -/
theorem service_prefix_fails (s : Step.Item) (h : s.ok Step.valueRT Step.serviceTable) (q a : Bytes)
    (ha : a ≠ []) (hq : q ++ a = s.bytes) : Step.readOne Step.serviceTable q = none :=
  Step.tagged_prefix_fails Step.valueRT Step.serviceTable (by decide) s h q a ha hq

/-- a truncated `ToBytesStep` stream read until the input is used up fails or yields a strict
    prefix of the steps — never a fabricated step -/
theorem steps_stream_prefix (ss : List Step.Item) (h : ∀ s ∈ ss, s.ok Step.valueRT Step.stepTable)
    (q a : Bytes) (ha : a ≠ []) (hq : q ++ a = Step.toBytesStep ss) :
    Step.readAll Step.stepTable q = none ∨
      ∃ k, k < ss.length ∧ Step.readAll Step.stepTable q = some ((ss.take k).map Step.Item.expected) :=
  Step.stream_prefix Step.valueRT Step.stepTable (by decide) ss h q a ha hq

/-- reading a step allocates through `ReadBytes` exactly what it consumes, never more than the input -/
/- `_partial`: the bound counts what `ReadBytes` allocates; the int array a step may carry
   (`ReadIntArray`, a guarded `make` of 4·n bytes) is bounded by `alloc_bounded_programs`' array reader, not here -/
theorem alloc_bounded_steps_partial (bs : Bytes) :
    A.cost (A.ofP (Step.readOneP Step.stepTable)) bs ≤ 1 * bs.length :=
  (paid_ofP0 (c := 1) _ (Nat.le_refl 1)).bounded bs

theorem step_reader_is_program (bs : Bytes) :
    A.run (A.ofP (Step.readOneP Step.stepTable)) bs = Step.readOne Step.stepTable bs := by
  rw [A.run_ofP]; exact Step.readOneP_run Step.stepTable (by decide) bs

/-! ## the stream input path (`io.NewDataInputNet`): fragmentation-independence

    A connection hands the bytes over in fragments of its own choosing (`Conn` = the fragments still
    to come); `ReadBytes(n)` loops over `Read` until `n` bytes are there and panics when the
    connection ends first (`readN`).  -/

/-- decoding over ANY fragmentation is decoding the concatenation: same outcome, same value, and
    what is left of the connection is what is left of the bytes -/
theorem stream_fragmentation_independent (p : P α) (c : Conn) :
    match runC p c with
    | some (v, c') => P.run p c.bytes = some (v, c'.bytes)
    | none => P.run p c.bytes = none := runC_eq p c

theorem stream_same_for_same_bytes (p : P α) (c d : Conn) (h : c.bytes = d.bytes) :
    (runC p c).map (fun x => (x.1, x.2.bytes)) = (runC p d).map (fun x => (x.1, x.2.bytes)) :=
  runC_fragmentation_independent p c d h

/-- a connection that ends before the end of a complete encoding makes the decoder fail,
    whatever the fragments -/
theorem stream_cut_fails (p : P α) (c : Conn) (s : Bytes) (v : α) (hs : s ≠ [])
    (h : P.run p (c.bytes ++ s) = some (v, [])) : runC p c = none := stream_prefix_fails p c s v hs h

/-- … and the complete encoding decodes over every fragmentation -/
theorem stream_complete_decodes (p : P α) (c : Conn) (v : α) (h : P.run p c.bytes = some (v, [])) :
    ∃ c', runC p c = some (v, c') ∧ c'.bytes = [] := stream_complete p c v h

/-- `value.ReadValue` on a connection (`CheckCount` is a no-op there, so the unguarded decoder runs;
    it is a program of the decoder monad): over any fragmentation it does what `Value.decV` does on
    the concatenated bytes, and a connection that ends mid-value makes it fail -/
theorem stream_value (f : Nat) (c : Conn) :
    match runC (valueP f) c with
    | some (v, c') => decV f c.bytes = some (v, c'.bytes)
    | none => decV f c.bytes = none := value_stream f c

theorem stream_value_cut_fails (f : Nat) (c : Conn) (s : Bytes) (v : Value) (hs : s ≠ [])
    (h : decV f (c.bytes ++ s) = some (v, [])) : runC (valueP f) c = none :=
  value_stream_cut_fails f c s v hs h

/-- instances: programs of primitive reads and registered steps over a connection -/
theorem stream_program_cut_fails (ops : List Op) (c : Conn) (s : Bytes) (h : ∀ op ∈ ops, WFOp op)
    (hs : s ≠ []) (hq : c.bytes ++ s = writeAll ops) : runC (readAll ops) c = none := by
  apply stream_prefix_fails (readAll ops) c s ops hs
  rw [hq]; simpa using Prim.program_roundtrip ops [] h

theorem stream_step_cut_fails (st : Step.Item) (h : st.ok Step.valueRT Step.stepTable) (c : Conn)
    (a : Bytes) (ha : a ≠ []) (hq : c.bytes ++ a = st.bytes) :
    runC (Step.readOneP Step.stepTable) c = none := by
  have h1 := Step.tagged_prefix_fails Step.valueRT Step.stepTable (by decide) st h c.bytes a ha hq
  rw [← Step.readOneP_run Step.stepTable (by decide)] at h1
  have h2 := runC_eq (Step.readOneP Step.stepTable) c
  cases hc : runC (Step.readOneP Step.stepTable) c with
  | none => rfl
  | some x => obtain ⟨v, c'⟩ := x; rw [hc] at h2; simp only at h2; rw [h1] at h2; simp at h2

/-! ## two-phase (lazy) decoding: fail-closed on every later look at the same object

    `StatGeneralPack` decodes its table on first use (`unpack`, Golib.FailClosed.Lazy): the encoded
    bytes are dropped only after the whole table decoded. -/

/-- a failed lazy decode fails again on the next access … -/
theorem lazy_error_sticky {T C : Type} (parse : Bytes → List C × Bool) (put : T → C → T)
    (s s' : Lazy.Obj T) (h : Lazy.unpack parse put s = .err s') :
    (Lazy.unpack parse put s').failed = true := Lazy.unpack_error_sticky parse put s s' h

/-- … and on every later one -/
theorem lazy_error_forever {T C : Type} (parse : Bytes → List C × Bool) (put : T → C → T) (n : Nat)
    (s s' : Lazy.Obj T) (h : Lazy.unpack parse put s = .err s') :
    (Lazy.accessN parse put n s').failed = true := Lazy.unpack_error_forever parse put n s s' h

/-- the failed decode is idempotent on the state (keyed table: putting the same columns again changes nothing) -/
theorem lazy_error_stable {T C : Type} (parse : Bytes → List C × Bool) (put : T → C → T)
    (hput : ∀ t cols, Lazy.putAll put (Lazy.putAll put t cols) cols = Lazy.putAll put t cols)
    (s s' : Lazy.Obj T) (h : Lazy.unpack parse put s = .err s') :
    Lazy.unpack parse put s' = .err s' := Lazy.unpack_error_stable parse put hput s s' h

/-- after a failed access `Write` emits exactly the undecoded bytes it would have emitted before, and
    `IsEmpty()` is false: the damaged table is never re-encoded as something else -/
theorem lazy_write_after_error {T C : Type} (parse : Bytes → List C × Bool) (put : T → C → T)
    (enc : T → Bytes) (empty : T → Bool) (s s' : Lazy.Obj T) (h : Lazy.unpack parse put s = .err s') :
    Lazy.write enc s' = s.raw ∧ Lazy.isEmpty empty s' = false :=
  ⟨(Lazy.write_after_error parse put enc s s' h).2, Lazy.isEmpty_after_error parse put empty s s' h⟩

theorem lazy_ok_idempotent {T C : Type} (parse : Bytes → List C × Bool) (put : T → C → T)
    (s s' : Lazy.Obj T) (h : Lazy.unpack parse put s = .ok s') :
    Lazy.unpack parse put s' = .ok s' := Lazy.unpack_ok_idempotent parse put s s' h

/-- **fail-closed over histories, for every two-phase decoder** (caching like StatGeneralPack's table
    or decoding afresh on every access like the `GetRecords` of ZipPack / LogSinkZipPack / Stat*Pack):
    if the bytes an object keeps do not decode, then in every sequence of accesses, writes and
    emptiness tests on that object every access fails, every write emits exactly the kept bytes and
    `IsEmpty()` is false -/
theorem lazy_history_fail_closed {T C : Type} (S : Lazy.Spec T C) (ops : List Lazy.Op) (s : Lazy.Obj T)
    (hne : s.raw ≠ []) (hbad : (S.parse s.raw).2 = false) :
    Lazy.runOps S s ops = ops.map (Lazy.brokenObs s.raw) := Lazy.history_fail_closed S ops s hne hbad

/-- frame: no history changes the kept bytes; a non-caching accessor changes nothing at all -/
theorem lazy_history_keeps_bytes {T C : Type} (S : Lazy.Spec T C) (ops : List Lazy.Op) (s : Lazy.Obj T)
    (hne : s.raw ≠ []) (hbad : (S.parse s.raw).2 = false) : (Lazy.finalObj S s ops).raw = s.raw :=
  Lazy.history_keeps_bytes S ops s hne hbad

theorem lazy_stateless_frame {T C : Type} (S : Lazy.Spec T C) (hc : S.cache = false) (s : Lazy.Obj T)
    (op : Lazy.Op) : (Lazy.step S s op).1 = s := Lazy.stateless_step_frame S hc s op

/-! ### object reuse -/

/-- a reader whose successful `Read` determines the object from the input alone: after ANY history of
    earlier `Read`s into the same object (failed or successful) a valid `Read` gives what a fresh
    decode gives -/
theorem reuse_after_any_history {S O : Type} (rd : Reuse.Reader S) (obs : S → O) (h : Reuse.Resets rd obs)
    (fresh : S) (hist : List Bytes) (good : Bytes) (hgood : (rd fresh good).2 = true) :
    (rd (Reuse.readAll rd fresh hist) good).2 = true ∧
      obs (rd (Reuse.readAll rd fresh hist) good).1 = obs (rd fresh good).1 :=
  Reuse.reuse_history rd obs h fresh hist good hgood

/-- instance: every reader seen through the fields its layout assigns (`Layout.L.read`'s result) resets,
    whatever a failed `Read` left behind (`junk`).  This is what the theorem side says about reuse for
    the transcribed readers; that the Go objects hold nothing else that survives a `Read` (unassigned
    fields, tables that are `Put` into) rests on tie B (reuse sweep) and tie A (`additive_readers_exact`) -/
theorem reuse_layout_readers (l : Layout.L) (pfx : String) (e : Layout.Env)
    (junk : Option Layout.Out → Bytes → Option Layout.Out) (hist : List Bytes) (good : Bytes)
    (hgood : (l.read pfx e good).isSome = true) :
    let rd := Reuse.fieldReader (fun bs => (l.read pfx e bs).map (·.1)) junk
    (rd (Reuse.readAll rd none hist) good).2 = true ∧
      (rd (Reuse.readAll rd none hist) good).1 = (rd none good).1 := by
  intro rd
  have h := Reuse.reuse_history rd id (Reuse.fieldReader_resets _ junk) none hist good (by
    show (Reuse.fieldReader _ junk none good).2 = true
    unfold Reuse.fieldReader
    cases hr : l.read pfx e good with
    | none => rw [hr] at hgood; simp at hgood
    | some o => simp [hr])
  exact h

/-- a non-caching two-phase decoder (`GetRecords`) whose kept bytes do not decode, empty or not:
    every access of every history fails -/
theorem lazy_stateless_access_fails {T C : Type} (S : Lazy.Spec T C) (hc : S.cache = false)
    (ops : List Lazy.Op) (s : Lazy.Obj T) (hbad : (S.parse s.raw).2 = false) :
    ∀ i : Nat, ops[i]? = some Lazy.Op.access → (Lazy.runOps S s ops)[i]? = some Lazy.Obs.failed :=
  Lazy.stateless_access_fails S hc ops s hbad

/-- the readers that `Put` into the table the object already holds are not of that kind (they are
    listed exactly by `C04Gen.additive_readers_exact`) -/
theorem reuse_additive_exception : ¬ Reuse.Resets Reuse.putReader id := Reuse.additive_not_reset

example : Reuse.Resets Reuse.assignReader id := Reuse.assignReader_resets

/-! ### the fixed-width readers no writer reaches (`ReadShortLittle`, `ReadUnsignedShortLittle`,
    `ReadIntLittle`, `ReadUintLittle`, `ReadUnsignedInt`, `ReadUShort`, `ReadDecimalLen(sz)`) -/

/-- one such read fails exactly when fewer bytes than its width are there; otherwise it consumes
    exactly its width and its value is a function of those bytes -/
theorem extra_read_exact (k : Extra.K) (bs : Bytes) :
    P.run (Extra.rd k) bs =
      if Extra.width k ≤ bs.length then
        some (Extra.val k (bs.take (Extra.width k)), bs.drop (Extra.width k)) else none :=
  Extra.run_rd k bs

/-- programs of them: rejected iff the input is shorter than the sum of the widths (so every strict
    prefix of an input of exactly that length is rejected), else exactly that many bytes consumed -/
theorem extra_program_exact (ks : List Extra.K) (bs : Bytes) :
    P.run (Extra.rdAll ks) bs =
      if Extra.total ks ≤ bs.length then some (Extra.vals ks bs, bs.drop (Extra.total ks)) else none :=
  Extra.run_rdAll ks bs

theorem extra_program_prefix_fails (ks : List Extra.K) (bs : Bytes) (h : bs.length < Extra.total ks) :
    P.run (Extra.rdAll ks) bs = none := Extra.rdAll_short_fails ks bs h

/-- … and what follows the program's bytes is neither read nor changes the values -/
theorem extra_program_trailing (ks : List Extra.K) (bs r : Bytes) (h : bs.length = Extra.total ks) :
    P.run (Extra.rdAll ks) (bs ++ r) = (P.run (Extra.rdAll ks) bs).map (fun x => (x.1, x.2 ++ r)) :=
  Extra.rdAll_append ks bs r h

example : P.run (Extra.rdAll [.shortLE, .uint, .decLen 1, .decLen 0, .decLen 7])
    [1, 255, 255, 255, 255, 255, 128, 0, 0, 0, 0, 0, 0, 0, 1, 9] = some ([-255, 4294967295, -128, 0, 1], [9]) := by
  decide
example : ([1, 2, 3] : Bytes).length < Extra.total [.intLE] := by decide

/-! ### one reader kept for several decodes (pooled / re-pointed sub-stream readers)

    "No read returns bytes that were not present in its input" for a SEQUENCE of decodes in one
    process.  A decoder that opens a sub-stream builds a new reader over exactly the blob
    (`io.NewDataInputX(din.ReadBlob())`): the replacing reset.  Tie A: `C04Gen.reader_buffer_set_only_by_constructor`
    (no function of package io but the constructor stores into a reader's buffer), tie B: the
    `after` stage (harness/c04/after.go), driver `PH` / `PHV`. -/

/-- with a replacing reset every decode of every history — whatever the reader held at the start,
    wherever the failed decodes before it stopped (`junk` arbitrary) — is the decode of its own input -/
theorem pooled_history_is_per_input (p : P α) (junk : Bytes → Bytes) (st : Bytes) (inputs : List Bytes) :
    Pooled.runHist Pooled.replace p junk st inputs = Pooled.perInput p inputs :=
  Pooled.replace_history_any_start p junk st inputs

/-- prefix failure at any position of any history: after whatever inputs, failed or not, a strict
    prefix of a complete encoding is rejected (nothing an earlier decode left behind completes it) -/
theorem pooled_prefix_fails_in_history (p : P α) (junk : Bytes → Bytes) (st : Bytes)
    (before after : List Bytes) (q s : Bytes) (v : α) (hs : s ≠ [])
    (h : P.run p (q ++ s) = some (v, [])) :
    (Pooled.runHist Pooled.replace p junk st (before ++ q :: after))[before.length]? = some none :=
  Pooled.replace_prefix_fails_in_history p junk st before after q s v hs h

/-- values: the history of `value.ReadValue` decodes through a kept reader is `Value.decV` per input -/
theorem pooled_value_history (f : Nat) (junk : Bytes → Bytes) (st : Bytes) (inputs : List Bytes) :
    Pooled.runHist Pooled.replace (valueP f) junk st inputs =
      inputs.map (fun inp => (Value.decV f inp).map Prod.fst) := by
  rw [Pooled.replace_history_any_start]
  unfold Pooled.perInput
  congr 1
  funext inp
  rw [run_valueP]

/-- an appending reset (`buffer.Write(buf)` "because the previous message was read to its end") is
    right exactly for histories of complete encodings … -/
theorem pooled_append_ok_when_drained (p : P α) (junk : Bytes → Bytes) (inputs : List Bytes)
    (h : ∀ inp ∈ inputs, ∃ v, P.run p inp = some (v, [])) :
    Pooled.runHist Pooled.appendReset p junk [] inputs = Pooled.perInput p inputs :=
  Pooled.append_ok_when_drained p junk inputs h

/-- … and not fail-closed otherwise: a rejected 5-byte input, then a 3-byte input, decode to a long
    made of both (the seeded change C04-r7-3; replayed by the `after` stage's class) -/
theorem finding_appending_reset :
    Pooled.runHist Pooled.appendReset Pooled.readLong id [] [[1, 2, 3, 4, 5], [6, 7, 8]]
        = [none, some 0x0102030405060708] ∧
    Pooled.perInput Pooled.readLong [[1, 2, 3, 4, 5], [6, 7, 8]] = [none, none] :=
  Pooled.append_not_fail_closed

example : Pooled.runHist Pooled.replace Pooled.readLong id [9, 9] [[1, 2, 3, 4, 5], [6, 7, 8], [0, 0, 0, 0, 0, 0, 1, 2]]
    = [none, none, some 258] := by decide
example : ∀ inp ∈ [[0, 0, 0, 0, 0, 0, 1, 2], [0, 0, 0, 0, 0, 0, 0, 7]], ∃ v, P.run Pooled.readLong inp = some (v, []) := by
  intro inp h
  simp at h
  rcases h with h | h <;> subst h
  · exact ⟨258, by decide⟩
  · exact ⟨7, by decide⟩
example : P.run Pooled.readLong ([0, 0, 0] ++ [0, 0, 0, 1, 2]) = some (258, []) := by decide

/-- the other order (bytes dropped before decoding) is not fail-closed: second access accepts the
    partial table, `Write` re-encodes it -/
theorem finding_drop_before_decode :
    let s0 : Lazy.Obj (List Nat) := ⟨[1, 2, 255, 3], []⟩
    let put := fun (t : List Nat) (c : Nat) => t ++ [c]
    (Lazy.unpackDropFirst Lazy.toyParse put s0).failed = true ∧
    (Lazy.unpackDropFirst Lazy.toyParse put (Lazy.unpackDropFirst Lazy.toyParse put s0).obj).failed = false ∧
    (Lazy.unpackDropFirst Lazy.toyParse put (Lazy.unpackDropFirst Lazy.toyParse put s0).obj).obj.table = [1, 2] ∧
    Lazy.write id (Lazy.unpackDropFirst Lazy.toyParse put s0).obj = [1, 2] := Lazy.dropFirst_not_fail_closed

/-! ## the code as found violates both halves (witnesses; the same inputs are replayed on the
    Go side by harness/c04) -/

/-- D01: with `ReadBytes` as found prefix failure is false: `01 02 03` is a strict prefix of
    the encoding `01 02 03 00 00 00 00 00` of a long, and decodes (to the same number) -/
theorem finding_D01 :
    ¬ (∀ (p : P Int) (q s : Bytes) (v : Int), s ≠ [] →
        A.runF (A.ofP p) (q ++ s) false = some (v, []) → A.runF (A.ofP p) q false = none) := by
  intro h
  have := h (rdI 8) [1, 2, 3] [0, 0, 0, 0, 0] 72623842526232576 (by decide) d01_readLong_full
  rw [d01_readLong_padded] at this
  simp at this

/-- D02 (`ReadBytes`): 2 GiB allocated for the 5-byte input `fe 7f ff ff ff` -/
theorem finding_D02_readBytes :
    ¬ A.costF (A.ofP decBlob) [254, 127, 255, 255, 255] false ≤ 1000000 * 5 := by
  rw [d02_blob_asFound]; decide

/-- D02 (`ListValue.Read`): 32 GiB requested for the 6-byte input `46 04 7f ff ff ff` -/
theorem finding_D02_list :
    ¬ A.costF (decVA false 7) [70, 4, 127, 255, 255, 255] false ≤ 1000000 * 6 := by
  rw [d02_list_asFound]; decide

/-- D02 (`TextPack.Read`): 48 GiB requested for an 18-byte pack body -/
theorem finding_D02_textPack :
    ¬ A.cost (textPackA false) [0, 0, 0, 0, 1, 0, 0, 0, 0, 0, 0, 0, 2, 4, 127, 255, 255, 255]
        ≤ 1000000 * 18 := by
  rw [textPack_witness]; decide

/-- D02 (array readers): 512 KiB of string headers for the 3-byte input `49 7f ff`, also with
    the repaired `ReadBytes` as long as the count is not compared with `Available()` -/
theorem finding_D02_array :
    ¬ A.cost (decVA false 3) [73, 127, 255] ≤ 1280 * 3 := by
  rw [d02_textArray_unguarded]; decide

/-! ## non-vacuity -/

/-- a value over a connection in three fragments; cut after two of them it fails -/
example : (runC (valueP 5) [[70, 1], [1, 21, 0], [0, 0, 9]]).isSome = true := by decide +kernel
example : (runC (valueP 5) [[70, 1], [1, 21, 0]]).isNone = true := by decide +kernel
example : Value.WFV (.list [.int 5, .text [104, 105]]) := by decide


/-- a long read from a connection that delivers 3 + 1 + 4 bytes, and from one cut after 5 bytes -/
example : runC (rdI 8) [[0, 0, 0], [0], [0, 0, 1, 2]] = some (258, []) := by decide +kernel
example : runC (rdI 8) [[0, 0, 0], [0, 0]] = none := by decide +kernel
example : runC (readAll [.short 0, .blob []]) [[0], [7, 2, 9], [], [9, 5]] =
    some ([.short 7, .blob [9, 9]], [[5]]) := by decide +kernel


/-- a nested value: its encoding decodes completely, so the prefix theorems apply to it -/
example : (Value.decode (encV (.list [.int 5, .text [104, 105], .map [([107], .ai [1, -2])]]))).map
    (fun p => p.2) = some [] := by decide +kernel

example : (encV (.list [.int 5, .text [104, 105], .map [([107], .ai [1, -2])]])).length = 28 := by
  decide +kernel

/-- every strict prefix of that encoding fails -/
example : (List.range 28).all (fun n =>
    (Value.decode ((encV (.list [.int 5, .text [104, 105], .map [([107], .ai [1, -2])]])).take n)).isNone)
    = true := by decide +kernel

/-- the allocation bound is not vacuous: the repaired decoder does allocate (slots, entries, array) -/
example : A.cost (decVA true 29)
    (encV (.list [.int 5, .text [104, 105], .map [([107], .ai [1, -2])]])) = 1700 := by decide +kernel

example : Paid 17 0 (readAllA true [.textArr [], .intArr [], .blob []]) := paid_readAllAcc _ _

end C04
