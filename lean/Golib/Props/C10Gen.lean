/-
  Property C10, tie A — obligations over the regenerated lock tables.

  `Golib/Gen/Locks.lean` is rewritten by `xlate/c10` from util/hmap/*.go, util/list/LinkedList.go and
  util/queue/*.go at the start of every check.  The judgements are the Lean functions of
  Golib/Conc/LockFacts.lean; every theorem below is `decide` over the regenerated data, so an edit
  of the Go source that breaks the discipline makes exactly the theorem of that type fail.

    no_self_deadlock_T   no method of T that holds the (non re-entrant) instance lock reaches, through
                         calls on the same instance, a method that takes it again; every acquisition
                         is `Lock(); defer Unlock()` as the first two statements (released on every
                         path, panics included)
    point_ops_atomic_T   every exported *point operation* of T takes the lock first thing and touches
                         mutable fields only while holding it (or merely delegates to one such
                         method) — the premise for instantiating `C10.mutex_linearizable` /
                         `C10.lockset_race_free` with that method
    queue_locks          the queues touch their lists only under the condition's mutex, lock order is
                         cond.L → list.lock and the list never calls back

  Point operation = every exported method except the whole-structure operations, enumerator
  constructors and diagnostics listed in `wholeStructure` (for those only self-deadlock freedom is
  claimed; their unlocked accesses are listed by `enumerations_unlocked_known`, not judged).
-/
import Golib.Gen.Locks
import Golib.Conc.Deadlock

namespace C10Gen
open LockFacts Gen.Locks

/-- whole-structure operations, enumerator constructors, diagnostics (must agree with
    `wholeStructure` in harness/c10/main.go) -/
def wholeStructure : List String :=
  ["Keys", "Values", "Entries", "ValueIterator", "KeyArray", "ValueArray", "GetKeySet", "ToKeySet",
   "ToString", "ToFormatString", "ToBytes", "ToObject", "Sort", "PutAll", "ToArray", "GetArray",
   "GetFirst", "GetLast", "GetNext", "PutBefore", "ToString1", "ToString2", "GetTimeout"]

def isPointOp (T : TypeFacts) (m : String) : Bool :=
  if wholeStructure.contains m then (m == "GetFirst" || m == "GetLast") && T.name != "LinkedList"
  else !(T.name == "LinkedList" && ["Remove", "PutBefore", "GetNext"].contains m)

/-- the exported point operations of `T` that are not atomic under the instance lock -/
def nonAtomicPointOps (T : TypeFacts) : List String :=
  (T.methods.filter (fun M => M.exported && isPointOp T M.name && !atomicOrDelegates T M.name)).map (·.name)

def pointOpsAtomic (T : TypeFacts) : Bool := (nonAtomicPointOps T).isEmpty

/-- the table covers exactly the twenty collection types (a new type needs its obligations) -/
theorem types_covered : typeNames =
    ["IntFloatLinkedMap", "IntIntLinkedMap", "IntIntMap", "IntKeyLinkedMap", "IntKeyMap", "IntLinkedSet", "IntSet", "LinkedList", "LinkedMap", "LinkedSet", "LongFloatLinkedMap", "LongKeyLinkedMap", "LongLongLinkedMap", "RequestDoubleQueue", "RequestQueue", "StringIntLinkedMap", "StringKeyLinkedMap", "StringLinkedSet", "StringLongLinkedMap", "StringSet"] := by decide

theorem no_self_deadlock_IntFloatLinkedMap : noSelfDeadlock IntFloatLinkedMap.facts = true := by decide
theorem no_self_deadlock_IntIntLinkedMap : noSelfDeadlock IntIntLinkedMap.facts = true := by decide
theorem no_self_deadlock_IntIntMap : noSelfDeadlock IntIntMap.facts = true := by decide
theorem no_self_deadlock_IntKeyLinkedMap : noSelfDeadlock IntKeyLinkedMap.facts = true := by decide
theorem no_self_deadlock_IntKeyMap : noSelfDeadlock IntKeyMap.facts = true := by decide
theorem no_self_deadlock_IntLinkedSet : noSelfDeadlock IntLinkedSet.facts = true := by decide
theorem no_self_deadlock_IntSet : noSelfDeadlock IntSet.facts = true := by decide
theorem no_self_deadlock_LinkedList : noSelfDeadlock LinkedList.facts = true := by decide
theorem no_self_deadlock_LinkedMap : noSelfDeadlock LinkedMap.facts = true := by decide
theorem no_self_deadlock_LinkedSet : noSelfDeadlock LinkedSet.facts = true := by decide
theorem no_self_deadlock_LongFloatLinkedMap : noSelfDeadlock LongFloatLinkedMap.facts = true := by decide
theorem no_self_deadlock_LongKeyLinkedMap : noSelfDeadlock LongKeyLinkedMap.facts = true := by decide
theorem no_self_deadlock_LongLongLinkedMap : noSelfDeadlock LongLongLinkedMap.facts = true := by decide
theorem no_self_deadlock_RequestDoubleQueue : noSelfDeadlock RequestDoubleQueue.facts = true := by decide
theorem no_self_deadlock_RequestQueue : noSelfDeadlock RequestQueue.facts = true := by decide
theorem no_self_deadlock_StringIntLinkedMap : noSelfDeadlock StringIntLinkedMap.facts = true := by decide
theorem no_self_deadlock_StringKeyLinkedMap : noSelfDeadlock StringKeyLinkedMap.facts = true := by decide
theorem no_self_deadlock_StringLinkedSet : noSelfDeadlock StringLinkedSet.facts = true := by decide
theorem no_self_deadlock_StringLongLinkedMap : noSelfDeadlock StringLongLinkedMap.facts = true := by decide
theorem no_self_deadlock_StringSet : noSelfDeadlock StringSet.facts = true := by decide

theorem point_ops_atomic_IntFloatLinkedMap : pointOpsAtomic IntFloatLinkedMap.facts = true := by decide
theorem point_ops_atomic_IntIntLinkedMap : pointOpsAtomic IntIntLinkedMap.facts = true := by decide
theorem point_ops_atomic_IntIntMap : pointOpsAtomic IntIntMap.facts = true := by decide
theorem point_ops_atomic_IntKeyLinkedMap : pointOpsAtomic IntKeyLinkedMap.facts = true := by decide
theorem point_ops_atomic_IntKeyMap : pointOpsAtomic IntKeyMap.facts = true := by decide
theorem point_ops_atomic_IntLinkedSet : pointOpsAtomic IntLinkedSet.facts = true := by decide
theorem point_ops_atomic_IntSet : pointOpsAtomic IntSet.facts = true := by decide
theorem point_ops_atomic_LinkedList : pointOpsAtomic LinkedList.facts = true := by decide
theorem point_ops_atomic_LinkedMap : pointOpsAtomic LinkedMap.facts = true := by decide
theorem point_ops_atomic_LinkedSet : pointOpsAtomic LinkedSet.facts = true := by decide
theorem point_ops_atomic_LongFloatLinkedMap : pointOpsAtomic LongFloatLinkedMap.facts = true := by decide
theorem point_ops_atomic_LongKeyLinkedMap : pointOpsAtomic LongKeyLinkedMap.facts = true := by decide
theorem point_ops_atomic_LongLongLinkedMap : pointOpsAtomic LongLongLinkedMap.facts = true := by decide
theorem point_ops_atomic_RequestDoubleQueue : pointOpsAtomic RequestDoubleQueue.facts = true := by decide
theorem point_ops_atomic_RequestQueue : pointOpsAtomic RequestQueue.facts = true := by decide
theorem point_ops_atomic_StringIntLinkedMap : pointOpsAtomic StringIntLinkedMap.facts = true := by decide
theorem point_ops_atomic_StringKeyLinkedMap : pointOpsAtomic StringKeyLinkedMap.facts = true := by decide
theorem point_ops_atomic_StringLinkedSet : pointOpsAtomic StringLinkedSet.facts = true := by decide
theorem point_ops_atomic_StringLongLinkedMap : pointOpsAtomic StringLongLinkedMap.facts = true := by decide
theorem point_ops_atomic_StringSet : pointOpsAtomic StringSet.facts = true := by decide

/-- the instance lock is a plain mutex everywhere except the queues, which use the mutex of their
    condition variable -/
theorem lock_kinds :
    (all.filter (fun T => T.lockKind != "mutex")).map (·.name) = ["RequestDoubleQueue", "RequestQueue"] ∧
    RequestQueue.facts.lockKind = "cond" ∧ RequestDoubleQueue.facts.lockKind = "cond" := by decide

/-- **queue_locks.**  Every call on the queues' lists is made while holding the condition's mutex;
    the list takes only its own lock and calls nothing on other objects (lock order cond.L →
    list.lock, no cycle); callbacks run under the queue's lock (so a callback must not call back
    into the queue — recorded, see notes). -/
theorem queue_locks :
    subObjectCallsFree RequestQueue.facts ["queue"] = [] ∧
    subObjectCallsFree RequestDoubleQueue.facts ["queue1", "queue2"] = [] ∧
    LinkedList.facts.methods.all (fun M => M.fieldCallsHeld.isEmpty && M.fieldCallsFree.isEmpty && M.callbacksHeld.isEmpty) = true ∧
    (RequestQueue.facts.methods.flatMap (·.callbacksHeld)).eraseDups = ["Failed", "Overflowed"] := by decide

/-- **unlock_deferred.**  Every method of every type that takes the instance lock does so as its first
    statement and releases it by `defer` as its second (so a panic inside the operation — an
    uncomparable value, a user key whose Equals panics, a user callback — still releases the lock),
    and uses no other lock operation -/
theorem unlock_deferred_everywhere : all.all lockPatternOk = true := by decide

/-- **slice_results_fresh.**  Every exported or internal method whose result is a slice (the 17 KeyArray /
    ValueArray / ToArray / GetArray methods today; any new one is covered automatically) returns, on every
    return path, a slice allocated in that very call (`make`, a literal, a declared local that is only
    appended to), nil, or the result of another own method with that property — never a field, a slice of
    a field or a buffer kept in the object.  This is what makes the model's "a result is a value" transfer
    to the Go code (`C10.returned_results_are_final`). -/
theorem slice_results_fresh : all.all (fun T => (storedSliceReturners T).isEmpty) = true := by decide

/-- the obligation has a subject: these are the slice-returning methods found in the source -/
theorem slice_returning_methods_exist :
    (all.flatMap (fun T => (T.methods.filter (·.retSlice)).map (fun M => T.name ++ "." ++ M.name))).length ≥ 17 := by
  decide

/-- no method of a lock-bearing type has a value receiver (a call would copy the mutex) -/
theorem no_value_receivers :
    all.all (fun T => (valueReceivers T).isEmpty) = true := by decide

/-- no method that takes only a read lock writes the structure, itself or through a callee
    (`GetLRU` re-chains the entry: it is a writer) -/
theorem no_write_under_read_lock :
    all.all (fun T => (writersUnderReadLock T).isEmpty) = true := by decide

/-- no method holds another instance's lock while taking the receiver's (`a.PutAll(b)` ∥ `b.PutAll(a)`
    would deadlock on lock order, `m.PutAll(m)` on the lock itself) -/
theorem no_cross_instance_lock_order :
    all.all (fun T => (crossInstanceLockers T).isEmpty) = true := by decide

/-! ### the table checks as premises of proved implications (Golib/Conc/Deadlock.lean)

  `runs T n held m` interprets the regenerated call graph: it executes method `m` to call depth `n`
  (every recorded call site, the lock released when the acquiring method returns — which is what the
  `Lock(); defer Unlock()` pattern checked by the same judgement guarantees) and answers whether the
  execution ever tries to take the non re-entrant instance lock while holding it.  `nests` does the
  same for two instances of one type and answers whether the thread ever holds/requests both locks.
  `noSelfDeadlock_sound` and `nestFree_sound` are proved once, for every table. -/

theorem all_no_self_deadlock : all.all noSelfDeadlock = true := by decide

theorem all_nest_free : all.all nestFree = true := by decide

/-- **deadlock freedom of the abstract call-graph machine, for the code as it stands**: for every
    collection type, every method called from outside (lock not held), to every call depth, never
    re-acquires the lock it holds -/
theorem deadlock_free (T : TypeFacts) (hT : T ∈ all) (n : Nat) (m : String) : runs T n false m = true :=
  noSelfDeadlock_sound T (List.all_eq_true.1 all_no_self_deadlock T hT) n m

/-- … and never holds or requests the locks of two instances at once, so no two threads can wait for
    each other on instance locks (`no_cycle_without_nesting`) -/
theorem no_instance_lock_nesting (T : TypeFacts) (hT : T ∈ all) (n : Nat) (m : String) :
    nests T n false false m = false :=
  nestFree_sound T (List.all_eq_true.1 all_nest_free T hT) n m

/-! ### writers are single critical sections (or sequences of point operations)

  A whole-structure operation need not be atomic (`PutAll`, `ToObject` are loops of locked `Put`s), but a
  method that *writes* the structure in a critical section of its own must not have a second critical
  section: "snapshot under the lock, compute unlocked, write the snapshot back under the lock" undoes every
  point operation that completed in between (what `C10.split_sort_undoes_completed_put` shows on the
  model; the atomic form is `C10.neutral_ops_never_disturb_point_ops`). -/

/-- the critical sections of `M`: its own (if it takes the lock) and those of the own methods it calls
    while not holding it -/
def sectionsOf (T : TypeFacts) (M : Method) : List String :=
  (if M.acquires then [M.name] else []) ++ M.callsFree.filter (acquiresWithin T T.fuel)

/-- exported methods that are not one critical section (nor a plain delegation) although one of their
    critical sections writes the structure and is not itself an exported atomic point operation -/
def splitWriters (T : TypeFacts) : List String :=
  (T.methods.filter (fun M => M.exported && !atomicOrDelegates T M.name &&
    (sectionsOf T M).any (fun c => match T.find c with
      | some C => mutatesWithin T T.fuel c && !(C.exported && isPointOp T c && atomicOrDelegates T c)
      | none => false))).map (·.name)

/-- **writers_single_critical_section.**  In every collection type, every exported method — point operation
    or not (Sort, PutAll, ToObject, GetTimeout …) — that writes the structure does so in one critical section
    covering its whole body, or is a sequence of exported atomic point operations. -/
theorem writers_single_critical_section : all.all (fun T => (splitWriters T).isEmpty) = true := by decide

/-- the obligation has a subject: exported whole-structure methods that write (the `Sort`s, …) exist -/
theorem whole_structure_writers_exist :
    (all.flatMap (fun T => (T.methods.filter (fun M => M.exported && !isPointOp T M.name && M.acquires &&
      mutatesWithin T T.fuel M.name)).map (fun M => T.name ++ "." ++ M.name))).length ≥ 10 := by decide

/-- a method entry for hand-made example tables -/
def exMethod (n : String) (e a lf : Bool) (held free : List String) (w : Bool) : Method :=
  { name := n, exported := e, acquires := a, lockFirst := lf, deferUnlock := a, irregular := false,
    callsHeld := held, callsFree := free, accHeld := [⟨"count", "count", w⟩],
    accFree := [], fieldCallsHeld := [], fieldCallsFree := [], callbacksHeld := [], valueRecv := false,
    rlock := false, ptrWrites := false, otherLocks := [], underOther := [], extCalls := [], paths := [] }

/-- `Sort` takes its snapshot through a locking helper and locks again later for the rebuild -/
def exSplit1 : TypeFacts :=
  { name := "M", file := "", lockField := "lock", lockKind := "mutex", fields := ["count"],
    methods := [exMethod "Put" true true true [] [] true, exMethod "entryArray" false true true [] [] false,
                exMethod "Sort" true true false [] ["entryArray"] true] }

/-- `Sort` = locking helper `entryArray` + locking helper `rebuild`; `PutAll` = a loop of `Put`s -/
def exSplit2 : TypeFacts :=
  { exSplit1 with methods := [exMethod "Put" true true true [] [] true, exMethod "entryArray" false true true [] [] false,
                exMethod "rebuild" false true true [] [] true, exMethod "Sort" true false false [] ["entryArray", "rebuild"] false,
                exMethod "PutAll" true false false [] ["Put"] false] }

/-- … and the judgement is not vacuous: a split `Sort` is flagged in both shapes, a loop of `Put`s is not -/
example : splitWriters exSplit1 = ["Sort"] ∧ splitWriters exSplit2 = ["Sort"] := by decide

/-- what remains unlocked is confined to enumerator constructors / serializers (outside the
    property's quantifier over point operations; noted, not judged) -/
theorem unlocked_only_outside_point_ops :
    all.all (fun T => (unlockedMethods T).all (fun m => !isPointOp T m)) = true := by decide

/-- exported methods — point operation or not — that *write* a shared field while the instance lock is not
    held, in their own body or in an own method they call while not holding it (a pre-sizing `reserve()` /
    `rehash()` in front of a loop of locked `Put`s) -/
def unlockedWriters (T : TypeFacts) : List String :=
  ((T.methods.filter (·.exported)).filter (fun M => (freeAccesses T T.fuel M.name).any (·.write))).map (·.name)

/-- **no_unlocked_writes.**  No exported method of a collection type, whole-structure operations included
    (`PutAll`, `ToObject`, `Sort`, enumerator constructors …), writes the structure outside the lock: what
    `unlocked_only_outside_point_ops` tolerates outside the point operations are reads only.  (A bulk
    operation that grows the table without the lock loses the keys of point operations that complete
    meanwhile.) -/
theorem no_unlocked_writes : all.all (fun T => (unlockedWriters T).isEmpty) = true := by decide

/-- `PutAll` = unlocked helper `reserve` (writes `count`'s neighbours without the lock) + a loop of `Put`s -/
def exReserve : TypeFacts :=
  { exSplit1 with methods := [exMethod "Put" true true true [] [] true,
      { exMethod "reserve" false false false [] [] false with accHeld := [], accFree := [⟨"count", "count", true⟩] },
      exMethod "PutAll" true false false [] ["reserve", "Put"] false] }

/-- not vacuous: the pre-sizing `PutAll` is flagged, a plain loop of `Put`s (and a split `Sort`) is not -/
example : unlockedWriters exReserve = ["PutAll"] ∧ unlockedWriters exSplit2 = [] := by decide

end C10Gen
