/-
  Property C12 — plain hash maps and sets (IntIntMap, IntKeyMap, IntSet, StringSet) behave as
  mathematical maps and sets.

  Spec      `HMap.PS` / `HMap.PS.step`     (Golib/HMap/Plain.lean): a finite map (key-distinct association list whose
            order is not observable; the laws below characterise it as the function `AL.get`)
  CodeModel `HMap.PMap` / `HMap.PMap.step` (Golib/HMap/Plain.lean): bucket table + count / threshold / max, generic in
            key type, value type, **hash function** and **growth threshold**
  Wire      `HMap.PMap.toBytes` / `toObject` (Golib/HMap/Wire.lean) over the decimal codec of C01
  Tie       harness/c12 against `PS.step` run by drv_c12; regenerated descriptors (Golib/Props/C12Gen.lean).

  Statements only; proofs are references to lemmas of Golib.HMap.*.
-/
import Golib.HMap.PlainStep
import Golib.HMap.Types
import Golib.HMap.Multi
import Golib.HMap.Enum
import Golib.HMap.MultiLemmas
import Golib.HMap.PlainValue

set_option linter.unusedSectionVars false

namespace C12
open HMap Prim

variable {K V : Type} [DecidableEq K] [DecidableEq V]

/-! ### the Spec is a mathematical map -/

theorem map_get_put (l : List (K × V)) (k k' : K) (v : V) (d : PDesc K V) (hr : d.refuse k = false) (mx : Nat) :
    AL.get (PS.put d { ents := l, max := mx } k v).1.ents k' = if k = k' then some v else AL.get l k' := by
  unfold PS.put PS.putWith
  simp only [hr, Bool.false_eq_true, if_false]
  cases hg : AL.get l k with
  | some old => simp only [AL.get_set, hg, Option.isSome_some, if_true]
  | none =>
    simp only [AL.get_append, AL.get_cons]
    by_cases e : k = k'
    · subst e; simp [hg]
    · cases AL.get l k' <;> simp [e]

theorem map_get_remove (l : List (K × V)) (k k' : K) :
    AL.get (AL.erase l k) k' = if k = k' then none else AL.get l k' := AL.get_erase l k k'

theorem map_size_put (l : List (K × V)) (k : K) (v : V) (d : PDesc K V) (hr : d.refuse k = false) (mx : Nat) :
    (PS.put d { ents := l, max := mx } k v).1.ents.length = if (AL.get l k).isSome then l.length else l.length + 1 := by
  unfold PS.put PS.putWith
  simp only [hr, Bool.false_eq_true, if_false]
  cases hg : AL.get l k <;> simp

/-! ### the CodeModel refines it (any hash function, any growth policy, any history) -/

theorem rel_init (hash : K → Nat) (thr : Nat → Nat) (d : PDesc K V) (cap : Nat) :
    PMap.Rel hash d (PMap.new thr cap : PMap K V) {} := PMap.Rel.new cap

/-- one operation (put / add / add-if-exist / get / contains / remove / clear / put-all / sort / size /
    enumerate): the simulation is preserved and the outputs agree (enumerations as multisets) -/
theorem plain_refine_step (hash : K → Nat) (thr : Nat → Nat) (d : PDesc K V) (m : PMap K V) (s : PS K V)
    (op : POp K V) (h : PMap.Rel hash d m s) :
    PMap.Rel hash d (PMap.step hash thr d m op).1 (PS.step d s op).1 ∧
    Out.equiv (PMap.step hash thr d m op).2 (PS.step d s op).2 :=
  PMap.plain_refine_step thr h op

/-- all finite histories from a fresh map of any capacity -/
theorem plain_refine (hash : K → Nat) (thr : Nat → Nat) (d : PDesc K V) (cap : Nat) (ops : List (POp K V)) :
    Outs.equiv (PMap.run hash thr d (PMap.new thr cap) ops).2 (PS.run d {} ops).2 :=
  (PMap.plain_refine_run thr ops (PMap.Rel.new (hash := hash) (thr := thr) (d := d) cap)).2

/-- … from any state related to a finite map (not only a fresh one): outputs agree and the simulation is kept -/
theorem plain_refine_from (hash : K → Nat) (thr : Nat → Nat) (d : PDesc K V) (m : PMap K V) (s : PS K V)
    (ops : List (POp K V)) (h : PMap.Rel hash d m s) :
    PMap.Rel hash d (PMap.run hash thr d m ops).1 (PS.run d s ops).1 ∧
    Outs.equiv (PMap.run hash thr d m ops).2 (PS.run d s ops).2 :=
  PMap.plain_refine_run thr ops h

/-- lookups and size agree in every reachable state -/
theorem lookup_and_size (hash : K → Nat) (d : PDesc K V) (m : PMap K V) (s : PS K V) (h : PMap.Rel hash d m s) :
    (∀ k, m.tab.get hash k = AL.get s.ents k) ∧ m.count = s.ents.length := ⟨h.get, h.count⟩

/-- an enumeration (buckets last → first, chains head → tail) yields every stored element exactly once -/
theorem enumerate_once (hash : K → Nat) (d : PDesc K V) (m : PMap K V) (s : PS K V) (h : PMap.Rel hash d m s) :
    m.tab.entries.Perm s.ents ∧ (m.tab.entries.map Prod.fst).Nodup ∧
    (∀ k v, (k, v) ∈ m.tab.entries ↔ m.tab.get hash k = some v) ∧ m.tab.entries.length = m.count := by
  have hp := PMap.entries_perm h
  exact ⟨hp, (PMap.enumerate_once h.tab).1, (PMap.enumerate_once h.tab).2, by rw [hp.length_eq, h.count]⟩

/-- table growth (rehash to 2n+1 buckets) changes no lookup and keeps the set of cells -/
theorem rehash_preserves (hash : K → Nat) (t : Table K V) (h : t.Inv hash) :
    (t.rehash hash).Inv hash ∧ (t.rehash hash).cap = 2 * t.cap + 1 ∧
    (∀ k, (t.rehash hash).get hash k = t.get hash k) ∧ (∀ e, e ∈ (t.rehash hash).entries ↔ e ∈ t.entries) :=
  ⟨h.rehash hash, Table.cap_rehash hash t, Table.get_rehash hash h, Table.mem_entries_rehash hash h⟩

/-! ### serialized form of IntIntMap -/

/-- the bytes decode to the enumerated pairs (exact consumption) -/
theorem wire_decodes (es : List (Int × Int)) (r : Bytes)
    (hlen : inRange 8 (es.length : Int)) (h : ∀ e ∈ es, inRange 8 e.1 ∧ inRange 8 e.2) :
    P.run pairsFromBytes (pairsToBytes es ++ r) = some (es, r) := run_pairsFromBytes es r hlen h

/-- `ToObject(ToBytes(m))` read into a fresh map of any capacity is the same finite map:
    every lookup and the size agree (keys and values are int32, so they fit the decimal codec) -/
theorem intint_wire (hash : Int → Nat) (thr : Nat → Nat) (d : PDesc Int Int) (cap : Nat) (m : PMap Int Int)
    (h : m.tab.Inv hash)
    (hlen : inRange 8 (m.tab.entries.length : Int))
    (hr : ∀ e ∈ m.tab.entries, inRange 8 e.1 ∧ inRange 8 e.2)
    (hok : ∀ e ∈ m.tab.entries, d.refuse e.1 = false) :
    (∀ k, (PMap.toObject hash thr d (PMap.new thr cap) (PMap.toBytes m)).tab.get hash k = m.tab.get hash k) ∧
    (PMap.toObject hash thr d (PMap.new thr cap) (PMap.toBytes m)).count = m.tab.entries.length :=
  let w := PMap.intint_wire thr cap h hlen hr hok
  ⟨w.1, w.2.1⟩

/-! ### enumerator objects: HasMoreElements / Next -/

/-- the enumerator object `(table, index, entry)` with its skip loop
    `for entry == nil && index > 0 { index--; entry = table[index] }`: calling HasMoreElements / Next until exhausted
    on an enumerator opened on a table that is not modified yields exactly `entries` — hence (with `enumerate_once`)
    every stored element exactly once; the key and value enumerators are its projections -/
theorem enumerator_protocol (hash : K → Nat) (d : PDesc K V) (m : PMap K V) (s : PS K V) (h : PMap.Rel hash d m s) :
    PEnum.drain m.tab m.count m.tab.openEnum = m.tab.entries ∧
    (PEnum.drain m.tab m.count m.tab.openEnum).Perm s.ents ∧
    ((PEnum.drain m.tab m.count m.tab.openEnum).map Prod.fst).Nodup := by
  have hp := PMap.entries_perm h
  have hd : PEnum.drain m.tab m.count m.tab.openEnum = m.tab.entries :=
    Table.drain_open m.tab m.count (by rw [hp.length_eq, h.count]; exact Nat.le_refl _)
  rw [hd]
  exact ⟨rfl, hp, (PMap.enumerate_once h.tab).1⟩

/-- the protocol, all three ways of driving an enumerator:
    * `Next` is defined exactly when `HasMoreElements` answers true;
    * `Next` **without** a prior `HasMoreElements` is correct too — it runs the skip loop itself: `n` bare calls yield the
      first `n` remaining elements, so `Size()` bare calls on a fresh enumerator yield the whole enumeration
      (the loops of `IntSet.ToString`, `KeyArray`, `ValueArray`);
    * `HasMoreElements` may be called any number of times between two `Next`s: it is idempotent on the enumerator's
      state and does not change what `Next` returns. -/
theorem enumerator_hasMore_next (t : Table K V) (e : PEnum K V) :
    PEnum.hasMore t e = (PEnum.next t e).isSome ∧
    (∀ n, PEnum.takeN t n e = (PEnum.remaining t e).take n) ∧
    PEnum.advance t (PEnum.advance t e) = PEnum.advance t e ∧
    PEnum.next t (PEnum.advance t e) = PEnum.next t e := by
  refine ⟨?_, fun n => PEnum.takeN_eq t n e, PEnum.advance_idem t e, PEnum.next_after_hasMore t e⟩
  unfold PEnum.hasMore PEnum.next
  simp only
  cases hc : (PEnum.advance t e).entry <;> simp

/-- `Size()` calls of `Next` with no `HasMoreElements` at all enumerate the map: same result as the HasMoreElements-driven loop -/
theorem enumerator_size_driven (hash : K → Nat) (d : PDesc K V) (m : PMap K V) (s : PS K V) (h : PMap.Rel hash d m s) :
    PEnum.takeN m.tab m.count m.tab.openEnum = m.tab.entries ∧
    PEnum.takeN m.tab m.count m.tab.openEnum = PEnum.drain m.tab m.count m.tab.openEnum := by
  have hp := PMap.entries_perm h
  have hl : m.tab.entries.length = m.count := by rw [hp.length_eq, h.count]
  have h1 := Table.takeN_open m.tab m.count hl
  exact ⟨h1, by rw [h1, Table.drain_open m.tab m.count (by omega)]⟩

/-- an enumerator in any state yields exactly what is left: the rest of the current chain, then the buckets below `index` -/
theorem enumerator_remaining (t : Table K V) (e : PEnum K V) (fuel : Nat) (h : (PEnum.remaining t e).length ≤ fuel) :
    PEnum.drain t fuel e = e.entry ++ (List.range e.index).reverse.flatMap t.bucket :=
  PEnum.drain_eq t fuel e h

/-! ### reset after growth: Clear / Sort at any table size -/

/-- **Clear in any state** (whatever the table went through — any number of growth steps, any capacity): the count is 0,
    nothing is enumerated (by the table walk and by the enumerator object), every lookup is absent, the table keeps its
    length; and from there on the container answers every history like the EMPTY finite map (with the configured bound kept).
    The first five facts need no hypothesis at all. -/
theorem clear_resets (hash : K → Nat) (thr : Nat → Nat) (d : PDesc K V) (m : PMap K V) :
    (PMap.step hash thr d m .clear).1.count = 0 ∧
    (PMap.step hash thr d m .clear).1.tab.entries = [] ∧
    (∀ fuel, PEnum.drain (PMap.step hash thr d m .clear).1.tab fuel (PMap.step hash thr d m .clear).1.tab.openEnum = []) ∧
    (∀ k, (PMap.step hash thr d m .clear).1.tab.get hash k = none) ∧
    (PMap.step hash thr d m .clear).1.tab.cap = m.tab.cap ∧
    (∀ s, PMap.Rel hash d m s → ∀ ops,
      Outs.equiv (PMap.run hash thr d (PMap.step hash thr d m .clear).1 ops).2 (PS.run d { ents := [], max := s.max } ops).2) := by
  have he : (PMap.step hash thr d m .clear).1.tab.entries = [] := by
    simp [PMap.step, PMap.clear, Table.clear, Table.entries]
  refine ⟨rfl, he, fun fuel => ?_, fun k => by simp [PMap.step, PMap.clear], by simp [PMap.step, PMap.clear],
    fun s h ops => (PMap.plain_refine_run thr ops (PMap.clear_rel h)).2⟩
  exact (Table.drain_open _ fuel (by rw [he]; exact Nat.zero_le _)).trans he

/-- `Sort` (collect, sort, clear, re-put) of a map of any size is observably the identity: the same finite map, the same size -/
theorem sort_same_map (hash : K → Nat) (thr : Nat → Nat) (d : PDesc K V) (m : PMap K V) (s : PS K V) (lt : K → K → Bool)
    (h : PMap.Rel hash d m s) :
    PMap.Rel hash d (PMap.step hash thr d m (.sort lt)).1 s ∧ (PMap.step hash thr d m (.sort lt)).1.count = m.count ∧
    (∀ k, (PMap.step hash thr d m (.sort lt)).1.tab.get hash k = m.tab.get hash k) := by
  have hs : PMap.Rel hash d (PMap.step hash thr d m (.sort lt)).1 s := PMap.sort_rel h lt
  exact ⟨hs, by rw [hs.count, h.count], fun k => by rw [hs.get, h.get]⟩

/-! ### values are opaque (any type, no equality on values) -/

omit [DecidableEq V] in
/-- **Put of a key, for a value type WITHOUT any equality**: the previous value (absent for a fresh key) is returned, the new
    value is stored, every other key keeps its value, the size grows exactly for a fresh key.  (`V` is an arbitrary type:
    functions, lists, anything — the Go `interface{}` values of any dynamic type, comparable or not.) -/
theorem put_any_value (hash : K → Nat) (thr : Nat → Nat) (d : PDesc K V) (m : PMap K V) (s : PS K V)
    (h : PMap.Rel hash d m s) (k : K) (v : V) (hr : d.refuse k = false) :
    (m.put hash thr d k v).2 = m.get hash k ∧
    (∀ k', (m.put hash thr d k v).1.get hash k' = if k = k' then some v else m.get hash k') ∧
    (m.put hash thr d k v).1.count = if (m.get hash k).isSome then m.count else m.count + 1 := by
  classical
  obtain ⟨hrel, hout⟩ := PMap.put_rel (thr := thr) h k v
  obtain ⟨l, mx⟩ := s
  have hg : ∀ k', m.tab.get hash k' = AL.get l k' := h.get
  simp only [PMap.get]
  refine ⟨?_, fun k' => ?_, ?_⟩
  · rw [hout, hg]
    unfold PS.put PS.putWith
    simp only [hr, Bool.false_eq_true, if_false]
    cases AL.get l k <;> rfl
  · rw [hrel.get k', map_get_put l k k' v d hr mx, hg]
  · rw [hrel.count, map_size_put l k v d hr mx]
    simp only [hg, h.count]

omit [DecidableEq V] in
/-- **The map never inspects a value**: relabelling every stored value by an arbitrary function `f` (injective or not, into any
    type) commutes with put, putAll, get, remove, clear and with the enumeration — so no branch of these operations can
    depend on a value or on a comparison of two values (only `ContainsValue`, which takes the comparison as a parameter, does). -/
theorem value_opaque {W : Type} (hash : K → Nat) (thr : Nat → Nat) (f : V → W) (d : PDesc K V) (d' : PDesc K W)
    (hr : ∀ k, d'.refuse k = d.refuse k) (m : PMap K V) :
    (∀ k v, (m.mapV f).put hash thr d' k (f v) = ((m.put hash thr d k v).1.mapV f, (m.put hash thr d k v).2.map f)) ∧
    (∀ l, (PMap.step hash thr d' (m.mapV f) (.putAll (l.map (cellMap f)))).1 = (PMap.step hash thr d m (.putAll l)).1.mapV f) ∧
    (∀ k, (m.mapV f).get hash k = (m.get hash k).map f) ∧
    (∀ k, (m.mapV f).remove hash k = ((m.remove hash k).1.mapV f, (m.remove hash k).2.map f)) ∧
    (m.mapV f).clear = m.clear.mapV f ∧
    (m.mapV f).tab.entries = m.tab.entries.map (cellMap f) ∧ (m.mapV f).count = m.count :=
  ⟨fun k v => PMap.put_mapV hash thr f d d' hr m k v, fun l => PMap.putAll_mapV hash thr f d d' hr l m,
   fun k => PMap.get_mapV hash f m k, fun k => PMap.remove_mapV hash f m k, PMap.clear_mapV f m,
   Table.entries_mapV f m.tab, rfl⟩

omit [DecidableEq V] in
/-- **SetValue on the live entry of a present key is Put of that key**: `put k v` on a key that is present only rewrites the
    value of its cell (`e.value = v`) — no growth, no new cell, count unchanged — and answers the previous value. -/
theorem entry_setValue_is_put (hash : K → Nat) (thr : Nat → Nat) (d : PDesc K V) (m : PMap K V) (k : K) (v old : V)
    (hr : d.refuse k = false) (hp : m.tab.get hash k = some old) :
    m.put hash thr d k v = ({ m with tab := m.tab.setExisting hash k v }, some old) := by
  unfold PMap.put PMap.putWith
  simp [hr, hp]

/-! ### several live containers: no aliasing -/

/-- **no_aliasing.**  In a pool of live maps an operation addressed to slot `i` — including `PutAll(other)`
    and `ToObject(other.ToBytes())`, which are `putAll l` with `l` the enumeration of the source — leaves every
    other slot, the source included, exactly as it was.  (Containers are values in the model: "no shared
    storage" is the specification; tie B compares all live instances after every mutating op.) -/
theorem no_aliasing (hash : K → Nat) (thr : Nat → Nat) (d : PDesc K V) (dflt : PMap K V)
    (pool : Array (PMap K V)) (i k : Nat) (op : POp K V) (h : k ≠ i) :
    (poolStep (PMap.step hash thr d) dflt pool i op).1.getD k dflt = pool.getD k dflt :=
  poolStep_frame _ dflt pool i k op h

theorem pool_target (hash : K → Nat) (thr : Nat → Nat) (d : PDesc K V) (dflt : PMap K V)
    (pool : Array (PMap K V)) (i : Nat) (op : POp K V) (h : i < pool.size) :
    (poolStep (PMap.step hash thr d) dflt pool i op).1.getD i dflt = (PMap.step hash thr d (pool.getD i dflt) op).1 ∧
    (poolStep (PMap.step hash thr d) dflt pool i op).2 = (PMap.step hash thr d (pool.getD i dflt) op).2 :=
  poolStep_target _ dflt pool i op h

/-- `PutAll(other)` puts a permutation of the source's entries: the source's enumeration is one (tie to `enumerate_once`) -/
theorem putAll_source (hash : K → Nat) (d : PDesc K V) (src : PMap K V) (s : PS K V) (h : PMap.Rel hash d src s) :
    src.tab.entries.Perm s.ents := PMap.entries_perm h

/-- **histories over several live containers**: every interleaved history over a pool of maps answers like the pool of
    finite maps (enumerations as multisets) and keeps every slot related to its own map — `no_aliasing` lifted to `foldl step` -/
theorem pool_refine_run (hash : K → Nat) (thr : Nat → Nat) (d : PDesc K V) (dflt : PMap K V) (sdflt : PS K V)
    (ops : List (Nat × POp K V)) (pool : Array (PMap K V)) (spool : Array (PS K V))
    (h : PMap.PoolRel hash d dflt sdflt pool spool) (hops : ∀ o ∈ ops, o.1 < pool.size) :
    Outs.equiv (poolRun (PMap.step hash thr d) dflt pool ops).2 (poolRun (PS.step d) sdflt spool ops).2 ∧
    PMap.PoolRel hash d dflt sdflt (poolRun (PMap.step hash thr d) dflt pool ops).1 (poolRun (PS.step d) sdflt spool ops).1 :=
  let r := PMap.pool_refine_run thr dflt sdflt ops h hops
  ⟨r.2, r.1⟩

/-- The premise "while the structure is not being modified" is needed: an enumerator taken before a modification
    and drained after it is outside the property (here it misses the element put meanwhile; the table it captured is the old value). -/
theorem enumeration_premise_is_needed :
    let d : PDesc Int Int := { comb := fun a b => a + b, veq := fun a b => a == b }
    let m := (PMap.run (fun k : Int => k.toNat) (fun c => c) d (PMap.new (fun c => c) 7) [.put 1 10]).1
    let m' := (PMap.step (fun k : Int => k.toNat) (fun c => c) d m (.put 2 20)).1
    PEnum.drain m.tab 5 m.tab.openEnum = [(1, 10)] ∧ PEnum.drain m'.tab 5 m'.tab.openEnum = [(2, 20), (1, 10)] := by decide

/-! ### recorded deviations -/

/-- full statement: `add` returns the previous value (absent for a fresh key), like `put`.  It holds when
    the descriptor does not have the IntIntMap deviation … -/
theorem add_result_partial (d : PDesc K V) (hreg : d.addFreshNew = false) (s : PS K V) (k : K) (v : V) :
    (PS.add d s k v).2 = if d.refuse k then none else AL.get s.ents k := by
  unfold PS.add PS.putWith
  cases hr : d.refuse k with
  | true => simp
  | false =>
    simp only [Bool.false_eq_true, if_false]
    cases hg : AL.get s.ents k <;> simp [hreg]

/-- complete characterisation (D17): the result of `add`, for every descriptor, key and state -/
theorem add_result_exact (d : PDesc K V) (s : PS K V) (k : K) (v : V) :
    (PS.add d s k v).2 =
      if d.refuse k then none else
      match AL.get s.ents k with
      | some old => some old
      | none => if d.addFreshNew then some v else none := by
  unfold PS.add PS.putWith
  cases hr : d.refuse k with
  | true => simp
  | false =>
    simp only [Bool.false_eq_true, if_false]
    cases hg : AL.get s.ents k <;> simp

/-- … so `add` answers the previous value (like `put`) **iff** the deviation flag is off, or the key is refused, or it is present -/
theorem add_result_iff (d : PDesc K V) (s : PS K V) (k : K) (v : V) :
    (PS.add d s k v).2 = (if d.refuse k then none else AL.get s.ents k) ↔
      (d.addFreshNew = false ∨ d.refuse k = true ∨ (AL.get s.ents k).isSome) := by
  rw [add_result_exact]
  cases hr : d.refuse k with
  | true => simp
  | false =>
    simp only [Bool.false_eq_true, if_false]
    cases hg : AL.get s.ents k with
    | some old => simp
    | none =>
      cases hf : d.addFreshNew <;> simp

/-- … IntIntMap (D17): Add(5,7) on an empty map returns 7, a second Add(5,1) returns 7 as well (now the
    previous value), and the stored value is 8 -/
theorem finding_D17 :
    let d : PDesc Int Int := { comb := fun a b => a + b, veq := fun a b => a == b, addFreshNew := true }
    (PS.add d {} 5 7).2 = some 7 ∧ (PS.add d (PS.add d {} 5 7).1 5 1).2 = some 7 ∧
    AL.get (PS.add d (PS.add d {} 5 7).1 5 1).1.ents 5 = some 8 := by decide

/-- full statement: a key that was put is contained; it holds for regular descriptors … -/
theorem contains_after_put_partial (d : PDesc K V) (hr : ∀ k, d.refuse k = false) (hb : ∀ k, d.blind k = false)
    (s : PS K V) (k : K) (v : V) :
    (PS.step d (PS.put d s k v).1 (.containsKey k)).2 = .bool true := by
  obtain ⟨l, mx⟩ := s
  have := map_get_put l k k v d (hr k) mx
  simp only [if_true] at this
  simp [PS.step, hb k, this]

/-- complete characterisation (D15): after `put k v` the key is reported as contained **iff** the descriptor is not blind
    for `k` and either does not refuse `k` or `k` was present before -/
theorem contains_after_put_iff (d : PDesc K V) (s : PS K V) (k : K) (v : V) :
    (PS.step d (PS.put d s k v).1 (.containsKey k)).2 = .bool true ↔
      d.blind k = false ∧ (d.refuse k = false ∨ (AL.get s.ents k).isSome) := by
  cases hr : d.refuse k with
  | true =>
    have hp : (PS.put d s k v).1 = s := by simp [PS.put, hr]
    rw [hp]
    simp [PS.step]
  | false =>
    obtain ⟨l, mx⟩ := s
    have := map_get_put l k k v d hr mx
    simp only [if_true] at this
    simp [PS.step, this]

/-- … StringSet (D15): Put("") is ignored and Contains("") answers false -/
theorem finding_D15_StringSet :
    let d : PDesc String Unit := { comb := fun _ _ => (), veq := fun _ _ => true, refuse := fun k => k == "", blind := fun k => k == "" }
    (PS.step d (PS.put d {} "" ()).1 (.containsKey "")).2 = .bool false ∧ (PS.put d {} "" ()).1.ents = [] := by
  decide

/-! ### the four types -/

theorem four_types : plainTypes.map (·.name) = ["IntIntMap", "IntKeyMap", "IntSet", "StringSet"] := by decide

theorem irregular_types :
    (plainTypes.filter (fun t => !t.regular)).map (·.name) = ["IntIntMap", "StringSet"] := by decide

/-! ### non-vacuity -/

example : PMap.Rel (fun k : Int => k.toNat) ({ comb := fun a b => a + b, veq := fun a b => a == b } : PDesc Int Int)
    (PMap.new (fun c => c * 3 / 4) 0 : PMap Int Int) {} := PMap.Rel.new 0

/-- growth from capacity 1 with a constant hash (every key collides), removal, enumeration -/
example :
    (PMap.run (fun _ : Int => 3) (fun c => c / 2) ({ comb := fun a b => a + b, veq := fun a b => a == b } : PDesc Int Int) (PMap.new (fun c => c / 2) 1)
      [.put 1 10, .put 2 20, .put 3 30, .add 2 5, .remove 1, .get 2, .size, .entries]).2
      = [.none, .none, .none, .val 20, .val 10, .val 25, .nat 2, .ents [(3, 30), (2, 25)]] := by decide

/-- the plain enumerator object (index, entry) with its skip loop, drained on a table with empty buckets in between -/
example :
    let d : PDesc Int Int := { comb := fun a b => a + b, veq := fun a b => a == b }
    let m := (PMap.run (fun k : Int => k.toNat) (fun c => c) d (PMap.new (fun c => c) 7) [.put 1 10, .put 5 50, .put 8 80]).1
    PEnum.drain m.tab m.count m.tab.openEnum = [(5, 50), (8, 80), (1, 10)] ∧ m.tab.entries = [(5, 50), (8, 80), (1, 10)] ∧
    PEnum.hasMore m.tab ⟨0, []⟩ = false := by
  decide

/-- `add_result_exact` on the three kinds of key: fresh with the deviation, present, refused -/
example :
    let d : PDesc String Int := { comb := fun a b => a + b, veq := fun a b => a == b, refuse := fun k => k == "r", addFreshNew := true }
    (PS.add d {} "a" 7).2 = some 7 ∧ (PS.add d (PS.add d {} "a" 7).1 "a" 1).2 = some 7 ∧ (PS.add d {} "r" 7).2 = none := by
  decide

/-- `pool_refine_run`: its premise holds for a pool of fresh maps, and an interleaved history over two slots computes -/
example :
    let d : PDesc Int Int := { comb := fun a b => a + b, veq := fun a b => a == b }
    PMap.PoolRel (fun k : Int => k.toNat) d (PMap.new (fun c => c) 1) {}
      #[PMap.new (fun c => c) 1, PMap.new (fun c => c) 4] #[{}, {}] ∧
    (poolRun (PMap.step (fun k : Int => k.toNat) (fun c => c) d) (PMap.new (fun c => c) 1)
      #[PMap.new (fun c => c) 1, PMap.new (fun c => c) 4]
      [(0, .put 1 10), (1, .put 1 11), (0, .remove 1), (1, .get 1), (0, .size), (1, .size)]).2
      = [.none, .none, .val 10, .val 11, .nat 0, .nat 1] := by
  refine ⟨⟨rfl, fun i hi => ?_⟩, by decide⟩
  have hi' : i < 2 := hi
  match i, hi' with
  | 0, _ => exact rel_init _ _ _ 1
  | 1, _ => exact rel_init _ _ _ 4

/-- `clear_resets` after growth (the premise of `sort_same_map` is the same `Rel`, see `rel_init` / `plain_refine_from`): 6 keys from capacity 1 (the table grows three times, to 15 buckets), Clear, then the map
    answers like a fresh one -/
example :
    let d : PDesc Int Int := { comb := fun a b => a + b, veq := fun a b => a == b }
    let m := (PMap.run (fun k : Int => k.toNat) (fun c => c * 3 / 4) d (PMap.new (fun c => c * 3 / 4) 1)
      [.put 0 1, .put 7 1, .put 14 1, .put 21 1, .put 28 1, .put 35 1]).1
    m.tab.cap = 15 ∧ m.count = 6 ∧
    (PMap.run (fun k : Int => k.toNat) (fun c => c * 3 / 4) d (PMap.step (fun k : Int => k.toNat) (fun c => c * 3 / 4) d m .clear).1
      [.size, .isEmpty, .get 7, .put 7 3, .size, .entries]).2 = [.nat 0, .bool true, .none, .none, .nat 1, .ents [(7, 3)]] := by
  decide +kernel

/-- `put_any_value` / `value_opaque` / `entry_setValue_is_put` on values without equality: the values are FUNCTIONS `Nat → Nat` -/
example :
    let d : PDesc Int (Nat → Nat) := { comb := fun a _ => a, veq := fun _ _ => false }
    let m := (PMap.put (fun k : Int => k.toNat) (fun c => c) d (PMap.new (fun c => c) 3) 5 (fun n => n + 1)).1
    ((m.put (fun k : Int => k.toNat) (fun c => c) d 5 (fun n => n * 2)).2.map (· 10)) = some 11 ∧
    (((m.put (fun k : Int => k.toNat) (fun c => c) d 5 (fun n => n * 2)).1.get (fun k : Int => k.toNat) 5).map (· 10)) = some 20 ∧
    (m.put (fun k : Int => k.toNat) (fun c => c) d 5 (fun n => n * 2)).1.count = 1 := by
  decide

end C12
