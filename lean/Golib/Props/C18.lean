/-
  Property C18 — file configuration tracks the file, notifies observers and writes back safely.

  Statements only; every proof is a reference to a lemma of Golib.Conf.*.
  The model describes FileConfig / DefaultFileParser *with the proposed fixes applied*
  (proposed/C18/fix-D36 … fix-D44); for every defect of the unchanged code there is a
  `finding_*` witness theorem about the model of the unchanged code, and the same input is a
  replay of the correspondence harness `harness/c18` on the Go side.

  Tied to /repo/config/conffile by the harness (tie B) and by the regenerated facts of
  Golib.Gen.C18 (tie A, obligations in Golib/Props/C18Gen.lean).
  Trusted / compared only: the third-party `properties` parser (its lexer is modelled in
  Golib.Conf.Lex and compared with the library on every run), `${…}` expansion (outside the
  model), strconv.ParseFloat (getFloat's parser is a parameter here).
-/
import Golib.Conf.IntSetLemmas
import Golib.Conf.Tracks
import Golib.Conf.FSLemmas
import Golib.Conf.Locks
import Golib.Conf.WriteExtras
import Golib.Conf.SpacedLines
import Golib.Conf.ObsHist
import Golib.Conf.FSDurLemmas
import Golib.Conf.FSFault
import Golib.Conf.SysHist
import Golib.Conf.KeyBackslash
import Golib.Conf.KeyFull
import Golib.Conf.LiftLines
import Golib.Conf.OwnWrite
import Golib.Conf.Api

namespace C18
open Conf

/-! ## typed getters -/

/-- absent key (and no environment variable of that name), or an empty value: the default -/
theorem getter_default_absent {α : Type} (parse : Str → Option α) (m env : KV) (k : Str) (d : α)
    (h : getValue m env k = []) : getParsed parse m env k d = d := by
  simp [getParsed, h]

/-- malformed value: the default -/
theorem getter_default_malformed {α : Type} (parse : Str → Option α) (m env : KV) (k : Str) (d : α)
    (h : parse (getValue m env k) = none) : getParsed parse m env k d = d := by
  unfold getParsed
  simp only [h, Option.getD_none]
  split <;> rfl

/-- well-formed value: the parsed value, whatever the default -/
theorem getter_parsed {α : Type} (parse : Str → Option α) (m env : KV) (k : Str) (d a : α)
    (hne : getValue m env k ≠ []) (h : parse (getValue m env k) = some a) :
    getParsed parse m env k d = a := by
  have he : (getValue m env k).isEmpty = false := by
    cases hv : getValue m env k with
    | nil => exact absurd hv hne
    | cons _ _ => rfl
  simp [getParsed, he, h]

/-- getFloat has the same decision structure (strconv.ParseFloat(·, 32) is the parameter; the
    harness plugs in strconv itself): absent/empty → default, unparsable → default, else the value -/
theorem getFloat_decision {F : Type} (pf : Str → Option F) (m env : KV) (k : Str) (d : F) :
    (getValue m env k = [] → getFloat pf m env k d = d) ∧
    (pf (getValue m env k) = none → getFloat pf m env k d = d) ∧
    (∀ a, getValue m env k ≠ [] → pf (getValue m env k) = some a → getFloat pf m env k d = a) :=
  ⟨getter_default_absent pf m env k d, getter_default_malformed pf m env k d,
   fun a hne h => getter_parsed pf m env k d a hne h⟩

example : getFloat (fun s => if s = "1.5".toList then some (3 : Nat) else none)
    [("k".toList, " 1.5 ".toList)] [] "k".toList 0 = 3 := by decide

/-- the hash-set getters hash every trimmed token of the value (or of the default), in order,
    whatever the hash function -/
theorem hashset_spec (hash : Str → Int) (m env : KV) (k d deli : Str) :
    getHashSet hash m env k d deli =
      (tokenizer (getValueDef m env k d) deli).map (fun x => hash (trimSpace x)) ∧
    (getHashSet hash m env k d deli).length = (tokenizer (getValueDef m env k d) deli).length := by
  simp [getHashSet, hashTokens]

example : hashTokens [("k".toList, "a, b ,,c".toList)] [] "k".toList [] ",".toList
    = ["a".toList, "b".toList, "c".toList] := by decide
example : hashTokens [] [] "k".toList [] ",".toList = [[]] := by decide      -- Tokenizer("") = [""]

/-- **Typed getters, one equation**: a getter answers the parse of the visible value, else the
    default — for every parser that rejects the empty string (ParseInt, ParseBool and
    strconv.ParseFloat all do; for ParseFloat this is the stated assumption on the parameter) -/
theorem getter_eq_parse_or_default {α : Type} (parse : Str → Option α) (hempty : parse [] = none)
    (m env : KV) (k : Str) (d : α) :
    getParsed parse m env k d = (parse (getValue m env k)).getD d := by
  unfold getParsed
  cases hv : getValue m env k with
  | nil => simp [hempty]
  | cons c r => simp

theorem getInt_eq (m env : KV) (k : Str) (d : Int) :
    getInt m env k d = (parseInt 32 (getValue m env k)).getD (wrap32 d) :=
  getter_eq_parse_or_default (parseInt 32) (by decide) m env k (wrap32 d)

theorem getLong_eq (m env : KV) (k : Str) (d : Int) :
    getLong m env k d = (parseInt 64 (getValue m env k)).getD d :=
  getter_eq_parse_or_default (parseInt 64) (by decide) m env k d

theorem getBoolean_eq (m env : KV) (k : Str) (d : Bool) :
    getBoolean m env k d = (parseBool (getValue m env k)).getD d :=
  getter_eq_parse_or_default parseBool (by decide) m env k d

theorem getFloat_eq {F : Type} (pf : Str → Option F) (hempty : pf [] = none) (m env : KV) (k : Str) (d : F) :
    getFloat pf m env k d = (pf (getValue m env k)).getD d :=
  getter_eq_parse_or_default pf hempty m env k d

/-- … and the visible value is the file's value, trimmed, after any load (`apply_merge`), so the
    getters read the file: e.g. for GetInt after a reload that loaded `props` -/
theorem getInt_after_load (c : Cfg) (f : FileSt) (props : KV) (k v : Str) (d : Int) (env : KV)
    (hne : c.last ≠ verFull f) (hp : parseProps f.text = .ok props) (hkv : (k, v) ∈ readMap props) :
    getInt (reload verFull c (some f)).1.m env k d = (parseInt 32 (trimSpace v)).getD (wrap32 d) := by
  have hn := keysNodup_readMap props (parseProps_ok_nodup f.text props hp)
  obtain ⟨_, _, _, h4⟩ := reload_loaded verFull c f props hne hp
  have hl : lookup (reload verFull c (some f)).1.m k = some v := by
    rw [h4]; exact lookup_applyMerge_mem c.m _ k v hn hkv (readMap_nonempty props k v hkv)
  rw [getInt_eq]
  simp [getValue, hl]

/-- a key present in the map shadows the environment and is trimmed; an absent key falls back
    to the environment -/
theorem getValue_spec (m env : KV) (k : Str) :
    getValue m env k = match lookup m k with
      | some v => trimSpace v
      | none => (lookup env k).getD [] := rfl

/-- the integer getters accept exactly the decimal integers of their width
    (`ParseInt(Itoa v) = v`, and nothing outside the range) -/
theorem parseInt_roundtrip (bits : Nat) (v : Int)
    (hlo : -(2 ^ (bits - 1) : Nat) ≤ v) (hhi : v < (2 ^ (bits - 1) : Nat)) :
    parseInt bits (showInt v) = some v := Conf.parseInt_showInt bits v hlo hhi

theorem parseInt_in_range (bits : Nat) (s : Str) (v : Int) (h : parseInt bits s = some v) :
    -(2 ^ (bits - 1) : Nat) ≤ v ∧ v < (2 ^ (bits - 1) : Nat) := Conf.parseInt_range bits s v h

example : getInt [("k".toList, " 42 ".toList)] [] "k".toList 7 = 42 := by decide
example : getInt [("k".toList, "4x".toList)] [] "k".toList 7 = 7 := by decide
example : getInt [] [] "k".toList 4294967301 = 5 := by decide        -- int32(def)
example : getBoolean [("k".toList, "T".toList)] [] "k".toList false = true := by decide
example : getLong [] [("k".toList, "-9223372036854775808".toList)] "k".toList 0 = -9223372036854775808 := by decide

/-- the integer set is the parsed integers of the tokens, in order -/
theorem intset_spec (m env : KV) (k d deli : Str) :
    getIntSet m env k d deli =
      (tokenizer (getValueDef m env k d) deli).filterMap (fun x => (parseInt 64 (trimSpace x)).map wrap32) := rfl

example : getIntSet [("k".toList, "1, 2 ,x,3".toList)] [] "k".toList [] ",".toList = [1, 2, 3] := by decide

/-- a list of 32-bit integers written as "v1,v2,…" (Itoa, comma) reads back exactly -/
theorem intset_roundtrip (m env : KV) (k d : Str) (vs : List Int) (hne : vs ≠ [])
    (hr : ∀ v ∈ vs, -2147483648 ≤ v ∧ v < 2147483648)
    (hl : lookup m k = some (joinWith ',' (vs.map showInt))) :
    getIntSet m env k d [','] = vs := getIntSet_roundtrip m env k d vs hne hr hl

/-- D38: the unchanged code (`err != nil` where `err == nil` is meant) drops every valid
    integer and keeps a 0 for every token that is not one -/
theorem finding_D38 :
    getIntSetD38 [("k".toList, "1, 2 ,x,3".toList)] [] "k".toList [] ",".toList = [0] := by decide

/-! ## tracking the file -/

/-- reload does nothing exactly when the remembered version equals the file's version -/
theorem reload_decision (c : Cfg) (f : FileSt) :
    (reload verFull c (some f)).2 = .same ↔ c.last = verFull f := reload_same_iff verFull c f

/-- after a load every non-empty key=value of the file is visible through the map (hence
    through every getter), other keys keep their values, and the observers ran once -/
theorem apply_merge (c : Cfg) (f : FileSt) (props : KV)
    (hne : c.last ≠ verFull f) (hp : parseProps f.text = .ok props) :
    let c' := (reload verFull c (some f)).1
    (reload verFull c (some f)).2 = .loaded ∧ c'.notified = c.notified + 1 ∧ c'.last = verFull f ∧
    (∀ k v, (k, v) ∈ readMap props → lookup c'.m k = some v ∧ ∀ env, getValue c'.m env k = trimSpace v) ∧
    (∀ k, (∀ v, (k, v) ∉ readMap props) → lookup c'.m k = lookup c.m k) := by
  intro c'
  obtain ⟨h1, h2, h3, h4⟩ := reload_loaded verFull c f props hne hp
  have hn := keysNodup_readMap props (parseProps_ok_nodup f.text props hp)
  refine ⟨h1, h2, h3, ?_, ?_⟩
  · intro k v hkv
    have : lookup c'.m k = some v := by
      show lookup (reload verFull c (some f)).1.m k = some v
      rw [h4]; exact lookup_applyMerge_mem c.m _ k v hn hkv (readMap_nonempty props k v hkv)
    exact ⟨this, fun env => by simp [getValue, this]⟩
  · intro k hk
    show lookup (reload verFull c (some f)).1.m k = lookup c.m k
    rw [h4]
    exact lookup_applyMerge_skip c.m _ k (fun p hp _ e => hk p.2 (by rw [← e]; exact hp))

/-- observers: a notification round calls every target registered at that moment exactly once
    and nobody else — whether it was registered before the configuration was created, after it,
    or between two reloads; a target replaced under its name is no longer called -/
theorem observers_notified (o : Obs) (id : Nat) :
    (o.run).count id =
      if o.registered id && o.counts.any (fun p => p.1 == id) then o.count id + 1 else o.count id :=
  Obs.run_count o id

example :
    let o := ((Obs.empty.add ['a'] 1).run.add ['b'] 2).run.add ['a'] 3 |>.run
    (o.count 1, o.count 2, o.count 3) = (2, 2, 1) := by decide

/-- observers over arbitrary histories of registrations, replacements and rounds, including a
    registration made from inside a callback (`runReg`, with the unspecified "visited in that
    very round" flag): every target is called exactly once per round at which it is registered -/
theorem observers_history (ops : List ObsOp) (id : Nat) :
    (Obs.empty.exec ops).count id = callsSpec [] ops id := by
  have := exec_count Obs.empty ops id wf_empty
  simpa [Obs.count, Obs.empty] using this

/-- the tolerance of the harness, stated: a target registered from inside a callback is called 0
    or 1 times in the round of its registration (the flag) and exactly once in every later round
    while it stays registered -/
theorem reentrant_registration (o : Obs) (n : Str) (i : Nat) (v : Bool) (ops : List ObsOp) (h : o.WF)
    (hfresh : o.registered i = false) :
    ((o.step (.runReg n i v)).exec ops).count i =
      o.count i + (if v then 1 else 0) + callsSpec (regPut o.reg n i) ops i := by
  have := exec_count o (.runReg n i v :: ops) i h
  simp only [Obs.exec, List.foldl_cons, callsSpec] at this ⊢
  rw [this]
  have hr : regHas o.reg i = false := hfresh
  simp [hr]; omega

example :
    (Obs.empty.exec [.add ['p'] 1, .runReg ['c'] 2 false, .run, .add ['c'] 3, .run]).counts
      = [(1, 3), (2, 1), (3, 1)] := by decide

/-- **Notification clause over histories**: for every history of edits, deletions, reloads and
    registrations (either reset policy), each observer target has been called exactly once for
    every reload that loaded a new version of the file (resp. reset the map, with fix-D46) while
    the target was registered, and never otherwise: a reload that finds the same stamp, no file or
    a malformed file calls nobody and leaves the map alone (`reload_leaves_alone`) -/
theorem notifications_history (nr : Bool) (ops : List SysOp) (id : Nat) :
    ((Sys.init.run nr ops).obs).count id = callsSpec [] (project nr Sys.init ops) id :=
  notifications_over_history nr ops id

/-- histories may contain observers that panic in their callback (`SysOp.reloadPanic`: reload
    recovers the panic; only the targets visited before it — Go's map order decides which — were
    called for that change): `notifications_history` covers them, and a failing observer changes
    neither the registry nor anybody's future — the next complete round calls every registered
    target exactly once -/
theorem panicking_observer_does_not_silence (o : Obs) (visited : List Nat) (id : Nat) (h : o.WF)
    (hr : o.registered id = true) :
    ((o.runPartial visited).run).count id = (o.runPartial visited).count id + 1 ∧
    (o.runPartial visited).reg = o.reg :=
  runPartial_then_run o visited id h hr

example :
    let f1 : FileSt := ⟨1700000000000000000, ['k', '=', '2', '\n']⟩
    let f2 : FileSt := ⟨1700000001000000000, ['k', '=', '3', '\n']⟩
    (Sys.init.run true [.addObs ['a'] 1, .addObs ['b'] 2, .edit f1, .reloadPanic [2], .edit f2, .reload]).obs.counts
      = [(1, 1), (2, 2)] := by decide

/-- … and the configuration's own count of notification rounds is exactly the number of reloads
    of the history that notified (loaded a new version; with fix-D46 also: reset to the defaults) -/
theorem notification_rounds (nr : Bool) (ops : List SysOp) :
    (Sys.init.run nr ops).cfg.notified = roundsOf (project nr Sys.init ops) := by
  have := notified_is_rounds nr Sys.init ops
  simpa [Sys.init, Cfg.init] using this

theorem reload_leaves_alone (c : Cfg) (file : Option FileSt)
    (h1 : (reload verFull c file).2 ≠ .loaded) (h2 : (reload verFull c file).2 ≠ .reset) :
    (reload verFull c file).1.m = c.m ∧ (reload verFull c file).1.notified = c.notified :=
  reload_frame verFull c file h1 h2

example :
    let f1 : FileSt := ⟨1700000000000000000, ['k', '=', '2', '\n']⟩
    let f2 : FileSt := ⟨1700000001000000000, ['k', '=', '3', '\n']⟩
    (Sys.init.run false [.addObs ['a'] 1, .edit f1, .reload, .reload, .addObs ['b'] 2, .edit f2, .reload,
       .delete, .reload, .reload]).obs.counts = [(1, 2), (2, 1)] := by decide

/-- known finding `reload:reset-not-notified`: when the file disappears the map changes (back to
    the defaults) but the code does not run the observers; with proposed fix-D46 it does -/
theorem finding_reset_not_notified :
    let f1 : FileSt := ⟨1700000000000000000, ['k', '=', '2', '\n']⟩
    let ops : List SysOp := [.addObs ['a'] 1, .edit f1, .reload, .delete, .reload]
    lookup (Sys.init.run false ops).cfg.m ['k'] = none ∧ lookup (Sys.init.run false [.addObs ['a'] 1, .edit f1, .reload]).cfg.m ['k'] = some ['2'] ∧
    (Sys.init.run false ops).obs.counts = [(1, 1)] ∧ (Sys.init.run true ops).obs.counts = [(1, 2)] := by decide

/-- for all histories of external edits, deletions and reloads: once the file stops changing
    (state `f`), one more reload makes every key=value of it visible.
    Assumptions about the world, not about the code: two states of the file that reload cannot
    tell apart (same mtime in ns and same size) have the same content, and no file carries
    the sentinel times -1 / 0. -/
theorem tracks (ops : List HOp) (f : FileSt)
    (hinj : VerInj verFull (filesOf ops)) (hreal : VerReal verFull (filesOf ops))
    (hcur : (runH verFull (Cfg.init, none) ops).2 = some f) :
    Reflects (runH verFull (Cfg.init, none) (ops ++ [.reload])).1 f.text :=
  tracks_after_reload verFull ops f hinj hreal hcur

/-- non-vacuity: two edits 0.3 s apart within one second, then a reload -/
example :
    lookup (runH verFull (Cfg.init, none)
      [.edit ⟨1700000000100000000, ['k', '=', '2', '\n']⟩, .reload,
       .edit ⟨1700000000400000000, ['k', '=', '3', '\n']⟩, .reload]).1.m ['k'] = some ['3'] := by decide

/-- the version stamp reload compares is exactly (mtime in ns, size in bytes) -/
theorem version_stamp (f : FileSt) : verFull f = (f.mtimeNs, (utf8Len f.text : Int)) := rfl

/-- known finding `reload:same-stamp-edit` (the residue of D37 on file systems with coarse
    timestamps, and of `cp -p`/restore with an identical mtime): an edit that changes neither the
    size nor the mtime violates `VerInj` and is never loaded — no stat-based watcher can see it -/
theorem finding_same_stamp :
    let f1 : FileSt := ⟨1700000000000000000, ['k', '=', '2', '\n']⟩
    let f2 : FileSt := ⟨1700000000000000000, ['k', '=', '3', '\n']⟩
    verFull f1 = verFull f2 ∧ ¬ VerInj verFull [f1, f2] ∧
    lookup (runH verFull (Cfg.init, none) [.edit f1, .reload, .edit f2, .reload]).1.m ['k'] = some ['2'] := by
  refine ⟨by decide, ?_, by decide⟩
  intro h
  have := h ⟨1700000000000000000, ['k', '=', '2', '\n']⟩ (by simp)
    ⟨1700000000000000000, ['k', '=', '3', '\n']⟩ (by simp) (by decide)
  revert this; decide

/-- an external edit that lands in the middle of a reload (after reload took the stamp and read the
    file): because the remembered stamp is the one taken *before* the read, the next reload loads it -/
theorem edit_during_reload_recovered (c : Cfg) (f1 f2 : FileSt) (props : KV)
    (hv : verFull f1 ≠ verFull f2) (hp : parseProps f2.text = .ok props) :
    let c1 := reloadRacing false c f1 f2
    (reload verFull c1 (some f2)).2 = .loaded ∧
    (reload verFull c1 (some f2)).1.notified = c1.notified + 1 ∧
    Reflects (reload verFull c1 (some f2)).1 f2.text :=
  reload_race_recovers c f1 f2 props hv hp

/-- … whereas a stamp taken by a fresh stat after the read belongs to the new content while the map
    holds the old one: every later reload answers "same" -/
theorem finding_stamp_after_read :
    let f1 : FileSt := ⟨1700000000000000000, ['k', '=', '2', '\n']⟩
    let f2 : FileSt := ⟨1700000005000000000, ['k', '=', '3', '3', '\n']⟩
    let c1 := reloadRacing true Cfg.init f1 f2
    (reload verFull c1 (some f2)).2 = .same ∧ lookup (reload verFull c1 (some f2)).1.m ['k'] = some ['2'] ∧
    lookup (reload verFull (reloadRacing false Cfg.init f1 f2) (some f2)).1.m ['k'] = some ['3', '3'] := by decide

/-- the file goes away, a reload notices it (defaults), the file comes back — with any stamp, even
    the very one it had before (rename back, `cp -p`, `tar x`, `rsync -t`): it is loaded.  The
    remembered time 0 written by the reset is what guarantees the difference. -/
theorem restored_file_is_loaded (c : Cfg) (f : FileSt) (props : KV)
    (h1 : c.last.1 ≠ -1) (h0 : c.last.1 ≠ 0) (hf : f.mtimeNs ≠ 0) (hp : parseProps f.text = .ok props) :
    let c1 := (reload verFull c none).1
    (reload verFull c1 (some f)).2 = .loaded ∧ Reflects (reload verFull c1 (some f)).1 f.text :=
  restored_file_loaded c f props h1 h0 hf hp

example :
    let f : FileSt := ⟨1700000000000000000, ['k', '=', '2', '\n']⟩
    lookup (runH verFull (Cfg.init, none) [.edit f, .reload, .delete, .reload, .edit f, .reload]).1.m ['k'] = some ['2'] := by decide

/-- … whereas a reset that keeps the remembered stamp (file-missing tracked by a separate flag)
    answers "same" when the file returns with its old stamp: the defaults stay for ever -/
theorem finding_reset_keeps_stamp :
    let f : FileSt := ⟨1700000000000000000, ['k', '=', '2', '\n']⟩
    let c := (reload verFull Cfg.init (some f)).1
    (reload verFull (resetKeepingStamp c) (some f)).2 = .same ∧
    lookup (reload verFull (resetKeepingStamp c) (some f)).1.m ['k'] = none := by decide

/-- whatever reload finds in the file — also an unparsable intermediate version (half-written file,
    bad escape, malformed `${`) — is remembered by its stamp — so when the file then disappears the
    configuration goes back to the defaults (and, with the observers told about resets, notifies) -/
theorem gone_after_failed_parse (c : Cfg) (f : FileSt) (h1 : f.mtimeNs ≠ -1) (h0 : f.mtimeNs ≠ 0) :
    let c1 := (reload verFull c (some f)).1
    c1.last = verFull f ∧ (reloadN true verFull c1 none).2 = .reset ∧
    (reloadN true verFull c1 none).1.notified = c1.notified + 1 := by
  intro c1
  have hl : c1.last = verFull f := reload_last verFull c f
  refine ⟨hl, ?_, ?_⟩
  · simp only [reloadN, reload, hl, verFull]
    simp [h1, h0]
  · simp only [reloadN, reload, hl, verFull]
    simp [h1, h0]

example :
    let f1 : FileSt := ⟨1700000000000000000, ['k', '=', '2', '\n']⟩
    let bad : FileSt := ⟨1700000001000000000, ['=', 'v', '\n']⟩
    let s := Sys.init.run true [.addObs ['a'] 1, .edit f1, .reload, .edit bad, .reload, .delete, .reload]
    lookup s.cfg.m ['k'] = none ∧ lookup s.cfg.m "enabled".toList = some "true".toList ∧ s.obs.counts = [(1, 2)] := by decide

/-- … whereas "forgetting" the stamp after a failed parse by writing the never-loaded sentinel −1
    makes the later disappearance of the file invisible: no reset, no notification -/
theorem finding_forgotten_stamp_is_never_loaded :
    let f1 : FileSt := ⟨1700000000000000000, ['k', '=', '2', '\n']⟩
    let c := (reload verFull Cfg.init (some f1)).1
    (reloadN true verFull { c with last := (-1, c.last.2) } none).2 = .nofile ∧
    lookup (reloadN true verFull { c with last := (-1, c.last.2) } none).1.m ['k'] = some ['2'] := by decide

/-- D37: the unchanged code compares whole seconds — the same history leaves the first value -/
theorem finding_D37 :
    lookup (runH verSec (Cfg.init, none)
      [.edit ⟨1700000000100000000, ['k', '=', '2', '\n']⟩, .reload,
       .edit ⟨1700000000400000000, ['k', '=', '3', '\n']⟩, .reload]).1.m ['k'] = some ['2'] := by decide

/-! ## concurrent readers -/

/-- with every store of `apply` under `mu.Lock()` and every read section under `mu.RLock()`
    (the lock facts of Golib.Gen.C18), a reader sees the complete old map or the complete new
    map, for every schedule -/
theorem no_torn_read (old : KV) (ops : List WOp) (reads : List Str) (sched : List Who)
    (hdone : (runM true old ops reads sched).r = .done) :
    (runM true old ops reads sched).obs = reads.map (lookup old) ∨
    (runM true old ops reads sched).obs = reads.map (lookup (storeAll old ops)) :=
  locked_no_torn_read old ops reads sched hdone

/-- in particular for `apply` (a sequence of stores) and for the reset when the file disappeared
    (replace the map by an empty one, then store the defaults — one critical section) -/
example (old kvs : KV) (reads : List Str) (sched : List Who) (h : (runM true old (storesOf kvs) reads sched).r = .done) :=
  no_torn_read old (storesOf kvs) reads sched h
example (old : KV) (reads : List Str) (sched : List Who) (h : (runM true old (.clear :: storesOf defaults) reads sched).r = .done) :=
  no_torn_read old (.clear :: storesOf defaults) reads sched h

/-- D36: without the lock there is a schedule on which one read section sees key a of the old
    version and key b of the new one (the Go runtime usually aborts the process first) -/
theorem finding_D36 :
    let old : KV := [(['a'], ['1']), (['b'], ['1'])]
    let kvs : List WOp := storesOf [(['a'], ['2']), (['b'], ['2'])]
    let reads : List Str := [['a'], ['b']]
    let s := runM false old kvs reads [.reader, .reader, .writer, .writer, .writer, .reader, .reader]
    s.r = .done ∧ s.obs = [some ['1'], some ['2']] ∧
    s.obs ≠ reads.map (lookup old) ∧ s.obs ≠ reads.map (lookup (storeAll old kvs)) := by decide

/-- the reset split over two critical sections (empty the map; release; refill): a reader that
    runs in the gap sees an empty configuration — a key that is `true` in the old map and in the
    defaults reads as absent.  Each section alone satisfies `no_torn_read`; the pair does not give
    old-or-new. -/
theorem finding_reset_gap :
    let old : KV := [(['e'], ['t'])]
    let dflt : KV := [(['e'], ['t'])]
    let reads : List Str := [['e']]
    let s := runM true old [.clear] reads [.writer, .writer, .writer, .reader, .reader, .reader]
    s.w = .done ∧ s.r = .done ∧ s.obs = [none] ∧
    s.obs ≠ reads.map (lookup old) ∧ s.obs ≠ reads.map (lookup (storeAll old (.clear :: storesOf dflt))) := by decide

/-! ## the rest of the exported API -/

/-- **which file**: `$WHATAP_CONFIG_HOME` beats the WithHomePath option, which beats `$WHATAP_HOME`, which
    beats "."; the name is `$WHATAP_CONFIG` or "whatap.conf" (GetConfFile joins the two) -/
theorem conf_file_precedence (homeOpt envHome envConfHome envConfName : Str) :
    (envConfHome ≠ [] → (confFileParts homeOpt envHome envConfHome envConfName).1 = envConfHome) ∧
    (envConfHome = [] → homeOpt ≠ [] → (confFileParts homeOpt envHome envConfHome envConfName).1 = homeOpt) ∧
    (envConfHome = [] → homeOpt = [] → envHome ≠ [] → (confFileParts homeOpt envHome envConfHome envConfName).1 = envHome) ∧
    (envConfHome = [] → homeOpt = [] → envHome = [] → (confFileParts homeOpt envHome envConfHome envConfName).1 = ['.']) ∧
    (confFileParts homeOpt envHome envConfHome envConfName).2 = (if envConfName = [] then "whatap.conf".toList else envConfName) := by
  refine ⟨?_, ?_, ?_, ?_, ?_⟩
  · intro h
    cases envConfHome with
    | nil => exact absurd rfl h
    | cons a b => rfl
  · intro h1 h2; subst h1
    cases homeOpt with
    | nil => exact absurd rfl h2
    | cons a b => rfl
  · intro h1 h2 h3; subst h1; subst h2
    cases envHome with
    | nil => exact absurd rfl h3
    | cons a b => rfl
  · intro h1 h2 h3; subst h1; subst h2; subst h3; rfl
  · cases envConfName with
    | nil => rfl
    | cons a b => rfl

/-- **ApplyConfig(map)** stores every entry — empty values included — and nothing else changes: an
    assigned key reads back through GetValue (trimmed, never the environment), any other key answers as
    before; the remembered stamp and the notification count stay -/
theorem applyConfig_spec (c : Cfg) (kvs env : KV) (hn : KeysNodup kvs) :
    (∀ k v, (k, v) ∈ kvs → getValue (applyConfig c kvs).m env k = trimSpace v) ∧
    (∀ k, (∀ p ∈ kvs, p.1 ≠ k) → getValue (applyConfig c kvs).m env k = getValue c.m env k) ∧
    (applyConfig c kvs).last = c.last ∧ (applyConfig c kvs).notified = c.notified := by
  refine ⟨?_, ?_, rfl, rfl⟩
  · intro k v h
    simp [getValue, applyConfig, lookup_mergeAll_mem c.m kvs k v hn h]
  · intro k h
    simp [getValue, applyConfig, lookup_mergeAll_skip c.m kvs k h]

example : getValue (applyConfig ⟨[(['a'], ['1'])], (5, 3), 2⟩ [(['a'], []), (['b'], [' ', 'x'])]).m [(['a'], ['e'])] ['a'] = [] := by decide

/-- **ApplyDefault** is ApplyConfig of the defaults table: every default key reads its default, every
    other key is untouched -/
theorem applyDefault_spec (c : Cfg) (env : KV) :
    (∀ k v, (k, v) ∈ defaults → getValue (applyDefault c).m env k = trimSpace v) ∧
    (∀ k, (∀ p ∈ defaults, p.1 ≠ k) → getValue (applyDefault c).m env k = getValue c.m env k) :=
  ⟨(applyConfig_spec c defaults env keysNodup_defaults).1, (applyConfig_spec c defaults env keysNodup_defaults).2.1⟩

/-- **String() / ToString()** list every entry of the map as `key=value` with the value as stored -/
theorem string_lists_every_entry (m : KV) (k v : Str) (h : lookup m k = some v) :
    (k ++ '=' :: v) ∈ showLines m ∧ (showLines m).length = m.length :=
  ⟨mem_showLines m k v (mem_of_lookup m k v h), by simp [showLines]⟩

/-- **InArray**: membership up to `strings.TrimSpace` on both sides -/
theorem inArray_spec (s : Str) (list : List Str) :
    inArray s list = true ↔ ∃ it ∈ list, trimSpace it = trimSpace s :=
  inArray_iff s list

example : inArray [' ', 'a'] [['b'], ['a', '\n']] = true ∧ inArray ['a'] [['A'], ['a', ' ', 'b']] = false := by decide

/-- **GetStringArray**: nothing for an empty value-or-default, else the tokens (cut at any delimiter
    character, empty tokens dropped), each trimmed -/
theorem getStringArray_spec (m env : KV) (k d deli : Str) :
    getStringArray m env k d deli =
      if (getValueDef m env k d).isEmpty then [] else (tokenizer (getValueDef m env k d) deli).map trimSpace := rfl

example : getStringArray [(['k'], " a, b ;;c ".toList)] [] ['k'] [] ",;".toList = [['a'], ['b'], ['c']] := by decide

/-! ## the object's own write-back, seen by the next reload -/

/-- SetValues changes the file only: the in-memory map, the remembered stamp and the observer registry
    stay as they are (the written values become visible through the next reload, not before) -/
theorem setvalues_changes_the_file_only (keep : Bool) (pre suf : Str) (excl : List Str) (s : Sys) (now : Int) (kvs : KV) :
    (s.setValues keep pre suf excl now kvs).cfg = s.cfg ∧ (s.setValues keep pre suf excl now kvs).obs = s.obs :=
  setValues_frame keep pre suf excl s now kvs

/-- **own write is loaded**: a reload has looked at the file `f`; the object writes `text` back — a new
    file, stamped with the clock time `now` of the write — and the clock is not at `f`'s modification
    time; the next reload loads it, notifies, and every key=value of `text` is visible — whether or not
    the write changed the size of the file (same-length replacement, lengths that cancel out, …) -/
theorem own_write_is_loaded (c : Cfg) (f : FileSt) (now : Int) (text : Str) (props : KV)
    (hnow : now ≠ f.mtimeNs) (hp : parseProps text = .ok props) :
    let c1 := (reload verFull c (some f)).1
    let f' := writeBackFile false now f text
    (reload verFull c1 (some f')).2 = .loaded ∧
    (reload verFull c1 (some f')).1.notified = c1.notified + 1 ∧
    Reflects (reload verFull c1 (some f')).1 text :=
  own_write_loaded c f now text props hnow hp

/-- non-vacuity: `trace_rate=10` loaded, `25` written 50 ms later (same size), reload: 25 -/
example :
    let f : FileSt := ⟨1700000000000000000, "# s\ntrace_rate=10\n".toList⟩
    let c1 := (reload verFull Cfg.init (some f)).1
    lookup (reload verFull c1 (some (writeBackFile false 1700000000050000000 f "# s\ntrace_rate=25\n".toList))).1.m
      "trace_rate".toList = some "25".toList := by decide

/-- **written values read back through the getters** (write-back merge + reload, end to end): a
    well-formed file, loaded at any earlier point; assignments `M` (well-formed keys and values, no key
    twice) written by `DefaultFileParser.Write` at a clock time different from the file's modification
    time; one reload: `GetValue` of every assigned non-blank key answers the assigned value (trimmed) -/
theorem written_value_read_back (infos : List LineInfo) (M : KV) (hwf : WFprops infos) (hM : PropsWF M)
    (hn : KeysNodup M) (k v : Str) (hkv : (k, v) ∈ M) (hv : isBlankVal v = false)
    (c : Cfg) (env : KV) (mt now : Int) (hnow : now ≠ mt)
    (out : WriteOut) (hw : writeModel true (textOf infos) M = some out) (hx : parseProps out.text ≠ .expansion) :
    let f : FileSt := ⟨mt, textOf infos⟩
    let c1 := (reload verFull c (some f)).1
    getValue (reload verFull c1 (some (writeBackFile false now f out.text))).1.m env k = trimSpace v :=
  written_value_visible infos M hwf hM hn k v hkv hv c env mt now hnow out hw hx

/-- the same after an **arbitrary history** of the whole system (edits, deletions, reloads,
    registrations, panicking observers): the file exists, a reload runs, the object writes back
    (SetValues with prefix / suffix / exclusions) at a clock time different from the file's modification
    time, a reload runs: the file is the written one, the configuration reflects it, exactly one more
    notification round ran over the registry as it was -/
theorem own_write_after_any_history (nr : Bool) (ops : List SysOp) (f : FileSt) (now : Int)
    (pre suf : Str) (excl : List Str) (kvs : KV) (out : WriteOut) (props : KV)
    (hf : (Sys.init.run nr ops).file = some f)
    (hs : setValuesModel true pre suf excl f.text kvs = some out)
    (hp : parseProps out.text = .ok props) (hnow : now ≠ f.mtimeNs) :
    let s1 := (Sys.init.run nr ops).step nr .reload
    let s2 := (s1.setValues false pre suf excl now kvs).step nr .reload
    s2.file = some (writeBackFile false now f out.text) ∧
    Reflects s2.cfg out.text ∧ s2.cfg.notified = s1.cfg.notified + 1 ∧ s2.obs = s1.obs.run :=
  own_write_after_history nr ops f now pre suf excl kvs out props hf hs hp hnow

/-- non-vacuity: edit, reload, registration, same-length SetValues under a prefix, reload -/
example :
    let f : FileSt := ⟨1700000000000000000, "p.rate=10\n".toList⟩
    let s1 := (Sys.init.run true [.edit f, .reload, .addObs "o".toList 1]).step true .reload
    let s2 := (s1.setValues false "p.".toList [] [] 1700000000050000000 [("rate".toList, "25".toList)]).step true .reload
    lookup s2.cfg.m "p.rate".toList = some "25".toList ∧ s2.obs.counts = [(1, 1)] := by decide

/-- … whereas a write-back that carries the modification time of the replaced file over to the
    replacement (`os.Chtimes(tmp, st.ModTime(), …)` before the rename) hides every size-preserving
    write from reload: the answer is "same", the getters keep the old value for ever, nobody is told -/
theorem finding_stamp_carried_over :
    let f : FileSt := ⟨1700000000000000000, "# s\ntrace_rate=10\n".toList⟩
    let c1 := (reload verFull Cfg.init (some f)).1
    let f' := writeBackFile true 1700000000050000000 f "# s\ntrace_rate=25\n".toList
    (reload verFull c1 (some f')).2 = .same ∧
    lookup (reload verFull c1 (some f')).1.m "trace_rate".toList = some "10".toList ∧
    (reload verFull c1 (some f')).1.notified = c1.notified := by decide

/-! ## write-back -/

/-- **Write-back merge** (the part of the property the code satisfies; full statement: for *all*
    keys and values of the properties syntax — see `finding_value_escape`, `finding_key_escape`).
    For a file made of well-formed lines (comment/blank lines, and `key = value` lines whose key
    needs no escape) and assignments `M` with well-formed keys and values, the text produced by
    DefaultFileParser.Write parses, and reading it back gives exactly the merged map
    (`file ⊕ M`, blank values meaning "delete"). -/
theorem writeback_merge_partial (infos : List LineInfo) (M : KV) (hwf : WFprops infos) (hM : PropsWF M) :
    ∃ out, writeModel true (textOf infos) M = some out ∧
      ∃ outPairs, lexPairs out.text = some outPairs ∧
        ∀ key, lookup (readMap (buildProps outPairs)) key =
               visible (setAll (buildProps (pairsOf infos)) M) key :=
  writeModel_merge infos M hwf hM

/-- the merged map: an assigned key has the assigned value, every other key the file's value -/
theorem merged_map (props M : KV) (hn : KeysNodup M) :
    (∀ k v, (k, v) ∈ M → k ≠ [] → lookup (setAll props M) k = some v) ∧
    (∀ k, (∀ p ∈ M, p.1 ≠ k) → lookup (setAll props M) k = lookup props k) :=
  ⟨fun k v hm hk => lookup_setAll_mem props M k v hn hm hk, fun k h => lookup_setAll_skip props M k h⟩

/-- comment lines, blank lines and their positions survive; the remaining key=value lines keep
    their order and carry the merged value; new keys are appended after them -/
theorem writeback_layout (infos : List LineInfo) (M : KV) (hwf : WFprops infos) :
    let props := setAll (buildProps (pairsOf infos)) M
    (writeLines true props (infos.map (·.1))).text = textOf (outInfos props infos) ∧
    ((outInfos props infos).filter (fun li => li.2.isNone)).map (·.1) =
      (infos.filter (fun li => li.2.isNone)).map (·.1) ∧
    pairsOf (outInfos props infos) =
      ((pairsOf infos).filterMap (fun p =>
        if isBlankVal ((lookup props p.1).getD []) then none else some (p.1, (lookup props p.1).getD [])))
      ++ pairsOf (appendedInfos props ((pairsOf infos).map (·.1))) :=
  ⟨writeLines_wf _ infos hwf, skipLines_preserved _ infos, kv_order_preserved _ infos⟩

/-- what a write-back produces is again a well-formed file (so the theorem applies to the next
    write-back as well: files maintained through SetValues stay inside the class) -/
theorem writeback_closed (infos : List LineInfo) (M : KV) (hwf : WFprops infos) (hM : PropsWF M) :
    WFprops (outInfos (setAll (buildProps (pairsOf infos)) M) infos) :=
  outInfos_wf _ infos hwf
    (propsWF_setAll _ M (propsWF_foldl_put _ [] (by intro p hp; cases hp) (propsWF_pairsOf infos hwf)) hM)

example : (setValuesModel true ['p', '.'] [] [['x']] ['#', 'c', '\n', 'p', '.', 'a', '=', '1', '\n']
      [(['a'], ['2']), (['x'], ['9']), (['b'], ['3'])]).map (·.text)
    = some ['#', 'c', '\n', 'p', '.', 'a', '=', '2', '\n', 'p', '.', 'b', '=', '3', '\n'] := by decide

/-- the same through FileConfig.SetValues (exclusions, prefix, suffix) -/
theorem setvalues_merge_partial (pre suf : Str) (excl : List Str) (infos : List LineInfo) (kvs : KV)
    (hwf : WFprops infos)
    (hkv : ∀ kv ∈ kvs, ∀ k', finalKey pre suf excl kv.1 = some k' → WFkey k' ∧ (kv.2 = [] ∨ WFval kv.2)) :
    ∃ tmp out, setValuesModel true pre suf excl (textOf infos) kvs = some out ∧
      writeModel true (textOf infos) tmp = some out ∧
      ∃ outPairs, lexPairs out.text = some outPairs ∧
        ∀ key, lookup (readMap (buildProps outPairs)) key =
               visible (setAll (buildProps (pairsOf infos)) tmp) key :=
  setValues_merge pre suf excl infos kvs hwf hkv

/-- **The grammar**: every key (non-empty) and every value — any characters — is expressible: the
    canonical rendering (escapes `\ `, `\:`, `\=`, `\\`, `\#`, `\!`, `\t`, `\n`, `\r`, `\f`) is read back
    exactly, line by line and for whole files: parse ∘ render = id -/
theorem parse_render_roundtrip (pairs : KV) (h : ∀ p ∈ pairs, p.1 ≠ []) :
    lexPairs (renderFileFull pairs) = some pairs := lexPairs_renderFileFull pairs h

example : lexPairs (renderFileFull [(['a', ' ', '='], ['\t', 'x', '\n', '\\']), (['#'], [])])
    = some [(['a', ' ', '='], ['\t', 'x', '\n', '\\']), (['#'], [])] := by decide

/-- **Which values survive a write-back** (complete characterisation behind the known finding
    `writeback:value-escape`): the line Write renders for (k, v) is read back as exactly (k, v)
    iff v has no line break, no two adjacent backslashes and no leading blank; in general what
    comes back (up to the first line break) is `collapseBs (dropWhile blank v)` -/
theorem value_preserved_iff (k v : Str) (hk : WFkey k) :
    lexPairs (renderKV k v ++ ['\n']) = some [(k, v)] ↔ ValuePreserved v :=
  Conf.value_preserved_iff k v hk

theorem value_read_back_as (k v : Str) (out : KV) (hk : WFkey k) (hv : ∀ c ∈ v, isEOL c = false) :
    lexRun ⟨.bk, out⟩ (renderKV k v ++ ['\n']) = ⟨.bk, (k, collapseBs (v.dropWhile isWs)) :: out⟩ :=
  value_readback k v '\n' out hk (by decide) hv

/-- `WFval` of the write-back theorem is exactly "preserved and not blank" -/
theorem wfval_iff (v : Str) : WFval v ↔ ValuePreserved v ∧ isBlankVal v = false := by
  constructor
  · intro ⟨h1, h2, h3, h4⟩
    exact ⟨⟨h2, h3, Or.inr h4⟩, h1⟩
  · intro ⟨⟨h2, h3, h4⟩, h1⟩
    refine ⟨h1, h2, h3, ?_⟩
    rcases h4 with h4 | h4
    · subst h4; simp [isBlankVal, trimSpace, trimBy, trimRightBy, trimLeftBy] at h1
    · exact h4

/-- **Which keys survive a write-back** (behind `writeback:key-escape`): keys are written
    unescaped and only when they start with `[0-9A-Za-z_]` (`appendedLines`); a key without a
    backslash is read back from its line iff none of its characters ends a key, otherwise the item
    comes back under the strictly shorter prefix before the first such character.  (Keys containing
    a backslash: not preserved either — witness `finding_key_escape` —; no iff is proved for them.) -/
theorem key_preserved_iff (k v : Str) (hw : isWordStart k = true) (hbs : ∀ c ∈ k, c ≠ '\\') (hv : WFval v) :
    lexPairs (renderKV k v ++ ['\n']) = some [(k, v)] ↔ ∀ c ∈ k, plainKeyChar c = true :=
  Conf.key_preserved_iff k v hw hbs hv

/-- keys with a backslash (written unescaped, so the lexer sees an escape): if the first
    character that is not plain is a backslash and the character after it — the next character of
    the key, or the line's '=' when the backslash ends the key — is neither another backslash nor
    'u', the key is not preserved.  Together with `key_preserved_iff` (no backslash) and the
    `^\w` filter this leaves exactly two shapes without a general proof: a backslash followed by a
    backslash, and a backslash followed by 'u' (witnesses below). -/
theorem key_with_backslash_not_preserved (a b v : Str) (c : Char) (ha : WFkey a)
    (hc1 : c ≠ '\\') (hc2 : c ≠ 'u')
    (hnext : (b ++ '=' :: escValue v ++ ['\n']).head? = some c) :
    lexPairs (renderKV (a ++ '\\' :: b) v ++ ['\n']) ≠ some [(a ++ '\\' :: b, v)] :=
  key_backslash_not_preserved a b v c ha hc1 hc2 hnext

example : lexPairs (renderKV ['a', '\\', 'b'] ['1'] ++ ['\n']) = some [(['a', 'b'], ['1'])] := by decide
example : lexPairs (renderKV ['a', '\\'] ['1'] ++ ['\n']) = some [(['a', '=', '1'], [])] := by decide
/-- the two remaining shapes, by example: `a\\b` comes back as `a\b`, `a\u0041` as `aA` -/
example : lexPairs (renderKV ['a', '\\', '\\', 'b'] ['1'] ++ ['\n']) = some [(['a', '\\', 'b'], ['1'])] := by decide
example : lexPairs (renderKV ['a', '\\', 'u', '0', '0', '4', '1'] ['1'] ++ ['\n']) = some [(['a', 'A'], ['1'])] := by decide

/-- **Which keys survive a write-back — complete**: a key that starts with a word character
    (others are never written) is read back from its rendered line iff every character is plain
    (no blank, tab, form feed, line end, ':', '=', backslash).  A key containing a backslash is
    never read back under its own name, whatever follows the backslash
    (`Conf.key_with_bs_never_first`: the lexed key is shorter than the consumed text, or has one
    '=' more than the written key). -/
theorem key_preserved_iff_full (k v : Str) (hw : isWordStart k = true) (hv : WFval v) :
    lexPairs (renderKV k v ++ ['\n']) = some [(k, v)] ↔ ∀ c ∈ k, plainKeyChar c = true := by
  by_cases hbs : '\\' ∈ k
  · constructor
    · intro h
      have e : renderKV k v ++ ['\n'] = k ++ '=' :: (escValue v ++ ['\n']) := by simp [renderKV]
      rw [e] at h
      exact absurd h (key_with_bs_never_first k _ v [] hw hbs)
    · intro hall
      have hp := hall '\\' hbs
      have : plainKeyChar '\\' = false := by decide
      rw [this] at hp; cases hp
  · exact Conf.key_preserved_iff k v hw (fun c hc e => hbs (e ▸ hc)) hv

theorem key_cut_at_separator (a rest : Str) (e : Char) (l : KV) (ha : WFkey a) (he : isEndOfKey e = true)
    (h : lexPairs (a ++ e :: rest) = some l) : ∃ v tl, l = (a, v) :: tl :=
  key_cut_short a rest e l ha he h

example : lexPairs (renderKV ['d', ' ', 'e'] ['5'] ++ ['\n']) = some [(['d'], ['e', '=', '5'])] := by decide

/-- the well-formed class contains the full value grammar: any spelling of the value that the
    lexer reads as a preserved value (escapes, blanks around '='), empty values, comments starting
    with '#' or '!' after blanks -/
theorem wellformed_lines_full (k pv cs w : Str) (c : Char) (a b : Nat) (hk : WFkey k)
    (hpv : pv = [] ∨ WFval pv) (hw : ∀ x ∈ w, isWs x = true) (hc : isCommentStart c = true) (hcs : NoBreak cs) :
    KVLine (k ++ blanks a ++ '=' :: (blanks b ++ renderValFull pv)) k pv ∧
    KVLine (k ++ blanks a ++ '=' :: blanks b) k [] ∧
    SkipLine (w ++ c :: cs) :=
  ⟨kvline_full_spelling k pv a b hk hpv, empty_value_kvline k a b hk, comment_skipline w cs c hw hc hcs⟩

/-- a hand-written line with `\t` and `\u00e9` escapes in the value is in the class -/
example : KVLine ['k', ' ', '=', ' ', 'a', '\\', 't', 'b', '\\', 'u', '0', '0', 'e', '9'] ['k'] ['a', '\t', 'b', 'é'] := by
  have := kvline_of_raw ['k'] [' ', 'a', '\\', 't', 'b', '\\', 'u', '0', '0', 'e', '9'] ['a', '\t', 'b', 'é'] 1
    ⟨by decide, by decide⟩ (Or.inr ⟨by decide, by decide, by simp [NoAdjBs], by decide⟩)
    (by unfold NoBreak; decide) (fun out => rfl)
  simpa [blanks] using this

/-- known finding `writeback:line-shape`: a key=value line without '=' (':' or blank separator)
    is copied as it is and its key appended again; assigning works (the later line wins) but
    deleting the key does not, and every write-back adds another copy -/
theorem finding_line_shape :
    let text : Str := ['k', ':', ' ', 'v', '\n']
    (writeModel true text [(['k'], [])]).map (·.text) = some text ∧
    (writeModel true text [(['k'], ['w'])]).map (·.text) = some ['k', ':', ' ', 'v', '\n', 'k', '=', 'w', '\n'] ∧
    (writeModel true ['k', ':', ' ', 'v', '\n', 'k', '=', 'w', '\n'] []).map (·.text)
      = some ['k', ':', ' ', 'v', '\n', 'k', '=', 'w', '\n'] := by decide

/-- non-vacuity of the hypotheses: a comment containing '=' twice, a blank line and a rendered
    key=value line are well-formed lines -/
example : WFprops [(['#', 'x', '=', '1', '=', '2'], none), ([], none),
                   (renderKV ['k'] ['v', ' ', 'w'], some (['k'], ['v', ' ', 'w']))] := by
  intro li hli
  simp only [List.mem_cons, List.not_mem_nil, or_false] at hli
  rcases hli with h | h | h
  · subst h; exact hash_comment_skipline _ (by unfold NoBreak; decide)
  · subst h; exact empty_skipline
  · subst h
    exact renderKV_kvline _ _ ⟨by decide, by decide⟩ ⟨by decide, by decide, by simp [NoAdjBs], by decide⟩

/-- non-vacuity of `written_value_read_back`: the file above, loaded at time 5; `k=9` and `n=t ` written at
    time 6; after the reload GetValue("n") is the written value, trimmed -/
example :
    let infos : List LineInfo := [(['#', 'x', '=', '1', '=', '2'], none), ([], none),
                   (renderKV ['k'] ['v', ' ', 'w'], some (['k'], ['v', ' ', 'w']))]
    let f : FileSt := ⟨5, textOf infos⟩
    getValue (reload verFull (reload verFull Cfg.init (some f)).1
      (some (writeBackFile false 6 f (WriteOut.text ⟨[['#', 'x', '=', '1', '=', '2'], [], ['k', '=', '9']], [['n', '=', 't', ' ']]⟩)))).1.m
      [] ['n'] = ['t'] := by
  intro infos f
  have hwf : WFprops infos := by
    intro li hli
    simp only [infos, List.mem_cons, List.not_mem_nil, or_false] at hli
    rcases hli with h | h | h
    · subst h; exact hash_comment_skipline _ (by unfold NoBreak; decide)
    · subst h; exact empty_skipline
    · subst h
      exact renderKV_kvline _ _ ⟨by decide, by decide⟩ ⟨by decide, by decide, by simp [NoAdjBs], by decide⟩
  have hM : PropsWF [(['k'], ['9']), (['n'], ['t', ' '])] := by
    intro p hp
    simp only [List.mem_cons, List.not_mem_nil, or_false] at hp
    rcases hp with h | h <;> subst h
    · exact ⟨⟨by decide, by decide⟩, Or.inr ⟨by decide, by decide, by simp [NoAdjBs], by decide⟩⟩
    · exact ⟨⟨by decide, by decide⟩, Or.inr ⟨by decide, by decide, by simp [NoAdjBs], by decide⟩⟩
  exact written_value_read_back infos _ hwf hM (by unfold KeysNodup; decide) ['n'] ['t', ' '] (by simp) (by decide)
    Cfg.init [] 5 6 (by decide) _ (by decide) (by decide)

/-- the usual hand-written shape `key = value` (any number of blanks around '=') is a
    well-formed line, as are `#…` comments (whatever they contain) and empty lines -/
theorem wellformed_lines (k v cs : Str) (a b : Nat) (hk : WFkey k) (hv : WFval v) (hc : NoBreak cs) :
    KVLine (k ++ blanks a ++ '=' :: (blanks b ++ escValue v)) k v ∧ SkipLine ('#' :: cs) ∧ SkipLine [] :=
  ⟨spaced_kvline k v a b hk hv, hash_comment_skipline cs hc, empty_skipline⟩

example : writeModel true ['#', 'x', '=', '1', '=', '2', '\n', 'k', '=', '1', '\n'] [(['k'], ['9']), (['n'], ['v'])]
    = some ⟨[['#', 'x', '=', '1', '=', '2'], ['k', '=', '9']], [['n', '=', 'v']]⟩ := by decide

/-- D39 (second half): the unchanged code treats a comment line containing '=' as a key=value
    line: the text after a second '=' is cut off -/
theorem finding_D39_comment :
    writeModel false ['#', 'x', '=', '1', '=', '2', '\n', 'k', '=', '1', '\n'] [(['k'], ['9'])]
      = some ⟨[['#', 'x', '=', '1'], ['k', '=', '9']], []⟩ := by decide

/-- known finding `writeback:value-escape`: a value with two adjacent backslashes is not
    `WFval`, and indeed does not survive a write-back that does not even touch its key:
    the file `w=a\\\\b` (value `a\\b`) is rewritten as `w=a\\b` (value `a\b`) -/
theorem finding_value_escape :
    let text : Str := ['w', '=', 'a', '\\', '\\', '\\', '\\', 'b', '\n']
    (lexPairs text = some [(['w'], ['a', '\\', '\\', 'b'])]) ∧
    ((writeModel true text [(['k'], ['1'])]).map (·.text) =
       some ['w', '=', 'a', '\\', '\\', 'b', '\n', 'k', '=', '1', '\n']) ∧
    (lexPairs ['w', '=', 'a', '\\', '\\', 'b', '\n', 'k', '=', '1', '\n'] =
       some [(['w'], ['a', '\\', 'b']), (['k'], ['1'])]) ∧
    ¬ WFval ['a', '\\', '\\', 'b'] := by
  refine ⟨by decide, by decide, by decide, ?_⟩
  intro h; exact h.2.2.1

/-- known finding `writeback:key-escape`: a key that needs an escape is not `WFkey`; any
    write-back loses it: the file `d\ e=5` (key "d e") becomes `d e=5` (key "d", value "e=5") -/
theorem finding_key_escape :
    let text : Str := ['d', '\\', ' ', 'e', '=', '5', '\n']
    (lexPairs text = some [(['d', ' ', 'e'], ['5'])]) ∧
    ((writeModel true text [(['k'], ['1'])]).map (·.text) =
       some ['d', ' ', 'e', '=', '5', '\n', 'k', '=', '1', '\n']) ∧
    (lexPairs ['d', ' ', 'e', '=', '5', '\n', 'k', '=', '1', '\n'] =
       some [(['d'], ['e', '=', '5']), (['k'], ['1'])]) ∧
    ¬ WFkey ['d', ' ', 'e'] := by
  refine ⟨by decide, by decide, by decide, ?_⟩
  intro h
  have := h.2 ' ' (by simp)
  revert this; decide

/-! ## interrupted writes -/

/-- with the temp-file protocol (create in the same directory, write, sync, close, rename) the
    configuration file holds the complete old or the complete new content at every point at
    which the process can stop, and the new content at the end -/
theorem crash_atomic (old new : Str) :
    (∀ s ∈ crashStates new atomicSeq ⟨some old, none⟩, visibleOK old new s) ∧
    (atomicSeq.foldl (execKind new) ⟨some old, none⟩).target = some new :=
  ⟨atomicSeq_visible old new none, atomicSeq_final old new none⟩

/-- **Power loss** (durability model: volatile/durable content per inode, volatile/durable
    directory entry; un-synced data and an un-synced rename may or may not survive): with the
    code's sequence [close, createTemp, chmod, write, sync, close, rename] the configuration path
    holds the complete old or the complete new content whatever survives, at every point; once
    the sequence has run every process sees the new content.  The fsync is what makes this true:
    without it the file can come back empty (`noSyncSeq`). -/
theorem crash_atomic_durable (old new : Str) :
    (∀ s ∈ dstates new atomicSeq (DFS.init old), ∀ c ∈ outcomes s, c = old ∨ c = new) ∧
    (let s := atomicSeq.foldl (dexec new) (DFS.init old)
     (s.ino s.dirVol).vol = new ∧ ∀ c ∈ outcomes s, c = old ∨ c = new) :=
  ⟨atomicSeq_durable old new, atomicSeq_final_durable old new⟩

theorem finding_rename_without_sync (old new : Str) (hn : new ≠ []) :
    ∃ s ∈ dstates new noSyncSeq (DFS.init old), ([] : Str) ∈ outcomes s := noSyncSeq_can_lose old new hn

theorem finding_D39_trunc_durable (old new : Str) :
    ∃ s ∈ dstates new truncSeq (DFS.init old), ([] : Str) ∈ outcomes s := truncSeq_can_lose old new

example : ((dstates ['b'] atomicSeq (DFS.init ['a'])).flatMap outcomes).eraseDups = [['a'], ['b']] := by decide

/-- **Write faults**: CreateTemp, WriteString (after any number of characters), Sync, Close or
    Rename may fail in any combination: afterwards the configuration file holds the complete new
    content and Write returned nil, or the complete old content and Write returned the error; no
    temporary file stays behind -/
theorem write_faults_safe (ft : Faults) (old new : Str) :
    let r := storeProtocol true ft old new
    ((r.1.target = some new ∧ r.2 = false) ∨ (r.1.target = some old ∧ r.2 = true)) ∧ r.1.temp = none :=
  storeProtocol_checked ft old new

/-- … which needs the error of WriteString/Sync to reach the test that guards the rename: with
    that error lost, a write failing after n characters installs those n characters and reports
    success -/
theorem finding_write_error_lost (old new : Str) (n : Nat) :
    storeProtocol false ⟨false, some n, false, false, false⟩ old new = (⟨some (new.take n), none⟩, false) :=
  storeProtocol_unchecked old new n

example : (storeProtocol true ⟨false, some 2, false, false, false⟩ ['o', 'l', 'd'] ['n', 'e', 'w']) = (⟨some ['o', 'l', 'd'], none⟩, true) := by decide

/-- **Crash, then continue**: whatever an interrupted earlier write left in the temporary file
    (`leftover`, any content, any length), the next write-back starts from a fresh temporary file:
    old-or-new at every stop point and the complete new content at the end -/
theorem crash_then_continue (old new : Str) (leftover : Option Str) :
    (∀ s ∈ crashStates new atomicSeq ⟨some old, leftover⟩, visibleOK old new s) ∧
    (atomicSeq.foldl (execKind new) ⟨some old, leftover⟩).target = some new :=
  ⟨atomicSeq_visible old new leftover, atomicSeq_final old new leftover⟩

/-- D39 (first half): open with O_TRUNC, then write — there is a stop point at which the file
    is empty, and one for every proper prefix of the new content -/
theorem finding_D39_trunc (old new : Str) (ho : old ≠ []) (hn : new ≠ []) :
    ∃ s ∈ crashStates new truncSeq ⟨some old, none⟩, ¬ visibleOK old new s := by
  refine ⟨⟨some [], none⟩, truncSeq_shows_empty old new none, ?_⟩
  intro h
  rcases h with h | h
  · exact ho (by simpa using h.symm)
  · exact hn (by simpa using h.symm)

example : ∃ s ∈ crashStates ['a', '=', '2'] truncSeq ⟨some ['a', '=', '1'], none⟩, s.target = some ['a'] :=
  ⟨⟨some ['a'], none⟩, truncSeq_shows_prefix _ _ ['a'] none (by decide), rfl⟩

end C18
