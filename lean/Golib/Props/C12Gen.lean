/-
  C12, tie A — obligations over the per-type facts regenerated from /repo/util/hmap/<Type>.go
  (lean/Golib/Gen/C12.lean, written by xlate/c09 on every run): key / value kind, the `add` operator
  (`+=` vs `=`), the growth rule 2n+1, the end evicted per put mode, the capacity-0 constructor guard,
  the bounds of the `ContainsValue` scan, the empty-key guards, the result of `Add` on a fresh key.

  Each theorem says: the descriptor extracted from the source is the descriptor the CodeModel (and the
  driver session of that type) is configured with — or, for a type with a recorded deviation (known
  finding D15 / D17), that descriptor with the deviation repaired.  `decide` on finite data.
-/
import Golib.HMap.Types
import Golib.Gen.C12

namespace C12Gen
open HMap

theorem IntIntMap_desc : ∃ m, findType plainTypes "IntIntMap" = some m ∧ (Gen.C12.IntIntMap = m ∨ Gen.C12.IntIntMap = m.repaired) := by
  refine ⟨_, rfl, ?_⟩; decide

theorem IntKeyMap_desc : ∃ m, findType plainTypes "IntKeyMap" = some m ∧ (Gen.C12.IntKeyMap = m ∨ Gen.C12.IntKeyMap = m.repaired) := by
  refine ⟨_, rfl, ?_⟩; decide

theorem IntSet_desc : ∃ m, findType plainTypes "IntSet" = some m ∧ (Gen.C12.IntSet = m ∨ Gen.C12.IntSet = m.repaired) := by
  refine ⟨_, rfl, ?_⟩; decide

theorem StringSet_desc : ∃ m, findType plainTypes "StringSet" = some m ∧ (Gen.C12.StringSet = m ∨ Gen.C12.StringSet = m.repaired) := by
  refine ⟨_, rfl, ?_⟩; decide

/-- the whole table, in order (a type with a recorded deviation may also appear in its repaired form) -/
theorem types_match :
    (Gen.C12.types.map (·.name) = plainTypes.map (·.name)) ∧
    (Gen.C12.types.zip plainTypes).all (fun p => decide (p.1 = p.2) || decide (p.1 = p.2.repaired)) = true := by decide

end C12Gen
