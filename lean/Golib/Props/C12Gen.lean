/-
  C12, tie A — obligations over the per-type facts regenerated from /repo/util/hmap/<Type>.go
  (lean/Golib/Gen/C12.lean, written by xlate/c09 on every run): key / value kind, the `add` operator
  (`+=` vs `=`), the growth rule 2n+1, the end evicted per put mode, the capacity-0 constructor guard,
  the bounds of the `ContainsValue` scan, the empty-key guards, the result of `Add` on a fresh key.

  Each theorem says: the descriptor extracted from the source is the descriptor the CodeModel (and the
  driver session of that type) is configured with — or, for a type with a recorded deviation (known
  finding D15 / D17), that descriptor with the deviation repaired.  `decide` on finite data.
-/
import Golib.HMap.Types
import Golib.Gen.C12
import Golib.Gen.C12IR
import Golib.HMap.IR
import Golib.HMap.PlainStep

set_option linter.unusedSectionVars false

namespace C12Gen
open HMap

theorem IntIntMap_desc : ∃ m, findType plainTypes "IntIntMap" = some m ∧ (Gen.C12.IntIntMap = m ∨ Gen.C12.IntIntMap = m.repaired) := by
  refine ⟨_, rfl, ?_⟩; decide

theorem IntKeyMap_desc : ∃ m, findType plainTypes "IntKeyMap" = some m ∧ (Gen.C12.IntKeyMap = m ∨ Gen.C12.IntKeyMap = m.repaired) := by
  refine ⟨_, rfl, ?_⟩; decide

theorem IntSet_desc : ∃ m, findType plainTypes "IntSet" = some m ∧ (Gen.C12.IntSet = m ∨ Gen.C12.IntSet = m.repaired) := by
  refine ⟨_, rfl, ?_⟩; decide

theorem StringSet_desc : ∃ m, findType plainTypes "StringSet" = some m ∧ (Gen.C12.StringSet = m ∨ Gen.C12.StringSet = m.repaired) := by
  refine ⟨_, rfl, ?_⟩; decide

/-- the whole table, in order (a type with a recorded deviation may also appear in its repaired form) -/
theorem types_match :
    (Gen.C12.types.map (·.name) = plainTypes.map (·.name)) ∧
    (Gen.C12.types.zip plainTypes).all (fun p => decide (p.1 = p.2) || decide (p.1 = p.2.repaired)) = true := by decide


/-! ### interpreted tie A: the transcribed statements of put / add / addIfExist / unipoint / remove / rehash, run with the
    semantics of `Golib.HMap.IR`, are the CodeModel's steps — for every state, key, value, mode, hash function and
    threshold function.  (`Gen.C12IR.*` is regenerated from the Go source on every run.) -/

section interpreted
open HMap.IR
variable {K V : Type} [DecidableEq K] [DecidableEq V]

/-- IntIntMap.put -/
theorem IntIntMap_put_interp (d : Desc K V) (hash : K → Nat) (thr : Nat → Nat) (pm : PMap K V) (k : K) (v : V) :
    runP d hash thr Gen.C12IR.IntIntMap_put pm k v = expectPutP d hash thr (putShape "IntIntMap") pm k v :=
  put_plain_interp d hash thr (putShape "IntIntMap") rfl (by decide) rfl rfl _ (by decide) pm k v

/-- IntIntMap.add (fresh key: `return value`, the D17 deviation, is part of the shape) -/
theorem IntIntMap_add_interp (d : Desc K V) (hash : K → Nat) (thr : Nat → Nat) (pm : PMap K V) (k : K) (v : V) :
    runP d hash thr Gen.C12IR.IntIntMap_add pm k v = expectPutP d hash thr (addShape "IntIntMap") pm k v :=
  put_plain_interp d hash thr (addShape "IntIntMap") rfl (by decide) rfl rfl _ (by decide) pm k v

/-- IntIntMap.addIfExist -/
theorem IntIntMap_addIfExist_interp (pd : PDesc K V) (hash : K → Nat) (thr : Nat → Nat) (pm : PMap K V) (k : K) (v : V) :
    runP pd.toDesc hash thr Gen.C12IR.IntIntMap_addIfExist pm k v =
      ((pm.addIfExist hash pd k v).1, some (if (pm.tab.get hash k).isSome then Ret.cur else Ret.zero)) := by
  rw [show Gen.C12IR.IntIntMap_addIfExist = canonAddIfExist .cur .zero from by decide]
  exact canonAddIfExist_correct hash thr .cur .zero pd pm k v

/-- IntKeyMap.Put -/
theorem IntKeyMap_put_interp (d : Desc K V) (hash : K → Nat) (thr : Nat → Nat) (pm : PMap K V) (k : K) (v : V) :
    runP d hash thr Gen.C12IR.IntKeyMap_put pm k v = expectPutP d hash thr (putShape "IntKeyMap") pm k v :=
  put_plain_interp d hash thr (putShape "IntKeyMap") rfl (by decide) rfl rfl _ (by decide) pm k v

/-- IntSet.put -/
theorem IntSet_put_interp {K : Type} [DecidableEq K] (d : Desc K Unit) (hash : K → Nat) (thr : Nat → Nat) (pm : PMap K Unit) (k : K) :
    runP d hash thr Gen.C12IR.IntSet_put pm k () = expectPutP d hash thr (putShape "IntSet") pm k () :=
  put_plainSet_interp d hash thr (putShape "IntSet") rfl rfl rfl _ (by decide) pm k () (fun _ _ => rfl)

/-- StringSet.unipoint (Put and Unipoint call it), with its empty-key guard -/
theorem StringSet_put_interp {K : Type} [DecidableEq K] (d : Desc K Unit) (hash : K → Nat) (thr : Nat → Nat) (pm : PMap K Unit) (k : K) :
    runP d hash thr Gen.C12IR.StringSet_put pm k () = expectPutP d hash thr (putShape "StringSet") pm k () :=
  put_plainSet_interp d hash thr (putShape "StringSet") rfl rfl rfl _ (by decide) pm k () (fun _ _ => rfl)

/-- IntIntMap.remove -/
theorem IntIntMap_remove_interp (d : Desc K V) (hash : K → Nat) (thr : Nat → Nat) (pm : PMap K V) (k : K) (v : V) :
    runP d hash thr Gen.C12IR.IntIntMap_remove pm k v = expectRemoveP d hash (removeShape "IntIntMap") pm k :=
  remove_plain_interp d hash thr (removeShape "IntIntMap") rfl _ (by decide) pm k v

/-- IntIntMap.rehash (the plain maps' `grow` installs exactly this table and threshold) -/
theorem IntIntMap_rehash_interp (hash : K → Nat) (thr : Nat → Nat) (pm : PMap K V) :
    toP (interpRehash hash thr Gen.C12IR.IntIntMap_rehash (ofP pm)) =
      { pm with tab := pm.tab.rehash hash, threshold := thr (pm.tab.rehash hash).cap } := by
  rw [show Gen.C12IR.IntIntMap_rehash = canonRehash from by decide, rehash_correct]; rfl

/-- IntKeyMap.remove -/
theorem IntKeyMap_remove_interp (d : Desc K V) (hash : K → Nat) (thr : Nat → Nat) (pm : PMap K V) (k : K) (v : V) :
    runP d hash thr Gen.C12IR.IntKeyMap_remove pm k v = expectRemoveP d hash (removeShape "IntKeyMap") pm k :=
  remove_plain_interp d hash thr (removeShape "IntKeyMap") rfl _ (by decide) pm k v

/-- IntKeyMap.rehash (the plain maps' `grow` installs exactly this table and threshold) -/
theorem IntKeyMap_rehash_interp (hash : K → Nat) (thr : Nat → Nat) (pm : PMap K V) :
    toP (interpRehash hash thr Gen.C12IR.IntKeyMap_rehash (ofP pm)) =
      { pm with tab := pm.tab.rehash hash, threshold := thr (pm.tab.rehash hash).cap } := by
  rw [show Gen.C12IR.IntKeyMap_rehash = canonRehash from by decide, rehash_correct]; rfl

/-- IntSet.remove -/
theorem IntSet_remove_interp (d : Desc K V) (hash : K → Nat) (thr : Nat → Nat) (pm : PMap K V) (k : K) (v : V) :
    runP d hash thr Gen.C12IR.IntSet_remove pm k v = expectRemoveP d hash (removeShape "IntSet") pm k :=
  remove_plain_interp d hash thr (removeShape "IntSet") rfl _ (by decide) pm k v

/-- IntSet.rehash (the plain maps' `grow` installs exactly this table and threshold) -/
theorem IntSet_rehash_interp (hash : K → Nat) (thr : Nat → Nat) (pm : PMap K V) :
    toP (interpRehash hash thr Gen.C12IR.IntSet_rehash (ofP pm)) =
      { pm with tab := pm.tab.rehash hash, threshold := thr (pm.tab.rehash hash).cap } := by
  rw [show Gen.C12IR.IntSet_rehash = canonRehash from by decide, rehash_correct]; rfl

/-- StringSet.remove -/
theorem StringSet_remove_interp (d : Desc K V) (hash : K → Nat) (thr : Nat → Nat) (pm : PMap K V) (k : K) (v : V) :
    runP d hash thr Gen.C12IR.StringSet_remove pm k v = expectRemoveP d hash (removeShape "StringSet") pm k :=
  remove_plain_interp d hash thr (removeShape "StringSet") rfl _ (by decide) pm k v

/-- StringSet.rehash (the plain maps' `grow` installs exactly this table and threshold) -/
theorem StringSet_rehash_interp (hash : K → Nat) (thr : Nat → Nat) (pm : PMap K V) :
    toP (interpRehash hash thr Gen.C12IR.StringSet_rehash (ofP pm)) =
      { pm with tab := pm.tab.rehash hash, threshold := thr (pm.tab.rehash hash).cap } := by
  rw [show Gen.C12IR.StringSet_rehash = canonRehash from by decide, rehash_correct]; rfl

/-- the transcribed `IntIntMap.add` on a fresh and on a present key (D17 visible in the returned token) -/
example :
    let d : Desc Int Int := { comb := fun a b => a + b, veq := fun a b => a == b }
    let p0 : PMap Int Int := PMap.new (fun c => c) 3
    let r1 := runP d (fun k => k.toNat) (fun c => c) Gen.C12IR.IntIntMap_add p0 5 7
    let r2 := runP d (fun k => k.toNat) (fun c => c) Gen.C12IR.IntIntMap_add r1.1 5 1
    r1.2 = some Ret.value ∧ r2.2 = some Ret.old ∧ r2.1.tab.get (fun k => k.toNat) 5 = some 8 := by
  decide

end interpreted


/-! ### interpreted tie A, second part: Get / ContainsKey / Contains / clear / ContainsValue / Sort / ToBytes / ToObject -/

section interpreted2
open HMap.IR
variable {K V : Type} [DecidableEq K] [DecidableEq V]

/-- IntIntMap.Get -/
theorem IntIntMap_get_interp (d : Desc K V) (hash : K → Nat) (thr : Nat → Nat) (pm : PMap K V) (k : K) (v : V) :
    runP d hash thr Gen.C12IR.IntIntMap_get pm k v = (pm, some (if (pm.tab.get hash k).isSome then Ret.cur else Ret.absent)) := by
  unfold runP
  rw [show Gen.C12IR.IntIntMap_get = canonLookup none .cur .absent from by decide, canonLookup_correct]; rfl

/-- IntIntMap.ContainsValue -/
theorem IntIntMap_cv_interp (pd : PDesc K V) (hash : K → Nat) (thr : Nat → Nat) (pm : PMap K V) (v : V) :
    interpCV pd.toDesc Gen.C12IR.IntIntMap_cv (ofP pm) v = (PMap.step hash thr pd pm (.containsValue v)).2.isTrue := by
  rw [show Gen.C12IR.IntIntMap_cv = canonCVa from by decide]; exact (interpCV_plain_correct hash thr pd pm v).1

/-- IntKeyMap.Get -/
theorem IntKeyMap_get_interp (d : Desc K V) (hash : K → Nat) (thr : Nat → Nat) (pm : PMap K V) (k : K) (v : V) :
    runP d hash thr Gen.C12IR.IntKeyMap_get pm k v = (pm, some (if (pm.tab.get hash k).isSome then Ret.cur else Ret.absent)) := by
  unfold runP
  rw [show Gen.C12IR.IntKeyMap_get = canonLookup none .cur .absent from by decide, canonLookup_correct]; rfl

/-- IntKeyMap.ContainsValue -/
theorem IntKeyMap_cv_interp (pd : PDesc K V) (hash : K → Nat) (thr : Nat → Nat) (pm : PMap K V) (v : V) :
    interpCV pd.toDesc Gen.C12IR.IntKeyMap_cv (ofP pm) v = (PMap.step hash thr pd pm (.containsValue v)).2.isTrue := by
  rw [show Gen.C12IR.IntKeyMap_cv = canonCVa from by decide]; exact (interpCV_plain_correct hash thr pd pm v).1

/-- IntIntMap.ContainsKey (behind the empty-key guard where the source has one; the guard tests the *blind* predicate) -/
theorem IntIntMap_contains_interp (d : Desc K V) (hash : K → Nat) (thr : Nat → Nat) (pm : PMap K V) (k : K) (v : V) :
    (guardHead Gen.C12IR.IntIntMap_contains = none ∨ guardHead Gen.C12IR.IntIntMap_contains = some Ret.boolF) ∧
    runP { d with refuse := d.blind } hash thr Gen.C12IR.IntIntMap_contains pm k v =
      (pm, some (match guardHead Gen.C12IR.IntIntMap_contains with
                 | some r => if d.blind k then r else if (pm.tab.get hash k).isSome then Ret.boolT else Ret.boolF
                 | none => if (pm.tab.get hash k).isSome then Ret.boolT else Ret.boolF)) := by
  refine ⟨by decide, ?_⟩
  unfold runP
  rw [show Gen.C12IR.IntIntMap_contains = canonLookup (guardHead Gen.C12IR.IntIntMap_contains) .boolT .boolF from by decide, canonLookup_correct]; rfl

/-- IntIntMap.clear (IntIntMap returns at once when empty) -/
theorem IntIntMap_clear_interp (d : Desc K V) (hash : K → Nat) (thr : Nat → Nat) (pm : PMap K V) (k : K) (v : V) :
    ∃ early, toP (run d hash thr .last k v Gen.C12IR.IntIntMap_clear (ofP pm)).1 = (if early = true ∧ pm.count = 0 then pm else pm.clear) := by
  first
  | exact ⟨false, by rw [show Gen.C12IR.IntIntMap_clear = canonClearP false from by decide]; exact canonClearP_correct d hash thr false pm k v⟩
  | exact ⟨true, by rw [show Gen.C12IR.IntIntMap_clear = canonClearP true from by decide]; exact canonClearP_correct d hash thr true pm k v⟩

/-- IntKeyMap.ContainsKey (behind the empty-key guard where the source has one; the guard tests the *blind* predicate) -/
theorem IntKeyMap_contains_interp (d : Desc K V) (hash : K → Nat) (thr : Nat → Nat) (pm : PMap K V) (k : K) (v : V) :
    (guardHead Gen.C12IR.IntKeyMap_contains = none ∨ guardHead Gen.C12IR.IntKeyMap_contains = some Ret.boolF) ∧
    runP { d with refuse := d.blind } hash thr Gen.C12IR.IntKeyMap_contains pm k v =
      (pm, some (match guardHead Gen.C12IR.IntKeyMap_contains with
                 | some r => if d.blind k then r else if (pm.tab.get hash k).isSome then Ret.boolT else Ret.boolF
                 | none => if (pm.tab.get hash k).isSome then Ret.boolT else Ret.boolF)) := by
  refine ⟨by decide, ?_⟩
  unfold runP
  rw [show Gen.C12IR.IntKeyMap_contains = canonLookup (guardHead Gen.C12IR.IntKeyMap_contains) .boolT .boolF from by decide, canonLookup_correct]; rfl

/-- IntKeyMap.clear (IntIntMap returns at once when empty) -/
theorem IntKeyMap_clear_interp (d : Desc K V) (hash : K → Nat) (thr : Nat → Nat) (pm : PMap K V) (k : K) (v : V) :
    ∃ early, toP (run d hash thr .last k v Gen.C12IR.IntKeyMap_clear (ofP pm)).1 = (if early = true ∧ pm.count = 0 then pm else pm.clear) := by
  first
  | exact ⟨false, by rw [show Gen.C12IR.IntKeyMap_clear = canonClearP false from by decide]; exact canonClearP_correct d hash thr false pm k v⟩
  | exact ⟨true, by rw [show Gen.C12IR.IntKeyMap_clear = canonClearP true from by decide]; exact canonClearP_correct d hash thr true pm k v⟩

/-- IntSet.Contains (behind the empty-key guard where the source has one; the guard tests the *blind* predicate) -/
theorem IntSet_contains_interp (d : Desc K V) (hash : K → Nat) (thr : Nat → Nat) (pm : PMap K V) (k : K) (v : V) :
    (guardHead Gen.C12IR.IntSet_contains = none ∨ guardHead Gen.C12IR.IntSet_contains = some Ret.boolF) ∧
    runP { d with refuse := d.blind } hash thr Gen.C12IR.IntSet_contains pm k v =
      (pm, some (match guardHead Gen.C12IR.IntSet_contains with
                 | some r => if d.blind k then r else if (pm.tab.get hash k).isSome then Ret.boolT else Ret.boolF
                 | none => if (pm.tab.get hash k).isSome then Ret.boolT else Ret.boolF)) := by
  refine ⟨by decide, ?_⟩
  unfold runP
  rw [show Gen.C12IR.IntSet_contains = canonLookup (guardHead Gen.C12IR.IntSet_contains) .boolT .boolF from by decide, canonLookup_correct]; rfl

/-- IntSet.clear (IntIntMap returns at once when empty) -/
theorem IntSet_clear_interp (d : Desc K V) (hash : K → Nat) (thr : Nat → Nat) (pm : PMap K V) (k : K) (v : V) :
    ∃ early, toP (run d hash thr .last k v Gen.C12IR.IntSet_clear (ofP pm)).1 = (if early = true ∧ pm.count = 0 then pm else pm.clear) := by
  first
  | exact ⟨false, by rw [show Gen.C12IR.IntSet_clear = canonClearP false from by decide]; exact canonClearP_correct d hash thr false pm k v⟩
  | exact ⟨true, by rw [show Gen.C12IR.IntSet_clear = canonClearP true from by decide]; exact canonClearP_correct d hash thr true pm k v⟩

/-- StringSet.Contains (behind the empty-key guard where the source has one; the guard tests the *blind* predicate) -/
theorem StringSet_contains_interp (d : Desc K V) (hash : K → Nat) (thr : Nat → Nat) (pm : PMap K V) (k : K) (v : V) :
    (guardHead Gen.C12IR.StringSet_contains = none ∨ guardHead Gen.C12IR.StringSet_contains = some Ret.boolF) ∧
    runP { d with refuse := d.blind } hash thr Gen.C12IR.StringSet_contains pm k v =
      (pm, some (match guardHead Gen.C12IR.StringSet_contains with
                 | some r => if d.blind k then r else if (pm.tab.get hash k).isSome then Ret.boolT else Ret.boolF
                 | none => if (pm.tab.get hash k).isSome then Ret.boolT else Ret.boolF)) := by
  refine ⟨by decide, ?_⟩
  unfold runP
  rw [show Gen.C12IR.StringSet_contains = canonLookup (guardHead Gen.C12IR.StringSet_contains) .boolT .boolF from by decide, canonLookup_correct]; rfl

/-- StringSet.clear (IntIntMap returns at once when empty) -/
theorem StringSet_clear_interp (d : Desc K V) (hash : K → Nat) (thr : Nat → Nat) (pm : PMap K V) (k : K) (v : V) :
    ∃ early, toP (run d hash thr .last k v Gen.C12IR.StringSet_clear (ofP pm)).1 = (if early = true ∧ pm.count = 0 then pm else pm.clear) := by
  first
  | exact ⟨false, by rw [show Gen.C12IR.StringSet_clear = canonClearP false from by decide]; exact canonClearP_correct d hash thr false pm k v⟩
  | exact ⟨true, by rw [show Gen.C12IR.StringSet_clear = canonClearP true from by decide]; exact canonClearP_correct d hash thr true pm k v⟩

/-- the two accepted forms of `clear` (with / without the early return on an empty map: the `∃ early` of the
    `_clear_interp` theorems) are the same operation: whichever the source has, the result simulates the map model's
    `clear` (an empty map that is left alone already has only empty buckets) -/
theorem clear_either_form (pd : PDesc K V) (hash : K → Nat) (thr : Nat → Nat) (pm : PMap K V) (s : PS K V)
    (h : PMap.Rel hash pd pm s) (early : Bool) :
    PMap.Rel hash pd (if early = true ∧ pm.count = 0 then pm else pm.clear) (PS.step pd s .clear).1 := by
  by_cases hc : early = true ∧ pm.count = 0
  · rw [if_pos hc]
    have he : s.ents = [] := List.eq_nil_of_length_eq_zero (by rw [← h.count]; exact hc.2)
    have hs : (PS.step pd s .clear).1 = s := by
      obtain ⟨ents, mx⟩ := s
      simp only at he; subst he; rfl
    rw [hs]; exact h
  · rw [if_neg hc]
    exact (PMap.plain_refine_step thr h .clear).1

/-- IntIntMap.Sort -/
theorem IntIntMap_sort_interp (pd : PDesc K V) (hash : K → Nat) (thr : Nat → Nat) (pm : PMap K V) (lt : K → K → Bool) :
    interpSortP hash thr pd Gen.C12IR.IntIntMap_sort pm lt = pm.sort hash thr pd lt := by
  rw [show Gen.C12IR.IntIntMap_sort = canonSort from by decide]; exact interpSortP_correct hash thr pd pm lt

/-- IntIntMap.ToBytes / ToObject: the stream calls are the wire model's codec -/
theorem IntIntMap_wire_interp (pm : PMap Int Int) :
    interpToBytes Gen.C12IR.IntIntMap_toBytes pm.tab.entries = PMap.toBytes pm ∧
    interpReader Gen.C12IR.IntIntMap_toObject = pairsFromBytes ∧ Gen.C12IR.IntIntMap_toObject.puts = true := by
  refine ⟨?_, ?_, by decide⟩
  · rw [show Gen.C12IR.IntIntMap_toBytes = canonWire false from by decide, interpToBytes_correct]; rfl
  · rw [show Gen.C12IR.IntIntMap_toObject = canonWire false from by decide, interpReader_correct]; rfl


/-- IntIntMap.SetMax: every statement of the method is `this.max = max; return this` — the model's `setMax` (the bound is
    only read by IsFull) -/
theorem IntIntMap_setMax_interp (dp : PDesc K V) (hash : K → Nat) (thr : Nat → Nat) (pm : PMap K V) (n : Nat) :
    (runC n Gen.C12IR.IntIntMap_setMax (ofP pm)).map toP = some (PMap.step hash thr dp pm (.setMax n)).1 := by
  rw [show Gen.C12IR.IntIntMap_setMax = canonSetMax from by decide]; exact canonSetMaxP_correct hash thr dp pm n


/-! ### one-line accessors -/

/-- IntIntMap.Size / IsEmpty / IsFull -/
theorem IntIntMap_size_interp (dp : PDesc K V) (hash : K → Nat) (thr : Nat → Nat) (pm : PMap K V) :
    runA hash Gen.C12IR.IntIntMap_size (ofP pm) = some (PMap.step hash thr dp pm .size).2 ∧
    runA hash Gen.C12IR.IntIntMap_isEmpty (ofP pm) = some (PMap.step hash thr dp pm .isEmpty).2 ∧
    runA hash Gen.C12IR.IntIntMap_isFull (ofP pm) = some (PMap.step hash thr dp pm .isFull).2 := by
  rw [show Gen.C12IR.IntIntMap_size = [ASt.retCount] from by decide, show Gen.C12IR.IntIntMap_isEmpty = [ASt.retCountZero] from by decide,
    show Gen.C12IR.IntIntMap_isFull = [ASt.retIsFull] from by decide]
  exact canonSizeP_correct hash thr dp pm

/-- IntKeyMap.Size -/
theorem IntKeyMap_size_interp (dp : PDesc K V) (hash : K → Nat) (thr : Nat → Nat) (pm : PMap K V) :
    runA hash Gen.C12IR.IntKeyMap_size (ofP pm) = some (PMap.step hash thr dp pm .size).2 := by
  rw [show Gen.C12IR.IntKeyMap_size = [ASt.retCount] from by decide]
  exact (canonSizeP_correct hash thr dp pm).1

/-- IntSet.Size -/
theorem IntSet_size_interp (dp : PDesc K V) (hash : K → Nat) (thr : Nat → Nat) (pm : PMap K V) :
    runA hash Gen.C12IR.IntSet_size (ofP pm) = some (PMap.step hash thr dp pm .size).2 := by
  rw [show Gen.C12IR.IntSet_size = [ASt.retCount] from by decide]
  exact (canonSizeP_correct hash thr dp pm).1

/-- StringSet.Size -/
theorem StringSet_size_interp (dp : PDesc K V) (hash : K → Nat) (thr : Nat → Nat) (pm : PMap K V) :
    runA hash Gen.C12IR.StringSet_size (ofP pm) = some (PMap.step hash thr dp pm .size).2 := by
  rw [show Gen.C12IR.StringSet_size = [ASt.retCount] from by decide]
  exact (canonSizeP_correct hash thr dp pm).1


/-! ### enumerator objects: every HasMoreElements / Next* method, statement by statement (the skip loop is a `for`) -/

/-- the enumerator object of IntIntMap: `HasMoreElements` is `PEnum.hasMore`, each `Next*` is `PEnum.next` — both run the skip loop
    `for this.entry == nil && this.index > 0 { this.index--; this.entry = this.table[this.index] }` first -/
theorem IntIntMap_enum_interp (t : Table K V) (e : PEnum K V) :
    Gen.C12IR.IntIntMap_enumHasMore ≠ [] ∧ Gen.C12IR.IntIntMap_enumNext ≠ [] ∧
    (∀ l ∈ Gen.C12IR.IntIntMap_enumHasMore, runEP t l e = some (PEnum.advance t e, .hasMore (PEnum.hasMore t e))) ∧
    (∀ l ∈ Gen.C12IR.IntIntMap_enumNext, runEP t l e =
      match PEnum.next t e with
      | some (c, e') => some (e', .elem c)
      | none => some (PEnum.advance t e, .exhausted)) := by
  refine ⟨by decide, by decide, fun l hl => ?_, fun l hl => ?_⟩
  · rw [(by decide : ∀ l ∈ Gen.C12IR.IntIntMap_enumHasMore, l = canonHasMoreP) l hl]; exact canonHasMoreP_correct t e
  · rw [(by decide : ∀ l ∈ Gen.C12IR.IntIntMap_enumNext, l = canonNextP) l hl]; exact canonNextP_correct t e

/-- the enumerator object of IntKeyMap: `HasMoreElements` is `PEnum.hasMore`, each `Next*` is `PEnum.next` — both run the skip loop
    `for this.entry == nil && this.index > 0 { this.index--; this.entry = this.table[this.index] }` first -/
theorem IntKeyMap_enum_interp (t : Table K V) (e : PEnum K V) :
    Gen.C12IR.IntKeyMap_enumHasMore ≠ [] ∧ Gen.C12IR.IntKeyMap_enumNext ≠ [] ∧
    (∀ l ∈ Gen.C12IR.IntKeyMap_enumHasMore, runEP t l e = some (PEnum.advance t e, .hasMore (PEnum.hasMore t e))) ∧
    (∀ l ∈ Gen.C12IR.IntKeyMap_enumNext, runEP t l e =
      match PEnum.next t e with
      | some (c, e') => some (e', .elem c)
      | none => some (PEnum.advance t e, .exhausted)) := by
  refine ⟨by decide, by decide, fun l hl => ?_, fun l hl => ?_⟩
  · rw [(by decide : ∀ l ∈ Gen.C12IR.IntKeyMap_enumHasMore, l = canonHasMoreP) l hl]; exact canonHasMoreP_correct t e
  · rw [(by decide : ∀ l ∈ Gen.C12IR.IntKeyMap_enumNext, l = canonNextP) l hl]; exact canonNextP_correct t e

/-- the enumerator object of IntSet: `HasMoreElements` is `PEnum.hasMore`, each `Next*` is `PEnum.next` — both run the skip loop
    `for this.entry == nil && this.index > 0 { this.index--; this.entry = this.table[this.index] }` first -/
theorem IntSet_enum_interp (t : Table K V) (e : PEnum K V) :
    Gen.C12IR.IntSet_enumHasMore ≠ [] ∧ Gen.C12IR.IntSet_enumNext ≠ [] ∧
    (∀ l ∈ Gen.C12IR.IntSet_enumHasMore, runEP t l e = some (PEnum.advance t e, .hasMore (PEnum.hasMore t e))) ∧
    (∀ l ∈ Gen.C12IR.IntSet_enumNext, runEP t l e =
      match PEnum.next t e with
      | some (c, e') => some (e', .elem c)
      | none => some (PEnum.advance t e, .exhausted)) := by
  refine ⟨by decide, by decide, fun l hl => ?_, fun l hl => ?_⟩
  · rw [(by decide : ∀ l ∈ Gen.C12IR.IntSet_enumHasMore, l = canonHasMoreP) l hl]; exact canonHasMoreP_correct t e
  · rw [(by decide : ∀ l ∈ Gen.C12IR.IntSet_enumNext, l = canonNextP) l hl]; exact canonNextP_correct t e

/-- the enumerator object of StringSet: `HasMoreElements` is `PEnum.hasMore`, each `Next*` is `PEnum.next` — both run the skip loop
    `for this.entry == nil && this.index > 0 { this.index--; this.entry = this.table[this.index] }` first -/
theorem StringSet_enum_interp (t : Table K V) (e : PEnum K V) :
    Gen.C12IR.StringSet_enumHasMore ≠ [] ∧ Gen.C12IR.StringSet_enumNext ≠ [] ∧
    (∀ l ∈ Gen.C12IR.StringSet_enumHasMore, runEP t l e = some (PEnum.advance t e, .hasMore (PEnum.hasMore t e))) ∧
    (∀ l ∈ Gen.C12IR.StringSet_enumNext, runEP t l e =
      match PEnum.next t e with
      | some (c, e') => some (e', .elem c)
      | none => some (PEnum.advance t e, .exhausted)) := by
  refine ⟨by decide, by decide, fun l hl => ?_, fun l hl => ?_⟩
  · rw [(by decide : ∀ l ∈ Gen.C12IR.StringSet_enumHasMore, l = canonHasMoreP) l hl]; exact canonHasMoreP_correct t e
  · rw [(by decide : ∀ l ∈ Gen.C12IR.StringSet_enumNext, l = canonNextP) l hl]; exact canonNextP_correct t e

end interpreted2

end C12Gen
