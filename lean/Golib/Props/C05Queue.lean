/-
  Property C05, queue mode — "for all … times and all field values", whatever route the pack takes to the wire.

  With `WithUseQueue` the one-way client's `Send` / `SendFlush` only put a pointer to the caller's pack and the
  per-send options on the queue; `process()` / `SendAndClear` build the frame later.  Model: Golib.Wire.QueueRoute
  (`Client`: pointers on the queue — the implementation's shape; `Spec`: the VALUE handed to Send on the queue —
  what the property asks for).  Here: the statements, instantiated with the reference frames of C05.

  Tie B: harness stage I (harness/c05/queue.go) — on real queue-mode clients (public singleton, hook client with its
  process goroutine, SendAndClear) the frames read off a loopback socket equal the reference frames of the states
  dumped BEFORE Send, in the order of the Send calls, and the objects are unchanged afterwards.
  Tie A: `C05Gen.sendFlush_queue_branch_only_enqueues` (the regenerated statements of SendFlush).
-/
import Golib.Wire.QueueRoute
import Golib.Props.C05

namespace C05
open Prim Wire Wire.Queue

/-- **Send in queue mode only enqueues**: no object changes (the caller's pack in particular), nothing is written,
    the license stays; the queue gains one item — a pointer to the object and the per-send license — at its end. -/
theorem queued_send_only_enqueues {σ : Type} (enc : Bytes → σ → Bytes) (after : σ → σ) (c : Client σ) (ref : Nat) (lic : Bytes) :
    (step enc after c (.send ref lic)).heap = c.heap ∧ (step enc after c (.send ref lic)).wire = c.wire ∧
    (step enc after c (.send ref lic)).license = c.license ∧
    (step enc after c (.send ref lic)).queue = c.queue ++ [⟨ref, lic⟩] := ⟨rfl, rfl, rfl, rfl⟩

/-- **every history in queue mode**: sends, drains (process / SendAndClear), license changes and mutations of
    objects that are not on the queue at that moment, in any order and number: the frames on the wire — and the
    objects afterwards — are those of the specification in which the queue holds the value handed to Send. -/
theorem queued_frames_are_values_handed_to_send {σ : Type} (enc : Bytes → σ → Bytes) (after : σ → σ)
    (h1 : ∀ l s, enc l (after s) = enc l s) (ops : List (Op σ)) (license : Bytes) (heap : Nat → σ)
    (hd : Disciplined enc after ops (Client.fresh license heap)) :
    (run enc after ops (Client.fresh license heap)).wire = (srun enc after ops (Spec.fresh license heap)).wire ∧
    (run enc after ops (Client.fresh license heap)).heap = (srun enc after ops (Spec.fresh license heap)).heap :=
  refines enc after h1 ops license heap hd

/-- **a batch** (what the harness stage does): `xs` handed to Send, then the queue drained: the wire carries, in the
    order of the Send calls, exactly the encodings of the values the objects had at Send, each under its license in
    effect (per-send if non-empty, else the client's). -/
theorem queued_batch_frames {σ : Type} (enc : Bytes → σ → Bytes) (after : σ → σ)
    (h1 : ∀ l s, enc l (after s) = enc l s) (license : Bytes) (heap : Nat → σ) (xs : List (Nat × Bytes)) :
    (run enc after (xs.map (fun x => Op.send x.1 x.2) ++ List.replicate xs.length .drain) (Client.fresh license heap)).wire
      = xs.map (fun x => enc (eff x.2 license) (heap x.1)) :=
  batch enc after h1 license heap xs

/-- the frame `makeData` builds for a tag-count pack / a zip pack under a license -/
def tagCountFrame (l : Bytes) (p : TagCount) : Bytes := frame p.hdr.pcode l (payload typeTagCount (encTagCount p))
def zipFrame (l : Bytes) (p : Zip) : Bytes := frame p.hdr.pcode l (payload typeZip (encZip p))

/-- the hypothesis `h1` for the tag-count pack (a send stores the tag hash: `norm`) -/
theorem tagCountFrame_after (l : Bytes) (p : TagCount) : tagCountFrame l p.norm = tagCountFrame l p := by
  unfold tagCountFrame
  rw [(send_tagcount_frame_condition p).2.2.2.2.2.2]
  rfl

/-- tag-count packs through the queue: the frames are the reference frames of the values handed to Send — for all
    header values (time 0 included: nothing is stamped), all field values, all licenses -/
theorem queued_batch_tagcount (license : Bytes) (heap : Nat → TagCount) (xs : List (Nat × Bytes)) :
    (run tagCountFrame TagCount.norm (xs.map (fun x => Op.send x.1 x.2) ++ List.replicate xs.length .drain)
        (Client.fresh license heap)).wire
      = xs.map (fun x => frame (heap x.1).hdr.pcode (eff x.2 license) (payload typeTagCount (encTagCount (heap x.1)))) :=
  batch tagCountFrame TagCount.norm tagCountFrame_after license heap xs

/-- packs whose send leaves the state alone (text, parameter, zip, hit-map, counter): any encoder -/
theorem queued_batch_plain {σ : Type} (enc : Bytes → σ → Bytes) (license : Bytes) (heap : Nat → σ) (xs : List (Nat × Bytes)) :
    (run enc id (xs.map (fun x => Op.send x.1 x.2) ++ List.replicate xs.length .drain) (Client.fresh license heap)).wire
      = xs.map (fun x => enc (eff x.2 license) (heap x.1)) :=
  batch enc id (fun _ _ => rfl) license heap xs

/-! non-vacuity -/

/-- a zip pack with time 0 (the boundary a route that "completes" packs would act on) goes out with time 0 -/
example : (run zipFrame id [.send 0 [], .drain] (Client.fresh [] (fun _ => ⟨⟨5, 1, 0, 0, 0⟩, 1, 2, [1, 2]⟩))).wire =
    [[10, 0, 0, 0, 0, 0, 0, 0, 0, 5, 0, 0, 0, 0, 0, 0, 0, 0, 0, 0, 0, 22,
      0x17, 0x0b, 1, 5, 0, 0, 0, 1, 0, 0, 0, 0, 0, 0, 0, 0, 1, 1, 2, 2, 1, 2]] := by decide

/-- a disciplined history with every kind of operation: the object is mutated before it is queued and after its
    frame was written, never in between; the license changes while the item is queued -/
example : Disciplined zipFrame id
    [.mutate 0 (fun p => { p with status := 7 }), .send 0 [], .send 1 [97], .setLicense [98], .drain,
     .mutate 0 (fun p => { p with status := 8 }), .drain, .send 0 []]
    (Client.fresh [] (fun _ => ⟨⟨5, 1, 0, 0, 0⟩, 1, 2, []⟩)) := by
  refine ⟨?_, trivial, trivial, trivial, trivial, ?_, trivial, trivial, trivial⟩
  · intro it hit; cases hit
  · intro it hit
    simp [step, Client.fresh] at hit
    subst hit; decide

/-- … and an undisciplined one really is excluded (mutating a queued object changes the frame: that is the
    caller's race, not the route's) -/
example : ¬ Disciplined zipFrame id [.send 0 [], .mutate 0 (fun p => { p with status := 7 }), .drain]
    (Client.fresh [] (fun _ => ⟨⟨5, 1, 0, 0, 0⟩, 1, 2, []⟩)) := by
  intro h
  exact h.2.1 ⟨0, []⟩ (by simp [step, Client.fresh]) rfl

/-! ### the license field is the hash of the license text as it is -/

/-- two frames with the same project code and payload are the same frame exactly when the two license texts have
    the same `hash64`: the license enters the frame through `hash64` of its bytes and through nothing else — no
    canonical form of the text (trimmed, case-folded, unquoted …) is part of the protocol. -/
theorem frame_eq_iff_license_hash (pcode : Int) (l l' pl : Bytes) (hp : inRange 8 pcode) (hl : pl.length < 2147483648) :
    frame pcode l pl = frame pcode l' pl ↔ hash64 l = hash64 l' := by
  constructor
  · intro h
    have a := frame_parse pcode l pl [] hp hl
    have b := frame_parse pcode l' pl [] hp hl
    rw [h, b] at a
    simp at a
    exact a.symm
  · intro h
    simp [frame_layout, h]

/-- **surrounding white space is part of the license text**: a trailing line end (LF, CR LF), a trailing or a
    leading blank, a tab change the license field, and a text of blanks only is not the empty license (whose
    hash is 0) — concrete witnesses, so a sender that trims the text first does not produce the reference frame. -/
theorem license_hashed_as_is :
    hash64 (ascii "abcdefg\n") ≠ hash64 (ascii "abcdefg") ∧ hash64 (ascii "abcdefg\r\n") ≠ hash64 (ascii "abcdefg") ∧
    hash64 (ascii "abcdefg ") ≠ hash64 (ascii "abcdefg") ∧ hash64 (ascii " abcdefg") ≠ hash64 (ascii "abcdefg") ∧
    hash64 (ascii "\tabcdefg") ≠ hash64 (ascii "abcdefg") ∧ hash64 (ascii "ABCDEFG") ≠ hash64 (ascii "abcdefg") ∧
    hash64 [] = 0 ∧ hash64 (ascii " ") ≠ 0 ∧ hash64 (ascii "\n") ≠ 0 ∧ hash64 (ascii "\r\n") ≠ 0 := by
  decide +kernel

/-- … hence the frames differ (same pack, same project code): the reference frame for the license `"abcdefg\n"`
    is not the reference frame for `"abcdefg"`, and the one for `" "` is not the one for the empty license. -/
theorem frame_sees_surrounding_blanks (pcode : Int) (pl : Bytes) (hp : inRange 8 pcode) (hl : pl.length < 2147483648) :
    frame pcode (ascii "abcdefg\n") pl ≠ frame pcode (ascii "abcdefg") pl ∧
    frame pcode (ascii " ") pl ≠ frame pcode [] pl := by
  refine ⟨fun h => license_hashed_as_is.1 ((frame_eq_iff_license_hash pcode _ _ pl hp hl).1 h), fun h => ?_⟩
  have := (frame_eq_iff_license_hash pcode _ _ pl hp hl).1 h
  exact license_hashed_as_is.2.2.2.2.2.2.2.1 (by rw [this]; exact license_hashed_as_is.2.2.2.2.2.2.1)

example : inRange 8 (12345 : Int) ∧ ([1, 2, 3] : Bytes).length < 2147483648 := by decide
end C05
