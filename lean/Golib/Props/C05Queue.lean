/-
  Property C05, queue mode — "for all … times and all field values", whatever route the pack takes to the wire.

  With `WithUseQueue` the one-way client's `Send` / `SendFlush` only put a pointer to the caller's pack and the
  per-send options on the queue; `process()` / `SendAndClear` build the frame later.  Model: Golib.Wire.QueueRoute
  (`Client`: pointers on the queue — the implementation's shape; `Spec`: the VALUE handed to Send on the queue —
  what the property asks for).  Here: the statements, instantiated with the reference frames of C05.

  Tie B: harness stage I (harness/c05/queue.go) — on real queue-mode clients (public singleton, hook client with its
  process goroutine, SendAndClear) the frames read off a loopback socket equal the reference frames of the states
  dumped BEFORE Send, in the order of the Send calls, and the objects are unchanged afterwards.
  Tie A: `C05Gen.sendFlush_queue_branch_only_enqueues` (the regenerated statements of SendFlush).
-/
import Golib.Wire.QueueRoute
import Golib.Props.C05

namespace C05
open Prim Wire Wire.Queue

/-- **Send in queue mode only enqueues**: no object changes (the caller's pack in particular), nothing is written,
    the license stays; the queue gains one item — a pointer to the object and the per-send license — at its end. -/
theorem queued_send_only_enqueues {σ : Type} (enc : Bytes → σ → Bytes) (after : σ → σ) (c : Client σ) (ref : Nat) (lic : Bytes) :
    (step enc after c (.send ref lic)).heap = c.heap ∧ (step enc after c (.send ref lic)).wire = c.wire ∧
    (step enc after c (.send ref lic)).license = c.license ∧
    (step enc after c (.send ref lic)).queue = c.queue ++ [⟨ref, lic⟩] := ⟨rfl, rfl, rfl, rfl⟩

/-- **every history in queue mode**: sends, drains (process / SendAndClear), license changes and mutations of
    objects that are not on the queue at that moment, in any order and number: the frames on the wire — and the
    objects afterwards — are those of the specification in which the queue holds the value handed to Send. -/
theorem queued_frames_are_values_handed_to_send {σ : Type} (enc : Bytes → σ → Bytes) (after : σ → σ)
    (h1 : ∀ l s, enc l (after s) = enc l s) (ops : List (Op σ)) (license : Bytes) (heap : Nat → σ)
    (hd : Disciplined enc after ops (Client.fresh license heap)) :
    (run enc after ops (Client.fresh license heap)).wire = (srun enc after ops (Spec.fresh license heap)).wire ∧
    (run enc after ops (Client.fresh license heap)).heap = (srun enc after ops (Spec.fresh license heap)).heap :=
  refines enc after h1 ops license heap hd

/-- **a batch** (what the harness stage does): `xs` handed to Send, then the queue drained: the wire carries, in the
    order of the Send calls, exactly the encodings of the values the objects had at Send, each under its license in
    effect (per-send if non-empty, else the client's). -/
theorem queued_batch_frames {σ : Type} (enc : Bytes → σ → Bytes) (after : σ → σ)
    (h1 : ∀ l s, enc l (after s) = enc l s) (license : Bytes) (heap : Nat → σ) (xs : List (Nat × Bytes)) :
    (run enc after (xs.map (fun x => Op.send x.1 x.2) ++ List.replicate xs.length .drain) (Client.fresh license heap)).wire
      = xs.map (fun x => enc (eff x.2 license) (heap x.1)) :=
  batch enc after h1 license heap xs

/-- the frame `makeData` builds for a tag-count pack / a zip pack under a license -/
def tagCountFrame (l : Bytes) (p : TagCount) : Bytes := frame p.hdr.pcode l (payload typeTagCount (encTagCount p))
def zipFrame (l : Bytes) (p : Zip) : Bytes := frame p.hdr.pcode l (payload typeZip (encZip p))

/-- the hypothesis `h1` for the tag-count pack (a send stores the tag hash: `norm`) -/
theorem tagCountFrame_after (l : Bytes) (p : TagCount) : tagCountFrame l p.norm = tagCountFrame l p := by
  unfold tagCountFrame
  rw [(send_tagcount_frame_condition p).2.2.2.2.2.2]
  rfl

/-- tag-count packs through the queue: the frames are the reference frames of the values handed to Send — for all
    header values (time 0 included: nothing is stamped), all field values, all licenses -/
theorem queued_batch_tagcount (license : Bytes) (heap : Nat → TagCount) (xs : List (Nat × Bytes)) :
    (run tagCountFrame TagCount.norm (xs.map (fun x => Op.send x.1 x.2) ++ List.replicate xs.length .drain)
        (Client.fresh license heap)).wire
      = xs.map (fun x => frame (heap x.1).hdr.pcode (eff x.2 license) (payload typeTagCount (encTagCount (heap x.1)))) :=
  batch tagCountFrame TagCount.norm tagCountFrame_after license heap xs

/-- packs whose send leaves the state alone (text, parameter, zip, hit-map, counter): any encoder -/
theorem queued_batch_plain {σ : Type} (enc : Bytes → σ → Bytes) (license : Bytes) (heap : Nat → σ) (xs : List (Nat × Bytes)) :
    (run enc id (xs.map (fun x => Op.send x.1 x.2) ++ List.replicate xs.length .drain) (Client.fresh license heap)).wire
      = xs.map (fun x => enc (eff x.2 license) (heap x.1)) :=
  batch enc id (fun _ _ => rfl) license heap xs

/-! non-vacuity -/

/-- a zip pack with time 0 (the boundary a route that "completes" packs would act on) goes out with time 0 -/
example : (run zipFrame id [.send 0 [], .drain] (Client.fresh [] (fun _ => ⟨⟨5, 1, 0, 0, 0⟩, 1, 2, [1, 2]⟩))).wire =
    [[10, 0, 0, 0, 0, 0, 0, 0, 0, 5, 0, 0, 0, 0, 0, 0, 0, 0, 0, 0, 0, 22,
      0x17, 0x0b, 1, 5, 0, 0, 0, 1, 0, 0, 0, 0, 0, 0, 0, 0, 1, 1, 2, 2, 1, 2]] := by decide

/-- a disciplined history with every kind of operation: the object is mutated before it is queued and after its
    frame was written, never in between; the license changes while the item is queued -/
example : Disciplined zipFrame id
    [.mutate 0 (fun p => { p with status := 7 }), .send 0 [], .send 1 [97], .setLicense [98], .drain,
     .mutate 0 (fun p => { p with status := 8 }), .drain, .send 0 []]
    (Client.fresh [] (fun _ => ⟨⟨5, 1, 0, 0, 0⟩, 1, 2, []⟩)) := by
  refine ⟨?_, trivial, trivial, trivial, trivial, ?_, trivial, trivial, trivial⟩
  · intro it hit; cases hit
  · intro it hit
    simp [step, Client.fresh] at hit
    subst hit; decide

/-- … and an undisciplined one really is excluded (mutating a queued object changes the frame: that is the
    caller's race, not the route's) -/
example : ¬ Disciplined zipFrame id [.send 0 [], .mutate 0 (fun p => { p with status := 7 }), .drain]
    (Client.fresh [] (fun _ => ⟨⟨5, 1, 0, 0, 0⟩, 1, 2, []⟩)) := by
  intro h
  exact h.2.1 ⟨0, []⟩ (by simp [step, Client.fresh]) rfl

end C05
