/-
  Property C04, tie A — obligations over the allocation-site table regenerated from the Go
  sources on every run (xlate/c04 → Golib/Gen/AllocSites.lean).

  The table lists every `make(T, n)` of io, lang/** and util/hll whose size flows from a `Read*`
  result of the same function, with the `Read*` method the size comes from and whether a guard
  (`CheckCount(n, …)` / `if n > Available() { panic }`) precedes it.  The model
  (Golib.FailClosed) assumes: guarded `make`s (`A.need` before `A.alloc`), no ahead-of-read
  allocation in the two recursive containers, and a `ReadBytes` that checks before it allocates.
-/
import Golib.Gen.AllocSites

namespace C04Gen
open Gen.AllocSites

/-- a count read with `ReadByte` is at most 255: the allocation is bounded by a constant -/
def smallCount (s : Site) : Bool := s.source == "ReadByte"

/-- unguarded sites recorded as known findings rather than repaired: none -/
def knownUnguarded : List String := []

/-- every listed allocation is guarded, bounded by an 8-bit count, or a listed known finding -/
theorem all_sites_guarded :
    sites.all (fun s => s.guarded || smallCount s || knownUnguarded.contains s.func) = true := by
  decide

/-- `ReadBytes` refuses a size larger than what is buffered before it allocates (D01 + D02) -/
theorem readBytes_checks_before_make : readBytesChecksBeforeMake = true := by decide

/-- the two recursive containers do not allocate from their count at all (a guard bounds one
    nesting level only; the model's linear bound needs growth with the elements decoded) -/
theorem recursive_containers_grow_lazily :
    sites.all (fun s => s.func != "value.(*ListValue).Read" && s.func != "pack.(*CompositePack).Read")
      = true := by decide

/-- the translator still recognises the decoders (the table is not vacuous) -/
theorem sites_found : 15 ≤ sites.length := by decide

end C04Gen
