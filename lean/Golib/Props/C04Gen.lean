/-
  Property C04, tie A — obligations over the allocation-site table regenerated from the Go
  sources on every run (xlate/c04 → Golib/Gen/AllocSites.lean).

  The table lists every `make(T, n)` of io, lang/** and util/hll whose size flows from a `Read*`
  result of the same function, with the `Read*` method the size comes from and whether a guard
  (`CheckCount(n, …)` / `if n > Available() { panic }`) precedes it.  The model
  (Golib.FailClosed) assumes: guarded `make`s (`A.need` before `A.alloc`), no ahead-of-read
  allocation in the two recursive containers, and a `ReadBytes` that checks before it allocates.
-/
import Golib.Gen.AllocSites
import Golib.Gen.PackLayouts
import Golib.Layout.Prefix
import Golib.Layout.ValueInst
import Golib.FailClosed.LayoutACorrect
import Golib.Packs.Irregular
import Golib.Packs.Hand

namespace C04Gen
open Gen.AllocSites

/-- a count read with `ReadByte` is at most 255: the allocation is bounded by a constant -/
def smallCount (s : Site) : Bool := s.source == "ReadByte"

/-- unguarded sites recorded as known findings rather than repaired: none -/
def knownUnguarded : List String := []

/-- every listed allocation is guarded, bounded by an 8-bit count, or a listed known finding -/
theorem all_sites_guarded :
    sites.all (fun s => s.guarded || smallCount s || knownUnguarded.contains s.func) = true := by
  decide

/-- `ReadBytes` refuses a size larger than what is buffered before it allocates (D01 + D02) -/
theorem readBytes_checks_before_make : readBytesChecksBeforeMake = true := by decide

/-- the two recursive containers do not allocate from their count at all (a guard bounds one
    nesting level only; the model's linear bound needs growth with the elements decoded) -/
theorem recursive_containers_grow_lazily :
    sites.all (fun s => s.func != "value.(*ListValue).Read" && s.func != "pack.(*CompositePack).Read")
      = true := by decide

/-- the translator still recognises the decoders (the table is not vacuous) -/
theorem sites_found : 15 ≤ sites.length := by decide

/-! ## a reader holds its own input and nothing else

    The models run a decoder on exactly its input (`P.run p bs`; sub-streams: a new reader over exactly
    the blob).  On the Go side that is: the only function that stores into a reader's buffer is the
    constructor, and no reader is kept beyond one decode (no field, package variable or pool of readers).
    With these two facts the reset of `C04.pooled_history_is_per_input` is the replacing one. -/

/-- no method of `DataInputX` (and no function of package io returning one) but `NewDataInputX` stores
    into a reader's buffer, appends to it or moves its read position back -/
theorem reader_buffer_set_only_by_constructor : bufferWriters = ["io.NewDataInputX"] := by decide

/-- no reader outlives a decode: no struct field, package-level variable or type assertion (pool) of
    type `DataInputX` in io, lang/**, util/hll -/
theorem no_reader_outlives_a_decode : keptReaders = [] := by decide

/-! ## the guards, interpreted (Golib.FailClosed.SiteCheck)

    `progs` is the transcription of every function that sizes an allocation from a decoded value.
    `safe` is the dominance check; its soundness against the statement semantics `Exec` is proved
    once (`FailClosed.Sites.safe_sound`), so the `decide` below yields a statement about every
    execution of these functions. -/

open FailClosed.Sites in
theorem progs_safe : progs.all (fun p => safe p.2 []) = true := by decide

/-- the statement programs cover exactly the listed sites -/
theorem progs_cover_sites :
    sites.all (fun s => progs.any (fun p => p.1 == s.func)) = true ∧
    (progs.map (fun p => p.2.makes)).sum = sites.length := by decide

/-- **every allocation sized from the input is bounded by the input** (buffer path): in every
    execution of a listed function that is entered with at most `N` bytes available — whatever
    the decoded values, however many bytes each read consumes, however often a loop body or branch
    runs — each `make([]T, x)` / `New…Map(x)` it performs has `x ≤ max N 255` -/
theorem every_site_bounded_by_input (f : String) (p : FailClosed.Sites.Prog) (hp : (f, p) ∈ progs)
    (N : Nat) (s s' : FailClosed.Sites.St) (ha : s.avail ≤ N) (hl : s.log = [])
    (hx : FailClosed.Sites.Exec p s s') : ∀ e ∈ s'.log, e.2 ≤ max (N : Int) 255 := by
  have h := List.all_eq_true.mp progs_safe (f, p) hp
  exact FailClosed.Sites.sites_bounded p h N s s' ha hl hx

/-- non-vacuity: `TextPack.Read` with 100 bytes available, count 16 (16·6 ≤ 100) allocates 16 -/
example : FailClosed.Sites.Exec
    (.read "size" "ReadDecimal" (.check "size" 6 (.make "[]TextRec" "size" .done)))
    ⟨fun _ => 0, 100, []⟩ ⟨fun y => if y = "size" then 16 else 0, 99, [("[]TextRec", 16)]⟩ := by
  refine .read _ _ _ _ _ 16 99 (by intro h; exact absurd h (by decide)) (by decide) ?_
  refine .check _ _ _ _ _ (by decide) (by decide) ?_
  exact .make _ _ _ _ _ (.done _)

/-! ## count-driven loops and additive readers -/

/-- every `for i < n` loop of the decoders whose bound is a decoded value reads from the stream in its
    body (or is bounded by a one-byte count): each iteration consumes input, so the loop runs at most
    as often as there are bytes (the model's `FailClosed.elemsA_consumes`) — no count found in the
    input can make a decoder spin or allocate without consuming -/
theorem count_loops_read :
    countLoops.all (fun l => l.bodyReads || l.source == "ReadByte") = true ∧ 40 ≤ countLoops.length := by decide

/-- the `Read` methods that add to a table the object already holds instead of replacing it — the
    exact exceptions of object reuse (FailClosed.Reuse.additive_not_reset; harness:
    `reuse:read-is-additive:*`).  A new one appearing in the source breaks this obligation. -/
theorem additive_readers_exact : additiveReaders =
    ["pack.(*EventPack).Read:Attr", "pack.(*ParamPack).Read:table", "pack.(*StatRemoteIpPack).Read:IpTable",
     "pack.(*StatUserAgentPack).Read:UserAgents", "value.(*IntMapValue).Read:table",
     "value.(*MapValue).Read:table"] := by decide

/-! ## packs: prefix failure for every transcribed reader (C03's layouts), no assumption -/

open Layout Gen.Packs

/-- whatever transcribed pack / record reader `r` (all of lang/pack that `xlate/c03` transcribes): if
    `q ++ s` is read completely and `s ≠ []`, the strict prefix `q` is refused -/
theorem generated_reader_prefix_fails (t : String × L × L) (ht : t ∈ all) (pfx : String) (e : Env)
    (q s : Bytes) (o : Out) (e' : Env) (hs : s ≠ [])
    (h : t.2.2.read pfx e (q ++ s) = some (o, e', [])) : t.2.2.read pfx e q = none := by
  have hall : all.all (fun t => t.2.2.tailFree) = true := by decide
  exact read_prefix_fails t.2.2 (List.all_eq_true.mp hall t ht) pfx e q s o e' hs h

/-- … and for the layouts whose transcribed writer and reader agree (most of them; the others have
    hand-written writer layouts in C03): no strict prefix of what the *writer* emits for a
    well-formed record is accepted by the reader -/
theorem generated_pack_encoding_prefix_fails (t : String × L × L) (ht : t ∈ all)
    (ha : agrees t.2.1 t.2.2 = true) (E : Env) (pfx : String) (x : Rec)
    (hwf : t.2.1.WF valueRT E pfx x) (q s : Bytes) (hs : s ≠ [])
    (hq : q ++ s = t.2.1.write E pfx x) : t.2.2.read pfx E q = none := by
  have hall : all.all (fun t => t.2.2.tailFree) = true := by decide
  exact encoding_prefix_fails valueRT t.2.1 t.2.2 ha (List.all_eq_true.mp hall t ht) E pfx x hwf q s hs hq

/-! ## packs: allocation bound for every transcribed reader, by induction on the layout IR

    `FailClosed.toA` is `Layout.L.read` with its allocations (reads byte for byte, a table as
    `CheckCount(n, 1); make(n elements of ≤ 512 bytes)`, sub-streams charged what decoding the
    blob costs).  `costOK`: only constructors the instrumented reader handles, every table element
    beginning with a read. -/

open FailClosed in
theorem generated_readers_costOK : all.all (fun t => costOK t.2.2) = true := by decide

open FailClosed in
theorem generated_coef_le : all.all (fun t => decide (coef t.2.2 ≤ 8192)) = true := by decide

/-- the instrumented reader of every transcribed layout reads exactly what the layout reader of
    C03 reads: guards and allocations are invisible in the result -/
theorem generated_instrumented_same (t : String × L × L) (ht : t ∈ all) (F : Nat) (pfx : String)
    (e : Env) (bs : Bytes) (hF : bs.length + 2 ≤ F) :
    FailClosed.A.run (FailClosed.toA F t.2.2 pfx e) bs = (t.2.2.read pfx e bs).map FailClosed.reshape :=
  FailClosed.run_toA F t.2.2 (List.all_eq_true.mp generated_readers_costOK t ht) pfx e bs hF

/-- **alloc_bounded for every transcribed pack / record reader**: at most 8192 bytes per input
    byte (the largest `coef` is 3586 today; 8192 leaves room for regenerated layouts), on every byte string (valid, truncated or corrupted) -/
theorem generated_pack_alloc_bounded (t : String × L × L) (ht : t ∈ all) (F : Nat) (pfx : String)
    (e : Env) (bs : Bytes) :
    FailClosed.A.cost (FailClosed.toA F t.2.2 pfx e) bs ≤ 8192 * bs.length := by
  have h1 := FailClosed.cost_toA_le F t.2.2 (List.all_eq_true.mp generated_readers_costOK t ht) pfx e bs
  have h2 : FailClosed.coef t.2.2 ≤ 8192 := by
    have := List.all_eq_true.mp generated_coef_le t ht
    simpa using this
  exact Nat.le_trans h1 (Nat.mul_le_mul_right _ h2)

/-- non-vacuity: TextPack's transcribed reader on a header, one record (div 7, hash 9, "A"): 534 units,
    and on the hostile count 2^31-1 the guard stops it after the 18 bytes read -/
example : FailClosed.A.cost (FailClosed.toA 1000 TextPack.r "" (fun _ => 0))
    [0,0,0,0,1,0,0,0,0,0,0,0,2, 1,1, 7, 0,0,0,9, 1,65] = 534 := by decide +kernel
example : FailClosed.A.cost (FailClosed.toA 1000 TextPack.r "" (fun _ => 0))
    [0,0,0,0,1,0,0,0,0,0,0,0,2, 4,127,255,255,255] = 18 := by decide +kernel

/-- non-vacuity (lower bounds, so that a regenerated table with more layouts does not break it) -/
theorem agreeing_layouts_count :
    30 ≤ (all.filter (fun t => agrees t.2.1 t.2.2)).length ∧ 40 ≤ all.length := by decide

/-! ## the hand-completed reader layouts of C03 (tables the translator leaves as parameters, CounterPack1's
    sections, StatGeneralPack's cached table): every IR constructor is handled by `toA` now, so the same
    two theorems hold for them -/

def handReaders : List (String × L) := [
  ("CounterPack1", Packs.Irregular.CounterPack1.r),
  ("StatGeneralPack", Packs.Irregular.StatGeneralPack.l),
  ("StatGeneralPack1", Packs.Irregular.StatGeneralPack1.l),
  ("StatGeneralTable", Packs.Irregular.StatGeneralTable.l),
  ("ParamPack", Packs.Hand.ParamPack.r),
  ("ExtensionPack", Packs.Hand.ExtensionPack.r),
  ("EventPack", Packs.Hand.EventPack.r)]

open FailClosed in
theorem hand_readers_costOK : handReaders.all (fun t => costOK t.2 && decide (coef t.2 ≤ 8192)) = true := by decide

theorem hand_instrumented_same (t : String × L) (ht : t ∈ handReaders) (F : Nat) (pfx : String)
    (e : Env) (bs : Bytes) (hF : bs.length + 2 ≤ F) :
    FailClosed.A.run (FailClosed.toA F t.2 pfx e) bs = (t.2.read pfx e bs).map FailClosed.reshape := by
  have h := List.all_eq_true.mp hand_readers_costOK t ht
  simp only [Bool.and_eq_true] at h
  exact FailClosed.run_toA F t.2 h.1 pfx e bs hF

theorem hand_pack_alloc_bounded (t : String × L) (ht : t ∈ handReaders) (F : Nat) (pfx : String)
    (e : Env) (bs : Bytes) : FailClosed.A.cost (FailClosed.toA F t.2 pfx e) bs ≤ 8192 * bs.length := by
  have h := List.all_eq_true.mp hand_readers_costOK t ht
  simp only [Bool.and_eq_true, decide_eq_true_eq] at h
  exact Nat.le_trans (FailClosed.cost_toA_le F t.2 h.1 pfx e bs) (Nat.mul_le_mul_right _ h.2)

end C04Gen
