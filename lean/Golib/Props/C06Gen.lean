/-
  Property C06, tie A — what xlate/c06 re-extracted from net/oneway/OneWayTcpClient.go on this run
  (Golib/Gen/C06.lean) is what the CodeModel assumes.

  Two layers.
  * Facts (`Gen.C06.facts`): call sequences, lock placement, error paths, queue consumers,
    goroutines, license choice — compared with `Tcp.assumed` by `decide`.
  * Programs (`Gen.C06.progs`): the *statements* of sendDirect, send, process() and ApplyConfig,
    transcribed into `Tcp.Stmt`.  They are given a semantics (`Tcp.interpSender`, `Tcp.interpProc`:
    the transcribed code is executed against an environment and yields model actions) and proved
    to produce, for every environment / thread / send id / frame length, exactly the model's own
    per-call programs `directActs` / `procActs` — the action lists the driver replays on the
    harness's observations and the recovery theorems run on the machine.  The lock flags of the
    model configuration are computed from the same programs (`Progs.cfg`), and the C06 theorems
    are instantiated at that configuration.

  * Bodies (`Gen.C06.bodies`): makeData's license expression and header constants, SendFlush's
    branch on `UseQueue` (and `Send` = `SendFlush(…, false, …)`), the statements of Connect() and
    Close() — each given a semantics and proved equal, for all inputs, to what the model does
    (`effLicense`, the entry point by mode, `connectNew` under the guard `conn = none`, `conn := none`).

  If sendDirect stops taking the lock first, unlocks before Flush, closes on the wrong error path,
  if process() connects or sends outside the lock, if ApplyConfig re-dials outside it, if send()
  stops re-arming the deadline, if another goroutine starts taking from the queue, if makeData
  picks the license differently — the generated data changes and an obligation here stops checking.
-/
import Golib.Gen.C06
import Golib.Props.C06
import Golib.Tcp.Refine

namespace C06Gen
open Tcp

/-- the source has exactly the shape the model was written against -/
theorem facts_match : Gen.C06.facts = Tcp.assumed := by decide

/-- sendDirect: Lock first, Unlock deferred, makeData / send / Flush under the lock -/
theorem source_send_locked : Gen.C06.facts.sendLocked = true := by decide

/-- process() calls Connect only between Lock and Unlock of the send lock (fails on the code as found: D42) -/
theorem source_process_connect_locked : Gen.C06.facts.processConnectLocked = true := by decide

/-- one consumer goroutine: the only `go` statement starts process(), which takes from the queue -/
theorem source_single_consumer :
    Gen.C06.facts.goroutines = ["process"] ∧ "process" ∈ Gen.C06.facts.queueConsumers := by decide

/-- the queue starts no goroutine of its own (a helper left waiting in `Get` would be a second consumer
    that nobody sends for), and nothing resets a buffered writer: bufio's sticky error is what makes a
    connection final after a failed write (`C06.dead_connection_is_final`) -/
theorem source_queue_has_no_helper_and_no_writer_reset :
    Gen.C06.facts.queueGoStmts = 0 ∧
    Call.bufReset ∉ Gen.C06.facts.flush ++ Gen.C06.facts.send ++ Gen.C06.facts.sendDirect ++ Gen.C06.facts.process ++
      Gen.C06.facts.connect ++ Gen.C06.facts.close ++ Gen.C06.facts.applyConfig := by decide

/-! ### interpreted obligations -/

/-- the transcribed sendDirect (with the transcribed send()), executed against any environment,
    performs exactly the model's program of a direct send -/
theorem source_sendDirect_is_model (env : Env) (t sid len : Nat) :
    interpSender Gen.C06.progs.send Gen.C06.progs.sendDirect env t sid len = some (directActs env t sid len) := by
  obtain ⟨a, b, c, d, e⟩ := env
  cases a <;> cases b <;> cases c <;> cases d <;> cases e <;> rfl

/-- the transcribed body of process() for a queue item performs exactly the model's program -/
theorem source_process_is_model (env : Env) (len : Nat) :
    interpProc Gen.C06.progs.send Gen.C06.progs.procItem env len = some (procActs env len) := by
  obtain ⟨a, b, c, d, e⟩ := env
  cases a <;> cases b <;> cases c <;> cases d <;> cases e <;> rfl

/-- the model configuration computed from the transcribed programs: everything under the send lock
    (sendDirect; process()'s Connect and its sends; ApplyConfig's Close/Connect), deadline re-armed
    before every write.  (`procLocked` / `acLocked` fail on the code before fix-D70.) -/
theorem source_cfg (q : Bool) :
    (Gen.C06.progs.cfg q).useQueue = q ∧ (Gen.C06.progs.cfg q).sendLocked = true ∧ (Gen.C06.progs.cfg q).bgLocked = true ∧
    (Gen.C06.progs.cfg q).procLocked = true ∧ (Gen.C06.progs.cfg q).acLocked = true ∧ (Gen.C06.progs.cfg q).rearm = true := by
  cases q <;> decide

/-- send()'s deferred recover() assigns the named result `err`: a recovered panic is reported, not
    turned into "sent" (fails on the code before fix-D71) -/
theorem source_recover_reports (q : Bool) : (Gen.C06.progs.cfg q).recoverReports = true := by
  cases q <;> decide

/-! ### the remaining bodies, interpreted -/

/-- makeData hashes the per-send license when it is non-empty and the client's otherwise — for every
    pair of licenses the transcribed expression evaluates to the model's `effLicense` -/
theorem source_license_is_model (ov dflt : Bytes) : Gen.C06.bodies.license.eval ov dflt = effLicense ov dflt := by
  by_cases h : ov = [] <;> simp [Gen.C06.bodies, LicExpr.eval, effLicense, h]

/-- … the header constants are the ones `mkFrame` writes (byte 0 = 10, byte 1 = 0) -/
theorem source_header_is_model (pcode hash : Int) (payload : Bytes) :
    (mkFrame pcode hash payload).take 2 = [Gen.C06.bodies.headerSrc, Gen.C06.bodies.headerVer] := by
  simp [mkFrame, Gen.C06.bodies]

/-- SendFlush: in queue mode every call is a `Queue.Put` whose result decides nil / "Enqueue Failed",
    in direct mode every call is `sendDirect` — whatever the `flush` argument; `Send` is
    `SendFlush(…, false, …)`.  (The model's `enqueue`/`enqueueFail` need `useQueue = true`,
    `lockSend` needs `useQueue = false`.) -/
theorem source_entry_is_model (q f : Bool) :
    interpEntry Gen.C06.bodies.sendFlush q f = some (if q then .enq else .direct) ∧
    Gen.C06.bodies.sendIsSendFlushFalse = true := by
  cases q <;> cases f <;> decide

/-- Connect(): nothing when a connection is set; otherwise dial and, on success, assign a new connection
    and a *new* buffered writer on it — the model's `connectNew` under the guard `conn = none` -/
theorem source_connect_is_model (ok : Bool) (c w : Option Nat) (n : Nat) :
    interpConn Gen.C06.bodies.connect ok (c, w, n) = modelConnect ok (c, w, n) := by
  cases c <;> cases ok <;> rfl

/-- Close(): `conn = nil`, the writer stays — the model's `close` / `extClose` / `reconfClose` -/
theorem source_close_is_model (ok : Bool) (c w : Option Nat) (n : Nat) :
    interpConn Gen.C06.bodies.close ok (c, w, n) = modelClose (c, w, n) := by
  cases c <;> rfl

/-- what `expand` replays for a direct send is the interpretation of the source -/
theorem source_expand_direct (cfg : Cfg) (lenOf : Nat → Nat) (s : St) (t : Nat) (o : Outcome) :
    some (expand cfg lenOf s (.direct t o)) =
      interpSender Gen.C06.progs.send Gen.C06.progs.sendDirect (envOf s o) t s.nsid (lenOf s.nsid) := by
  rw [source_sendDirect_is_model, expand_direct]

/-- … and the interpreted successful send is a schedule of the machine from every reachable state with
    the sender idle, the lock free and a clean writer: the code's actions are actions the model admits -/
theorem source_send_admitted (bytesOf : Nat → Bytes) (hne : ∀ sid, bytesOf sid ≠ []) (s : St)
    (hr : Reach (Gen.C06.progs.cfg false) bytesOf s) (t : Nat) (ht : t ≠ 0) (hidle : s.pc t = .idle)
    (hlock : s.lock = none) (hclean : s.conn = none ∨ ∃ w, s.wr = some w ∧ s.err.get w = false) :
    ∃ dial acts s', interpSender Gen.C06.progs.send Gen.C06.progs.sendDirect (Env.good dial) t s.nsid
        (bytesOf s.nsid).length = some acts ∧
      run (Gen.C06.progs.cfg false) bytesOf acts s = some s' ∧ (s.nsid, true) ∈ s'.results := by
  obtain ⟨hq, hl, _, _, _, hra⟩ := source_cfg false
  obtain ⟨dial, s', h1, h2⟩ := directActs_ok_admitted (Gen.C06.progs.cfg false) bytesOf hl hra hq
    hne s hr t ht hidle hlock hclean
  exact ⟨dial, _, s', source_sendDirect_is_model _ _ _ _, h1, h2⟩

/-! ### the theorems of Props/C06 at the configuration read off the source -/

abbrev srcCfg (useQueue : Bool) : Cfg := Gen.C06.progs.cfg useQueue

theorem source_frames_whole (q : Bool) (bytesOf : Nat → Bytes) (s : St)
    (hr : Reach (srcCfg q) bytesOf s) (c : Nat) :
    WholeThenTail bytesOf (s.log.get c) (s.delivered c) :=
  C06.frames_whole_delivered _ bytesOf (source_cfg _).2.1 s hr c

theorem source_order_once (q : Bool) (bytesOf : Nat → Bytes) (s : St)
    (hr : Reach (srcCfg q) bytesOf s) :
    (flatLogs s).Pairwise (· < ·) ∧ (flatLogs s).Sublist s.handed :=
  let h := C06.order_once _ bytesOf (source_cfg _).2.1 s hr
  ⟨h.1, h.2.2.2⟩

theorem source_healthy_no_loss (q : Bool) (bytesOf : Nat → Bytes) (acts : List Act) (s : St)
    (hh : Healthy acts) (h : run (srcCfg q) bytesOf acts init = some s) : NothingLost bytesOf s :=
  C06.healthy_no_loss _ bytesOf (source_cfg q).2.1 (source_cfg q).2.2.1 (source_cfg q).2.2.2.2.1
    (source_cfg q).2.2.2.1 (source_recover_reports q) acts s hh h

/-- fault histories at the configuration of the source: whole frames, at most once, in order -/
theorem source_fault_histories (bytesOf : Nat → Bytes) (es : List HEv) (s : St)
    (h : runHist (srcCfg false) bytesOf es init = some s) :
    ∃ k : Nat → Nat,
      (∀ c, ∃ tail, s.delivered c = concatF bytesOf ((s.log.get c).take (k c)) ++ tail ∧
          (tail = [] ∨ ∃ sid, (s.log.get c)[k c]? = some sid ∧ tail <+: bytesOf sid ∧ tail ≠ bytesOf sid)) ∧
      (wholeFrames s k).Pairwise (· < ·) ∧ (wholeFrames s k).Sublist s.handed :=
  C06.fault_histories _ bytesOf (source_cfg false).2.1 es s h

/-- Close() racing sends at the configuration of the source: nothing accepted is lost -/
theorem source_close_race_no_loss (q : Bool) (bytesOf : Nat → Bytes) (pre post : List Act) (t : Nat) (s : St)
    (hh : Healthy pre) (hh' : Healthy post) (h : run (srcCfg q) bytesOf (pre ++ .extClose t :: post) init = some s) :
    NothingLost bytesOf s :=
  C06.close_race_no_loss _ bytesOf (source_cfg q).2.1 (source_cfg q).2.2.1 (source_cfg q).2.2.2.2.1
    (source_cfg q).2.2.2.1 (source_recover_reports q) pre post t s hh hh' h

theorem source_queue_drains (bytesOf : Nat → Bytes) (hne : ∀ sid, bytesOf sid ≠ []) (s : St)
    (hr : Reach (srcCfg true) bytesOf s) (hp : s.pc 0 = .idle) (hlk : s.lock = none) :
    ∃ acts s', run (srcCfg true) bytesOf acts s = some s' ∧ (∀ a ∈ acts, a.isFault = false) ∧ s'.queue = [] ∧
      (∀ sid ∈ s.queue, ∃ w, Whole bytesOf s' w sid) := by
  obtain ⟨acts, s', h1, h2, h3, _, h5, _⟩ := C06.queue_drains (srcCfg true) bytesOf (source_cfg true).2.1
    (source_cfg true).2.2.2.2.2 (source_cfg true).1 hne s hr hp (fun _ => hlk)
  exact ⟨acts, s', h1, h2, h3, h5⟩

/-! ### Connect()'s loop over the server list, interpreted -/

/-- the transcribed loop — the dial stands in `for _, host := range this.Servers`, gets `Timeout` for every
    server, goes on to the next server on failure and returns at the first success — is the model's
    `connectList`, for every Timeout, every server list and every starting time.  (A deadline computed
    once before the loop is transcribed as `.shared`: this obligation stops checking, see
    `C06.finding_sharedBudget`.) -/
theorem source_dial_is_model (T : Nat) (servers : List Srv) (now : Nat) :
    interpDial Gen.C06.dialLoop T servers now = connectList T servers now 0 :=
  interp_is_model _ (by decide) (by decide) (by decide) (by decide) T servers now

/-- … so the client of this source reaches a live collector behind any number of dead ones -/
theorem source_reaches_live_behind_dead (T : Nat) (pre post : List Srv) (s : Srv) (now : Nat)
    (hpre : ∀ x ∈ pre, x.live T = false) (hs : s.live T = true) :
    (interpDial Gen.C06.dialLoop T (pre ++ s :: post) now).1 = some pre.length := by
  rw [source_dial_is_model]; exact C06.live_behind_dead_is_reached T pre post s now hpre hs

example : interpDial Gen.C06.dialLoop 400 [.gone, .refused, .up 0, .up 0] 0 = (some 2, 400) := by decide

end C06Gen
