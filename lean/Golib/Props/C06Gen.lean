/-
  Property C06, tie A — what xlate/c06 re-extracted from net/oneway/OneWayTcpClient.go on this run
  (Golib/Gen/C06.lean) is what the CodeModel assumes.

  Two layers.
  * Facts (`Gen.C06.facts`): call sequences, lock placement, error paths, queue consumers,
    goroutines, license choice — compared with `Tcp.assumed` by `decide`.
  * Programs (`Gen.C06.progs`): the *statements* of sendDirect, send, process() and ApplyConfig,
    transcribed into `Tcp.Stmt`.  They are given a semantics (`Tcp.interpSender`, `Tcp.interpProc`:
    the transcribed code is executed against an environment and yields model actions) and proved
    to produce, for every environment / thread / send id / frame length, exactly the model's own
    per-call programs `directActs` / `procActs` — the action lists the driver replays on the
    harness's observations and the recovery theorems run on the machine.  The lock flags of the
    model configuration are computed from the same programs (`Progs.cfg`), and the C06 theorems
    are instantiated at that configuration.

  If sendDirect stops taking the lock first, unlocks before Flush, closes on the wrong error path,
  if process() connects or sends outside the lock, if ApplyConfig re-dials outside it, if send()
  stops re-arming the deadline, if another goroutine starts taking from the queue, if makeData
  picks the license differently — the generated data changes and an obligation here stops checking.
-/
import Golib.Gen.C06
import Golib.Props.C06
import Golib.Tcp.Refine

namespace C06Gen
open Tcp

/-- the source has exactly the shape the model was written against -/
theorem facts_match : Gen.C06.facts = Tcp.assumed := by decide

/-- sendDirect: Lock first, Unlock deferred, makeData / send / Flush under the lock -/
theorem source_send_locked : Gen.C06.facts.sendLocked = true := by decide

/-- process() calls Connect only between Lock and Unlock of the send lock (fails on the code as found: D42) -/
theorem source_process_connect_locked : Gen.C06.facts.processConnectLocked = true := by decide

/-- one consumer goroutine: the only `go` statement starts process(), which takes from the queue -/
theorem source_single_consumer :
    Gen.C06.facts.goroutines = ["process"] ∧ "process" ∈ Gen.C06.facts.queueConsumers := by decide

/-! ### interpreted obligations -/

/-- the transcribed sendDirect (with the transcribed send()), executed against any environment,
    performs exactly the model's program of a direct send -/
theorem source_sendDirect_is_model (env : Env) (t sid len : Nat) :
    interpSender Gen.C06.progs.send Gen.C06.progs.sendDirect env t sid len = some (directActs env t sid len) := by
  obtain ⟨a, b, c, d, e⟩ := env
  cases a <;> cases b <;> cases c <;> cases d <;> cases e <;> rfl

/-- the transcribed body of process() for a queue item performs exactly the model's program -/
theorem source_process_is_model (env : Env) (len : Nat) :
    interpProc Gen.C06.progs.send Gen.C06.progs.procItem env len = some (procActs env len) := by
  obtain ⟨a, b, c, d, e⟩ := env
  cases a <;> cases b <;> cases c <;> cases d <;> cases e <;> rfl

/-- the model configuration computed from the transcribed programs: everything under the send lock
    (sendDirect; process()'s Connect and its sends; ApplyConfig's Close/Connect), deadline re-armed
    before every write.  (`procLocked` / `acLocked` fail on the code before fix-D70.) -/
theorem source_cfg (q : Bool) :
    Gen.C06.progs.cfg q =
      { useQueue := q, sendLocked := true, bgLocked := true, procLocked := true, acLocked := true, rearm := true } := by
  cases q <;> decide

/-- what `expand` replays for a direct send is the interpretation of the source -/
theorem source_expand_direct (cfg : Cfg) (lenOf : Nat → Nat) (s : St) (t : Nat) (o : Outcome) :
    some (expand cfg lenOf s (.direct t o)) =
      interpSender Gen.C06.progs.send Gen.C06.progs.sendDirect (envOf s o) t s.nsid (lenOf s.nsid) := by
  rw [source_sendDirect_is_model, expand_direct]

/-- … and the interpreted successful send is a schedule of the machine from every reachable state with
    the sender idle, the lock free and a clean writer: the code's actions are actions the model admits -/
theorem source_send_admitted (bytesOf : Nat → Bytes) (hne : ∀ sid, bytesOf sid ≠ []) (s : St)
    (hr : Reach (Gen.C06.progs.cfg false) bytesOf s) (t : Nat) (ht : t ≠ 0) (hidle : s.pc t = .idle)
    (hlock : s.lock = none) (hclean : s.conn = none ∨ ∃ w, s.wr = some w ∧ s.err.get w = false) :
    ∃ dial acts s', interpSender Gen.C06.progs.send Gen.C06.progs.sendDirect (Env.good dial) t s.nsid
        (bytesOf s.nsid).length = some acts ∧
      run (Gen.C06.progs.cfg false) bytesOf acts s = some s' ∧ (s.nsid, true) ∈ s'.results := by
  have hc := source_cfg false
  obtain ⟨dial, s', h1, h2⟩ := directActs_ok_admitted (Gen.C06.progs.cfg false) bytesOf (by rw [hc]) (by rw [hc])
    (by rw [hc]) hne s hr t ht hidle hlock hclean
  exact ⟨dial, _, s', source_sendDirect_is_model _ _ _ _, h1, h2⟩

/-! ### the theorems of Props/C06 at the configuration read off the source -/

abbrev srcCfg (useQueue : Bool) : Cfg := Gen.C06.progs.cfg useQueue

theorem source_frames_whole (q : Bool) (bytesOf : Nat → Bytes) (s : St)
    (hr : Reach (srcCfg q) bytesOf s) (c : Nat) :
    WholeThenTail bytesOf (s.log.get c) (s.delivered c) :=
  C06.frames_whole_delivered _ bytesOf (by rw [srcCfg, source_cfg]) s hr c

theorem source_order_once (q : Bool) (bytesOf : Nat → Bytes) (s : St)
    (hr : Reach (srcCfg q) bytesOf s) :
    (flatLogs s).Pairwise (· < ·) ∧ (flatLogs s).Sublist s.handed :=
  let h := C06.order_once _ bytesOf (by rw [srcCfg, source_cfg]) s hr
  ⟨h.1, h.2.2.2⟩

theorem source_healthy_no_loss (q : Bool) (bytesOf : Nat → Bytes) (acts : List Act) (s : St)
    (hh : Healthy acts) (h : run (srcCfg q) bytesOf acts init = some s) : NothingLost bytesOf s :=
  C06.healthy_no_loss _ bytesOf (by rw [srcCfg, source_cfg]) (by rw [srcCfg, source_cfg]) (by rw [srcCfg, source_cfg])
    (by rw [srcCfg, source_cfg]) acts s hh h

theorem source_queue_drains (bytesOf : Nat → Bytes) (hne : ∀ sid, bytesOf sid ≠ []) (s : St)
    (hr : Reach (srcCfg true) bytesOf s) (hp : s.pc 0 = .idle) (hlk : s.lock = none) :
    ∃ acts s', run (srcCfg true) bytesOf acts s = some s' ∧ (∀ a ∈ acts, a.isFault = false) ∧ s'.queue = [] ∧
      (∀ sid ∈ s.queue, ∃ w, Whole bytesOf s' w sid) := by
  obtain ⟨acts, s', h1, h2, h3, _, h5, _⟩ := C06.queue_drains (srcCfg true) bytesOf (by rw [srcCfg, source_cfg])
    (by rw [srcCfg, source_cfg]) (by rw [srcCfg, source_cfg]) hne s hr hp (fun _ => hlk)
  exact ⟨acts, s', h1, h2, h3, h5⟩

end C06Gen
