/-
  Property C06, tie A — the facts re-extracted from net/oneway/OneWayTcpClient.go on this run
  (Golib/Gen/C06.lean, written by xlate/c06) are the ones the CodeModel assumes, and the C06
  theorems hold for the model configuration derived from the source text.

  If sendDirect stops taking the send lock first, if process() calls Connect outside the lock,
  if a Close appears or disappears on an error path, if another goroutine starts taking from the
  queue, if makeData picks the license differently — the generated record changes and
  `facts_match` no longer checks.
-/
import Golib.Gen.C06
import Golib.Props.C06

namespace C06Gen
open Tcp

/-- the source has exactly the shape the model was written against -/
theorem facts_match : Gen.C06.facts = Tcp.assumed := by decide

/-- sendDirect: Lock first, Unlock deferred, makeData / send / Flush under the lock -/
theorem source_send_locked : Gen.C06.facts.sendLocked = true := by decide

/-- process() calls Connect only between Lock and Unlock of the send lock (fails on the code as found: D42) -/
theorem source_process_connect_locked : Gen.C06.facts.processConnectLocked = true := by decide

/-- one consumer goroutine: the only `go` statement starts process(), which takes from the queue -/
theorem source_single_consumer :
    Gen.C06.facts.goroutines = ["process"] ∧ "process" ∈ Gen.C06.facts.queueConsumers := by decide

/-- the configuration of the model that corresponds to the source, in either mode, any queue capacity -/
abbrev srcCfg (useQueue : Bool) (cap : Nat) : Cfg := cfgOf Gen.C06.facts useQueue cap

theorem srcCfg_locked (q : Bool) (cap : Nat) : (srcCfg q cap).sendLocked = true ∧ (srcCfg q cap).bgLocked = true :=
  ⟨source_send_locked, source_process_connect_locked⟩

/-- the theorems of Props/C06 at the configuration read off the source -/
theorem source_frames_whole (q : Bool) (cap : Nat) (bytesOf : Nat → Bytes) (s : St)
    (hr : Reach (srcCfg q cap) bytesOf s) (c : Nat) :
    WholeThenTail bytesOf (s.log.get c) (s.delivered c) :=
  C06.frames_whole_delivered _ bytesOf (srcCfg_locked q cap).1 s hr c

theorem source_order_once (q : Bool) (cap : Nat) (bytesOf : Nat → Bytes) (s : St)
    (hr : Reach (srcCfg q cap) bytesOf s) :
    (flatLogs s).Pairwise (· < ·) ∧ (flatLogs s).Sublist s.handed :=
  let h := C06.order_once _ bytesOf (srcCfg_locked q cap).1 s hr
  ⟨h.1, h.2.2.2⟩

theorem source_healthy_no_loss (q : Bool) (cap : Nat) (bytesOf : Nat → Bytes) (acts : List Act) (s : St)
    (hh : Healthy acts) (h : run (srcCfg q cap) bytesOf acts init = some s) : NothingLost bytesOf s :=
  C06.healthy_no_loss _ bytesOf (srcCfg_locked q cap).1 (srcCfg_locked q cap).2 acts s hh h

end C06Gen
