/-
  Property C20 — value equality and comparison are total and lawful.

  Statements only; every proof is a reference to a lemma of Golib.Value.*.  The model
  (`Value.eqV` = Equals, `Value.cmpV` = CompareTo, Golib/Value/Cmp.lean) is tied to /repo/lang/value
  and /repo/util/compare by the correspondence harness `harness/c20` (tie B).

  The model describes the code with the four proposed repairs (proposed/C20/fix-D04 … D07.diff:
  missing map key no longer panics; type fallback subtracts as int; nil payload = empty payload;
  summaries ordered by sum then count).  Two families of quirks are *kept* in the model and
  recorded as known findings; the theorems that they break carry the matching hypothesis and are
  named `…_partial`, and each has `finding_*` witnesses below (the same inputs are replayed on the
  implementation by the harness on every run):

    NoNaN v        no NaN among the floats a comparison looks at            (D09: IEEE semantics)
    Aligned a b    maps that `CompareTo` walks have the same key *sequence*  (D08: the receiver's
                   key order is followed; a missing key gives 1)

  `WFV` (Golib/Value/WF.lean) is the representation invariant of a Go value (ranges; map keys
  pairwise distinct because they live in a hash map).
-/
import Golib.Value.CmpLaws
import Golib.Value.CmpExact
import Golib.Value.Canon
import Golib.Value.EqExact
import Golib.Value.CmpWrap

namespace C20
open Value

/-! ### totality -/

/-- `Equals` and `CompareTo` are total functions of two values: every pair, of any two types,
    any shapes and key sets, has a result (there is no failure case in the model; on the
    unrepaired code D04 is the counterexample: a key missing in the other map panics) -/
theorem total (a b : Value) : ∃ (e : Bool) (c : Int), eqV a b = e ∧ cmpV a b = c := ⟨_, _, rfl, rfl⟩

/-- a key that the other map lacks: not equal, and `CompareTo` gives 1 (the repaired D04 path) -/
theorem missing_key (k : Bytes) (v : Value) (kvs other : List (Bytes × Value))
    (h : lookupKV k other = none) (hl : ((k, v) :: kvs).length = other.length) :
    eqV (.map ((k, v) :: kvs)) (.map other) = false ∧ cmpV (.map ((k, v) :: kvs)) (.map other) = 1 := by
  rw [eqV_map, cmpV_map]
  simp [hl, eqKVs, cmpKVs, h]

/-! ### equality is an equivalence -/

/-- full statement: ∀ v, eqV v v.  Fails for NaN (finding_D09_refl). -/
theorem eq_refl_partial (v : Value) (hw : WFV v) (hn : NoNaN v) : eqV v v = true := eqV_refl v hw hn

/-- symmetry holds for all well-formed values, NaNs included, whatever the key order of maps -/
theorem eq_symm (a b : Value) (ha : WFV a) (hb : WFV b) (h : eqV a b = true) : eqV b a = true :=
  eqV_symm a b ha hb h

/-- full statement: without the NoNaN hypotheses.  Fails through a NaN inside a float array
    (finding_D09_trans). -/
theorem eq_trans_partial (a b c : Value) (ha : NoNaN a) (hb : NoNaN b) (hc : NoNaN c)
    (h1 : eqV a b = true) (h2 : eqV b c = true) : eqV a c = true := eqV_trans a b c ha hb hc h1 h2

/-- equality holds between a value and the result of decoding its encoding, in both directions
    (nil and empty payloads are one value in the model: D06 repaired).
    Full statement: without NoNaN.  Fails for NaN (finding_D09_decode). -/
theorem eq_decode_partial (v v' : Value) (r : Bytes) (hw : WFV v) (hn : NoNaN v)
    (hd : decode (encV v) = some (v', r)) : eqV v v' = true ∧ eqV v' v = true := by
  have := decode_encV v [] hw
  simp only [List.append_nil] at this
  rw [this] at hd
  cases hd
  exact ⟨eqV_refl v hw hn, eqV_refl v hw hn⟩

/-- the same without a hypothesis about the decoder: the encoding of `v` does decode, to something
    Equal to `v` in both directions, and nothing is left over -/
theorem eq_decode_exists (v : Value) (hw : WFV v) (hn : NoNaN v) :
    ∃ v', decode (encV v) = some (v', []) ∧ eqV v v' = true ∧ eqV v' v = true := by
  refine ⟨v, ?_, eqV_refl v hw hn, eqV_refl v hw hn⟩
  have := decode_encV v [] hw
  simpa using this

/-- values of different types are never equal -/
theorem eq_types (a b : Value) (h : tag a ≠ tag b) : eqV a b = false := eqV_tag_ne a b h

/-! ### comparison -/

/-- values of different types are ordered by their type code (D05 repaired: int subtraction) -/
theorem cmp_types (a b : Value) (h : tag a ≠ tag b) :
    cmpV a b = (tag a : Int) - (tag b : Int) ∧ sgn (cmpV a b) = sgn ((tag a : Int) - (tag b : Int)) := by
  rw [cmpV_tag_ne a b h]; exact ⟨rfl, rfl⟩

/-- `CompareTo` returns zero exactly when `Equals` holds — for every pair of values of every
    type (scalars, arrays, lists and maps; NaNs included) -/
theorem cmp_zero_iff_eq (a b : Value) : cmpV a b = 0 ↔ eqV a b = true := cmpV_zero_iff_eqV a b

/-- swapping the operands reverses the sign.
    Full statement: `∀ a b, sgn (cmpV a b) = - sgn (cmpV b a)`.  Fails with NaN
    (finding_D09_antisym), with maps of different key sets (finding_D08_keys) and with maps
    holding the same keys in another insertion order (finding_D08_order). -/
theorem cmp_antisymm_partial (a b : Value) (hwa : WFV a) (hwb : WFV b) (hna : NoNaN a) (hnb : NoNaN b)
    (hal : Aligned a b) : sgn (cmpV a b) = - sgn (cmpV b a) :=
  AS_sgn.mp (cmpV_AS a b hwa hwb hna hnb hal)

/-- … in particular for all values without maps (scalars, arrays, lists nested to any depth,
    mixed types): no alignment hypothesis is needed -/
theorem cmp_antisymm_mapfree (a b : Value) (hwa : WFV a) (hwb : WFV b) (hna : NoNaN a) (hnb : NoNaN b)
    (hm : mapFree a = true) : sgn (cmpV a b) = - sgn (cmpV b a) :=
  AS_sgn.mp (cmpV_AS a b hwa hwb hna hnb (aligned_of_mapFree a b hm))

/-- transitivity, in its strict and non-strict forms.
    Full statement: without NoNaN / Aligned.  Fails through NaN (finding_D09_cmp_trans) and
    through maps with different key order (finding_D08_trans). -/
theorem cmp_trans_partial (a b c : Value) (hwa : WFV a) (hwb : WFV b) (hwc : WFV c)
    (hna : NoNaN a) (hnb : NoNaN b) (hnc : NoNaN c)
    (hab : Aligned a b) (hbc : Aligned b c) (hac : Aligned a c) :
    (cmpV a b ≤ 0 → cmpV b c ≤ 0 → cmpV a c ≤ 0) ∧ (cmpV a b < 0 → cmpV b c ≤ 0 → cmpV a c < 0) ∧
    (cmpV a b ≤ 0 → cmpV b c < 0 → cmpV a c < 0) ∧ (cmpV a b = 0 → cmpV b c = 0 → cmpV a c = 0) :=
  cmpV_Tr a b c hwa hwb hwc hna hnb hnc hab hbc hac

theorem cmp_trans_mapfree (a b c : Value) (hwa : WFV a) (hwb : WFV b) (hwc : WFV c)
    (hna : NoNaN a) (hnb : NoNaN b) (hnc : NoNaN c) (hma : mapFree a = true) (hmb : mapFree b = true)
    (h1 : cmpV a b ≤ 0) (h2 : cmpV b c ≤ 0) : cmpV a c ≤ 0 :=
  (cmpV_Tr a b c hwa hwb hwc hna hnb hnc (aligned_of_mapFree a b hma) (aligned_of_mapFree b c hmb)
    (aligned_of_mapFree a c hma)).1 h1 h2

/-- a value compares as equal to itself -/
theorem cmp_refl_partial (v : Value) (hw : WFV v) (hn : NoNaN v) : cmpV v v = 0 :=
  (cmpV_zero_iff_eqV v v).mpr (eqV_refl v hw hn)

/-- the flat types (everything but list / map / int-map), any two of them, NaN-free: both laws
    without any well-formedness or alignment hypothesis -/
theorem cmp_flat_laws (a b c : Value) (hna : NoNaN a) (hnb : NoNaN b) (hnc : NoNaN c)
    (hfa : isFlat a = true) (hfb : isFlat b = true) :
    sgn (cmpV a b) = - sgn (cmpV b a) ∧ (cmpV a b ≤ 0 → cmpV b c ≤ 0 → cmpV a c ≤ 0) := by
  rw [cmpV_flat a b hfa, cmpV_flat b a hfb, cmpV_flat b c hfb, cmpV_flat a c hfa]
  exact ⟨AS_sgn.mp (cmpFlat_AS a b hna hnb), (cmpFlat_Tr a b c hna hnb hnc).1⟩

/-! ### sharper forms -/

/-- antisymmetry needs NaN-freeness of the float *scalars* only (float, double, the sum of a double
    summary): NaN elements of float arrays are skipped symmetrically -/
theorem cmp_antisymm_scalar_nan (a b : Value) (hwa : WFV a) (hwb : WFV b) (hna : noSNaN a = true)
    (hnb : noSNaN b = true) (hal : Aligned a b) : sgn (cmpV a b) = - sgn (cmpV b a) :=
  AS_sgn.mp (cmpV_AS_s a b hwa hwb hna hnb hal)

/-- exact, for the seventeen flat types (any two of them): the signs reverse **iff** the types
    differ or neither operand is a NaN float / double / double-summary sum.  This is the complete
    description of known finding `NaN:cmp-antisym`. -/
theorem cmp_antisymm_flat_iff (a b : Value) (hfa : isFlat a = true) (hfb : isFlat b = true) :
    sgn (cmpV a b) = - sgn (cmpV b a) ↔ (tag a ≠ tag b ∨ (noSNaN a = true ∧ noSNaN b = true)) := by
  rw [cmpV_flat a b hfa, cmpV_flat b a hfb, ← AS_sgn]; exact cmpFlat_AS_iff a b hfa hfb

/-- float arrays are antisymmetric whatever they hold -/
theorem cmp_antisymm_float_arrays (xs ys : List Nat) :
    sgn (cmpV (.af xs) (.af ys)) = - sgn (cmpV (.af ys) (.af xs)) :=
  (cmp_antisymm_flat_iff (.af xs) (.af ys) rfl rfl).mpr (Or.inr ⟨rfl, rfl⟩)

/-- the complete description of known finding `Map.CompareTo:cmp-antisym-different-keys`: two
    maps of equal size, some key of one missing in the other, all entries under common keys
    Equal ⇒ `CompareTo` is 1 in **both** directions -/
theorem map_different_keys_both_one (a b : List (Bytes × Value)) (hwa : WFV (.map a)) (hwb : WFV (.map b))
    (hl : a.length = b.length) (hk : ∃ k ∈ a.map (·.1), k ∉ b.map (·.1))
    (hc : ∀ p ∈ a, ∀ w, lookupKV p.1 b = some w → eqV p.2 w = true) :
    cmpV (.map a) (.map b) = 1 ∧ cmpV (.map b) (.map a) = 1 := map_different_keys a b hwa hwb hl hk hc

theorem imap_different_keys_both_one (a b : List (Int × Value)) (hwa : WFV (.imap a)) (hwb : WFV (.imap b))
    (hl : a.length = b.length) (hk : ∃ k ∈ a.map (·.1), k ∉ b.map (·.1))
    (hc : ∀ p ∈ a, ∀ w, lookupKV p.1 b = some w → eqV p.2 w = true) :
    cmpV (.imap a) (.imap b) = 1 ∧ cmpV (.imap b) (.imap a) = 1 := imap_different_keys a b hwa hwb hl hk hc

/-- values that hold no float anywhere satisfy `NoNaN`: for them every `_partial` theorem above
    holds with the alignment hypothesis alone (maps) or with none (no maps) -/
theorem floatfree_is_nan_free (v : Value) (h : floatFree v = true) : NoNaN v := noNaN_of_floatFree v h

theorem cmp_trans_floatfree (a b c : Value) (hwa : WFV a) (hwb : WFV b) (hwc : WFV c)
    (hfa : floatFree a = true) (hfb : floatFree b = true) (hfc : floatFree c = true)
    (hab : Aligned a b) (hbc : Aligned b c) (hac : Aligned a c) (h1 : cmpV a b ≤ 0) (h2 : cmpV b c ≤ 0) :
    cmpV a c ≤ 0 :=
  (cmpV_Tr a b c hwa hwb hwc (noNaN_of_floatFree a hfa) (noNaN_of_floatFree b hfb) (noNaN_of_floatFree c hfc)
    hab hbc hac).1 h1 h2

/-! ### exactness on scalars, transitivity under the weakest hypothesis -/

/-- for every scalar type (null, bool, decimal, int, long, text hash, text, float, double, both
    summaries): `Equals` holds **exactly** when the payloads are equal — the same number (a NaN equals
    nothing, −0 = +0), the same bytes, for a summary the same sum and count.  No tolerance, no
    coarser or finer relation. -/
theorem eq_exact (a b : Value) (ha : scalar a = true) : eqV a b = true ↔ payloadEq a b :=
  eqV_iff_payloadEq a b ha

/-- … and `CompareTo` is 0 exactly then -/
theorem cmp_zero_exact (a b : Value) (ha : scalar a = true) : cmpV a b = 0 ↔ payloadEq a b := by
  rw [cmpV_zero_iff_eqV]; exact eqV_iff_payloadEq a b ha

/-- a text is any byte sequence (a Go string need not be well-formed UTF-8): `CompareTo` is 0, and
    `Equals` holds, exactly when the **bytes** are the same — there is no decoding, replacement
    character, normal form or case folding between the payload and the comparison.  (Harness:
    `textPools`, `textStage` — texts that differ only inside ill-formed parts or only up to a
    canonicalisation, bare and inside containers.) -/
theorem text_exact (x y : Bytes) :
    (cmpV (.text x) (.text y) = 0 ↔ x = y) ∧ (eqV (.text x) (.text y) = true ↔ x = y) :=
  ⟨by simpa [payloadEq] using cmp_zero_exact (.text x) (.text y) rfl,
   by simpa [payloadEq] using eq_exact (.text x) (.text y) rfl⟩

/-- ill-formed bytes are told apart, also from U+FFFD and through containers -/
example : cmpV (.text [97, 254]) (.text [97, 255]) ≠ 0 ∧ cmpV (.text [255]) (.text [239, 191, 189]) ≠ 0 ∧
    cmpV (.list [.text [195]]) (.list [.text [194]]) ≠ 0 ∧
    cmpV (.map [([107], .text [128])]) (.map [([107], .text [191])]) ≠ 0 := by decide +kernel

/-- transitivity of `Equals` for the whole value type, containers included (structural
    induction), assuming only that the float **arrays** of the *middle* value hold no NaN; float
    and double scalars and summary sums may be NaN anywhere (a NaN equals nothing, which is
    transitive).  Narrows `eq_trans_partial`; `finding_D09_trans` shows the hypothesis is needed. -/
theorem eq_trans_mid (a b c : Value) (hb : noArrNaN b = true) (h1 : eqV a b = true) (h2 : eqV b c = true) :
    eqV a c = true := eqV_trans_mid a b c hb h1 h2

/-! ### what `Equals` decides (link to C02) -/

/-- on the types whose `Equals` is structural (null, bool, the integer types, text, text hash, blob,
    IPv4, int / long / text arrays, lists of those) `Equals` is equality of the values … -/
theorem eq_iff_same_value (a b : Value) (hr : rigid a = true) : eqV a b = true ↔ a = b :=
  eqV_iff_eq_of_rigid a b hr

/-- … i.e. equality of the encodings: `a.Equals(b)` decides "same bytes on the wire" -/
theorem eq_iff_same_bytes (a b : Value) (ha : WFV a) (hb : WFV b) (hr : rigid a = true) :
    eqV a b = true ↔ encV a = encV b := eqV_iff_enc_of_rigid a b ha hb hr

/-- in general (floats: −0 = +0; summaries: min / max ignored) `Equals` is equality of canonical
    forms, hence of *their* encodings — for all well-formed NaN-free values without maps -/
theorem eq_iff_canonical_bytes (a b : Value) (hwa : WFV a) (hwb : WFV b) (hna : NoNaN a) (hnb : NoNaN b)
    (hm : mapFree a = true) : eqV a b = true ↔ encV (canon a) = encV (canon b) :=
  eqV_iff_canon_enc a b hwa hwb hna hnb hm

/-- one direction holds for every well-formed NaN-free value, maps included: same bytes ⇒ Equal -/
theorem same_bytes_are_equal (a b : Value) (ha : WFV a) (hb : WFV b) (hn : NoNaN a) (h : encV a = encV b) :
    eqV a b = true := eqV_of_enc_eq a b ha hb hn h

/-- the converse fails exactly where the canonical form is needed: −0 vs +0, a summary's min, and
    the insertion order of a map -/
theorem equal_with_different_bytes :
    (eqV (.f32 0) (.f32 2147483648) = true ∧ encV (.f32 0) ≠ encV (.f32 2147483648)) ∧
    (eqV (.lsum 1 1 0 0) (.lsum 1 1 5 0) = true ∧ encV (.lsum 1 1 0 0) ≠ encV (.lsum 1 1 5 0)) ∧
    (eqV (.map [([1], .null), ([2], .null)]) (.map [([2], .null), ([1], .null)]) = true ∧
      encV (.map [([1], .null), ([2], .null)]) ≠ encV (.map [([2], .null), ([1], .null)])) := by
  decide +kernel

/-- summaries after the D07 repair: equal sums are ordered by count, consistently -/
theorem summary_by_count (s c c' mn mx mn' mx' : Int) (h : c < c') :
    cmpV (.lsum s c mn mx) (.lsum s c' mn' mx') = 1 ∧ cmpV (.lsum s c' mn' mx') (.lsum s c mn mx) = -1 := by
  have h1 : ¬ (c = c') := by omega
  have h2 : ¬ (c' = c) := by omega
  have h3 : ¬ (c' < c) := by omega
  simp [cmpV, cmpFlat, tag, h, h1, h2, h3]

/-! ### witnesses of the known findings (the harness replays the same inputs on the implementation) -/

def nan32w : Nat := 2143289344   -- 0x7fc00000
def one32 : Nat := 1065353216    -- 1.0f
def two32 : Nat := 1073741824    -- 2.0f

/-- D09: a NaN float is not equal to itself … -/
theorem finding_D09_refl : eqV (.f32 nan32w) (.f32 nan32w) = false := by decide +kernel
/-- … nor to the decoding of its encoding -/
theorem finding_D09_decode :
    ∃ v', decode (encV (.f32 nan32w)) = some (v', []) ∧ eqV (.f32 nan32w) v' = false :=
  ⟨.f32 nan32w, by rfl, by decide +kernel⟩
/-- D09: a NaN element of a float array is skipped, so equality is not transitive -/
theorem finding_D09_trans :
    eqV (.af [one32]) (.af [nan32w]) = true ∧ eqV (.af [nan32w]) (.af [two32]) = true ∧
    eqV (.af [one32]) (.af [two32]) = false := by decide +kernel
/-- D09: comparing with NaN gives -1 in both directions -/
theorem finding_D09_antisym :
    cmpV (.f32 nan32w) (.f32 one32) = -1 ∧ cmpV (.f32 one32) (.f32 nan32w) = -1 := by decide +kernel
/-- D09: 1.0 ≤ NaN ≤ 2.0 by `CompareTo`, but 1.0 > 2.0 (floats order descending) -/
theorem finding_D09_cmp_trans :
    cmpV (.f32 one32) (.f32 nan32w) ≤ 0 ∧ cmpV (.f32 nan32w) (.f32 two32) ≤ 0 ∧
    ¬ cmpV (.f32 one32) (.f32 two32) ≤ 0 := by decide +kernel

/-- D08: equal size, different key sets: 1 in both directions -/
theorem finding_D08_keys :
    cmpV (.map [([97], .null)]) (.map [([98], .null)]) = 1 ∧
    cmpV (.map [([98], .null)]) (.map [([97], .null)]) = 1 := by decide +kernel
/-- D08: the same keys in another insertion order: -1 in both directions (each side walks its own
    key order): {x:1,y:2} against {y:3,x:0} -/
theorem finding_D08_order :
    cmpV (.map [([120], .dec 1), ([121], .dec 2)]) (.map [([121], .dec 3), ([120], .dec 0)]) = -1 ∧
    cmpV (.map [([121], .dec 3), ([120], .dec 0)]) (.map [([120], .dec 1), ([121], .dec 2)]) = -1 := by decide +kernel
/-- D08: … and `CompareTo` is then not transitive: a={x:1,y:2} b={y:3,x:0} c={x:2,y:1} -/
theorem finding_D08_trans :
    cmpV (.map [([120], .dec 1), ([121], .dec 2)]) (.map [([121], .dec 3), ([120], .dec 0)]) ≤ 0 ∧
    cmpV (.map [([121], .dec 3), ([120], .dec 0)]) (.map [([120], .dec 2), ([121], .dec 1)]) ≤ 0 ∧
    ¬ cmpV (.map [([120], .dec 1), ([121], .dec 2)]) (.map [([120], .dec 2), ([121], .dec 1)]) ≤ 0 := by decide +kernel
/-- the witnesses violate exactly the hypotheses of the partial theorems -/
theorem finding_hypotheses :
    ¬ NoNaN (.f32 nan32w) ∧ ¬ NoNaN (.af [nan32w]) ∧
    ¬ Aligned (.map [([97], .null)]) (.map [([98], .null)]) ∧
    ¬ Aligned (.map [([120], .dec 1), ([121], .dec 2)]) (.map [([121], .dec 3), ([120], .dec 0)]) := by
  unfold NoNaN Aligned; decide +kernel

/-! ### nesting depth -/

/-- the laws hold at every nesting depth, because nesting is transparent: the same chain of
    one-entry containers (one-element list, one-entry map / int map under the same key — `ws`, of any
    length and any mixture) around both operands changes neither `Equals` nor `CompareTo`.  In
    particular a value nested n deep is Equal to an identical one exactly when the leaves are, two
    chains that differ in a deep leaf compare as the leaves do (so the signs reverse when the leaves'
    do), for every n.  The harness evaluates exactly this clause on the implementation for depths
    1 … 1000 (`depthStage`). -/
theorem wrap_eq (ws : List Wrap) (a b : Value) : eqV (wrapAll ws a) (wrapAll ws b) = eqV a b := wrapAll_eq ws a b
theorem wrap_cmp (ws : List Wrap) (a b : Value) : cmpV (wrapAll ws a) (wrapAll ws b) = cmpV a b := wrapAll_cmp ws a b

/-- a deep value is Equal to itself / compares 0 with itself exactly when its leaf does -/
theorem deep_refl (ws : List Wrap) (v : Value) (hw : WFV v) (hn : NoNaN v) :
    eqV (wrapAll ws v) (wrapAll ws v) = true ∧ cmpV (wrapAll ws v) (wrapAll ws v) = 0 := by
  rw [wrap_eq, wrap_cmp]; exact ⟨eqV_refl v hw hn, (cmp_zero_iff_eq v v).mpr (eqV_refl v hw hn)⟩

/-! ### non-vacuity: non-trivial values meet the hypotheses; the repaired behaviours -/

example : WFV (.map [([97], .list [.f32 one32, .af [two32]]), ([98], .dsum 0 3 0 0)]) ∧
    NoNaN (.map [([97], .list [.f32 one32, .af [two32]]), ([98], .dsum 0 3 0 0)]) := by
  unfold NoNaN; decide +kernel
example : Aligned (.map [([97], .dec 1), ([98], .imap [(5, .null)])]) (.map [([97], .text []), ([98], .imap [(5, .bool true)])]) := by
  unfold Aligned; decide +kernel
example : Aligned (.map [([97], .dec 1)]) (.map [([97], .dec 1), ([98], .null)]) := by unfold Aligned; decide +kernel  -- sizes differ: no constraint
example : mapFree (.list [.list [.dec 1, .af []], .text [1]]) = true := by decide +kernel
example : scalar (.dsum 0 1 2 3) = true ∧ noArrNaN (.list [.f32 nan32w, .af [one32]]) = true := by decide +kernel
example : payloadEq (.f32 0) (.f32 2147483648) ∧ ¬ payloadEq (.f32 one32) (.f32 (one32 + 1)) := by
  unfold payloadEq; decide +kernel
example : (eqV (.map [([97], .null)]) (.map [([98], .null)]) = false ∧ cmpV (.map [([97], .null)]) (.map [([98], .null)]) = 1) :=
  missing_key [97] .null [] [([98], .null)] (by rfl) (by rfl)
example : cmpV (.map [([97], .null)]) (.map [([98], .null)]) = 1 ∧ cmpV (.map [([98], .null)]) (.map [([97], .null)]) = 1 :=
  map_different_keys_both_one [([97], .null)] [([98], .null)] (by decide) (by decide) rfl ⟨[97], by simp, by simp⟩
    (fun p hp w hw => by simp at hp; subst hp; simp [lookupKV] at hw)
example : eqV (.list [.f32 nan32w]) (.list [.f32 nan32w]) = false ∧ noArrNaN (.list [.f32 nan32w]) = true := by decide +kernel
example : rigid (.list [.text [1], .ai [1, 2], .list [.null]]) = true := by decide +kernel
example : canon (.list [.f32 2147483648, .lsum 1 2 3 4]) = .list [.f32 0, .lsum 1 2 0 0] := by rfl
example : floatFree (.map [([1], .lsum 1 1 1 1)]) = true ∧ noSNaN (.af [nan32w]) = true := by decide +kernel
example : cmpV (.bool true) (.dec 0) = -10 ∧ cmpV (.dec 0) (.bool true) = 10 := by decide +kernel       -- D05
example : cmpV .null (.imap []) = -81 := by decide +kernel                                              -- D05 (NullValue)
example : cmpV (.lsum 5 1 0 0) (.lsum 5 2 0 0) = 1 ∧ cmpV (.lsum 5 2 0 0) (.lsum 5 1 0 0) = -1 := by decide +kernel  -- D07
example : eqV (.map [([97], .null)]) (.map [([98], .null)]) = false := by decide +kernel                 -- D04
example : eqV (.map [([97], .dec 1), ([98], .dec 2)]) (.map [([98], .dec 2), ([97], .dec 1)]) = true := by decide +kernel
example : isFlat (wrapAll (List.replicate 40 .l) (.dec 7)) = false ∧
    cmpV (wrapAll (List.replicate 40 .l) (.dec 7)) (wrapAll (List.replicate 40 .l) (.dec 8)) = 1 ∧
    cmpV (wrapAll (List.replicate 40 .l) (.dec 8)) (wrapAll (List.replicate 40 .l) (.dec 7)) = -1 := by
  refine ⟨by decide +kernel, ?_, ?_⟩ <;> rw [wrap_cmp] <;> decide +kernel
example : eqV (wrapAll [.l, .m [107], .im 1, .l] (.dec 7)) (wrapAll [.l, .m [107], .im 1, .l] (.dec 7)) = true :=
  (deep_refl _ (.dec 7) (by decide +kernel) (by unfold NoNaN; decide +kernel)).1

end C20
