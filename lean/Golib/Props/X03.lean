/-
  X03 — the UDP client's datagram batching (net/udp/UcpClient.go, net/UdpClient.go); extension check, no
  property is anchored here.  Model: Golib.Ext.UdpClient; proofs: Golib.Ext.UdpClientLemmas.

  Evident laws (stated at full strength, then what the code that exists satisfies):
   L1  every pack accepted by Send/SendRelay is emitted in exactly one datagram, in acceptance order, never
       split, never duplicated.
       FAILS in four ways (witnesses below): Shutdown leaves the buffer behind; a full channel drops after 5 s;
       a frame above the UDP maximum is refused by the socket; a re-opened client sends on a closed channel.
       `emitted_is_accepted_partial` proves L1 for every history in which none of these happened
       (no shutdown/reopen, `lost = []`) — together with L2 and L3.
   L2  every datagram is a concatenation of whole frames which the receiver-side header parser decodes back
       (`frame_roundtrip`, `datagram_roundtrip`), so parse (emitted) = accepted.
   L3  a datagram exceeds the limit only if it is one single frame (`emitted_is_accepted_partial`, last part).
   L4  counters: packCount = number of sendByBuffer calls, chanCount = datagrams handed to the channel,
       sendCount = datagrams written + refused (`packCount_eq`, `chanCount_eq`, `sendCount_eq`).
-/
import Golib.Ext.UdpClientLemmas

namespace X03
open Ext.Udp

/-- L2, one frame: type(1) ver(4) len(4) body, read back by the header parser, whatever follows -/
theorem frame_roundtrip (f : Frame) (h : f.wf) (r : Bytes) :
    P.run decFrame (encFrame f ++ r) = some (f, r) := run_decFrame f h r

/-- L2, one datagram: a concatenation of frames parses into exactly these frames -/
theorem datagram_roundtrip (fs : List Frame) (h : ∀ f ∈ fs, f.wf) :
    parseDatagram (encFrames fs) = some fs := parseDatagram_encFrames fs h

/-- the byte-level machine refines the frame-level spec "FIFO of frames cut into datagrams of at most
    `limit` bytes" for every history of sends (flushed or not), nil sends, timer flushes and process steps:
    what was handed to the channel is the spec's datagrams, the buffer is the spec's open datagram -/
theorem refines_cut (cfg : Cfg) (ops : List Op) (hp : ∀ op ∈ ops, op.plain = true) :
    (run cfg ops).offered.reverse = ((spec cfg.limit ops).done.reverse).map encFrames ∧
    (run cfg ops).buf = encFrames (spec cfg.limit ops).cur := by
  refine ⟨?_, (run_rel cfg ops hp).buf⟩
  rw [(run_rel cfg ops hp).offered, List.map_reverse]

/-- the spec itself: cutting never reorders, loses or duplicates a frame, never makes an empty datagram,
    and exceeds the limit only with a single frame -/
theorem cut_laws (l : Nat) (ops : List Op) :
    (spec l ops).done.reverse.flatten ++ (spec l ops).cur = accepted ops ∧
    (∀ g ∈ (spec l ops).done, g ≠ []) ∧
    (∀ g ∈ (spec l ops).done, size g ≤ l ∨ g.length = 1) :=
  ⟨spec_flatten l ops, spec_nonempty l ops, (spec_size l ops).1⟩

/-- nothing dropped ⇒ wire followed by channel is exactly what was handed over, in order — for EVERY history
    (shutdown, reopen and closed-channel panics included) -/
theorem conservation (cfg : Cfg) (ops : List Op) (h : (run cfg ops).lost = []) :
    (run cfg ops).wire.reverse ++ (run cfg ops).chan = (run cfg ops).offered.reverse :=
  lost_nil_wire cfg ops h

/-- L1 + L2 + L3 under the narrowest hypotheses: no shutdown / reopen in the history and nothing dropped.
    The datagrams (written, then waiting) are `groups.map encFrames` for a partition `groups ++ [pending]` of
    the accepted frames in acceptance order; each parses back to its group; the buffer holds `pending`;
    no group is empty; a group above the limit is a single frame. -/
theorem emitted_is_accepted_partial (cfg : Cfg) (ops : List Op) (hp : ∀ op ∈ ops, op.plain = true)
    (hwf : ∀ f ∈ accepted ops, f.wf) (hl : (run cfg ops).lost = []) :
    ∃ (groups : List (List Frame)) (pending : List Frame),
      groups.flatten ++ pending = accepted ops ∧
      (run cfg ops).wire.reverse ++ (run cfg ops).chan = groups.map encFrames ∧
      ((run cfg ops).wire.reverse ++ (run cfg ops).chan).map parseDatagram = groups.map some ∧
      (run cfg ops).buf = encFrames pending ∧
      (∀ g ∈ groups, g ≠ [] ∧ (size g ≤ cfg.limit ∨ g.length = 1)) := by
  refine ⟨(spec cfg.limit ops).done.reverse, (spec cfg.limit ops).cur, spec_flatten _ _, ?_, ?_,
    (run_rel cfg ops hp).buf, ?_⟩
  · rw [lost_nil_wire cfg ops hl, (run_rel cfg ops hp).offered, List.map_reverse]
  · rw [lost_nil_wire cfg ops hl, (run_rel cfg ops hp).offered, ← List.map_reverse, List.map_map]
    apply List.map_congr_left
    intro g hg
    simp only [Function.comp]
    apply parseDatagram_encFrames
    intro f hf
    apply hwf
    rw [← spec_flatten cfg.limit ops]
    exact List.mem_append_left _ (List.mem_flatten.mpr ⟨g, hg, hf⟩)
  · intro g hg
    have hg' := List.mem_reverse.mp hg
    exact ⟨spec_nonempty _ _ g hg', (spec_size _ _).1 g hg'⟩

/-- the wire only grows at its newest end: a datagram once written is never changed or withdrawn -/
theorem wire_monotone (cfg : Cfg) (s : St) (op : Op) : s.wire <:+ (step cfg s op).wire :=
  wire_suffix cfg s op

/-- L4 -/
theorem packCount_eq (cfg : Cfg) (ops : List Op) : (run cfg ops).packCount = nSends ops :=
  Ext.Udp.packCount_eq cfg ops
theorem chanCount_eq (cfg : Cfg) (ops : List Op) (hp : ∀ op ∈ ops, op.plain = true) :
    (run cfg ops).chanCount = (run cfg ops).offered.length := Ext.Udp.chanCount_eq cfg ops hp
theorem sendCount_eq (cfg : Cfg) (ops : List Op) (hp : ∀ op ∈ ops, op.plain = true) :
    (run cfg ops).sendCount = (run cfg ops).wire.length + (run cfg ops).errCount :=
  Ext.Udp.sendCount_eq cfg ops hp

/-! ### witnesses (a client with limit 30, channel capacity 1, UDP maximum 40) -/

def tiny : Cfg := ⟨30, 1, 40⟩
def fA : Frame := ⟨1, 50100, [1, 2, 3]⟩
def fB : Frame := ⟨2, 50100, [4, 5, 6]⟩
def fBig : Frame := ⟨3, 1, List.replicate 32 7⟩

/-- the hypotheses of `emitted_is_accepted_partial` are satisfiable on a history that cuts -/
example : (∀ op ∈ [Op.send fA false, .send fB false, .send fA false, .proc, .tick, .proc], op.plain = true) ∧
    (run tiny [.send fA false, .send fB false, .send fA false, .proc, .tick, .proc]).lost = [] ∧
    (run tiny [.send fA false, .send fB false, .send fA false, .proc, .tick, .proc]).wire =
      [encFrame fA, encFrames [fA, fB]] := by decide

/-- L1 fails: Shutdown writes what waits in the channel but not the buffer; the second pack is never sent
    (nothing is counted as lost either: the frame just stays in the buffer of a closed client) -/
theorem finding_shutdown_loses_buffer :
    (run tiny [.send fA true, .send fB false, .shutdown]).wire = [encFrame fA] ∧
    (run tiny [.send fA true, .send fB false, .shutdown]).buf = encFrame fB ∧
    (run tiny [.send fA true, .send fB false, .shutdown]).isOpen = false ∧
    (run tiny [.send fA true, .send fB false, .shutdown, .send fA true, .tick, .proc]).wire = [encFrame fA] := by
  decide

/-- L1 fails: the channel is full and nobody drains it within 5 s: the datagram is dropped, chanCount counts it -/
theorem finding_full_channel_drops :
    (run tiny [.send fA true, .send fB true, .proc, .proc]).wire = [encFrame fA] ∧
    (run tiny [.send fA true, .send fB true, .proc, .proc]).lost = [encFrame fB] ∧
    (run tiny [.send fA true, .send fB true, .proc, .proc]).chanCount = 2 := by decide

/-- L1 fails: a frame above the UDP maximum travels alone and the socket refuses it -/
theorem finding_oversize_dropped :
    (run tiny [.send fBig true, .proc]).wire = [] ∧ (run tiny [.send fBig true, .proc]).errCount = 1 ∧
    (run tiny [.send fBig true, .proc]).lost = [encFrame fBig] := by decide

/-- L1 fails: ApplyConfig re-opens a shut client over its closed channel; a flushed send resets the buffer
    and panics (recovered): the pack is gone and the client stays "open" -/
theorem finding_reopen_closed_channel :
    (run tiny [.shutdown, .reopen, .send fA true, .proc]).wire = [] ∧
    (run tiny [.shutdown, .reopen, .send fA true, .proc]).buf = [] ∧
    (run tiny [.shutdown, .reopen, .send fA true, .proc]).isOpen = true ∧
    (run tiny [.shutdown, .reopen, .send fA true, .proc]).lost = [encFrame fA] := by decide

end X03
