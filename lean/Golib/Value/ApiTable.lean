/-
  Golib.Value.ApiTable — what the model of Golib.Value.Api expects the source of the exported wrappers
  and map-only entry points to look like (tie A: compared with `Gen.C02.apiCalls`, which `xlate/c02`
  regenerates from lang/value on every run: every call of the body by name, in source order, and every
  comparison against a type-code constant).

  The constructor a wrapper stores and the constant a typed look-up tests are not spelled here: they are
  READ OFF THE MODEL — `stored` runs the model's `MOp.next` / `LOp.next` on the empty object and names the
  constructor of the value it finds; `tested` names the constant (looked up by code in the model's
  `constTable`) of the one constructor whose sample the model's typed look-up returns unchanged.
-/
import Golib.Value.Api
import Golib.Value.Codes

namespace Value

/-- "New<Type>" of the value the model's wrapper stores into an empty map -/
def storedM (op : MOp Bytes) : String :=
  match MOp.next [] op with
  | [(_, v)] => "New" ++ (ctorOf v).typeName
  | _ => "?"

def storedL (op : LOp) : String :=
  match LOp.next [] op with
  | [v] => "New" ++ (ctorOf v).typeName
  | _ => "?"

/-- a non-default sample of each scalar type a typed look-up could return -/
def samples : List Value := [.bool true, .dec 7, .int 7, .long 7, .f32 7, .f64 7, .text [7], .hash 7, .blob [7]]

def constOf (c : Ctor) : String :=
  match constTable.find? (fun k => k.2 == c.code) with
  | some k => k.1
  | none => "?"

/-- "==CONST" for the types whose sample a typed look-up of the model hands back (exactly one) -/
def testedM (q : Bytes → MOp Bytes) : List String :=
  (samples.filter (fun v => match MOp.out [([], v)] (q []) with
    | some r => ctorOf r == ctorOf v && tag r == tag v && (encV r == encV v)
    | none => false)).map (fun v => "==" ++ constOf (ctorOf v))

def testedL (q : Nat → LOp) : List String :=
  (samples.filter (fun v => match LOp.out [v] (q 0) with
    | some r => encV r == encV v
    | none => false)).map (fun v => "==" ++ constOf (ctorOf v))

def tagThenBody : List String := ["WriteByte", "GetValueType", "Write"]

def apiTable : List (String × List String) :=
  [("IntMapValue.Clear", ["Clear"]),
   ("IntMapValue.Get", ["Get"]),
   ("IntMapValue.GetBool", ["Get"] ++ testedM .getBool ++ ["GetValueType"]),
   ("IntMapValue.GetString", ["Get"] ++ testedM .getString ++ ["GetValueType"]),
   ("IntMapValue.NewList", [storedM (.newList []), "Put"]),
   ("IntMapValue.Put", ["Put"]),
   ("IntMapValue.PutLong", ["Put", storedM (.putLong [] 0)]),
   ("IntMapValue.PutString", ["Put", storedM (.putString [] [])]),
   ("IntMapValue.Size", ["Size"]),
   ("IntMapValue.WriteValue", tagThenBody),
   ("ListValue.Add", ["table=", "append"]),
   ("ListValue.AddLong", ["table=", "append", storedL (.addLong 0)]),
   ("ListValue.AddString", ["table=", "append", storedL (.addString [])]),
   ("ListValue.Clear", ["table="]),
   ("ListValue.Get", []),
   ("ListValue.GetBool", testedL .getBool ++ ["GetValueType"]),
   ("ListValue.GetString", testedL .getString ++ ["GetValueType"]),
   ("ListValue.Set", ["table[]="]),
   ("ListValue.Size", ["len"]),
   ("MapValue.Clear", ["Clear"]),
   ("MapValue.ContainsKey", ["ContainsKey"]),
   ("MapValue.Get", ["Get"]),
   ("MapValue.GetBool", ["Get"] ++ testedM .getBool ++ ["GetValueType"]),
   ("MapValue.GetFloat", ["Get"] ++ testedM .getFloat ++ ["GetValueType"]),
   ("MapValue.GetLong", ["Get"] ++ testedM .getLong ++ ["GetValueType"]),
   ("MapValue.GetString", ["Get"] ++ testedM .getString ++ ["GetValueType"]),
   ("MapValue.IsEmpty", ["IsEmpty"]),
   ("MapValue.NewList", [storedM (.newList []), "Put"]),
   ("MapValue.Put", ["Put"]),
   ("MapValue.PutAll", ["Keys", "HasMoreElements", "NextString", "Put", "Get"]),
   ("MapValue.PutLong", ["Put", storedM (.putLong [] 0)]),
   ("MapValue.PutString", ["Put", storedM (.putString [] [])]),
   ("MapValue.Size", ["Size"]),
   ("ReadMapValue", ["ReadByte", "==" ++ constOf (ctorOf (.map [])), "New" ++ (ctorOf (.map [])).typeName, "Read"]),
   ("WriteMapValue", tagThenBody)]

end Value
