/-
  Golib.Value.Scope — the two side conditions under which the comparison laws of C20 hold on the
  code as it is (each has a known finding with a witness when it is dropped):

    noNaN v        no float that a comparison looks at is a NaN (float / double scalars, the sum
                   of a double summary, float-array elements), recursively
    aligned a b    wherever `CompareTo` would walk two maps of equal size, their key *sequences*
                   are the same (same keys, same insertion order), recursively along the walk
-/
import Golib.Value.Cmp

namespace Value

mutual
def noNaN : Value → Bool
  | .f32 b => !nan32 b
  | .f64 b => !nan64 b
  | .dsum s _ _ _ => !nan64 s
  | .af xs => xs.all (fun b => !nan32 b)
  | .list xs => noNaNs xs
  | .map kvs => noNaNKVs kvs
  | .imap kvs => noNaNIKVs kvs
  | _ => true
def noNaNs : List Value → Bool
  | [] => true
  | x :: xs => noNaN x && noNaNs xs
def noNaNKVs : List (Bytes × Value) → Bool
  | [] => true
  | (_, v) :: kvs => noNaN v && noNaNKVs kvs
def noNaNIKVs : List (Int × Value) → Bool
  | [] => true
  | (_, v) :: kvs => noNaN v && noNaNIKVs kvs
end

mutual
def aligned : Value → Value → Bool
  | .list xs, b =>
    match b with
    | .list ys => xs.length != ys.length || alignedVs xs ys
    | _ => true
  | .map kvs, b =>
    match b with
    | .map kvs' => kvs.length != kvs'.length || (kvs.map (·.1) == kvs'.map (·.1) && alignedKVs kvs kvs')
    | _ => true
  | .imap kvs, b =>
    match b with
    | .imap kvs' => kvs.length != kvs'.length || (kvs.map (·.1) == kvs'.map (·.1) && alignedIKVs kvs kvs')
    | _ => true
  | _, _ => true
/-- position by position -/
def alignedVs : List Value → List Value → Bool
  | [], _ => true
  | _ :: _, [] => true
  | x :: xs, y :: ys => aligned x y && alignedVs xs ys
def alignedKVs : List (Bytes × Value) → List (Bytes × Value) → Bool
  | [], _ => true
  | _ :: _, [] => true
  | (_, v) :: kvs, (_, w) :: kws => aligned v w && alignedKVs kvs kws
def alignedIKVs : List (Int × Value) → List (Int × Value) → Bool
  | [], _ => true
  | _ :: _, [] => true
  | (_, v) :: kvs, (_, w) :: kws => aligned v w && alignedIKVs kvs kws
end

def NoNaN (v : Value) : Prop := noNaN v = true
def Aligned (a b : Value) : Prop := aligned a b = true

end Value
