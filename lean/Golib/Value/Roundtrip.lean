/-
  Golib.Value.Roundtrip — the tagged value codec round-trips every well-formed value at any depth.

    decV_encV      WFV v → szV v ≤ fuel → decV fuel (encV v ++ r) = some (v, r)
    decode_encV    WFV v → decode (encV v ++ r) = some (v, r)                 (the form to cite)
    decVs_encVs / decKVs_encKVs / decIKVs_encIKVs   the three container loops, usable on their own

  The proof is a mutual structural induction over the nested inductive `Value` (values, lists of
  values, string-keyed entries, int-keyed entries); scalars reduce to the C01 lemmas of Golib.Prim.
-/
import Golib.Value.WF

namespace Value
open Prim

/-! ### fuel measure: one unit per value and per container cell -/

mutual
def szV : Value → Nat
  | .list xs => 1 + szVs xs
  | .map kvs => 1 + szKVs kvs
  | .imap kvs => 1 + szIKVs kvs
  | _ => 1
def szVs : List Value → Nat
  | [] => 1
  | x :: xs => szV x + szVs xs
def szKVs : List (Bytes × Value) → Nat
  | [] => 1
  | (_, v) :: kvs => szV v + szKVs kvs
def szIKVs : List (Int × Value) → Nat
  | [] => 1
  | (_, v) :: kvs => szV v + szIKVs kvs
end

theorem szV_pos (v : Value) : 0 < szV v := by
  cases v <;> simp [szV] <;> omega
theorem szVs_pos (xs : List Value) : 0 < szVs xs := by
  cases xs with
  | nil => simp [szVs]
  | cons x t => simp only [szVs]; have := szV_pos x; omega
theorem szKVs_pos (xs : List (Bytes × Value)) : 0 < szKVs xs := by
  cases xs with
  | nil => simp [szKVs]
  | cons x t => obtain ⟨k, v⟩ := x; simp only [szKVs]; have := szV_pos v; omega
theorem szIKVs_pos (xs : List (Int × Value)) : 0 < szIKVs xs := by
  cases xs with
  | nil => simp [szIKVs]
  | cons x t => obtain ⟨k, v⟩ := x; simp only [szIKVs]; have := szV_pos v; omega

/-! ### `Put` of a key that is not there appends -/

theorem putKV_new {K : Type} [DecidableEq K] (acc : List (K × Value)) (k : K) (v : Value)
    (h : k ∉ acc.map (·.1)) : putKV acc k v = acc ++ [(k, v)] := by
  unfold putKV
  have : acc.any (fun p => p.1 == k) = false := by
    rw [List.any_eq_false]
    intro p hp hk
    exact h (List.mem_map.mpr ⟨p, hp, by simpa using hk⟩)
  simp [this]

theorem nodup_step {K : Type} (acc : List (K × Value)) (k : K) (v : Value) (t : List (K × Value))
    (h : ((acc ++ (k, v) :: t).map (·.1)).Nodup) :
    k ∉ acc.map (·.1) ∧ (((acc ++ [(k, v)]) ++ t).map (·.1)).Nodup := by
  constructor
  · intro hk
    rw [List.map_append, List.map_cons] at h
    have := (List.nodup_append.mp h).2.2 k hk k (by simp)
    exact this rfl
  · simpa [List.append_assoc] using h

/-! ### well-formedness, unfolded -/

theorem wfBytes_iff (bs : Bytes) : okBytes bs = true ↔ WFB bs ∧ bs.length < 2147483648 := by
  unfold okBytes WFB
  simp [List.all_eq_true]

/-! ### the round trip -/

mutual
theorem decV_encV (v : Value) : ∀ (f : Nat) (r : Bytes), WFV v → szV v ≤ f →
    decV f (encV v ++ r) = some (v, r) := by
  cases v with
  | null =>
    intro f r _ hf
    cases f with
    | zero => simp [szV] at hf
    | succ f => simp [encV, decV]
  | bool b =>
    intro f r _ hf
    cases f with
    | zero => simp [szV] at hf
    | succ f =>
      simp only [encV, List.cons_append, decV]
      rw [run_rdBool b r]; rfl
  | dec x =>
    intro f r h hf
    cases f with
    | zero => simp [szV] at hf
    | succ f =>
      simp only [WFV, wfV, okI64, decide_eq_true_eq] at h
      simp only [encV, List.cons_append, decV]
      rw [run_decDecimal x r ((inRange_8 x).mpr h)]; rfl
  | int x =>
    intro f r h hf
    cases f with
    | zero => simp [szV] at hf
    | succ f =>
      simp only [WFV, wfV, okI32, decide_eq_true_eq] at h
      simp only [encV, List.cons_append, decV]
      rw [run_rdI 4 x r ((inRange_4 x).mpr h)]; rfl
  | long x =>
    intro f r h hf
    cases f with
    | zero => simp [szV] at hf
    | succ f =>
      simp only [WFV, wfV, okI64, decide_eq_true_eq] at h
      simp only [encV, List.cons_append, decV]
      rw [run_rdI 8 x r ((inRange_8 x).mpr h)]; rfl
  | f32 x =>
    intro f r h hf
    cases f with
    | zero => simp [szV] at hf
    | succ f =>
      simp only [WFV, wfV, okU32, decide_eq_true_eq] at h
      simp only [encV, List.cons_append, decV]
      rw [run_rdU 4 x r (by omega)]; rfl
  | f64 x =>
    intro f r h hf
    cases f with
    | zero => simp [szV] at hf
    | succ f =>
      simp only [WFV, wfV, okU64, decide_eq_true_eq] at h
      simp only [encV, List.cons_append, decV]
      rw [run_rdU 8 x r (by omega)]; rfl
  | dsum s c mn mx =>
    intro f r h hf
    cases f with
    | zero => simp [szV] at hf
    | succ f =>
      simp only [WFV, wfV, okU64, okI32, Bool.and_eq_true, decide_eq_true_eq] at h
      obtain ⟨⟨⟨h1, h2⟩, h3⟩, h4⟩ := h
      simp only [encV, List.cons_append, List.append_assoc, decV]
      have e1 := run_rdU 8 s (encI 4 c ++ (beN 8 mn ++ (beN 8 mx ++ r))) (by omega)
      have e2 := run_rdI 4 c (beN 8 mn ++ (beN 8 mx ++ r)) ((inRange_4 c).mpr h2)
      have e3 := run_rdU 8 mn (beN 8 mx ++ r) (by omega)
      have e4 := run_rdU 8 mx r (by omega)
      simp only [e1, e2, e3, e4]; rfl
  | lsum s c mn mx =>
    intro f r h hf
    cases f with
    | zero => simp [szV] at hf
    | succ f =>
      simp only [WFV, wfV, okI64, okI32, Bool.and_eq_true, decide_eq_true_eq] at h
      obtain ⟨⟨⟨h1, h2⟩, h3⟩, h4⟩ := h
      simp only [encV, List.cons_append, List.append_assoc, decV]
      have e1 := run_rdI 8 s (encI 4 c ++ (encI 8 mn ++ (encI 8 mx ++ r))) ((inRange_8 s).mpr h1)
      have e2 := run_rdI 4 c (encI 8 mn ++ (encI 8 mx ++ r)) ((inRange_4 c).mpr h2)
      have e3 := run_rdI 8 mn (encI 8 mx ++ r) ((inRange_8 mn).mpr h3)
      have e4 := run_rdI 8 mx r ((inRange_8 mx).mpr h4)
      simp only [e1, e2, e3, e4]; rfl
  | text bs =>
    intro f r h hf
    cases f with
    | zero => simp [szV] at hf
    | succ f =>
      simp only [WFV, wfV] at h
      simp only [encV, List.cons_append, decV]
      rw [run_decBlob bs r ((wfBytes_iff bs).mp h).2]; rfl
  | hash x =>
    intro f r h hf
    cases f with
    | zero => simp [szV] at hf
    | succ f =>
      simp only [WFV, wfV, okI32, decide_eq_true_eq] at h
      simp only [encV, List.cons_append, decV]
      rw [run_rdI 4 x r ((inRange_4 x).mpr h)]; rfl
  | blob bs =>
    intro f r h hf
    cases f with
    | zero => simp [szV] at hf
    | succ f =>
      simp only [WFV, wfV] at h
      simp only [encV, List.cons_append, decV]
      rw [run_decBlob bs r ((wfBytes_iff bs).mp h).2]; rfl
  | ip4 bs =>
    intro f r h hf
    cases f with
    | zero => simp [szV] at hf
    | succ f =>
      simp only [WFV, wfV, Bool.and_eq_true, decide_eq_true_eq] at h
      simp only [encV, List.cons_append, decV]
      have := run_rdBytes bs r
      rw [h.2] at this
      rw [this]; rfl
  | list xs =>
    intro f r h hf
    cases f with
    | zero => simp [szV] at hf
    | succ f =>
      simp only [WFV, wfV, okCount, Bool.and_eq_true, decide_eq_true_eq] at h
      have ih := decVs_encVs xs f r h.2 (by simp only [szV] at hf; omega)
      simp only [encV, List.cons_append, List.append_assoc, decV]
      rw [run_decDecimal (xs.length : Int) _ ((inRange_8 _).mpr (by omega))]
      have : ¬ ((xs.length : Int) < 0) := by omega
      simp only [this, if_false, Int.toNat_natCast, ih]; rfl
  | ai xs =>
    intro f r h hf
    cases f with
    | zero => simp [szV] at hf
    | succ f =>
      simp only [WFV, wfV, okArrLen, okI32, Bool.and_eq_true, decide_eq_true_eq, List.all_eq_true] at h
      simp only [encV, List.cons_append, decV]
      rw [run_decArr (encI 4) (rdI 4) (inRange 4) (fun x r h => run_rdI 4 x r h) xs r h.1
        (fun x hx => (inRange_4 x).mpr (h.2 x hx))]; rfl
  | af xs =>
    intro f r h hf
    cases f with
    | zero => simp [szV] at hf
    | succ f =>
      simp only [WFV, wfV, okArrLen, okU32, Bool.and_eq_true, decide_eq_true_eq, List.all_eq_true] at h
      simp only [encV, List.cons_append, decV]
      rw [run_decArr (beN 4) (rdU 4) (fun n => n < 4294967296) (fun x r h => run_rdU 4 x r (by omega)) xs r h.1
        (fun x hx => h.2 x hx)]; rfl
  | «at» xs =>
    intro f r h hf
    cases f with
    | zero => simp [szV] at hf
    | succ f =>
      simp only [WFV, wfV, okArrLen, Bool.and_eq_true, decide_eq_true_eq, List.all_eq_true] at h
      simp only [encV, List.cons_append, decV]
      rw [run_decArr encBlob decBlob (fun bs => bs.length < 2147483648) (fun x r h => run_decBlob x r h) xs r h.1
        (fun x hx => ((wfBytes_iff x).mp (h.2 x hx)).2)]; rfl
  | al xs =>
    intro f r h hf
    cases f with
    | zero => simp [szV] at hf
    | succ f =>
      simp only [WFV, wfV, okArrLen, okI64, Bool.and_eq_true, decide_eq_true_eq, List.all_eq_true] at h
      simp only [encV, List.cons_append, decV]
      rw [run_decArr (encI 8) (rdI 8) (inRange 8) (fun x r h => run_rdI 8 x r h) xs r h.1
        (fun x hx => (inRange_8 x).mpr (h.2 x hx))]; rfl
  | map kvs =>
    intro f r h hf
    cases f with
    | zero => simp [szV] at hf
    | succ f =>
      simp only [WFV, wfV, okCount, Bool.and_eq_true, decide_eq_true_eq] at h
      have ih := decKVs_encKVs kvs [] f r h.1.2 (by simpa using h.2) (by simp only [szV] at hf; omega)
      simp only [encV, List.cons_append, List.append_assoc, decV]
      rw [run_decDecimal (kvs.length : Int) _ ((inRange_8 _).mpr (by omega))]
      simp only [Int.toNat_natCast, ih]; rfl
  | imap kvs =>
    intro f r h hf
    cases f with
    | zero => simp [szV] at hf
    | succ f =>
      simp only [WFV, wfV, okCount, Bool.and_eq_true, decide_eq_true_eq] at h
      have ih := decIKVs_encIKVs kvs [] f r h.1.2 (by simpa using h.2) (by simp only [szV] at hf; omega)
      simp only [encV, List.cons_append, List.append_assoc, decV]
      rw [run_decDecimal (kvs.length : Int) _ ((inRange_8 _).mpr (by omega))]
      simp only [Int.toNat_natCast, ih]; rfl
/-- `ListValue.Read`'s loop -/
theorem decVs_encVs (xs : List Value) : ∀ (f : Nat) (r : Bytes), WFVs xs → szVs xs ≤ f →
    decVs f xs.length (encVs xs ++ r) = some (xs, r) := by
  cases xs with
  | nil => intro f r _ _; cases f <;> simp [encVs, decVs]
  | cons x t =>
    intro f r h hf
    have p1 := szVs_pos t
    have p2 := szV_pos x
    cases f with
    | zero => simp only [szVs] at hf; omega
    | succ f =>
      simp only [WFVs, wfVs, Bool.and_eq_true] at h
      have h1 := decV_encV x f (encVs t ++ r) h.1 (by simp only [szVs] at hf; omega)
      have h2 := decVs_encVs t f r h.2 (by simp only [szVs] at hf; omega)
      simp only [encVs, List.length_cons, decVs, List.append_assoc, h1, h2]; rfl
/-- `MapValue.Read`'s loop, from any accumulated table whose keys are disjoint from the new ones -/
theorem decKVs_encKVs (kvs : List (Bytes × Value)) : ∀ (acc : List (Bytes × Value)) (f : Nat) (r : Bytes),
    WFKVs kvs → ((acc ++ kvs).map (·.1)).Nodup → szKVs kvs ≤ f →
    decKVs f kvs.length acc (encKVs kvs ++ r) = some (acc ++ kvs, r) := by
  cases kvs with
  | nil => intro acc f r _ _ _; cases f <;> simp [encKVs, decKVs]
  | cons kv t =>
    obtain ⟨k, v⟩ := kv
    intro acc f r h hn hf
    have p1 := szKVs_pos t
    have p2 := szV_pos v
    cases f with
    | zero => simp only [szKVs] at hf; omega
    | succ f =>
      simp only [WFKVs, wfKVs, Bool.and_eq_true] at h
      obtain ⟨⟨hk, hv⟩, ht⟩ := h
      obtain ⟨hnew, hn'⟩ := nodup_step acc k v t hn
      have h1 := decV_encV v f (encKVs t ++ r) hv (by simp only [szKVs] at hf; omega)
      have h2 := decKVs_encKVs t (acc ++ [(k, v)]) f r ht hn' (by simp only [szKVs] at hf; omega)
      simp only [encKVs, List.length_cons, decKVs, List.append_assoc]
      rw [run_decBlob k _ ((wfBytes_iff k).mp hk).2]
      simp only [h1, putKV_new acc k v hnew, h2, List.append_assoc, List.singleton_append]
/-- `IntMapValue.Read`'s loop -/
theorem decIKVs_encIKVs (kvs : List (Int × Value)) : ∀ (acc : List (Int × Value)) (f : Nat) (r : Bytes),
    WFIKVs kvs → ((acc ++ kvs).map (·.1)).Nodup → szIKVs kvs ≤ f →
    decIKVs f kvs.length acc (encIKVs kvs ++ r) = some (acc ++ kvs, r) := by
  cases kvs with
  | nil => intro acc f r _ _ _; cases f <;> simp [encIKVs, decIKVs]
  | cons kv t =>
    obtain ⟨k, v⟩ := kv
    intro acc f r h hn hf
    have p1 := szIKVs_pos t
    have p2 := szV_pos v
    cases f with
    | zero => simp only [szIKVs] at hf; omega
    | succ f =>
      simp only [WFIKVs, wfIKVs, okI32, Bool.and_eq_true, decide_eq_true_eq] at h
      obtain ⟨⟨hk, hv⟩, ht⟩ := h
      obtain ⟨hnew, hn'⟩ := nodup_step acc k v t hn
      have h1 := decV_encV v f (encIKVs t ++ r) hv (by simp only [szIKVs] at hf; omega)
      have h2 := decIKVs_encIKVs t (acc ++ [(k, v)]) f r ht hn' (by simp only [szIKVs] at hf; omega)
      simp only [encIKVs, List.length_cons, decIKVs, List.append_assoc]
      rw [run_rdI 4 k _ ((inRange_4 k).mpr hk)]
      simp only [h1, putKV_new acc k v hnew, h2, List.append_assoc, List.singleton_append]
end

end Value
