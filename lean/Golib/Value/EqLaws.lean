/-
  Golib.Value.EqLaws — `Equals` is an equivalence on well-formed values without NaN, and
  `CompareTo = 0 ⇔ Equals` for every pair of values whatsoever.
-/
import Golib.Value.CmpRec

namespace Value

/-! ### association lists related entry by entry -/

theorem relKV_refl {K : Type} [DecidableEq K] (R : Value → Value → Prop) (a : List (K × Value))
    (hn : (a.map (·.1)).Nodup) (h : ∀ p ∈ a, R p.2 p.2) : relKV R a a := by
  intro p hp
  exact ⟨p.2, lookupKV_of_mem_nodup p.1 a p.2 hp hn, h p hp⟩

theorem relKV_trans {K : Type} [DecidableEq K] (R S T : Value → Value → Prop) (a b c : List (K × Value))
    (hab : relKV R a b) (hbc : relKV S b c) (h : ∀ p ∈ a, ∀ w u, R p.2 w → S w u → T p.2 u) : relKV T a c := by
  intro p hp
  obtain ⟨w, hw, hr⟩ := hab p hp
  obtain ⟨u, hu, hs⟩ := hbc (p.1, w) (lookupKV_some_mem _ _ _ hw)
  exact ⟨u, hu, h p hp w u hr hs⟩

/-- pigeonhole: a list without repetitions inside a list that is not longer covers it -/
theorem subset_of_nodup_length {α : Type} [DecidableEq α] (l₁ l₂ : List α) (hn : l₁.Nodup)
    (hs : ∀ x ∈ l₁, x ∈ l₂) (hl : l₂.length ≤ l₁.length) : ∀ y ∈ l₂, y ∈ l₁ := by
  induction l₁ generalizing l₂ with
  | nil =>
    intro y hy
    have : l₂ = [] := List.eq_nil_of_length_eq_zero (by simpa using hl)
    rw [this] at hy; cases hy
  | cons x t ih =>
    simp only [List.nodup_cons] at hn
    intro y hy
    by_cases e : y = x
    · rw [e]; simp
    · have hx : x ∈ l₂ := hs x (by simp)
      have := ih (l₂.erase x) hn.2
        (fun z hz => by
          have hz2 : z ∈ l₂ := hs z (by simp [hz])
          have hne : z ≠ x := fun e' => hn.1 (e' ▸ hz)
          exact (List.mem_erase_of_ne hne).mpr hz2)
        (by rw [List.length_erase_of_mem hx]; simp at hl; omega)
        y ((List.mem_erase_of_ne e).mpr hy)
      exact List.mem_cons_of_mem _ this

theorem relKV_symm {K : Type} [DecidableEq K] (R S : Value → Value → Prop) (a b : List (K × Value))
    (hl : a.length = b.length) (hna : (a.map (·.1)).Nodup) (hnb : (b.map (·.1)).Nodup)
    (hab : relKV R a b) (h : ∀ p ∈ a, ∀ w, lookupKV p.1 b = some w → R p.2 w → S w p.2) : relKV S b a := by
  have hsub : ∀ k ∈ a.map (·.1), k ∈ b.map (·.1) := by
    intro k hk
    obtain ⟨p, hp, rfl⟩ := List.mem_map.mp hk
    obtain ⟨w, hw, _⟩ := hab p hp
    exact List.mem_map.mpr ⟨(p.1, w), lookupKV_some_mem _ _ _ hw, rfl⟩
  have hback := subset_of_nodup_length (a.map (·.1)) (b.map (·.1)) hna hsub (by simp [hl])
  intro q hq
  obtain ⟨p, hp, hpk⟩ := List.mem_map.mp (hback q.1 (List.mem_map.mpr ⟨q, hq, rfl⟩))
  obtain ⟨w, hw, hr⟩ := hab p hp
  have hq' : lookupKV p.1 b = some q.2 := by
    apply lookupKV_of_mem_nodup _ _ _ _ hnb
    rw [hpk]; exact hq
  have hw0 := hw
  rw [hq'] at hw; cases hw
  refine ⟨p.2, ?_, h p hp _ hw0 hr⟩
  rw [← hpk]
  exact lookupKV_of_mem_nodup _ _ _ hp hna

/-! ### `CompareTo = 0 ⇔ Equals` -/

theorem firstNZ_rel {K : Type} [DecidableEq K] (a b : List (K × Value))
    (ih : ∀ p ∈ a, ∀ w, cmpV p.2 w = 0 ↔ eqV p.2 w = true) :
    firstNZ (a.map (fun p => match lookupKV p.1 b with | none => 1 | some w => cmpV p.2 w)) = 0 ↔
      relKV (fun v w => eqV v w = true) a b := by
  rw [firstNZ_zero]
  unfold relKV
  constructor
  · intro h p hp
    have := h _ (List.mem_map.mpr ⟨p, hp, rfl⟩)
    cases hl : lookupKV p.1 b with
    | none => rw [hl] at this; simp at this
    | some w => rw [hl] at this; exact ⟨w, rfl, (ih p hp w).mp this⟩
  · intro h x hx
    obtain ⟨p, hp, rfl⟩ := List.mem_map.mp hx
    obtain ⟨w, hw, he⟩ := h p hp
    simp only [hw]
    exact (ih p hp w).mpr he

theorem cmpV_zero_iff_eqV (a : Value) : ∀ b, cmpV a b = 0 ↔ eqV a b = true := by
  apply value_ind (fun a => ∀ b, cmpV a b = 0 ↔ eqV a b = true)
  · intro a hf b
    rw [cmpV_flat a b hf, eqV_flat a b hf]; exact cmpFlat_zero_iff_eq a b
  · intro xs ih b
    by_cases ht : tag (.list xs) = tag b
    · obtain ⟨ys, rfl⟩ := tag_list b ht.symm
      rw [cmpV_list, eqV_list]
      by_cases hl : xs.length = ys.length
      · simp only [hl, ne_eq, not_true_eq_false, ↓reduceIte, beq_self_eq_true, Bool.true_and]
        rw [cmpVs_eq_lexBy xs ys hl, lexBy_eq_zero_idx, eqVs_iff xs ys hl]
        constructor
        · intro ⟨_, h⟩ i h1 h2; exact (ih _ (List.getElem_mem h1) _).mp (h i h1 h2)
        · intro h; exact ⟨hl, fun i h1 h2 => (ih _ (List.getElem_mem h1) _).mpr (h i h1 h2)⟩
      · simp only [ne_eq, hl, not_false_eq_true, ↓reduceIte]
        have : (xs.length == ys.length) = false := by simpa using hl
        simp only [this, Bool.false_and]
        constructor
        · intro h; omega
        · intro h; cases h
    · rw [cmpV_tag_ne _ _ ht, eqV_tag_ne _ _ ht]
      constructor
      · intro h; exfalso; apply ht; omega
      · intro h; cases h
  · intro a ih b
    by_cases ht : tag (.map a) = tag b
    · obtain ⟨b', rfl⟩ := tag_map b ht.symm
      rw [cmpV_map, eqV_map]
      by_cases hl : a.length = b'.length
      · simp only [hl, ne_eq, not_true_eq_false, ↓reduceIte, beq_self_eq_true, Bool.true_and]
        rw [cmpKVs_eq, eqKVs_iff]; exact firstNZ_rel a b' ih
      · simp only [ne_eq, hl, not_false_eq_true, ↓reduceIte]
        have : (a.length == b'.length) = false := by simpa using hl
        simp only [this, Bool.false_and]
        constructor
        · intro h; omega
        · intro h; cases h
    · rw [cmpV_tag_ne _ _ ht, eqV_tag_ne _ _ ht]
      constructor
      · intro h; exfalso; apply ht; omega
      · intro h; cases h
  · intro a ih b
    by_cases ht : tag (.imap a) = tag b
    · obtain ⟨b', rfl⟩ := tag_imap b ht.symm
      rw [cmpV_imap, eqV_imap]
      by_cases hl : a.length = b'.length
      · simp only [hl, ne_eq, not_true_eq_false, ↓reduceIte, beq_self_eq_true, Bool.true_and]
        rw [cmpIKVs_eq, eqIKVs_iff]; exact firstNZ_rel a b' ih
      · simp only [ne_eq, hl, not_false_eq_true, ↓reduceIte]
        have : (a.length == b'.length) = false := by simpa using hl
        simp only [this, Bool.false_and]
        constructor
        · intro h; omega
        · intro h; cases h
    · rw [cmpV_tag_ne _ _ ht, eqV_tag_ne _ _ ht]
      constructor
      · intro h; exfalso; apply ht; omega
      · intro h; cases h

end Value

namespace Value

/-! ### flat types -/

theorem eqFlat_refl (a : Value) (hn : NoNaN a) : eqFlat a a = true := by
  rw [← cmpFlat_zero_iff_eq]
  have := cmpFlat_AS a a hn hn
  unfold AS at this; omega

theorem eqFlat_trans (a b c : Value) (ha : NoNaN a) (hb : NoNaN b) (hc : NoNaN c)
    (h1 : eqFlat a b = true) (h2 : eqFlat b c = true) : eqFlat a c = true := by
  rw [← cmpFlat_zero_iff_eq] at *
  exact (cmpFlat_Tr a b c ha hb hc).2.2.2 h1 h2

theorem fEq_symm (sign inf a b : Nat) : fEq sign inf a b = fEq sign inf b a := by
  unfold fEq
  cases fNaN sign inf a <;> cases fNaN sign inf b <;> simp
  exact eq_comm

theorem cmpOf_zero_symm (lt : α → α → Bool) (x y : α) : cmpOf lt x y = 0 ↔ cmpOf lt y x = 0 := by
  unfold cmpOf
  cases lt x y <;> cases lt y x <;> simp

theorem lexBy_zero_symm (c : α → β → Int) (c' : β → α → Int) (h : ∀ x y, c x y = 0 ↔ c' y x = 0)
    (xs : List α) (ys : List β) : lexBy c xs ys = 0 ↔ lexBy c' ys xs = 0 := by
  rw [lexBy_eq_zero_idx, lexBy_eq_zero_idx]
  constructor
  · intro ⟨hl, hp⟩; exact ⟨hl.symm, fun i h1 h2 => (h _ _).mp (hp i h2 h1)⟩
  · intro ⟨hl, hp⟩; exact ⟨hl.symm, fun i h1 h2 => (h _ _).mpr (hp i h2 h1)⟩

theorem cmpSeq_zero_symm (lt : α → α → Bool) (xs ys : List α) : cmpSeq lt xs ys = 0 ↔ cmpSeq lt ys xs = 0 :=
  lexBy_zero_symm _ _ (cmpOf_zero_symm lt) xs ys

/-- symmetry of `Equals` on the flat types holds for every pair, NaNs included -/
theorem eqFlat_symm (a b : Value) (h : eqFlat a b = true) : eqFlat b a = true := by
  by_cases ht : tag a = tag b
  · cases a <;> cases b <;> (try (simp [tag] at ht; done))
    all_goals simp only [eqFlat, tag, ne_eq, not_true_eq_false, ↓reduceIte] at h ⊢
    case bool.bool => simp only [beq_iff_eq] at h ⊢; exact h.symm
    case dec.dec => simp only [beq_iff_eq] at h ⊢; exact h.symm
    case int.int => simp only [beq_iff_eq] at h ⊢; exact h.symm
    case long.long => simp only [beq_iff_eq] at h ⊢; exact h.symm
    case hash.hash => simp only [beq_iff_eq] at h ⊢; exact h.symm
    case text.text => simp only [beq_iff_eq] at h ⊢; exact h.symm
    case f32.f32 => unfold eq32 at *; rw [fEq_symm]; exact h
    case f64.f64 => unfold eq64 at *; rw [fEq_symm]; exact h
    case dsum.dsum =>
      unfold eq64 at *; rw [fEq_symm]
      simp only [Bool.and_eq_true, beq_iff_eq] at h ⊢
      exact ⟨h.1, h.2.symm⟩
    case lsum.lsum =>
      simp only [Bool.and_eq_true, beq_iff_eq] at h ⊢
      exact ⟨h.1.symm, h.2.symm⟩
    case blob.blob => simp only [beq_iff_eq] at h ⊢; exact (cmpSeq_zero_symm _ _ _).mp h
    case ip4.ip4 => simp only [beq_iff_eq] at h ⊢; exact (cmpSeq_zero_symm _ _ _).mp h
    case ai.ai => simp only [beq_iff_eq] at h ⊢; exact (cmpSeq_zero_symm _ _ _).mp h
    case al.al => simp only [beq_iff_eq] at h ⊢; exact (cmpSeq_zero_symm _ _ _).mp h
    case af.af => simp only [beq_iff_eq] at h ⊢; exact (cmpSeq_zero_symm _ _ _).mp h
    case at.at =>
      simp only [beq_iff_eq] at h ⊢
      exact (lexBy_zero_symm cmpStr cmpStr (fun x y => by rw [cmpStr_zero, cmpStr_zero]; exact eq_comm) _ _).mp h
  · unfold eqFlat at h; simp [ht] at h

/-! ### the three laws -/

theorem eqV_refl (a : Value) : WFV a → NoNaN a → eqV a a = true := by
  apply value_ind (fun a => WFV a → NoNaN a → eqV a a = true)
  · intro a hf _ hn; rw [eqV_flat a a hf]; exact eqFlat_refl a hn
  · intro xs ih hw hn
    simp only [WFV, wfV, Bool.and_eq_true] at hw
    simp only [NoNaN, noNaN] at hn
    rw [eqV_list]
    simp only [beq_self_eq_true, Bool.true_and]
    rw [eqVs_iff xs xs rfl]
    intro i h1 _
    exact ih _ (List.getElem_mem h1) ((wfVs_iff xs).mp hw.2 _ (List.getElem_mem h1))
      ((noNaNs_iff xs).mp hn _ (List.getElem_mem h1))
  · intro a ih hw hn
    simp only [WFV, wfV, Bool.and_eq_true, decide_eq_true_eq] at hw
    simp only [NoNaN, noNaN] at hn
    rw [eqV_map]
    simp only [beq_self_eq_true, Bool.true_and]
    rw [eqKVs_iff]
    exact relKV_refl _ a hw.2 (fun p hp => ih p hp (wfKVs_mem a hw.1.2 p hp) (noNaNKVs_mem a hn p hp))
  · intro a ih hw hn
    simp only [WFV, wfV, Bool.and_eq_true, decide_eq_true_eq] at hw
    simp only [NoNaN, noNaN] at hn
    rw [eqV_imap]
    simp only [beq_self_eq_true, Bool.true_and]
    rw [eqIKVs_iff]
    exact relKV_refl _ a hw.2 (fun p hp => ih p hp (wfIKVs_mem a hw.1.2 p hp) (noNaNIKVs_mem a hn p hp))

theorem eqV_symm (a : Value) : ∀ b, WFV a → WFV b → eqV a b = true → eqV b a = true := by
  apply value_ind (fun a => ∀ b, WFV a → WFV b → eqV a b = true → eqV b a = true)
  · intro a hf b _ _ h
    by_cases ht : tag a = tag b
    · rw [eqV_flat a b hf] at h
      rw [eqV_flat b a (isFlat_of_tag a b ht hf)]; exact eqFlat_symm a b h
    · rw [eqV_tag_ne a b ht] at h; cases h
  · intro xs ih b hwa hwb h
    by_cases ht : tag (.list xs) = tag b
    · obtain ⟨ys, rfl⟩ := tag_list b ht.symm
      simp only [WFV, wfV, Bool.and_eq_true] at hwa hwb
      rw [eqV_list] at h ⊢
      simp only [Bool.and_eq_true, beq_iff_eq] at h ⊢
      refine ⟨h.1.symm, ?_⟩
      rw [eqVs_iff ys xs h.1.symm]
      intro i h1 h2
      exact ih _ (List.getElem_mem h2) _ ((wfVs_iff xs).mp hwa.2 _ (List.getElem_mem h2))
        ((wfVs_iff ys).mp hwb.2 _ (List.getElem_mem h1)) ((eqVs_iff xs ys h.1).mp h.2 i h2 h1)
    · rw [eqV_tag_ne _ _ ht] at h; cases h
  · intro a ih b hwa hwb h
    by_cases ht : tag (.map a) = tag b
    · obtain ⟨b', rfl⟩ := tag_map b ht.symm
      simp only [WFV, wfV, Bool.and_eq_true, decide_eq_true_eq] at hwa hwb
      rw [eqV_map] at h ⊢
      simp only [Bool.and_eq_true, beq_iff_eq] at h ⊢
      refine ⟨h.1.symm, ?_⟩
      rw [eqKVs_iff] at h ⊢
      refine relKV_symm _ _ a b' h.1 hwa.2 hwb.2 h.2 (fun p hp w hl hr => ?_)
      exact ih p hp w (wfKVs_mem a hwa.1.2 p hp)
        (wfKVs_mem b' hwb.1.2 (p.1, w) (lookupKV_some_mem _ _ _ hl)) hr
    · rw [eqV_tag_ne _ _ ht] at h; cases h
  · intro a ih b hwa hwb h
    by_cases ht : tag (.imap a) = tag b
    · obtain ⟨b', rfl⟩ := tag_imap b ht.symm
      simp only [WFV, wfV, Bool.and_eq_true, decide_eq_true_eq] at hwa hwb
      rw [eqV_imap] at h ⊢
      simp only [Bool.and_eq_true, beq_iff_eq] at h ⊢
      refine ⟨h.1.symm, ?_⟩
      rw [eqIKVs_iff] at h ⊢
      refine relKV_symm _ _ a b' h.1 hwa.2 hwb.2 h.2 (fun p hp w hl hr => ?_)
      exact ih p hp w (wfIKVs_mem a hwa.1.2 p hp)
        (wfIKVs_mem b' hwb.1.2 (p.1, w) (lookupKV_some_mem _ _ _ hl)) hr
    · rw [eqV_tag_ne _ _ ht] at h; cases h

end Value

namespace Value

theorem eqV_trans (a : Value) : ∀ b c, NoNaN a → NoNaN b → NoNaN c →
    eqV a b = true → eqV b c = true → eqV a c = true := by
  apply value_ind (fun a => ∀ b c, NoNaN a → NoNaN b → NoNaN c →
    eqV a b = true → eqV b c = true → eqV a c = true)
  · intro a hf b c ha hb hc h1 h2
    by_cases ht : tag a = tag b
    · have hfb := isFlat_of_tag a b ht hf
      rw [eqV_flat a b hf] at h1
      rw [eqV_flat b c hfb] at h2
      rw [eqV_flat a c hf]
      exact eqFlat_trans a b c ha hb hc h1 h2
    · rw [eqV_tag_ne a b ht] at h1; cases h1
  · intro xs ih b c ha hb hc h1 h2
    by_cases ht : tag (.list xs) = tag b
    · obtain ⟨ys, rfl⟩ := tag_list b ht.symm
      by_cases ht2 : tag (.list ys) = tag c
      · obtain ⟨zs, rfl⟩ := tag_list c ht2.symm
        simp only [NoNaN, noNaN] at ha hb hc
        rw [eqV_list] at h1 h2 ⊢
        simp only [Bool.and_eq_true, beq_iff_eq] at h1 h2 ⊢
        refine ⟨h1.1.trans h2.1, ?_⟩
        rw [eqVs_iff xs zs (h1.1.trans h2.1)]
        intro i hx hz
        have hy : i < ys.length := by omega
        exact ih _ (List.getElem_mem hx) ys[i] zs[i]
          ((noNaNs_iff xs).mp ha _ (List.getElem_mem hx)) ((noNaNs_iff ys).mp hb _ (List.getElem_mem hy))
          ((noNaNs_iff zs).mp hc _ (List.getElem_mem hz))
          ((eqVs_iff xs ys h1.1).mp h1.2 i hx hy) ((eqVs_iff ys zs h2.1).mp h2.2 i hy hz)
      · rw [eqV_tag_ne _ _ ht2] at h2; cases h2
    · rw [eqV_tag_ne _ _ ht] at h1; cases h1
  · intro a ih b c ha hb hc h1 h2
    by_cases ht : tag (.map a) = tag b
    · obtain ⟨b', rfl⟩ := tag_map b ht.symm
      by_cases ht2 : tag (.map b') = tag c
      · obtain ⟨c', rfl⟩ := tag_map c ht2.symm
        simp only [NoNaN, noNaN] at ha hb hc
        rw [eqV_map] at h1 h2 ⊢
        simp only [Bool.and_eq_true, beq_iff_eq] at h1 h2 ⊢
        refine ⟨h1.1.trans h2.1, ?_⟩
        rw [eqKVs_iff] at h1 h2 ⊢
        intro p hp
        obtain ⟨w, hw, hr⟩ := h1.2 p hp
        have hwm := lookupKV_some_mem _ _ _ hw
        obtain ⟨u, hu, hs⟩ := h2.2 (p.1, w) hwm
        exact ⟨u, hu, ih p hp w u (noNaNKVs_mem a ha p hp) (noNaNKVs_mem b' hb _ hwm)
          (noNaNKVs_mem c' hc _ (lookupKV_some_mem _ _ _ hu)) hr hs⟩
      · rw [eqV_tag_ne _ _ ht2] at h2; cases h2
    · rw [eqV_tag_ne _ _ ht] at h1; cases h1
  · intro a ih b c ha hb hc h1 h2
    by_cases ht : tag (.imap a) = tag b
    · obtain ⟨b', rfl⟩ := tag_imap b ht.symm
      by_cases ht2 : tag (.imap b') = tag c
      · obtain ⟨c', rfl⟩ := tag_imap c ht2.symm
        simp only [NoNaN, noNaN] at ha hb hc
        rw [eqV_imap] at h1 h2 ⊢
        simp only [Bool.and_eq_true, beq_iff_eq] at h1 h2 ⊢
        refine ⟨h1.1.trans h2.1, ?_⟩
        rw [eqIKVs_iff] at h1 h2 ⊢
        intro p hp
        obtain ⟨w, hw, hr⟩ := h1.2 p hp
        have hwm := lookupKV_some_mem _ _ _ hw
        obtain ⟨u, hu, hs⟩ := h2.2 (p.1, w) hwm
        exact ⟨u, hu, ih p hp w u (noNaNIKVs_mem a ha p hp) (noNaNIKVs_mem b' hb _ hwm)
          (noNaNIKVs_mem c' hc _ (lookupKV_some_mem _ _ _ hu)) hr hs⟩
      · rw [eqV_tag_ne _ _ ht2] at h2; cases h2
    · rw [eqV_tag_ne _ _ ht] at h1; cases h1

end Value
