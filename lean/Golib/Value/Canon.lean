/-
  Golib.Value.Canon — what `Equals` decides, in terms of the value itself and of its encoding.

    rigid v      every type whose `Equals` is structural: null, bool, the integer types, text, text
                 hash, blob, IPv4, int / long / text arrays, lists of those            eqV a b ⇔ a = b ⇔ same bytes
    canon v      for values without maps: −0 ↦ +0 in floats, min / max of summaries dropped
                 (`Equals` of a summary looks at sum and count only)                     eqV a b ⇔ canon a = canon b
-/
import Golib.Value.CmpLaws

namespace Value

/-! ### rigid values: Equals is equality -/

mutual
def rigid : Value → Bool
  | .null => true | .bool _ => true | .dec _ => true | .int _ => true | .long _ => true
  | .text _ => true | .hash _ => true | .blob _ => true | .ip4 _ => true
  | .ai _ => true | .at _ => true | .al _ => true
  | .list xs => rigids xs
  | _ => false
def rigids : List Value → Bool
  | [] => true
  | x :: xs => rigid x && rigids xs
end

theorem rigids_iff (xs : List Value) : rigids xs = true ↔ ∀ x ∈ xs, rigid x = true := by
  induction xs with
  | nil => simp [rigids]
  | cons x t ih => simp [rigids, ih]

theorem cmpStrs_zero (xs ys : List Bytes) : cmpStrs xs ys = 0 ↔ xs = ys := by
  unfold cmpStrs
  rw [lexBy_eq_zero_idx]
  constructor
  · intro ⟨hl, hp⟩
    exact List.ext_getElem hl (fun i h1 h2 => (cmpStr_zero _ _).mp (hp i h1 h2))
  · intro h; subst h
    exact ⟨rfl, fun i h1 _ => (cmpStr_zero _ _).mpr rfl⟩

theorem eqFlat_iff_eq_of_rigid (a b : Value) (hf : isFlat a = true) (hr : rigid a = true) :
    eqFlat a b = true ↔ a = b := by
  by_cases ht : tag a = tag b
  · cases a <;> cases b <;> (try (simp [tag] at ht; done)) <;> (try (simp [rigid] at hr; done)) <;>
      (try (simp [isFlat] at hf; done))
    all_goals simp only [eqFlat, tag, ne_eq, not_true_eq_false, ↓reduceIte]
    all_goals first
      | (simp; done)
      | (rw [beq_iff_eq, cmpSeq_ltNat_zero]; constructor <;> (intro h; first | rw [h] | (injection h)))
      | (rw [beq_iff_eq, cmpSeq_ltInt_zero]; constructor <;> (intro h; first | rw [h] | (injection h)))
      | (rw [beq_iff_eq, cmpStrs_zero]; constructor <;> (intro h; first | rw [h] | (injection h)))
  · constructor
    · intro h; unfold eqFlat at h; simp [ht] at h
    · intro h; exact absurd (by rw [h]) ht

/-- on rigid values `Equals` is equality -/
theorem eqV_iff_eq_of_rigid (a : Value) : ∀ b, rigid a = true → (eqV a b = true ↔ a = b) := by
  apply value_ind (fun a => ∀ b, rigid a = true → (eqV a b = true ↔ a = b))
  · intro a hf b hr; rw [eqV_flat a b hf]; exact eqFlat_iff_eq_of_rigid a b hf hr
  · intro xs ih b hr
    simp only [rigid] at hr
    by_cases ht : tag (.list xs) = tag b
    · obtain ⟨ys, rfl⟩ := tag_list b ht.symm
      rw [eqV_list]
      simp only [Bool.and_eq_true, beq_iff_eq]
      constructor
      · intro ⟨hl, he⟩
        congr 1
        apply List.ext_getElem hl
        intro i h1 h2
        exact (ih _ (List.getElem_mem h1) _ ((rigids_iff xs).mp hr _ (List.getElem_mem h1))).mp
          ((eqVs_iff xs ys hl).mp he i h1 h2)
      · intro h
        injection h with h; subst h
        refine ⟨rfl, (eqVs_iff xs xs rfl).mpr (fun i h1 _ => ?_)⟩
        exact (ih _ (List.getElem_mem h1) _ ((rigids_iff xs).mp hr _ (List.getElem_mem h1))).mpr rfl
    · constructor
      · intro h; rw [eqV_tag_ne _ _ ht] at h; cases h
      · intro h; exact absurd (by rw [h]) ht
  · intro a _ b hr; simp [rigid] at hr
  · intro a _ b hr; simp [rigid] at hr

/-- … hence equality of the encodings: `Equals` decides "same bytes on the wire" -/
theorem eqV_iff_enc_of_rigid (a b : Value) (ha : WFV a) (hb : WFV b) (hr : rigid a = true) :
    eqV a b = true ↔ encV a = encV b := by
  rw [eqV_iff_eq_of_rigid a b hr]
  exact ⟨fun h => by rw [h], encV_inj a b ha hb⟩

/-- for all well-formed NaN-free values: the same bytes are Equal -/
theorem eqV_of_enc_eq (a b : Value) (ha : WFV a) (hb : WFV b) (hn : NoNaN a) (h : encV a = encV b) :
    eqV a b = true := by
  have := encV_inj a b ha hb h
  subst this
  exact eqV_refl a ha hn

end Value

namespace Value

/-! ### canonical forms of map-free values -/

/-- −0 ↦ +0 -/
def normF (sign : Nat) (b : Nat) : Nat := if b = sign then 0 else b

mutual
def canon : Value → Value
  | .f32 b => .f32 (normF S32 b)
  | .f64 b => .f64 (normF S64 b)
  | .dsum s c _ _ => .dsum (normF S64 s) c 0 0
  | .lsum s c _ _ => .lsum s c 0 0
  | .af xs => .af (xs.map (normF S32))
  | .list xs => .list (canons xs)
  | .null => .null
  | .bool b => .bool b
  | .dec v => .dec v
  | .int v => .int v
  | .long v => .long v
  | .text v => .text v
  | .hash v => .hash v
  | .blob v => .blob v
  | .ip4 v => .ip4 v
  | .ai v => .ai v
  | .at v => .at v
  | .al v => .al v
  | .map kvs => .map kvs
  | .imap kvs => .imap kvs
def canons : List Value → List Value
  | [] => []
  | x :: xs => canon x :: canons xs
end

theorem canons_length (xs : List Value) : (canons xs).length = xs.length := by
  induction xs with
  | nil => rfl
  | cons x t ih => simp [canons, ih]

theorem canons_getElem (xs : List Value) (i : Nat) (h : i < xs.length) :
    (canons xs)[i]'(by rw [canons_length]; exact h) = canon xs[i] := by
  induction xs generalizing i with
  | nil => simp at h
  | cons x t ih =>
    cases i with
    | zero => simp [canons]
    | succ i => simp only [canons, List.getElem_cons_succ]; exact ih i (by simpa using h)

theorem fKey_eq_iff (sign x y : Nat) (hx : x < 2 * sign) (hy : y < 2 * sign) :
    fKey sign x = fKey sign y ↔ normF sign x = normF sign y := by
  unfold fKey normF
  split <;> split <;> split <;> split <;> omega

theorem fEq_iff_norm (sign inf x y : Nat) (hx : x < 2 * sign) (hy : y < 2 * sign)
    (nx : fNaN sign inf x = false) (ny : fNaN sign inf y = false) :
    fEq sign inf x y = true ↔ normF sign x = normF sign y := by
  rw [fEq_key _ _ _ _ nx ny, decide_eq_true_eq]; exact fKey_eq_iff sign x y hx hy

theorem cmpOf_lt32_zero_iff (x y : Nat) (hx : x < 4294967296) (hy : y < 4294967296)
    (nx : nan32 x = false) (ny : nan32 y = false) : cmpOf lt32 x y = 0 ↔ normF S32 x = normF S32 y := by
  unfold cmpOf lt32
  rw [fLt_key _ _ _ _ nx ny, fLt_key _ _ _ _ ny nx, ← fKey_eq_iff S32 x y (by unfold S32; omega) (by unfold S32; omega)]
  simp only [decide_eq_true_eq]
  split <;> (try split) <;> omega

theorem cmpSeq_lt32_zero_iff (xs ys : List Nat) (hx : ∀ x ∈ xs, x < 4294967296) (hy : ∀ y ∈ ys, y < 4294967296)
    (nx : ∀ x ∈ xs, nan32 x = false) (ny : ∀ y ∈ ys, nan32 y = false) :
    cmpSeq lt32 xs ys = 0 ↔ xs.map (normF S32) = ys.map (normF S32) := by
  unfold cmpSeq
  rw [lexBy_eq_zero_idx]
  constructor
  · intro ⟨hl, hp⟩
    apply List.ext_getElem (by simpa using hl)
    intro i h1 h2
    simp only [List.length_map] at h1 h2
    simp only [List.getElem_map]
    exact (cmpOf_lt32_zero_iff _ _ (hx _ (List.getElem_mem h1)) (hy _ (List.getElem_mem h2))
      (nx _ (List.getElem_mem h1)) (ny _ (List.getElem_mem h2))).mp (hp i h1 h2)
  · intro h
    have hl : xs.length = ys.length := by simpa using congrArg List.length h
    refine ⟨hl, fun i h1 h2 => ?_⟩
    have : (xs.map (normF S32))[i]'(by simpa using h1) = (ys.map (normF S32))[i]'(by simpa using h2) := by
      simp only [h]
    simp only [List.getElem_map] at this
    exact (cmpOf_lt32_zero_iff _ _ (hx _ (List.getElem_mem h1)) (hy _ (List.getElem_mem h2))
      (nx _ (List.getElem_mem h1)) (ny _ (List.getElem_mem h2))).mpr this

end Value

namespace Value

theorem tag_canon (v : Value) : tag (canon v) = tag v := by cases v <;> simp [canon, tag]

theorem all_lt_of {xs : List Nat} (h : xs.all okU32 = true) : ∀ x ∈ xs, x < 4294967296 := by
  intro x hx
  have := List.all_eq_true.mp h x hx
  simpa [okU32] using this

theorem eqFlat_iff_canon (a b : Value) (hf : isFlat a = true) (hwa : WFV a) (hwb : WFV b)
    (hna : NoNaN a) (hnb : NoNaN b) : eqFlat a b = true ↔ canon a = canon b := by
  by_cases ht : tag a = tag b
  · cases a <;> cases b <;> (try (simp [tag] at ht; done)) <;> (try (simp [isFlat] at hf; done))
    all_goals simp only [eqFlat, canon, tag, ne_eq, not_true_eq_false, ↓reduceIte]
    case f32.f32 =>
      simp only [WFV, wfV, okU32, decide_eq_true_eq] at hwa hwb
      simp only [NoNaN, noNaN, Bool.not_eq_true'] at hna hnb
      unfold eq32
      rw [fEq_iff_norm S32 I32 _ _ (by unfold S32; omega) (by unfold S32; omega) hna hnb]
      simp
    case f64.f64 =>
      simp only [WFV, wfV, okU64, decide_eq_true_eq] at hwa hwb
      simp only [NoNaN, noNaN, Bool.not_eq_true'] at hna hnb
      unfold eq64
      rw [fEq_iff_norm S64 I64 _ _ (by unfold S64; omega) (by unfold S64; omega) hna hnb]
      simp
    case dsum.dsum =>
      simp only [WFV, wfV, okU64, Bool.and_eq_true, decide_eq_true_eq] at hwa hwb
      simp only [NoNaN, noNaN, Bool.not_eq_true'] at hna hnb
      unfold eq64
      simp only [Bool.and_eq_true, beq_iff_eq]
      rw [fEq_iff_norm S64 I64 _ _ (by unfold S64; omega) (by unfold S64; omega) hna hnb]
      simp
    case af.af =>
      simp only [WFV, wfV, Bool.and_eq_true] at hwa hwb
      simp only [NoNaN, noNaN] at hna hnb
      rw [beq_iff_eq, cmpSeq_lt32_zero_iff _ _ (all_lt_of hwa.2) (all_lt_of hwb.2) (all_not_nan hna) (all_not_nan hnb)]
      simp
    case blob.blob => rw [beq_iff_eq, cmpSeq_ltNat_zero]; simp
    case ip4.ip4 => rw [beq_iff_eq, cmpSeq_ltNat_zero]; simp
    case ai.ai => rw [beq_iff_eq, cmpSeq_ltInt_zero]; simp
    case al.al => rw [beq_iff_eq, cmpSeq_ltInt_zero]; simp
    case at.at => rw [beq_iff_eq, cmpStrs_zero]; simp
    all_goals simp
  · constructor
    · intro h; unfold eqFlat at h; simp [ht] at h
    · intro h
      have := congrArg tag h
      rw [tag_canon, tag_canon] at this
      exact absurd this ht

/-- on well-formed NaN-free values without maps, `Equals` is equality of canonical forms
    (−0 = +0; summaries by sum and count) -/
theorem eqV_iff_canon (a : Value) : ∀ b, WFV a → WFV b → NoNaN a → NoNaN b → mapFree a = true →
    (eqV a b = true ↔ canon a = canon b) := by
  apply value_ind (fun a => ∀ b, WFV a → WFV b → NoNaN a → NoNaN b → mapFree a = true →
    (eqV a b = true ↔ canon a = canon b))
  · intro a hf b hwa hwb hna hnb _
    rw [eqV_flat a b hf]; exact eqFlat_iff_canon a b hf hwa hwb hna hnb
  · intro xs ih b hwa hwb hna hnb hm
    by_cases ht : tag (.list xs) = tag b
    · obtain ⟨ys, rfl⟩ := tag_list b ht.symm
      simp only [WFV, wfV, Bool.and_eq_true] at hwa hwb
      simp only [NoNaN, noNaN] at hna hnb
      simp only [mapFree] at hm
      rw [eqV_list]
      simp only [canon, Bool.and_eq_true, beq_iff_eq, list.injEq]
      have key : ∀ i (h1 : i < xs.length) (h2 : i < ys.length),
          eqV xs[i] ys[i] = true ↔ canon xs[i] = canon ys[i] := fun i h1 h2 =>
        ih _ (List.getElem_mem h1) _ ((wfVs_iff xs).mp hwa.2 _ (List.getElem_mem h1))
          ((wfVs_iff ys).mp hwb.2 _ (List.getElem_mem h2)) ((noNaNs_iff xs).mp hna _ (List.getElem_mem h1))
          ((noNaNs_iff ys).mp hnb _ (List.getElem_mem h2)) ((mapFrees_iff xs).mp hm _ (List.getElem_mem h1))
      constructor
      · intro ⟨hl, he⟩
        apply List.ext_getElem (by rw [canons_length, canons_length]; exact hl)
        intro i h1 h2
        rw [canons_length] at h1 h2
        rw [canons_getElem xs i h1, canons_getElem ys i h2]
        exact (key i h1 h2).mp ((eqVs_iff xs ys hl).mp he i h1 h2)
      · intro h
        have hl : xs.length = ys.length := by
          have := congrArg List.length h
          rwa [canons_length, canons_length] at this
        refine ⟨hl, (eqVs_iff xs ys hl).mpr (fun i h1 h2 => (key i h1 h2).mpr ?_)⟩
        have : (canons xs)[i]'(by rw [canons_length]; exact h1) = (canons ys)[i]'(by rw [canons_length]; exact h2) := by
          simp only [h]
        rwa [canons_getElem xs i h1, canons_getElem ys i h2] at this
    · constructor
      · intro h; rw [eqV_tag_ne _ _ ht] at h; cases h
      · intro h
        have := congrArg tag h
        rw [tag_canon, tag_canon] at this
        exact absurd this ht
  · intro a _ b _ _ _ _ hm; simp [mapFree] at hm
  · intro a _ b _ _ _ _ hm; simp [mapFree] at hm

end Value

namespace Value

theorem normF_le (sign b : Nat) : normF sign b ≤ b := by unfold normF; split <;> omega

theorem canon_WFV (a : Value) : WFV a → WFV (canon a) := by
  apply value_ind (fun a => WFV a → WFV (canon a))
  · intro a hf hw
    cases a <;> (try (simp [isFlat] at hf; done)) <;> simp only [canon] <;> (try exact hw)
    case f32 b =>
      simp only [WFV, wfV, okU32, decide_eq_true_eq] at hw ⊢
      have := normF_le S32 b; omega
    case f64 b =>
      simp only [WFV, wfV, okU64, decide_eq_true_eq] at hw ⊢
      have := normF_le S64 b; omega
    case dsum s c mn mx =>
      simp only [WFV, wfV, okU64, okI32, Bool.and_eq_true, decide_eq_true_eq] at hw ⊢
      have := normF_le S64 s
      refine ⟨⟨⟨by omega, hw.1.1.2⟩, by omega⟩, by omega⟩
    case lsum s c mn mx =>
      simp only [WFV, wfV, okI64, okI32, Bool.and_eq_true, decide_eq_true_eq] at hw ⊢
      refine ⟨⟨⟨hw.1.1.1, hw.1.1.2⟩, by omega⟩, by omega⟩
    case af xs =>
      simp only [WFV, wfV, Bool.and_eq_true, List.length_map] at hw ⊢
      refine ⟨hw.1, ?_⟩
      rw [List.all_eq_true] at *
      intro x hx
      obtain ⟨y, hy, rfl⟩ := List.mem_map.mp hx
      have h1 := hw.2 y hy
      simp only [okU32, decide_eq_true_eq] at h1 ⊢
      have := normF_le S32 y; omega
  · intro xs ih hw
    simp only [WFV, wfV, Bool.and_eq_true] at hw
    simp only [canon, WFV, wfV, Bool.and_eq_true, canons_length]
    refine ⟨hw.1, (wfVs_iff _).mpr (fun x hx => ?_)⟩
    obtain ⟨i, hi, rfl⟩ := List.mem_iff_getElem.mp hx
    rw [canons_length] at hi
    rw [canons_getElem xs i hi]
    exact ih _ (List.getElem_mem hi) ((wfVs_iff xs).mp hw.2 _ (List.getElem_mem hi))
  · intro a _ hw; simp only [canon]; exact hw
  · intro a _ hw; simp only [canon]; exact hw

/-- the decision-procedure reading: on well-formed NaN-free values without maps, `Equals` decides
    whether the canonical forms have the same encoding -/
theorem eqV_iff_canon_enc (a b : Value) (hwa : WFV a) (hwb : WFV b) (hna : NoNaN a) (hnb : NoNaN b)
    (hm : mapFree a = true) : eqV a b = true ↔ encV (canon a) = encV (canon b) := by
  rw [eqV_iff_canon a b hwa hwb hna hnb hm]
  exact ⟨fun h => by rw [h], encV_inj _ _ (canon_WFV a hwa) (canon_WFV b hwb)⟩

end Value
