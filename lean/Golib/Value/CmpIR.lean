/-
  Golib.Value.CmpIR — a small IR for the bodies of `Equals` / `CompareTo` of the flat value types
  as `xlate/c20` transcribes them from the Go source, with its semantics.

  A flat `CompareTo` is  `if o != nil && sameType { body }` followed by the type fallback; `body`
  is a sequence of `if cond { return k }`, `if cond { return k1 } else { return k2 }`, `return k`,
  `return compare.H(this.F, that.F)`.  Conditions compare one field of `this` with the same field
  of `that` (`==`, `<`), test a boolean field, or conjoin.  The semantics reads a field of a model
  `Value` (float fields by IEEE comparison on the bit patterns, strings bytewise) and interprets
  the helper names by the model of util/compare.
-/
import Golib.Value.Codes
import Golib.Value.Cmp

namespace Value
namespace IR

inductive Cond where
  | eq (f : String) | lt (f : String) | isTrue (f : String) | and (a b : Cond) | unknownC (why : String)
deriving Repr

inductive Stmt where
  | ifRet (c : Cond) (k : Int) | ifElse (c : Cond) (k1 k2 : Int) | ret (k : Int)
  | retHelper (h f : String) | unknownS (why : String)
deriving Repr

structure FlatCmp where
  guard : Bool          -- the body is guarded by `o != nil && o.GetValueType() == this.GetValueType()`
  body : List Stmt
  nilRet : Int          -- result for a nil argument (outside the model)
  fallback : String     -- "intSub": int(a) - int(b);  "byteSub": int(a - b) on bytes (D05)
deriving Repr

inductive EqBody where
  | cond (c : Cond) | helper (h f : String) | sameType | unknownE (why : String)
deriving Repr

/-- `this.F == that.F` and `this.F < that.F` for two values of one type -/
def fieldRel (a b : Value) (f : String) : Option (Bool × Bool) :=
  match a, b, f with
  | .bool x, .bool y, "Val" => some (x == y, false)
  | .dec x, .dec y, "Val" => some (decide (x = y), decide (x < y))
  | .int x, .int y, "Val" => some (decide (x = y), decide (x < y))
  | .long x, .long y, "Val" => some (decide (x = y), decide (x < y))
  | .hash x, .hash y, "Val" => some (decide (x = y), decide (x < y))
  | .f32 x, .f32 y, "Val" => some (eq32 x y, lt32 x y)
  | .f64 x, .f64 y, "Val" => some (eq64 x y, lt64 x y)
  | .text x, .text y, "Val" => some (cmpStr x y == 0, decide (cmpStr x y < 0))
  | .dsum s _ _ _, .dsum s' _ _ _, "Sum" => some (eq64 s s', lt64 s s')
  | .dsum _ c _ _, .dsum _ c' _ _, "Count" => some (decide (c = c'), decide (c < c'))
  | .lsum s _ _ _, .lsum s' _ _ _, "Sum" => some (decide (s = s'), decide (s < s'))
  | .lsum _ c _ _, .lsum _ c' _ _, "Count" => some (decide (c = c'), decide (c < c'))
  | _, _, _ => none

def fieldTrue (a : Value) (f : String) : Option Bool :=
  match a, f with
  | .bool x, "Val" => some x
  | _, _ => none

/-- the slice helpers of util/compare, by name -/
def helperCmp (h f : String) (a b : Value) : Option Int :=
  match h, f, a, b with
  | "CompareToBytes", "Val", .blob x, .blob y => some (cmpSeq ltNat x y)
  | "CompareToBytes", "Val", .ip4 x, .ip4 y => some (cmpSeq ltNat x y)
  | "CompareToInts", "Val", .ai x, .ai y => some (cmpSeq ltInt x y)
  | "CompareToLongs", "Val", .al x, .al y => some (cmpSeq ltInt x y)
  | "CompareToFloats", "Val", .af x, .af y => some (cmpSeq lt32 x y)
  | "CompareToStrings", "Val", .at x, .at y => some (cmpStrs x y)
  | _, _, _, _ => none

def helperEq (h f : String) (a b : Value) : Option Bool :=
  match h with
  | "EqualBytes" => (helperCmp "CompareToBytes" f a b).map (· == 0)
  | "EqualInts" => (helperCmp "CompareToInts" f a b).map (· == 0)
  | "EqualLongs" => (helperCmp "CompareToLongs" f a b).map (· == 0)
  | "EqualFloats" => (helperCmp "CompareToFloats" f a b).map (· == 0)
  | "EqualStrings" => (helperCmp "CompareToStrings" f a b).map (· == 0)
  | _ => none

def evalCond (a b : Value) : Cond → Option Bool
  | .eq f => (fieldRel a b f).map (·.1)
  | .lt f => (fieldRel a b f).map (·.2)
  | .isTrue f => fieldTrue a f
  | .and c d => match evalCond a b c, evalCond a b d with
    | some x, some y => some (x && y)
    | _, _ => none
  | .unknownC _ => none

def runBody (a b : Value) : List Stmt → Option Int
  | [] => none
  | .ifRet c k :: rest => match evalCond a b c with
    | some true => some k
    | some false => runBody a b rest
    | none => none
  | .ifElse c k1 k2 :: _ => (evalCond a b c).map (fun t => if t then k1 else k2)
  | .ret k :: _ => some k
  | .retHelper h f :: _ => helperCmp h f a b
  | .unknownS _ :: _ => none

/-- the whole `CompareTo` of a flat type on two (non-nil) values -/
def runCmp (fc : FlatCmp) (a b : Value) : Option Int :=
  if fc.guard && tag a == tag b then runBody a b fc.body
  else if fc.fallback == "intSub" then some ((tag a : Int) - (tag b : Int))
  else none

/-- the whole `Equals` of a flat type -/
def runEq (e : EqBody) (a b : Value) : Option Bool :=
  match e with
  | .sameType => some (tag a == tag b)
  | .cond c => if tag a == tag b then evalCond a b c else some false
  | .helper h f => if tag a == tag b then helperEq h f a b else some false
  | .unknownE _ => none

def lookup {α : Type} (tbl : List (String × α)) (name : String) : Option α :=
  (tbl.find? (fun e => e.1 == name)).map (·.2)

/-! ### golden skeletons of what the IR does not interpret -/

/-- the three container types: what each method does, in source order -/
def containerSkeletons : List (String × List String) :=
  [("IntMapValue.CompareTo", ["nil→0", "type≠→intSub", "size≠→diff", "loop", "assert:plain:this", "assert:commaok:that", "missing→1", "recurse:CompareTo", "nonzero→c", "end→0"]),
   ("IntMapValue.Equals", ["nil-or-type≠→false", "size≠→false", "loop", "assert:plain:this", "assert:commaok:that", "missing→false", "unequal→false", "recurse:Equals", "end→true"]),
   ("ListValue.CompareTo", ["nil→0", "type≠→intSub", "size≠→diff", "loop", "assert:plain:this", "assert:plain:that", "missing→1", "recurse:CompareTo", "nonzero→c", "end→0"]),
   ("ListValue.Equals", ["nil-or-type≠→false", "size≠→false", "loop", "assert:plain:this", "assert:plain:that", "missing→false", "unequal→false", "recurse:Equals", "end→true"]),
   ("MapValue.CompareTo", ["nil→0", "type≠→intSub", "size≠→diff", "loop", "assert:plain:this", "assert:commaok:that", "missing→1", "recurse:CompareTo", "nonzero→c", "end→0"]),
   ("MapValue.Equals", ["nil-or-type≠→false", "size≠→false", "loop", "assert:plain:this", "assert:commaok:that", "missing→false", "unequal→false", "recurse:Equals", "end→true"])]

/-- util/compare: the loop of every slice helper (`lexBy (cmpOf lt)`: first `>` gives 1, first `<`
    gives -1, then the length difference; no nil special case, no other shortcut) -/
def helperSkeletons : List (String × List String) :=
  [("CompareToBytes", ["loop", "gt→1", "lt→-1", "end→len-diff"]),
   ("CompareToDoubles", ["loop", "gt→1", "lt→-1", "end→len-diff"]),
   ("CompareToFloats", ["loop", "gt→1", "lt→-1", "end→len-diff"]),
   ("CompareToInts", ["loop", "gt→1", "lt→-1", "end→len-diff"]),
   ("CompareToLongs", ["loop", "gt→1", "lt→-1", "end→len-diff"]),
   ("CompareToShorts", ["loop", "gt→1", "lt→-1", "end→len-diff"]),
   ("CompareToStrings", ["loop", "strings.Compare", "nonzero→rt", "end→len-diff"]),
   ("EqualBytes", ["call:CompareToBytes", "end→==0"]),
   ("EqualDoubles", ["call:CompareToDoubles", "end→==0"]),
   ("EqualFloats", ["call:CompareToFloats", "end→==0"]),
   ("EqualInts", ["call:CompareToInts", "end→==0"]),
   ("EqualLongs", ["call:CompareToLongs", "end→==0"]),
   ("EqualShorts", ["call:CompareToShorts", "end→==0"]),
   ("EqualStrings", ["call:CompareToStrings", "end→==0"])]

end IR
end Value
