/-
  Golib.Value.CmpLaws — `CompareTo` reverses its sign when the operands are swapped and is
  transitive, on well-formed values without NaN whose maps are key-aligned along the walk.
-/
import Golib.Value.EqLaws

namespace Value

theorem AS_len (x y : Nat) (p q : Int) (hp : x ≠ y → p = (x : Int) - y) (hq : y ≠ x → q = (y : Int) - x)
    (h : x = y → AS p q) : AS p q := by
  by_cases e : x = y
  · exact h e
  · rw [hp e, hq (Ne.symm e)]; exact AS_neg _ _

theorem cmpV_AS (a : Value) : ∀ b, WFV a → WFV b → NoNaN a → NoNaN b → Aligned a b →
    AS (cmpV a b) (cmpV b a) := by
  apply value_ind (fun a => ∀ b, WFV a → WFV b → NoNaN a → NoNaN b → Aligned a b → AS (cmpV a b) (cmpV b a))
  · intro a hf b _ _ ha hb _
    by_cases ht : tag a = tag b
    · rw [cmpV_flat a b hf, cmpV_flat b a (isFlat_of_tag a b ht hf)]; exact cmpFlat_AS a b ha hb
    · rw [cmpV_tag_ne a b ht, cmpV_tag_ne b a (Ne.symm ht)]; exact AS_neg _ _
  · intro xs ih b hwa hwb ha hb hal
    by_cases ht : tag (.list xs) = tag b
    · obtain ⟨ys, rfl⟩ := tag_list b ht.symm
      simp only [WFV, wfV, Bool.and_eq_true] at hwa hwb
      simp only [NoNaN, noNaN] at ha hb
      simp only [Aligned, aligned_list, Bool.or_eq_true, bne_iff_ne, ne_eq] at hal
      rw [cmpV_list, cmpV_list]
      apply AS_len xs.length ys.length
      · intro e; simp [e]
      · intro e; simp [e]
      · intro e
        simp only [e, ne_eq, not_true_eq_false, ↓reduceIte]
        rw [cmpVs_eq_lexBy xs ys e, cmpVs_eq_lexBy ys xs e.symm]
        have hal' : alignedVs xs ys = true := by
          rcases hal with h | h
          · exact absurd e h
          · exact h
        apply lexBy_AS_idx
        intro i h1 h2
        exact ih _ (List.getElem_mem h1) _ ((wfVs_iff xs).mp hwa.2 _ (List.getElem_mem h1))
          ((wfVs_iff ys).mp hwb.2 _ (List.getElem_mem h2)) ((noNaNs_iff xs).mp ha _ (List.getElem_mem h1))
          ((noNaNs_iff ys).mp hb _ (List.getElem_mem h2)) (alignedVs_idx xs ys hal' i h1 h2)
    · rw [cmpV_tag_ne _ _ ht, cmpV_tag_ne _ _ (Ne.symm ht)]; exact AS_neg _ _
  · intro a ih b hwa hwb ha hb hal
    by_cases ht : tag (.map a) = tag b
    · obtain ⟨b', rfl⟩ := tag_map b ht.symm
      simp only [WFV, wfV, Bool.and_eq_true, decide_eq_true_eq] at hwa hwb
      simp only [NoNaN, noNaN] at ha hb
      simp only [Aligned, aligned_map, Bool.or_eq_true, bne_iff_ne, ne_eq, Bool.and_eq_true, beq_iff_eq] at hal
      rw [cmpV_map, cmpV_map]
      apply AS_len a.length b'.length
      · intro e; simp [e]
      · intro e; simp [e]
      · intro e
        simp only [e, ne_eq, not_true_eq_false, ↓reduceIte]
        obtain ⟨hk, hal'⟩ : a.map (·.1) = b'.map (·.1) ∧ alignedKVs a b' = true := by
          rcases hal with h | h
          · exact absurd e h
          · exact h
        rw [cmpKVs_aligned a b' hk hwb.2, cmpKVs_aligned b' a hk.symm hwa.2]
        apply lexBy_AS_idx
        intro i h1 h2
        simp only [List.length_map] at h1 h2
        simp only [List.getElem_map]
        exact ih _ (List.getElem_mem h1) _ (wfKVs_mem a hwa.1.2 _ (List.getElem_mem h1))
          (wfKVs_mem b' hwb.1.2 _ (List.getElem_mem h2)) (noNaNKVs_mem a ha _ (List.getElem_mem h1))
          (noNaNKVs_mem b' hb _ (List.getElem_mem h2)) (alignedKVs_idx a b' hal' i h1 h2)
    · rw [cmpV_tag_ne _ _ ht, cmpV_tag_ne _ _ (Ne.symm ht)]; exact AS_neg _ _
  · intro a ih b hwa hwb ha hb hal
    by_cases ht : tag (.imap a) = tag b
    · obtain ⟨b', rfl⟩ := tag_imap b ht.symm
      simp only [WFV, wfV, Bool.and_eq_true, decide_eq_true_eq] at hwa hwb
      simp only [NoNaN, noNaN] at ha hb
      simp only [Aligned, aligned_imap, Bool.or_eq_true, bne_iff_ne, ne_eq, Bool.and_eq_true, beq_iff_eq] at hal
      rw [cmpV_imap, cmpV_imap]
      apply AS_len a.length b'.length
      · intro e; simp [e]
      · intro e; simp [e]
      · intro e
        simp only [e, ne_eq, not_true_eq_false, ↓reduceIte]
        obtain ⟨hk, hal'⟩ : a.map (·.1) = b'.map (·.1) ∧ alignedIKVs a b' = true := by
          rcases hal with h | h
          · exact absurd e h
          · exact h
        rw [cmpIKVs_aligned a b' hk hwb.2, cmpIKVs_aligned b' a hk.symm hwa.2]
        apply lexBy_AS_idx
        intro i h1 h2
        simp only [List.length_map] at h1 h2
        simp only [List.getElem_map]
        exact ih _ (List.getElem_mem h1) _ (wfIKVs_mem a hwa.1.2 _ (List.getElem_mem h1))
          (wfIKVs_mem b' hwb.1.2 _ (List.getElem_mem h2)) (noNaNIKVs_mem a ha _ (List.getElem_mem h1))
          (noNaNIKVs_mem b' hb _ (List.getElem_mem h2)) (alignedIKVs_idx a b' hal' i h1 h2)
    · rw [cmpV_tag_ne _ _ ht, cmpV_tag_ne _ _ (Ne.symm ht)]; exact AS_neg _ _

end Value

namespace Value

theorem Tr_len (x y z : Nat) (p q r : Int) (hp : x ≠ y → p = (x : Int) - y) (hq : y ≠ z → q = (y : Int) - z)
    (hr : x ≠ z → r = (x : Int) - z) (h : x = y → y = z → Tr p q r) : Tr p q r := by
  by_cases e : x = y ∧ y = z
  · exact h e.1 e.2
  · apply Tr_tags (x : Int) y z p q r
    · intro h'; exact hp (by intro e'; exact h' (by rw [e']))
    · intro h'; exact hq (by intro e'; exact h' (by rw [e']))
    · intro h'; exact hr (by intro e'; exact h' (by rw [e']))
    · intro ⟨e1, e2⟩; exact e ⟨by exact_mod_cast e1, by exact_mod_cast e2⟩

theorem cmpV_Tr (a : Value) : ∀ b c, WFV a → WFV b → WFV c → NoNaN a → NoNaN b → NoNaN c →
    Aligned a b → Aligned b c → Aligned a c → Tr (cmpV a b) (cmpV b c) (cmpV a c) := by
  apply value_ind (fun a => ∀ b c, WFV a → WFV b → WFV c → NoNaN a → NoNaN b → NoNaN c →
    Aligned a b → Aligned b c → Aligned a c → Tr (cmpV a b) (cmpV b c) (cmpV a c))
  · intro a hf b c _ _ _ ha hb hc _ _ _
    by_cases ht : tag a = tag b ∧ tag b = tag c
    · have hfb := isFlat_of_tag a b ht.1 hf
      rw [cmpV_flat a b hf, cmpV_flat b c hfb, cmpV_flat a c hf]; exact cmpFlat_Tr a b c ha hb hc
    · apply Tr_tags (tag a) (tag b) (tag c)
      · intro h'; exact cmpV_tag_ne a b (by intro e; exact h' (by rw [e]))
      · intro h'; exact cmpV_tag_ne b c (by intro e; exact h' (by rw [e]))
      · intro h'; exact cmpV_tag_ne a c (by intro e; exact h' (by rw [e]))
      · intro ⟨e1, e2⟩; exact ht ⟨by exact_mod_cast e1, by exact_mod_cast e2⟩
  · intro xs ih b c hwa hwb hwc ha hb hc hab hbc hac
    by_cases ht : tag (.list xs) = tag b ∧ tag b = tag c
    · obtain ⟨ys, rfl⟩ := tag_list b ht.1.symm
      obtain ⟨zs, rfl⟩ := tag_list c ht.2.symm
      simp only [WFV, wfV, Bool.and_eq_true] at hwa hwb hwc
      simp only [NoNaN, noNaN] at ha hb hc
      simp only [Aligned, aligned_list, Bool.or_eq_true, bne_iff_ne, ne_eq] at hab hbc hac
      rw [cmpV_list, cmpV_list, cmpV_list]
      apply Tr_len xs.length ys.length zs.length
      · intro e; simp [e]
      · intro e; simp [e]
      · intro e; simp [e]
      · intro e1 e2
        have e3 : xs.length = zs.length := e1.trans e2
        simp only [e1, e2, ne_eq, not_true_eq_false, ↓reduceIte]
        rw [cmpVs_eq_lexBy xs ys e1, cmpVs_eq_lexBy ys zs e2, cmpVs_eq_lexBy xs zs e3]
        have hab' : alignedVs xs ys = true := by
          rcases hab with h | h
          · exact absurd e1 h
          · exact h
        have hbc' : alignedVs ys zs = true := by
          rcases hbc with h | h
          · exact absurd e2 h
          · exact h
        have hac' : alignedVs xs zs = true := by
          rcases hac with h | h
          · exact absurd e3 h
          · exact h
        apply lexBy_Tr_idx
        intro i h1 h2 h3
        exact ih _ (List.getElem_mem h1) _ _ ((wfVs_iff xs).mp hwa.2 _ (List.getElem_mem h1))
          ((wfVs_iff ys).mp hwb.2 _ (List.getElem_mem h2)) ((wfVs_iff zs).mp hwc.2 _ (List.getElem_mem h3))
          ((noNaNs_iff xs).mp ha _ (List.getElem_mem h1)) ((noNaNs_iff ys).mp hb _ (List.getElem_mem h2))
          ((noNaNs_iff zs).mp hc _ (List.getElem_mem h3)) (alignedVs_idx xs ys hab' i h1 h2)
          (alignedVs_idx ys zs hbc' i h2 h3) (alignedVs_idx xs zs hac' i h1 h3)
    · apply Tr_tags (tag (.list xs)) (tag b) (tag c)
      · intro h'; exact cmpV_tag_ne _ b (by intro e; exact h' (by rw [e]))
      · intro h'; exact cmpV_tag_ne b c (by intro e; exact h' (by rw [e]))
      · intro h'; exact cmpV_tag_ne _ c (by intro e; exact h' (by rw [e]))
      · intro ⟨e1, e2⟩; exact ht ⟨by exact_mod_cast e1, by exact_mod_cast e2⟩
  · intro a ih b c hwa hwb hwc ha hb hc hab hbc hac
    by_cases ht : tag (.map a) = tag b ∧ tag b = tag c
    · obtain ⟨b', rfl⟩ := tag_map b ht.1.symm
      obtain ⟨c', rfl⟩ := tag_map c ht.2.symm
      simp only [WFV, wfV, Bool.and_eq_true, decide_eq_true_eq] at hwa hwb hwc
      simp only [NoNaN, noNaN] at ha hb hc
      simp only [Aligned, aligned_map, Bool.or_eq_true, bne_iff_ne, ne_eq, Bool.and_eq_true, beq_iff_eq] at hab hbc hac
      rw [cmpV_map, cmpV_map, cmpV_map]
      apply Tr_len a.length b'.length c'.length
      · intro e; simp [e]
      · intro e; simp [e]
      · intro e; simp [e]
      · intro e1 e2
        have e3 : a.length = c'.length := e1.trans e2
        simp only [e1, e2, ne_eq, not_true_eq_false, ↓reduceIte]
        obtain ⟨k1, hab'⟩ : a.map (·.1) = b'.map (·.1) ∧ alignedKVs a b' = true := by
          rcases hab with h | h
          · exact absurd e1 h
          · exact h
        obtain ⟨k2, hbc'⟩ : b'.map (·.1) = c'.map (·.1) ∧ alignedKVs b' c' = true := by
          rcases hbc with h | h
          · exact absurd e2 h
          · exact h
        obtain ⟨k3, hac'⟩ : a.map (·.1) = c'.map (·.1) ∧ alignedKVs a c' = true := by
          rcases hac with h | h
          · exact absurd e3 h
          · exact h
        rw [cmpKVs_aligned a b' k1 hwb.2, cmpKVs_aligned b' c' k2 hwc.2, cmpKVs_aligned a c' k3 hwc.2]
        apply lexBy_Tr_idx
        intro i h1 h2 h3
        simp only [List.length_map] at h1 h2 h3
        simp only [List.getElem_map]
        exact ih _ (List.getElem_mem h1) _ _ (wfKVs_mem a hwa.1.2 _ (List.getElem_mem h1))
          (wfKVs_mem b' hwb.1.2 _ (List.getElem_mem h2)) (wfKVs_mem c' hwc.1.2 _ (List.getElem_mem h3))
          (noNaNKVs_mem a ha _ (List.getElem_mem h1)) (noNaNKVs_mem b' hb _ (List.getElem_mem h2))
          (noNaNKVs_mem c' hc _ (List.getElem_mem h3)) (alignedKVs_idx a b' hab' i h1 h2)
          (alignedKVs_idx b' c' hbc' i h2 h3) (alignedKVs_idx a c' hac' i h1 h3)
    · apply Tr_tags (tag (.map a)) (tag b) (tag c)
      · intro h'; exact cmpV_tag_ne _ b (by intro e; exact h' (by rw [e]))
      · intro h'; exact cmpV_tag_ne b c (by intro e; exact h' (by rw [e]))
      · intro h'; exact cmpV_tag_ne _ c (by intro e; exact h' (by rw [e]))
      · intro ⟨e1, e2⟩; exact ht ⟨by exact_mod_cast e1, by exact_mod_cast e2⟩
  · intro a ih b c hwa hwb hwc ha hb hc hab hbc hac
    by_cases ht : tag (.imap a) = tag b ∧ tag b = tag c
    · obtain ⟨b', rfl⟩ := tag_imap b ht.1.symm
      obtain ⟨c', rfl⟩ := tag_imap c ht.2.symm
      simp only [WFV, wfV, Bool.and_eq_true, decide_eq_true_eq] at hwa hwb hwc
      simp only [NoNaN, noNaN] at ha hb hc
      simp only [Aligned, aligned_imap, Bool.or_eq_true, bne_iff_ne, ne_eq, Bool.and_eq_true, beq_iff_eq] at hab hbc hac
      rw [cmpV_imap, cmpV_imap, cmpV_imap]
      apply Tr_len a.length b'.length c'.length
      · intro e; simp [e]
      · intro e; simp [e]
      · intro e; simp [e]
      · intro e1 e2
        have e3 : a.length = c'.length := e1.trans e2
        simp only [e1, e2, ne_eq, not_true_eq_false, ↓reduceIte]
        obtain ⟨k1, hab'⟩ : a.map (·.1) = b'.map (·.1) ∧ alignedIKVs a b' = true := by
          rcases hab with h | h
          · exact absurd e1 h
          · exact h
        obtain ⟨k2, hbc'⟩ : b'.map (·.1) = c'.map (·.1) ∧ alignedIKVs b' c' = true := by
          rcases hbc with h | h
          · exact absurd e2 h
          · exact h
        obtain ⟨k3, hac'⟩ : a.map (·.1) = c'.map (·.1) ∧ alignedIKVs a c' = true := by
          rcases hac with h | h
          · exact absurd e3 h
          · exact h
        rw [cmpIKVs_aligned a b' k1 hwb.2, cmpIKVs_aligned b' c' k2 hwc.2, cmpIKVs_aligned a c' k3 hwc.2]
        apply lexBy_Tr_idx
        intro i h1 h2 h3
        simp only [List.length_map] at h1 h2 h3
        simp only [List.getElem_map]
        exact ih _ (List.getElem_mem h1) _ _ (wfIKVs_mem a hwa.1.2 _ (List.getElem_mem h1))
          (wfIKVs_mem b' hwb.1.2 _ (List.getElem_mem h2)) (wfIKVs_mem c' hwc.1.2 _ (List.getElem_mem h3))
          (noNaNIKVs_mem a ha _ (List.getElem_mem h1)) (noNaNIKVs_mem b' hb _ (List.getElem_mem h2))
          (noNaNIKVs_mem c' hc _ (List.getElem_mem h3)) (alignedIKVs_idx a b' hab' i h1 h2)
          (alignedIKVs_idx b' c' hbc' i h2 h3) (alignedIKVs_idx a c' hac' i h1 h3)
    · apply Tr_tags (tag (.imap a)) (tag b) (tag c)
      · intro h'; exact cmpV_tag_ne _ b (by intro e; exact h' (by rw [e]))
      · intro h'; exact cmpV_tag_ne b c (by intro e; exact h' (by rw [e]))
      · intro h'; exact cmpV_tag_ne _ c (by intro e; exact h' (by rw [e]))
      · intro ⟨e1, e2⟩; exact ht ⟨by exact_mod_cast e1, by exact_mod_cast e2⟩

end Value

namespace Value

/-! ### values without maps are aligned with everything -/

mutual
def mapFree : Value → Bool
  | .list xs => mapFrees xs
  | .map _ => false
  | .imap _ => false
  | _ => true
def mapFrees : List Value → Bool
  | [] => true
  | x :: xs => mapFree x && mapFrees xs
end

theorem mapFrees_iff (xs : List Value) : mapFrees xs = true ↔ ∀ x ∈ xs, mapFree x = true := by
  induction xs with
  | nil => simp [mapFrees]
  | cons x t ih => simp [mapFrees, ih]

theorem alignedVs_of_idx (xs ys : List Value)
    (h : ∀ i (h1 : i < xs.length) (h2 : i < ys.length), aligned xs[i] ys[i] = true) : alignedVs xs ys = true := by
  induction xs generalizing ys with
  | nil => simp [alignedVs]
  | cons x t ih =>
    cases ys with
    | nil => simp [alignedVs]
    | cons y u =>
      simp only [alignedVs, Bool.and_eq_true]
      have h0 := h 0 (by simp) (by simp)
      simp only [List.getElem_cons_zero] at h0
      refine ⟨h0, ih u (fun i h1 h2 => ?_)⟩
      have := h (i + 1) (by simp; omega) (by simp; omega)
      simp only [List.getElem_cons_succ] at this
      exact this

theorem aligned_of_mapFree (a : Value) : ∀ b, mapFree a = true → aligned a b = true := by
  apply value_ind (fun a => ∀ b, mapFree a = true → aligned a b = true)
  · intro a hf b _
    cases a <;> first | (simp [isFlat] at hf; done) | simp [aligned]
  · intro xs ih b hm
    simp only [mapFree] at hm
    cases b <;> try (simp [aligned]; done)
    rename_i ys
    rw [aligned_list]
    simp only [Bool.or_eq_true]
    right
    apply alignedVs_of_idx
    intro i h1 h2
    exact ih _ (List.getElem_mem h1) _ ((mapFrees_iff xs).mp hm _ (List.getElem_mem h1))
  · intro a _ b hm; simp [mapFree] at hm
  · intro a _ b hm; simp [mapFree] at hm

end Value
