/-
  Golib.Value.Lex — order laws of the comparison loop `lexBy` (first non-zero element comparison,
  then the length difference), stated on signs so that they compose through nesting.

    AS p q      p and q are the two directions of one comparison (signs reversed)
    Tr p q r    p = c a b, q = c b c', r = c a c' behave transitively (≤, <, and = parts)
-/
import Golib.Value.Cmp

namespace Value

/-- `p = cmp a b` and `q = cmp b a` have opposite signs -/
def AS (p q : Int) : Prop := (p < 0 ↔ 0 < q) ∧ (p = 0 ↔ q = 0)

/-- `p = cmp a b`, `q = cmp b c`, `r = cmp a c` are transitive on signs -/
def Tr (p q r : Int) : Prop :=
  (p ≤ 0 → q ≤ 0 → r ≤ 0) ∧ (p < 0 → q ≤ 0 → r < 0) ∧ (p ≤ 0 → q < 0 → r < 0) ∧ (p = 0 → q = 0 → r = 0)

theorem AS.pos {p q : Int} (h : AS p q) : 0 < p ↔ q < 0 := by
  obtain ⟨h1, h2⟩ := h; omega

theorem AS.symm {p q : Int} (h : AS p q) : AS q p := by
  obtain ⟨h1, h2⟩ := h; constructor <;> omega

theorem AS_sgn {p q : Int} : AS p q ↔ sgn p = - sgn q := by
  unfold AS sgn
  constructor
  · intro ⟨h1, h2⟩; split <;> split <;> (try split) <;> (try split) <;> omega
  · intro h; split at h <;> split at h <;> (try split at h) <;> (try split at h) <;> constructor <;> omega

theorem AS_neg (x y : Int) : AS (x - y) (y - x) := by unfold AS; omega

theorem sgn_neg_iff (x : Int) : sgn x < 0 ↔ x < 0 := by unfold sgn; split <;> (try split) <;> omega
theorem sgn_zero_iff (x : Int) : sgn x = 0 ↔ x = 0 := by unfold sgn; split <;> (try split) <;> omega
theorem sgn_pos_iff (x : Int) : 0 < sgn x ↔ 0 < x := by unfold sgn; split <;> (try split) <;> omega
theorem sgn_le_iff (x : Int) : sgn x ≤ 0 ↔ x ≤ 0 := by unfold sgn; split <;> (try split) <;> omega

theorem AS_sgn_sgn {p q : Int} (h : AS p q) : AS (sgn p) (sgn q) := by
  unfold AS at *
  rw [sgn_neg_iff, sgn_pos_iff, sgn_zero_iff, sgn_zero_iff]; exact h

theorem Tr_sgn {p q r : Int} (h : Tr p q r) : Tr (sgn p) (sgn q) (sgn r) := by
  unfold Tr at *
  simp only [sgn_neg_iff, sgn_zero_iff, sgn_le_iff]; exact h

/-- negating all three (descending order) keeps transitivity if the reversed triple is transitive -/
theorem AS_negate {p q : Int} (h : AS p q) : AS (-p) (-q) := by
  unfold AS at *; omega

/-! ### lexBy -/

theorem lexBy_nil_left (c : α → β → Int) (ys : List β) : lexBy c [] ys = -(ys.length : Int) := by
  cases ys <;> rfl

theorem lexBy_nil_right (c : α → β → Int) (xs : List α) : lexBy c xs [] = (xs.length : Int) := by
  cases xs <;> simp [lexBy]

/-- position-wise: only elements at the same index are ever compared -/
theorem lexBy_AS_idx (c : α → β → Int) (c' : β → α → Int) (xs : List α) (ys : List β)
    (h : ∀ i (h1 : i < xs.length) (h2 : i < ys.length), AS (c xs[i] ys[i]) (c' ys[i] xs[i])) :
    AS (lexBy c xs ys) (lexBy c' ys xs) := by
  induction xs generalizing ys with
  | nil => rw [lexBy_nil_left, lexBy_nil_right]; unfold AS; omega
  | cons x xs ih =>
    cases ys with
    | nil => rw [lexBy_nil_left, lexBy_nil_right]; unfold AS; simp only [List.length_cons]; omega
    | cons y ys =>
      have hxy := h 0 (by simp) (by simp)
      have ih' := ih ys (fun i h1 h2 => by
        have := h (i + 1) (by simp; omega) (by simp; omega)
        simpa using this)
      simp only [List.getElem_cons_zero] at hxy
      simp only [lexBy]
      unfold AS at hxy ih' ⊢
      split <;> split <;> omega

theorem lexBy_AS (c : α → β → Int) (c' : β → α → Int) (xs : List α) (ys : List β)
    (h : ∀ x ∈ xs, ∀ y ∈ ys, AS (c x y) (c' y x)) : AS (lexBy c xs ys) (lexBy c' ys xs) :=
  lexBy_AS_idx c c' xs ys (fun _ h1 h2 => h _ (List.getElem_mem h1) _ (List.getElem_mem h2))

theorem lexBy_Tr_idx (c₁ : α → β → Int) (c₂ : β → γ → Int) (c₃ : α → γ → Int)
    (xs : List α) (ys : List β) (zs : List γ)
    (h : ∀ i (h1 : i < xs.length) (h2 : i < ys.length) (h3 : i < zs.length),
      Tr (c₁ xs[i] ys[i]) (c₂ ys[i] zs[i]) (c₃ xs[i] zs[i])) :
    Tr (lexBy c₁ xs ys) (lexBy c₂ ys zs) (lexBy c₃ xs zs) := by
  induction xs generalizing ys zs with
  | nil =>
    rw [lexBy_nil_left, lexBy_nil_left]
    cases ys with
    | nil => rw [lexBy_nil_left]; unfold Tr; simp only [List.length_nil]; omega
    | cons y ys =>
      cases zs with
      | nil => rw [lexBy_nil_right]; unfold Tr; simp only [List.length_cons, List.length_nil]; omega
      | cons z zs => unfold Tr; simp only [List.length_cons]; omega
  | cons x xs ih =>
    cases ys with
    | nil => rw [lexBy_nil_right, lexBy_nil_left]; unfold Tr; simp only [List.length_cons]; omega
    | cons y ys =>
      cases zs with
      | nil => rw [lexBy_nil_right, lexBy_nil_right]; unfold Tr; simp only [List.length_cons]; omega
      | cons z zs =>
        have hxyz := h 0 (by simp) (by simp) (by simp)
        have ih' := ih ys zs (fun i h1 h2 h3 => by
          have := h (i + 1) (by simp; omega) (by simp; omega) (by simp; omega)
          simpa using this)
        simp only [List.getElem_cons_zero] at hxyz
        simp only [lexBy]
        unfold Tr at hxyz ih' ⊢
        split <;> split <;> split <;> omega

theorem lexBy_Tr (c₁ : α → β → Int) (c₂ : β → γ → Int) (c₃ : α → γ → Int)
    (xs : List α) (ys : List β) (zs : List γ)
    (h : ∀ x ∈ xs, ∀ y ∈ ys, ∀ z ∈ zs, Tr (c₁ x y) (c₂ y z) (c₃ x z)) :
    Tr (lexBy c₁ xs ys) (lexBy c₂ ys zs) (lexBy c₃ xs zs) :=
  lexBy_Tr_idx c₁ c₂ c₃ xs ys zs (fun _ h1 h2 h3 =>
    h _ (List.getElem_mem h1) _ (List.getElem_mem h2) _ (List.getElem_mem h3))

/-- the loop says "equal" exactly when the lists have the same length and no position decides -/
theorem lexBy_eq_zero (c : α → β → Int) (xs : List α) (ys : List β) :
    lexBy c xs ys = 0 ↔ xs.length = ys.length ∧ ∀ p ∈ xs.zip ys, c p.1 p.2 = 0 := by
  induction xs generalizing ys with
  | nil => rw [lexBy_nil_left]; cases ys <;> simp <;> omega
  | cons x xs ih =>
    cases ys with
    | nil => rw [lexBy_nil_right]; simp; omega
    | cons y ys =>
      simp only [lexBy, List.length_cons, List.zip_cons_cons, List.mem_cons]
      split
      · rename_i hne
        constructor
        · intro h; exact absurd h hne
        · intro ⟨_, h⟩; exact absurd (h (x, y) (Or.inl rfl)) hne
      · rename_i heq
        have heq : c x y = 0 := by simpa using heq
        rw [ih ys]
        constructor
        · intro ⟨hl, hp⟩
          exact ⟨by omega, fun p hp' => by rcases hp' with rfl | hp'; exact heq; exact hp p hp'⟩
        · intro ⟨hl, hp⟩
          exact ⟨by omega, fun p hp' => hp p (Or.inr hp')⟩

/-- index form of `lexBy_eq_zero` -/
theorem lexBy_eq_zero_idx (c : α → β → Int) (xs : List α) (ys : List β) :
    lexBy c xs ys = 0 ↔ xs.length = ys.length ∧
      ∀ i (h1 : i < xs.length) (h2 : i < ys.length), c xs[i] ys[i] = 0 := by
  rw [lexBy_eq_zero]
  constructor
  · intro ⟨hl, hp⟩
    refine ⟨hl, fun i h1 h2 => ?_⟩
    exact hp (xs[i], ys[i]) (by
      rw [List.mem_iff_getElem]
      exact ⟨i, by simp [List.length_zip]; omega, by simp⟩)
  · intro ⟨hl, hp⟩
    refine ⟨hl, fun p hm => ?_⟩
    rw [List.mem_iff_getElem] at hm
    obtain ⟨i, hi, rfl⟩ := hm
    simp only [List.length_zip] at hi
    simp only [List.getElem_zip]
    exact hp i (by omega) (by omega)

end Value
