/-
  Golib.Value.CmpWrap — nesting is transparent: wrapping both operands in the same chain of
  one-entry containers (a one-element list, a map / int map with one entry under the same key), to
  any depth, changes neither `Equals` nor `CompareTo`.  There is no depth at which the recursion of
  the container methods stops or answers differently.
-/
import Golib.Value.CmpRec

namespace Value

inductive Wrap where
  | l | m (k : Bytes) | im (k : Int)

def Wrap.app : Wrap → Value → Value
  | .l, v => .list [v]
  | .m k, v => .map [(k, v)]
  | .im k, v => .imap [(k, v)]

/-- `wrapAll [w₁, …, wₙ] v = w₁ (… (wₙ v))`: `v` at nesting depth n -/
def wrapAll (ws : List Wrap) (v : Value) : Value := ws.foldr Wrap.app v

theorem wrap1_cmp (w : Wrap) (a b : Value) : cmpV (w.app a) (w.app b) = cmpV a b := by
  cases w <;> simp [Wrap.app, cmpV_list, cmpV_map, cmpV_imap, cmpVs, cmpKVs, cmpIKVs, lookupKV] <;>
    (intro h; exact h.symm)

theorem wrap1_eq (w : Wrap) (a b : Value) : eqV (w.app a) (w.app b) = eqV a b := by
  cases w <;> simp [Wrap.app, eqV_list, eqV_map, eqV_imap, eqVs, eqKVs, eqIKVs, lookupKV]

theorem wrapAll_cmp (ws : List Wrap) (a b : Value) : cmpV (wrapAll ws a) (wrapAll ws b) = cmpV a b := by
  induction ws with
  | nil => rfl
  | cons w ws ih => simp only [wrapAll, List.foldr_cons] at ih ⊢; rw [wrap1_cmp, ih]

theorem wrapAll_eq (ws : List Wrap) (a b : Value) : eqV (wrapAll ws a) (wrapAll ws b) = eqV a b := by
  induction ws with
  | nil => rfl
  | cons w ws ih => simp only [wrapAll, List.foldr_cons] at ih ⊢; rw [wrap1_eq, ih]

end Value
