/-
  Golib.Value.Api — the rest of the exported surface of the containers and of Value.go, on the
  association-list / list abstraction of Golib.Value.Model:

    MOp K      the mutators and look-ups of MapValue (K = Bytes) and IntMapValue (K = Int):
               Put, PutString (= Put of a TextValue), PutLong (= Put of a DecimalValue), NewList
               (= Put of an empty ListValue), PutAll (the other map's entries, in its order, each Put),
               Clear; Get, GetString, GetBool, GetLong, GetFloat (typed look-ups with their
               defaults), ContainsKey, Size, IsEmpty
    LOp        ListValue: Add, AddString, AddLong, Set, Clear; Get, GetString, GetBool, Size
    encMapValue / decMapValue      WriteMapValue / ReadMapValue (Value.go): the map-only entry points
    encIntMapValue                 IntMapValue.WriteValue

  A history of calls on ONE object is `MOp.run` / `LOp.run` (state = the entry list, one output per
  call).  The driver (`drv_c02`, request `A`) runs them; the harness applies the same script to a real
  object and compares every output, the final content and its encoding.
-/
import Golib.Value.Cmp
import Golib.Value.WF

namespace Value
open Prim

/-! ### maps -/

inductive MOp (K : Type) where
  | put (k : K) (v : Value)
  | putString (k : K) (s : Bytes)
  | putLong (k : K) (n : Int)
  | newList (k : K)
  | putAll (o : List (K × Value))
  | clear
  | get (k : K)
  | getString (k : K)
  | getBool (k : K)
  | getLong (k : K)
  | getFloat (k : K)
  | containsKey (k : K)
  | size
  | isEmpty

namespace MOp
variable {K : Type} [DecidableEq K]

/-- `PutAll`: enumerate the other map and `Put` every entry -/
def putMany (s : List (K × Value)) (o : List (K × Value)) : List (K × Value) :=
  o.foldl (fun acc p => putKV acc p.1 p.2) s

/-- the state after one call -/
def next (s : List (K × Value)) : MOp K → List (K × Value)
  | .put k v => putKV s k v
  | .putString k t => putKV s k (.text t)
  | .putLong k n => putKV s k (.dec n)
  | .newList k => putKV s k (.list [])
  | .putAll o => putMany s o
  | .clear => []
  | _ => s

/-- what one call returns (`none`: nothing / nil) -/
def out (s : List (K × Value)) : MOp K → Option Value
  | .get k => lookupKV k s
  | .getString k => match lookupKV k s with
    | some (.text t) => some (.text t)
    | _ => some (.text [])
  | .getBool k => match lookupKV k s with
    | some (.bool b) => some (.bool b)
    | _ => some (.bool false)
  | .getLong k => match lookupKV k s with
    | some (.dec n) => some (.dec n)
    | _ => some (.dec 0)
  | .getFloat k => match lookupKV k s with
    | some (.f32 b) => some (.f32 b)
    | _ => some (.f32 0)
  | .containsKey k => some (.bool (lookupKV k s).isSome)
  | .size => some (.dec s.length)
  | .isEmpty => some (.bool s.isEmpty)
  | _ => none

/-- the content after a history of calls -/
def final (s : List (K × Value)) (ops : List (MOp K)) : List (K × Value) := ops.foldl next s

/-- a history: final content and the output of every call, in order -/
def run (s : List (K × Value)) : List (MOp K) → List (Option Value) → List (K × Value) × List (Option Value)
  | [], outs => (s, outs.reverse)
  | op :: ops, outs => run (next s op) ops (out s op :: outs)

/-- what a call stores is something a Go value can hold (`okKey`: the key's own range) -/
def OK (okKey : K → Bool) : MOp K → Prop
  | .put k v => okKey k = true ∧ WFV v
  | .putString k t => okKey k = true ∧ okBytes t = true
  | .putLong k n => okKey k = true ∧ okI64 n = true
  | .newList k => okKey k = true
  | .putAll o => ∀ p ∈ o, okKey p.1 = true ∧ WFV p.2
  | _ => True

end MOp

/-! ### lists -/

inductive LOp where
  | add (v : Value)
  | addString (s : Bytes)
  | addLong (n : Int)
  | set (i : Nat) (v : Value)
  | clear
  | get (i : Nat)
  | getString (i : Nat)
  | getBool (i : Nat)
  | size

namespace LOp

def next (s : List Value) : LOp → List Value
  | .add v => s ++ [v]
  | .addString t => s ++ [.text t]
  | .addLong n => s ++ [.dec n]
  | .set i v => s.set i v          -- the Go code panics on an index out of range; the harness stays inside
  | .clear => []
  | _ => s

def out (s : List Value) : LOp → Option Value
  | .get i => s[i]?
  | .getString i => match s[i]? with
    | some (.text t) => some (.text t)
    | _ => some (.text [])
  | .getBool i => match s[i]? with
    | some (.bool b) => some (.bool b)
    | _ => some (.bool false)
  | .size => some (.dec s.length)
  | _ => none

def final (s : List Value) (ops : List LOp) : List Value := ops.foldl next s

def run (s : List Value) : List LOp → List (Option Value) → List Value × List (Option Value)
  | [], outs => (s, outs.reverse)
  | op :: ops, outs => run (next s op) ops (out s op :: outs)

def OK : LOp → Prop
  | .add v => WFV v
  | .addString t => okBytes t = true
  | .addLong n => okI64 n = true
  | .set _ v => WFV v
  | _ => True

end LOp

/-! ### the map-only entry points of Value.go, and IntMapValue.WriteValue -/

/-- `WriteMapValue(out, m)`: the type byte of the map, then `m.Write` — the same two calls as `WriteValue` -/
def encMapValue (kvs : List (Bytes × Value)) : Bytes := 80 :: (encDecimal kvs.length ++ encKVs kvs)

/-- `m.WriteValue(out)` of IntMapValue -/
def encIntMapValue (kvs : List (Int × Value)) : Bytes := 81 :: (encDecimal kvs.length ++ encIKVs kvs)

/-- `ReadMapValue(in)`: one byte is read; if it is the map's type byte a fresh map reads its body,
    otherwise **nil is returned and only that byte has been consumed** -/
def decMapValue (bs : Bytes) : Option (Option (List (Bytes × Value)) × Bytes) :=
  match bs with
  | [] => none
  | t :: r =>
    if t = 80 then
      match P.run decDecimal r with
      | none => none
      | some (n, r') => (decKVs bs.length n.toNat [] r').map (fun (kvs, r'') => (some kvs, r''))
    else some (none, r)

/-! ### scripts as values (so that the driver needs no second parser)

  a script is a list value; each call is a list value whose first item is a one-byte text naming it:
    p put k v | s putString k (text) | n putLong k (decimal) | L newList k | A putAll (map) | c clear
    g get k | t getString k | b getBool k | o getLong k | f getFloat k | k containsKey k | z size | e isEmpty
  keys: a text for MapValue, an int for IntMapValue;   lists: a add v | s addString | n addLong |
    S set (decimal i) v | c clear | g get i | t getString i | b getBool i | z size -/

def keyB : Value → Option Bytes
  | .text k => some k
  | _ => none

def keyI : Value → Option Int
  | .int k => some k
  | _ => none

def entB : Value → Option (List (Bytes × Value))
  | .map kvs => some kvs
  | _ => none

def entI : Value → Option (List (Int × Value))
  | .imap kvs => some kvs
  | _ => none

def readMOp {K : Type} (key : Value → Option K) (ent : Value → Option (List (K × Value))) : Value → Option (MOp K)
  | .list [.text [112], k, v] => (key k).map (fun k => .put k v)
  | .list [.text [115], k, .text t] => (key k).map (fun k => .putString k t)
  | .list [.text [110], k, .dec n] => (key k).map (fun k => .putLong k n)
  | .list [.text [76], k] => (key k).map .newList
  | .list [.text [65], m] => (ent m).map .putAll
  | .list [.text [99]] => some .clear
  | .list [.text [103], k] => (key k).map .get
  | .list [.text [116], k] => (key k).map .getString
  | .list [.text [98], k] => (key k).map .getBool
  | .list [.text [111], k] => (key k).map .getLong
  | .list [.text [102], k] => (key k).map .getFloat
  | .list [.text [107], k] => (key k).map .containsKey
  | .list [.text [122]] => some .size
  | .list [.text [101]] => some .isEmpty
  | _ => none

def readLOp : Value → Option LOp
  | .list [.text [97], v] => some (.add v)
  | .list [.text [115], .text t] => some (.addString t)
  | .list [.text [110], .dec n] => some (.addLong n)
  | .list [.text [83], .dec i, v] => some (.set i.toNat v)
  | .list [.text [99]] => some .clear
  | .list [.text [103], .dec i] => some (.get i.toNat)
  | .list [.text [116], .dec i] => some (.getString i.toNat)
  | .list [.text [98], .dec i] => some (.getBool i.toNat)
  | .list [.text [122]] => some .size
  | _ => none

def readScript {α : Type} (f : Value → Option α) : Value → Option (List α)
  | .list xs => xs.mapM f
  | _ => none

end Value
