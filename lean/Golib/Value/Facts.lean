/-
  Golib.Value.Facts — consequences of the round trip: the fuel chosen by `decode` suffices, the
  encoding is injective and prefix-free on well-formed values, a decoded value carries the tag
  byte it was read under.
-/
import Golib.Value.Roundtrip
import Golib.Value.Codes

namespace Value
open Prim

theorem encDecimal_length_pos (v : Int) : 1 ≤ (encDecimal v).length := by
  rw [encDecimal_length]; omega

mutual
theorem szV_le_length (v : Value) : szV v ≤ (encV v).length := by
  cases v with
  | list xs =>
    have := szVs_le_length xs
    have := encDecimal_length_pos (xs.length : Int)
    simp only [szV, encV, List.length_cons, List.length_append]; omega
  | map kvs =>
    have := szKVs_le_length kvs
    have := encDecimal_length_pos (kvs.length : Int)
    simp only [szV, encV, List.length_cons, List.length_append]; omega
  | imap kvs =>
    have := szIKVs_le_length kvs
    have := encDecimal_length_pos (kvs.length : Int)
    simp only [szV, encV, List.length_cons, List.length_append]; omega
  | _ => simp [szV, encV]
theorem szVs_le_length (xs : List Value) : szVs xs ≤ (encVs xs).length + 1 := by
  cases xs with
  | nil => simp [szVs, encVs]
  | cons x t =>
    have := szV_le_length x
    have := szVs_le_length t
    simp only [szVs, encVs, List.length_append]; omega
theorem szKVs_le_length (kvs : List (Bytes × Value)) : szKVs kvs ≤ (encKVs kvs).length + 1 := by
  cases kvs with
  | nil => simp [szKVs, encKVs]
  | cons kv t =>
    obtain ⟨k, v⟩ := kv
    have := szV_le_length v
    have := szKVs_le_length t
    simp only [szKVs, encKVs, List.length_append]; omega
theorem szIKVs_le_length (kvs : List (Int × Value)) : szIKVs kvs ≤ (encIKVs kvs).length + 1 := by
  cases kvs with
  | nil => simp [szIKVs, encIKVs]
  | cons kv t =>
    obtain ⟨k, v⟩ := kv
    have := szV_le_length v
    have := szIKVs_le_length t
    simp only [szIKVs, encIKVs, List.length_append]; omega
end

/-- the corollary to cite: `decode` (fuel = input length + 1) reads back any well-formed value and
    leaves what follows it untouched -/
theorem decode_encV (v : Value) (r : Bytes) (h : WFV v) : decode (encV v ++ r) = some (v, r) := by
  unfold decode
  apply decV_encV v _ r h
  have := szV_le_length v
  simp only [List.length_append]; omega

/-- two well-formed values with the same bytes are the same value -/
theorem encV_inj (a b : Value) (ha : WFV a) (hb : WFV b) (h : encV a = encV b) : a = b := by
  have h1 := decode_encV a [] ha
  have h2 := decode_encV b [] hb
  rw [h, h2] at h1
  simpa using h1.symm

/-- prefix-free: in a stream, the boundary of a value is determined by its own bytes -/
theorem encV_prefix_free (a b : Value) (r s : Bytes) (ha : WFV a) (hb : WFV b)
    (h : encV a ++ r = encV b ++ s) : a = b ∧ r = s := by
  have h1 := decode_encV a r ha
  have h2 := decode_encV b s hb
  rw [h, h2] at h1
  simp at h1
  exact ⟨h1.1.symm, h1.2.symm⟩

end Value

namespace Value
open Prim

theorem decV_nil (f : Nat) : decV f [] = none := by
  cases f <;> simp [decV]

theorem decode_tag (bs : Bytes) (v : Value) (r : Bytes) (h : decode bs = some (v, r)) :
    ∃ rest, bs = tag v :: rest := by
  unfold decode at h
  cases bs with
  | nil => rw [decV_nil] at h; cases h
  | cons t rest => exact ⟨rest, by rw [decV_tag _ t rest v r h]⟩

end Value
