/-
  Golib.Value.MapRefine — the association lists of the value model are what the real tables hold.

  `MapValue.Read` / `IntMapValue.Read` create a fresh `StringKeyLinkedMap` / `IntKeyLinkedMap` and
  `Put` the decoded pairs one after the other; `Write`, `Equals`, `CompareTo` enumerate `Keys()`
  and `Get` each.  C09 proves that the bucket-table CodeModel `HMap.LMap` (any hash function, any
  growth policy, any capacity) refines the insertion-ordered dictionary `HMap.S`.  Here that
  dictionary, driven by the history `Read` performs, is shown to be exactly the `putKV` fold of
  `Value.decKVs` / `decIKVs` — so the "maps are association lists" abstraction of C02 / C20 is a
  theorem about the table model, not an assumption.
-/
import Golib.Props.C09
import Golib.Value.DecWF
import Golib.Value.Cmp

namespace Value
open HMap

/-- `HMap.S.step` asks for decidable equality of the stored values (for `ContainsValue`); values are
    compared classically here — nothing below computes with it -/
noncomputable instance decEqValue : DecidableEq Value := fun a b => Classical.propDecidable (a = b)

variable {K : Type} [DecidableEq K]

/-- the history `Read` performs on its table: `Put(key, value)` (mode PUT_LAST) per decoded pair -/
def readOps (pairs : List (K × Value)) : List (Op K Value) := pairs.map (fun p => Op.put Mode.last p.1 p.2)

/-- the table contents the model predicts for that history -/
def foldPut (acc : List (K × Value)) (pairs : List (K × Value)) : List (K × Value) :=
  pairs.foldl (fun a p => putKV a p.1 p.2) acc

theorem AL_get_isSome_iff (l : List (K × Value)) (k : K) :
    (AL.get l k).isSome = l.any (fun p => p.1 == k) := by
  induction l with
  | nil => rfl
  | cons p t ih =>
    obtain ⟨a, b⟩ := p
    simp only [AL.get, List.any_cons]
    by_cases h : a = k
    · simp [h]
    · simp [h, ih]

/-- one `Put` on the unbounded dictionary is `putKV` -/
theorem S_put_eq_putKV (d : Desc K Value) (s : S K Value) (k : K) (v : Value)
    (hr : d.refuse k = false) (hm : s.max = 0) :
    (S.put d s Mode.last k v).1 = { ents := putKV s.ents k v, max := 0 } := by
  unfold S.put S.putWith putKV
  rw [hr]
  simp only [Bool.false_eq_true, ↓reduceIte]
  have hs := AL_get_isSome_iff s.ents k
  cases hg : AL.get s.ents k with
  | some old =>
    rw [hg] at hs
    simp only [Option.isSome_some] at hs
    rw [← hs]
    simp only [↓reduceIte, AL.touch, AL.set]
    cases s; simp_all
  | none =>
    rw [hg] at hs
    simp only [Option.isSome_none] at hs
    rw [← hs]
    simp only [Bool.false_eq_true, ↓reduceIte, AL.insertNew, Mode.atFront, AL.evictFront, hm]
    cases s; simp_all

/-- the whole history on the dictionary is the fold -/
theorem S_run_readOps (d : Desc K Value) (hr : ∀ k, d.refuse k = false) (pairs : List (K × Value)) :
    ∀ acc : List (K × Value), (S.run d { ents := acc, max := 0 } (readOps pairs)).1 = { ents := foldPut acc pairs, max := 0 } := by
  induction pairs with
  | nil => intro acc; rfl
  | cons p t ih =>
    intro acc
    simp only [readOps, List.map_cons, S.run, S.step, foldPut, List.foldl_cons]
    rw [S_put_eq_putKV d _ p.1 p.2 (hr p.1) rfl]
    exact ih _

/-- **the table after `Read`'s history holds the model's association list**: for every hash
    function, growth policy and initial capacity, the bucket-table model driven by the puts
    abstracts to the `putKV` fold; `Keys()`+`Get` (the `entries` enumeration that `Write`, `Equals`
    and `CompareTo` walk) yields exactly that list, `Size()` its length, and `Get` looks up in it -/
theorem table_after_puts (hash : K → Nat) (thr : Nat → Nat) (d : Desc K Value) (hr : ∀ k, d.refuse k = false)
    (cap : Nat) (pairs : List (K × Value)) :
    let m := (LMap.run hash thr d (LMap.new thr cap) (readOps pairs)).1
    LMap.abs hash m = { ents := foldPut [] pairs, max := 0 } ∧
    (LMap.step hash thr d m Op.entries).2 = Out.ents (foldPut [] pairs) ∧
    (LMap.step hash thr d m Op.size).2 = Out.nat (foldPut [] pairs).length ∧
    (∀ k, (LMap.step hash thr d m (Op.get k)).2 = Out.ofVal (AL.get (foldPut [] pairs) k)) := by
  intro m
  have hinv := (C09.inv_init hash thr d cap).1
  have hrun := C09.refine_run_from hash thr d (LMap.new thr cap) (readOps pairs) hinv
  have habs : LMap.abs hash m = { ents := foldPut [] pairs, max := 0 } := by
    rw [hrun.2, (C09.inv_init hash thr d cap).2]
    exact S_run_readOps d hr pairs []
  have hinv' : LMap.Inv hash d m := (LMap.refine_run thr (readOps pairs) hinv).1
  refine ⟨habs, ?_, ?_, ?_⟩
  · rw [(C09.refine_step hash thr d m Op.entries hinv').1, habs]; rfl
  · rw [(C09.refine_step hash thr d m Op.size hinv').1, habs]; rfl
  · intro k; rw [(C09.refine_step hash thr d m (Op.get k) hinv').1, habs]; rfl

/-! ### the decoders' accumulators are such folds -/

theorem decKVs_is_fold : ∀ (f n : Nat) (acc : List (Bytes × Value)) (bs : Bytes) (res : List (Bytes × Value)) (r : Bytes),
    decKVs f n acc bs = some (res, r) → ∃ pairs : List (Bytes × Value), pairs.length = n ∧ res = foldPut acc pairs := by
  intro f
  induction f with
  | zero =>
    intro n acc bs res r h
    cases n with
    | zero => simp only [decKVs, Option.some.injEq, Prod.mk.injEq] at h; exact ⟨[], rfl, h.1.symm⟩
    | succ n => simp [decKVs] at h
  | succ f ih =>
    intro n acc bs res r h
    cases n with
    | zero => simp only [decKVs, Option.some.injEq, Prod.mk.injEq] at h; exact ⟨[], rfl, h.1.symm⟩
    | succ n =>
      simp only [decKVs] at h
      split at h
      · cases h
      · rename_i k r1 _
        split at h
        · cases h
        · rename_i v r2 _
          obtain ⟨pairs, hl, he⟩ := ih n _ _ _ _ h
          exact ⟨(k, v) :: pairs, by simp [hl], by rw [he]; rfl⟩

theorem decIKVs_is_fold : ∀ (f n : Nat) (acc : List (Int × Value)) (bs : Bytes) (res : List (Int × Value)) (r : Bytes),
    decIKVs f n acc bs = some (res, r) → ∃ pairs : List (Int × Value), pairs.length = n ∧ res = foldPut acc pairs := by
  intro f
  induction f with
  | zero =>
    intro n acc bs res r h
    cases n with
    | zero => simp only [decIKVs, Option.some.injEq, Prod.mk.injEq] at h; exact ⟨[], rfl, h.1.symm⟩
    | succ n => simp [decIKVs] at h
  | succ f ih =>
    intro n acc bs res r h
    cases n with
    | zero => simp only [decIKVs, Option.some.injEq, Prod.mk.injEq] at h; exact ⟨[], rfl, h.1.symm⟩
    | succ n =>
      simp only [decIKVs] at h
      split at h
      · cases h
      · rename_i k r1 _
        split at h
        · cases h
        · rename_i v r2 _
          obtain ⟨pairs, hl, he⟩ := ih n _ _ _ _ h
          exact ⟨(k, v) :: pairs, by simp [hl], by rw [he]; rfl⟩

/-- `MapValue.Read`: whatever the decoder returns as the map's entries is the content of a real
    (modelled) `StringKeyLinkedMap` after the puts `Read` performs, for any hash / growth / capacity -/
theorem map_read_refines (hash : Bytes → Nat) (thr : Nat → Nat) (d : Desc Bytes Value) (hr : ∀ k, d.refuse k = false)
    (cap f n : Nat) (bs : Bytes) (res : List (Bytes × Value)) (r : Bytes) (h : decKVs f n [] bs = some (res, r)) :
    ∃ pairs : List (Bytes × Value), pairs.length = n ∧
      LMap.abs hash (LMap.run hash thr d (LMap.new thr cap) (readOps pairs)).1 = { ents := res, max := 0 } ∧
      (LMap.step hash thr d (LMap.run hash thr d (LMap.new thr cap) (readOps pairs)).1 Op.entries).2 = Out.ents res := by
  obtain ⟨pairs, hl, he⟩ := decKVs_is_fold f n [] bs res r h
  have := table_after_puts hash thr d hr cap pairs
  exact ⟨pairs, hl, by rw [he]; exact this.1, by rw [he]; exact this.2.1⟩

/-- `IntMapValue.Read`, likewise on `IntKeyLinkedMap` -/
theorem imap_read_refines (hash : Int → Nat) (thr : Nat → Nat) (d : Desc Int Value) (hr : ∀ k, d.refuse k = false)
    (cap f n : Nat) (bs : Bytes) (res : List (Int × Value)) (r : Bytes) (h : decIKVs f n [] bs = some (res, r)) :
    ∃ pairs : List (Int × Value), pairs.length = n ∧
      LMap.abs hash (LMap.run hash thr d (LMap.new thr cap) (readOps pairs)).1 = { ents := res, max := 0 } ∧
      (LMap.step hash thr d (LMap.run hash thr d (LMap.new thr cap) (readOps pairs)).1 Op.entries).2 = Out.ents res := by
  obtain ⟨pairs, hl, he⟩ := decIKVs_is_fold f n [] bs res r h
  have := table_after_puts hash thr d hr cap pairs
  exact ⟨pairs, hl, by rw [he]; exact this.1, by rw [he]; exact this.2.1⟩

/-- the model's lookup is the dictionary's -/
theorem lookupKV_eq_AL_get (k : K) (l : List (K × Value)) : lookupKV k l = AL.get l k := by
  induction l with
  | nil => rfl
  | cons p t ih => obtain ⟨a, b⟩ := p; simp only [lookupKV, AL.get, ih]

end Value
