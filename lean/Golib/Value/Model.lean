/-
  Golib.Value.Model — CodeModel of lang/value: the tagged value model and its wire codec.

  `encV` follows `WriteValue` (type tag, then the type's `Write`); `decV` follows `ReadValue`
  (`CreateValue` switch on the tag, then the type's `Read`).  Floats are carried as IEEE-754 bit
  patterns.  String-keyed and int-keyed maps are association lists in insertion order; decoding
  *puts* the pairs one after the other (an existing key keeps its position and takes the new
  value), which is what the backing StringKeyLinkedMap / IntKeyLinkedMap do (C09).

  Definitions only (shared by C02, C03, C04, C05, C08, C20); the theorems are in Golib/Value/*.lean
  and Golib/Props/C02.lean.
-/
import Golib.Prim.Codec

inductive Value where
  | null
  | bool (b : Bool)
  | dec (v : Int)                                   -- DecimalValue   (tag 20, decimal)
  | int (v : Int)                                   -- IntValue       (tag 21, 4 bytes)
  | long (v : Int)                                  -- LongValue      (tag 22, 8 bytes)
  | f32 (bits : Nat)                                -- FloatValue     (tag 30)
  | f64 (bits : Nat)                                -- DoubleValue    (tag 40)
  | dsum (sum : Nat) (count : Int) (min max : Nat)  -- DoubleSummary  (tag 45; doubles as bit patterns)
  | lsum (sum : Int) (count : Int) (min max : Int)  -- LongSummary    (tag 46)
  | text (bs : Bytes)                               -- TextValue      (tag 50)
  | hash (v : Int)                                  -- TextHashValue  (tag 51, 4 bytes)
  | blob (bs : Bytes)                               -- BlobValue      (tag 60)
  | ip4 (bs : Bytes)                                -- IP4Value       (tag 61, raw bytes; the reader takes 4)
  | list (xs : List Value)                          -- ListValue      (tag 70)
  | ai (xs : List Int)                              -- IntArray       (tag 71)
  | af (xs : List Nat)                              -- FloatArray     (tag 72)
  | at (xs : List Bytes)                            -- TextArray      (tag 73)
  | al (xs : List Int)                              -- LongArray      (tag 74)
  | map (kvs : List (Bytes × Value))                -- MapValue       (tag 80)
  | imap (kvs : List (Int × Value))                 -- IntMapValue    (tag 81)
deriving Repr

namespace Value
open Prim

def tag : Value → Nat
  | .null => 0 | .bool _ => 10 | .dec _ => 20 | .int _ => 21 | .long _ => 22
  | .f32 _ => 30 | .f64 _ => 40 | .dsum .. => 45 | .lsum .. => 46
  | .text _ => 50 | .hash _ => 51 | .blob _ => 60 | .ip4 _ => 61
  | .list _ => 70 | .ai _ => 71 | .af _ => 72 | .at _ => 73 | .al _ => 74
  | .map _ => 80 | .imap _ => 81

mutual
/-- `WriteValue`: the tag byte, then the body -/
def encV : Value → Bytes
  | .null => [0]
  | .bool b => 10 :: encBool b
  | .dec v => 20 :: encDecimal v
  | .int v => 21 :: encI 4 v
  | .long v => 22 :: encI 8 v
  | .f32 b => 30 :: beN 4 b
  | .f64 b => 40 :: beN 8 b
  | .dsum s c mn mx => 45 :: (beN 8 s ++ encI 4 c ++ beN 8 mn ++ beN 8 mx)
  | .lsum s c mn mx => 46 :: (encI 8 s ++ encI 4 c ++ encI 8 mn ++ encI 8 mx)
  | .text bs => 50 :: encBlob bs
  | .hash v => 51 :: encI 4 v
  | .blob bs => 60 :: encBlob bs
  | .ip4 bs => 61 :: bs
  | .list xs => 70 :: (encDecimal xs.length ++ encVs xs)
  | .ai xs => 71 :: encArr (encI 4) xs
  | .af xs => 72 :: encArr (beN 4) xs
  | .at xs => 73 :: encArr encBlob xs
  | .al xs => 74 :: encArr (encI 8) xs
  | .map kvs => 80 :: (encDecimal kvs.length ++ encKVs kvs)
  | .imap kvs => 81 :: (encDecimal kvs.length ++ encIKVs kvs)
def encVs : List Value → Bytes
  | [] => []
  | x :: xs => encV x ++ encVs xs
def encKVs : List (Bytes × Value) → Bytes
  | [] => []
  | (k, v) :: kvs => encBlob k ++ encV v ++ encKVs kvs
def encIKVs : List (Int × Value) → Bytes
  | [] => []
  | (k, v) :: kvs => encI 4 k ++ encV v ++ encIKVs kvs
end

/-- `table.Put(key, value)` of the linked maps, on the association-list abstraction:
    an existing key keeps its place and takes the new value, a new key goes to the end -/
def putKV {K : Type} [DecidableEq K] (kvs : List (K × Value)) (k : K) (v : Value) : List (K × Value) :=
  if kvs.any (fun p => p.1 == k) then kvs.map (fun p => if p.1 = k then (p.1, v) else p)
  else kvs ++ [(k, v)]

/-
  The decoder works directly on bytes with fuel (every value consumes at least its tag byte, so
  fuel = input length + 1 always suffices); `decVP` in Golib/Value/Parser.lean packages it as a
  `P` program where the decoder monad is needed.
-/
mutual
def decV : Nat → Bytes → Option (Value × Bytes)
  | 0, _ => none
  | _, [] => none
  | f+1, t :: r =>
    match t with
    | 0 => some (.null, r)
    | 10 => (P.run rdBool r).map (fun (b, r) => (.bool b, r))
    | 20 => (P.run decDecimal r).map (fun (v, r) => (.dec v, r))
    | 21 => (P.run (rdI 4) r).map (fun (v, r) => (.int v, r))
    | 22 => (P.run (rdI 8) r).map (fun (v, r) => (.long v, r))
    | 30 => (P.run (rdU 4) r).map (fun (v, r) => (.f32 v, r))
    | 40 => (P.run (rdU 8) r).map (fun (v, r) => (.f64 v, r))
    | 45 =>
      match P.run (rdU 8) r with
      | none => none
      | some (s, r) => match P.run (rdI 4) r with
        | none => none
        | some (c, r) => match P.run (rdU 8) r with
          | none => none
          | some (mn, r) => (P.run (rdU 8) r).map (fun (mx, r) => (.dsum s c mn mx, r))
    | 46 =>
      match P.run (rdI 8) r with
      | none => none
      | some (s, r) => match P.run (rdI 4) r with
        | none => none
        | some (c, r) => match P.run (rdI 8) r with
          | none => none
          | some (mn, r) => (P.run (rdI 8) r).map (fun (mx, r) => (.lsum s c mn mx, r))
    | 50 => (P.run decBlob r).map (fun (v, r) => (.text v, r))
    | 51 => (P.run (rdI 4) r).map (fun (v, r) => (.hash v, r))
    | 60 => (P.run decBlob r).map (fun (v, r) => (.blob v, r))
    | 61 => (P.run (rdBytes 4) r).map (fun (v, r) => (.ip4 v, r))
    | 70 =>
      match P.run decDecimal r with
      | none => none
      | some (n, r) =>
        if n < 0 then none               -- make([]interface{}, negative) panics
        else (decVs f n.toNat r).map (fun (xs, r) => (.list xs, r))
    | 71 => (P.run (decArr (rdI 4)) r).map (fun (v, r) => (.ai v, r))
    | 72 => (P.run (decArr (rdU 4)) r).map (fun (v, r) => (.af v, r))
    | 73 => (P.run (decArr decBlob) r).map (fun (v, r) => (.at v, r))
    | 74 => (P.run (decArr (rdI 8)) r).map (fun (v, r) => (.al v, r))
    | 80 =>
      match P.run decDecimal r with
      | none => none
      | some (n, r) => (decKVs f n.toNat [] r).map (fun (kvs, r) => (.map kvs, r))   -- n ≤ 0: loop body never runs
    | 81 =>
      match P.run decDecimal r with
      | none => none
      | some (n, r) => (decIKVs f n.toNat [] r).map (fun (kvs, r) => (.imap kvs, r))
    | _ => none                          -- CreateValue panics: "unknown value"
def decVs : Nat → Nat → Bytes → Option (List Value × Bytes)
  | _, 0, r => some ([], r)
  | 0, _+1, _ => none
  | f+1, c+1, r =>
    match decV f r with
    | none => none
    | some (x, r') => (decVs f c r').map (fun (xs, r'') => (x :: xs, r''))
def decKVs : Nat → Nat → List (Bytes × Value) → Bytes → Option (List (Bytes × Value) × Bytes)
  | _, 0, acc, r => some (acc, r)
  | 0, _+1, _, _ => none
  | f+1, c+1, acc, r =>
    match P.run decBlob r with
    | none => none
    | some (k, r') =>
      match decV f r' with
      | none => none
      | some (v, r'') => decKVs f c (putKV acc k v) r''
def decIKVs : Nat → Nat → List (Int × Value) → Bytes → Option (List (Int × Value) × Bytes)
  | _, 0, acc, r => some (acc, r)
  | 0, _+1, _, _ => none
  | f+1, c+1, acc, r =>
    match P.run (rdI 4) r with
    | none => none
    | some (k, r') =>
      match decV f r' with
      | none => none
      | some (v, r'') => decIKVs f c (putKV acc k v) r''
end

/-- decode one tagged value from `bs` (fuel chosen from the input length) -/
def decode (bs : Bytes) : Option (Value × Bytes) := decV (bs.length + 1) bs

end Value
