/-
  Golib.Value.WF — well-formed values: what a Go `value.Value` can hold and the wire format can
  carry (executable, so that the driver can answer "is this value in the scope of the theorems").

    scalars     in the range of their Go type (int32 / int64 / 32- and 64-bit patterns)
    text, blob  bytes, fewer than 2^31 of them (the 32-bit blob length)
    ip4         exactly four bytes
    arrays      at most 32767 elements (the count is a signed 16-bit field)
    list, maps  any count an int64 decimal can carry; map keys pairwise distinct (they live in a
                hash map), int keys in int32
-/
import Golib.Value.Model

namespace Value

def okI32 (v : Int) : Bool := decide (-2147483648 ≤ v ∧ v ≤ 2147483647)
def okI64 (v : Int) : Bool := decide (-9223372036854775808 ≤ v ∧ v ≤ 9223372036854775807)
def okU32 (n : Nat) : Bool := decide (n < 4294967296)
def okU64 (n : Nat) : Bool := decide (n < 18446744073709551616)
def okBytes (bs : Bytes) : Bool := bs.all (fun b => decide (b < 256)) && decide (bs.length < 2147483648)
def okCount (n : Nat) : Bool := decide (n ≤ 9223372036854775807)
def okArrLen (n : Nat) : Bool := decide (n ≤ 32767)

mutual
def wfV : Value → Bool
  | .null => true
  | .bool _ => true
  | .dec v => okI64 v
  | .int v => okI32 v
  | .long v => okI64 v
  | .f32 b => okU32 b
  | .f64 b => okU64 b
  | .dsum s c mn mx => okU64 s && okI32 c && okU64 mn && okU64 mx
  | .lsum s c mn mx => okI64 s && okI32 c && okI64 mn && okI64 mx
  | .text bs => okBytes bs
  | .hash v => okI32 v
  | .blob bs => okBytes bs
  | .ip4 bs => bs.all (fun b => decide (b < 256)) && decide (bs.length = 4)
  | .list xs => okCount xs.length && wfVs xs
  | .ai xs => okArrLen xs.length && xs.all okI32
  | .af xs => okArrLen xs.length && xs.all okU32
  | .at xs => okArrLen xs.length && xs.all okBytes
  | .al xs => okArrLen xs.length && xs.all okI64
  | .map kvs => okCount kvs.length && wfKVs kvs && decide (kvs.map (·.1)).Nodup
  | .imap kvs => okCount kvs.length && wfIKVs kvs && decide (kvs.map (·.1)).Nodup
def wfVs : List Value → Bool
  | [] => true
  | x :: xs => wfV x && wfVs xs
def wfKVs : List (Bytes × Value) → Bool
  | [] => true
  | (k, v) :: kvs => okBytes k && wfV v && wfKVs kvs
def wfIKVs : List (Int × Value) → Bool
  | [] => true
  | (k, v) :: kvs => okI32 k && wfV v && wfIKVs kvs
end

/-- well-formed value -/
def WFV (v : Value) : Prop := wfV v = true
def WFVs (xs : List Value) : Prop := wfVs xs = true
/-- well-formed string-keyed entries (keys are byte strings shorter than 2^31, values well-formed);
    distinctness of the keys is a separate hypothesis where it is needed -/
def WFKVs (kvs : List (Bytes × Value)) : Prop := wfKVs kvs = true
def WFIKVs (kvs : List (Int × Value)) : Prop := wfIKVs kvs = true

instance (v : Value) : Decidable (WFV v) := by unfold WFV; infer_instance

end Value
