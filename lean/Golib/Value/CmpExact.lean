/-
  Golib.Value.CmpExact — sharper forms of the comparison laws.

  * antisymmetry needs NaN-freeness only of the float *scalars* (float, double, the sum of a double
    summary): a NaN inside a float array is skipped symmetrically and cannot break it;
  * for the flat types the condition is exact (iff);
  * maps of equal size with different key sets whose common entries are equal compare as 1 in
    both directions — the complete description of known finding D08 (different keys);
  * values without floats satisfy `NoNaN` outright.
-/
import Golib.Value.CmpLaws

namespace Value

/-! ### scalar NaNs -/

mutual
def noSNaN : Value → Bool
  | .f32 b => !nan32 b
  | .f64 b => !nan64 b
  | .dsum s _ _ _ => !nan64 s
  | .list xs => noSNaNs xs
  | .map kvs => noSNaNKVs kvs
  | .imap kvs => noSNaNIKVs kvs
  | _ => true
def noSNaNs : List Value → Bool
  | [] => true
  | x :: xs => noSNaN x && noSNaNs xs
def noSNaNKVs : List (Bytes × Value) → Bool
  | [] => true
  | (_, v) :: kvs => noSNaN v && noSNaNKVs kvs
def noSNaNIKVs : List (Int × Value) → Bool
  | [] => true
  | (_, v) :: kvs => noSNaN v && noSNaNIKVs kvs
end

theorem noSNaNs_iff (xs : List Value) : noSNaNs xs = true ↔ ∀ x ∈ xs, noSNaN x = true := by
  induction xs with
  | nil => simp [noSNaNs]
  | cons x t ih => simp [noSNaNs, ih]
theorem noSNaNKVs_mem (kvs : List (Bytes × Value)) (h : noSNaNKVs kvs = true) : ∀ p ∈ kvs, noSNaN p.2 = true := by
  induction kvs with
  | nil => intro p hp; cases hp
  | cons x t ih =>
    obtain ⟨k, v⟩ := x
    simp only [noSNaNKVs, Bool.and_eq_true] at h
    intro p hp
    rcases List.mem_cons.mp hp with e | hp'
    · rw [e]; exact h.1
    · exact ih h.2 p hp'
theorem noSNaNIKVs_mem (kvs : List (Int × Value)) (h : noSNaNIKVs kvs = true) : ∀ p ∈ kvs, noSNaN p.2 = true := by
  induction kvs with
  | nil => intro p hp; cases hp
  | cons x t ih =>
    obtain ⟨k, v⟩ := x
    simp only [noSNaNIKVs, Bool.and_eq_true] at h
    intro p hp
    rcases List.mem_cons.mp hp with e | hp'
    · rw [e]; exact h.1
    · exact ih h.2 p hp'

/-- `<` on float bit patterns is asymmetric, NaNs included -/
theorem fLt_asymm (sign inf x y : Nat) (h : fLt sign inf x y = true) : fLt sign inf y x = false := by
  unfold fLt at *
  cases fNaN sign inf x <;> cases fNaN sign inf y <;> simp_all
  omega

theorem AS_cmpOf_asymm (lt : α → α → Bool) (hl : ∀ x y, lt x y = true → lt y x = false) (x y : α) :
    AS (cmpOf lt x y) (cmpOf lt y x) := by
  unfold cmpOf AS
  cases h1 : lt x y <;> cases h2 : lt y x <;> simp
  have := hl x y h1; rw [h2] at this; cases this

/-- float arrays are antisymmetric whatever they hold -/
theorem AS_cmpSeq_lt32_any (xs ys : List Nat) : AS (cmpSeq lt32 xs ys) (cmpSeq lt32 ys xs) :=
  lexBy_AS _ _ xs ys (fun x _ y _ => AS_cmpOf_asymm lt32 (fun a b => fLt_asymm S32 I32 a b) x y)

theorem cmpDesc_nan (sign inf x y : Nat) (h : fNaN sign inf x = true ∨ fNaN sign inf y = true) :
    cmpDesc (fEq sign inf x y) (fLt sign inf x y) = -1 := by
  unfold cmpDesc fEq fLt
  rcases h with h | h <;> simp [h]

/-- exact: the two directions of a flat comparison have opposite signs iff the types differ or
    neither side is a NaN float scalar -/
theorem cmpFlat_AS_iff (a b : Value) (hf : isFlat a = true) (hfb : isFlat b = true) :
    AS (cmpFlat a b) (cmpFlat b a) ↔ (tag a ≠ tag b ∨ (noSNaN a = true ∧ noSNaN b = true)) := by
  by_cases h : tag a = tag b
  · have hh : ¬ (tag a ≠ tag b) := fun c => c h
    simp only [hh, false_or]
    cases a <;> cases b <;> (try (simp [tag] at h; done)) <;> (try (simp [isFlat] at hf; done))
    case f32.f32 x y =>
      simp only [cmpFlat, tag, ne_eq, not_true_eq_false, ↓reduceIte, noSNaN, Bool.not_eq_true']
      constructor
      · intro has
        by_cases hx : nan32 x = false
        · by_cases hy : nan32 y = false
          · exact ⟨hx, hy⟩
          · have hy' : nan32 y = true := by simpa using hy
            unfold eq32 lt32 at has
            rw [cmpDesc_nan S32 I32 x y (Or.inr hy'), cmpDesc_nan S32 I32 y x (Or.inl hy')] at has
            unfold AS at has; omega
        · have hx' : nan32 x = true := by simpa using hx
          unfold eq32 lt32 at has
          rw [cmpDesc_nan S32 I32 x y (Or.inl hx'), cmpDesc_nan S32 I32 y x (Or.inr hx')] at has
          unfold AS at has; omega
      · intro ⟨hx, hy⟩; exact AS_cmpDesc_f _ _ _ _ hx hy
    case f64.f64 x y =>
      simp only [cmpFlat, tag, ne_eq, not_true_eq_false, ↓reduceIte, noSNaN, Bool.not_eq_true']
      constructor
      · intro has
        by_cases hx : nan64 x = false
        · by_cases hy : nan64 y = false
          · exact ⟨hx, hy⟩
          · have hy' : nan64 y = true := by simpa using hy
            unfold eq64 lt64 at has
            rw [cmpDesc_nan S64 I64 x y (Or.inr hy'), cmpDesc_nan S64 I64 y x (Or.inl hy')] at has
            unfold AS at has; omega
        · have hx' : nan64 x = true := by simpa using hx
          unfold eq64 lt64 at has
          rw [cmpDesc_nan S64 I64 x y (Or.inl hx'), cmpDesc_nan S64 I64 y x (Or.inr hx')] at has
          unfold AS at has; omega
      · intro ⟨hx, hy⟩; exact AS_cmpDesc_f _ _ _ _ hx hy
    case dsum.dsum s c _ _ s' c' _ _ =>
      simp only [cmpFlat, tag, ne_eq, not_true_eq_false, ↓reduceIte, noSNaN, Bool.not_eq_true']
      constructor
      · intro has
        by_cases hx : nan64 s = false
        · by_cases hy : nan64 s' = false
          · exact ⟨hx, hy⟩
          · have hy' : nan64 s' = true := by simpa using hy
            have e1 : eq64 s s' = false := by unfold eq64 fEq; simp [show fNaN S64 I64 s' = true from hy']
            have e2 : lt64 s s' = false := by unfold lt64 fLt; simp [show fNaN S64 I64 s' = true from hy']
            have e3 : eq64 s' s = false := by unfold eq64 fEq; simp [show fNaN S64 I64 s' = true from hy']
            have e4 : lt64 s' s = false := by unfold lt64 fLt; simp [show fNaN S64 I64 s' = true from hy']
            simp [e1, e2, e3, e4, AS] at has
        · have hx' : nan64 s = true := by simpa using hx
          have e1 : eq64 s s' = false := by unfold eq64 fEq; simp [show fNaN S64 I64 s = true from hx']
          have e2 : lt64 s s' = false := by unfold lt64 fLt; simp [show fNaN S64 I64 s = true from hx']
          have e3 : eq64 s' s = false := by unfold eq64 fEq; simp [show fNaN S64 I64 s = true from hx']
          have e4 : lt64 s' s = false := by unfold lt64 fLt; simp [show fNaN S64 I64 s = true from hx']
          simp [e1, e2, e3, e4, AS] at has
      · intro ⟨hx, hy⟩
        rw [dsum_cmp_key _ _ _ _ hx hy, dsum_cmp_key _ _ _ _ hy hx]; exact AS_cmpSum _ _ _ _
    case af.af x y =>
      simp only [cmpFlat, tag, ne_eq, not_true_eq_false, ↓reduceIte, noSNaN, and_self, iff_true]
      exact AS_cmpSeq_lt32_any x y
    all_goals (simp only [noSNaN, and_self, iff_true]; exact cmpFlat_AS _ _ rfl rfl)
  · simp only [ne_eq, h, not_false_eq_true, true_or, iff_true]
    rw [cmpFlat_tag_ne a b h, cmpFlat_tag_ne b a (Ne.symm h)]; exact AS_neg _ _

end Value

namespace Value

/-- antisymmetry under the weaker hypothesis: only float *scalars* must not be NaN -/
theorem cmpV_AS_s (a : Value) : ∀ b, WFV a → WFV b → noSNaN a = true → noSNaN b = true → Aligned a b →
    AS (cmpV a b) (cmpV b a) := by
  apply value_ind (fun a => ∀ b, WFV a → WFV b → noSNaN a = true → noSNaN b = true → Aligned a b → AS (cmpV a b) (cmpV b a))
  · intro a hf b _ _ ha hb _
    by_cases ht : tag a = tag b
    · rw [cmpV_flat a b hf, cmpV_flat b a (isFlat_of_tag a b ht hf)]
      exact (cmpFlat_AS_iff a b hf (isFlat_of_tag a b ht hf)).mpr (Or.inr ⟨ha, hb⟩)
    · rw [cmpV_tag_ne a b ht, cmpV_tag_ne b a (Ne.symm ht)]; exact AS_neg _ _
  · intro xs ih b hwa hwb ha hb hal
    by_cases ht : tag (.list xs) = tag b
    · obtain ⟨ys, rfl⟩ := tag_list b ht.symm
      simp only [WFV, wfV, Bool.and_eq_true] at hwa hwb
      simp only [noSNaN] at ha hb
      simp only [Aligned, aligned_list, Bool.or_eq_true, bne_iff_ne, ne_eq] at hal
      rw [cmpV_list, cmpV_list]
      apply AS_len xs.length ys.length
      · intro e; simp [e]
      · intro e; simp [e]
      · intro e
        simp only [e, ne_eq, not_true_eq_false, ↓reduceIte]
        rw [cmpVs_eq_lexBy xs ys e, cmpVs_eq_lexBy ys xs e.symm]
        have hal' : alignedVs xs ys = true := by
          rcases hal with h | h
          · exact absurd e h
          · exact h
        apply lexBy_AS_idx
        intro i h1 h2
        exact ih _ (List.getElem_mem h1) _ ((wfVs_iff xs).mp hwa.2 _ (List.getElem_mem h1))
          ((wfVs_iff ys).mp hwb.2 _ (List.getElem_mem h2)) ((noSNaNs_iff xs).mp ha _ (List.getElem_mem h1))
          ((noSNaNs_iff ys).mp hb _ (List.getElem_mem h2)) (alignedVs_idx xs ys hal' i h1 h2)
    · rw [cmpV_tag_ne _ _ ht, cmpV_tag_ne _ _ (Ne.symm ht)]; exact AS_neg _ _
  · intro a ih b hwa hwb ha hb hal
    by_cases ht : tag (.map a) = tag b
    · obtain ⟨b', rfl⟩ := tag_map b ht.symm
      simp only [WFV, wfV, Bool.and_eq_true, decide_eq_true_eq] at hwa hwb
      simp only [noSNaN] at ha hb
      simp only [Aligned, aligned_map, Bool.or_eq_true, bne_iff_ne, ne_eq, Bool.and_eq_true, beq_iff_eq] at hal
      rw [cmpV_map, cmpV_map]
      apply AS_len a.length b'.length
      · intro e; simp [e]
      · intro e; simp [e]
      · intro e
        simp only [e, ne_eq, not_true_eq_false, ↓reduceIte]
        obtain ⟨hk, hal'⟩ : a.map (·.1) = b'.map (·.1) ∧ alignedKVs a b' = true := by
          rcases hal with h | h
          · exact absurd e h
          · exact h
        rw [cmpKVs_aligned a b' hk hwb.2, cmpKVs_aligned b' a hk.symm hwa.2]
        apply lexBy_AS_idx
        intro i h1 h2
        simp only [List.length_map] at h1 h2
        simp only [List.getElem_map]
        exact ih _ (List.getElem_mem h1) _ (wfKVs_mem a hwa.1.2 _ (List.getElem_mem h1))
          (wfKVs_mem b' hwb.1.2 _ (List.getElem_mem h2)) (noSNaNKVs_mem a ha _ (List.getElem_mem h1))
          (noSNaNKVs_mem b' hb _ (List.getElem_mem h2)) (alignedKVs_idx a b' hal' i h1 h2)
    · rw [cmpV_tag_ne _ _ ht, cmpV_tag_ne _ _ (Ne.symm ht)]; exact AS_neg _ _
  · intro a ih b hwa hwb ha hb hal
    by_cases ht : tag (.imap a) = tag b
    · obtain ⟨b', rfl⟩ := tag_imap b ht.symm
      simp only [WFV, wfV, Bool.and_eq_true, decide_eq_true_eq] at hwa hwb
      simp only [noSNaN] at ha hb
      simp only [Aligned, aligned_imap, Bool.or_eq_true, bne_iff_ne, ne_eq, Bool.and_eq_true, beq_iff_eq] at hal
      rw [cmpV_imap, cmpV_imap]
      apply AS_len a.length b'.length
      · intro e; simp [e]
      · intro e; simp [e]
      · intro e
        simp only [e, ne_eq, not_true_eq_false, ↓reduceIte]
        obtain ⟨hk, hal'⟩ : a.map (·.1) = b'.map (·.1) ∧ alignedIKVs a b' = true := by
          rcases hal with h | h
          · exact absurd e h
          · exact h
        rw [cmpIKVs_aligned a b' hk hwb.2, cmpIKVs_aligned b' a hk.symm hwa.2]
        apply lexBy_AS_idx
        intro i h1 h2
        simp only [List.length_map] at h1 h2
        simp only [List.getElem_map]
        exact ih _ (List.getElem_mem h1) _ (wfIKVs_mem a hwa.1.2 _ (List.getElem_mem h1))
          (wfIKVs_mem b' hwb.1.2 _ (List.getElem_mem h2)) (noSNaNIKVs_mem a ha _ (List.getElem_mem h1))
          (noSNaNIKVs_mem b' hb _ (List.getElem_mem h2)) (alignedIKVs_idx a b' hal' i h1 h2)
    · rw [cmpV_tag_ne _ _ ht, cmpV_tag_ne _ _ (Ne.symm ht)]; exact AS_neg _ _


/-! ### values without floats -/

mutual
def floatFree : Value → Bool
  | .f32 _ => false
  | .f64 _ => false
  | .dsum .. => false
  | .af _ => false
  | .list xs => floatFrees xs
  | .map kvs => floatFreeKVs kvs
  | .imap kvs => floatFreeIKVs kvs
  | _ => true
def floatFrees : List Value → Bool
  | [] => true
  | x :: xs => floatFree x && floatFrees xs
def floatFreeKVs : List (Bytes × Value) → Bool
  | [] => true
  | (_, v) :: kvs => floatFree v && floatFreeKVs kvs
def floatFreeIKVs : List (Int × Value) → Bool
  | [] => true
  | (_, v) :: kvs => floatFree v && floatFreeIKVs kvs
end

mutual
theorem noNaN_of_floatFree (v : Value) : floatFree v = true → noNaN v = true := by
  cases v with
  | list xs => intro h; simp only [floatFree] at h; simp only [noNaN]; exact noNaNs_of_floatFrees xs h
  | map kvs => intro h; simp only [floatFree] at h; simp only [noNaN]; exact noNaNKVs_of_floatFree kvs h
  | imap kvs => intro h; simp only [floatFree] at h; simp only [noNaN]; exact noNaNIKVs_of_floatFree kvs h
  | f32 _ => intro h; simp [floatFree] at h
  | f64 _ => intro h; simp [floatFree] at h
  | dsum _ _ _ _ => intro h; simp [floatFree] at h
  | af _ => intro h; simp [floatFree] at h
  | _ => intro _; simp [noNaN]
theorem noNaNs_of_floatFrees (xs : List Value) : floatFrees xs = true → noNaNs xs = true := by
  cases xs with
  | nil => intro _; rfl
  | cons x t =>
    intro h
    simp only [floatFrees, Bool.and_eq_true] at h
    simp only [noNaNs, Bool.and_eq_true]
    exact ⟨noNaN_of_floatFree x h.1, noNaNs_of_floatFrees t h.2⟩
theorem noNaNKVs_of_floatFree (kvs : List (Bytes × Value)) : floatFreeKVs kvs = true → noNaNKVs kvs = true := by
  cases kvs with
  | nil => intro _; rfl
  | cons x t =>
    obtain ⟨k, v⟩ := x
    intro h
    simp only [floatFreeKVs, Bool.and_eq_true] at h
    simp only [noNaNKVs, Bool.and_eq_true]
    exact ⟨noNaN_of_floatFree v h.1, noNaNKVs_of_floatFree t h.2⟩
theorem noNaNIKVs_of_floatFree (kvs : List (Int × Value)) : floatFreeIKVs kvs = true → noNaNIKVs kvs = true := by
  cases kvs with
  | nil => intro _; rfl
  | cons x t =>
    obtain ⟨k, v⟩ := x
    intro h
    simp only [floatFreeIKVs, Bool.and_eq_true] at h
    simp only [noNaNIKVs, Bool.and_eq_true]
    exact ⟨noNaN_of_floatFree v h.1, noNaNIKVs_of_floatFree t h.2⟩
end

end Value

namespace Value

/-! ### D08, completely: different key sets, equal common entries ⇒ 1 in both directions -/

theorem firstNZ_01 (l : List Int) (h01 : ∀ x ∈ l, x = 0 ∨ x = 1) (h1 : ∃ x ∈ l, x = 1) : firstNZ l = 1 := by
  induction l with
  | nil => obtain ⟨x, hx, _⟩ := h1; cases hx
  | cons y t ih =>
    simp only [firstNZ]
    rcases h01 y (by simp) with e | e
    · subst e
      simp only [ne_eq, not_true_eq_false, ↓reduceIte]
      apply ih (fun x hx => h01 x (by simp [hx]))
      obtain ⟨x, hx, e⟩ := h1
      rcases List.mem_cons.mp hx with e' | hx'
      · subst e'; cases e
      · exact ⟨x, hx', e⟩
    · subst e; simp

theorem firstNZ_missing {K : Type} [DecidableEq K] (a b : List (K × Value))
    (hc : ∀ p ∈ a, ∀ w, lookupKV p.1 b = some w → cmpV p.2 w = 0)
    (hm : ∃ p ∈ a, lookupKV p.1 b = none) :
    firstNZ (a.map (fun p => match lookupKV p.1 b with | none => 1 | some w => cmpV p.2 w)) = 1 := by
  apply firstNZ_01
  · intro x hx
    obtain ⟨p, hp, rfl⟩ := List.mem_map.mp hx
    cases hl : lookupKV p.1 b with
    | none => right; rfl
    | some w => left; exact hc p hp w hl
  · obtain ⟨p, hp, hl⟩ := hm
    exact ⟨_, List.mem_map.mpr ⟨p, hp, rfl⟩, by simp only [hl]⟩

/-- pigeonhole, the other way round: equal length, no repetitions, a key of `a` outside `b` ⇒ a key of `b` outside `a` -/
theorem exists_missing_back {K : Type} [DecidableEq K] (ka kb : List K) (hl : ka.length = kb.length)
    (_hna : ka.Nodup) (hnb : kb.Nodup) (h : ∃ k ∈ ka, k ∉ kb) : ∃ k ∈ kb, k ∉ ka := by
  apply Classical.byContradiction
  intro hcon
  have hsub : ∀ k ∈ kb, k ∈ ka := by
    intro k hk
    apply Classical.byContradiction
    intro hnk
    exact hcon ⟨k, hk, hnk⟩
  have := subset_of_nodup_length kb ka hnb hsub (by omega)
  obtain ⟨k, hk, hnk⟩ := h
  exact hnk (this k hk)

theorem missing_both {K : Type} [DecidableEq K] (a b : List (K × Value)) (hl : a.length = b.length)
    (hna : (a.map (·.1)).Nodup) (hnb : (b.map (·.1)).Nodup) (hk : ∃ k ∈ a.map (·.1), k ∉ b.map (·.1)) :
    (∃ p ∈ a, lookupKV p.1 b = none) ∧ (∃ q ∈ b, lookupKV q.1 a = none) := by
  constructor
  · obtain ⟨k, hk1, hk2⟩ := hk
    obtain ⟨p, hp, rfl⟩ := List.mem_map.mp hk1
    exact ⟨p, hp, (lookupKV_none_iff _ _).mpr hk2⟩
  · obtain ⟨k, hk1, hk2⟩ := exists_missing_back _ _ (by simpa using hl) hna hnb hk
    obtain ⟨q, hq, rfl⟩ := List.mem_map.mp hk1
    exact ⟨q, hq, (lookupKV_none_iff _ _).mpr hk2⟩

/-- string-keyed maps -/
theorem map_different_keys (a b : List (Bytes × Value)) (hwa : WFV (.map a)) (hwb : WFV (.map b))
    (hl : a.length = b.length) (hk : ∃ k ∈ a.map (·.1), k ∉ b.map (·.1))
    (hc : ∀ p ∈ a, ∀ w, lookupKV p.1 b = some w → eqV p.2 w = true) :
    cmpV (.map a) (.map b) = 1 ∧ cmpV (.map b) (.map a) = 1 := by
  simp only [WFV, wfV, Bool.and_eq_true, decide_eq_true_eq] at hwa hwb
  obtain ⟨m1, m2⟩ := missing_both a b hl hwa.2 hwb.2 hk
  rw [cmpV_map, cmpV_map]
  simp only [hl, ne_eq, not_true_eq_false, ↓reduceIte]
  rw [cmpKVs_eq, cmpKVs_eq]
  constructor
  · exact firstNZ_missing a b (fun p hp w hw => (cmpV_zero_iff_eqV _ _).mpr (hc p hp w hw)) m1
  · apply firstNZ_missing b a _ m2
    intro q hq w hw
    -- (q.1, w) ∈ a and its partner under the same key in b is q.2
    have hwm := lookupKV_some_mem _ _ _ hw
    have hq' : lookupKV q.1 b = some q.2 := lookupKV_of_mem_nodup _ _ _ hq hwb.2
    have := hc (q.1, w) hwm q.2 hq'
    exact (cmpV_zero_iff_eqV _ _).mpr
      (eqV_symm w q.2 (wfKVs_mem a hwa.1.2 _ hwm) (wfKVs_mem b hwb.1.2 _ hq) this)

/-- int-keyed maps -/
theorem imap_different_keys (a b : List (Int × Value)) (hwa : WFV (.imap a)) (hwb : WFV (.imap b))
    (hl : a.length = b.length) (hk : ∃ k ∈ a.map (·.1), k ∉ b.map (·.1))
    (hc : ∀ p ∈ a, ∀ w, lookupKV p.1 b = some w → eqV p.2 w = true) :
    cmpV (.imap a) (.imap b) = 1 ∧ cmpV (.imap b) (.imap a) = 1 := by
  simp only [WFV, wfV, Bool.and_eq_true, decide_eq_true_eq] at hwa hwb
  obtain ⟨m1, m2⟩ := missing_both a b hl hwa.2 hwb.2 hk
  rw [cmpV_imap, cmpV_imap]
  simp only [hl, ne_eq, not_true_eq_false, ↓reduceIte]
  rw [cmpIKVs_eq, cmpIKVs_eq]
  constructor
  · exact firstNZ_missing a b (fun p hp w hw => (cmpV_zero_iff_eqV _ _).mpr (hc p hp w hw)) m1
  · apply firstNZ_missing b a _ m2
    intro q hq w hw
    have hwm := lookupKV_some_mem _ _ _ hw
    have hq' : lookupKV q.1 b = some q.2 := lookupKV_of_mem_nodup _ _ _ hq hwb.2
    have := hc (q.1, w) hwm q.2 hq'
    exact (cmpV_zero_iff_eqV _ _).mpr
      (eqV_symm w q.2 (wfIKVs_mem a hwa.1.2 _ hwm) (wfIKVs_mem b hwb.1.2 _ hq) this)

end Value
