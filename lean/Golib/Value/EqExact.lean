/-
  Golib.Value.EqExact — what `Equals` means on the scalar types (exactness), and transitivity of
  `Equals` under the weakest hypothesis the code allows: only the float arrays of the *middle*
  value must be NaN-free (a NaN element is skipped by the array comparison; everywhere else
  IEEE equality is transitive even with NaN, because a NaN equals nothing).
-/
import Golib.Value.Canon

namespace Value

/-! ### exactness on scalars -/

/-- "the payloads are equal" as the property means it: the same number (NaN equals nothing,
    −0 = +0), the same bytes; for a summary the same sum and count (all its `Equals` looks at) -/
def payloadEq : Value → Value → Prop
  | .null, .null => True
  | .bool x, .bool y => x = y
  | .dec x, .dec y => x = y
  | .int x, .int y => x = y
  | .long x, .long y => x = y
  | .hash x, .hash y => x = y
  | .text x, .text y => x = y
  | .f32 x, .f32 y => nan32 x = false ∧ nan32 y = false ∧ fKey S32 x = fKey S32 y
  | .f64 x, .f64 y => nan64 x = false ∧ nan64 y = false ∧ fKey S64 x = fKey S64 y
  | .dsum s c _ _, .dsum s' c' _ _ => nan64 s = false ∧ nan64 s' = false ∧ fKey S64 s = fKey S64 s' ∧ c = c'
  | .lsum s c _ _, .lsum s' c' _ _ => s = s' ∧ c = c'
  | _, _ => False

def scalar : Value → Bool
  | .null => true | .bool _ => true | .dec _ => true | .int _ => true | .long _ => true
  | .hash _ => true | .text _ => true | .f32 _ => true | .f64 _ => true | .dsum .. => true | .lsum .. => true
  | _ => false

theorem fEq_iff (sign inf x y : Nat) :
    fEq sign inf x y = true ↔ fNaN sign inf x = false ∧ fNaN sign inf y = false ∧ fKey sign x = fKey sign y := by
  unfold fEq
  cases fNaN sign inf x <;> cases fNaN sign inf y <;> simp

/-- for every scalar type: `Equals` holds exactly when the payloads are equal -/
theorem eqV_iff_payloadEq (a b : Value) (ha : scalar a = true) : eqV a b = true ↔ payloadEq a b := by
  have hf : isFlat a = true := by cases a <;> simp_all [scalar, isFlat]
  rw [eqV_flat a b hf]
  by_cases ht : tag a = tag b
  · cases a <;> (try (simp [scalar] at ha; done)) <;> cases b <;> (try (simp [tag] at ht; done))
    all_goals simp only [eqFlat, payloadEq, tag, ne_eq, not_true_eq_false, ↓reduceIte]
    case f32.f32 => unfold eq32 nan32; exact fEq_iff _ _ _ _
    case f64.f64 => unfold eq64 nan64; exact fEq_iff _ _ _ _
    case dsum.dsum =>
      unfold eq64 nan64
      simp only [Bool.and_eq_true, beq_iff_eq, fEq_iff]
      constructor
      · intro ⟨⟨a, b, c⟩, d⟩; exact ⟨a, b, c, d⟩
      · intro ⟨a, b, c, d⟩; exact ⟨⟨a, b, c⟩, d⟩
    all_goals simp
  · have : eqFlat a b = false := by unfold eqFlat; simp [ht]
    rw [this]
    constructor
    · intro h; cases h
    · intro h
      cases a <;> cases b <;> first | (simp [tag] at ht; done) | (simp [payloadEq] at h)

/-! ### transitivity with the NaN hypothesis only where the code needs it -/

mutual
def noArrNaN : Value → Bool
  | .af xs => xs.all (fun b => !nan32 b)
  | .list xs => noArrNaNs xs
  | .map kvs => noArrNaNKVs kvs
  | .imap kvs => noArrNaNIKVs kvs
  | _ => true
def noArrNaNs : List Value → Bool
  | [] => true
  | x :: xs => noArrNaN x && noArrNaNs xs
def noArrNaNKVs : List (Bytes × Value) → Bool
  | [] => true
  | (_, v) :: kvs => noArrNaN v && noArrNaNKVs kvs
def noArrNaNIKVs : List (Int × Value) → Bool
  | [] => true
  | (_, v) :: kvs => noArrNaN v && noArrNaNIKVs kvs
end

theorem noArrNaNs_iff (xs : List Value) : noArrNaNs xs = true ↔ ∀ x ∈ xs, noArrNaN x = true := by
  induction xs with
  | nil => simp [noArrNaNs]
  | cons x t ih => simp [noArrNaNs, ih]
theorem noArrNaNKVs_mem (kvs : List (Bytes × Value)) (h : noArrNaNKVs kvs = true) : ∀ p ∈ kvs, noArrNaN p.2 = true := by
  induction kvs with
  | nil => intro p hp; cases hp
  | cons x t ih =>
    obtain ⟨k, v⟩ := x
    simp only [noArrNaNKVs, Bool.and_eq_true] at h
    intro p hp
    rcases List.mem_cons.mp hp with e | hp'
    · rw [e]; exact h.1
    · exact ih h.2 p hp'
theorem noArrNaNIKVs_mem (kvs : List (Int × Value)) (h : noArrNaNIKVs kvs = true) : ∀ p ∈ kvs, noArrNaN p.2 = true := by
  induction kvs with
  | nil => intro p hp; cases hp
  | cons x t ih =>
    obtain ⟨k, v⟩ := x
    simp only [noArrNaNIKVs, Bool.and_eq_true] at h
    intro p hp
    rcases List.mem_cons.mp hp with e | hp'
    · rw [e]; exact h.1
    · exact ih h.2 p hp'

theorem fEq_trans (sign inf x y z : Nat) (h1 : fEq sign inf x y = true) (h2 : fEq sign inf y z = true) :
    fEq sign inf x z = true := by
  rw [fEq_iff] at *
  exact ⟨h1.1, h2.2.1, h1.2.2.trans h2.2.2⟩

theorem cmpOf_lt32_zero_trans (x y z : Nat) (hy : nan32 y = false) (h1 : cmpOf lt32 x y = 0) (h2 : cmpOf lt32 y z = 0) :
    cmpOf lt32 x z = 0 := by
  unfold cmpOf lt32 fLt at *
  unfold nan32 at hy
  cases hx : fNaN S32 I32 x <;> cases hz : fNaN S32 I32 z <;> simp_all
  · generalize fKey S32 x = kx at *; generalize fKey S32 y = ky at *; generalize fKey S32 z = kz at *
    repeat' split at h1
    all_goals repeat' split at h2
    all_goals (try omega)
    all_goals (split <;> (try split) <;> omega)

theorem cmpSeq_lt32_zero_trans (xs ys zs : List Nat) (hy : ∀ y ∈ ys, nan32 y = false)
    (h1 : cmpSeq lt32 xs ys = 0) (h2 : cmpSeq lt32 ys zs = 0) : cmpSeq lt32 xs zs = 0 := by
  unfold cmpSeq at *
  rw [lexBy_eq_zero_idx] at *
  refine ⟨h1.1.trans h2.1, fun i hx hz => ?_⟩
  have hyi : i < ys.length := by omega
  exact cmpOf_lt32_zero_trans _ _ _ (hy _ (List.getElem_mem hyi)) (h1.2 i hx hyi) (h2.2 i hyi hz)

theorem eqFlat_trans_mid (a b c : Value) (hb : noArrNaN b = true)
    (h1 : eqFlat a b = true) (h2 : eqFlat b c = true) : eqFlat a c = true := by
  by_cases ht : tag a = tag b
  · by_cases ht2 : tag b = tag c
    · cases a <;> cases b <;> (try (simp [tag] at ht; done)) <;> cases c <;> (try (simp [tag] at ht2; done))
      all_goals simp only [eqFlat, tag, ne_eq, not_true_eq_false, ↓reduceIte] at h1 h2 ⊢
      case f32.f32.f32 => exact fEq_trans _ _ _ _ _ h1 h2
      case f64.f64.f64 => exact fEq_trans _ _ _ _ _ h1 h2
      case dsum.dsum.dsum =>
        simp only [Bool.and_eq_true, beq_iff_eq] at h1 h2 ⊢
        exact ⟨fEq_trans _ _ _ _ _ h1.1 h2.1, h1.2.trans h2.2⟩
      case af.af.af =>
        simp only [beq_iff_eq] at h1 h2 ⊢
        simp only [noArrNaN] at hb
        exact cmpSeq_lt32_zero_trans _ _ _ (all_not_nan hb) h1 h2
      case blob.blob.blob =>
        simp only [beq_iff_eq, cmpSeq_ltNat_zero] at h1 h2 ⊢; exact h1.trans h2
      case ip4.ip4.ip4 =>
        simp only [beq_iff_eq, cmpSeq_ltNat_zero] at h1 h2 ⊢; exact h1.trans h2
      case ai.ai.ai =>
        simp only [beq_iff_eq, cmpSeq_ltInt_zero] at h1 h2 ⊢; exact h1.trans h2
      case al.al.al =>
        simp only [beq_iff_eq, cmpSeq_ltInt_zero] at h1 h2 ⊢; exact h1.trans h2
      case at.at.at =>
        simp only [beq_iff_eq, cmpStrs_zero] at h1 h2 ⊢; exact h1.trans h2
      all_goals (simp only [Bool.and_eq_true, beq_iff_eq] at h1 h2 ⊢; first | exact h1.trans h2 | exact ⟨h1.1.trans h2.1, h1.2.trans h2.2⟩ | trivial)
    · unfold eqFlat at h2; simp [ht2] at h2
  · unfold eqFlat at h1; simp [ht] at h1

/-- transitivity of `Equals` for the whole value type (containers by structural induction), the
    only hypothesis being that the float arrays of the middle value hold no NaN -/
theorem eqV_trans_mid (a : Value) : ∀ b c, noArrNaN b = true →
    eqV a b = true → eqV b c = true → eqV a c = true := by
  apply value_ind (fun a => ∀ b c, noArrNaN b = true →
    eqV a b = true → eqV b c = true → eqV a c = true)
  · intro a hf b c hb h1 h2
    by_cases ht : tag a = tag b
    · have hfb := isFlat_of_tag a b ht hf
      rw [eqV_flat a b hf] at h1
      rw [eqV_flat b c hfb] at h2
      rw [eqV_flat a c hf]
      exact eqFlat_trans_mid a b c hb h1 h2
    · rw [eqV_tag_ne a b ht] at h1; cases h1
  · intro xs ih b c hb h1 h2
    by_cases ht : tag (.list xs) = tag b
    · obtain ⟨ys, rfl⟩ := tag_list b ht.symm
      by_cases ht2 : tag (.list ys) = tag c
      · obtain ⟨zs, rfl⟩ := tag_list c ht2.symm
        simp only [noArrNaN] at hb
        rw [eqV_list] at h1 h2 ⊢
        simp only [Bool.and_eq_true, beq_iff_eq] at h1 h2 ⊢
        refine ⟨h1.1.trans h2.1, ?_⟩
        rw [eqVs_iff xs zs (h1.1.trans h2.1)]
        intro i hx hz
        have hy : i < ys.length := by omega
        exact ih _ (List.getElem_mem hx) ys[i] zs[i] ((noArrNaNs_iff ys).mp hb _ (List.getElem_mem hy))
          ((eqVs_iff xs ys h1.1).mp h1.2 i hx hy) ((eqVs_iff ys zs h2.1).mp h2.2 i hy hz)
      · rw [eqV_tag_ne _ _ ht2] at h2; cases h2
    · rw [eqV_tag_ne _ _ ht] at h1; cases h1
  · intro a ih b c hb h1 h2
    by_cases ht : tag (.map a) = tag b
    · obtain ⟨b', rfl⟩ := tag_map b ht.symm
      by_cases ht2 : tag (.map b') = tag c
      · obtain ⟨c', rfl⟩ := tag_map c ht2.symm
        simp only [noArrNaN] at hb
        rw [eqV_map] at h1 h2 ⊢
        simp only [Bool.and_eq_true, beq_iff_eq] at h1 h2 ⊢
        refine ⟨h1.1.trans h2.1, ?_⟩
        rw [eqKVs_iff] at h1 h2 ⊢
        intro p hp
        obtain ⟨w, hw, hr⟩ := h1.2 p hp
        have hwm := lookupKV_some_mem _ _ _ hw
        obtain ⟨u, hu, hs⟩ := h2.2 (p.1, w) hwm
        exact ⟨u, hu, ih p hp w u (noArrNaNKVs_mem b' hb _ hwm) hr hs⟩
      · rw [eqV_tag_ne _ _ ht2] at h2; cases h2
    · rw [eqV_tag_ne _ _ ht] at h1; cases h1
  · intro a ih b c hb h1 h2
    by_cases ht : tag (.imap a) = tag b
    · obtain ⟨b', rfl⟩ := tag_imap b ht.symm
      by_cases ht2 : tag (.imap b') = tag c
      · obtain ⟨c', rfl⟩ := tag_imap c ht2.symm
        simp only [noArrNaN] at hb
        rw [eqV_imap] at h1 h2 ⊢
        simp only [Bool.and_eq_true, beq_iff_eq] at h1 h2 ⊢
        refine ⟨h1.1.trans h2.1, ?_⟩
        rw [eqIKVs_iff] at h1 h2 ⊢
        intro p hp
        obtain ⟨w, hw, hr⟩ := h1.2 p hp
        have hwm := lookupKV_some_mem _ _ _ hw
        obtain ⟨u, hu, hs⟩ := h2.2 (p.1, w) hwm
        exact ⟨u, hu, ih p hp w u (noArrNaNIKVs_mem b' hb _ hwm) hr hs⟩
      · rw [eqV_tag_ne _ _ ht2] at h2; cases h2
    · rw [eqV_tag_ne _ _ ht] at h1; cases h1


end Value
