/-
  Golib.Value.Cmp — CodeModel of `Equals` / `CompareTo` of lang/value and of util/compare.

  `eqV a b` follows `a.Equals(b)`, `cmpV a b` follows `a.CompareTo(b)` (the result is the Go `int`).
  Both are total functions: after the proposed repair of D04 (comma-ok type assertion in the map
  lookups) no call of `Equals` / `CompareTo` on two non-nil values can panic.

  The model describes the code *with the proposed repairs* (proposed/C20/fix-D04…D07.diff):
    D04  a key missing in the other map: `Equals` false, `CompareTo` 1 (instead of a panic)
    D05  type fallback `int(tag a) - int(tag b)` (instead of the wrapped byte difference)
    D06  nil and empty payloads are the same (the model has no nil: both are `[]`)
    D07  summaries: order by sum, then by count (instead of -1 in both directions)
  and keeps the quirks recorded as known findings:
    D08  maps are compared along the receiver's key order; a missing key gives 1 in both directions
    D09  IEEE comparison: NaN ≠ NaN for the float scalars; inside float arrays a NaN element is
         neither `<` nor `>` and is therefore skipped as if equal

  Scalars of the decimal family and text order *descending* (`this < that → 1`), booleans, blobs
  and arrays ascending — that is what the code does; the laws do not depend on the direction.
-/
import Golib.Value.Model

namespace Value

/-! ### IEEE-754 comparison on bit patterns -/

/-- ordered key of a non-NaN bit pattern (`e` = exponent+mantissa width … `2^e` is the sign bit) -/
def fKey (sign : Nat) (b : Nat) : Int :=
  if b < sign then (b : Int) else -((b - sign : Nat) : Int)

/-- NaN: magnitude above the infinity pattern -/
def fNaN (sign inf : Nat) (b : Nat) : Bool := decide (inf < b % sign)

def fEq (sign inf : Nat) (a b : Nat) : Bool :=
  !fNaN sign inf a && !fNaN sign inf b && decide (fKey sign a = fKey sign b)
def fLt (sign inf : Nat) (a b : Nat) : Bool :=
  !fNaN sign inf a && !fNaN sign inf b && decide (fKey sign a < fKey sign b)

def S32 : Nat := 2147483648
def I32 : Nat := 2139095040            -- 0x7F800000
def S64 : Nat := 9223372036854775808
def I64 : Nat := 9218868437227405312   -- 0x7FF0000000000000

def nan32 (b : Nat) : Bool := fNaN S32 I32 b
def nan64 (b : Nat) : Bool := fNaN S64 I64 b
def eq32 := fEq S32 I32
def lt32 := fLt S32 I32
def eq64 := fEq S64 I64
def lt64 := fLt S64 I64

/-! ### util/compare -/

/-- sign of a comparison result, as an integer in {-1, 0, 1} -/
def sgn (x : Int) : Int := if x < 0 then -1 else if x = 0 then 0 else 1

/-- the common shape of `this == that → 0; this < that → 1; else -1` (descending) -/
def cmpDesc (eq lt : Bool) : Int := if eq then 0 else if lt then 1 else -1

/-- the loop shared by `compare.CompareToBytes/Ints/Longs/Floats/Strings` (after the D06 repair:
    no nil special case): the first index where the element comparison is non-zero decides,
    otherwise the length difference `l_sz - r_sz` -/
def lexBy (c : α → β → Int) : List α → List β → Int
  | [], ys => -(ys.length : Int)
  | x :: xs, [] => ((x :: xs).length : Int)
  | x :: xs, y :: ys => if c x y ≠ 0 then c x y else lexBy c xs ys

/-- `if l[i] > r[i] { return 1 }; if l[i] < r[i] { return -1 }` -/
def cmpOf (lt : α → α → Bool) (x y : α) : Int := if lt y x then 1 else if lt x y then -1 else 0

def cmpSeq (lt : α → α → Bool) (xs ys : List α) : Int := lexBy (cmpOf lt) xs ys

def ltNat (a b : Nat) : Bool := decide (a < b)
def ltInt (a b : Int) : Bool := decide (a < b)

/-- `strings.Compare` / the order of Go's string `<`: bytewise lexicographic, -1 / 0 / 1 -/
def cmpStr (x y : Bytes) : Int := sgn (cmpSeq ltNat x y)

/-- `compare.CompareToStrings` -/
def cmpStrs (xs ys : List Bytes) : Int := lexBy cmpStr xs ys

/-! ### values without value children -/

/-- `CompareTo` of the seventeen types without value children, and the type fallback of all -/
def cmpFlat (a b : Value) : Int :=
  if tag a ≠ tag b then (tag a : Int) - (tag b : Int) else
  match a, b with
  | .bool x, .bool y => if x = y then 0 else if x then 1 else -1
  | .dec x, .dec y => cmpDesc (x = y) (x < y)
  | .int x, .int y => cmpDesc (x = y) (x < y)
  | .long x, .long y => cmpDesc (x = y) (x < y)
  | .hash x, .hash y => cmpDesc (x = y) (x < y)
  | .f32 x, .f32 y => cmpDesc (eq32 x y) (lt32 x y)
  | .f64 x, .f64 y => cmpDesc (eq64 x y) (lt64 x y)
  | .dsum s c _ _, .dsum s' c' _ _ =>
      if eq64 s s' && decide (c = c') then 0
      else if lt64 s s' then 1
      else if eq64 s s' && decide (c < c') then 1 else -1
  | .lsum s c _ _, .lsum s' c' _ _ =>
      if s = s' ∧ c = c' then 0
      else if s < s' then 1
      else if s = s' ∧ c < c' then 1 else -1
  | .text x, .text y => cmpDesc (cmpStr x y == 0) (cmpStr x y < 0)
  | .blob x, .blob y => cmpSeq ltNat x y
  | .ip4 x, .ip4 y => cmpSeq ltNat x y
  | .ai x, .ai y => cmpSeq ltInt x y
  | .al x, .al y => cmpSeq ltInt x y
  | .af x, .af y => cmpSeq lt32 x y
  | .at x, .at y => cmpStrs x y
  | _, _ => 0

/-- `Equals` of the types without value children -/
def eqFlat (a b : Value) : Bool :=
  if tag a ≠ tag b then false else
  match a, b with
  | .bool x, .bool y => x == y
  | .dec x, .dec y => x == y
  | .int x, .int y => x == y
  | .long x, .long y => x == y
  | .hash x, .hash y => x == y
  | .f32 x, .f32 y => eq32 x y
  | .f64 x, .f64 y => eq64 x y
  | .dsum s c _ _, .dsum s' c' _ _ => eq64 s s' && c == c'
  | .lsum s c _ _, .lsum s' c' _ _ => s == s' && c == c'
  | .text x, .text y => x == y
  | .blob x, .blob y => cmpSeq ltNat x y == 0
  | .ip4 x, .ip4 y => cmpSeq ltNat x y == 0
  | .ai x, .ai y => cmpSeq ltInt x y == 0
  | .al x, .al y => cmpSeq ltInt x y == 0
  | .af x, .af y => cmpSeq lt32 x y == 0
  | .at x, .at y => cmpStrs x y == 0
  | _, _ => true

/-- `table.Get(key)` on the association list -/
def lookupKV {K : Type} [DecidableEq K] (k : K) : List (K × Value) → Option Value
  | [] => none
  | (k', v) :: kvs => if k' = k then some v else lookupKV k kvs

/-! ### the recursive comparison -/

mutual
/-- `a.CompareTo(b)` -/
def cmpV : Value → Value → Int
  | .list xs, b =>
    match b with
    | .list ys => if xs.length ≠ ys.length then (xs.length : Int) - ys.length else cmpVs xs ys
    | o => 70 - (tag o : Int)
  | .map kvs, b =>
    match b with
    | .map kvs' => if kvs.length ≠ kvs'.length then (kvs.length : Int) - kvs'.length else cmpKVs kvs kvs'
    | o => 80 - (tag o : Int)
  | .imap kvs, b =>
    match b with
    | .imap kvs' => if kvs.length ≠ kvs'.length then (kvs.length : Int) - kvs'.length else cmpIKVs kvs kvs'
    | o => 81 - (tag o : Int)
  | .null, b => cmpFlat .null b
  | .bool x, b => cmpFlat (.bool x) b
  | .dec x, b => cmpFlat (.dec x) b
  | .int x, b => cmpFlat (.int x) b
  | .long x, b => cmpFlat (.long x) b
  | .f32 x, b => cmpFlat (.f32 x) b
  | .f64 x, b => cmpFlat (.f64 x) b
  | .dsum s c mn mx, b => cmpFlat (.dsum s c mn mx) b
  | .lsum s c mn mx, b => cmpFlat (.lsum s c mn mx) b
  | .text x, b => cmpFlat (.text x) b
  | .hash x, b => cmpFlat (.hash x) b
  | .blob x, b => cmpFlat (.blob x) b
  | .ip4 x, b => cmpFlat (.ip4 x) b
  | .ai x, b => cmpFlat (.ai x) b
  | .af x, b => cmpFlat (.af x) b
  | .at x, b => cmpFlat (.at x) b
  | .al x, b => cmpFlat (.al x) b
/-- element-wise, first non-zero (the lists have equal length when this is called) -/
def cmpVs : List Value → List Value → Int
  | [], _ => 0
  | _ :: _, [] => 0
  | x :: xs, y :: ys => let c := cmpV x y; if c ≠ 0 then c else cmpVs xs ys
/-- along the receiver's entries: the other map's value for the key; missing ⇒ 1 -/
def cmpKVs : List (Bytes × Value) → List (Bytes × Value) → Int
  | [], _ => 0
  | (k, v) :: kvs, other =>
    match lookupKV k other with
    | none => 1
    | some v' => let c := cmpV v v'; if c ≠ 0 then c else cmpKVs kvs other
def cmpIKVs : List (Int × Value) → List (Int × Value) → Int
  | [], _ => 0
  | (k, v) :: kvs, other =>
    match lookupKV k other with
    | none => 1
    | some v' => let c := cmpV v v'; if c ≠ 0 then c else cmpIKVs kvs other
end

mutual
/-- `a.Equals(b)` -/
def eqV : Value → Value → Bool
  | .list xs, b =>
    match b with
    | .list ys => xs.length == ys.length && eqVs xs ys
    | _ => false
  | .map kvs, b =>
    match b with
    | .map kvs' => kvs.length == kvs'.length && eqKVs kvs kvs'
    | _ => false
  | .imap kvs, b =>
    match b with
    | .imap kvs' => kvs.length == kvs'.length && eqIKVs kvs kvs'
    | _ => false
  | .null, b => eqFlat .null b
  | .bool x, b => eqFlat (.bool x) b
  | .dec x, b => eqFlat (.dec x) b
  | .int x, b => eqFlat (.int x) b
  | .long x, b => eqFlat (.long x) b
  | .f32 x, b => eqFlat (.f32 x) b
  | .f64 x, b => eqFlat (.f64 x) b
  | .dsum s c mn mx, b => eqFlat (.dsum s c mn mx) b
  | .lsum s c mn mx, b => eqFlat (.lsum s c mn mx) b
  | .text x, b => eqFlat (.text x) b
  | .hash x, b => eqFlat (.hash x) b
  | .blob x, b => eqFlat (.blob x) b
  | .ip4 x, b => eqFlat (.ip4 x) b
  | .ai x, b => eqFlat (.ai x) b
  | .af x, b => eqFlat (.af x) b
  | .at x, b => eqFlat (.at x) b
  | .al x, b => eqFlat (.al x) b
def eqVs : List Value → List Value → Bool
  | [], _ => true
  | _ :: _, [] => true
  | x :: xs, y :: ys => eqV x y && eqVs xs ys
def eqKVs : List (Bytes × Value) → List (Bytes × Value) → Bool
  | [], _ => true
  | (k, v) :: kvs, other =>
    match lookupKV k other with
    | none => false
    | some v' => eqV v v' && eqKVs kvs other
def eqIKVs : List (Int × Value) → List (Int × Value) → Bool
  | [], _ => true
  | (k, v) :: kvs, other =>
    match lookupKV k other with
    | none => false
    | some v' => eqV v v' && eqIKVs kvs other
end

end Value
