/-
  Golib.Value.CmpFlat — order laws of the element comparisons and of `cmpFlat` / `eqFlat`
  (the seventeen value types without value children, and the type fallback of all twenty).
-/
import Golib.Value.Lex
import Golib.Value.Scope

namespace Value

/-! ### element comparisons -/

theorem AS_cmpOf_ltInt (x y : Int) : AS (cmpOf ltInt x y) (cmpOf ltInt y x) := by
  unfold AS cmpOf ltInt
  simp only [decide_eq_true_eq]
  split <;> split <;> (try split) <;> (try split) <;> omega

theorem Tr_cmpOf_ltInt (x y z : Int) : Tr (cmpOf ltInt x y) (cmpOf ltInt y z) (cmpOf ltInt x z) := by
  unfold Tr cmpOf ltInt
  simp only [decide_eq_true_eq]
  split <;> split <;> split <;> (try split) <;> (try split) <;> (try split) <;> omega

theorem cmpOf_ltInt_zero (x y : Int) : cmpOf ltInt x y = 0 ↔ x = y := by
  unfold cmpOf ltInt
  simp only [decide_eq_true_eq]
  split <;> (try split) <;> omega

theorem AS_cmpOf_ltNat (x y : Nat) : AS (cmpOf ltNat x y) (cmpOf ltNat y x) := by
  unfold AS cmpOf ltNat
  simp only [decide_eq_true_eq]
  split <;> split <;> (try split) <;> (try split) <;> omega

theorem Tr_cmpOf_ltNat (x y z : Nat) : Tr (cmpOf ltNat x y) (cmpOf ltNat y z) (cmpOf ltNat x z) := by
  unfold Tr cmpOf ltNat
  simp only [decide_eq_true_eq]
  split <;> split <;> split <;> (try split) <;> (try split) <;> (try split) <;> omega

theorem cmpOf_ltNat_zero (x y : Nat) : cmpOf ltNat x y = 0 ↔ x = y := by
  unfold cmpOf ltNat
  simp only [decide_eq_true_eq]
  split <;> (try split) <;> omega

/-- floats that are not NaN compare by their key -/
theorem fLt_key (sign inf a b : Nat) (ha : fNaN sign inf a = false) (hb : fNaN sign inf b = false) :
    fLt sign inf a b = decide (fKey sign a < fKey sign b) := by
  unfold fLt; simp [ha, hb]
theorem fEq_key (sign inf a b : Nat) (ha : fNaN sign inf a = false) (hb : fNaN sign inf b = false) :
    fEq sign inf a b = decide (fKey sign a = fKey sign b) := by
  unfold fEq; simp [ha, hb]

theorem AS_cmpOf_lt32 (x y : Nat) (hx : nan32 x = false) (hy : nan32 y = false) :
    AS (cmpOf lt32 x y) (cmpOf lt32 y x) := by
  unfold cmpOf lt32
  rw [fLt_key _ _ _ _ hx hy, fLt_key _ _ _ _ hy hx]
  generalize fKey S32 x = kx; generalize fKey S32 y = ky
  unfold AS
  simp only [decide_eq_true_eq]
  split <;> split <;> (try split) <;> (try split) <;> omega

theorem Tr_cmpOf_lt32 (x y z : Nat) (hx : nan32 x = false) (hy : nan32 y = false) (hz : nan32 z = false) :
    Tr (cmpOf lt32 x y) (cmpOf lt32 y z) (cmpOf lt32 x z) := by
  unfold cmpOf lt32
  rw [fLt_key _ _ _ _ hx hy, fLt_key _ _ _ _ hy hx, fLt_key _ _ _ _ hy hz, fLt_key _ _ _ _ hz hy,
    fLt_key _ _ _ _ hx hz, fLt_key _ _ _ _ hz hx]
  generalize fKey S32 x = kx; generalize fKey S32 y = ky; generalize fKey S32 z = kz
  unfold Tr
  simp only [decide_eq_true_eq]
  split <;> split <;> split <;> (try split) <;> (try split) <;> (try split) <;> omega

/-! ### the array loops -/

theorem AS_cmpSeq_ltNat (xs ys : List Nat) : AS (cmpSeq ltNat xs ys) (cmpSeq ltNat ys xs) :=
  lexBy_AS _ _ xs ys (fun x _ y _ => AS_cmpOf_ltNat x y)
theorem Tr_cmpSeq_ltNat (xs ys zs : List Nat) :
    Tr (cmpSeq ltNat xs ys) (cmpSeq ltNat ys zs) (cmpSeq ltNat xs zs) :=
  lexBy_Tr _ _ _ xs ys zs (fun x _ y _ z _ => Tr_cmpOf_ltNat x y z)
theorem AS_cmpSeq_ltInt (xs ys : List Int) : AS (cmpSeq ltInt xs ys) (cmpSeq ltInt ys xs) :=
  lexBy_AS _ _ xs ys (fun x _ y _ => AS_cmpOf_ltInt x y)
theorem Tr_cmpSeq_ltInt (xs ys zs : List Int) :
    Tr (cmpSeq ltInt xs ys) (cmpSeq ltInt ys zs) (cmpSeq ltInt xs zs) :=
  lexBy_Tr _ _ _ xs ys zs (fun x _ y _ z _ => Tr_cmpOf_ltInt x y z)

theorem all_not_nan {xs : List Nat} (h : xs.all (fun b => !nan32 b) = true) : ∀ x ∈ xs, nan32 x = false := by
  intro x hx
  have := List.all_eq_true.mp h x hx
  simpa using this

theorem AS_cmpSeq_lt32 (xs ys : List Nat) (hx : xs.all (fun b => !nan32 b) = true)
    (hy : ys.all (fun b => !nan32 b) = true) : AS (cmpSeq lt32 xs ys) (cmpSeq lt32 ys xs) :=
  lexBy_AS _ _ xs ys (fun x mx y my => AS_cmpOf_lt32 x y (all_not_nan hx x mx) (all_not_nan hy y my))
theorem Tr_cmpSeq_lt32 (xs ys zs : List Nat) (hx : xs.all (fun b => !nan32 b) = true)
    (hy : ys.all (fun b => !nan32 b) = true) (hz : zs.all (fun b => !nan32 b) = true) :
    Tr (cmpSeq lt32 xs ys) (cmpSeq lt32 ys zs) (cmpSeq lt32 xs zs) :=
  lexBy_Tr _ _ _ xs ys zs (fun x mx y my z mz =>
    Tr_cmpOf_lt32 x y z (all_not_nan hx x mx) (all_not_nan hy y my) (all_not_nan hz z mz))

theorem cmpSeq_ltNat_zero (xs ys : List Nat) : cmpSeq ltNat xs ys = 0 ↔ xs = ys := by
  unfold cmpSeq
  rw [lexBy_eq_zero]
  constructor
  · intro ⟨hl, hp⟩
    apply List.ext_getElem hl
    intro i h1 h2
    have := hp (xs[i], ys[i]) (by
      rw [List.mem_iff_getElem]
      exact ⟨i, by simp [List.length_zip]; omega, by simp⟩)
    exact (cmpOf_ltNat_zero _ _).mp this
  · intro h; subst h
    refine ⟨rfl, fun p hp => ?_⟩
    have : p.1 = p.2 := by
      rw [List.mem_iff_getElem] at hp
      obtain ⟨i, hi, rfl⟩ := hp
      simp
    exact (cmpOf_ltNat_zero _ _).mpr this

theorem cmpSeq_ltInt_zero (xs ys : List Int) : cmpSeq ltInt xs ys = 0 ↔ xs = ys := by
  unfold cmpSeq
  rw [lexBy_eq_zero]
  constructor
  · intro ⟨hl, hp⟩
    apply List.ext_getElem hl
    intro i h1 h2
    have := hp (xs[i], ys[i]) (by
      rw [List.mem_iff_getElem]
      exact ⟨i, by simp [List.length_zip]; omega, by simp⟩)
    exact (cmpOf_ltInt_zero _ _).mp this
  · intro h; subst h
    refine ⟨rfl, fun p hp => ?_⟩
    have : p.1 = p.2 := by
      rw [List.mem_iff_getElem] at hp
      obtain ⟨i, hi, rfl⟩ := hp
      simp
    exact (cmpOf_ltInt_zero _ _).mpr this

/-! ### strings -/

theorem AS_cmpStr (x y : Bytes) : AS (cmpStr x y) (cmpStr y x) := AS_sgn_sgn (AS_cmpSeq_ltNat x y)
theorem Tr_cmpStr (x y z : Bytes) : Tr (cmpStr x y) (cmpStr y z) (cmpStr x z) := Tr_sgn (Tr_cmpSeq_ltNat x y z)
theorem cmpStr_zero (x y : Bytes) : cmpStr x y = 0 ↔ x = y := by
  unfold cmpStr; rw [sgn_zero_iff]; exact cmpSeq_ltNat_zero x y

theorem AS_cmpStrs (xs ys : List Bytes) : AS (cmpStrs xs ys) (cmpStrs ys xs) :=
  lexBy_AS _ _ xs ys (fun x _ y _ => AS_cmpStr x y)
theorem Tr_cmpStrs (xs ys zs : List Bytes) : Tr (cmpStrs xs ys) (cmpStrs ys zs) (cmpStrs xs zs) :=
  lexBy_Tr _ _ _ xs ys zs (fun x _ y _ z _ => Tr_cmpStr x y z)

end Value

namespace Value

/-! ### the scalar shapes -/

theorem AS_cmpDesc_int (x y : Int) :
    AS (cmpDesc (decide (x = y)) (decide (x < y))) (cmpDesc (decide (y = x)) (decide (y < x))) := by
  unfold AS cmpDesc
  simp only [decide_eq_true_eq]
  split <;> split <;> (try split) <;> (try split) <;> omega

theorem Tr_cmpDesc_int (x y z : Int) :
    Tr (cmpDesc (decide (x = y)) (decide (x < y))) (cmpDesc (decide (y = z)) (decide (y < z)))
       (cmpDesc (decide (x = z)) (decide (x < z))) := by
  unfold Tr cmpDesc
  simp only [decide_eq_true_eq]
  split <;> split <;> split <;> (try split) <;> (try split) <;> (try split) <;> omega

theorem cmpDesc_int_zero (x y : Int) : cmpDesc (decide (x = y)) (decide (x < y)) = 0 ↔ x = y := by
  unfold cmpDesc
  simp only [decide_eq_true_eq]
  split <;> (try split) <;> omega

/-- a descending comparison derived from the sign of an ascending one (TextValue) -/
theorem AS_cmpDesc_of {p q : Int} (h : AS p q) :
    AS (cmpDesc (p == 0) (decide (p < 0))) (cmpDesc (q == 0) (decide (q < 0))) := by
  unfold AS cmpDesc at *
  simp only [beq_iff_eq, decide_eq_true_eq]
  split <;> split <;> (try split) <;> (try split) <;> omega

theorem Tr_cmpDesc_of {p q r p' q' r' : Int} (h : Tr q' p' r') (h1 : AS p p') (h2 : AS q q') (h3 : AS r r') :
    Tr (cmpDesc (p == 0) (decide (p < 0))) (cmpDesc (q == 0) (decide (q < 0)))
       (cmpDesc (r == 0) (decide (r < 0))) := by
  unfold Tr AS cmpDesc at *
  simp only [beq_iff_eq, decide_eq_true_eq]
  split <;> split <;> split <;> (try split) <;> (try split) <;> (try split) <;> omega

theorem AS_cmpDesc_f (sign inf x y : Nat) (hx : fNaN sign inf x = false) (hy : fNaN sign inf y = false) :
    AS (cmpDesc (fEq sign inf x y) (fLt sign inf x y)) (cmpDesc (fEq sign inf y x) (fLt sign inf y x)) := by
  rw [fEq_key _ _ _ _ hx hy, fLt_key _ _ _ _ hx hy, fEq_key _ _ _ _ hy hx, fLt_key _ _ _ _ hy hx]
  exact AS_cmpDesc_int _ _

theorem Tr_cmpDesc_f (sign inf x y z : Nat) (hx : fNaN sign inf x = false) (hy : fNaN sign inf y = false)
    (hz : fNaN sign inf z = false) :
    Tr (cmpDesc (fEq sign inf x y) (fLt sign inf x y)) (cmpDesc (fEq sign inf y z) (fLt sign inf y z))
       (cmpDesc (fEq sign inf x z) (fLt sign inf x z)) := by
  rw [fEq_key _ _ _ _ hx hy, fLt_key _ _ _ _ hx hy, fEq_key _ _ _ _ hy hz, fLt_key _ _ _ _ hy hz,
    fEq_key _ _ _ _ hx hz, fLt_key _ _ _ _ hx hz]
  exact Tr_cmpDesc_int _ _ _

/-- Long/DoubleSummary after the D07 repair: by sum, then by count (both descending) -/
def cmpSum (s s' c c' : Int) : Int :=
  if s = s' ∧ c = c' then 0 else if s < s' then 1 else if s = s' ∧ c < c' then 1 else -1

theorem AS_cmpSum (s s' c c' : Int) : AS (cmpSum s s' c c') (cmpSum s' s c' c) := by
  unfold AS cmpSum
  split <;> split <;> (try split) <;> (try split) <;> (try split) <;> (try split) <;> omega

theorem Tr_cmpSum (s s' s'' c c' c'' : Int) :
    Tr (cmpSum s s' c c') (cmpSum s' s'' c' c'') (cmpSum s s'' c c'') := by
  unfold Tr cmpSum
  split <;> split <;> split <;> (try split) <;> (try split) <;> (try split) <;> (try split) <;>
    (try split) <;> (try split) <;> omega

theorem dsum_cmp_key (s s' : Nat) (c c' : Int) (hs : nan64 s = false) (hs' : nan64 s' = false) :
    (if (eq64 s s' && decide (c = c')) = true then (0 : Int)
      else if lt64 s s' = true then 1 else if (eq64 s s' && decide (c < c')) = true then 1 else -1)
    = cmpSum (fKey S64 s) (fKey S64 s') c c' := by
  unfold eq64 lt64 cmpSum
  rw [fEq_key _ _ _ _ hs hs', fLt_key _ _ _ _ hs hs']
  simp only [Bool.and_eq_true, decide_eq_true_eq]

theorem AS_bool (x y : Bool) :
    AS (if x = y then 0 else if x = true then 1 else -1) (if y = x then 0 else if y = true then 1 else -1) := by
  cases x <;> cases y <;> simp [AS]

theorem Tr_bool (x y z : Bool) :
    Tr (if x = y then 0 else if x = true then 1 else -1) (if y = z then 0 else if y = true then 1 else -1)
       (if x = z then (0 : Int) else if x = true then 1 else -1) := by
  cases x <;> cases y <;> cases z <;> simp [Tr]

theorem AS_zero : AS 0 0 := by simp [AS]
theorem Tr_zero : Tr 0 0 0 := by simp [Tr]

/-! ### cmpFlat -/

theorem cmpFlat_tag_ne (a b : Value) (h : tag a ≠ tag b) : cmpFlat a b = (tag a : Int) - (tag b : Int) := by
  unfold cmpFlat; simp [h]

theorem cmpFlat_AS (a b : Value) (ha : NoNaN a) (hb : NoNaN b) : AS (cmpFlat a b) (cmpFlat b a) := by
  by_cases h : tag a = tag b
  · cases a <;> cases b <;> (try (simp [tag] at h; done))
    all_goals simp only [cmpFlat, tag, ne_eq, not_true_eq_false, ↓reduceIte]
    case null.null => exact AS_zero
    case bool.bool => exact AS_bool _ _
    case dec.dec => exact AS_cmpDesc_int _ _
    case int.int => exact AS_cmpDesc_int _ _
    case long.long => exact AS_cmpDesc_int _ _
    case hash.hash => exact AS_cmpDesc_int _ _
    case f32.f32 =>
      simp only [NoNaN, noNaN, Bool.not_eq_true'] at ha hb
      exact AS_cmpDesc_f _ _ _ _ ha hb
    case f64.f64 =>
      simp only [NoNaN, noNaN, Bool.not_eq_true'] at ha hb
      exact AS_cmpDesc_f _ _ _ _ ha hb
    case dsum.dsum =>
      simp only [NoNaN, noNaN, Bool.not_eq_true'] at ha hb
      rw [dsum_cmp_key _ _ _ _ ha hb, dsum_cmp_key _ _ _ _ hb ha]
      exact AS_cmpSum _ _ _ _
    case lsum.lsum => exact AS_cmpSum _ _ _ _
    case text.text => exact AS_cmpDesc_of (AS_cmpStr _ _)
    case blob.blob => exact AS_cmpSeq_ltNat _ _
    case ip4.ip4 => exact AS_cmpSeq_ltNat _ _
    case ai.ai => exact AS_cmpSeq_ltInt _ _
    case al.al => exact AS_cmpSeq_ltInt _ _
    case af.af =>
      simp only [NoNaN, noNaN] at ha hb
      exact AS_cmpSeq_lt32 _ _ ha hb
    case at.at => exact AS_cmpStrs _ _
    case list.list => exact AS_zero
    case map.map => exact AS_zero
    case imap.imap => exact AS_zero
  · rw [cmpFlat_tag_ne a b h, cmpFlat_tag_ne b a (Ne.symm h)]; exact AS_neg _ _

end Value

namespace Value

theorem Tr_tags (x y z : Int) (p q r : Int) (hp : x ≠ y → p = x - y) (hq : y ≠ z → q = y - z)
    (hr : x ≠ z → r = x - z) (hne : ¬ (x = y ∧ y = z)) : Tr p q r := by
  unfold Tr
  by_cases h1 : x = y <;> by_cases h2 : y = z <;> by_cases h3 : x = z <;>
    simp_all <;> omega

theorem cmpFlat_Tr (a b c : Value) (ha : NoNaN a) (hb : NoNaN b) (hc : NoNaN c) :
    Tr (cmpFlat a b) (cmpFlat b c) (cmpFlat a c) := by
  by_cases h : tag a = tag b ∧ tag b = tag c
  · obtain ⟨h1, h2⟩ := h
    cases a <;> cases b <;> (try (simp [tag] at h1; done)) <;> cases c <;> (try (simp [tag] at h2; done))
    all_goals simp only [cmpFlat, tag, ne_eq, not_true_eq_false, ↓reduceIte]
    case null.null.null => exact Tr_zero
    case bool.bool.bool => exact Tr_bool _ _ _
    case dec.dec.dec => exact Tr_cmpDesc_int _ _ _
    case int.int.int => exact Tr_cmpDesc_int _ _ _
    case long.long.long => exact Tr_cmpDesc_int _ _ _
    case hash.hash.hash => exact Tr_cmpDesc_int _ _ _
    case f32.f32.f32 =>
      simp only [NoNaN, noNaN, Bool.not_eq_true'] at ha hb hc
      exact Tr_cmpDesc_f _ _ _ _ _ ha hb hc
    case f64.f64.f64 =>
      simp only [NoNaN, noNaN, Bool.not_eq_true'] at ha hb hc
      exact Tr_cmpDesc_f _ _ _ _ _ ha hb hc
    case dsum.dsum.dsum =>
      simp only [NoNaN, noNaN, Bool.not_eq_true'] at ha hb hc
      rw [dsum_cmp_key _ _ _ _ ha hb, dsum_cmp_key _ _ _ _ hb hc, dsum_cmp_key _ _ _ _ ha hc]
      exact Tr_cmpSum _ _ _ _ _ _
    case lsum.lsum.lsum => exact Tr_cmpSum _ _ _ _ _ _
    case text.text.text =>
      exact Tr_cmpDesc_of (Tr_cmpStr _ _ _) (AS_cmpStr _ _) (AS_cmpStr _ _) (AS_cmpStr _ _)
    case blob.blob.blob => exact Tr_cmpSeq_ltNat _ _ _
    case ip4.ip4.ip4 => exact Tr_cmpSeq_ltNat _ _ _
    case ai.ai.ai => exact Tr_cmpSeq_ltInt _ _ _
    case al.al.al => exact Tr_cmpSeq_ltInt _ _ _
    case af.af.af =>
      simp only [NoNaN, noNaN] at ha hb hc
      exact Tr_cmpSeq_lt32 _ _ _ ha hb hc
    case at.at.at => exact Tr_cmpStrs _ _ _
    case list.list.list => exact Tr_zero
    case map.map.map => exact Tr_zero
    case imap.imap.imap => exact Tr_zero
  · apply Tr_tags (tag a) (tag b) (tag c)
    · intro h'; exact cmpFlat_tag_ne a b (by intro e; exact h' (by rw [e]))
    · intro h'; exact cmpFlat_tag_ne b c (by intro e; exact h' (by rw [e]))
    · intro h'; exact cmpFlat_tag_ne a c (by intro e; exact h' (by rw [e]))
    · intro ⟨e1, e2⟩; exact h ⟨by exact_mod_cast e1, by exact_mod_cast e2⟩

/-! ### `CompareTo = 0 ⇔ Equals`, for every type without value children (NaNs included) -/

theorem cmpDesc_zero (e l : Bool) : cmpDesc e l = 0 ↔ e = true := by
  unfold cmpDesc; cases e <;> cases l <;> simp

theorem cmpFlat_zero_iff_eq (a b : Value) : cmpFlat a b = 0 ↔ eqFlat a b = true := by
  by_cases h : tag a = tag b
  · cases a <;> cases b <;> (try (simp [tag] at h; done))
    all_goals simp only [cmpFlat, eqFlat, tag, ne_eq, not_true_eq_false, ↓reduceIte]
    case bool.bool => rename_i x y; cases x <;> cases y <;> simp
    case dec.dec => rw [cmpDesc_int_zero]; simp
    case int.int => rw [cmpDesc_int_zero]; simp
    case long.long => rw [cmpDesc_int_zero]; simp
    case hash.hash => rw [cmpDesc_int_zero]; simp
    case f32.f32 => rw [cmpDesc_zero]
    case f64.f64 => rw [cmpDesc_zero]
    case dsum.dsum =>
      rename_i s c _ _ s' c' _ _
      cases eq64 s s' <;> cases lt64 s s' <;> by_cases h1 : c = c' <;> by_cases h2 : c < c' <;> simp [h1, h2]
    case lsum.lsum =>
      rename_i s c _ _ s' c' _ _
      by_cases h1 : s = s' <;> by_cases h2 : c = c' <;> by_cases h3 : s < s' <;> by_cases h4 : c < c' <;>
        simp [h1, h2, h3, h4]
    case text.text => rw [cmpDesc_zero]; simp [cmpStr_zero]
    case blob.blob => simp
    case ip4.ip4 => simp
    case ai.ai => simp
    case al.al => simp
    case af.af => simp
    case at.at => simp
  · rw [cmpFlat_tag_ne a b h]
    have : ((tag a : Int) - (tag b : Int) = 0) ↔ False := by
      constructor
      · intro e; apply h; omega
      · intro f; exact f.elim
    rw [this]
    unfold eqFlat; simp [h]

end Value
