/-
  Golib.Value.Line — neutral one-line text form of a `Value` (used by the C02 / C20 drivers and
  by the Go harnesses; not part of any theorem).

  A value is a comma separated token sequence in prefix form; containers carry their count:

    N | B,0|1 | D,int | I,int | L,int | F,bits | G,bits | S,sumbits,count,minbits,maxbits
    | M,sum,count,min,max | T,hex | H,int | X,hex | P,hex
    | l,n,v₁,…,vₙ | ai,n,int… | af,n,bits… | at,n,hex… | al,n,int…
    | m,n,hexkey₁,v₁,… | im,n,intkey₁,v₁,…

  hex of the empty byte string is `-`.
-/
import Golib.Value.Model

namespace Value
namespace Line

def hexDigit (n : Nat) : Char :=
  if n < 10 then Char.ofNat (48 + n) else Char.ofNat (87 + n)

def hexOf (bs : Bytes) : String :=
  if bs.isEmpty then "-" else
  String.ofList (bs.foldr (fun b acc => hexDigit (b / 16 % 16) :: hexDigit (b % 16) :: acc) [])

def hexVal (c : Char) : Option Nat :=
  if '0' ≤ c ∧ c ≤ '9' then some (c.toNat - 48)
  else if 'a' ≤ c ∧ c ≤ 'f' then some (c.toNat - 87)
  else none

def ofHexAux : List Char → Bytes → Option Bytes
  | [], acc => some acc.reverse
  | [_], _ => none
  | a :: b :: rest, acc =>
    match hexVal a, hexVal b with
    | some x, some y => ofHexAux rest ((x * 16 + y) :: acc)
    | _, _ => none

def ofHex (s : String) : Option Bytes :=
  if s == "-" then some [] else ofHexAux s.toList []

/-! printing: tokens are pushed in front of an accumulator (right to left), so it is linear -/

mutual
def toks : Value → List String → List String
  | .null, acc => "N" :: acc
  | .bool b, acc => "B" :: (if b then "1" else "0") :: acc
  | .dec v, acc => "D" :: toString v :: acc
  | .int v, acc => "I" :: toString v :: acc
  | .long v, acc => "L" :: toString v :: acc
  | .f32 b, acc => "F" :: toString b :: acc
  | .f64 b, acc => "G" :: toString b :: acc
  | .dsum s c mn mx, acc => "S" :: toString s :: toString c :: toString mn :: toString mx :: acc
  | .lsum s c mn mx, acc => "M" :: toString s :: toString c :: toString mn :: toString mx :: acc
  | .text bs, acc => "T" :: hexOf bs :: acc
  | .hash v, acc => "H" :: toString v :: acc
  | .blob bs, acc => "X" :: hexOf bs :: acc
  | .ip4 bs, acc => "P" :: hexOf bs :: acc
  | .list xs, acc => "l" :: toString xs.length :: toksL xs acc
  | .ai xs, acc => "ai" :: toString xs.length :: (xs.map toString ++ acc)
  | .af xs, acc => "af" :: toString xs.length :: (xs.map toString ++ acc)
  | .at xs, acc => "at" :: toString xs.length :: (xs.map hexOf ++ acc)
  | .al xs, acc => "al" :: toString xs.length :: (xs.map toString ++ acc)
  | .map kvs, acc => "m" :: toString kvs.length :: toksKV kvs acc
  | .imap kvs, acc => "im" :: toString kvs.length :: toksIKV kvs acc
def toksL : List Value → List String → List String
  | [], acc => acc
  | x :: xs, acc => toks x (toksL xs acc)
def toksKV : List (Bytes × Value) → List String → List String
  | [], acc => acc
  | (k, v) :: kvs, acc => hexOf k :: toks v (toksKV kvs acc)
def toksIKV : List (Int × Value) → List String → List String
  | [], acc => acc
  | (k, v) :: kvs, acc => toString k :: toks v (toksIKV kvs acc)
end

def showV (v : Value) : String := ",".intercalate (toks v [])

/-! parsing -/

def takeMany (f : String → Option α) : Nat → List String → List α → Option (List α × List String)
  | 0, ts, acc => some (acc.reverse, ts)
  | _+1, [], _ => none
  | n+1, t :: ts, acc => match f t with
    | some x => takeMany f n ts (x :: acc)
    | none => none

def arr (f : String → Option α) (mk : List α → Value) : List String → Option (Value × List String)
  | n :: ts => match n.toNat? with
    | some n => (takeMany f n ts []).map (fun (xs, ts) => (mk xs, ts))
    | none => none
  | [] => none

mutual
def parse : Nat → List String → Option (Value × List String)
  | 0, _ => none
  | _, [] => none
  | fuel+1, t :: ts =>
    match t, ts with
    | "N", ts => some (.null, ts)
    | "B", b :: ts => some (.bool (b == "1"), ts)
    | "D", x :: ts => x.toInt?.map (fun v => (.dec v, ts))
    | "I", x :: ts => x.toInt?.map (fun v => (.int v, ts))
    | "L", x :: ts => x.toInt?.map (fun v => (.long v, ts))
    | "F", x :: ts => x.toNat?.map (fun v => (.f32 v, ts))
    | "G", x :: ts => x.toNat?.map (fun v => (.f64 v, ts))
    | "S", a :: b :: c :: d :: ts =>
      match a.toNat?, b.toInt?, c.toNat?, d.toNat? with
      | some a, some b, some c, some d => some (.dsum a b c d, ts)
      | _, _, _, _ => none
    | "M", a :: b :: c :: d :: ts =>
      match a.toInt?, b.toInt?, c.toInt?, d.toInt? with
      | some a, some b, some c, some d => some (.lsum a b c d, ts)
      | _, _, _, _ => none
    | "T", x :: ts => (ofHex x).map (fun v => (.text v, ts))
    | "H", x :: ts => x.toInt?.map (fun v => (.hash v, ts))
    | "X", x :: ts => (ofHex x).map (fun v => (.blob v, ts))
    | "P", x :: ts => (ofHex x).map (fun v => (.ip4 v, ts))
    | "ai", ts => arr String.toInt? .ai ts
    | "af", ts => arr String.toNat? .af ts
    | "at", ts => arr ofHex .at ts
    | "al", ts => arr String.toInt? .al ts
    | "l", n :: ts => match n.toNat? with
      | some n => (parseL fuel n ts []).map (fun (xs, ts) => (.list xs, ts))
      | none => none
    | "m", n :: ts => match n.toNat? with
      | some n => (parseKV fuel n ts []).map (fun (xs, ts) => (.map xs, ts))
      | none => none
    | "im", n :: ts => match n.toNat? with
      | some n => (parseIKV fuel n ts []).map (fun (xs, ts) => (.imap xs, ts))
      | none => none
    | _, _ => none
def parseL : Nat → Nat → List String → List Value → Option (List Value × List String)
  | _, 0, ts, acc => some (acc.reverse, ts)
  | 0, _+1, _, _ => none
  | fuel+1, n+1, ts, acc => match parse fuel ts with
    | some (v, ts) => parseL fuel n ts (v :: acc)
    | none => none
def parseKV : Nat → Nat → List String → List (Bytes × Value) → Option (List (Bytes × Value) × List String)
  | _, 0, ts, acc => some (acc.reverse, ts)
  | 0, _+1, _, _ => none
  | _, _+1, [], _ => none
  | fuel+1, n+1, k :: ts, acc => match ofHex k, parse fuel ts with
    | some k, some (v, ts) => parseKV fuel n ts ((k, v) :: acc)
    | _, _ => none
def parseIKV : Nat → Nat → List String → List (Int × Value) → Option (List (Int × Value) × List String)
  | _, 0, ts, acc => some (acc.reverse, ts)
  | 0, _+1, _, _ => none
  | _, _+1, [], _ => none
  | fuel+1, n+1, k :: ts, acc => match k.toInt?, parse fuel ts with
    | some k, some (v, ts) => parseIKV fuel n ts ((k, v) :: acc)
    | _, _ => none
end

/-- parse a whole line into one value -/
def readV (s : String) : Option Value :=
  let ts := s.splitOn ","
  match parse (ts.length + 1) ts with
  | some (v, []) => some v
  | _ => none

end Line
end Value
