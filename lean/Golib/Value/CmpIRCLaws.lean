/-
  Golib.Value.CmpIRCLaws — lemmas about the container / helper IR of CmpIRC.lean:
    * the loops of the shape the code has compute the model's `cmpVs / cmpKVs / cmpIKVs / eqVs / …`
      and `lexBy`;
    * congruence: the interpretation calls `rec` only on the receiver's children.
-/
import Golib.Value.CmpIRC
import Golib.Value.CmpRec

namespace Value
namespace IR

/-! ### the standard bodies compute the model's loops -/

theorem cstep_std (k : Int) (v : Value) (w : Value) :
    runCSteps cmpV v (some w) [.missingRet k, .recNonzero] = if cmpV v w ≠ 0 then some (some (cmpV v w)) else some none := by
  simp [runCSteps]
theorem cstep_std_none (k : Int) (v : Value) :
    runCSteps cmpV v none [.missingRet k, .recNonzero] = some (some k) := by
  simp [runCSteps]
theorem estep_std (b : Bool) (v : Value) (w : Value) :
    runESteps eqV v (some w) [.missingRetE b, .recUnequal false] = if eqV v w = false then some (some false) else some none := by
  simp [runESteps]
theorem estep_std_none (b : Bool) (v : Value) :
    runESteps eqV v none [.missingRetE b, .recUnequal false] = some (some b) := by
  simp [runESteps]

theorem runIdx_cmp_std (k : Int) (xs ys : List Value) (h : xs.length = ys.length) :
    runIdx (fun v1 v2 => runCSteps cmpV v1 v2 [.missingRet k, .recNonzero]) 0 xs ys = some (cmpVs xs ys) := by
  induction xs generalizing ys with
  | nil => simp [runIdx, cmpVs]
  | cons x xs ih =>
    cases ys with
    | nil => simp at h
    | cons y ys =>
      have h' : xs.length = ys.length := by simpa using h
      simp only [runIdx, cmpVs, cstep_std]
      by_cases hc : cmpV x y = 0
      · simp only [hc, ne_eq, not_true_eq_false, if_false]; exact ih ys h'
      · simp [hc]

theorem runIdx_eq_std (b : Bool) (xs ys : List Value) (h : xs.length = ys.length) :
    runIdx (fun v1 v2 => runESteps eqV v1 v2 [.missingRetE b, .recUnequal false]) true xs ys = some (eqVs xs ys) := by
  induction xs generalizing ys with
  | nil => simp [runIdx, eqVs]
  | cons x xs ih =>
    cases ys with
    | nil => simp at h
    | cons y ys =>
      have h' : xs.length = ys.length := by simpa using h
      simp only [runIdx, eqVs, estep_std]
      cases hc : eqV x y
      · simp
      · simp only [Bool.true_eq_false, if_false, Bool.true_and]; exact ih ys h'

theorem runKeys_cmp_std (kvs other : List (Bytes × Value)) :
    runKeys (fun v1 v2 => runCSteps cmpV v1 v2 [.missingRet 1, .recNonzero]) 0 true kvs other = some (cmpKVs kvs other) := by
  induction kvs with
  | nil => simp [runKeys, cmpKVs]
  | cons p kvs ih =>
    obtain ⟨k, v⟩ := p
    cases hl : lookupKV k other with
    | none => simp only [runKeys, cmpKVs, hl, cstep_std_none]; simp
    | some w =>
      simp only [runKeys, cmpKVs, hl, cstep_std]
      by_cases hc : cmpV v w = 0
      · simp only [hc, ne_eq, not_true_eq_false, if_false]; simpa using ih
      · simp [hc]

theorem runKeys_icmp_std (kvs other : List (Int × Value)) :
    runKeys (fun v1 v2 => runCSteps cmpV v1 v2 [.missingRet 1, .recNonzero]) 0 true kvs other = some (cmpIKVs kvs other) := by
  induction kvs with
  | nil => simp [runKeys, cmpIKVs]
  | cons p kvs ih =>
    obtain ⟨k, v⟩ := p
    cases hl : lookupKV k other with
    | none => simp only [runKeys, cmpIKVs, hl, cstep_std_none]; simp
    | some w =>
      simp only [runKeys, cmpIKVs, hl, cstep_std]
      by_cases hc : cmpV v w = 0
      · simp only [hc, ne_eq, not_true_eq_false, if_false]; simpa using ih
      · simp [hc]

theorem runKeys_eq_std (kvs other : List (Bytes × Value)) :
    runKeys (fun v1 v2 => runESteps eqV v1 v2 [.missingRetE false, .recUnequal false]) true true kvs other = some (eqKVs kvs other) := by
  induction kvs with
  | nil => simp [runKeys, eqKVs]
  | cons p kvs ih =>
    obtain ⟨k, v⟩ := p
    cases hl : lookupKV k other with
    | none => simp only [runKeys, eqKVs, hl, estep_std_none]; simp
    | some w =>
      simp only [runKeys, eqKVs, hl, estep_std]
      cases hc : eqV v w
      · simp
      · simp only [Bool.true_eq_false, if_false, Bool.true_and]; simpa using ih

theorem runKeys_ieq_std (kvs other : List (Int × Value)) :
    runKeys (fun v1 v2 => runESteps eqV v1 v2 [.missingRetE false, .recUnequal false]) true true kvs other = some (eqIKVs kvs other) := by
  induction kvs with
  | nil => simp [runKeys, eqIKVs]
  | cons p kvs ih =>
    obtain ⟨k, v⟩ := p
    cases hl : lookupKV k other with
    | none => simp only [runKeys, eqIKVs, hl, estep_std_none]; simp
    | some w =>
      simp only [runKeys, eqIKVs, hl, estep_std]
      cases hc : eqV v w
      · simp
      · simp only [Bool.true_eq_false, if_false, Bool.true_and]; simpa using ih

/-! ### congruence: `rec` is applied to the receiver's children only -/

theorem runCSteps_congr (f g : Value → Value → Int) (v1 : Value) (v2 : Option Value) (body : List CStep)
    (h : ∀ w, f v1 w = g v1 w) : runCSteps f v1 v2 body = runCSteps g v1 v2 body := by
  induction body with
  | nil => rfl
  | cons s rest ih =>
    cases s with
    | missingRet k => simp [runCSteps, ih]
    | recNonzero => cases v2 with
      | none => simp [runCSteps]
      | some w => simp [runCSteps, h w, ih]
    | unknownK _ => simp [runCSteps]

theorem runESteps_congr (f g : Value → Value → Bool) (v1 : Value) (v2 : Option Value) (body : List EStep)
    (h : ∀ w, f v1 w = g v1 w) : runESteps f v1 v2 body = runESteps g v1 v2 body := by
  induction body with
  | nil => rfl
  | cons s rest ih =>
    cases s with
    | missingRetE k => simp [runESteps, ih]
    | recUnequal b => cases v2 with
      | none => simp [runESteps]
      | some w => simp [runESteps, h w, ih]
    | unknownQ _ => simp [runESteps]

theorem runIdx_congr (s t : Value → Option Value → Option (Option α)) (e : α) (xs ys : List Value)
    (h : ∀ x ∈ xs, ∀ o, s x o = t x o) : runIdx s e xs ys = runIdx t e xs ys := by
  induction xs generalizing ys with
  | nil => simp [runIdx]
  | cons x xs ih =>
    cases ys with
    | nil => simp [runIdx]
    | cons y ys =>
      simp only [runIdx]
      rw [h x (by simp), ih ys (fun x' hx' => h x' (by simp [hx']))]

theorem runKeys_congr {K : Type} [DecidableEq K] (s t : Value → Option Value → Option (Option α)) (e : α) (c : Bool)
    (kvs other : List (K × Value)) (h : ∀ p ∈ kvs, ∀ o, s p.2 o = t p.2 o) :
    runKeys s e c kvs other = runKeys t e c kvs other := by
  induction kvs with
  | nil => simp [runKeys]
  | cons p kvs ih =>
    obtain ⟨k, v⟩ := p
    simp only [runKeys]
    rw [h (k, v) (by simp), ih (fun p' hp' => h p' (by simp [hp']))]

/-- the receiver's children -/
def children : Value → List Value
  | .list xs => xs
  | .map kvs => kvs.map (·.2)
  | .imap kvs => kvs.map (·.2)
  | _ => []

theorem runContCmp_congr (cc : ContCmp) (f g : Value → Value → Int) (a b : Value)
    (h : ∀ x ∈ children a, ∀ w, f x w = g x w) : runContCmp cc f a b = runContCmp cc g a b := by
  unfold runContCmp
  cases a <;> cases b <;> try rfl
  case list.list xs ys =>
    simp only []
    rw [runIdx_congr _ (fun v1 v2 => runCSteps g v1 v2 cc.body) cc.endRet xs ys
      (fun x hx o => runCSteps_congr f g x o cc.body (h x (by simpa [children] using hx)))]
  case map.map xs ys =>
    simp only []
    rw [runKeys_congr _ (fun v1 v2 => runCSteps g v1 v2 cc.body) cc.endRet cc.thatCommaOk xs ys
      (fun p hp o => runCSteps_congr f g p.2 o cc.body (h p.2 (by simp only [children, List.mem_map]; exact ⟨p, hp, rfl⟩)))]
  case imap.imap xs ys =>
    simp only []
    rw [runKeys_congr _ (fun v1 v2 => runCSteps g v1 v2 cc.body) cc.endRet cc.thatCommaOk xs ys
      (fun p hp o => runCSteps_congr f g p.2 o cc.body (h p.2 (by simp only [children, List.mem_map]; exact ⟨p, hp, rfl⟩)))]

theorem runContEq_congr (ce : ContEq) (f g : Value → Value → Bool) (a b : Value)
    (h : ∀ x ∈ children a, ∀ w, f x w = g x w) : runContEq ce f a b = runContEq ce g a b := by
  unfold runContEq
  cases a <;> cases b <;> try rfl
  case list.list xs ys =>
    simp only []
    rw [runIdx_congr _ (fun v1 v2 => runESteps g v1 v2 ce.body) ce.endRet xs ys
      (fun x hx o => runESteps_congr f g x o ce.body (h x (by simpa [children] using hx)))]
  case map.map xs ys =>
    simp only []
    rw [runKeys_congr _ (fun v1 v2 => runESteps g v1 v2 ce.body) ce.endRet ce.thatCommaOk xs ys
      (fun p hp o => runESteps_congr f g p.2 o ce.body (h p.2 (by simp only [children, List.mem_map]; exact ⟨p, hp, rfl⟩)))]
  case imap.imap xs ys =>
    simp only []
    rw [runKeys_congr _ (fun v1 v2 => runESteps g v1 v2 ce.body) ce.endRet ce.thatCommaOk xs ys
      (fun p hp o => runESteps_congr f g p.2 o ce.body (h p.2 (by simp only [children, List.mem_map]; exact ⟨p, hp, rfl⟩)))]

/-! ### the slice helpers -/

theorem runHLoop_ltgt (lt : α → α → Bool) (c : α → α → Int) (xs ys : List α) :
    runHLoop lt c [.ifGt 1, .ifLt (-1)] xs ys = some (cmpSeq lt xs ys) := by
  unfold cmpSeq
  induction xs generalizing ys with
  | nil => simp [runHLoop, lexBy]
  | cons x xs ih =>
    cases ys with
    | nil => simp [runHLoop, lexBy]
    | cons y ys =>
      cases h1 : lt y x <;> cases h2 : lt x y <;> simp [runHLoop, runHSteps, lexBy, cmpOf, h1, h2, ih]

theorem runHLoop_cmp3 (lt : α → α → Bool) (c : α → α → Int) (xs ys : List α) :
    runHLoop lt c [.cmp3Nonzero] xs ys = some (lexBy c xs ys) := by
  induction xs generalizing ys with
  | nil => simp [runHLoop, lexBy]
  | cons x xs ih =>
    cases ys with
    | nil => simp [runHLoop, lexBy]
    | cons y ys =>
      by_cases h : c x y = 0 <;> simp [runHLoop, runHSteps, lexBy, h, ih]

end IR
end Value
