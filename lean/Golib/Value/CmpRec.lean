/-
  Golib.Value.CmpRec — how `cmpV` / `eqV` unfold: the type fallback, the flat types, and the three
  container loops characterised as list statements (so that the laws can be proved by induction
  on the size of a value with ordinary list reasoning).
-/
import Golib.Value.CmpFlat
import Golib.Value.Facts

namespace Value

/-! ### association lists -/

theorem lookupKV_some_mem {K : Type} [DecidableEq K] (k : K) (l : List (K × Value)) (v : Value)
    (h : lookupKV k l = some v) : (k, v) ∈ l := by
  induction l with
  | nil => simp [lookupKV] at h
  | cons p t ih =>
    obtain ⟨k', v'⟩ := p
    simp only [lookupKV] at h
    split at h
    · rename_i e; cases h; subst e; simp
    · exact List.mem_cons_of_mem _ (ih h)

theorem lookupKV_of_mem_nodup {K : Type} [DecidableEq K] (k : K) (l : List (K × Value)) (v : Value)
    (hm : (k, v) ∈ l) (hn : (l.map (·.1)).Nodup) : lookupKV k l = some v := by
  induction l with
  | nil => cases hm
  | cons p t ih =>
    obtain ⟨k', v'⟩ := p
    simp only [List.map_cons, List.nodup_cons] at hn
    simp only [lookupKV]
    rcases List.mem_cons.mp hm with e | hm'
    · cases e; simp
    · split
      · rename_i e; subst e
        exact absurd (List.mem_map.mpr ⟨(k', v), hm', rfl⟩) hn.1
      · exact ih hm' hn.2

theorem lookupKV_none_iff {K : Type} [DecidableEq K] (k : K) (l : List (K × Value)) :
    lookupKV k l = none ↔ k ∉ l.map (·.1) := by
  induction l with
  | nil => simp [lookupKV]
  | cons p t ih =>
    obtain ⟨k', v'⟩ := p
    simp only [lookupKV, List.map_cons, List.mem_cons]
    split
    · rename_i e; subst e; simp
    · rename_i ne
      rw [ih]
      constructor
      · intro h hh; rcases hh with e | hh
        · exact ne e.symm
        · exact h hh
      · intro h hh; exact h (Or.inr hh)

/-- positional lookup: with equal key sequences without repetition, the value found under the
    i-th key of `a` is the i-th value of `b` -/
theorem lookupKV_aligned {K : Type} [DecidableEq K] (a b : List (K × Value))
    (hk : a.map (·.1) = b.map (·.1)) (hn : (b.map (·.1)).Nodup) (i : Nat) (h1 : i < a.length) (h2 : i < b.length) :
    lookupKV a[i].1 b = some b[i].2 := by
  apply lookupKV_of_mem_nodup _ _ _ _ hn
  have e : a[i].1 = b[i].1 := by
    have h1' : i < (a.map (·.1)).length := by simpa using h1
    have : (a.map (·.1))[i]'h1' = (b.map (·.1))[i]'(by simpa using h2) := by
      simp only [hk]
    simpa using this
  rw [e]
  exact List.getElem_mem h2

/-! ### first non-zero -/

/-- the result of a loop that returns the first non-zero element comparison, else 0 -/
def firstNZ : List Int → Int
  | [] => 0
  | x :: xs => if x ≠ 0 then x else firstNZ xs

theorem firstNZ_zero (l : List Int) : firstNZ l = 0 ↔ ∀ x ∈ l, x = 0 := by
  induction l with
  | nil => simp [firstNZ]
  | cons x t ih =>
    simp only [firstNZ, List.mem_cons]
    split
    · rename_i h
      constructor
      · intro e; exact absurd e h
      · intro hh; exact absurd (hh x (Or.inl rfl)) h
    · rename_i h
      have hx : x = 0 := by simpa using h
      rw [ih]
      constructor
      · intro hh y hy; rcases hy with e | hy; exact e ▸ hx; exact hh y hy
      · intro hh y hy; exact hh y (Or.inr hy)

theorem lexBy_eq_firstNZ (c : α → β → Int) (xs : List α) (ys : List β) (h : xs.length = ys.length) :
    lexBy c xs ys = firstNZ ((xs.zip ys).map (fun p => c p.1 p.2)) := by
  induction xs generalizing ys with
  | nil => cases ys with
    | nil => rfl
    | cons _ _ => simp at h
  | cons x xs ih =>
    cases ys with
    | nil => simp at h
    | cons y ys =>
      simp only [lexBy, List.zip_cons_cons, List.map_cons, firstNZ]
      rw [ih ys (by simpa using h)]

/-! ### unfolding -/

theorem cmpVs_eq_lexBy (xs ys : List Value) (h : xs.length = ys.length) : cmpVs xs ys = lexBy cmpV xs ys := by
  induction xs generalizing ys with
  | nil => cases ys with
    | nil => simp [cmpVs, lexBy]
    | cons _ _ => simp at h
  | cons x xs ih =>
    cases ys with
    | nil => simp at h
    | cons y ys =>
      simp only [cmpVs, lexBy]
      rw [ih ys (by simpa using h)]

theorem cmpKVs_eq (a b : List (Bytes × Value)) :
    cmpKVs a b = firstNZ (a.map (fun p => match lookupKV p.1 b with | none => 1 | some w => cmpV p.2 w)) := by
  induction a with
  | nil => simp [cmpKVs, firstNZ]
  | cons p t ih =>
    obtain ⟨k, v⟩ := p
    simp only [cmpKVs, List.map_cons, firstNZ]
    cases hl : lookupKV k b with
    | none => simp
    | some w => simp only [ih]

theorem cmpIKVs_eq (a b : List (Int × Value)) :
    cmpIKVs a b = firstNZ (a.map (fun p => match lookupKV p.1 b with | none => 1 | some w => cmpV p.2 w)) := by
  induction a with
  | nil => simp [cmpIKVs, firstNZ]
  | cons p t ih =>
    obtain ⟨k, v⟩ := p
    simp only [cmpIKVs, List.map_cons, firstNZ]
    cases hl : lookupKV k b with
    | none => simp
    | some w => simp only [ih]

theorem eqVs_iff (xs ys : List Value) (h : xs.length = ys.length) :
    eqVs xs ys = true ↔ ∀ i (h1 : i < xs.length) (h2 : i < ys.length), eqV xs[i] ys[i] = true := by
  induction xs generalizing ys with
  | nil => simp [eqVs]
  | cons x xs ih =>
    cases ys with
    | nil => simp at h
    | cons y ys =>
      simp only [eqVs, Bool.and_eq_true, List.length_cons]
      rw [ih ys (by simpa using h)]
      constructor
      · intro ⟨h0, hr⟩ i h1 h2
        cases i with
        | zero => simpa using h0
        | succ i => simpa using hr i (by omega) (by omega)
      · intro hh
        refine ⟨by simpa using hh 0 (by omega) (by omega), fun i h1 h2 => ?_⟩
        have := hh (i + 1) (by omega) (by omega)
        simp only [List.getElem_cons_succ] at this
        exact this

/-- the map loops of `Equals`: every entry of the receiver has an equal partner under its key -/
def relKV {K : Type} [DecidableEq K] (R : Value → Value → Prop) (a b : List (K × Value)) : Prop :=
  ∀ p ∈ a, ∃ w, lookupKV p.1 b = some w ∧ R p.2 w

theorem eqKVs_iff (a b : List (Bytes × Value)) :
    eqKVs a b = true ↔ relKV (fun v w => eqV v w = true) a b := by
  unfold relKV
  induction a with
  | nil => simp [eqKVs]
  | cons p t ih =>
    obtain ⟨k, v⟩ := p
    simp only [eqKVs, List.mem_cons, forall_eq_or_imp]
    cases hl : lookupKV k b with
    | none => simp
    | some w => simp only [Bool.and_eq_true, ih, Option.some.injEq, exists_eq_left']

theorem eqIKVs_iff (a b : List (Int × Value)) :
    eqIKVs a b = true ↔ relKV (fun v w => eqV v w = true) a b := by
  unfold relKV
  induction a with
  | nil => simp [eqIKVs]
  | cons p t ih =>
    obtain ⟨k, v⟩ := p
    simp only [eqIKVs, List.mem_cons, forall_eq_or_imp]
    cases hl : lookupKV k b with
    | none => simp
    | some w => simp only [Bool.and_eq_true, ih, Option.some.injEq, exists_eq_left']

end Value

namespace Value

/-! ### induction over values: flat types, and containers given the property for every child -/

def isFlat : Value → Bool
  | .list _ => false
  | .map _ => false
  | .imap _ => false
  | _ => true

section Ind
set_option linter.unusedSectionVars false
variable (P : Value → Prop)
  (hFlat : ∀ a, isFlat a = true → P a)
  (hList : ∀ xs, (∀ x ∈ xs, P x) → P (.list xs))
  (hMap : ∀ kvs : List (Bytes × Value), (∀ p ∈ kvs, P p.2) → P (.map kvs))
  (hIMap : ∀ kvs : List (Int × Value), (∀ p ∈ kvs, P p.2) → P (.imap kvs))
include hFlat hList hMap hIMap

mutual
theorem value_ind (a : Value) : P a := by
  cases a with
  | list xs => exact hList xs (value_ind_list xs)
  | map kvs => exact hMap kvs (value_ind_map kvs)
  | imap kvs => exact hIMap kvs (value_ind_imap kvs)
  | _ => exact hFlat _ rfl
theorem value_ind_list (xs : List Value) : ∀ x ∈ xs, P x := by
  cases xs with
  | nil => intro x h; cases h
  | cons y t =>
    intro x h
    rcases List.mem_cons.mp h with e | h'
    · rw [e]; exact value_ind y
    · exact value_ind_list t x h'
theorem value_ind_map (kvs : List (Bytes × Value)) : ∀ p ∈ kvs, P p.2 := by
  cases kvs with
  | nil => intro x h; cases h
  | cons y t =>
    obtain ⟨k, v⟩ := y
    intro x h
    rcases List.mem_cons.mp h with e | h'
    · rw [e]; exact value_ind v
    · exact value_ind_map t x h'
theorem value_ind_imap (kvs : List (Int × Value)) : ∀ p ∈ kvs, P p.2 := by
  cases kvs with
  | nil => intro x h; cases h
  | cons y t =>
    obtain ⟨k, v⟩ := y
    intro x h
    rcases List.mem_cons.mp h with e | h'
    · rw [e]; exact value_ind v
    · exact value_ind_imap t x h'
end
end Ind

/-! ### unfolding `cmpV` / `eqV` -/

theorem cmpV_flat (a b : Value) (h : isFlat a = true) : cmpV a b = cmpFlat a b := by
  cases a <;> first | (simp [isFlat] at h; done) | simp only [cmpV]

theorem eqV_flat (a b : Value) (h : isFlat a = true) : eqV a b = eqFlat a b := by
  cases a <;> first | (simp [isFlat] at h; done) | simp only [eqV]

theorem cmpV_tag_ne (a b : Value) (h : tag a ≠ tag b) : cmpV a b = (tag a : Int) - (tag b : Int) := by
  cases a with
  | list xs => cases b <;> first | exact absurd rfl h | simp [cmpV, tag]
  | map xs => cases b <;> first | exact absurd rfl h | simp [cmpV, tag]
  | imap xs => cases b <;> first | exact absurd rfl h | simp [cmpV, tag]
  | _ => rw [cmpV_flat _ _ rfl]; exact cmpFlat_tag_ne _ _ h

theorem eqV_tag_ne (a b : Value) (h : tag a ≠ tag b) : eqV a b = false := by
  cases a with
  | list xs => cases b <;> first | exact absurd rfl h | simp [eqV]
  | map xs => cases b <;> first | exact absurd rfl h | simp [eqV]
  | imap xs => cases b <;> first | exact absurd rfl h | simp [eqV]
  | _ => rw [eqV_flat _ _ rfl]; unfold eqFlat; simp [h]

/-- same tag ⇒ same constructor: the three containers -/
theorem tag_list (b : Value) (h : tag b = 70) : ∃ ys, b = .list ys := by
  cases b <;> first | exact ⟨_, rfl⟩ | (simp [tag] at h; done)
theorem tag_map (b : Value) (h : tag b = 80) : ∃ ys, b = .map ys := by
  cases b <;> first | exact ⟨_, rfl⟩ | (simp [tag] at h; done)
theorem tag_imap (b : Value) (h : tag b = 81) : ∃ ys, b = .imap ys := by
  cases b <;> first | exact ⟨_, rfl⟩ | (simp [tag] at h; done)

theorem isFlat_of_tag (a b : Value) (h : tag a = tag b) (ha : isFlat a = true) : isFlat b = true := by
  cases a <;> cases b <;> first | rfl | (simp [tag] at h; done) | (simp [isFlat] at ha; done)

theorem cmpV_list (xs ys : List Value) :
    cmpV (.list xs) (.list ys) = if xs.length ≠ ys.length then (xs.length : Int) - ys.length else cmpVs xs ys := by
  simp [cmpV]
theorem cmpV_map (a b : List (Bytes × Value)) :
    cmpV (.map a) (.map b) = if a.length ≠ b.length then (a.length : Int) - b.length else cmpKVs a b := by
  simp [cmpV]
theorem cmpV_imap (a b : List (Int × Value)) :
    cmpV (.imap a) (.imap b) = if a.length ≠ b.length then (a.length : Int) - b.length else cmpIKVs a b := by
  simp [cmpV]
theorem eqV_list (xs ys : List Value) : eqV (.list xs) (.list ys) = (xs.length == ys.length && eqVs xs ys) := by
  simp [eqV]
theorem eqV_map (a b : List (Bytes × Value)) : eqV (.map a) (.map b) = (a.length == b.length && eqKVs a b) := by
  simp [eqV]
theorem eqV_imap (a b : List (Int × Value)) : eqV (.imap a) (.imap b) = (a.length == b.length && eqIKVs a b) := by
  simp [eqV]

end Value

namespace Value

/-! ### the recursive predicates, as statements about members / positions -/

theorem wfVs_iff (xs : List Value) : wfVs xs = true ↔ ∀ x ∈ xs, wfV x = true := by
  induction xs with
  | nil => simp [wfVs]
  | cons x t ih => simp [wfVs, ih]
theorem wfKVs_mem (kvs : List (Bytes × Value)) (h : wfKVs kvs = true) : ∀ p ∈ kvs, wfV p.2 = true := by
  induction kvs with
  | nil => intro p hp; cases hp
  | cons x t ih =>
    obtain ⟨k, v⟩ := x
    simp only [wfKVs, Bool.and_eq_true] at h
    intro p hp
    rcases List.mem_cons.mp hp with e | hp'
    · rw [e]; exact h.1.2
    · exact ih h.2 p hp'
theorem wfIKVs_mem (kvs : List (Int × Value)) (h : wfIKVs kvs = true) : ∀ p ∈ kvs, wfV p.2 = true := by
  induction kvs with
  | nil => intro p hp; cases hp
  | cons x t ih =>
    obtain ⟨k, v⟩ := x
    simp only [wfIKVs, Bool.and_eq_true] at h
    intro p hp
    rcases List.mem_cons.mp hp with e | hp'
    · rw [e]; exact h.1.2
    · exact ih h.2 p hp'

theorem noNaNs_iff (xs : List Value) : noNaNs xs = true ↔ ∀ x ∈ xs, noNaN x = true := by
  induction xs with
  | nil => simp [noNaNs]
  | cons x t ih => simp [noNaNs, ih]
theorem noNaNKVs_mem (kvs : List (Bytes × Value)) (h : noNaNKVs kvs = true) : ∀ p ∈ kvs, noNaN p.2 = true := by
  induction kvs with
  | nil => intro p hp; cases hp
  | cons x t ih =>
    obtain ⟨k, v⟩ := x
    simp only [noNaNKVs, Bool.and_eq_true] at h
    intro p hp
    rcases List.mem_cons.mp hp with e | hp'
    · rw [e]; exact h.1
    · exact ih h.2 p hp'
theorem noNaNIKVs_mem (kvs : List (Int × Value)) (h : noNaNIKVs kvs = true) : ∀ p ∈ kvs, noNaN p.2 = true := by
  induction kvs with
  | nil => intro p hp; cases hp
  | cons x t ih =>
    obtain ⟨k, v⟩ := x
    simp only [noNaNIKVs, Bool.and_eq_true] at h
    intro p hp
    rcases List.mem_cons.mp hp with e | hp'
    · rw [e]; exact h.1
    · exact ih h.2 p hp'

theorem alignedVs_idx (xs ys : List Value) (h : alignedVs xs ys = true) :
    ∀ i (h1 : i < xs.length) (h2 : i < ys.length), aligned xs[i] ys[i] = true := by
  induction xs generalizing ys with
  | nil => intro i h1; simp at h1
  | cons x t ih =>
    cases ys with
    | nil => intro i _ h2; simp at h2
    | cons y u =>
      simp only [alignedVs, Bool.and_eq_true] at h
      intro i h1 h2
      cases i with
      | zero => simpa using h.1
      | succ i => simpa using ih u h.2 i (by simpa using h1) (by simpa using h2)

theorem alignedKVs_idx (xs ys : List (Bytes × Value)) (h : alignedKVs xs ys = true) :
    ∀ i (h1 : i < xs.length) (h2 : i < ys.length), aligned xs[i].2 ys[i].2 = true := by
  induction xs generalizing ys with
  | nil => intro i h1; simp at h1
  | cons x t ih =>
    cases ys with
    | nil => intro i _ h2; simp at h2
    | cons y u =>
      obtain ⟨k, v⟩ := x; obtain ⟨k', w⟩ := y
      simp only [alignedKVs, Bool.and_eq_true] at h
      intro i h1 h2
      cases i with
      | zero => simpa using h.1
      | succ i => simpa using ih u h.2 i (by simpa using h1) (by simpa using h2)

theorem alignedIKVs_idx (xs ys : List (Int × Value)) (h : alignedIKVs xs ys = true) :
    ∀ i (h1 : i < xs.length) (h2 : i < ys.length), aligned xs[i].2 ys[i].2 = true := by
  induction xs generalizing ys with
  | nil => intro i h1; simp at h1
  | cons x t ih =>
    cases ys with
    | nil => intro i _ h2; simp at h2
    | cons y u =>
      obtain ⟨k, v⟩ := x; obtain ⟨k', w⟩ := y
      simp only [alignedIKVs, Bool.and_eq_true] at h
      intro i h1 h2
      cases i with
      | zero => simpa using h.1
      | succ i => simpa using ih u h.2 i (by simpa using h1) (by simpa using h2)

theorem aligned_list (xs ys : List Value) :
    aligned (.list xs) (.list ys) = (xs.length != ys.length || alignedVs xs ys) := by simp [aligned]
theorem aligned_map (a b : List (Bytes × Value)) :
    aligned (.map a) (.map b) = (a.length != b.length || (a.map (·.1) == b.map (·.1) && alignedKVs a b)) := by
  simp [aligned]
theorem aligned_imap (a b : List (Int × Value)) :
    aligned (.imap a) (.imap b) = (a.length != b.length || (a.map (·.1) == b.map (·.1) && alignedIKVs a b)) := by
  simp [aligned]

/-- with the same key sequence (no repetitions) the map loop is the positional loop over the values -/
theorem firstNZ_aligned {K : Type} [DecidableEq K] (a b : List (K × Value))
    (hk : a.map (·.1) = b.map (·.1)) (hn : (b.map (·.1)).Nodup) :
    firstNZ (a.map (fun p => match lookupKV p.1 b with | none => 1 | some w => cmpV p.2 w))
      = lexBy cmpV (a.map (·.2)) (b.map (·.2)) := by
  have hl : a.length = b.length := by
    have := congrArg List.length hk
    simpa using this
  rw [lexBy_eq_firstNZ _ _ _ (by simpa using hl)]
  congr 1
  apply List.ext_getElem
  · simp [List.length_zip, hl]
  · intro i h1 h2
    simp only [List.length_map] at h1
    simp only [List.getElem_map, List.getElem_zip]
    rw [lookupKV_aligned a b hk hn i h1 (by omega)]

theorem cmpKVs_aligned (a b : List (Bytes × Value)) (hk : a.map (·.1) = b.map (·.1))
    (hn : (b.map (·.1)).Nodup) : cmpKVs a b = lexBy cmpV (a.map (·.2)) (b.map (·.2)) := by
  rw [cmpKVs_eq]; exact firstNZ_aligned a b hk hn
theorem cmpIKVs_aligned (a b : List (Int × Value)) (hk : a.map (·.1) = b.map (·.1))
    (hn : (b.map (·.1)).Nodup) : cmpIKVs a b = lexBy cmpV (a.map (·.2)) (b.map (·.2)) := by
  rw [cmpIKVs_eq]; exact firstNZ_aligned a b hk hn

end Value
