/-
  Golib.Value.DecWF — whatever the decoder accepts (on byte input) is a well-formed value, so
  decoding normalises: re-encoding a decoded value and decoding again gives the same value.
-/
import Golib.Value.Facts

namespace Value
open Prim

theorem WFB_take (n : Nat) (bs : Bytes) (h : WFB bs) : WFB (bs.take n) :=
  fun b hb => h b (List.mem_of_mem_take hb)

theorem run_rest_WFB {α : Type} (p : P α) (bs : Bytes) (v : α) (r : Bytes)
    (h : P.run p bs = some (v, r)) (hb : WFB bs) : WFB r := by
  obtain ⟨a, ha, _⟩ := P.locality p bs v r h
  rw [ha] at hb; exact (WFB_append.mp hb).2

theorem run_rdI_range (w : Nat) (bs : Bytes) (v : Int) (r : Bytes)
    (h : P.run (rdI w) bs = some (v, r)) (hb : WFB bs) : inRange w v := by
  unfold rdI at h
  rw [P.run_read] at h
  split at h
  · rename_i hw
    simp only [P.run_pure, Option.some.injEq, Prod.mk.injEq] at h
    obtain ⟨rfl, _⟩ := h
    unfold decI
    apply ofU_inRange
    have := unbeN_lt (bs.take w) (WFB_take w bs hb)
    rwa [List.length_take, Nat.min_eq_left hw] at this
  · cases h

theorem run_rdU_lt (w : Nat) (bs : Bytes) (v : Nat) (r : Bytes)
    (h : P.run (rdU w) bs = some (v, r)) (hb : WFB bs) : v < 256 ^ w := by
  unfold rdU at h
  rw [P.run_read] at h
  split at h
  · rename_i hw
    simp only [P.run_pure, Option.some.injEq, Prod.mk.injEq] at h
    obtain ⟨rfl, _⟩ := h
    have := unbeN_lt (bs.take w) (WFB_take w bs hb)
    rwa [List.length_take, Nat.min_eq_left hw] at this
  · cases h

theorem run_rdBytes_spec (n : Nat) (bs v r : Bytes)
    (h : P.run (rdBytes n) bs = some (v, r)) (hb : WFB bs) : WFB v ∧ v.length = n := by
  unfold rdBytes at h
  rw [P.run_read] at h
  split at h
  · rename_i hw
    simp only [P.run_pure, Option.some.injEq, Prod.mk.injEq] at h
    obtain ⟨rfl, _⟩ := h
    exact ⟨WFB_take n bs hb, by rw [List.length_take, Nat.min_eq_left hw]⟩
  · cases h

theorem inRange_8_of (w : Nat) (v : Int) (hw : w = 1 ∨ w = 2 ∨ w = 3 ∨ w = 4 ∨ w = 5 ∨ w = 8)
    (h : inRange w v) : inRange 8 v := by
  rcases hw with rfl | rfl | rfl | rfl | rfl | rfl
  · rw [inRange_1] at h; rw [inRange_8]; omega
  · rw [inRange_2] at h; rw [inRange_8]; omega
  · rw [inRange_3] at h; rw [inRange_8]; omega
  · rw [inRange_4] at h; rw [inRange_8]; omega
  · rw [inRange_5] at h; rw [inRange_8]; omega
  · exact h

theorem run_decDecimal_range (bs : Bytes) (v : Int) (r : Bytes)
    (h : P.run decDecimal bs = some (v, r)) (hb : WFB bs) : inRange 8 v := by
  unfold decDecimal at h
  rw [P.run_read] at h
  split at h
  · have hd : WFB (bs.drop 1) := fun b hb' => hb b (List.mem_of_mem_drop hb')
    unfold decDecimalLen at h
    split at h
    · simp only [P.run_pure, Option.some.injEq, Prod.mk.injEq] at h
      obtain ⟨rfl, _⟩ := h; rw [inRange_8]; omega
    · exact inRange_8_of 1 v (by simp) (run_rdI_range 1 _ v r h hd)
    · exact inRange_8_of 2 v (by simp) (run_rdI_range 2 _ v r h hd)
    · exact inRange_8_of 3 v (by simp) (run_rdI_range 3 _ v r h hd)
    · exact inRange_8_of 4 v (by simp) (run_rdI_range 4 _ v r h hd)
    · exact inRange_8_of 5 v (by simp) (run_rdI_range 5 _ v r h hd)
    · exact run_rdI_range 8 _ v r h hd
  · cases h

theorem run_decBlob_spec (bs v r : Bytes) (h : P.run decBlob bs = some (v, r)) (hb : WFB bs) :
    WFB v ∧ v.length < 2147483648 := by
  unfold decBlob at h
  rw [P.run_read] at h
  split at h
  · rename_i h1
    have hd : WFB (bs.drop 1) := fun b hb' => hb b (List.mem_of_mem_drop hb')
    have hhead : (bs.take 1).headD 0 < 256 := by
      cases bs with
      | nil => simp at h1
      | cons b t => simp; exact hb b (by simp)
    split at h
    · rw [P.run_bind] at h
      cases hr : P.run (rdU 2) (bs.drop 1) with
      | none => rw [hr] at h; cases h
      | some p =>
        obtain ⟨n, r'⟩ := p
        rw [hr] at h
        have hn := run_rdU_lt 2 _ n r' hr hd
        obtain ⟨h2, h3⟩ := run_rdBytes_spec n r' v r h (run_rest_WFB _ _ _ _ hr hd)
        exact ⟨h2, by rw [h3]; omega⟩
    · rw [P.run_bind] at h
      cases hr : P.run (rdI 4) (bs.drop 1) with
      | none => rw [hr] at h; cases h
      | some p =>
        obtain ⟨n, r'⟩ := p
        rw [hr] at h
        have hn := (inRange_4 n).mp (run_rdI_range 4 _ n r' hr hd)
        simp only at h
        split at h
        · cases h
        · obtain ⟨h2, h3⟩ := run_rdBytes_spec n.toNat r' v r h (run_rest_WFB _ _ _ _ hr hd)
          exact ⟨h2, by rw [h3]; omega⟩
    · simp only [P.run_pure, Option.some.injEq, Prod.mk.injEq] at h
      obtain ⟨rfl, _⟩ := h
      exact ⟨WFB_nil, by simp⟩
    · obtain ⟨h2, h3⟩ := run_rdBytes_spec _ _ v r h hd
      exact ⟨h2, by rw [h3]; omega⟩
  · cases h

theorem run_decManyAcc_spec {α : Type} (dec : P α) (Q : α → Prop)
    (hq : ∀ bs v r, WFB bs → P.run dec bs = some (v, r) → Q v) :
    ∀ (n : Nat) (acc : List α) (bs : Bytes) (xs : List α) (r : Bytes), WFB bs → (∀ x ∈ acc, Q x) →
      P.run (decManyAcc dec n acc) bs = some (xs, r) → (∀ x ∈ xs, Q x) ∧ xs.length = acc.length + n := by
  intro n
  induction n with
  | zero =>
    intro acc bs xs r _ ha h
    simp only [decManyAcc, P.run_pure, Option.some.injEq, Prod.mk.injEq] at h
    obtain ⟨rfl, _⟩ := h
    exact ⟨fun x hx => ha x (List.mem_reverse.mp hx), by simp⟩
  | succ n ih =>
    intro acc bs xs r hb ha h
    simp only [decManyAcc] at h
    rw [P.run_bind] at h
    cases hr : P.run dec bs with
    | none => rw [hr] at h; cases h
    | some p =>
      obtain ⟨x, r'⟩ := p
      rw [hr] at h
      obtain ⟨h1, h2⟩ := ih (x :: acc) r' xs r (run_rest_WFB _ _ _ _ hr hb)
        (fun y hy => by
          rcases List.mem_cons.mp hy with e | hy'
          · rw [e]; exact hq bs x r' hb hr
          · exact ha y hy') h
      exact ⟨h1, by rw [h2]; simp; omega⟩

theorem run_decArr_spec {α : Type} (dec : P α) (Q : α → Prop)
    (hq : ∀ bs v r, WFB bs → P.run dec bs = some (v, r) → Q v)
    (bs : Bytes) (xs : List α) (r : Bytes) (hb : WFB bs) (h : P.run (decArr dec) bs = some (xs, r)) :
    (∀ x ∈ xs, Q x) ∧ xs.length ≤ 32767 := by
  unfold decArr at h
  rw [P.run_bind] at h
  cases hr : P.run (rdI 2) bs with
  | none => rw [hr] at h; cases h
  | some p =>
    obtain ⟨n, r'⟩ := p
    rw [hr] at h
    have hn := (inRange_2 n).mp (run_rdI_range 2 _ n r' hr hb)
    simp only at h
    split at h
    · cases h
    · unfold decMany at h
      obtain ⟨h1, h2⟩ := run_decManyAcc_spec dec Q hq n.toNat [] r' xs r (run_rest_WFB _ _ _ _ hr hb)
        (fun x hx => by cases hx) h
      exact ⟨h1, by rw [h2]; simp; omega⟩

end Value

namespace Value
open Prim

/-! ### `Put` keeps the table well-formed and duplicate-free -/

theorem wfKVs_iff (l : List (Bytes × Value)) : wfKVs l = true ↔ ∀ p ∈ l, okBytes p.1 = true ∧ wfV p.2 = true := by
  induction l with
  | nil => simp [wfKVs]
  | cons x t ih =>
    obtain ⟨k, v⟩ := x
    simp only [wfKVs, Bool.and_eq_true, ih, List.mem_cons, forall_eq_or_imp]

theorem wfIKVs_iff (l : List (Int × Value)) : wfIKVs l = true ↔ ∀ p ∈ l, okI32 p.1 = true ∧ wfV p.2 = true := by
  induction l with
  | nil => simp [wfIKVs]
  | cons x t ih =>
    obtain ⟨k, v⟩ := x
    simp only [wfIKVs, Bool.and_eq_true, ih, List.mem_cons, forall_eq_or_imp]

theorem putKV_mem {K : Type} [DecidableEq K] (acc : List (K × Value)) (k : K) (v : Value) :
    ∀ p ∈ putKV acc k v, p ∈ acc ∨ p = (k, v) := by
  intro p hp
  unfold putKV at hp
  split at hp
  · obtain ⟨q, hq, rfl⟩ := List.mem_map.mp hp
    split
    · rename_i e; right; rw [← e]
    · left; exact hq
  · rcases List.mem_append.mp hp with h | h
    · left; exact h
    · right; simpa using h

theorem putKV_keys {K : Type} [DecidableEq K] (acc : List (K × Value)) (k : K) (v : Value) :
    (putKV acc k v).map (·.1) = if k ∈ acc.map (·.1) then acc.map (·.1) else acc.map (·.1) ++ [k] := by
  unfold putKV
  by_cases hk : k ∈ acc.map (·.1)
  · have : acc.any (fun p => p.1 == k) = true := by
      obtain ⟨p, hp, e⟩ := List.mem_map.mp hk
      exact List.any_eq_true.mpr ⟨p, hp, by simpa using e⟩
    rw [if_pos this, if_pos hk, List.map_map]
    apply List.map_congr_left
    intro p _
    simp only [Function.comp]
    split <;> rfl
  · have : acc.any (fun p => p.1 == k) = false := by
      rw [List.any_eq_false]
      intro p hp hh
      exact hk (List.mem_map.mpr ⟨p, hp, by simpa using hh⟩)
    rw [this, if_neg hk]
    simp

theorem putKV_nodup {K : Type} [DecidableEq K] (acc : List (K × Value)) (k : K) (v : Value)
    (h : (acc.map (·.1)).Nodup) : ((putKV acc k v).map (·.1)).Nodup := by
  rw [putKV_keys]
  split
  · exact h
  · rename_i hk
    rw [List.nodup_append]
    exact ⟨h, by simp, fun a ha b hb => by
      have : b = k := by simpa using hb
      rw [this]; intro e; exact hk (e ▸ ha)⟩

theorem putKV_length {K : Type} [DecidableEq K] (acc : List (K × Value)) (k : K) (v : Value) :
    (putKV acc k v).length ≤ acc.length + 1 := by
  have := congrArg List.length (putKV_keys acc k v)
  simp only [List.length_map] at this
  rw [this]; split <;> simp

/-! ### everything the decoder returns is well-formed -/

/-- the four decoders at one fuel -/
def DecOK (f : Nat) : Prop :=
  (∀ bs v r, decV f bs = some (v, r) → WFB bs → WFV v ∧ WFB r) ∧
  (∀ n bs xs r, decVs f n bs = some (xs, r) → WFB bs → WFVs xs ∧ xs.length = n ∧ WFB r) ∧
  (∀ n acc bs kvs r, decKVs f n acc bs = some (kvs, r) → WFB bs → WFKVs acc → (acc.map (·.1)).Nodup →
      WFKVs kvs ∧ (kvs.map (·.1)).Nodup ∧ kvs.length ≤ acc.length + n ∧ WFB r) ∧
  (∀ n acc bs kvs r, decIKVs f n acc bs = some (kvs, r) → WFB bs → WFIKVs acc → (acc.map (·.1)).Nodup →
      WFIKVs kvs ∧ (kvs.map (·.1)).Nodup ∧ kvs.length ≤ acc.length + n ∧ WFB r)

theorem okBytes_of (v : Bytes) (h : WFB v ∧ v.length < 2147483648) : okBytes v = true :=
  (wfBytes_iff v).mpr h

end Value

namespace Value
open Prim

theorem all_of {α : Type} (f : α → Bool) (Q : α → Prop) (xs : List α) (hq : ∀ x, Q x → f x = true)
    (h : ∀ x ∈ xs, Q x) : xs.all f = true :=
  List.all_eq_true.mpr (fun x hx => hq x (h x hx))

theorem decOK_zero : DecOK 0 := by
  refine ⟨?_, ?_, ?_, ?_⟩
  · intro bs v r h; simp [decV] at h
  · intro n bs xs r h hb
    cases n with
    | zero => simp only [decVs, Option.some.injEq, Prod.mk.injEq] at h; obtain ⟨rfl, rfl⟩ := h; exact ⟨rfl, rfl, hb⟩
    | succ n => simp [decVs] at h
  · intro n acc bs kvs r h hb hw hn
    cases n with
    | zero => simp only [decKVs, Option.some.injEq, Prod.mk.injEq] at h; obtain ⟨rfl, rfl⟩ := h; exact ⟨hw, hn, by omega, hb⟩
    | succ n => simp [decKVs] at h
  · intro n acc bs kvs r h hb hw hn
    cases n with
    | zero => simp only [decIKVs, Option.some.injEq, Prod.mk.injEq] at h; obtain ⟨rfl, rfl⟩ := h; exact ⟨hw, hn, by omega, hb⟩
    | succ n => simp [decIKVs] at h

/-- extraction of `Option.map` results -/
theorem map_some {α β : Type} {f : α × Bytes → β × Bytes} {o : Option (α × Bytes)} {v : β} {r : Bytes}
    (h : o.map f = some (v, r)) : ∃ a b, o = some (a, b) ∧ f (a, b) = (v, r) := by
  cases o with
  | none => cases h
  | some p => obtain ⟨a, b⟩ := p; exact ⟨a, b, rfl, by simpa using h⟩

theorem decOK_succ (f : Nat) (ih : DecOK f) : DecOK (f + 1) := by
  obtain ⟨ihV, ihVs, ihK, ihI⟩ := ih
  refine ⟨?_, ?_, ?_, ?_⟩
  · intro bs v r h hb
    cases bs with
    | nil => simp [decV] at h
    | cons t bs =>
      have hb' : WFB bs := (WFB_cons.mp hb).2
      simp only [decV] at h
      split at h
      · -- null
        simp only [Option.some.injEq, Prod.mk.injEq] at h; obtain ⟨rfl, rfl⟩ := h; exact ⟨rfl, hb'⟩
      · obtain ⟨a, b, hr, e⟩ := map_some h
        simp only [Prod.mk.injEq] at e; obtain ⟨rfl, rfl⟩ := e
        exact ⟨rfl, run_rest_WFB _ _ _ _ hr hb'⟩
      · obtain ⟨a, b, hr, e⟩ := map_some h
        simp only [Prod.mk.injEq] at e; obtain ⟨rfl, rfl⟩ := e
        have := (inRange_8 a).mp (run_decDecimal_range _ _ _ hr hb')
        exact ⟨by simp [WFV, wfV, okI64, this], run_rest_WFB _ _ _ _ hr hb'⟩
      · obtain ⟨a, b, hr, e⟩ := map_some h
        simp only [Prod.mk.injEq] at e; obtain ⟨rfl, rfl⟩ := e
        have := (inRange_4 a).mp (run_rdI_range 4 _ _ _ hr hb')
        exact ⟨by simp [WFV, wfV, okI32, this], run_rest_WFB _ _ _ _ hr hb'⟩
      · obtain ⟨a, b, hr, e⟩ := map_some h
        simp only [Prod.mk.injEq] at e; obtain ⟨rfl, rfl⟩ := e
        have := (inRange_8 a).mp (run_rdI_range 8 _ _ _ hr hb')
        exact ⟨by simp [WFV, wfV, okI64, this], run_rest_WFB _ _ _ _ hr hb'⟩
      · obtain ⟨a, b, hr, e⟩ := map_some h
        simp only [Prod.mk.injEq] at e; obtain ⟨rfl, rfl⟩ := e
        have := run_rdU_lt 4 _ _ _ hr hb'
        exact ⟨by simp only [WFV, wfV, okU32, decide_eq_true_eq]; omega, run_rest_WFB _ _ _ _ hr hb'⟩
      · obtain ⟨a, b, hr, e⟩ := map_some h
        simp only [Prod.mk.injEq] at e; obtain ⟨rfl, rfl⟩ := e
        have := run_rdU_lt 8 _ _ _ hr hb'
        exact ⟨by simp only [WFV, wfV, okU64, decide_eq_true_eq]; omega, run_rest_WFB _ _ _ _ hr hb'⟩
      · -- dsum
        split at h
        · cases h
        · rename_i s r1 h1
          split at h
          · cases h
          · rename_i c r2 h2
            split at h
            · cases h
            · rename_i mn r3 h3
              obtain ⟨mx, b, h4, e⟩ := map_some h
              simp only [Prod.mk.injEq] at e; obtain ⟨rfl, rfl⟩ := e
              have w1 := run_rest_WFB _ _ _ _ h1 hb'
              have w2 := run_rest_WFB _ _ _ _ h2 w1
              have w3 := run_rest_WFB _ _ _ _ h3 w2
              have a1 := run_rdU_lt 8 _ _ _ h1 hb'
              have a2 := (inRange_4 c).mp (run_rdI_range 4 _ _ _ h2 w1)
              have a3 := run_rdU_lt 8 _ _ _ h3 w2
              have a4 := run_rdU_lt 8 _ _ _ h4 w3
              refine ⟨?_, run_rest_WFB _ _ _ _ h4 w3⟩
              simp only [WFV, wfV, okU64, okI32, Bool.and_eq_true, decide_eq_true_eq]
              omega
      · -- lsum
        split at h
        · cases h
        · rename_i s r1 h1
          split at h
          · cases h
          · rename_i c r2 h2
            split at h
            · cases h
            · rename_i mn r3 h3
              obtain ⟨mx, b, h4, e⟩ := map_some h
              simp only [Prod.mk.injEq] at e; obtain ⟨rfl, rfl⟩ := e
              have w1 := run_rest_WFB _ _ _ _ h1 hb'
              have w2 := run_rest_WFB _ _ _ _ h2 w1
              have w3 := run_rest_WFB _ _ _ _ h3 w2
              have a1 := (inRange_8 s).mp (run_rdI_range 8 _ _ _ h1 hb')
              have a2 := (inRange_4 c).mp (run_rdI_range 4 _ _ _ h2 w1)
              have a3 := (inRange_8 mn).mp (run_rdI_range 8 _ _ _ h3 w2)
              have a4 := (inRange_8 mx).mp (run_rdI_range 8 _ _ _ h4 w3)
              refine ⟨?_, run_rest_WFB _ _ _ _ h4 w3⟩
              simp only [WFV, wfV, okI64, okI32, Bool.and_eq_true, decide_eq_true_eq]
              omega
      · -- text
        obtain ⟨a, b, hr, e⟩ := map_some h
        simp only [Prod.mk.injEq] at e; obtain ⟨rfl, rfl⟩ := e
        exact ⟨by simp only [WFV, wfV]; exact okBytes_of a (run_decBlob_spec _ _ _ hr hb'), run_rest_WFB _ _ _ _ hr hb'⟩
      · obtain ⟨a, b, hr, e⟩ := map_some h
        simp only [Prod.mk.injEq] at e; obtain ⟨rfl, rfl⟩ := e
        have := (inRange_4 a).mp (run_rdI_range 4 _ _ _ hr hb')
        exact ⟨by simp [WFV, wfV, okI32, this], run_rest_WFB _ _ _ _ hr hb'⟩
      · obtain ⟨a, b, hr, e⟩ := map_some h
        simp only [Prod.mk.injEq] at e; obtain ⟨rfl, rfl⟩ := e
        exact ⟨by simp only [WFV, wfV]; exact okBytes_of a (run_decBlob_spec _ _ _ hr hb'), run_rest_WFB _ _ _ _ hr hb'⟩
      · -- ip4
        obtain ⟨a, b, hr, e⟩ := map_some h
        simp only [Prod.mk.injEq] at e; obtain ⟨rfl, rfl⟩ := e
        obtain ⟨h1, h2⟩ := run_rdBytes_spec 4 _ _ _ hr hb'
        refine ⟨?_, run_rest_WFB _ _ _ _ hr hb'⟩
        simp only [WFV, wfV, Bool.and_eq_true, decide_eq_true_eq]
        exact ⟨List.all_eq_true.mpr (fun x hx => by simpa using h1 x hx), h2⟩
      · -- list
        split at h
        · cases h
        · rename_i n r1 h1
          split at h
          · cases h
          · rename_i hn
            obtain ⟨xs, b, hr, e⟩ := map_some h
            simp only [Prod.mk.injEq] at e; obtain ⟨rfl, rfl⟩ := e
            have hn8 := (inRange_8 n).mp (run_decDecimal_range _ _ _ h1 hb')
            obtain ⟨q1, q2, q3⟩ := ihVs _ _ _ _ hr (run_rest_WFB _ _ _ _ h1 hb')
            refine ⟨?_, q3⟩
            simp only [WFV, wfV, okCount, Bool.and_eq_true, decide_eq_true_eq]
            exact ⟨by rw [q2]; omega, q1⟩
      · -- ai
        obtain ⟨a, b, hr, e⟩ := map_some h
        simp only [Prod.mk.injEq] at e; obtain ⟨rfl, rfl⟩ := e
        obtain ⟨h1, h2⟩ := run_decArr_spec (rdI 4) (inRange 4) (fun bs v r hb h => run_rdI_range 4 bs v r h hb) _ _ _ hb' hr
        refine ⟨?_, run_rest_WFB _ _ _ _ hr hb'⟩
        simp only [WFV, wfV, okArrLen, Bool.and_eq_true, decide_eq_true_eq]
        exact ⟨h2, all_of _ _ _ (fun x hx => by have := (inRange_4 x).mp hx; simp [okI32, this]) h1⟩
      · -- af
        obtain ⟨a, b, hr, e⟩ := map_some h
        simp only [Prod.mk.injEq] at e; obtain ⟨rfl, rfl⟩ := e
        obtain ⟨h1, h2⟩ := run_decArr_spec (rdU 4) (fun n => n < 256 ^ 4) (fun bs v r hb h => run_rdU_lt 4 bs v r h hb) _ _ _ hb' hr
        refine ⟨?_, run_rest_WFB _ _ _ _ hr hb'⟩
        simp only [WFV, wfV, okArrLen, Bool.and_eq_true, decide_eq_true_eq]
        exact ⟨h2, all_of _ _ _ (fun x hx => by simp only [okU32, decide_eq_true_eq]; omega) h1⟩
      · -- at
        obtain ⟨a, b, hr, e⟩ := map_some h
        simp only [Prod.mk.injEq] at e; obtain ⟨rfl, rfl⟩ := e
        obtain ⟨h1, h2⟩ := run_decArr_spec decBlob (fun v => WFB v ∧ v.length < 2147483648)
          (fun bs v r hb h => run_decBlob_spec bs v r h hb) _ _ _ hb' hr
        refine ⟨?_, run_rest_WFB _ _ _ _ hr hb'⟩
        simp only [WFV, wfV, okArrLen, Bool.and_eq_true, decide_eq_true_eq]
        exact ⟨h2, all_of _ _ _ (fun x hx => okBytes_of x hx) h1⟩
      · -- al
        obtain ⟨a, b, hr, e⟩ := map_some h
        simp only [Prod.mk.injEq] at e; obtain ⟨rfl, rfl⟩ := e
        obtain ⟨h1, h2⟩ := run_decArr_spec (rdI 8) (inRange 8) (fun bs v r hb h => run_rdI_range 8 bs v r h hb) _ _ _ hb' hr
        refine ⟨?_, run_rest_WFB _ _ _ _ hr hb'⟩
        simp only [WFV, wfV, okArrLen, Bool.and_eq_true, decide_eq_true_eq]
        exact ⟨h2, all_of _ _ _ (fun x hx => by have := (inRange_8 x).mp hx; simp [okI64, this]) h1⟩
      · -- map
        split at h
        · cases h
        · rename_i n r1 h1
          obtain ⟨kvs, b, hr, e⟩ := map_some h
          simp only [Prod.mk.injEq] at e; obtain ⟨rfl, rfl⟩ := e
          have hn8 := (inRange_8 n).mp (run_decDecimal_range _ _ _ h1 hb')
          obtain ⟨q1, q2, q3, q4⟩ := ihK _ [] _ _ _ hr (run_rest_WFB _ _ _ _ h1 hb') rfl (by simp)
          refine ⟨?_, q4⟩
          simp only [WFV, wfV, okCount, Bool.and_eq_true, decide_eq_true_eq]
          simp only [List.length_nil, Nat.zero_add] at q3
          exact ⟨⟨by omega, q1⟩, q2⟩
      · -- imap
        split at h
        · cases h
        · rename_i n r1 h1
          obtain ⟨kvs, b, hr, e⟩ := map_some h
          simp only [Prod.mk.injEq] at e; obtain ⟨rfl, rfl⟩ := e
          have hn8 := (inRange_8 n).mp (run_decDecimal_range _ _ _ h1 hb')
          obtain ⟨q1, q2, q3, q4⟩ := ihI _ [] _ _ _ hr (run_rest_WFB _ _ _ _ h1 hb') rfl (by simp)
          refine ⟨?_, q4⟩
          simp only [WFV, wfV, okCount, Bool.and_eq_true, decide_eq_true_eq]
          simp only [List.length_nil, Nat.zero_add] at q3
          exact ⟨⟨by omega, q1⟩, q2⟩
      · cases h
  · intro n bs xs r h hb
    cases n with
    | zero => simp only [decVs, Option.some.injEq, Prod.mk.injEq] at h; obtain ⟨rfl, rfl⟩ := h; exact ⟨rfl, rfl, hb⟩
    | succ n =>
      simp only [decVs] at h
      split at h
      · cases h
      · rename_i x r1 h1
        obtain ⟨ys, b, hr, e⟩ := map_some h
        simp only [Prod.mk.injEq] at e; obtain ⟨rfl, rfl⟩ := e
        obtain ⟨p1, p2⟩ := ihV _ _ _ h1 hb
        obtain ⟨q1, q2, q3⟩ := ihVs _ _ _ _ hr p2
        refine ⟨?_, by simp [q2], q3⟩
        simp only [WFVs, wfVs, Bool.and_eq_true]; exact ⟨p1, q1⟩
  · intro n acc bs kvs r h hb hw hn
    cases n with
    | zero => simp only [decKVs, Option.some.injEq, Prod.mk.injEq] at h; obtain ⟨rfl, rfl⟩ := h; exact ⟨hw, hn, by omega, hb⟩
    | succ n =>
      simp only [decKVs] at h
      split at h
      · cases h
      · rename_i k r1 h1
        split at h
        · cases h
        · rename_i v r2 h2
          have w1 := run_rest_WFB _ _ _ _ h1 hb
          obtain ⟨p1, p2⟩ := ihV _ _ _ h2 w1
          have hk := okBytes_of k (run_decBlob_spec _ _ _ h1 hb)
          have hw' : WFKVs (putKV acc k v) := by
            unfold WFKVs at hw ⊢
            rw [wfKVs_iff] at hw ⊢
            intro p hp
            rcases putKV_mem acc k v p hp with h' | h'
            · exact hw p h'
            · rw [h']; exact ⟨hk, p1⟩
          obtain ⟨q1, q2, q3, q4⟩ := ihK _ _ _ _ _ h p2 hw' (putKV_nodup acc k v hn)
          have := putKV_length acc k v
          exact ⟨q1, q2, by omega, q4⟩
  · intro n acc bs kvs r h hb hw hn
    cases n with
    | zero => simp only [decIKVs, Option.some.injEq, Prod.mk.injEq] at h; obtain ⟨rfl, rfl⟩ := h; exact ⟨hw, hn, by omega, hb⟩
    | succ n =>
      simp only [decIKVs] at h
      split at h
      · cases h
      · rename_i k r1 h1
        split at h
        · cases h
        · rename_i v r2 h2
          have w1 := run_rest_WFB _ _ _ _ h1 hb
          obtain ⟨p1, p2⟩ := ihV _ _ _ h2 w1
          have hk : okI32 k = true := by
            have := (inRange_4 k).mp (run_rdI_range 4 _ _ _ h1 hb)
            simp [okI32, this]
          have hw' : WFIKVs (putKV acc k v) := by
            unfold WFIKVs at hw ⊢
            rw [wfIKVs_iff] at hw ⊢
            intro p hp
            rcases putKV_mem acc k v p hp with h' | h'
            · exact hw p h'
            · rw [h']; exact ⟨hk, p1⟩
          obtain ⟨q1, q2, q3, q4⟩ := ihI _ _ _ _ _ h p2 hw' (putKV_nodup acc k v hn)
          have := putKV_length acc k v
          exact ⟨q1, q2, by omega, q4⟩

theorem decOK (f : Nat) : DecOK f := by
  induction f with
  | zero => exact decOK_zero
  | succ f ih => exact decOK_succ f ih

/-- every value the decoder returns on byte input is well-formed (ranges, array lengths, distinct
    keys …), and what it leaves is bytes -/
theorem decV_WFV (f : Nat) (bs : Bytes) (v : Value) (r : Bytes) (h : decV f bs = some (v, r)) (hb : WFB bs) :
    WFV v ∧ WFB r := (decOK f).1 bs v r h hb

/-- decoding normalises: whatever was accepted, its re-encoding decodes to the same value -/
theorem decode_stable (bs : Bytes) (v : Value) (r r' : Bytes) (h : decode bs = some (v, r)) (hb : WFB bs) :
    decode (encV v ++ r') = some (v, r') :=
  decode_encV v r' (decV_WFV _ bs v r h hb).1

end Value
