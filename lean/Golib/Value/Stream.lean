/-
  Golib.Value.Stream — from one call to histories.

  * a stream: decoding the concatenation of k encodings yields the k values, in order, and leaves
    what follows (`decodeMany_encVs`), for any k; decoding until the input is exhausted recovers
    the whole sequence (`decodeAll_encVs`);
  * a process: a history of encode / decode calls (some of them failing) over the model has no
    state to carry — every output is a function of that call's own input (`run_outputs`), so a
    decode anywhere in a history returns the value an encode anywhere in it produced, whatever
    happened in between (`roundtrip_in_history`);
  * the count guard `CheckCount` of the list reader never rejects an input the decoder accepts
    (`list_count_le_remaining`: every value occupies at least one byte).
-/
import Golib.Value.DecWF

namespace Value
open Prim

/-! ### streams of values -/

/-- read `k` values one after the other (`ReadValue` called `k` times on one input) -/
def decodeMany : Nat → Bytes → Option (List Value × Bytes)
  | 0, bs => some ([], bs)
  | k+1, bs => match decode bs with
    | none => none
    | some (v, r) => (decodeMany k r).map (fun (vs, r') => (v :: vs, r'))

theorem wfVs_cons (x : Value) (xs : List Value) : WFVs (x :: xs) ↔ WFV x ∧ WFVs xs := by
  simp [WFVs, WFV, wfVs]

/-- the concatenation of the encodings of `vs`, then anything: reading `|vs|` values gives `vs`
    back, in order, and leaves exactly what followed -/
theorem decodeMany_encVs (vs : List Value) (r : Bytes) (h : WFVs vs) :
    decodeMany vs.length (encVs vs ++ r) = some (vs, r) := by
  induction vs with
  | nil => simp [decodeMany, encVs]
  | cons v t ih =>
    rw [wfVs_cons] at h
    simp only [List.length_cons, decodeMany, encVs, List.append_assoc]
    simp only [decode_encV v (encVs t ++ r) h.1, ih h.2, Option.map_some]

/-- read values until the input is exhausted (fuel: one unit per value; the input length suffices) -/
def decodeAll : Nat → Bytes → Option (List Value)
  | _, [] => some []
  | 0, _ :: _ => none
  | f+1, b :: bs => match decode (b :: bs) with
    | none => none
    | some (v, r) => (decodeAll f r).map (fun vs => v :: vs)

theorem encV_ne_nil (v : Value) : encV v ≠ [] := by
  cases v <;> simp [encV]

theorem decodeAll_encVs (vs : List Value) (f : Nat) (h : WFVs vs) (hf : vs.length ≤ f) :
    decodeAll f (encVs vs) = some vs := by
  induction vs generalizing f with
  | nil => cases f <;> simp [decodeAll, encVs]
  | cons v t ih =>
    rw [wfVs_cons] at h
    cases f with
    | zero => simp at hf
    | succ f =>
      simp only [encVs]
      cases hv : encV v with
      | nil => exact absurd hv (encV_ne_nil v)
      | cons b bs =>
        simp only [List.cons_append, decodeAll]
        have := decode_encV v (encVs t) h.1
        rw [hv, List.cons_append] at this
        simp only [this, ih f h.2 (by simpa using hf), Option.map_some]

/-! ### histories of a process -/

/-- what a process does with the codec -/
inductive Call where
  | encode (v : Value)
  | decode (bs : Bytes)

inductive Result where
  | bytes (bs : Bytes)
  | value (v : Value) (rest : Bytes)
  | failed
deriving Inhabited

/-- one call; the state of the codec is `Unit`: there is nothing to carry from call to call -/
def stepCall (_ : Unit) : Call → Unit × Result
  | .encode v => ((), .bytes (encV v))
  | .decode bs => ((), match Value.decode bs with
    | some (v, r) => .value v r
    | none => .failed)

def runCalls : Unit → List Call → List Result
  | _, [] => []
  | s, c :: cs => (stepCall s c).2 :: runCalls (stepCall s c).1 cs

/-- every output of a history is the output of that call alone: earlier calls — successful or
    failed — change nothing (frame condition: the whole state is unchanged by every call) -/
theorem run_outputs (cs : List Call) : runCalls () cs = cs.map (fun c => (stepCall () c).2) := by
  induction cs with
  | nil => rfl
  | cons c t ih => simp only [runCalls, List.map_cons]; rw [ih]

/-- a decode anywhere in a history, given the bytes an encode anywhere produced (plus anything
    behind them), returns that value and the rest — whatever was encoded, decoded or rejected in
    between -/
theorem roundtrip_in_history (cs : List Call) (j : Nat) (hj : j < cs.length) (v : Value) (r : Bytes)
    (hw : WFV v) (hc : cs[j] = .decode (encV v ++ r)) :
    (runCalls () cs)[j]'(by rw [run_outputs]; simpa using hj) = .value v r := by
  simp only [run_outputs, List.getElem_map, hc, stepCall, decode_encV v r hw]

/-! ### the count guard of the list reader -/

/-- the four decoders consume at least: one byte per value, one byte per list element, two bytes
    per map entry (key + value), five per int-map entry -/
def DecLen (f : Nat) : Prop :=
  (∀ bs v r, decV f bs = some (v, r) → r.length + 1 ≤ bs.length) ∧
  (∀ n bs xs r, decVs f n bs = some (xs, r) → r.length + n ≤ bs.length) ∧
  (∀ n acc bs kvs r, decKVs f n acc bs = some (kvs, r) → r.length + n ≤ bs.length) ∧
  (∀ n acc bs kvs r, decIKVs f n acc bs = some (kvs, r) → r.length + n ≤ bs.length)

theorem map_some' {α β : Type} {g : α × Bytes → β × Bytes} {o : Option (α × Bytes)} {v : β} {r : Bytes}
    (h : o.map g = some (v, r)) : ∃ a b, o = some (a, b) ∧ g (a, b) = (v, r) := by
  cases o with
  | none => cases h
  | some p => obtain ⟨a, b⟩ := p; exact ⟨a, b, rfl, by simpa using h⟩

theorem decLen_zero : DecLen 0 := by
  refine ⟨?_, ?_, ?_, ?_⟩
  · intro bs v r h; simp [decV] at h
  · intro n bs xs r h
    cases n with
    | zero => simp only [decVs, Option.some.injEq, Prod.mk.injEq] at h; obtain ⟨_, rfl⟩ := h; omega
    | succ n => simp [decVs] at h
  · intro n acc bs kvs r h
    cases n with
    | zero => simp only [decKVs, Option.some.injEq, Prod.mk.injEq] at h; obtain ⟨_, rfl⟩ := h; omega
    | succ n => simp [decKVs] at h
  · intro n acc bs kvs r h
    cases n with
    | zero => simp only [decIKVs, Option.some.injEq, Prod.mk.injEq] at h; obtain ⟨_, rfl⟩ := h; omega
    | succ n => simp [decIKVs] at h

theorem decLen_succ (f : Nat) (ih : DecLen f) : DecLen (f + 1) := by
  obtain ⟨ihV, ihVs, ihK, ihI⟩ := ih
  refine ⟨?_, ?_, ?_, ?_⟩
  · intro bs v r h
    cases bs with
    | nil => simp [decV] at h
    | cons t bs =>
      simp only [decV] at h
      simp only [List.length_cons]
      suffices r.length ≤ bs.length by omega
      split at h
      · simp only [Option.some.injEq, Prod.mk.injEq] at h; obtain ⟨_, rfl⟩ := h; omega
      · obtain ⟨a, b, hr, e⟩ := map_some' h
        simp only [Prod.mk.injEq] at e; obtain ⟨_, rfl⟩ := e
        exact P.run_length_le _ _ _ _ hr
      · obtain ⟨a, b, hr, e⟩ := map_some' h
        simp only [Prod.mk.injEq] at e; obtain ⟨_, rfl⟩ := e
        exact P.run_length_le _ _ _ _ hr
      · obtain ⟨a, b, hr, e⟩ := map_some' h
        simp only [Prod.mk.injEq] at e; obtain ⟨_, rfl⟩ := e
        exact P.run_length_le _ _ _ _ hr
      · obtain ⟨a, b, hr, e⟩ := map_some' h
        simp only [Prod.mk.injEq] at e; obtain ⟨_, rfl⟩ := e
        exact P.run_length_le _ _ _ _ hr
      · obtain ⟨a, b, hr, e⟩ := map_some' h
        simp only [Prod.mk.injEq] at e; obtain ⟨_, rfl⟩ := e
        exact P.run_length_le _ _ _ _ hr
      · obtain ⟨a, b, hr, e⟩ := map_some' h
        simp only [Prod.mk.injEq] at e; obtain ⟨_, rfl⟩ := e
        exact P.run_length_le _ _ _ _ hr
      · -- dsum
        split at h
        · cases h
        · rename_i s r1 h1
          split at h
          · cases h
          · rename_i c r2 h2
            split at h
            · cases h
            · rename_i mn r3 h3
              obtain ⟨mx, b, h4, e⟩ := map_some' h
              simp only [Prod.mk.injEq] at e; obtain ⟨_, rfl⟩ := e
              have l1 := P.run_length_le _ _ _ _ h1
              have l2 := P.run_length_le _ _ _ _ h2
              have l3 := P.run_length_le _ _ _ _ h3
              have l4 := P.run_length_le _ _ _ _ h4
              omega
      · -- lsum
        split at h
        · cases h
        · rename_i s r1 h1
          split at h
          · cases h
          · rename_i c r2 h2
            split at h
            · cases h
            · rename_i mn r3 h3
              obtain ⟨mx, b, h4, e⟩ := map_some' h
              simp only [Prod.mk.injEq] at e; obtain ⟨_, rfl⟩ := e
              have l1 := P.run_length_le _ _ _ _ h1
              have l2 := P.run_length_le _ _ _ _ h2
              have l3 := P.run_length_le _ _ _ _ h3
              have l4 := P.run_length_le _ _ _ _ h4
              omega
      · obtain ⟨a, b, hr, e⟩ := map_some' h
        simp only [Prod.mk.injEq] at e; obtain ⟨_, rfl⟩ := e
        exact P.run_length_le _ _ _ _ hr
      · obtain ⟨a, b, hr, e⟩ := map_some' h
        simp only [Prod.mk.injEq] at e; obtain ⟨_, rfl⟩ := e
        exact P.run_length_le _ _ _ _ hr
      · obtain ⟨a, b, hr, e⟩ := map_some' h
        simp only [Prod.mk.injEq] at e; obtain ⟨_, rfl⟩ := e
        exact P.run_length_le _ _ _ _ hr
      · obtain ⟨a, b, hr, e⟩ := map_some' h
        simp only [Prod.mk.injEq] at e; obtain ⟨_, rfl⟩ := e
        exact P.run_length_le _ _ _ _ hr
      · -- list
        split at h
        · cases h
        · rename_i n r1 h1
          split at h
          · cases h
          · obtain ⟨xs, b, hr, e⟩ := map_some' h
            simp only [Prod.mk.injEq] at e; obtain ⟨_, rfl⟩ := e
            have l1 := P.run_length_le _ _ _ _ h1
            have l2 := ihVs _ _ _ _ hr
            omega
      · obtain ⟨a, b, hr, e⟩ := map_some' h
        simp only [Prod.mk.injEq] at e; obtain ⟨_, rfl⟩ := e
        exact P.run_length_le _ _ _ _ hr
      · obtain ⟨a, b, hr, e⟩ := map_some' h
        simp only [Prod.mk.injEq] at e; obtain ⟨_, rfl⟩ := e
        exact P.run_length_le _ _ _ _ hr
      · obtain ⟨a, b, hr, e⟩ := map_some' h
        simp only [Prod.mk.injEq] at e; obtain ⟨_, rfl⟩ := e
        exact P.run_length_le _ _ _ _ hr
      · obtain ⟨a, b, hr, e⟩ := map_some' h
        simp only [Prod.mk.injEq] at e; obtain ⟨_, rfl⟩ := e
        exact P.run_length_le _ _ _ _ hr
      · -- map
        split at h
        · cases h
        · rename_i n r1 h1
          obtain ⟨kvs, b, hr, e⟩ := map_some' h
          simp only [Prod.mk.injEq] at e; obtain ⟨_, rfl⟩ := e
          have l1 := P.run_length_le _ _ _ _ h1
          have l2 := ihK _ _ _ _ _ hr
          omega
      · -- imap
        split at h
        · cases h
        · rename_i n r1 h1
          obtain ⟨kvs, b, hr, e⟩ := map_some' h
          simp only [Prod.mk.injEq] at e; obtain ⟨_, rfl⟩ := e
          have l1 := P.run_length_le _ _ _ _ h1
          have l2 := ihI _ _ _ _ _ hr
          omega
      · cases h
  · intro n bs xs r h
    cases n with
    | zero => simp only [decVs, Option.some.injEq, Prod.mk.injEq] at h; obtain ⟨_, rfl⟩ := h; omega
    | succ n =>
      simp only [decVs] at h
      split at h
      · cases h
      · rename_i x r1 h1
        obtain ⟨ys, b, hr, e⟩ := map_some' h
        simp only [Prod.mk.injEq] at e; obtain ⟨_, rfl⟩ := e
        have := ihV _ _ _ h1
        have := ihVs _ _ _ _ hr
        omega
  · intro n acc bs kvs r h
    cases n with
    | zero => simp only [decKVs, Option.some.injEq, Prod.mk.injEq] at h; obtain ⟨_, rfl⟩ := h; omega
    | succ n =>
      simp only [decKVs] at h
      split at h
      · cases h
      · rename_i k r1 h1
        split at h
        · cases h
        · rename_i v r2 h2
          have := P.run_length_le _ _ _ _ h1
          have := ihV _ _ _ h2
          have := ihK _ _ _ _ _ h
          omega
  · intro n acc bs kvs r h
    cases n with
    | zero => simp only [decIKVs, Option.some.injEq, Prod.mk.injEq] at h; obtain ⟨_, rfl⟩ := h; omega
    | succ n =>
      simp only [decIKVs] at h
      split at h
      · cases h
      · rename_i k r1 h1
        split at h
        · cases h
        · rename_i v r2 h2
          have := P.run_length_le _ _ _ _ h1
          have := ihV _ _ _ h2
          have := ihI _ _ _ _ _ h
          omega

theorem decLen (f : Nat) : DecLen f := by
  induction f with
  | zero => exact decLen_zero
  | succ f ih => exact decLen_succ f ih

/-- every decoded value occupies at least one byte of the input -/
theorem decV_consumes (f : Nat) (bs : Bytes) (v : Value) (r : Bytes) (h : decV f bs = some (v, r)) :
    r.length < bs.length := by
  have := (decLen f).1 bs v r h; omega

/-- `ListValue.Read`'s guard `CheckCount(count, 1)` ("count elements of at least one byte each can
    still be read") never rejects an input the unguarded decoder accepts: if the `count` items
    decode, `count` is at most the number of bytes that were left -/
theorem list_count_le_remaining (f n : Nat) (bs : Bytes) (xs : List Value) (r : Bytes)
    (h : decVs f n bs = some (xs, r)) : n ≤ bs.length := by
  have := (decLen f).2.1 n bs xs r h; omega

end Value
