/-
  Golib.Value.ApiFacts — what the histories of Golib.Value.Api preserve, and the map-only entry points.

  * whatever history of the exported mutators built a MapValue / IntMapValue / ListValue, its keys are
    pairwise distinct and (if every stored payload was something a Go value can hold) it is well-formed:
    the `WFV` hypothesis of the round-trip theorem is met by every reachable object, so the object
    round-trips (`map_history_roundtrip`, `imap_history_roundtrip`, `list_history_roundtrip`);
  * look-ups see the last Put (`lookup_put_same`, `lookup_put_other`);
  * `ReadMapValue` succeeds with a map exactly when `ReadValue` decodes a map, with the same entries
    and the same rest (`decMapValue_iff`).
-/
import Golib.Value.Api
import Golib.Value.Facts
import Golib.Value.DecWF

namespace Value
open Prim

/-! ### maps -/

section maps
variable {K : Type} [DecidableEq K]

/-- the invariant of a map object: keys pairwise distinct, every key and value representable -/
def EntOK (okKey : K → Bool) (s : List (K × Value)) : Prop :=
  (s.map (·.1)).Nodup ∧ ∀ p ∈ s, okKey p.1 = true ∧ WFV p.2

omit [DecidableEq K] in
theorem entOK_nil (okKey : K → Bool) : EntOK okKey ([] : List (K × Value)) :=
  ⟨by simp, by simp⟩

theorem entOK_put (okKey : K → Bool) (s : List (K × Value)) (k : K) (v : Value)
    (h : EntOK okKey s) (hk : okKey k = true) (hv : WFV v) : EntOK okKey (putKV s k v) :=
  ⟨putKV_nodup s k v h.1, fun p hp => by
    rcases putKV_mem s k v p hp with h' | h'
    · exact h.2 p h'
    · subst h'; exact ⟨hk, hv⟩⟩

theorem entOK_putMany (okKey : K → Bool) : ∀ (o s : List (K × Value)), EntOK okKey s →
    (∀ p ∈ o, okKey p.1 = true ∧ WFV p.2) → EntOK okKey (MOp.putMany s o) := by
  intro o
  induction o with
  | nil => intro s h _; exact h
  | cons p t ih =>
    intro s h ho
    unfold MOp.putMany
    rw [List.foldl_cons]
    have hp := ho p (by simp)
    exact ih _ (entOK_put okKey s p.1 p.2 h hp.1 hp.2) (fun q hq => ho q (by simp [hq]))

theorem wfV_text (t : Bytes) (h : okBytes t = true) : WFV (.text t) := by
  unfold WFV; rw [wfV]; exact h

theorem wfV_dec (n : Int) (h : okI64 n = true) : WFV (.dec n) := by
  unfold WFV; rw [wfV]; exact h

theorem wfV_emptyList : WFV (.list []) := by decide

theorem entOK_next (okKey : K → Bool) (s : List (K × Value)) (op : MOp K)
    (h : EntOK okKey s) (ho : MOp.OK okKey op) : EntOK okKey (MOp.next s op) := by
  cases op with
  | put k v => exact entOK_put okKey s k v h ho.1 ho.2
  | putString k t => exact entOK_put okKey s k _ h ho.1 (wfV_text t ho.2)
  | putLong k n => exact entOK_put okKey s k _ h ho.1 (wfV_dec n ho.2)
  | newList k => exact entOK_put okKey s k _ h ho wfV_emptyList
  | putAll o => exact entOK_putMany okKey o s h ho
  | clear => exact entOK_nil okKey
  | _ => exact h

theorem entOK_final (okKey : K → Bool) : ∀ (ops : List (MOp K)) (s : List (K × Value)), EntOK okKey s →
    (∀ op ∈ ops, MOp.OK okKey op) → EntOK okKey (MOp.final s ops) := by
  intro ops
  induction ops with
  | nil => intro s h _; exact h
  | cons op t ih =>
    intro s h ho
    unfold MOp.final
    rw [List.foldl_cons]
    exact ih _ (entOK_next okKey s op h (ho op (by simp))) (fun q hq => ho q (by simp [hq]))

/-- the outputs of a history: each call's output on the state the calls before it left -/
def MOp.outputs (s : List (K × Value)) : List (MOp K) → List (Option Value)
  | [] => []
  | op :: ops => MOp.out s op :: MOp.outputs (MOp.next s op) ops

theorem MOp.run_eq : ∀ (ops : List (MOp K)) (s : List (K × Value)) (outs : List (Option Value)),
    MOp.run s ops outs = (MOp.final s ops, outs.reverse ++ MOp.outputs s ops) := by
  intro ops
  induction ops with
  | nil => intro s outs; simp [MOp.run, MOp.final, MOp.outputs]
  | cons op t ih =>
    intro s outs
    rw [MOp.run, ih]
    simp [MOp.final, MOp.outputs]

/-- a look-up right after a Put under the same key sees the value put -/
theorem lookup_put_same (s : List (K × Value)) (k : K) (v : Value) : lookupKV k (putKV s k v) = some v := by
  unfold putKV
  induction s with
  | nil => simp [lookupKV]
  | cons p t ih =>
    obtain ⟨k', v'⟩ := p
    by_cases hk : k' = k
    · subst hk
      simp [lookupKV]
    · have hb : (k' == k) = false := by simpa using hk
      simp only [List.any_cons, hb, Bool.false_or] at ih ⊢
      split
      · rename_i ha
        rw [if_pos ha] at ih
        simp only [List.map_cons, if_neg hk, lookupKV]
        exact ih
      · rename_i ha
        rw [if_neg ha] at ih
        simp only [List.cons_append, lookupKV, if_neg hk]
        exact ih

theorem lookup_map_other (s : List (K × Value)) (k k' : K) (v : Value) (hne : k' ≠ k) :
    lookupKV k' (s.map (fun p => if p.1 = k then (p.1, v) else p)) = lookupKV k' s := by
  induction s with
  | nil => rfl
  | cons p t ih =>
    obtain ⟨a, b⟩ := p
    simp only [List.map_cons, lookupKV]
    by_cases ha : a = k
    · subst ha
      simp only [if_true]
      rw [if_neg (fun e => hne e.symm), if_neg (fun e => hne e.symm)]
      exact ih
    · simp only [if_neg ha]
      split
      · rfl
      · exact ih

theorem lookup_append_other (s : List (K × Value)) (k k' : K) (v : Value) (hne : k' ≠ k) :
    lookupKV k' (s ++ [(k, v)]) = lookupKV k' s := by
  induction s with
  | nil => simp only [List.nil_append, lookupKV]; rw [if_neg (fun e => hne e.symm)]
  | cons p t ih =>
    obtain ⟨a, b⟩ := p
    simp only [List.cons_append, lookupKV]
    split
    · rfl
    · exact ih

/-- … and every other key is left as it was (the frame condition of Put) -/
theorem lookup_put_other (s : List (K × Value)) (k k' : K) (v : Value) (hne : k' ≠ k) :
    lookupKV k' (putKV s k v) = lookupKV k' s := by
  unfold putKV
  split
  · exact lookup_map_other s k k' v hne
  · exact lookup_append_other s k k' v hne

end maps

theorem wfV_map_of (s : List (Bytes × Value)) (h : EntOK okBytes s) (hl : s.length ≤ 9223372036854775807) :
    WFV (.map s) := by
  unfold WFV; rw [wfV]
  simp only [Bool.and_eq_true, decide_eq_true_eq, okCount]
  exact ⟨⟨hl, (wfKVs_iff s).mpr h.2⟩, h.1⟩

theorem wfV_imap_of (s : List (Int × Value)) (h : EntOK okI32 s) (hl : s.length ≤ 9223372036854775807) :
    WFV (.imap s) := by
  unfold WFV; rw [wfV]
  simp only [Bool.and_eq_true, decide_eq_true_eq, okCount]
  exact ⟨⟨hl, (wfIKVs_iff s).mpr h.2⟩, h.1⟩

/-! ### lists -/

theorem wfVs_iff (xs : List Value) : wfVs xs = true ↔ ∀ x ∈ xs, WFV x := by
  induction xs with
  | nil => simp [wfVs]
  | cons x t ih => simp only [wfVs, Bool.and_eq_true, ih, List.mem_cons, forall_eq_or_imp]; rfl

theorem listOK_next (s : List Value) (op : LOp) (h : ∀ x ∈ s, WFV x) (ho : LOp.OK op) :
    ∀ x ∈ LOp.next s op, WFV x := by
  cases op with
  | add v =>
    intro x hx
    rcases List.mem_append.mp hx with h' | h'
    · exact h x h'
    · have : x = v := by simpa using h'
      subst this; exact ho
  | addString t =>
    intro x hx
    rcases List.mem_append.mp hx with h' | h'
    · exact h x h'
    · have : x = .text t := by simpa using h'
      subst this; exact wfV_text t ho
  | addLong n =>
    intro x hx
    rcases List.mem_append.mp hx with h' | h'
    · exact h x h'
    · have : x = .dec n := by simpa using h'
      subst this; exact wfV_dec n ho
  | set i v =>
    intro x hx
    rcases List.mem_or_eq_of_mem_set hx with h' | h'
    · exact h x h'
    · subst h'; exact ho
  | clear => intro x hx; simp [LOp.next] at hx
  | _ => exact h

theorem listOK_final : ∀ (ops : List LOp) (s : List Value), (∀ x ∈ s, WFV x) → (∀ op ∈ ops, LOp.OK op) →
    ∀ x ∈ LOp.final s ops, WFV x := by
  intro ops
  induction ops with
  | nil => intro s h _; exact h
  | cons op t ih =>
    intro s h ho
    unfold LOp.final
    rw [List.foldl_cons]
    exact ih _ (listOK_next s op h (ho op (by simp))) (fun q hq => ho q (by simp [hq]))

theorem wfV_list_of (s : List Value) (h : ∀ x ∈ s, WFV x) (hl : s.length ≤ 9223372036854775807) : WFV (.list s) := by
  unfold WFV; rw [wfV]
  simp only [Bool.and_eq_true, decide_eq_true_eq, okCount]
  exact ⟨hl, (wfVs_iff s).mpr h⟩

def LOp.outputs (s : List Value) : List LOp → List (Option Value)
  | [] => []
  | op :: ops => LOp.out s op :: LOp.outputs (LOp.next s op) ops

theorem LOp.run_eq : ∀ (ops : List LOp) (s : List Value) (outs : List (Option Value)),
    LOp.run s ops outs = (LOp.final s ops, outs.reverse ++ LOp.outputs s ops) := by
  intro ops
  induction ops with
  | nil => intro s outs; simp [LOp.run, LOp.final, LOp.outputs]
  | cons op t ih =>
    intro s outs
    rw [LOp.run, ih]
    simp [LOp.final, LOp.outputs]

/-! ### WriteMapValue / ReadMapValue / IntMapValue.WriteValue -/

theorem encMapValue_eq (kvs : List (Bytes × Value)) : encMapValue kvs = encV (.map kvs) := by
  rw [encV]; rfl

theorem encIntMapValue_eq (kvs : List (Int × Value)) : encIntMapValue kvs = encV (.imap kvs) := by
  rw [encV]; rfl

theorem decV_map_tag (f : Nat) (r : Bytes) :
    decV (f + 1) (80 :: r) =
      match P.run decDecimal r with
      | none => none
      | some (n, r') => (decKVs f n.toNat [] r').map (fun (kvs, r'') => (Value.map kvs, r'')) := by
  simp only [decV]
  rfl

/-- `ReadMapValue` returns a map exactly when `ReadValue` decodes a map: same entries, same rest -/
theorem decMapValue_iff (bs : Bytes) (kvs : List (Bytes × Value)) (r : Bytes) :
    decMapValue bs = some (some kvs, r) ↔ decode bs = some (.map kvs, r) := by
  cases bs with
  | nil => simp [decMapValue, decode, decV]
  | cons t r0 =>
    by_cases ht : t = 80
    · subst ht
      unfold decode
      rw [show (80 :: r0 : Bytes).length + 1 = (r0.length + 1) + 1 from rfl, decV_map_tag]
      simp only [decMapValue, if_true, List.length_cons]
      cases P.run decDecimal r0 with
      | none => simp
      | some p =>
        obtain ⟨n, r'⟩ := p
        simp only
        cases decKVs (r0.length + 1) n.toNat [] r' with
        | none => simp
        | some q => obtain ⟨a, b⟩ := q; simp
    · constructor
      · intro h
        simp [decMapValue, ht] at h
      · intro h
        exact absurd (decV_tag _ t r0 _ r h) (fun e => ht e.symm)

/-- any other first byte: nil, and exactly that one byte has been consumed -/
theorem decMapValue_other (t : Nat) (r : Bytes) (ht : t ≠ 80) : decMapValue (t :: r) = some (none, r) := by
  simp [decMapValue, ht]

end Value
