/-
  Golib.Value.Codes — the type-code table of lang/value/Value.go as data, and its finite facts.

  `Ctor` names the twenty implemented value types; `Ctor.code` is `GetValueType()`, `Ctor.ofCode`
  is the `switch` of `CreateValue` (an unknown code panics there: `none` here).  The string tables
  at the end are the hand-written counterpart of what `xlate/c02` regenerates from the source on
  every run (Golib/Gen/C02.lean); Golib/Props/C02Gen.lean demands that they are equal.
-/
import Golib.Value.Model

namespace Value

inductive Ctor where
  | null | bool | dec | int | long | f32 | f64 | dsum | lsum | text | hash | blob | ip4
  | list | ai | af | «at» | al | map | imap
deriving DecidableEq, Repr

namespace Ctor

def all : List Ctor :=
  [null, bool, dec, int, long, f32, f64, dsum, lsum, text, hash, blob, ip4, list, ai, af, «at», al, map, imap]

/-- `GetValueType()` -/
def code : Ctor → Nat
  | null => 0 | bool => 10 | dec => 20 | int => 21 | long => 22 | f32 => 30 | f64 => 40
  | dsum => 45 | lsum => 46 | text => 50 | hash => 51 | blob => 60 | ip4 => 61
  | list => 70 | ai => 71 | af => 72 | «at» => 73 | al => 74 | map => 80 | imap => 81

/-- the `switch` of `CreateValue` -/
def ofCode : Nat → Option Ctor
  | 0 => some null | 10 => some bool | 20 => some dec | 21 => some int | 22 => some long
  | 30 => some f32 | 40 => some f64 | 45 => some dsum | 46 => some lsum
  | 50 => some text | 51 => some hash | 60 => some blob | 61 => some ip4
  | 70 => some list | 71 => some ai | 72 => some af | 73 => some «at» | 74 => some al
  | 80 => some map | 81 => some imap
  | _ => none

end Ctor

def ctorOf : Value → Ctor
  | .null => .null | .bool _ => .bool | .dec _ => .dec | .int _ => .int | .long _ => .long
  | .f32 _ => .f32 | .f64 _ => .f64 | .dsum .. => .dsum | .lsum .. => .lsum
  | .text _ => .text | .hash _ => .hash | .blob _ => .blob | .ip4 _ => .ip4
  | .list _ => .list | .ai _ => .ai | .af _ => .af | .at _ => .at | .al _ => .al
  | .map _ => .map | .imap _ => .imap

theorem tag_eq_code (v : Value) : tag v = (ctorOf v).code := by cases v <;> rfl

theorem ofCode_code (c : Ctor) : Ctor.ofCode c.code = some c := by cases c <;> rfl

theorem code_injective (a b : Ctor) (h : a.code = b.code) : a = b := by
  have := ofCode_code a
  rw [h, ofCode_code b] at this
  exact (Option.some.inj this).symm

theorem code_of_ofCode (n : Nat) (c : Ctor) (h : Ctor.ofCode n = some c) : c.code = n := by
  unfold Ctor.ofCode at h
  split at h <;> first | (cases h; rfl) | (cases h)

theorem codes_nodup : (Ctor.all.map Ctor.code).Nodup := by decide

theorem all_complete (c : Ctor) : c ∈ Ctor.all := by cases c <;> decide

/-- whatever the input, a value that `decV` returns carries the tag byte it was read under -/
theorem decV_tag (f : Nat) (t : Nat) (bs : Bytes) (v : Value) (r : Bytes)
    (h : decV f (t :: bs) = some (v, r)) : tag v = t := by
  cases f with
  | zero => simp [decV] at h
  | succ f =>
    simp only [decV] at h
    split at h
    all_goals (repeat' (split at h))
    all_goals first
      | (simp only [Option.map_eq_some_iff] at h; obtain ⟨⟨a, b⟩, _, h2⟩ := h
         simp only [Prod.mk.injEq] at h2; obtain ⟨rfl, _⟩ := h2; rfl)
      | (cases h <;> rfl)

/-- a tag byte outside the table is rejected (`CreateValue` panics) -/
theorem decV_unknown_tag (f : Nat) (t : Nat) (bs : Bytes) (h : Ctor.ofCode t = none) :
    decV f (t :: bs) = none := by
  cases hd : decV f (t :: bs) with
  | none => rfl
  | some p =>
    obtain ⟨v, r⟩ := p
    have := decV_tag f t bs v r hd
    rw [← this, tag_eq_code, ofCode_code] at h
    cases h

/-! ### the tables as the source spells them (tie A) -/

/-- the `const` block of Value.go, sorted by name (FLOAT_SUMMARY is declared but has no type) -/
def constTable : List (String × Nat) :=
  [("ARRAY_FLOAT", 72), ("ARRAY_INT", 71), ("ARRAY_LONG", 74),
   ("ARRAY_TEXT", 73), ("FLOAT_SUMMARY", 47), ("INT_VALUE_MAP", 81),
   ("VALUE_BLOB", 60), ("VALUE_BOOLEAN", 10), ("VALUE_DECIMAL", 20),
   ("VALUE_DECIMAL_INT", 21), ("VALUE_DECIMAL_LONG", 22), ("VALUE_DOUBLE", 40),
   ("VALUE_DOUBLE_SUMMARY", 45), ("VALUE_FLOAT", 30), ("VALUE_IP4ADDR", 61),
   ("VALUE_LIST", 70), ("VALUE_LONG_SUMMARY", 46), ("VALUE_MAP", 80),
   ("VALUE_NULL", 0), ("VALUE_TEXT", 50), ("VALUE_TEXT_HASH", 51)]

/-- `CreateValue`: case label → type of the value the arm returns, sorted by label -/
def factoryTable : List (String × String) :=
  [("ARRAY_FLOAT", "FloatArray"), ("ARRAY_INT", "IntArray"), ("ARRAY_LONG", "LongArray"),
   ("ARRAY_TEXT", "TextArray"), ("INT_VALUE_MAP", "IntMapValue"), ("VALUE_BLOB", "BlobValue"),
   ("VALUE_BOOLEAN", "BoolValue"), ("VALUE_DECIMAL", "DecimalValue"), ("VALUE_DECIMAL_INT", "IntValue"),
   ("VALUE_DECIMAL_LONG", "LongValue"), ("VALUE_DOUBLE", "DoubleValue"), ("VALUE_DOUBLE_SUMMARY", "DoubleSummary"),
   ("VALUE_FLOAT", "FloatValue"), ("VALUE_IP4ADDR", "IP4Value"), ("VALUE_LIST", "ListValue"),
   ("VALUE_LONG_SUMMARY", "LongSummary"), ("VALUE_MAP", "MapValue"), ("VALUE_NULL", "NullValue"),
   ("VALUE_TEXT", "TextValue"), ("VALUE_TEXT_HASH", "TextHashValue")]

/-- per type: the constant `GetValueType` returns, the stream calls of `Write`, the stream (and
    table) calls of `Read`, in source order; sorted by type name -/
def typeTable : List (String × String × List String × List String) :=
  [("BlobValue", "VALUE_BLOB", ["WriteBlob"], ["ReadBlob"]),
   ("BoolValue", "VALUE_BOOLEAN", ["WriteBool"], ["ReadBool"]),
   ("DecimalValue", "VALUE_DECIMAL", ["WriteDecimal"], ["ReadDecimal"]),
   ("DoubleSummary", "VALUE_DOUBLE_SUMMARY", ["WriteDouble", "WriteInt", "WriteDouble", "WriteDouble"],
      ["ReadDouble", "ReadInt", "ReadDouble", "ReadDouble"]),
   ("DoubleValue", "VALUE_DOUBLE", ["WriteDouble"], ["ReadDouble"]),
   ("FloatArray", "ARRAY_FLOAT", ["WriteFloatArray"], ["ReadFloatArray"]),
   ("FloatValue", "VALUE_FLOAT", ["WriteFloat"], ["ReadFloat"]),
   ("IP4Value", "VALUE_IP4ADDR", ["WriteBytes"], ["ReadBytes"]),
   ("IntArray", "ARRAY_INT", ["WriteIntArray"], ["ReadIntArray"]),
   ("IntMapValue", "INT_VALUE_MAP", ["WriteDecimal", "WriteInt", "WriteValue"], ["ReadDecimal", "ReadInt", "ReadValue", "Put"]),
   ("IntValue", "VALUE_DECIMAL_INT", ["WriteInt"], ["ReadInt"]),
   ("ListValue", "VALUE_LIST", ["WriteDecimal", "WriteDecimal", "WriteValue"], ["ReadDecimal", "ReadValue"]),
   ("LongArray", "ARRAY_LONG", ["WriteLongArray"], ["ReadLongArray"]),
   ("LongSummary", "VALUE_LONG_SUMMARY", ["WriteLong", "WriteInt", "WriteLong", "WriteLong"],
      ["ReadLong", "ReadInt", "ReadLong", "ReadLong"]),
   ("LongValue", "VALUE_DECIMAL_LONG", ["WriteLong"], ["ReadLong"]),
   ("MapValue", "VALUE_MAP", ["WriteDecimal", "WriteText", "WriteValue"], ["ReadDecimal", "ReadText", "ReadValue", "Put"]),
   ("NullValue", "VALUE_NULL", [], []),
   ("TextArray", "ARRAY_TEXT", ["WriteTextArray"], ["ReadTextArray"]),
   ("TextHashValue", "VALUE_TEXT_HASH", ["WriteInt"], ["ReadInt"]),
   ("TextValue", "VALUE_TEXT", ["WriteText"], ["ReadText"])]

/-- package-level `var`s of the two packages the codec lives in: the shared null value, nothing else -/
def codecPkgVars : List (String × List String) := [("lang/value", ["NULL_VALUE"]), ("io", [])]

/-- the only function of those packages whose body mentions a package-level var, and it only reads it -/
def codecStateRefs : List (String × String × String × String) :=
  [("lang/value", "NewNullValue", "r", "NULL_VALUE")]

/-- `WriteValue` / `ReadValue`: the calls in source order -/
def writeValueCalls : List String := ["WriteByte", "GetValueType", "Write"]
def readValueCalls : List String := ["ReadByte", "CreateValue", "Read"]

/-- the model's name for each implemented type -/
def Ctor.typeName : Ctor → String
  | .null => "NullValue" | .bool => "BoolValue" | .dec => "DecimalValue" | .int => "IntValue"
  | .long => "LongValue" | .f32 => "FloatValue" | .f64 => "DoubleValue" | .dsum => "DoubleSummary"
  | .lsum => "LongSummary" | .text => "TextValue" | .hash => "TextHashValue" | .blob => "BlobValue"
  | .ip4 => "IP4Value" | .list => "ListValue" | .ai => "IntArray" | .af => "FloatArray"
  | .at => "TextArray" | .al => "LongArray" | .map => "MapValue" | .imap => "IntMapValue"

/-- code of a type according to the source tables: its `GetValueType` constant, looked up in the const block -/
def codeBySource (ty : String) : Option Nat :=
  match typeTable.find? (fun e => e.1 == ty) with
  | some (_, c, _, _) => (constTable.find? (fun e => e.1 == c)).map (·.2)
  | none => none

/-- type created for a code according to the source tables -/
def typeBySource (n : Nat) : Option String :=
  match constTable.find? (fun e => e.2 == n) with
  | some (c, _) => (factoryTable.find? (fun e => e.1 == c)).map (·.2)
  | none => none

end Value

namespace Value

/-- the model's code table is the one the source tables spell out, in both directions -/
theorem code_matches_source : ∀ c ∈ Ctor.all, codeBySource c.typeName = some c.code := by decide
theorem factory_matches_source : ∀ c ∈ Ctor.all, typeBySource c.code = some c.typeName := by decide

end Value
