/-
  Golib.Value.CmpIRC — IR and semantics for what `xlate/c20` transcribes of
    * `Equals` / `CompareTo` of the three container types (ListValue, MapValue, IntMapValue), and
    * the slice helpers of util/compare (`CompareToBytes/…/Strings`, `EqualBytes/…`).

  A container `CompareTo` is, in source order,
      if o == nil { return K }                       nilRet      (a nil argument is outside the model)
      if type≠ { return int(this) - int(o) }         fallback
      that := o.(*T)
      if size(this) != size(that) { return size(this) - size(that) }      sizeCheck
      loop over the receiver's entries               iter = "index"  for i := 0; i < len(this.table); i++   with that.table[i]
                                                     iter = "keys"   keys := this.Keys(); for keys.HasMoreElements() … that.table.Get(key)
        v1 := <receiver's entry>.(Value)
        v2 := <other's entry>.(Value)   |   v2, _ := <other's entry>.(Value)      thatCommaOk
        body: `if v2 == nil { return K }`  |  `c := v1.CompareTo(v2); if c != 0 { return c }`
      return K                                       endRet
  and `Equals` likewise with `if v1.Equals(v2) == false { return false }`.

  Semantics.  The other container's entry is an `Option Value` (`none` = Go's nil interface: a key the
  other map lacks).  A plain type assertion on nil panics, an index past the other slice panics: the
  interpretation is then `none`, and no agreement theorem can be proved.  Calls on the children go
  through a parameter `rec` (the theorems instantiate it with the model, and `…_unique` shows that
  the model is the only function that satisfies the transcribed equations).

  A slice helper is  `l_sz := len(l); r_sz := len(r); for i := 0; i < l_sz && i < r_sz; i++ { steps }; return l_sz - r_sz`
  with steps `if l[i] > r[i] { return K }`, `if l[i] < r[i] { return K }`,
  `rt := strings.Compare(l[i], r[i]); if rt != 0 { return rt }`; the loop is read as the parallel
  walk of the two lists, the final difference as the difference of what is left.
-/
import Golib.Value.CmpIR

namespace Value
namespace IR

/-! ### containers -/

inductive CStep where
  | missingRet (k : Int)      -- if v2 == nil { return k }
  | recNonzero                -- c := v1.CompareTo(v2); if c != 0 { return c }
  | unknownK (why : String)
deriving Repr, DecidableEq

inductive EStep where
  | missingRetE (b : Bool)    -- if v2 == nil { return b }
  | recUnequal (b : Bool)     -- if v1.Equals(v2) == false { return b }
  | unknownQ (why : String)
deriving Repr, DecidableEq

structure ContCmp where
  nilRet : Int
  fallback : String
  sizeCheck : Bool
  iter : String
  thatCommaOk : Bool
  body : List CStep
  endRet : Int
deriving Repr

structure ContEq where
  guard : Bool               -- if o == nil || o.GetValueType() != this.GetValueType() { return false }
  sizeCheck : Bool           -- if size(this) != size(that) { return false }
  iter : String
  thatCommaOk : Bool
  body : List EStep
  endRet : Bool
deriving Repr

/-- one pass through the loop body: `none` = panic / unknown, `some none` = next iteration -/
def runCSteps (rec : Value → Value → Int) (v1 : Value) (v2 : Option Value) : List CStep → Option (Option Int)
  | [] => some none
  | .missingRet k :: rest => if v2.isNone then some (some k) else runCSteps rec v1 v2 rest
  | .recNonzero :: rest =>
    match v2 with
    | none => none
    | some w => if rec v1 w ≠ 0 then some (some (rec v1 w)) else runCSteps rec v1 v2 rest
  | .unknownK _ :: _ => none

def runESteps (rec : Value → Value → Bool) (v1 : Value) (v2 : Option Value) : List EStep → Option (Option Bool)
  | [] => some none
  | .missingRetE b :: rest => if v2.isNone then some (some b) else runESteps rec v1 v2 rest
  | .recUnequal b :: rest =>
    match v2 with
    | none => none
    | some w => if rec v1 w = false then some (some b) else runESteps rec v1 v2 rest
  | .unknownQ _ :: _ => none

/-- `for i := 0; i < len(this.table); i++` with `that.table[i]` -/
def runIdx (step : Value → Option Value → Option (Option α)) (endRet : α) : List Value → List Value → Option α
  | [], _ => some endRet
  | _ :: _, [] => none
  | x :: xs, y :: ys =>
    match step x (some y) with
    | none => none
    | some (some k) => some k
    | some none => runIdx step endRet xs ys

/-- `keys := this.Keys(); for keys.HasMoreElements() { key := keys.Next…(); … that.table.Get(key) … }` -/
def runKeys {K : Type} [DecidableEq K] (step : Value → Option Value → Option (Option α)) (endRet : α) (commaOk : Bool) :
    List (K × Value) → List (K × Value) → Option α
  | [], _ => some endRet
  | (k, v) :: kvs, other =>
    if (lookupKV k other).isNone && !commaOk then none else
    match step v (lookupKV k other) with
    | none => none
    | some (some r) => some r
    | some none => runKeys step endRet commaOk kvs other

/-- the whole container `CompareTo` on two (non-nil) values -/
def runContCmp (cc : ContCmp) (rec : Value → Value → Int) (a b : Value) : Option Int :=
  if tag a ≠ tag b then (if cc.fallback == "intSub" then some ((tag a : Int) - (tag b : Int)) else none) else
  match a, b with
  | .list xs, .list ys =>
    if cc.iter != "index" then none
    else if cc.sizeCheck && xs.length != ys.length then some ((xs.length : Int) - ys.length)
    else runIdx (fun v1 v2 => runCSteps rec v1 v2 cc.body) cc.endRet xs ys
  | .map xs, .map ys =>
    if cc.iter != "keys" then none
    else if cc.sizeCheck && xs.length != ys.length then some ((xs.length : Int) - ys.length)
    else runKeys (fun v1 v2 => runCSteps rec v1 v2 cc.body) cc.endRet cc.thatCommaOk xs ys
  | .imap xs, .imap ys =>
    if cc.iter != "keys" then none
    else if cc.sizeCheck && xs.length != ys.length then some ((xs.length : Int) - ys.length)
    else runKeys (fun v1 v2 => runCSteps rec v1 v2 cc.body) cc.endRet cc.thatCommaOk xs ys
  | _, _ => none

def runContEq (ce : ContEq) (rec : Value → Value → Bool) (a b : Value) : Option Bool :=
  if tag a ≠ tag b then (if ce.guard then some false else none) else
  match a, b with
  | .list xs, .list ys =>
    if ce.iter != "index" then none
    else if ce.sizeCheck && xs.length != ys.length then some false
    else runIdx (fun v1 v2 => runESteps rec v1 v2 ce.body) ce.endRet xs ys
  | .map xs, .map ys =>
    if ce.iter != "keys" then none
    else if ce.sizeCheck && xs.length != ys.length then some false
    else runKeys (fun v1 v2 => runESteps rec v1 v2 ce.body) ce.endRet ce.thatCommaOk xs ys
  | .imap xs, .imap ys =>
    if ce.iter != "keys" then none
    else if ce.sizeCheck && xs.length != ys.length then some false
    else runKeys (fun v1 v2 => runESteps rec v1 v2 ce.body) ce.endRet ce.thatCommaOk xs ys
  | _, _ => none

/-! ### util/compare slice helpers -/

inductive HStep where
  | ifGt (k : Int)            -- if l[i] > r[i] { return k }
  | ifLt (k : Int)            -- if l[i] < r[i] { return k }
  | cmp3Nonzero               -- rt := strings.Compare(l[i], r[i]); if rt != 0 { return rt }
  | unknownH (why : String)
deriving Repr, DecidableEq

inductive HelperBody where
  | loop (header : String) (body : List HStep) (endRet : String)   -- header "both": i < l_sz && i < r_sz;  endRet "lenDiff": l_sz - r_sz
  | eqZero (callee : String)                                        -- return Callee(l, r) == 0
  | unknownB (why : String)
deriving Repr

def runHSteps (lt : α → α → Bool) (cmp3 : α → α → Int) (x y : α) : List HStep → Option (Option Int)
  | [] => some none
  | .ifGt k :: rest => if lt y x then some (some k) else runHSteps lt cmp3 x y rest
  | .ifLt k :: rest => if lt x y then some (some k) else runHSteps lt cmp3 x y rest
  | .cmp3Nonzero :: rest => if cmp3 x y ≠ 0 then some (some (cmp3 x y)) else runHSteps lt cmp3 x y rest
  | .unknownH _ :: _ => none

def runHLoop (lt : α → α → Bool) (cmp3 : α → α → Int) (steps : List HStep) : List α → List α → Option Int
  | [], ys => some (-(ys.length : Int))
  | x :: xs, [] => some ((x :: xs).length : Int)
  | x :: xs, y :: ys =>
    match runHSteps lt cmp3 x y steps with
    | none => none
    | some (some k) => some k
    | some none => runHLoop lt cmp3 steps xs ys

/-- a `CompareToX` helper of the table, by name -/
def runHelperCmp (tbl : List (String × HelperBody)) (h : String) (lt : α → α → Bool) (cmp3 : α → α → Int)
    (xs ys : List α) : Option Int :=
  match lookup tbl h with
  | some (.loop "both" body "lenDiff") => runHLoop lt cmp3 body xs ys
  | _ => none

/-- an `EqualX` helper of the table: `return CompareToX(l, r) == 0` -/
def runHelperEq (tbl : List (String × HelperBody)) (h : String) (lt : α → α → Bool) (cmp3 : α → α → Int)
    (xs ys : List α) : Option Bool :=
  match lookup tbl h with
  | some (.eqZero callee) => (runHelperCmp tbl callee lt cmp3 xs ys).map (· == 0)
  | _ => none

/-- the helper `h` applied to the payloads of two values of one slice-carrying type
    (bytes and ints by `<`, floats by IEEE `<` on the bit patterns, strings by `strings.Compare`) -/
def payloadCmp (tbl : List (String × HelperBody)) (h : String) (a b : Value) : Option Int :=
  match a, b with
  | .blob x, .blob y => runHelperCmp tbl h ltNat (fun _ _ => 0) x y
  | .ip4 x, .ip4 y => runHelperCmp tbl h ltNat (fun _ _ => 0) x y
  | .ai x, .ai y => runHelperCmp tbl h ltInt (fun _ _ => 0) x y
  | .al x, .al y => runHelperCmp tbl h ltInt (fun _ _ => 0) x y
  | .af x, .af y => runHelperCmp tbl h lt32 (fun _ _ => 0) x y
  | .at x, .at y => runHelperCmp tbl h (fun p q => decide (cmpStr p q < 0)) cmpStr x y
  | _, _ => none

def payloadEq? (tbl : List (String × HelperBody)) (h : String) (a b : Value) : Option Bool :=
  match a, b with
  | .blob x, .blob y => runHelperEq tbl h ltNat (fun _ _ => 0) x y
  | .ip4 x, .ip4 y => runHelperEq tbl h ltNat (fun _ _ => 0) x y
  | .ai x, .ai y => runHelperEq tbl h ltInt (fun _ _ => 0) x y
  | .al x, .al y => runHelperEq tbl h ltInt (fun _ _ => 0) x y
  | .af x, .af y => runHelperEq tbl h lt32 (fun _ _ => 0) x y
  | .at x, .at y => runHelperEq tbl h (fun p q => decide (cmpStr p q < 0)) cmpStr x y
  | _, _ => none

end IR
end Value
