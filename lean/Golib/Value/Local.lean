/-
  Golib.Value.Local — for ANY input (not only encodings of well-formed values): a successful decode
  depends only on the bytes it consumed.  The input is `consumed ++ rest`, and replacing `rest` by
  anything else — more bytes arriving later on a connection, the next value of a stream, nothing —
  gives the same value and leaves that other rest.  Hence also: a strict prefix of a complete
  encoding never decodes to the same thing with bytes to spare; the reader never looks ahead.
-/
import Golib.Value.Stream

namespace Value
open Prim

def Loc (f : Nat) : Prop :=
  (∀ bs v r, decV f bs = some (v, r) → ∃ a, bs = a ++ r ∧ ∀ c, decV f (a ++ c) = some (v, c)) ∧
  (∀ n bs xs r, decVs f n bs = some (xs, r) → ∃ a, bs = a ++ r ∧ ∀ c, decVs f n (a ++ c) = some (xs, c)) ∧
  (∀ n acc bs kvs r, decKVs f n acc bs = some (kvs, r) → ∃ a, bs = a ++ r ∧ ∀ c, decKVs f n acc (a ++ c) = some (kvs, c)) ∧
  (∀ n acc bs kvs r, decIKVs f n acc bs = some (kvs, r) → ∃ a, bs = a ++ r ∧ ∀ c, decIKVs f n acc (a ++ c) = some (kvs, c))

theorem loc_zero : Loc 0 := by
  refine ⟨?_, ?_, ?_, ?_⟩
  · intro bs v r h; simp [decV] at h
  · intro n bs xs r h
    cases n with
    | zero =>
      simp only [decVs, Option.some.injEq, Prod.mk.injEq] at h; obtain ⟨rfl, rfl⟩ := h
      exact ⟨[], rfl, fun c => by simp [decVs]⟩
    | succ n => simp [decVs] at h
  · intro n acc bs kvs r h
    cases n with
    | zero =>
      simp only [decKVs, Option.some.injEq, Prod.mk.injEq] at h; obtain ⟨rfl, rfl⟩ := h
      exact ⟨[], rfl, fun c => by simp [decKVs]⟩
    | succ n => simp [decKVs] at h
  · intro n acc bs kvs r h
    cases n with
    | zero =>
      simp only [decIKVs, Option.some.injEq, Prod.mk.injEq] at h; obtain ⟨rfl, rfl⟩ := h
      exact ⟨[], rfl, fun c => by simp [decIKVs]⟩
    | succ n => simp [decIKVs] at h

/-- one primitive read, then a constructor: the shape of the fourteen simple arms of `decV` -/
theorem loc_prim {α : Type} (p : P α) (g : α → Value) (bs : Bytes) (v : Value) (r : Bytes)
    (h : (P.run p bs).map (fun x => (g x.1, x.2)) = some (v, r)) :
    ∃ a, bs = a ++ r ∧ ∀ c, (P.run p (a ++ c)).map (fun x => (g x.1, x.2)) = some (v, c) := by
  obtain ⟨x, b, hr, e⟩ := map_some' h
  simp only [Prod.mk.injEq] at e; obtain ⟨rfl, rfl⟩ := e
  obtain ⟨a, ha, hc⟩ := P.locality p bs x b hr
  exact ⟨a, ha, fun c => by rw [hc c]; rfl⟩

theorem loc_succ (f : Nat) (ih : Loc f) : Loc (f + 1) := by
  obtain ⟨ihV, ihVs, ihK, ihI⟩ := ih
  refine ⟨?_, ?_, ?_, ?_⟩
  · intro bs v r h
    cases bs with
    | nil => simp [decV] at h
    | cons t bs =>
      -- it suffices to find the consumed part of the body
      suffices hs : ∃ a, bs = a ++ r ∧ ∀ c, decV (f + 1) (t :: (a ++ c)) = some (v, c) by
        obtain ⟨a, ha, hc⟩ := hs
        exact ⟨t :: a, by rw [ha]; rfl, fun c => by rw [List.cons_append]; exact hc c⟩
      simp only [decV] at h ⊢
      split at h
      · simp only [Option.some.injEq, Prod.mk.injEq] at h; obtain ⟨rfl, rfl⟩ := h
        exact ⟨[], rfl, fun c => rfl⟩
      · exact loc_prim _ _ _ _ _ h
      · exact loc_prim _ _ _ _ _ h
      · exact loc_prim _ _ _ _ _ h
      · exact loc_prim _ _ _ _ _ h
      · exact loc_prim _ _ _ _ _ h
      · exact loc_prim _ _ _ _ _ h
      · -- dsum
        split at h
        · cases h
        · rename_i s r1 h1
          split at h
          · cases h
          · rename_i c0 r2 h2
            split at h
            · cases h
            · rename_i mn r3 h3
              obtain ⟨mx, b, h4, e⟩ := map_some' h
              simp only [Prod.mk.injEq] at e; obtain ⟨rfl, rfl⟩ := e
              obtain ⟨a1, e1, l1⟩ := P.locality _ _ _ _ h1
              obtain ⟨a2, e2, l2⟩ := P.locality _ _ _ _ h2
              obtain ⟨a3, e3, l3⟩ := P.locality _ _ _ _ h3
              obtain ⟨a4, e4, l4⟩ := P.locality _ _ _ _ h4
              refine ⟨a1 ++ (a2 ++ (a3 ++ a4)), by rw [e1, e2, e3, e4]; simp, fun c => ?_⟩
              simp only [List.append_assoc, l1, l2, l3, l4]; rfl
      · -- lsum
        split at h
        · cases h
        · rename_i s r1 h1
          split at h
          · cases h
          · rename_i c0 r2 h2
            split at h
            · cases h
            · rename_i mn r3 h3
              obtain ⟨mx, b, h4, e⟩ := map_some' h
              simp only [Prod.mk.injEq] at e; obtain ⟨rfl, rfl⟩ := e
              obtain ⟨a1, e1, l1⟩ := P.locality _ _ _ _ h1
              obtain ⟨a2, e2, l2⟩ := P.locality _ _ _ _ h2
              obtain ⟨a3, e3, l3⟩ := P.locality _ _ _ _ h3
              obtain ⟨a4, e4, l4⟩ := P.locality _ _ _ _ h4
              refine ⟨a1 ++ (a2 ++ (a3 ++ a4)), by rw [e1, e2, e3, e4]; simp, fun c => ?_⟩
              simp only [List.append_assoc, l1, l2, l3, l4]; rfl
      · exact loc_prim _ _ _ _ _ h
      · exact loc_prim _ _ _ _ _ h
      · exact loc_prim _ _ _ _ _ h
      · exact loc_prim _ _ _ _ _ h
      · -- list
        split at h
        · cases h
        · rename_i n r1 h1
          split at h
          · cases h
          · rename_i hn
            obtain ⟨xs, b, hr, e⟩ := map_some' h
            simp only [Prod.mk.injEq] at e; obtain ⟨rfl, rfl⟩ := e
            obtain ⟨a1, e1, l1⟩ := P.locality _ _ _ _ h1
            obtain ⟨a2, e2, l2⟩ := ihVs _ _ _ _ hr
            refine ⟨a1 ++ a2, by rw [e1, e2]; simp, fun c => ?_⟩
            simp only [List.append_assoc, l1, hn, ↓reduceIte, l2]; rfl
      · exact loc_prim _ _ _ _ _ h
      · exact loc_prim _ _ _ _ _ h
      · exact loc_prim _ _ _ _ _ h
      · exact loc_prim _ _ _ _ _ h
      · -- map
        split at h
        · cases h
        · rename_i n r1 h1
          obtain ⟨kvs, b, hr, e⟩ := map_some' h
          simp only [Prod.mk.injEq] at e; obtain ⟨rfl, rfl⟩ := e
          obtain ⟨a1, e1, l1⟩ := P.locality _ _ _ _ h1
          obtain ⟨a2, e2, l2⟩ := ihK _ _ _ _ _ hr
          refine ⟨a1 ++ a2, by rw [e1, e2]; simp, fun c => ?_⟩
          simp only [List.append_assoc, l1, l2]; rfl
      · -- imap
        split at h
        · cases h
        · rename_i n r1 h1
          obtain ⟨kvs, b, hr, e⟩ := map_some' h
          simp only [Prod.mk.injEq] at e; obtain ⟨rfl, rfl⟩ := e
          obtain ⟨a1, e1, l1⟩ := P.locality _ _ _ _ h1
          obtain ⟨a2, e2, l2⟩ := ihI _ _ _ _ _ hr
          refine ⟨a1 ++ a2, by rw [e1, e2]; simp, fun c => ?_⟩
          simp only [List.append_assoc, l1, l2]; rfl
      · cases h
  · intro n bs xs r h
    cases n with
    | zero =>
      simp only [decVs, Option.some.injEq, Prod.mk.injEq] at h; obtain ⟨rfl, rfl⟩ := h
      exact ⟨[], rfl, fun c => by simp [decVs]⟩
    | succ n =>
      simp only [decVs] at h
      split at h
      · cases h
      · rename_i x r1 h1
        obtain ⟨ys, b, hr, e⟩ := map_some' h
        simp only [Prod.mk.injEq] at e; obtain ⟨rfl, rfl⟩ := e
        obtain ⟨a1, e1, l1⟩ := ihV _ _ _ h1
        obtain ⟨a2, e2, l2⟩ := ihVs _ _ _ _ hr
        refine ⟨a1 ++ a2, by rw [e1, e2]; simp, fun c => ?_⟩
        simp only [decVs, List.append_assoc, l1, l2]; rfl
  · intro n acc bs kvs r h
    cases n with
    | zero =>
      simp only [decKVs, Option.some.injEq, Prod.mk.injEq] at h; obtain ⟨rfl, rfl⟩ := h
      exact ⟨[], rfl, fun c => by simp [decKVs]⟩
    | succ n =>
      simp only [decKVs] at h
      split at h
      · cases h
      · rename_i k r1 h1
        split at h
        · cases h
        · rename_i v r2 h2
          obtain ⟨a1, e1, l1⟩ := P.locality _ _ _ _ h1
          obtain ⟨a2, e2, l2⟩ := ihV _ _ _ h2
          obtain ⟨a3, e3, l3⟩ := ihK _ _ _ _ _ h
          refine ⟨a1 ++ (a2 ++ a3), by rw [e1, e2, e3]; simp, fun c => ?_⟩
          simp only [decKVs, List.append_assoc, l1, l2, l3]
  · intro n acc bs kvs r h
    cases n with
    | zero =>
      simp only [decIKVs, Option.some.injEq, Prod.mk.injEq] at h; obtain ⟨rfl, rfl⟩ := h
      exact ⟨[], rfl, fun c => by simp [decIKVs]⟩
    | succ n =>
      simp only [decIKVs] at h
      split at h
      · cases h
      · rename_i k r1 h1
        split at h
        · cases h
        · rename_i v r2 h2
          obtain ⟨a1, e1, l1⟩ := P.locality _ _ _ _ h1
          obtain ⟨a2, e2, l2⟩ := ihV _ _ _ h2
          obtain ⟨a3, e3, l3⟩ := ihI _ _ _ _ _ h
          refine ⟨a1 ++ (a2 ++ a3), by rw [e1, e2, e3]; simp, fun c => ?_⟩
          simp only [decIKVs, List.append_assoc, l1, l2, l3]

theorem loc (f : Nat) : Loc f := by
  induction f with
  | zero => exact loc_zero
  | succ f ih => exact loc_succ f ih

/-- locality of the value decoder, for any input and any fuel -/
theorem decV_locality (f : Nat) (bs : Bytes) (v : Value) (r : Bytes) (h : decV f bs = some (v, r)) :
    ∃ a, bs = a ++ r ∧ ∀ c, decV f (a ++ c) = some (v, c) := (loc f).1 bs v r h

end Value
