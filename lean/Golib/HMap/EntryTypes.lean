/-
  Golib.HMap.EntryTypes — per-type facts about the entry objects of the ten linked maps (`<Type>LinkedEntry.go`) and the
  text of the containers, and their reading as an `EntryKind` over the drivers' integer values.

  `entryDescs` is what the CodeModel assumes; tie A regenerates the same table from the Go source on every run
  (`Golib.Gen.C09Entry`) and `Golib.Props.C09Gen.entry_facts_match` proves them equal.

  Reading of the three textual facts:
  * `equals`   `k` = `this.key == o.key` (or `this.key.Equals(o.key)`), `kv` = `… && this.value == o.value`
  * `hash`     the `HashCode()` expression, printed by go/printer
  * `fmt`      the format string of `ToString()`; `%d`, `%v` of an integer = decimal digits, `%s` of a string = its bytes,
               `%v` of an interface{} value = what the stored value prints (`<nil>` for nil), `%v` of a LinkedKey = its
               `String()`, `%f` of a float32 = a placeholder "byte" `256 + bits` (Lean does not format floats; the harness
               substitutes Go's own `%f` rendering of that bit pattern)
-/
import Golib.HMap.Entry
import Golib.HMap.Types

namespace HMap

structure EntryDesc where
  owner : String        -- the container type
  entry : String        -- the entry type ("" for the sets: their `…Setry` cells are never handed out)
  equals : String       -- "k" | "kv"
  hash : String
  fmt : String          -- format string of the entry's (for sets: the container's per-key) ToString
  setValue : List String  -- the statements of SetValue, in order
  getters : String      -- what GetKey() and GetValue() return
  deriving DecidableEq, Repr

def entryDescs : List EntryDesc := [
  ⟨"LinkedMap", "LinkedEntry", "k", "this.key.Hash()", "%v=%v", ["old:=value", "value=v", "ret old"], "this.key,this.value"⟩,
  ⟨"IntKeyLinkedMap", "IntKeyLinkedEntry", "k", "uint(this.key ^ this.key>>32)", "%d=%v", ["old:=value", "value=v", "ret old"], "this.key,this.value"⟩,
  ⟨"LongKeyLinkedMap", "LongKeyLinkedEntry", "k", "uint(this.key ^ this.key>>32)", "%d=%v", ["old:=value", "value=v", "ret old"], "this.key,this.value"⟩,
  ⟨"StringKeyLinkedMap", "StringKeyLinkedEntry", "k", "uint(hash.Hash([]byte(this.key)))", "%s=%v", ["old:=value", "value=v", "ret old"], "this.key,this.value"⟩,
  ⟨"IntIntLinkedMap", "IntIntLinkedEntry", "kv", "uint(this.key) ^ uint(this.value)", "%d=%d", ["old:=value", "value=v", "ret old"], "this.key,this.value"⟩,
  ⟨"IntFloatLinkedMap", "IntFloatLinkedEntry", "kv", "uint(this.key) ^ uint(math.Float32bits(this.value))", "%d=%f", ["old:=value", "value=v", "ret old"], "this.key,this.value"⟩,
  ⟨"LongFloatLinkedMap", "LongFloatLinkedEntry", "kv", "uint(this.key) ^ uint(math.Float32bits(this.value))", "%d=%f", ["old:=value", "value=v", "ret old"], "this.key,this.value"⟩,
  ⟨"LongLongLinkedMap", "LongLongLinkedEntry", "kv", "uint(this.key) ^ uint(this.value)", "%d=%d", ["old:=value", "value=v", "ret old"], "this.key,this.value"⟩,
  ⟨"StringIntLinkedMap", "StringIntLinkedEntry", "k", "uint(hash.Hash([]byte(this.key)))", "%s=%v", ["old:=value", "value=v", "ret old"], "this.key,this.value"⟩,
  ⟨"StringLongLinkedMap", "StringLongLinkedEntry", "k", "uint(hash.Hash([]byte(this.key)))", "%s=%v", ["old:=value", "value=v", "ret old"], "this.key,this.value"⟩,
  ⟨"LinkedSet", "", "", "", "%v", [], ""⟩,
  ⟨"IntLinkedSet", "", "", "", "%d", [], ""⟩,
  ⟨"StringLinkedSet", "", "", "", "%s", [], ""⟩
]

/-- the meaning of the statements of `SetValue(v)` on a cell whose value field holds `value`:
    `some (value field afterwards, returned value)`; `none` for a statement list that is not understood -/
def interpSetValue {V : Type} (stmts : List String) (value v : V) : Option (V × V) :=
  go stmts value none
where
  go : List String → V → Option V → Option (V × V)
    | [], _, _ => none
    | s :: r, val, old =>
      if s == "old:=value" then go r val (some val)
      else if s == "value=v" then go r v old
      else if s == "ret old" && r.isEmpty then old.map (fun o => (val, o))
      else none

def findEntryDesc (name : String) : Option EntryDesc := entryDescs.find? (fun e => e.owner == name)

/-- `uint(x)` of a signed integer on a 64-bit platform -/
def u64 (x : Int) : Nat := (x % 18446744073709551616).toNat

def decBytes (x : Int) : List Nat := (toString x).toList.map Char.toNat

/-- `<nil>` -/
def nilText : List Nat := [60, 110, 105, 108, 62]

/-- `HashCode()` over integer keys and values, by the expression the entry type uses; a hash delegated to the key
    (`key.Hash()`, `hash.Hash([]byte(key))`) is not computed here: 0 -/
def entryHash (t : TypeDesc) (e : EntryDesc) (k v : Int) : Nat :=
  if e.hash == "uint(this.key) ^ uint(this.value)" then u64 k ^^^ u64 v
  else if e.hash == "uint(this.key) ^ uint(math.Float32bits(this.value))" then u64 k ^^^ u64 v
  else if e.hash == "uint(this.key ^ this.key>>32)" then
    -- int32 key: the shift by 32 leaves the sign (0 / -1); int64 key: the high half, sign-extended
    (if t.key == .int32 then (if k < 0 then (-k - 1).toNat else k.toNat) else u64 k ^^^ u64 (k / 4294967296))
  else 0

/-- how `ToString` prints a value of the type's value kind under the verb of the format string -/
def showValue (t : TypeDesc) (verb : String) (v : Int) : List Nat :=
  match t.val with
  | .obj => if v == nilValue then nilText else decBytes v
  | .float32 => if verb == "%f" then [256 + v.toNat] else []
  | .unit => []
  | _ => decBytes v

/-- the two verbs of `"%a=%b"` (a set's format string has one) -/
def fmtVerbs (fmt : String) : String × String :=
  match fmt.splitOn "=" with
  | [a, b] => (a, b)
  | [a] => (a, "")
  | _ => ("", "")

def entryKindOf {K : Type} (t : TypeDesc) (e : EntryDesc) (showK : K → List Nat) (hashK : K → Int → Nat) : EntryKind K Int :=
  { eqValue := e.equals == "kv", veq := t.veq, hashCode := hashK, showK := showK,
    showV := showValue t (fmtVerbs e.fmt).2, keyOnly := t.val == .unit }

end HMap
