/-
  Golib.HMap.SpecLemmas — facts about association lists and about the Spec dictionary itself:
  keys stay distinct, lookup laws, the size bound, no eviction on update, eviction from the
  opposite end.
-/
import Golib.HMap.Spec

set_option linter.unusedSectionVars false

namespace HMap
namespace AL
variable {K V : Type} [DecidableEq K]

def keys (l : List (K × V)) : List K := l.map Prod.fst

@[simp] theorem get_nil (k : K) : get ([] : List (K × V)) k = none := rfl

theorem get_cons (a : K) (b : V) (t : List (K × V)) (k : K) :
    get ((a, b) :: t) k = if a = k then some b else get t k := rfl

theorem get_none_iff {l : List (K × V)} {k : K} : get l k = none ↔ k ∉ keys l := by
  induction l with
  | nil => simp [keys]
  | cons e t ih =>
    obtain ⟨a, b⟩ := e
    rw [get_cons]
    by_cases hak : a = k
    · subst hak; simp [keys]
    · simp only [hak, if_false, keys, List.map_cons, List.mem_cons]
      rw [ih]
      constructor
      · intro h hh; rcases hh with hh | hh
        · exact hak hh.symm
        · exact h hh
      · intro h hh; exact h (Or.inr hh)

theorem get_some_mem {l : List (K × V)} {k : K} {v : V} (h : get l k = some v) : (k, v) ∈ l := by
  induction l with
  | nil => simp at h
  | cons e t ih =>
    obtain ⟨a, b⟩ := e
    rw [get_cons] at h
    by_cases hak : a = k
    · subst hak; simp at h; subst h; simp
    · simp [hak] at h; exact List.mem_cons_of_mem _ (ih h)

theorem get_isSome_iff {l : List (K × V)} {k : K} : (get l k).isSome ↔ k ∈ keys l := by
  have := get_none_iff (l := l) (k := k)
  cases h : get l k with
  | none => simp [h] at this ⊢; exact this
  | some v =>
    simp only [Option.isSome_some, true_iff]
    exact List.mem_map.mpr ⟨(k, v), get_some_mem h, rfl⟩

theorem get_eq_some_iff {l : List (K × V)} (hn : (keys l).Nodup) {k : K} {v : V} :
    get l k = some v ↔ (k, v) ∈ l := by
  constructor
  · exact get_some_mem
  · intro h
    induction l with
    | nil => simp at h
    | cons e t ih =>
      obtain ⟨a, b⟩ := e
      rw [get_cons]
      simp only [keys, List.map_cons, List.nodup_cons] at hn
      rcases List.mem_cons.mp h with h | h
      · cases h; simp
      · have : a ≠ k := by
          intro hak; subst hak
          exact hn.1 (List.mem_map.mpr ⟨(a, v), h, rfl⟩)
        simp [this, ih hn.2 h]

theorem get_append (l₁ l₂ : List (K × V)) (k : K) :
    get (l₁ ++ l₂) k = match get l₁ k with | some v => some v | none => get l₂ k := by
  induction l₁ with
  | nil => simp
  | cons e t ih =>
    obtain ⟨a, b⟩ := e
    simp only [List.cons_append, get_cons]
    by_cases hak : a = k <;> simp [hak, ih]

/-! erase -/

theorem keys_erase (l : List (K × V)) (k : K) : keys (erase l k) = (keys l).filter (fun a => !decide (a = k)) := by
  unfold erase keys
  induction l with
  | nil => rfl
  | cons e t ih =>
    simp only [List.filter_cons, List.map_cons]
    by_cases h : e.1 = k <;> simp [h, ih]

theorem erase_sublist (l : List (K × V)) (k : K) : (erase l k).Sublist l := List.filter_sublist

theorem nodup_erase {l : List (K × V)} (k : K) (h : (keys l).Nodup) : (keys (erase l k)).Nodup := by
  rw [keys_erase]; exact List.Nodup.sublist List.filter_sublist h

theorem not_mem_keys_erase (l : List (K × V)) (k : K) : k ∉ keys (erase l k) := by
  rw [keys_erase]; simp

theorem get_erase (l : List (K × V)) (k k' : K) : get (erase l k) k' = if k = k' then none else get l k' := by
  induction l with
  | nil => simp [erase]
  | cons e t ih =>
    obtain ⟨a, b⟩ := e
    unfold erase at ih ⊢
    simp only [List.filter_cons]
    by_cases hak : a = k
    · subst hak
      simp only [decide_true, Bool.not_true, Bool.false_eq_true, if_false, ih, get_cons]
      by_cases h : a = k' <;> simp [h]
    · simp only [hak, decide_false, Bool.not_false, if_true, get_cons, ih]
      by_cases h : a = k'
      · subst h
        have : ¬ k = a := fun e => hak e.symm
        simp [this]
      · simp [h]

theorem erase_of_not_mem {l : List (K × V)} {k : K} (h : k ∉ keys l) : erase l k = l := by
  unfold erase
  apply List.filter_eq_self.mpr
  intro e he
  simp only [Bool.not_eq_eq_eq_not, Bool.not_true, decide_eq_false_iff_not]
  intro hk
  exact h (List.mem_map.mpr ⟨e, he, hk⟩)

theorem length_erase_of_mem {l : List (K × V)} {k : K} (hn : (keys l).Nodup) (h : k ∈ keys l) :
    (erase l k).length + 1 = l.length := by
  induction l with
  | nil => simp [keys] at h
  | cons e t ih =>
    obtain ⟨a, b⟩ := e
    simp only [keys, List.map_cons, List.nodup_cons, List.mem_cons] at hn h
    unfold erase
    simp only [List.filter_cons]
    by_cases hak : a = k
    · subst hak
      have : erase t a = t := erase_of_not_mem hn.1
      unfold erase at this
      simp only [decide_true, Bool.not_true, Bool.false_eq_true, if_false, this, List.length_cons]
    · have hk : k ∈ keys t := by
        rcases h with h | h
        · exact absurd h.symm hak
        · exact h
      have := ih hn.2 hk
      unfold erase at this
      simp only [hak, decide_false, Bool.not_false, if_true, List.length_cons]
      omega

/-! set -/

theorem keys_set (l : List (K × V)) (k : K) (v : V) : keys (set l k v) = keys l := by
  unfold set keys
  rw [List.map_map]
  apply List.map_congr_left
  intro e _
  simp only [Function.comp]
  split <;> rfl

@[simp] theorem length_set (l : List (K × V)) (k : K) (v : V) : (set l k v).length = l.length := by
  simp [set]

theorem get_set (l : List (K × V)) (k k' : K) (v : V) :
    get (set l k v) k' = if k = k' then (if (get l k).isSome then some v else none) else get l k' := by
  induction l with
  | nil => simp [set]
  | cons e t ih =>
    obtain ⟨a, b⟩ := e
    unfold set at ih ⊢
    simp only [List.map_cons]
    by_cases hak : a = k
    · subst hak
      simp only [if_true, get_cons]
      by_cases h : a = k' <;> simp [h, ih]
    · simp only [hak, if_false, get_cons, ih]
      by_cases h : a = k'
      · subst h
        have : ¬ k = a := fun e => hak e.symm
        simp [this]
      · simp only [h, if_false]

/-! eviction -/

theorem evictFront_sublist (l : List (K × V)) (max : Nat) : (evictFront l max).Sublist l := by
  unfold evictFront; split
  · exact List.drop_sublist _ _
  · exact List.Sublist.refl _

theorem evictBack_sublist (l : List (K × V)) (max : Nat) : (evictBack l max).Sublist l := by
  unfold evictBack; split
  · exact List.take_sublist _ _
  · exact List.Sublist.refl _

theorem length_evictFront (l : List (K × V)) (max : Nat) :
    (evictFront l max).length = if 0 < max ∧ max ≤ l.length then max - 1 else l.length := by
  unfold evictFront; split
  · rw [List.length_drop]; omega
  · rfl

theorem length_evictBack (l : List (K × V)) (max : Nat) :
    (evictBack l max).length = if 0 < max ∧ max ≤ l.length then max - 1 else l.length := by
  unfold evictBack; split
  · rw [List.length_take]; omega
  · rfl

/-- the eviction loop of the code, on lists: drop the head while `max ≤ length` -/
def evictFrontLoop (max : Nat) : List (K × V) → Nat → List (K × V)
  | l, 0 => l
  | l, fuel + 1 =>
    if max ≤ l.length then
      match l with
      | [] => l
      | _ :: t => evictFrontLoop max t fuel
    else l

theorem evictFrontLoop_eq (max : Nat) (hm : 0 < max) (l : List (K × V)) (fuel : Nat) (hf : l.length < fuel) :
    evictFrontLoop max l fuel = evictFront l max := by
  induction fuel generalizing l with
  | zero => omega
  | succ f ih =>
    unfold evictFrontLoop
    by_cases hle : max ≤ l.length
    · simp only [hle, if_true]
      cases l with
      | nil => simp at hle; omega
      | cons e t =>
        simp only
        rw [ih t (by simp at hf; omega)]
        unfold evictFront
        simp only [List.length_cons] at hle ⊢
        by_cases h2 : max ≤ t.length
        · have e1 : t.length + 1 + 1 - max = (t.length + 1 - max) + 1 := by omega
          simp [hm, h2, hle, e1]
        · have e1 : t.length + 1 + 1 - max = 1 := by omega
          simp [hm, h2, hle, e1]
    · simp only [hle, if_false]
      unfold evictFront
      simp [hle]

/-- … and from the back: drop the last while `max ≤ length` -/
def evictBackLoop (max : Nat) : List (K × V) → Nat → List (K × V)
  | l, 0 => l
  | l, fuel + 1 => if max ≤ l.length then (if l = [] then l else evictBackLoop max l.dropLast fuel) else l

theorem evictBackLoop_eq (max : Nat) (hm : 0 < max) (l : List (K × V)) (fuel : Nat) (hf : l.length < fuel) :
    evictBackLoop max l fuel = evictBack l max := by
  induction fuel generalizing l with
  | zero => omega
  | succ f ih =>
    unfold evictBackLoop
    by_cases hle : max ≤ l.length
    · simp only [hle, if_true]
      by_cases hnil : l = []
      · subst hnil; simp at hle; omega
      · simp only [hnil, if_false]
        have hlen : l.dropLast.length = l.length - 1 := List.length_dropLast
        rw [ih l.dropLast (by omega)]
        unfold evictBack
        rw [hlen]
        by_cases h2 : max ≤ l.length - 1
        · simp only [hm, h2, and_self, if_true, hle]
          rw [List.dropLast_eq_take, List.take_take]
          congr 1; omega
        · simp only [hm, h2, and_false, if_false, hle, and_self, if_true]
          rw [List.dropLast_eq_take]
          congr 1; omega
    · simp only [hle, if_false]
      unfold evictBack
      simp [hle]

end AL

/-! ### the Spec dictionary -/
namespace S
variable {K V : Type} [DecidableEq K] [DecidableEq V]

/-- well-formed state: keys are distinct -/
def WF (s : S K V) : Prop := (AL.keys s.ents).Nodup

theorem keys_append (l₁ l₂ : List (K × V)) : AL.keys (l₁ ++ l₂) = AL.keys l₁ ++ AL.keys l₂ := by
  simp [AL.keys]

theorem nodup_insertNew {l : List (K × V)} (m : Mode) (max : Nat) (k : K) (v : V)
    (hn : (AL.keys l).Nodup) (hk : k ∉ AL.keys l) : (AL.keys (AL.insertNew m l max k v)).Nodup := by
  unfold AL.insertNew
  split
  · simp only [AL.keys, List.map_cons, List.nodup_cons]
    have hs := (AL.evictBack_sublist l max).map Prod.fst
    exact ⟨fun h => hk (hs.subset h), List.Nodup.sublist hs hn⟩
  · rw [keys_append]
    have hs := (AL.evictFront_sublist l max).map Prod.fst
    rw [List.nodup_append]
    refine ⟨List.Nodup.sublist hs hn, by simp [AL.keys], ?_⟩
    intro a ha b hb
    simp [AL.keys] at hb
    subst hb
    intro hab; subst hab
    exact hk (hs.subset ha)

theorem nodup_touch {l : List (K × V)} (m : Mode) (k : K) (v : V) (hn : (AL.keys l).Nodup) :
    (AL.keys (AL.touch m l k v)).Nodup := by
  unfold AL.touch
  split
  · simp only [AL.keys, List.map_cons, List.nodup_cons]
    exact ⟨AL.not_mem_keys_erase l k, AL.nodup_erase k hn⟩
  · rw [keys_append, List.nodup_append]
    refine ⟨AL.nodup_erase k hn, by simp [AL.keys], ?_⟩
    intro a ha b hb
    simp [AL.keys] at hb
    subst hb
    intro hab; subst hab
    exact AL.not_mem_keys_erase l _ ha
  · rw [AL.keys_set]; exact hn

theorem WF_putWith {s : S K V} (h : s.WF) (m : Mode) (k : K) (f : Option V → V) : (s.putWith m k f).1.WF := by
  unfold putWith
  split
  · exact nodup_touch m k _ h
  · rename_i hg
    exact nodup_insertNew m s.max k _ h (AL.get_none_iff.mp hg)

theorem keys_sortEnts (lt : K → K → Bool) (l : List (K × V)) : (AL.keys (AL.sortEnts lt l)).Perm (AL.keys l) := by
  unfold AL.sortEnts AL.keys
  exact (List.mergeSort_perm _ _).map _

theorem keepLast_sublist (max : Nat) (l : List (K × V)) : (AL.keepLast max l).Sublist l := by
  unfold AL.keepLast; split
  · exact List.drop_sublist _ _
  · exact List.Sublist.refl _

/-- every operation keeps the keys distinct -/
theorem WF_step (d : Desc K V) {s : S K V} (h : s.WF) (op : Op K V) : (step d s op).1.WF := by
  cases op <;> simp only [step]
  case put m k v => unfold put; split; exact h; exact WF_putWith h _ _ _
  case add m k v => unfold add; split; exact h; exact WF_putWith h _ _ _
  case addNoOver k v =>
    unfold addNoOver
    split; exact h
    split
    · unfold WF; simp only; rw [AL.keys_set]; exact h
    · rename_i hg
      split; exact h
      unfold WF; simp only
      rw [keys_append, List.nodup_append]
      refine ⟨h, by simp [AL.keys], ?_⟩
      intro a ha b hb
      simp [AL.keys] at hb; subst hb
      intro hab; subst hab
      exact AL.get_none_iff.mp hg ha
  case getLRU k =>
    split
    · unfold WF; simp only
      rw [keys_append, List.nodup_append]
      refine ⟨AL.nodup_erase k h, by simp [AL.keys], ?_⟩
      intro a ha b hb
      simp [AL.keys] at hb; subst hb
      intro hab; subst hab
      exact AL.not_mem_keys_erase _ _ ha
    · exact h
  case remove k => exact AL.nodup_erase k h
  case removeFirst =>
    split
    · exact h
    · rename_i hs
      unfold WF at h ⊢; rw [hs] at h
      simp only [AL.keys, List.map_cons, List.nodup_cons] at h
      exact h.2
  case removeLast =>
    split
    · exact h
    · unfold WF; simp only
      exact List.Nodup.sublist ((List.dropLast_sublist _).map _) h
  case clear => unfold WF; simp [AL.keys]
  case sort lt =>
    unfold WF; simp only
    have hp := keys_sortEnts lt s.ents
    have hs := (keepLast_sublist s.max (AL.sortEnts lt s.ents)).map Prod.fst
    exact List.Nodup.sublist hs (hp.symm.nodup h)
  all_goals exact h

/-! #### the bound -/

theorem length_insertNew (m : Mode) (l : List (K × V)) (max : Nat) (k : K) (v : V) :
    (AL.insertNew m l max k v).length = if 0 < max ∧ max ≤ l.length then max else l.length + 1 := by
  unfold AL.insertNew
  split
  · simp only [List.length_cons, AL.length_evictBack]; split <;> omega
  · simp only [List.length_append, AL.length_evictFront, List.length_cons, List.length_nil]; split <;> omega

theorem length_touch {l : List (K × V)} (m : Mode) (k : K) (v : V) (hn : (AL.keys l).Nodup) (hk : k ∈ AL.keys l) :
    (AL.touch m l k v).length = l.length := by
  have := AL.length_erase_of_mem hn hk
  unfold AL.touch
  split
  · simp; omega
  · simp; omega
  · simp

theorem length_putWith {s : S K V} (h : s.WF) (m : Mode) (k : K) (f : Option V → V) :
    (s.putWith m k f).1.ents.length =
      if (AL.get s.ents k).isSome then s.ents.length
      else if 0 < s.max ∧ s.max ≤ s.ents.length then s.max else s.ents.length + 1 := by
  unfold putWith
  split
  · rename_i hg
    simp only [hg, Option.isSome_some, if_true]
    exact length_touch m k _ h (AL.get_isSome_iff.mp (by simp [hg]))
  · rename_i hg
    simp only [hg, Option.isSome_none, Bool.false_eq_true, if_false]
    exact length_insertNew m _ _ _ _

theorem length_keepLast_le (max : Nat) (l : List (K × V)) : (AL.keepLast max l).length ≤ l.length :=
  (keepLast_sublist max l).length_le

/-- no operation other than SetMax lets a map that is within its bound exceed it -/
theorem bounded_step (d : Desc K V) {s : S K V} (h : s.WF) (hm : 0 < s.max) (hle : s.ents.length ≤ s.max)
    (op : Op K V) (hop : ∀ n, op ≠ .setMax n) :
    (step d s op).1.ents.length ≤ s.max ∧ (step d s op).1.max = s.max := by
  have hput : ∀ m k f, (s.putWith m k f).1.ents.length ≤ s.max ∧ (s.putWith m k f).1.max = s.max := by
    intro m k f
    refine ⟨?_, by unfold putWith; split <;> rfl⟩
    rw [length_putWith h]
    split
    · exact hle
    · split
      · exact Nat.le_refl _
      · rename_i h1 h2
        have : ¬ (s.max ≤ s.ents.length) := fun hh => h2 ⟨hm, hh⟩
        omega
  cases op <;> simp only [step]
  case put m k v => unfold put; split; exact ⟨hle, (by first | rfl | trivial)⟩; exact hput _ _ _
  case add m k v => unfold add; split; exact ⟨hle, (by first | rfl | trivial)⟩; exact hput _ _ _
  case addNoOver k v =>
    unfold addNoOver
    split; exact ⟨hle, (by first | rfl | trivial)⟩
    split
    · simp only [AL.length_set]; exact ⟨hle, (by first | rfl | trivial)⟩
    · split
      · exact ⟨hle, (by first | rfl | trivial)⟩
      · rename_i hf
        simp only [isFull, decide_eq_true_eq] at hf
        simp only [List.length_append, List.length_cons, List.length_nil]
        have : ¬ (s.max ≤ s.ents.length) := fun hh => hf ⟨hm, hh⟩
        exact ⟨by omega, (by first | rfl | trivial)⟩
  case getLRU k =>
    split
    · rename_i v hg
      have hk : k ∈ AL.keys s.ents := AL.get_isSome_iff.mp (by rw [hg]; rfl)
      have := AL.length_erase_of_mem h hk
      simp only [List.length_append, List.length_cons, List.length_nil]
      exact ⟨by omega, (by first | rfl | trivial)⟩
    · exact ⟨hle, (by first | rfl | trivial)⟩
  case remove k =>
    unfold remove
    exact ⟨Nat.le_trans (AL.erase_sublist s.ents k).length_le hle, (by first | rfl | trivial)⟩
  case removeFirst =>
    split
    · exact ⟨hle, (by first | rfl | trivial)⟩
    · rename_i hs
      rw [hs] at hle; simp only [List.length_cons] at hle
      exact ⟨by simp only; omega, (by first | rfl | trivial)⟩
  case removeLast =>
    split
    · exact ⟨hle, (by first | rfl | trivial)⟩
    · simp only [List.length_dropLast]; exact ⟨by omega, (by first | rfl | trivial)⟩
  case clear => exact ⟨by simp, (by first | rfl | trivial)⟩
  case setMax n => exact absurd rfl (hop n)
  case sort lt =>
    refine ⟨Nat.le_trans (length_keepLast_le _ _) ?_, (by first | rfl | trivial)⟩
    have : (AL.sortEnts lt s.ents).length = s.ents.length := (List.mergeSort_perm _ _).length_eq
    rw [this]; exact hle
  all_goals exact ⟨hle, (by first | rfl | trivial)⟩

end S
end HMap
