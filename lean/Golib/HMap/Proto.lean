/-
  Golib.HMap.Proto — tokens of the C09 / C12 driver protocol.

  String keys are **byte strings** (Go strings are byte sequences; ordering is bytewise): the model key type is
  `List Nat`.  Token: `~` = the empty string; a token of characters [A-Za-z0-9_] stands for those bytes; `%<hex>` for
  arbitrary bytes (non-ASCII, invalid UTF-8, control characters, spaces, commas, `=`).

  Values are integers (`Golib.HMap.Types`): numbers, float32 bit patterns (`nan` for any NaN), `nil` for a stored nil
  interface value (printed `-`, as the implementation's accessors cannot tell it from "absent").
-/
import Golib.HMap.Types

namespace HMap.Proto

abbrev BKey := List Nat

def isPlainByte (b : Nat) : Bool :=
  (48 ≤ b && b ≤ 57) || (65 ≤ b && b ≤ 90) || (97 ≤ b && b ≤ 122) || b == 95

def hexDigit (n : Nat) : Char := if n < 10 then Char.ofNat (48 + n) else Char.ofNat (87 + n)

def hexVal (c : Char) : Option Nat :=
  if '0' ≤ c ∧ c ≤ '9' then some (c.toNat - 48)
  else if 'a' ≤ c ∧ c ≤ 'f' then some (c.toNat - 87)
  else none

def unhex : List Char → List Nat → Option (List Nat)
  | [], acc => some acc.reverse
  | [_], _ => none
  | a :: b :: rest, acc =>
    match hexVal a, hexVal b with
    | some x, some y => unhex rest ((x * 16 + y) :: acc)
    | _, _ => none

def showKey (k : BKey) : String :=
  if k.isEmpty then "~"
  else if k.all isPlainByte then String.ofList (k.map Char.ofNat)
  else String.ofList ('%' :: k.foldr (fun b acc => hexDigit (b / 16 % 16) :: hexDigit (b % 16) :: acc) [])

def parseKey (s : String) : Option BKey :=
  if s == "~" then some []
  else match s.toList with
    | '%' :: rest => unhex rest []
    | cs => some (cs.map Char.toNat)

def bytesHash (k : BKey) : Nat := k.foldl (fun h b => (31 * h + b) % 18446744073709551616) 0

def parseVal (s : String) : Option Int := if s == "nil" then some nilValue else s.toInt?

def showVal (t : TypeDesc) (v : Int) : String :=
  match t.val with
  | .obj => if v == nilValue then "-" else toString v
  | .float32 => if f32isNaN v then "nan" else toString v
  | _ => toString v

end HMap.Proto
