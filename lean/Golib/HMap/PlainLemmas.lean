/-
  Golib.HMap.PlainLemmas — C12: the plain bucket maps simulate the finite-map Spec.

  `Rel m s`: the table satisfies its invariant, lookups agree for every key, the count is the number
  of entries.  The order of `s.ents` is not related to the table (a plain hash map has no order);
  enumerations agree up to permutation (`entries_perm`).
-/
import Golib.HMap.Plain
import Golib.HMap.TableLemmas
import Golib.HMap.SpecLemmas

set_option linter.unusedSectionVars false
set_option linter.unusedSimpArgs false

namespace HMap

theorem nodup_of_keys_nodup {K V : Type} {l : List (K × V)} (h : (l.map Prod.fst).Nodup) : l.Nodup :=
  List.Pairwise.of_map Prod.fst (fun a b hab e => hab (by rw [e])) h

namespace PMap
variable {K V : Type} [DecidableEq K] [DecidableEq V]
variable (hash : K → Nat) (thr : Nat → Nat)

structure Rel (d : PDesc K V) (m : PMap K V) (s : PS K V) : Prop where
  tab : m.tab.Inv hash
  get : ∀ k, m.tab.get hash k = AL.get s.ents k
  wf : (AL.keys s.ents).Nodup
  count : m.count = s.ents.length
  max : m.max = s.max
  ok : ∀ k ∈ AL.keys s.ents, d.refuse k = false

variable {hash thr}
variable {d : PDesc K V}

theorem Rel.new (cap : Nat) : Rel hash d (PMap.new thr cap : PMap K V) {} := by
  unfold PMap.new
  refine ⟨?_, by intro k; simp, by simp [AL.keys], rfl, rfl, by simp [AL.keys]⟩
  apply Table.Inv.new; split <;> omega

/-- the enumeration of the table is a permutation of the Spec's entries, each key once -/
theorem entries_perm {m : PMap K V} {s : PS K V} (h : Rel hash d m s) : m.tab.entries.Perm s.ents := by
  rw [List.perm_ext_iff_of_nodup (nodup_of_keys_nodup (Table.entries_keys_nodup hash h.tab)) (nodup_of_keys_nodup h.wf)]
  rintro ⟨k, v⟩
  rw [Table.mem_entries_iff hash h.tab, h.get, AL.get_eq_some_iff h.wf]

theorem any_perm {α : Type} (p : α → Bool) {l₁ l₂ : List α} (h : l₁.Perm l₂) : l₁.any p = l₂.any p := by
  rw [Bool.eq_iff_iff]
  simp only [List.any_eq_true]
  constructor
  · rintro ⟨x, hx, hp⟩; exact ⟨x, h.subset hx, hp⟩
  · rintro ⟨x, hx, hp⟩; exact ⟨x, h.symm.subset hx, hp⟩

/-! ### growth -/

theorem grow_rel {m : PMap K V} {s : PS K V} (h : Rel hash d m s) : Rel hash d (m.grow hash thr) s ∧
    (m.grow hash thr).count = m.count := by
  unfold grow
  split
  · refine ⟨⟨h.tab.rehash hash, ?_, h.wf, h.count, h.max, h.ok⟩, rfl⟩
    intro k; simp only; rw [Table.get_rehash hash h.tab]; exact h.get k
  · exact ⟨h, rfl⟩

/-! ### put / add -/

theorem nodup_append_single {l : List (K × V)} {k : K} {v : V} (hn : (AL.keys l).Nodup) (hk : k ∉ AL.keys l) :
    (AL.keys (l ++ [(k, v)])).Nodup := by
  simp only [AL.keys, List.map_append, List.map_cons, List.map_nil]
  rw [List.nodup_append]
  refine ⟨hn, by simp, ?_⟩
  intro a ha b hb
  simp at hb; subst hb
  intro e; subst e; exact hk ha

theorem putWith_rel {m : PMap K V} {s : PS K V} (h : Rel hash d m s) (k : K) (f : Option V → V)
    (hok : d.refuse k = false) :
    Rel hash d (m.putWith hash thr k f).1 (s.putWith k f).1 ∧ (m.putWith hash thr k f).2 = (s.putWith k f).2 := by
  unfold putWith PS.putWith
  rw [h.get]
  cases hg : AL.get s.ents k with
  | some old =>
    simp only
    have hp : (m.tab.get hash k).isSome := by rw [h.get, hg]; rfl
    refine ⟨⟨h.tab.setExisting hash k _, ?_, ?_, ?_, h.max, ?_⟩, trivial⟩
    · intro x
      simp only
      rw [Table.get_setExisting hash _ h.tab.pos k x _ hp, AL.get_set, hg, h.get]
      by_cases e : k = x <;> simp [e]
    · simp only; rw [AL.keys_set]; exact h.wf
    · simp only; rw [AL.length_set]; exact h.count
    · simp only; rw [AL.keys_set]; exact h.ok
  | none =>
    simp only
    obtain ⟨hr, hc⟩ := grow_rel (thr := thr) h
    have hnone : (m.grow hash thr).tab.get hash k = none := by rw [hr.get, hg]
    have hk : k ∉ AL.keys s.ents := AL.get_none_iff.mp hg
    refine ⟨⟨hr.tab.insertNew hash k _ hnone, ?_, nodup_append_single h.wf hk, ?_, hr.max, ?_⟩, trivial⟩
    · intro x
      simp only
      rw [Table.get_insertNew hash _ hr.tab.pos, AL.get_append, hr.get]
      by_cases e : k = x
      · subst e; simp [hg, AL.get_cons]
      · cases hx : AL.get s.ents x <;> simp [e, AL.get_cons]
    · simp only; rw [hc, h.count]; simp
    · intro x hx
      simp only [AL.keys, List.map_append, List.map_cons, List.map_nil, List.mem_append, List.mem_singleton] at hx
      rcases hx with hx | rfl
      · exact h.ok x hx
      · exact hok

theorem put_rel {m : PMap K V} {s : PS K V} (h : Rel hash d m s) (k : K) (v : V) :
    Rel hash d (m.put hash thr d k v).1 (PS.put d s k v).1 ∧ (m.put hash thr d k v).2 = (PS.put d s k v).2 := by
  unfold put PS.put
  cases hr : d.refuse k with
  | true => simp only [if_true]; exact ⟨h, by first | rfl | trivial⟩
  | false => simp only [Bool.false_eq_true, if_false]; exact putWith_rel h k _ hr

theorem add_rel {m : PMap K V} {s : PS K V} (h : Rel hash d m s) (k : K) (v : V) :
    Rel hash d (m.add hash thr d k v).1 (PS.add d s k v).1 ∧ (m.add hash thr d k v).2 = (PS.add d s k v).2 := by
  unfold add PS.add
  cases hr : d.refuse k with
  | true => simp only [if_true]; exact ⟨h, by first | rfl | trivial⟩
  | false =>
    simp only [Bool.false_eq_true, if_false]
    obtain ⟨a, b⟩ := putWith_rel (thr := thr) h k (S.addv d.toDesc v) hr
    exact ⟨a, by rw [b]⟩

theorem addIfExist_rel {m : PMap K V} {s : PS K V} (h : Rel hash d m s) (k : K) (v : V) :
    Rel hash d (m.addIfExist hash d k v).1 (PS.addIfExist d s k v).1 ∧
    (m.addIfExist hash d k v).2 = (PS.addIfExist d s k v).2 := by
  unfold addIfExist PS.addIfExist
  rw [h.get]
  cases hg : AL.get s.ents k with
  | none => exact ⟨h, by first | rfl | trivial⟩
  | some old =>
    simp only
    have hp : (m.tab.get hash k).isSome := by rw [h.get, hg]; rfl
    refine ⟨⟨h.tab.setExisting hash k _, ?_, ?_, ?_, h.max, ?_⟩, trivial⟩
    · intro x
      simp only
      rw [Table.get_setExisting hash _ h.tab.pos k x _ hp, AL.get_set, hg, h.get]
      by_cases e : k = x <;> simp [e]
    · simp only; rw [AL.keys_set]; exact h.wf
    · simp only; rw [AL.length_set]; exact h.count
    · simp only; rw [AL.keys_set]; exact h.ok

/-! ### remove / clear -/

theorem remove_rel {m : PMap K V} {s : PS K V} (h : Rel hash d m s) (k : K) :
    Rel hash d (m.remove hash k).1 { s with ents := AL.erase s.ents k } ∧ (m.remove hash k).2 = AL.get s.ents k := by
  unfold remove
  rw [h.get]
  cases hg : AL.get s.ents k with
  | none =>
    simp only
    have hk : k ∉ AL.keys s.ents := AL.get_none_iff.mp hg
    rw [AL.erase_of_not_mem hk]
    exact ⟨h, trivial⟩
  | some v =>
    simp only
    have hk : k ∈ AL.keys s.ents := AL.get_isSome_iff.mp (by rw [hg]; rfl)
    refine ⟨⟨h.tab.del hash k, ?_, AL.nodup_erase k h.wf, ?_, h.max, ?_⟩, trivial⟩
    · intro x
      simp only
      rw [Table.get_del hash _ h.tab, AL.get_erase, h.get]
    · simp only
      have := AL.length_erase_of_mem h.wf hk
      rw [h.count]; omega
    · intro x hx
      simp only at hx
      exact h.ok x ((AL.erase_sublist s.ents k).map _ |>.subset hx)

theorem clear_rel {m : PMap K V} {s : PS K V} (h : Rel hash d m s) : Rel hash d m.clear { s with ents := [] } := by
  unfold clear
  exact ⟨h.tab.clear hash, by intro k; simp, by simp [AL.keys], rfl, h.max, by simp [AL.keys]⟩

/-! ### putAll, sort -/

theorem foldl_put_rel (l : List (K × V)) {m : PMap K V} {s : PS K V} (h : Rel hash d m s) :
    Rel hash d (l.foldl (fun acc e => (acc.put hash thr d e.1 e.2).1) m)
      (l.foldl (fun acc e => (PS.put d acc e.1 e.2).1) s) := by
  induction l generalizing m s with
  | nil => exact h
  | cons e t ih =>
    simp only [List.foldl_cons]
    exact ih (put_rel (thr := thr) h e.1 e.2).1

/-- inserting a key-distinct list into the empty finite map yields that list -/
theorem foldl_put_fresh (l acc : List (K × V)) (mx : Nat) (hn : (AL.keys (acc ++ l)).Nodup)
    (hok : ∀ e ∈ l, d.refuse e.1 = false) :
    l.foldl (fun s e => (PS.put d s e.1 e.2).1) { ents := acc, max := mx } = { ents := acc ++ l, max := mx } := by
  induction l generalizing acc with
  | nil => simp
  | cons e t ih =>
    obtain ⟨k, v⟩ := e
    simp only [List.foldl_cons]
    have hk : d.refuse k = false := hok (k, v) (by simp)
    have hnk : k ∉ AL.keys acc := by
      intro hh
      rw [S.keys_append, List.nodup_append] at hn
      exact hn.2.2 k hh k (by simp [AL.keys]) rfl
    have hput : (PS.put d { ents := acc, max := mx } k v).1 = { ents := acc ++ [(k, v)], max := mx } := by
      unfold PS.put PS.putWith
      simp only [hk, Bool.false_eq_true, if_false, AL.get_none_iff.mpr hnk]
    rw [hput, ih (acc ++ [(k, v)]) (by simpa using hn) (fun e he => hok e (by simp [he]))]
    simp

theorem sort_rel {m : PMap K V} {s : PS K V} (h : Rel hash d m s) (lt : K → K → Bool) :
    Rel hash d (m.sort hash thr d lt) s := by
  unfold sort
  have hperm : (AL.sortEnts lt m.tab.entries).Perm s.ents :=
    (List.mergeSort_perm _ _).trans (entries_perm h)
  have hn : (AL.keys (AL.sortEnts lt m.tab.entries)).Nodup := (hperm.map Prod.fst).symm.nodup h.wf
  have hok : ∀ e ∈ AL.sortEnts lt m.tab.entries, d.refuse e.1 = false := by
    intro e he
    exact h.ok e.1 (List.mem_map.mpr ⟨e, hperm.subset he, rfl⟩)
  have hr := foldl_put_rel (thr := thr) (AL.sortEnts lt m.tab.entries) (clear_rel h)
  rw [foldl_put_fresh _ [] s.max (by simpa using hn) hok] at hr
  simp only [List.nil_append] at hr
  refine ⟨hr.tab, ?_, h.wf, ?_, hr.max, h.ok⟩
  · intro k
    rw [hr.get]
    apply Option.ext
    intro v
    rw [AL.get_eq_some_iff hn, AL.get_eq_some_iff h.wf]
    exact ⟨fun hh => hperm.subset hh, fun hh => hperm.symm.subset hh⟩
  · rw [hr.count]; exact hperm.length_eq

end PMap
end HMap
