/-
  Golib.HMap.Spec — what C09 / C12 promise: a bounded insertion-ordered dictionary.

  State: an association list with distinct keys (front = first in iteration order) and `max`
  (0 = unbounded).  This file is the reference the Go code is compared with (tie B runs *this*
  definition in the driver) and the target of the refinement theorems.

    put k v      present → value replaced in place, previous value returned
                 absent  → while length ≥ max > 0 the FIRST entry is evicted; (k,v) appended; absent returned
    putLast k v  present → replaced and moved to the back;  absent → as put
    putFirst k v present → replaced and moved to the front; absent → evict from the BACK, prepend
    add*         as put* but the stored value of a present key becomes `comb old v`
    addNoOver    as add, but an absent key is *not* inserted when the map is full
    getLRU k     get, and move to the back
    sort lt      entries reordered by key under `lt`; re-inserted under the bound (the last `max` remain)

  Per-type parameters (`Desc`): `comb`, and the two recorded deviations around empty string keys
  (`refuse`: put/add of that key are ignored;  `blind`: contains never sees that key).  A *regular*
  descriptor has neither.
-/

namespace HMap

inductive Mode | last | forceLast | forceFirst | first
  deriving DecidableEq, Repr

def Mode.atFront : Mode → Bool
  | .forceFirst | .first => true
  | _ => false

structure Desc (K V : Type) where
  comb   : V → V → V
  veq    : V → V → Bool      -- the `==` of ContainsValue (float ==: NaN ≠ NaN, +0 = -0; otherwise equality)
  refuse : K → Bool := fun _ => false
  blind  : K → Bool := fun _ => false

def Desc.regular {K V : Type} (d : Desc K V) : Prop := (∀ k, d.refuse k = false) ∧ (∀ k, d.blind k = false)

inductive Out (K V : Type)
  | unit | none | val (v : V) | key (k : K) | bool (b : Bool) | nat (n : Nat)
  | keys (ks : List K) | vals (vs : List V) | ents (es : List (K × V))
  deriving DecidableEq, Repr

def Out.isTrue {K V : Type} : Out K V → Bool
  | .bool b => b
  | _ => false

def Out.ofVal {K V : Type} : Option V → Out K V
  | some v => .val v
  | Option.none => .none

def Out.ofKey {K V : Type} : Option K → Out K V
  | some k => .key k
  | Option.none => .none

inductive Op (K V : Type)
  | put (m : Mode) (k : K) (v : V)
  | add (m : Mode) (k : K) (v : V)
  | addNoOver (k : K) (v : V)
  | get (k : K) | getLRU (k : K) | containsKey (k : K) | containsValue (v : V)
  | firstKey | lastKey | firstValue | lastValue
  | remove (k : K) | removeFirst | removeLast | clear
  | size | isEmpty | isFull | setMax (n : Nat)
  | sort (lt : K → K → Bool)
  | keys | values | entries

/-! ### association lists -/
namespace AL
variable {K V : Type} [DecidableEq K]

def get : List (K × V) → K → Option V
  | [], _ => none
  | (a, b) :: t, k => if a = k then some b else get t k

def erase (l : List (K × V)) (k : K) : List (K × V) := l.filter (fun e => !decide (e.1 = k))

def set (l : List (K × V)) (k : K) (v : V) : List (K × V) :=
  l.map (fun e => if e.1 = k then (e.1, v) else e)

/-- the eviction loop before an insertion at the back: `for count >= max { remove(first) }` -/
def evictFront (l : List (K × V)) (max : Nat) : List (K × V) :=
  if 0 < max ∧ max ≤ l.length then l.drop (l.length + 1 - max) else l

/-- the eviction loop before an insertion at the front: `for count >= max { remove(last) }` -/
def evictBack (l : List (K × V)) (max : Nat) : List (K × V) :=
  if 0 < max ∧ max ≤ l.length then l.take (max - 1) else l

def insertNew (m : Mode) (l : List (K × V)) (max : Nat) (k : K) (v : V) : List (K × V) :=
  if m.atFront then (k, v) :: evictBack l max else evictFront l max ++ [(k, v)]

/-- a present key receives value `v`; the forced modes also move it -/
def touch (m : Mode) (l : List (K × V)) (k : K) (v : V) : List (K × V) :=
  match m with
  | .forceFirst => (k, v) :: erase l k
  | .forceLast => erase l k ++ [(k, v)]
  | _ => set l k v

def sortEnts (lt : K → K → Bool) (l : List (K × V)) : List (K × V) :=
  l.mergeSort (fun a b => !(lt b.1 a.1))

/-- re-insertion of `l` with put (mode last) into an empty map bounded by `max` keeps the last `max` -/
def keepLast (max : Nat) (l : List (K × V)) : List (K × V) :=
  if 0 < max ∧ max < l.length then l.drop (l.length - max) else l

end AL

/-! ### the dictionary -/
structure S (K V : Type) where
  ents : List (K × V) := []
  max : Nat := 0

namespace S
variable {K V : Type} [DecidableEq K] [DecidableEq V]

def putWith (s : S K V) (m : Mode) (k : K) (newv : Option V → V) : S K V × Option V :=
  match AL.get s.ents k with
  | some old => ({ s with ents := AL.touch m s.ents k (newv (some old)) }, some old)
  | none => ({ s with ents := AL.insertNew m s.ents s.max k (newv none) }, none)

def put (d : Desc K V) (s : S K V) (m : Mode) (k : K) (v : V) : S K V × Option V :=
  if d.refuse k then (s, none) else s.putWith m k (fun _ => v)

def addv (d : Desc K V) (v : V) : Option V → V
  | some old => d.comb old v
  | none => v

def add (d : Desc K V) (s : S K V) (m : Mode) (k : K) (v : V) : S K V × Option V :=
  if d.refuse k then (s, none) else s.putWith m k (addv d v)

def isFull (s : S K V) : Bool := decide (0 < s.max ∧ s.max ≤ s.ents.length)

def addNoOver (d : Desc K V) (s : S K V) (k : K) (v : V) : S K V × Option V :=
  if d.refuse k then (s, none) else
  match AL.get s.ents k with
  | some old => ({ s with ents := AL.set s.ents k (d.comb old v) }, some old)
  | none => if s.isFull then (s, none) else ({ s with ents := s.ents ++ [(k, v)] }, none)

def remove (s : S K V) (k : K) : S K V × Option V :=
  ({ s with ents := AL.erase s.ents k }, AL.get s.ents k)

def step (d : Desc K V) (s : S K V) : Op K V → S K V × Out K V
  | .put m k v => let r := put d s m k v; (r.1, .ofVal r.2)
  | .add m k v => let r := add d s m k v; (r.1, .ofVal r.2)
  | .addNoOver k v => let r := addNoOver d s k v; (r.1, .ofVal r.2)
  | .get k => (s, .ofVal (AL.get s.ents k))
  | .getLRU k =>
    match AL.get s.ents k with
    | some v => ({ s with ents := AL.erase s.ents k ++ [(k, v)] }, .val v)
    | none => (s, .none)
  | .containsKey k => (s, .bool (!d.blind k && (AL.get s.ents k).isSome))
  | .containsValue v => (s, .bool (s.ents.any (fun e => d.veq e.2 v)))
  | .firstKey => (s, .ofKey (s.ents.head?.map (·.1)))
  | .lastKey => (s, .ofKey (s.ents.getLast?.map (·.1)))
  | .firstValue => (s, .ofVal (s.ents.head?.map (·.2)))
  | .lastValue => (s, .ofVal (s.ents.getLast?.map (·.2)))
  | .remove k => let r := remove s k; (r.1, .ofVal r.2)
  | .removeFirst =>
    match s.ents with
    | [] => (s, .none)
    | (_, v) :: t => ({ s with ents := t }, .val v)
  | .removeLast =>
    match s.ents.getLast? with
    | Option.none => (s, .none)
    | some (_, v) => ({ s with ents := s.ents.dropLast }, .val v)
  | .clear => ({ s with ents := [] }, .unit)
  | .size => (s, .nat s.ents.length)
  | .isEmpty => (s, .bool s.ents.isEmpty)
  | .isFull => (s, .bool s.isFull)
  | .setMax n => ({ s with max := n }, .unit)
  | .sort lt => ({ s with ents := AL.keepLast s.max (AL.sortEnts lt s.ents) }, .unit)
  | .keys => (s, .keys (s.ents.map (·.1)))
  | .values => (s, .vals (s.ents.map (·.2)))
  | .entries => (s, .ents s.ents)

/-- run a history; outputs in order -/
def run (d : Desc K V) : S K V → List (Op K V) → S K V × List (Out K V)
  | s, [] => (s, [])
  | s, op :: ops =>
    let r := step d s op
    let rr := run d r.1 ops
    (rr.1, r.2 :: rr.2)

end S
end HMap
